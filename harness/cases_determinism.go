//go:build verif

package main

import (
	"context"
	"fmt"
	"os"
	"os/exec"
	"strings"
	"sync"

	"github.com/herohde/morlock/pkg/board"
	"github.com/herohde/morlock/pkg/board/fen"
	"github.com/herohde/morlock/pkg/engine"
	"github.com/herohde/morlock/pkg/search"
	"github.com/herohde/morlock/pkg/search/searchctl"
	"github.com/seekerror/stdlib/pkg/lang"
)

func init() { caseGens["C18"] = casesDeterminism }

type analysis struct {
	lines []string // one token per reported depth: depth:nodes:score:pv
}

func (a analysis) String() string { return strings.Join(a.lines, " | ") }

// analyse sets up the game (fen + moves) on the engine and runs a depth-limited analysis to the end.
func analyse(ctx context.Context, e *engine.Engine, f string, moves []string, depth uint) (analysis, string, bool) {
	if err := e.Reset(ctx, f); err != nil {
		return analysis{}, "", false
	}
	for _, m := range moves {
		if err := e.Move(ctx, m); err != nil {
			return analysis{}, "", false
		}
	}
	before := e.Position() + " " + boardObs(board.NewZobristTable(0), e.Board(), true)[2:]
	out, err := e.Analyze(ctx, searchctl.Options{DepthLimit: lang.Some(depth)})
	if err != nil {
		return analysis{}, "", false
	}
	var last search.PV
	for pv := range out {
		last = pv
	}
	_, _ = e.Halt(ctx)
	after := e.Position() + " " + boardObs(board.NewZobristTable(0), e.Board(), true)[2:]
	if after != before {
		return analysis{}, fmt.Sprintf("engine game changed by analysing: [%s] -> [%s]", before, after), true
	}
	return analysis{[]string{pvinfoTok(last)}}, "", true
}

// shuffleCycle finds a reversible 4-ply cycle (x, y, x back, y back) of officer moves in the position.
func shuffleCycle(c *caseCtx, s state) ([]string, bool) {
	xs := legalMoves(s.pos, s.turn)
	c.r.Shuffle(len(xs), func(i, j int) { xs[i], xs[j] = xs[j], xs[i] })
	for _, x := range xs {
		if x.Type != board.Normal || x.Piece == board.King || x.Piece == board.Pawn {
			continue
		}
		p1, _ := s.pos.Move(x)
		for _, y := range legalMoves(p1, s.turn.Opponent()) {
			if y.Type != board.Normal || y.Piece == board.King || y.Piece == board.Pawn {
				continue
			}
			p2, _ := p1.Move(y)
			xb := board.Move{Type: board.Normal, Piece: x.Piece, From: x.To, To: x.From}
			p3, ok := p2.Move(xb)
			if !ok {
				continue
			}
			yb := board.Move{Type: board.Normal, Piece: y.Piece, From: y.To, To: y.From}
			if _, ok := p3.Move(yb); !ok {
				continue
			}
			return []string{uciMove(x), uciMove(y), uciMove(xb), uciMove(yb)}, true
		}
	}
	return nil, false
}

// outAndBack: three plies - an officer of the side to move goes out, the opponent makes any quiet
// move, the officer returns: the final position has one side's piece "moved" although it stands at home.
func outAndBack(c *caseCtx, s state) ([]string, bool) {
	xs := legalMoves(s.pos, s.turn)
	c.r.Shuffle(len(xs), func(i, j int) { xs[i], xs[j] = xs[j], xs[i] })
	for _, x := range xs {
		if x.Type != board.Normal || x.Piece == board.King || x.Piece == board.Pawn {
			continue
		}
		p1, _ := s.pos.Move(x)
		ys := legalMoves(p1, s.turn.Opponent())
		c.r.Shuffle(len(ys), func(i, j int) { ys[i], ys[j] = ys[j], ys[i] })
		for _, y := range ys {
			if y.IsCapture() {
				continue
			}
			p2, _ := p1.Move(y)
			for _, xb := range legalMoves(p2, s.turn) {
				if xb.Type == board.Normal && xb.From == x.To && xb.To == x.From {
					return []string{uciMove(x), uciMove(y), uciMove(xb)}, true
				}
			}
		}
	}
	return nil, false
}

// twoOutAndBacks: two three-ply lines [x1 y x1-back] and [x2 y x2-back] with different officers x1, x2 of
// the side to move and the same quiet reply y: same final position, same number of plies, but different
// pieces have moved.
func twoOutAndBacks(c *caseCtx, s state) ([]string, []string, bool) {
	xs := legalMoves(s.pos, s.turn)
	c.r.Shuffle(len(xs), func(i, j int) { xs[i], xs[j] = xs[j], xs[i] })
	var offs []board.Move
	for _, x := range xs {
		if x.Type == board.Normal && x.Piece != board.King && x.Piece != board.Pawn {
			offs = append(offs, x)
		}
	}
	for i := 0; i < len(offs); i++ {
		for j := i + 1; j < len(offs); j++ {
			x1, x2 := offs[i], offs[j]
			if x1.From == x2.From {
				continue
			}
			p1, _ := s.pos.Move(x1)
			for _, y := range legalMoves(p1, s.turn.Opponent()) {
				if y.IsCapture() || y.Type != board.Normal && y.Type != board.Push {
					continue
				}
				line := func(x board.Move) ([]string, *board.Position, bool) {
					a, ok := s.pos.Move(x)
					if !ok {
						return nil, nil, false
					}
					var yy board.Move
					found := false
					for _, m := range legalMoves(a, s.turn.Opponent()) {
						if m.Equals(y) && m.Type == y.Type {
							yy, found = m, true
						}
					}
					if !found {
						return nil, nil, false
					}
					b2, _ := a.Move(yy)
					for _, xb := range legalMoves(b2, s.turn) {
						if xb.Type == board.Normal && xb.From == x.To && xb.To == x.From {
							end, _ := b2.Move(xb)
							return []string{uciMove(x), uciMove(yy), uciMove(xb)}, end, true
						}
					}
					return nil, nil, false
				}
				l1, e1, ok1 := line(x1)
				l2, e2, ok2 := line(x2)
				if ok1 && ok2 && *e1 == *e2 {
					return l1, l2, true
				}
			}
		}
	}
	return nil, nil, false
}

// asymmetricExcursions: two eight-ply lines from s that both return to the position of s without
// repeating it in between, such that in the first the side to move has taken two officers out and back
// and the opponent one, in the second the other way round: same position, same ply, same hash, but
// different pieces count as moved.
func asymmetricExcursions(c *caseCtx, s state) ([]string, []string, bool) {
	type ft struct{ from, to board.Square }
	offs := func(p *board.Position, t board.Color) []ft {
		var r []ft
		for _, m := range legalMoves(p, t) {
			if m.Type == board.Normal && m.Piece != board.King && m.Piece != board.Pawn {
				r = append(r, ft{m.From, m.To})
			}
		}
		c.r.Shuffle(len(r), func(i, j int) { r[i], r[j] = r[j], r[i] })
		return r
	}
	play := func(seq []ft) ([]string, *board.Position, bool) {
		p, t := s.pos, s.turn
		var out []string
		for _, x := range seq {
			found := false
			for _, m := range legalMoves(p, t) {
				if m.From == x.from && m.To == x.to && m.Type == board.Normal {
					next, ok := p.Move(m)
					if !ok {
						return nil, nil, false
					}
					out = append(out, uciMove(m))
					p, t, found = next, t.Opponent(), true
					break
				}
			}
			if !found {
				return nil, nil, false
			}
		}
		return out, p, true
	}
	back := func(x ft) ft { return ft{x.to, x.from} }
	xs := offs(s.pos, s.turn)
	// the opponent's officers, seen from the position itself (side switched)
	ys := offs(s.pos, s.turn.Opponent())
	for i := 0; i < len(xs) && i < 6; i++ {
		for j := 0; j < len(xs) && j < 6; j++ {
			if xs[i].from == xs[j].from {
				continue
			}
			for k := 0; k < len(ys) && k < 6; k++ {
				for l := 0; l < len(ys) && l < 6; l++ {
					if ys[k].from == ys[l].from {
						continue
					}
					x1, x2, y1, y2 := xs[i], xs[j], ys[k], ys[l]
					a, ea, oka := play([]ft{x1, y1, x2, back(y1), back(x1), y1, back(x2), back(y1)})
					b, eb, okb := play([]ft{x1, y1, back(x1), y2, x1, back(y1), back(x1), back(y2)})
					if oka && okb && *ea == *s.pos && *eb == *s.pos {
						return a, b, true
					}
				}
			}
		}
	}
	return nil, nil, false
}

// runDetChild (separate process): analyses "fen|moves|depth" one after the other, each on an engine of its
// own, and prints the result of the last one.
func runDetChild(name string, specs []string) {
	ctx := context.Background()
	var last analysis
	for _, sp := range specs {
		parts := strings.Split(sp, "|")
		if len(parts) != 3 {
			continue
		}
		var depth uint
		fmt.Sscan(parts[2], &depth)
		e, _ := bundledEngineSeed(ctx, name, 0, 0, 0, 0)
		a, _, ok := analyse(ctx, e, parts[0], strings.Fields(parts[1]), depth)
		if ok {
			last = a
		}
	}
	fmt.Println("RESULT " + last.String())
}

// processStateChecks: what an analysis returns does not depend on what OTHER engines in the same process
// analysed before (no state outside the engine): the analysis of B alone in a fresh process equals the
// analysis of B after A in one process, for pairs A, B that reach the same position with different
// histories (castled or walked by hand, set up from a FEN or played).
func processStateChecks(c *caseCtx) {
	type pair struct{ a, b string }
	castled := "rnbqkbnr/pppppppp/8/8/8/8/PPPPPPPP/RNBQKBNR w KQkq - 0 1|e2e4 e7e5 g1f3 b8c6 f1c4 f8c5 e1g1|2"
	bare := "r1bqk1nr/pppp1ppp/2n5/2b1p3/2B1P3/5N2/PPPP1PPP/RNBQ1RK1 b kq - 5 4||2"
	hand := "4k3/pppppppp/8/8/8/8/PPPPP1PP/4K2R w K - 0 1|h1f1 e8d8 e1f2 d8e8 f2g1|2"
	cast := "4k3/pppppppp/8/8/8/8/PPPPP1PP/4K2R w K - 0 1|e1g1|2"
	pairs := []pair{{castled, bare}, {bare, castled}, {hand, cast}, {cast, hand}}
	n := 0
	for _, name := range []string{"turochamp", "sargon", "bernstein", "morlock"} {
		for i, p := range pairs {
			if name != "turochamp" && name != "sargon" && i > 1 {
				continue
			}
			run := func(specs ...string) (string, bool) {
				cmd := exec.Command(os.Args[0], append([]string{"det-child", name}, specs...)...)
				out, err := cmd.Output()
				if err != nil {
					return "", false
				}
				for _, l := range strings.Split(string(out), "\n") {
					if strings.HasPrefix(l, "RESULT ") {
						return l[7:], true
					}
				}
				return "", false
			}
			alone, ok1 := run(p.b)
			after, ok2 := run(p.a, p.b)
			n++
			if ok1 && ok2 && alone != after {
				fmt.Printf("IMPLVIOL determinism %s second=%q first=%q :: analysed after the other game in the same process the engine returns [%s], alone in a process [%s] prop=C18 key=process-state\n", name, p.b, p.a, after, alone)
			}
		}
	}
	fmt.Printf("COUNT process-state %d\n", n)
}

// C18: what a search returns depends only on the game state and the depth.
func casesDeterminism(c *caseCtx) {
	ctx := context.Background()
	processStateChecks(c)
	manyNewGamesChecks(c, "C18")
	engines := []string{"morlock", "turochamp", "bernstein", "sargon"}
	n := 0
	viol := func(key, what string) {
		fmt.Printf("IMPLVIOL determinism %s prop=C18 key=%s\n", what, key)
	}
	for g := 0; g < c.scale(24, 600); g++ {
		name := engines[g%len(engines)]
		depth := uint(1 + c.r.Intn(2))
		if name == "morlock" {
			depth = uint(2 + c.r.Intn(2))
		}
		// a game: random opening moves from the start or a curated position
		f := fen.Initial
		if c.r.Intn(3) == 0 {
			f = curatedFENs[1+c.r.Intn(5)]
		}
		pos, turn, _, _, err := fen.Decode(f)
		if err != nil {
			continue
		}
		cur := state{pos, turn}
		var moves []string
		for k := 0; k < c.r.Intn(8); k++ {
			ms := legalMoves(cur.pos, cur.turn)
			if len(ms) == 0 {
				break
			}
			m := pickMove(c, ms)
			next, _ := cur.pos.Move(m)
			moves = append(moves, uciMove(m))
			cur = state{next, cur.turn.Opponent()}
		}
		mk := func(seed int64, noise uint) *engine.Engine {
			e, _ := bundledEngineSeed(ctx, name, 0, noise, 0, seed)
			return e
		}
		label := fmt.Sprintf("%s depth=%d fen=%q moves=[%s]", name, depth, f, strings.Join(moves, " "))
		ref, msg, ok := analyse(ctx, mk(0, 0), f, moves, depth)
		if !ok {
			continue
		}
		if msg != "" {
			viol("analyze-mutates", label+" :: "+msg)
			continue
		}
		n++
		// (1) repeated on a fresh engine and on the same engine
		e := mk(0, 0)
		for rep := 0; rep < 2; rep++ {
			a, _, ok := analyse(ctx, e, f, moves, depth)
			if ok && a.String() != ref.String() {
				viol("repeat", fmt.Sprintf("%s :: repeated search returned [%s], first [%s]", label, a, ref))
			}
		}
		// (2) a different hash seed
		for _, seed := range []int64{1, 99} {
			a, _, ok := analyse(ctx, mk(seed, 0), f, moves, depth)
			if ok && a.String() != ref.String() {
				viol("hash-seed", fmt.Sprintf("%s :: with hash seed %d the search returned [%s], with seed 0 [%s]", label, seed, a, ref))
			}
		}
		// (3) other searches before it on the same engine: an unrelated game, and the same position with a
		// different history (a reversible 4-ply shuffle appended: same position and hash, other history)
		e = mk(0, 0)
		_, _, _ = analyse(ctx, e, fen.Initial, []string{"e2e4", "e7e5"}, 1)
		if cyc, ok := shuffleCycle(c, cur); ok {
			// first the shorter game, then the longer one with the same final position
			_, _, _ = analyse(ctx, e, f, moves, depth)
			long := append(append([]string{}, moves...), cyc...)
			a, _, ok1 := analyse(ctx, e, f, long, depth)
			b, _, ok2 := analyse(ctx, mk(0, 0), f, long, depth)
			if ok1 && ok2 && a.String() != b.String() {
				viol("history-carry-over", fmt.Sprintf("%s + [%s] :: after searching the same position with another history the engine returned [%s], a fresh engine [%s]", label, strings.Join(cyc, " "), a, b))
			}
			// and back to the shorter game
			a, _, ok1 = analyse(ctx, e, f, moves, depth)
			if ok1 && a.String() != ref.String() {
				viol("history-carry-over", fmt.Sprintf("%s :: after other searches the engine returned [%s], first [%s]", label, a, ref))
			}
		} else {
			a, _, ok1 := analyse(ctx, e, f, moves, depth)
			if ok1 && a.String() != ref.String() {
				viol("other-search-before", fmt.Sprintf("%s :: after another search the engine returned [%s], alone [%s]", label, a, ref))
			}
		}
		// (4) alongside other engines
		var wg sync.WaitGroup
		res := make([]analysis, 3)
		for i := range res {
			wg.Add(1)
			go func(i int) {
				defer wg.Done()
				res[i], _, _ = analyse(ctx, mk(0, 0), f, moves, depth)
			}(i)
		}
		wg.Wait()
		for i := range res {
			if len(res[i].lines) > 0 && res[i].String() != ref.String() {
				viol("concurrent", fmt.Sprintf("%s :: concurrently with other engines the search returned [%s], alone [%s]", label, res[i], ref))
			}
		}
		// (7) the same position (same hash) searched before as a set-up position without history: the game
		// state differs (moved pieces, castled flags, move numbers), and nothing of that search may carry over
		{
			// make sure that some piece stands at home but has moved
			if oab, ok := outAndBack(c, cur); ok && c.r.Intn(3) > 0 {
				moves7 := append(append([]string{}, moves...), oab...)
				if bb := boardFrom(f, moves7); bb != nil {
					bare := fen.Encode(bb.Position(), bb.Turn(), bb.NoProgress(), bb.FullMoves())
					if ref7, _, ok7 := analyse(ctx, mk(0, 0), f, moves7, depth); ok7 {
						e7 := mk(0, 0)
						_, _, _ = analyse(ctx, e7, bare, nil, depth)
						a, _, ok1 := analyse(ctx, e7, f, moves7, depth)
						if ok1 && a.String() != ref7.String() {
							viol("history-carry-over", fmt.Sprintf("%s + [%s] :: after searching the same position set up from its FEN (no history) the engine returned [%s], a new engine [%s]", label, strings.Join(oab, " "), a, ref7))
						}
					}
				}
			}
		}
		if len(moves) > 0 {
			if bb := boardFrom(f, moves); bb != nil {
				bare := fen.Encode(bb.Position(), bb.Turn(), bb.NoProgress(), bb.FullMoves())
				e7 := mk(0, 0)
				_, _, _ = analyse(ctx, e7, bare, nil, depth)
				a, _, ok1 := analyse(ctx, e7, f, moves, depth)
				if ok1 && a.String() != ref.String() {
					viol("history-carry-over", fmt.Sprintf("%s :: after searching the same position set up from its FEN (no history) the engine returned [%s], a new engine [%s]", label, a, ref))
				}
				// and the other way round
				refBare, _, okb := analyse(ctx, mk(0, 0), bare, nil, depth)
				b2, _, ok2 := analyse(ctx, e7, bare, nil, depth)
				if okb && ok2 && b2.String() != refBare.String() {
					viol("history-carry-over", fmt.Sprintf("%s :: set up from its FEN after searching the game, the engine returned [%s], a new engine [%s]", label, b2, refBare))
				}
			}
		}
		// (8) two games that end in the same position after the same number of plies but in which different
		// pieces have moved: the second is searched after the first on one engine
		if l1, l2, ok := twoOutAndBacks(c, cur); ok {
			ga := append(append([]string{}, moves...), l1...)
			gb := append(append([]string{}, moves...), l2...)
			if refB, _, okB := analyse(ctx, mk(0, 0), f, gb, depth); okB {
				e8 := mk(0, 0)
				_, _, _ = analyse(ctx, e8, f, ga, depth)
				a, _, ok1 := analyse(ctx, e8, f, gb, depth)
				if ok1 && a.String() != refB.String() {
					viol("history-carry-over", fmt.Sprintf("%s + [%s] after [%s] :: the engine returned [%s], a new engine [%s]", label, strings.Join(l2, " "), strings.Join(l1, " "), a, refB))
				}
			}
		}
		// (9) as (8) with asymmetric excursions (two officers of one side and one of the other have moved,
		// or the other way round)
		if l1, l2, ok := asymmetricExcursions(c, cur); ok {
			ga := append(append([]string{}, moves...), l1...)
			gb := append(append([]string{}, moves...), l2...)
			if refB, _, okB := analyse(ctx, mk(0, 0), f, gb, depth); okB {
				e9 := mk(0, 0)
				_, _, _ = analyse(ctx, e9, f, ga, depth)
				a, _, ok1 := analyse(ctx, e9, f, gb, depth)
				if ok1 && a.String() != refB.String() {
					viol("history-carry-over", fmt.Sprintf("%s + [%s] after [%s] :: the engine returned [%s], a new engine [%s]", label, strings.Join(l2, " "), strings.Join(l1, " "), a, refB))
				}
			}
		}
		// (6) with a hash table: setting a position up starts from an empty table, so nothing is carried
		// over from the searches before the set-up - the answer equals that of a new engine with the same options
		mkh := func() *engine.Engine {
			if g%2 == 0 {
				// the default table factory of pkg/engine (size taken from the Hash option)
				return engine.New(ctx, "t", "t", bundledSearch(name), engine.WithOptions(engine.Options{Hash: 1}))
			}
			e, _ := bundledEngineSeed(ctx, name, 1, 0, 0, 0)
			return e
		}
		if refH, _, okH := analyse(ctx, mkh(), f, moves, depth); okH {
			eh := mkh()
			_, _, _ = analyse(ctx, eh, f, moves, depth+1)
			a, _, ok1 := analyse(ctx, eh, f, moves, depth)
			if ok1 && a.String() != refH.String() {
				viol("table-carried-over", fmt.Sprintf("%s hash=1 :: after a deeper search of the same game and a new set-up the engine returned [%s], a new engine [%s]", label, a, refH))
			}
			if ms := legalMoves(cur.pos, cur.turn); len(ms) > 0 {
				next := append(append([]string{}, moves...), uciMove(ms[c.r.Intn(len(ms))]))
				b1, _, ok1 := analyse(ctx, eh, f, next, depth)
				b2, _, ok2 := analyse(ctx, mkh(), f, next, depth)
				if ok1 && ok2 && b1.String() != b2.String() {
					viol("table-carried-over", fmt.Sprintf("%s hash=1 next=%s :: after searching the previous position and a new set-up the engine returned [%s], a new engine [%s]", label, next[len(next)-1], b1, b2))
				}
			}
		}
		// (5) with noise on: reproducible from the seed
		a1, _, ok1 := analyse(ctx, mk(7, 10), f, moves, depth)
		a2, _, ok2 := analyse(ctx, mk(7, 10), f, moves, depth)
		if ok1 && ok2 && a1.String() != a2.String() {
			viol("noise-seed", fmt.Sprintf("%s :: with noise and the same seed two engines returned [%s] and [%s]", label, a1, a2))
		}
	}
	fmt.Printf("COUNT determinism %d\n", n)
}
