//go:build verif

package main

import (
	"context"
	"fmt"
	"math/rand"
	"strings"
	"sync"

	"github.com/herohde/morlock/pkg/board"
	"github.com/herohde/morlock/pkg/eval"
	"github.com/herohde/morlock/pkg/search"
)

func init() { caseGens["C17"] = casesTT }

// C17 (sequential part): random Read/Write/Used sequences on tables of several sizes; few distinct
// hashes per slot so that replacement, refusal and hash mismatch all occur.
func casesTT(c *caseCtx) {
	ctx := context.Background()
	// tables made by one factory value are independent objects (two engines built from one option list,
	// or a search still holding the previous table when the next one is created)
	for _, mk := range []func(context.Context, uint64) search.TranspositionTable{search.NewMinDepthTranspositionTable(1), search.NewMinDepthTranspositionTable(0), search.NewTranspositionTable} {
		t1 := mk(ctx, 1024)
		t1.Write(board.ZobristHash(0x1234), search.ExactBound, 3, 4, eval.HeuristicScore(1), board.Move{From: 1, To: 2})
		t2 := mk(ctx, 1024)
		if _, _, _, _, ok := t2.Read(board.ZobristHash(0x1234)); ok {
			fmt.Printf("IMPLVIOL ttfactory :: a table created after a store into its sibling returns that store: lookup hit in a table nobody wrote to prop=C17 key=factory-shared\n")
		}
		if _, d, _, _, ok := t1.Read(board.ZobristHash(0x1234)); !ok || d != 4 {
			fmt.Printf("IMPLVIOL ttfactory :: creating a second table from the same factory emptied the first one (found=%v depth=%d) prop=C17 key=factory-shared\n", ok, d)
		}
		t2.Write(board.ZobristHash(0x9999), search.ExactBound, 3, 5, eval.HeuristicScore(2), board.Move{From: 3, To: 4})
		if _, _, _, _, ok := t1.Read(board.ZobristHash(0x9999)); ok {
			fmt.Printf("IMPLVIOL ttfactory :: a store into the second table is visible in the first prop=C17 key=factory-shared\n")
		}
		if u1, u2 := t1.Used(), t2.Used(); u1 <= 0 || u2 <= 0 || u1 > 1 || u2 > 1 {
			fmt.Printf("IMPLVIOL ttfactory :: fill fractions %v and %v after one store each prop=C17 key=factory-shared\n", u1, u2)
		}
	}
	for g := 0; g < c.scale(300, 6000); g++ {
		size := []uint64{32, 64, 100, 256, 1024, 4096}[c.r.Intn(6)]
		tt := search.NewTranspositionTable(ctx, size)
		slots, _, _ := search.VerifTableStats(tt)
		hashes := make([]uint64, 2+c.r.Intn(6))
		for i := range hashes {
			hashes[i] = c.r.Uint64()
			if c.r.Intn(2) == 0 && i > 0 {
				hashes[i] = hashes[0] ^ (uint64(c.r.Intn(8)+1) * uint64(slots)) // same slot, different hash
			}
		}
		var ops, obs []string
		for k := 0; k < 10+c.r.Intn(40); k++ {
			h := hashes[c.r.Intn(len(hashes))]
			switch c.r.Intn(5) {
			case 0, 1:
				bound, d, sc, m, ok := tt.Read(board.ZobristHash(h))
				ops = append(ops, fmt.Sprintf("r:%x", h))
				if ok {
					obs = append(obs, fmt.Sprintf("hit:%d:%d:%s:%d:%d:%d", bound, d, scoreTok(sc), m.From, m.To, m.Promotion))
				} else {
					obs = append(obs, "miss")
				}
			case 2, 3:
				bound := search.Bound(c.r.Intn(2))
				ply := c.r.Intn(40)
				depth := c.r.Intn(12)
				if c.r.Intn(20) == 0 {
					ply, depth = 65530+c.r.Intn(10), 32760+c.r.Intn(20)
				}
				sc := randScore(c)
				m := board.Move{From: board.Square(c.r.Intn(64)), To: board.Square(c.r.Intn(64)), Promotion: board.Piece(c.r.Intn(7)), Type: board.MoveType(c.r.Intn(10)), Piece: board.Piece(c.r.Intn(7))}
				if c.r.Intn(4) == 0 {
					m = board.Move{} // no best move: what the search stores at its leaves
				}
				ok := tt.Write(board.ZobristHash(h), bound, ply, depth, sc, m)
				ops = append(ops, fmt.Sprintf("w:%x:%d:%d:%d:%s:%d:%d:%d", h, bound, ply, depth, scoreTok(sc), m.From, m.To, m.Promotion))
				obs = append(obs, "w"+b01(ok))
			default:
				n, occ, _ := search.VerifTableStats(tt)
				ops = append(ops, "u")
				obs = append(obs, fmt.Sprintf("u:%d:%d:%d:%d", n, occ, int(tt.Used()*float64(n)+0.5), tt.Size()))
			}
		}
		c.emit("ttseq %d :: %s => %s", size, strings.Join(ops, " "), strings.Join(obs, " "))
	}
}

// stressTT: concurrent writers/readers with self-describing payloads. Every field of a stored tuple
// is a function of (hash, writer, seq), so a mixture of two stores is detectable on the reader side.
func payload(h uint64, w, seq int) (search.Bound, int, int, eval.Score, board.Move) {
	x := h*0x9e3779b97f4a7c15 + uint64(w)*1000003 + uint64(seq)*7919
	bound := search.Bound(x & 1)
	depth := int((x >> 1) % 30)
	ply := int((x >> 8) % 60)
	sc := eval.HeuristicScore(eval.Pawns(float32(int((x>>16)%2001) - 1000)))
	if (x>>32)%5 == 0 {
		sc = eval.MateInXScore(int8((x>>40)%100) + 1)
	}
	m := board.Move{From: board.Square((x >> 48) % 64), To: board.Square((x >> 54) % 64), Promotion: board.Piece((x >> 60) % 7)}
	return bound, ply, depth, sc, m
}

func stressTT(seed int64, tier string) {
	ctx := context.Background()
	rounds := 30
	if tier == "thorough" {
		rounds = 600
	}
	r := rand.New(rand.NewSource(seed))
	viol := 0
	reads, hits := 0, 0
	for round := 0; round < rounds; round++ {
		size := []uint64{32, 64, 256, 4096}[r.Intn(4)]
		tt := search.NewTranspositionTable(ctx, size)
		nw := 2 + r.Intn(6)
		perWriter := 200 + r.Intn(800)
		hashes := make([]uint64, 4+r.Intn(24))
		for i := range hashes {
			hashes[i] = r.Uint64()
		}
		seeds := make([]int64, nw)
		for i := range seeds {
			seeds[i] = r.Int63()
		}
		var wg sync.WaitGroup
		var mu sync.Mutex
		for w := 0; w < nw; w++ {
			wg.Add(1)
			go func(w int) {
				defer wg.Done()
				lr := rand.New(rand.NewSource(seeds[w]))
				lreads, lhits, lviol := 0, 0, 0
				var msgs []string
				for seq := 0; seq < perWriter; seq++ {
					h := hashes[lr.Intn(len(hashes))]
					if lr.Intn(3) == 0 {
						bound, d, sc, m, ok := tt.Read(board.ZobristHash(h))
						lreads++
						if ok {
							lhits++
							// some (writer, seq) must explain the whole tuple
							found := false
							for ww := 0; ww < nw && !found; ww++ {
								for s := 0; s < perWriter; s++ {
									b2, _, d2, sc2, m2 := payload(h, ww, s)
									if b2 == bound && d2 == d && sc2 == sc && m2.From == m.From && m2.To == m.To && m2.Promotion == m.Promotion {
										found = true
										break
									}
								}
							}
							if !found {
								lviol++
								msgs = append(msgs, fmt.Sprintf("IMPLVIOL ttstress round=%d size=%d hash=%x :: lookup returned a tuple no single store wrote: bound=%d depth=%d score=%s move=%d-%d-%d prop=C17 key=mixture", round, size, h, bound, d, scoreTok(sc), m.From, m.To, m.Promotion))
							}
						}
						if u := tt.Used(); u < 0 || u > 1 {
							lviol++
							msgs = append(msgs, fmt.Sprintf("IMPLVIOL ttstress round=%d :: fill fraction %v outside [0,1] prop=C17 key=fraction", round, u))
						}
					} else {
						bound, ply, depth, sc, m := payload(h, w, seq)
						tt.Write(board.ZobristHash(h), bound, ply, depth, sc, m)
					}
				}
				mu.Lock()
				reads += lreads
				hits += lhits
				viol += lviol
				for _, s := range msgs {
					fmt.Println(s)
				}
				mu.Unlock()
			}(w)
		}
		wg.Wait()
		n, occ, _ := search.VerifTableStats(tt)
		if got := int(tt.Used()*float64(n) + 0.5); got != occ {
			viol++
			fmt.Printf("IMPLVIOL ttstress round=%d size=%d writers=%d :: fill counter %d but %d slots occupied prop=C17 key=used-count\n", round, size, nw, got, occ)
		}
	}
	// replacement is monotone under concurrency too: writers storing depths 1..8 (same ply) for one fresh
	// hash at the same moment - whatever the interleaving, once all have returned the slot holds the
	// deepest one, because a store may only replace an entry of no greater replacement value
	mrounds := 30000
	if tier == "thorough" {
		mrounds = 600000
	}
	big := search.NewTranspositionTable(ctx, 1<<22)
	const writers = 8
	starts := make([]chan uint64, writers)
	var done sync.WaitGroup
	for w := 0; w < writers; w++ {
		starts[w] = make(chan uint64)
		go func(w int) {
			for h := range starts[w] {
				d := w + 1
				big.Write(board.ZobristHash(h), search.ExactBound, 10, d, eval.HeuristicScore(eval.Pawns(d)), board.Move{From: board.Square(d), To: board.Square(d + 8)})
				done.Done()
			}
		}(w)
	}
	lost := 0
	for round := 0; round < mrounds; round++ {
		h := r.Uint64()
		done.Add(writers)
		for w := 0; w < writers; w++ {
			starts[w] <- h
		}
		done.Wait()
		_, d, _, _, ok := big.Read(board.ZobristHash(h))
		if !ok || d != writers {
			lost++
			if lost <= 3 {
				fmt.Printf("IMPLVIOL ttstress monotone round=%d hash=%x :: eight concurrent stores of depths 1..8 for one hash left depth %d (found=%v) in the slot: a store replaced an entry of greater replacement value prop=C17 key=replaced-greater\n", round, h, d, ok)
			}
			viol++
		}
	}
	for w := 0; w < writers; w++ {
		close(starts[w])
	}
	// and the fill counter after all those races for empty slots counts every occupied slot exactly once
	if n, occ, _ := search.VerifTableStats(big); int(big.Used()*float64(n)+0.5) != occ {
		viol++
		fmt.Printf("IMPLVIOL ttstress monotone rounds=%d :: after concurrent stores racing for empty slots the fill counter says %d but %d slots are occupied prop=C17 key=used-count\n", mrounds, int(big.Used()*float64(n)+0.5), occ)
	}
	fmt.Printf("stress rounds=%d reads=%d hits=%d monotone=%d violations=%d\n", rounds, reads, hits, mrounds, viol)
}
