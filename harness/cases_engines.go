//go:build verif

package main

import (
	"context"
	"fmt"
	"math"
	"strings"

	"github.com/herohde/morlock/cmd/bernstein/bernstein"
	"github.com/herohde/morlock/cmd/sargon/sargon"
	"github.com/herohde/morlock/cmd/turochamp/turochamp"
	"github.com/herohde/morlock/pkg/board"
	"github.com/herohde/morlock/pkg/board/fen"
	"github.com/herohde/morlock/pkg/eval"
	"github.com/herohde/morlock/pkg/search"
)

func init() { caseGens["C20"] = casesEngines }

func mirrorSq(sq board.Square) board.Square {
	return board.NewSquare(sq.File(), board.Rank(7-sq.Rank()))
}

// mirrorFEN: flip the ranks and swap the colours, the side to move, the castling rights and the e.p. square.
func mirrorFEN(f string) string {
	pos, turn, np, fm, err := fen.Decode(f)
	if err != nil {
		panic(err)
	}
	var pls []board.Placement
	for sq := board.ZeroSquare; sq < board.NumSquares; sq++ {
		if c, p, ok := pos.Square(sq); ok {
			pls = append(pls, board.Placement{Square: mirrorSq(sq), Color: c.Opponent(), Piece: p})
		}
	}
	ca := pos.Castling()
	var mc board.Castling
	if ca&board.WhiteKingSideCastle != 0 {
		mc |= board.BlackKingSideCastle
	}
	if ca&board.WhiteQueenSideCastle != 0 {
		mc |= board.BlackQueenSideCastle
	}
	if ca&board.BlackKingSideCastle != 0 {
		mc |= board.WhiteKingSideCastle
	}
	if ca&board.BlackQueenSideCastle != 0 {
		mc |= board.WhiteQueenSideCastle
	}
	var ep board.Square
	if e, ok := pos.EnPassant(); ok {
		ep = mirrorSq(e)
	}
	mp, err := board.NewPosition(pls, mc, ep)
	if err != nil {
		panic(err)
	}
	return fen.Encode(mp, turn.Opponent(), np, fm)
}

func mirrorMoveStr(s string) string {
	b := []byte(s)
	b[1] = '1' + ('8' - b[1])
	b[3] = '1' + ('8' - b[3])
	return string(b)
}

// boardFrom sets up a game board: start FEN plus moves matched against the pseudo-legal moves.
func boardFrom(f string, moves []string) *board.Board {
	pos, turn, np, fm, err := fen.Decode(f)
	if err != nil || pos == nil {
		return nil
	}
	b := board.NewBoard(board.NewZobristTable(0), pos, turn, np, fm)
	for _, s := range moves {
		cand, err := board.ParseMove(s)
		if err != nil {
			return nil
		}
		ok := false
		for _, m := range b.Position().PseudoLegalMoves(b.Turn()) {
			if cand.Equals(m) {
				ok = b.PushMove(m)
				break
			}
		}
		if !ok {
			return nil
		}
	}
	return b
}

func finite(p eval.Pawns) bool { return !math.IsNaN(float64(p)) && !math.IsInf(float64(p), 0) }

func guard(what string, fn func()) (crashed bool, msg string) {
	defer func() {
		if r := recover(); r != nil {
			crashed = true
			msg = fmt.Sprintf("%s panicked: %v", what, r)
		}
	}()
	fn()
	return false, ""
}

// C20: evaluations total and colour-blind, filters sound and non-starving, books legal.
func casesEngines(c *caseCtx) {
	ctx := context.Background()
	bookChecks(c, "C20")
	viol := func(key, what string) {
		fmt.Printf("IMPLVIOL engines %s prop=C20 key=%s\n", what, key)
	}
	n, eps, promos, castles := 0, 0, 0, 0
	// positions in which every legal move is a concession (nothing to gain, king immobile): the move
	// filters must still select something
	special := append(cramped(c, c.scale(40, 400)), epEvasions(c, 10)...)
	special = append(special, queenStars(c, c.scale(60, 600))...)
	special = append(special, pinLines(c, c.scale(20, 200))...)
	// twins: the same position reached by walking king and rook by hand and by castling (the castled
	// flag differs; nothing else): evaluated one after the other, each also against its colour mirror
	type twin struct {
		f     string
		moves []string
	}
	twins := []twin{
		{"4k3/pppppppp/8/8/8/8/PPPPP1PP/4K2R w K - 0 1", strings.Fields("h1f1 e8d8 e1f2 d8e8 f2g1")},
		{"4k3/pppppppp/8/8/8/8/PPPPP1PP/4K2R w K - 0 1", strings.Fields("e1g1")},
		{"r3k3/ppp1pppp/8/8/8/8/PPPPPPPP/4K3 b q - 0 1", strings.Fields("e8c8")},
		{"r3k3/ppp1pppp/8/8/8/8/PPPPPPPP/4K3 b q - 0 1", strings.Fields("a8d8 e1d1 e8d7 d1e1 d7c8")},
		{"rnbqk2r/pppp1ppp/5n2/2b1p3/2B1P3/5N2/PPPP1PPP/RNBQK2R w KQkq - 4 4", strings.Fields("e1g1 e8g8")},
		{"rnbqk2r/pppp1ppp/5n2/2b1p3/2B1P3/5N2/PPPP1PPP/RNBQK2R w KQkq - 4 4", strings.Fields("h1f1 h8f8 e1e2 e8e7 e2e1 e7e8 e1e2 e8e7 e2f2 e7f7 f2g1 f7g8 f1e1 f8e8 e1f1 e8f8")},
	}
	total := len(curatedFENs) + len(special) + len(twins) + c.scale(120, 3000)
	for g := 0; g < total; g++ {
		// every curated position as it stands (e.p. targets, castling rights), then short games from the
		// start or a curated / random position
		f := fen.Initial
		plies := c.r.Intn(14)
		var fixedMoves []string
		if g < len(curatedFENs) {
			f = curatedFENs[g]
			plies = 0
		} else if g < len(curatedFENs)+len(special) {
			f = special[g-len(curatedFENs)]
			plies = 0
		} else if g < len(curatedFENs)+len(special)+len(twins) {
			tw := twins[g-len(curatedFENs)-len(special)]
			f = tw.f
			plies = 0
			fixedMoves = tw.moves
		} else {
			switch c.r.Intn(4) {
			case 0:
				f = curatedFENs[c.r.Intn(len(curatedFENs))]
				plies = c.r.Intn(3)
			case 1:
				f = randomFEN(c)
			}
		}
		pos, turn, _, _, err := fen.Decode(f)
		if err != nil || pos.IsChecked(turn.Opponent()) {
			continue
		}
		cur := state{pos, turn}
		var moves []string
		for _, ms := range fixedMoves {
			found := false
			for _, m := range legalMoves(cur.pos, cur.turn) {
				if uciMove(m) == ms {
					next, _ := cur.pos.Move(m)
					moves = append(moves, ms)
					cur = state{next, cur.turn.Opponent()}
					found = true
					break
				}
			}
			if !found {
				break
			}
		}
		for k := 0; k < plies; k++ {
			ms := legalMoves(cur.pos, cur.turn)
			if len(ms) == 0 {
				break
			}
			m := pickMove(c, ms)
			next, _ := cur.pos.Move(m)
			moves = append(moves, uciMove(m))
			cur = state{next, cur.turn.Opponent()}
		}
		b := boardFrom(f, moves)
		if b == nil {
			continue
		}
		var mm []string
		for _, m := range moves {
			mm = append(mm, mirrorMoveStr(m))
		}
		mb := boardFrom(mirrorFEN(f), mm)
		label := fmt.Sprintf("fen=%q moves=[%s]", f, strings.Join(moves, " "))
		n++
		legal := legalMoves(b.Position(), b.Turn())
		for _, m := range legal {
			switch {
			case m.Type == board.EnPassant:
				eps++
			case m.IsPromotion():
				promos++
			case m.IsCastle():
				castles++
			}
		}

		// evaluations: total, finite, colour-blind
		type ev struct {
			name  string
			fn    func(*board.Board) eval.Pawns
			blind bool
		}
		points := &sargon.Points{}
		evs := []ev{
			{"eval.Material", func(x *board.Board) eval.Pawns { return eval.Material{}.Evaluate(ctx, x) }, true},
			{"turochamp.Eval", func(x *board.Board) eval.Pawns { return turochamp.Eval{}.Evaluate(ctx, x) }, true},
			{"turochamp.Material", func(x *board.Board) eval.Pawns { return turochamp.Material{}.Evaluate(ctx, x) }, true},
			{"bernstein.Eval(20)", func(x *board.Board) eval.Pawns { return bernstein.Eval{Factor: 20}.Evaluate(ctx, x) }, true},
			{"bernstein.Eval(0)", func(x *board.Board) eval.Pawns { return bernstein.Eval{Factor: 0}.Evaluate(ctx, x) }, true},
			{"sargon.Points", func(x *board.Board) eval.Pawns { points.Reset(ctx, x); return points.Evaluate(ctx, x) }, false},
		}
		for _, e := range evs {
			var v, mv eval.Pawns
			if crashed, msg := guard(e.name, func() { v = e.fn(b) }); crashed {
				viol("eval-panic", label+" :: "+msg)
				continue
			}
			if !finite(v) {
				viol("eval-not-finite", fmt.Sprintf("%s :: %s = %v", label, e.name, v))
			}
			if e.blind && mb != nil {
				if crashed, msg := guard(e.name, func() { mv = e.fn(mb) }); crashed {
					viol("eval-panic", label+" (mirrored) :: "+msg)
					continue
				}
				if v != mv {
					viol("not-colour-blind", fmt.Sprintf("%s :: %s = %v but %v on the mirrored game", label, e.name, v, mv))
				}
			}
		}
		// SARGON inside a search: evaluation of the positions after every legal move
		for _, m := range legal {
			if crashed, msg := guard("sargon.Points after "+uciMove(m), func() {
				points.Reset(ctx, b)
				b.PushMove(m)
				v := points.Evaluate(ctx, b)
				b.PopMove()
				if !finite(v) {
					viol("eval-not-finite", fmt.Sprintf("%s :: sargon.Points after %s = %v", label, uciMove(m), v))
				}
			}); crashed {
				viol("eval-panic", label+" :: "+msg)
				b = boardFrom(f, moves)
			}
		}

		// correspondence with the model of the engines (Model/Engines.v): evaluation terms, the ordered
		// plausible-move list and the considerable-move predicate, on the position as set up (no history)
		if len(moves) == 0 {
			func() {
				defer func() { _ = recover() }()
				p0 := b.Position()
				t0 := b.Turn()
				var ents, cons []string
				for _, m := range legal {
					ents = append(ents, fmt.Sprintf("%s/%s/%s", moveTok(m), b01(bernstein.IsMoveSafe(p0, t0, m)), b01(bernstein.IsSafe(p0, t0, m.Piece, m.From))))
					fb := b.Fork()
					if fb.PushMove(m) {
						cons = append(cons, b01(turochamp.IsConsiderableMove(m, fb)))
					} else {
						cons = append(cons, "0")
					}
				}
				terms := func(side board.Color) string {
					return fmt.Sprintf("%d,%d,%d,%d,%d,%d", bernstein.Material(p0, side), bernstein.Mobility(p0, side), bernstein.Control(p0, side), bernstein.KingDefense(p0, side), bernstein.Evaluate(p0, 20, side), bernstein.Evaluate(p0, 0, side))
				}
				var pms []string
				for _, m := range bernstein.FindPlausibleMoves(b) {
					pms = append(pms, moveTok(m))
				}
				dash := func(l []string, sep string) string {
					if len(l) == 0 {
						return "-"
					}
					return strings.Join(l, sep)
				}
				tm := turochamp.Material{}.Evaluate(ctx, b)
				tbits := "0"
				if tm != 0 {
					tbits = fmt.Sprintf("%x", math.Float32bits(float32(tm)))
				}
				c.emit("engines %s %d :: %s => mat=%d turo=%s bern=%s/%s plaus=%s consid=%s", posTok(p0), t0, dash(ents, ";"),
					int(eval.Material{}.Evaluate(ctx, b)), tbits, terms(t0), terms(t0.Opponent()), dash(pms, ";"), dash(cons, ""))
			}()
		}

		// filters
		isLegal := map[board.Move]bool{}
		nonUnder := 0
		for _, m := range legal {
			isLegal[m] = true
			if !m.IsUnderPromotion() {
				nonUnder++
			}
		}
		// BERNSTEIN plausible moves: only legal moves, no under-promotions, each once; non-empty when possible
		var pm []board.Move
		if crashed, msg := guard("FindPlausibleMoves", func() { pm = bernstein.FindPlausibleMoves(b) }); crashed {
			viol("filter-panic", label+" :: "+msg)
		} else {
			seen := map[board.Move]bool{}
			for _, m := range pm {
				if !isLegal[m] {
					viol("plausible-illegal", fmt.Sprintf("%s :: FindPlausibleMoves returned %v, which is not a legal move", label, m))
				}
				if m.IsUnderPromotion() {
					viol("plausible-underpromotion", fmt.Sprintf("%s :: FindPlausibleMoves returned the under-promotion %v", label, m))
				}
				if seen[m] {
					viol("plausible-duplicate", fmt.Sprintf("%s :: FindPlausibleMoves returned %v twice", label, m))
				}
				seen[m] = true
			}
			if nonUnder > 0 && len(pm) == 0 {
				viol("plausible-starving", label+" :: FindPlausibleMoves returned no move although a legal move exists")
			}
			for _, limit := range []int{1, 3, 7, 0} {
				_, pred := bernstein.PlausibleMoveTable{Limit: limit}.Explore(ctx, b)
				k := 0
				for _, m := range legal {
					if pred(m) {
						k++
						if !seen[m] {
							viol("selection-outside", fmt.Sprintf("%s :: the plausible-move selection (limit %d) picks %v, which FindPlausibleMoves did not return", label, limit, m))
						}
					}
				}
				if limit > 0 && k > limit {
					viol("selection-over-limit", fmt.Sprintf("%s :: the plausible-move selection picks %d moves, branch limit %d", label, k, limit))
				}
				if nonUnder > 0 && k == 0 {
					viol("selection-starving", fmt.Sprintf("%s :: the plausible-move selection (limit %d) picks no move although a legal move exists", label, limit))
				}
			}
		}
		// SARGON: no under-promotion, at least one move when a legal move exists
		_, pred := sargon.SkipUnderPromotions(ctx, b)
		k := 0
		for _, m := range legal {
			if pred(m) {
				k++
				if m.IsUnderPromotion() {
					viol("sargon-underpromotion", fmt.Sprintf("%s :: SkipUnderPromotions selects %v", label, m))
				}
			}
		}
		if len(legal) > 0 && k == 0 {
			viol("sargon-starving", label+" :: SkipUnderPromotions selects no move although a legal move exists")
		}
		// TUROCHAMP considerable moves (quiescence filter): total on every legal move, evaluated on the board after the move
		for _, m := range legal {
			if crashed, msg := guard("IsConsiderableMove "+m.String(), func() {
				b.PushMove(m)
				_ = turochamp.IsConsiderableMove(m, b)
				b.PopMove()
			}); crashed {
				viol("considerable-panic", label+" :: "+msg)
				b = boardFrom(f, moves)
			}
		}
		// the searches of the three historical engines on this game (depth 1, run synchronously so that a
		// panic is an observation): no panic, a valid score, a legal first move whenever a legal move exists
		for _, name := range []string{"turochamp", "sargon", "bernstein"} {
			var s search.Search
			switch name {
			case "turochamp":
				s = search.AlphaBeta{Eval: search.Quiescence{Explore: turochamp.ConsiderableMovesOnly, Eval: search.Leaf{Eval: turochamp.Eval{}}}}
			case "bernstein":
				s = search.AlphaBeta{Explore: bernstein.PlausibleMoveTable{Limit: 7}.Explore, Eval: search.Leaf{Eval: bernstein.Eval{Factor: 20}}}
			default:
				pts := &sargon.Points{}
				s = sargon.Hook{Eval: search.AlphaBeta{Explore: sargon.SkipUnderPromotions, Eval: sargon.OnePlyIfChecked{Leaf: search.Leaf{Eval: pts}}}, Hook: pts}
			}
			fb := b.Fork()
			if crashed, msg := guard(name+" search", func() {
				_, sc, pv, err := s.Search(ctx, &search.Context{TT: search.NoTranspositionTable{}}, fb, 1)
				if err != nil {
					return
				}
				if sc.IsInvalid() || (sc.IsHeuristic() && !finite(sc.Pawns)) {
					viol("search-score", fmt.Sprintf("%s :: %s depth-1 search returned score %v", label, name, sc))
				}
				if len(legal) > 0 && len(pv) == 0 {
					viol("search-starving", fmt.Sprintf("%s :: %s depth-1 search returned no move although a legal move exists", label, name))
				}
				if len(pv) > 0 && !isLegal[pv[0]] {
					viol("search-illegal", fmt.Sprintf("%s :: %s depth-1 search returned %v, not a legal move", label, name, pv[0]))
				}
			}); crashed {
				viol("search-panic", label+" :: "+msg)
			}
		}
	}
	fmt.Printf("COUNT enginegames %d\nCOUNT ep-moves %d\nCOUNT promotions %d\nCOUNT castles %d\n", n, eps, promos, castles)
	_ = search.ErrHalted
}
