//go:build verif

package main

import (
	"context"
	"fmt"
	"github.com/herohde/morlock/cmd/sargon/sargon"
	"math"
	"strings"
	"sync/atomic"
	"time"

	"github.com/herohde/morlock/pkg/board"
	"github.com/herohde/morlock/pkg/board/fen"
	"github.com/herohde/morlock/pkg/eval"
	"github.com/herohde/morlock/pkg/search"
)

func init() {
	caseGens["C03"] = func(c *caseCtx) { casesSearch(c, "C03") }
	caseGens["C13"] = func(c *caseCtx) { casesSearch(c, "C13") }
	caseGens["C11"] = func(c *caseCtx) { casesSearch(c, "C11") }
	caseGens["C12"] = func(c *caseCtx) { casesSearch(c, "C12") }
}

// countingCtx is a context whose Done() channel reports cancellation from the n-th poll on, so that
// every cancellation point of a search is reachable deterministically. contextx.IsCancelled polls
// Done() exactly once per call.
type countingCtx struct {
	context.Context
	polls  int64
	cancel int64 // cancel from this poll index on (0-based); negative: never
	closed chan struct{}
	open   chan struct{}
}

func newCountingCtx(cancelAt int) *countingCtx {
	closed := make(chan struct{})
	close(closed)
	return &countingCtx{Context: context.Background(), cancel: int64(cancelAt), closed: closed, open: make(chan struct{})}
}

func (c *countingCtx) Done() <-chan struct{} {
	n := atomic.AddInt64(&c.polls, 1) - 1
	if c.cancel >= 0 && n >= c.cancel {
		return c.closed
	}
	return c.open
}

func (c *countingCtx) Err() error {
	if c.cancel >= 0 && atomic.LoadInt64(&c.polls) > c.cancel {
		return context.Canceled
	}
	return nil
}

func (c *countingCtx) Deadline() (time.Time, bool) { return time.Time{}, false }

// recordingTT wraps a table and logs every write together with the position being searched.
type ttWrite struct {
	pos   string
	turn  board.Color
	bound search.Bound
	depth int
	score eval.Score
	after bool // written after cancellation was first observed
}

type recordingTT struct {
	search.TranspositionTable
	b      *board.Board
	ctx    *countingCtx
	writes []ttWrite
}

func (r *recordingTT) Write(hash board.ZobristHash, bound search.Bound, ply, depth int, score eval.Score, move board.Move) bool {
	after := r.ctx != nil && r.ctx.cancel >= 0 && atomic.LoadInt64(&r.ctx.polls) > r.ctx.cancel
	ok := r.TranspositionTable.Write(hash, bound, ply, depth, score, move)
	if ok {
		r.writes = append(r.writes, ttWrite{pos: posTok(r.b.Position()), turn: r.b.Turn(), bound: bound, depth: depth, score: score, after: after})
	}
	return ok
}

func scoreTok(s eval.Score) string {
	return fmt.Sprintf("%d,%d,%d", int(s.Type), int(s.Mate), math.Float32bits(float32(s.Pawns)))
}

func pvTok(pv []board.Move) string {
	if len(pv) == 0 {
		return "-"
	}
	var parts []string
	for _, m := range pv {
		parts = append(parts, moveTok(m))
	}
	return strings.Join(parts, ";")
}

// capturesOnly is the quiescence exploration used by the correspondence runs.
func capturesOnly(ctx context.Context, b *board.Board) (board.MovePriorityFn, board.MovePredicateFn) {
	return search.MVVLVA, func(m board.Move) bool { return m.IsCaptureOrEnPassant() }
}

type searchCfg struct {
	depths []int
	quiet  bool   // Quiescence{capturesOnly, Material} instead of Leaf{Material}
	tt     string // "none", "size:<bytes>", "min:<k>:<bytes>"
	low    eval.Score
	high   eval.Score
	cancel int // poll index to cancel at; -1 never
	// then: moves played on the board (same table kept) before the search with index thenAt
	then   []string
	thenAt int
	// ex: "" = full exploration; "checks" = captures and checking moves (a predicate that looks at the board
	// after the move)
	ex string
	// fork: run the searches on a Fork() of the board (as Engine.Analyze does); by C08 the fork carries
	// the same game, so model and specification are the ones of the board itself
	fork bool
}

// checksOrCaptures explores captures (en passant included) and moves that give check.
func checksOrCaptures(ctx context.Context, b *board.Board) (board.MovePriorityFn, board.MovePredicateFn) {
	return search.MVVLVA, func(m board.Move) bool {
		return m.IsCaptureOrEnPassant() || b.Position().IsChecked(b.Turn())
	}
}

func (cfg searchCfg) String() string {
	var ds []string
	for _, d := range cfg.depths {
		ds = append(ds, fmt.Sprint(d))
	}
	ex := ""
	if cfg.ex != "" {
		ex = " ex=" + cfg.ex
	}
	return fmt.Sprintf("depths=%s q=%s tt=%s low=%s high=%s cancel=%d%s", strings.Join(ds, ","), b01(cfg.quiet), cfg.tt, scoreTok(cfg.low), scoreTok(cfg.high), cfg.cancel, ex)
}

func makeTT(spec string) search.TranspositionTable {
	ctx := context.Background()
	switch {
	case spec == "none":
		return search.NoTranspositionTable{}
	case strings.HasPrefix(spec, "size:"):
		var n uint64
		fmt.Sscanf(spec, "size:%d", &n)
		return search.NewTranspositionTable(ctx, n)
	case strings.HasPrefix(spec, "min:"):
		var k int
		var n uint64
		fmt.Sscanf(spec, "min:%d:%d", &k, &n)
		return search.NewMinDepthTranspositionTable(k)(ctx, n)
	}
	panic("bad tt spec " + spec)
}

// runSearchCase executes the searches of cfg (sharing one table) on a board set up from fenStr and
// the given history, and emits one line.
func runSearchCase(c *caseCtx, zt *board.ZobristTable, zseed int64, fenStr string, history []string, cfg searchCfg) {
	pos, turn, np, fm, err := fen.Decode(fenStr)
	if err != nil || pos == nil {
		return
	}
	if cfg.quiet {
		// the reference for these cases is the exhaustive specification minimax over the exhaustive quiet
		// search: at depth 4 a single rich position takes it longer than the whole rest of the pass
		ds := append([]int(nil), cfg.depths...)
		for i := range ds {
			if ds[i] > 3 {
				ds[i] = 3
			}
		}
		cfg.depths = ds
	}
	b := board.NewBoard(zt, pos, turn, np, fm)
	var hist []string
	for _, h := range history {
		cand, err := board.ParseMove(h)
		if err != nil {
			return
		}
		found := false
		for _, m := range b.Position().PseudoLegalMoves(b.Turn()) {
			if cand.Equals(m) {
				if !b.PushMove(m) {
					return
				}
				hist = append(hist, moveTok(m))
				found = true
				break
			}
		}
		if !found {
			return
		}
	}

	var s search.Search
	var explore search.Exploration
	if cfg.ex == "checks" {
		explore = checksOrCaptures
	}
	if cfg.quiet {
		s = search.AlphaBeta{Explore: explore, Eval: search.Quiescence{Explore: capturesOnly, Eval: search.Leaf{Eval: eval.Material{}}}}
	} else {
		s = search.AlphaBeta{Explore: explore, Eval: search.Leaf{Eval: eval.Material{}}}
	}
	if cfg.fork {
		b = b.Fork()
	}
	inner := makeTT(cfg.tt)
	var results []string
	before := boardObs(zt, b, true)
	thenTok := ""
	for i, d := range cfg.depths {
		if len(cfg.then) > 0 && i == cfg.thenAt {
			var toks []string
			for _, h := range cfg.then {
				cand, err := board.ParseMove(h)
				if err != nil {
					return
				}
				found := false
				for _, m := range b.Position().PseudoLegalMoves(b.Turn()) {
					if cand.Equals(m) {
						if !b.PushMove(m) {
							return
						}
						toks = append(toks, moveTok(m))
						found = true
						break
					}
				}
				if !found {
					return
				}
			}
			thenTok = fmt.Sprintf(" then=%d:%s", i, strings.Join(toks, ";"))
			before = boardObs(zt, b, true)
		}
		cctx := newCountingCtx(cfg.cancel)
		rec := &recordingTT{TranspositionTable: inner, b: b, ctx: cctx}
		sctx := &search.Context{Alpha: cfg.low, Beta: cfg.high, TT: rec}
		nodes, score, pv, err := s.Search(cctx, sctx, b, d)
		halted := err != nil
		// sample of the exact writes (position, depth, score) for the oracle; flag writes after cancellation
		var ws []string
		nAfter := 0
		step := 1
		if len(rec.writes) > maxWriteSamples {
			step = len(rec.writes) / maxWriteSamples
		}
		for i, w := range rec.writes {
			if w.after {
				nAfter++
			}
			if i%step == 0 && w.bound == search.ExactBound && len(ws) < maxWriteSamples {
				ws = append(ws, fmt.Sprintf("%s/%d/%d/%s", w.pos, w.turn, w.depth, scoreTok(w.score)))
			}
		}
		wtok := "-"
		if len(ws) > 0 {
			wtok = strings.Join(ws, ";")
		}
		results = append(results, fmt.Sprintf("%s %d %s %s %d %d %d %s", b01(halted), nodes, scoreTok(score), pvTok(pv), atomic.LoadInt64(&cctx.polls), len(rec.writes), nAfter, wtok))
	}
	after := boardObs(zt, b, true)
	htok := "-"
	if len(hist) > 0 {
		htok = strings.Join(hist, ";")
	}
	c.emit("absearch %d %s %d %d %d %s %s%s => %s || %s || %s", zseed, posTok(pos), turn, np, fm, htok, cfg.String(), thenTok, strings.Join(results, " | "), before, after)
}

// small endings and tactical positions on which depth <= 3 (quick) / 5 (thorough) stays cheap for the oracle
var searchFENs = []string{
	"k7/8/8/8/1q1K4/8/5q2/8 w - - 0 1",
	"8/3r4/8/8/K1k5/8/8/8 w - - 0 1",
	"7k/8/5K2/6Q1/8/8/8/8 w - - 0 1",
	"7k/5K2/8/6Q1/8/8/8/8 b - - 0 1",
	"8/8/8/8/8/2k5/1p6/K7 w - - 0 1",
	"4k3/8/4K3/4P3/8/8/8/8 w - - 0 1",
	"8/8/8/8/8/5k2/6p1/6K1 w - - 0 1",
	"6k1/5ppp/8/8/8/8/8/R3K3 w Q - 0 1",
	"r3k3/8/8/8/8/8/8/R3K3 w Qq - 0 1",
	"8/8/8/2k5/3Pp3/8/8/4K3 b - d3 0 1",
	"4k3/P7/8/8/8/8/8/4K3 w - - 0 1",
	"4k3/8/8/8/8/8/3p4/4K3 b - - 0 1",
	"3k4/8/3K4/8/8/8/8/R7 w - - 0 1",
	"k7/2K5/8/8/8/8/8/1R6 w - - 0 1",
	"2k5/8/2K5/8/8/8/8/R7 b - - 0 1",
	"5k2/8/5K2/8/8/8/8/6RR w - - 0 1",
	"8/8/8/8/3b4/8/1n6/k1K5 w - - 0 1",
	"7k/7p/7K/8/8/8/8/6R1 w - - 0 1",
	"8/8/8/8/8/1k6/2q5/K7 w - - 0 1",
	// the side that is behind can stalemate the other one move from here (the stalemate lies at the horizon)
	"8/8/8/8/8/8/p2K4/k7 w - - 0 1",
	"K7/P2k4/8/8/8/8/8/8 b - - 0 1",
	"8/8/8/8/8/1K6/p7/k7 w - - 0 1",
	"7k/7p/5K2/8/8/8/8/8 w - - 0 1",
	// stalemates (side to move has no legal move and is not in check), also with the stalemated side ahead
	"7k/5Q2/6K1/8/8/8/8/8 b - - 0 1",
	"k7/P7/1K3p2/5p2/5p2/5P2/8/8 b - - 0 1",
	"k7/8/PK3p2/5p2/5p2/5P2/8/8 w - - 0 1",
	"5k2/5P2/5K2/8/8/8/8/8 b - - 0 1",
	"8/8/8/8/8/5k2/5p2/5K2 w - - 0 1",
	"1k6/8/1K6/8/8/8/8/7Q w - - 99 60",
	"4k3/8/8/8/8/8/8/4K2R w K - 98 70",
}

// windowAround draws a window bound near a given heuristic value (the static evaluation of the root),
// so that bounds equal to / just below / just above interesting values occur often.
func windowAround(c *caseCtx, m int) eval.Score {
	switch c.r.Intn(6) {
	case 0:
		return randomWindowScore(c)
	case 1:
		return eval.HeuristicScore(0)
	default:
		return eval.HeuristicScore(eval.Pawns(float32(m + c.r.Intn(5) - 2)))
	}
}

func materialOf(f string) int {
	pos, turn, _, _, err := fen.Decode(f)
	if err != nil || pos == nil {
		return 0
	}
	b := board.NewBoard(board.NewZobristTable(0), pos, turn, 0, 1)
	return int(eval.Material{}.Evaluate(context.Background(), b))
}

func randomWindowScore(c *caseCtx) eval.Score {
	switch c.r.Intn(8) {
	case 0:
		return eval.NegInfScore
	case 1:
		return eval.InfScore
	case 2, 3:
		k := c.r.Intn(5) + 1
		if c.r.Intn(2) == 0 {
			k = -k
		}
		return eval.MateInXScore(int8(k))
	case 4:
		// heuristic bounds on the scale of evaluators that count in milli-pawns or ratios (TUROCHAMP's
		// material term reaches +-20000): still below every winning and above every losing mate score
		big := []float32{10000, 10000.5, 10001, 12000, 20000.68, 1e6, 3e38}
		v := big[c.r.Intn(len(big))]
		if c.r.Intn(2) == 0 {
			v = -v
		}
		return eval.HeuristicScore(eval.Pawns(v))
	default:
		return eval.HeuristicScore(eval.Pawns(float32(c.r.Intn(25) - 12)))
	}
}

func randomSmallPosition(c *caseCtx) (string, bool) {
	// kings + 1..4 men
	for tries := 0; tries < 20; tries++ {
		sqs := c.r.Perm(64)
		pls := []board.Placement{{Square: board.Square(sqs[0]), Color: board.White, Piece: board.King}, {Square: board.Square(sqs[1]), Color: board.Black, Piece: board.King}}
		n := 1 + c.r.Intn(4)
		kinds := []board.Piece{board.Pawn, board.Pawn, board.Bishop, board.Knight, board.Rook, board.Rook, board.Queen}
		ok := true
		for i := 0; i < n; i++ {
			pc := kinds[c.r.Intn(len(kinds))]
			sq := board.Square(sqs[2+i])
			if pc == board.Pawn && (sq.Rank() == board.Rank1 || sq.Rank() == board.Rank8) {
				ok = false
				break
			}
			pls = append(pls, board.Placement{Square: sq, Color: board.Color(c.r.Intn(2)), Piece: pc})
		}
		if !ok {
			continue
		}
		pos, err := board.NewPosition(pls, 0, 0)
		if err != nil || pos == nil {
			continue
		}
		turn := board.Color(c.r.Intn(2))
		if pos.IsChecked(turn.Opponent()) {
			continue
		}
		return fen.Encode(pos, turn, c.r.Intn(20), 1+c.r.Intn(40)), true
	}
	return "", false
}

var maxWriteSamples = 3

func casesSearch(c *caseCtx, prop string) {
	if c.thorough() {
		maxWriteSamples = 12
	}
	zseed := int64(0)
	zt := emitZKeys(c, zseed)
	full := searchCfg{tt: "none", low: eval.NegInfScore, high: eval.InfScore, cancel: -1}

	// C11 / C12 quantify over searches in which no fifty-move or repetition draw can arise inside
	// the tree: history-free roots with clock + depth < 100 (the last two curated positions are for C03).
	pool := searchFENs
	if prop == "C11" || prop == "C12" {
		pool = searchFENs[:len(searchFENs)-2]
	}
	pick := func() string {
		if c.r.Intn(3) == 0 {
			return pool[c.r.Intn(len(pool))]
		}
		if f, ok := randomSmallPosition(c); ok {
			return f
		}
		return searchFENs[0]
	}
	maxd := c.scale(3, 4)

	if prop == "C03" || prop == "C13" {
		deepChecks(c, prop)
	}

	switch prop {
	case "C03":
		for _, f := range searchFENs {
			cfg := full
			cfg.depths = []int{1, 2, maxd}
			runSearchCase(c, zt, zseed, f, nil, cfg)
			// and with the quiescence leaf
			cfg.depths = []int{1, 2}
			cfg.quiet = true
			runSearchCase(c, zt, zseed, f, nil, cfg)
		}
		for i := 0; i < c.scale(60, 1200); i++ {
			cfg := full
			cfg.depths = []int{1 + c.r.Intn(maxd)}
			cfg.quiet = c.r.Intn(3) == 0
			runSearchCase(c, zt, zseed, pick(), nil, cfg)
		}
		// a selective exploration whose predicate looks at the position after the move (captures and checks)
		for i := 0; i < c.scale(30, 600); i++ {
			cfg := full
			cfg.depths = []int{1 + c.r.Intn(maxd)}
			cfg.quiet = c.r.Intn(3) == 0
			cfg.ex = "checks"
			f := pick()
			if i < len(searchFENs) {
				f = searchFENs[i]
			}
			runSearchCase(c, zt, zseed, f, nil, cfg)
		}
		// a search restricted to one root move (Context.Ponder, as the console's per-move breakdown uses it)
		// equals the unrestricted search of the position after that move, one ply shallower - also with the
		// SARGON leaf that runs a nested one-ply search when in check
		nponder := 0
		for _, f := range []string{fen.Initial, "rnbqkbnr/pppp1ppp/8/4p3/4P3/8/PPPP1PPP/RNBQKBNR w KQkq e6 0 2", "r1bqkbnr/pppp1ppp/2n5/4p3/4P3/5N2/PPPP1PPP/RNBQKB1R w KQkq - 2 3", "6k1/5ppp/8/8/8/8/5PPP/R5K1 w - - 0 1"} {
			pos, turn, np, fm, err := fen.Decode(f)
			if err != nil {
				continue
			}
			for _, leafKind := range []string{"static", "sargon"} {
				var leaf search.QuietSearch = search.Leaf{Eval: eval.Material{}}
				if leafKind == "sargon" {
					leaf = sargon.OnePlyIfChecked{Leaf: search.Leaf{Eval: eval.Material{}}}
				}
				s := search.AlphaBeta{Eval: leaf}
				for _, d := range []int{2, 3} {
					for _, m := range legalMoves(pos, turn) {
						b := board.NewBoard(zt, pos, turn, np, fm)
						_, got, _, e1 := s.Search(context.Background(), &search.Context{TT: search.NoTranspositionTable{}, Ponder: []board.Move{m}}, b, d)
						b2 := board.NewBoard(zt, pos, turn, np, fm)
						b2.PushMove(m)
						_, child, _, e2 := s.Search(context.Background(), &search.Context{TT: search.NoTranspositionTable{}}, b2, d-1)
						nponder++
						if e1 != nil || e2 != nil {
							continue
						}
						want := eval.IncrementMateDistance(child).Negate()
						le := func(a, b eval.Score) bool { return !b.Less(a) }
						if !(le(got, want) && le(want, got)) {
							fmt.Printf("IMPLVIOL ponder %s leaf=%s depth=%d move=%s :: the search restricted to the move returns %s, the search of the position after it (one ply less, negated) %s prop=C03 key=ponder\n", f, leafKind, d, uciMove(m), scoreTok(got), scoreTok(want))
							break
						}
					}
				}
			}
		}
		fmt.Printf("COUNT ponder %d\n", nponder)
		// searches on a forked board whose history repeats the set-up position / the position after the last
		// irreversible move (the third occurrence lies inside the tree)
		for _, q := range []bool{false, true} {
			cfgf := full
			cfgf.depths = []int{1, 2, 3}
			cfgf.quiet = q
			cfgf.fork = true
			runSearchCase(c, zt, zseed, "1n4k1/8/8/8/8/8/8/1N1Q2K1 w - - 0 1", strings.Fields("b1c3 b8c6 c3b1 c6b8 b1c3 b8c6 c3b1"), cfgf)
			runSearchCase(c, zt, zseed, "1n4k1/8/8/8/8/8/4P3/1N1Q2K1 w - - 0 1", strings.Fields("e2e4 b8c6 b1c3 c6b8 c3b1 b8c6 b1c3 c6b8 c3b1 b8c6 b1c3"), cfgf)
			runSearchCase(c, zt, zseed, "3k4/8/3K4/8/8/8/8/R7 w - - 0 1", strings.Fields("a1a2 d8c8 a2a1 c8d8 a1a2 d8c8 a2a1"), cfgf)
		}
		// histories: repetition inside the tree / draw claimable at the root
		cfg := full
		cfg.depths = []int{2, 3}
		runSearchCase(c, zt, zseed, "3k4/8/3K4/8/8/8/8/R7 w - - 0 1", strings.Fields("a1a2 d8c8 a2a1 c8d8 a1a2 d8c8 a2a1 c8d8"), cfg)
		runSearchCase(c, zt, zseed, "3k4/8/3K4/8/8/8/8/R7 w - - 0 1", strings.Fields("a1a2 d8c8 a2a1 c8d8 a1a2 d8c8 a2a1"), cfg)
		runSearchCase(c, zt, zseed, "1k6/8/1K6/8/8/8/8/7Q w - - 99 60", nil, cfg)
		runSearchCase(c, zt, zseed, fen.Initial, strings.Fields("g1f3 g8f6 f3g1 f6g8 g1f3 g8f6 f3g1 f6g8"), searchCfg{depths: []int{1, 2}, tt: "none", low: eval.NegInfScore, high: eval.InfScore, cancel: -1})
	case "C13":
		for i := 0; i < c.scale(120, 2500); i++ {
			cfg := full
			cfg.depths = []int{1 + c.r.Intn(maxd)}
			cfg.quiet = c.r.Intn(3) == 0
			f := pick()
			m := materialOf(f)
			a, b := windowAround(c, m), windowAround(c, m)
			if b.Less(a) {
				a, b = b, a
			}
			if !a.Less(b) {
				continue
			}
			cfg.low, cfg.high = a, b
			runSearchCase(c, zt, zseed, f, nil, cfg)
		}
		// every curated position (stalemates and mates included) at depth 0 and 1 with quiescence, windows
		// around the static evaluation
		for _, f := range searchFENs[:len(searchFENs)-2] {
			m := materialOf(f)
			for k := 0; k < c.scale(4, 20); k++ {
				cfg := full
				cfg.depths = []int{k % 2}
				cfg.quiet = true
				a, b := windowAround(c, m), windowAround(c, m)
				if b.Less(a) {
					a, b = b, a
				}
				if !a.Less(b) {
					continue
				}
				cfg.low, cfg.high = a, b
				runSearchCase(c, zt, zseed, f, nil, cfg)
			}
		}
		// the true value of a new game does not depend on what the engine searched in the game before
		engineResetTableChecks(c, "C13")
		// quiescence trees of tens of thousands of nodes (many heavy pieces en prise): the value returned with
		// the full window is the value v; every narrowed window must clip exactly that v
		for _, f := range []string{"2NkqR1Q/Br1Br3/1Rq1q3/1Q2r1n1/1K6/1r3q1Q/1Q3QQ1/2b1R1R1 w - - 0 1", "1k1q1r1Q/rB1Rq3/1q1Q1r2/2Rq1Q2/1Q1r1q2/2q1Q1R1/1R1Q1q1r/1K4Rq w - - 0 1"} {
			pos, turn, np, fm, err := fen.Decode(f)
			if err != nil || pos == nil || pos.IsChecked(turn.Opponent()) {
				continue
			}
			qs := search.Quiescence{Explore: capturesOnly, Eval: search.Leaf{Eval: eval.Material{}}}
			b0 := board.NewBoard(zt, pos, turn, np, fm)
			done := make(chan eval.Score, 1)
			go func() {
				_, v := qs.QuietSearch(context.Background(), &search.Context{Alpha: eval.NegInfScore, Beta: eval.InfScore, TT: search.NoTranspositionTable{}}, b0)
				done <- v
			}()
			var v eval.Score
			select {
			case v = <-done:
			case <-time.After(20 * time.Second):
				continue // too large for this machine: skip
			}
			fmt.Printf("COUNT bigq 1\n")
			le := func(a, b eval.Score) bool { return !b.Less(a) }
			for _, off := range []float32{-6.5, -0.5, 0.5, 4.5} {
				a := eval.HeuristicScore(v.Pawns + eval.Pawns(off) - 0.5)
				bb := eval.HeuristicScore(v.Pawns + eval.Pawns(off) + 0.5)
				b1 := board.NewBoard(zt, pos, turn, np, fm)
				_, r := qs.QuietSearch(context.Background(), &search.Context{Alpha: a, Beta: bb, TT: search.NoTranspositionTable{}}, b1)
				ok := true
				switch {
				case a.Less(v) && v.Less(bb):
					ok = le(r, v) && le(v, r)
				case le(v, a):
					ok = le(v, r) && le(r, a)
				default:
					ok = le(bb, r) && le(r, v)
				}
				if !ok {
					fmt.Printf("IMPLVIOL bigq %s window=(%s,%s) :: quiescence returned %s, with the full window %s prop=C13 key=big-quiescence\n", f, scoreTok(a), scoreTok(bb), scoreTok(r), scoreTok(v))
					break
				}
			}
		}
		// one table kept along a game with repetitions: the root is searched, the pieces shuffle out and
		// back twice, the root is searched again - successors that now are third occurrences are worth 0
		// whatever the table remembers about them
		type rep struct {
			f   string
			cyc string
		}
		for _, rp := range []rep{
			{"r5k1/8/8/8/8/8/8/6K1 w - - 0 1", "g1h1 g8h8 h1g1 h8g8"},
			{"6k1/8/8/8/8/8/8/R5K1 b - - 0 1", "g8h8 g1h1 h8g8 h1g1"},
			{"3k4/8/3K4/8/8/8/8/R7 w - - 0 1", "a1a2 d8c8 a2a1 c8d8"},
			{"6k1/5ppp/8/8/8/8/5PPP/R5K1 w - - 0 1", "a1b1 g8h8 b1a1 h8g8"},
			{"r5k1/8/8/8/8/8/8/6K1 w - - 0 1", "g1f1 g8f8 f1g1 f8g8"},
		} {
			for _, d := range []int{1, 2, 3} {
				for _, q := range []bool{false, true} {
					cfg := full
					cfg.depths = []int{d, d}
					cfg.quiet = q
					cfg.tt = "size:65536"
					cyc := strings.Fields(rp.cyc)
					cfg.then = append(append([]string{}, cyc...), cyc...)
					cfg.thenAt = 1
					runSearchCase(c, zt, zseed, rp.f, nil, cfg)
				}
			}
		}
		// depth 0 = quiescence alone
		for i := 0; i < c.scale(40, 800); i++ {
			cfg := full
			cfg.depths = []int{0}
			cfg.quiet = true
			a, b := randomWindowScore(c), randomWindowScore(c)
			if b.Less(a) {
				a, b = b, a
			}
			if a.Less(b) {
				cfg.low, cfg.high = a, b
			}
			runSearchCase(c, zt, zseed, pick(), nil, cfg)
		}
	case "C11":
		sizes := []string{"size:32", "size:64", "size:1024", "size:65536", "size:1048576", "min:1:65536", "min:2:1024"}
		for i := 0; i < c.scale(20, 600); i++ {
			f := pick()
			cfg := full
			cfg.quiet = c.r.Intn(3) == 0
			// iterative deepening and a repeated search on one table
			cfg.depths = []int{1, 2, 3, 3}
			if c.r.Intn(2) == 0 {
				cfg.depths = []int{maxd, maxd, 2}
			}
			cfgNo := cfg
			runSearchCase(c, zt, zseed, f, nil, cfgNo)
			cfg.tt = sizes[c.r.Intn(len(sizes))]
			runSearchCase(c, zt, zseed, f, nil, cfg)
		}
		gameTableChecks(c)
		consoleTableChecks(c)
		engineResetTableChecks(c, "C11")
		manyNewGamesChecks(c, "C11")
		// a halted search leaves nothing in the table that a later search could take for a result: quiet-search
		// leaves (their polls are not the main search's), cancellation at many poll indices, then the same search
		for i := 0; i < c.scale(10, 150); i++ {
			f := pick()
			cfg := full
			cfg.depths = []int{2 + c.r.Intn(2)}
			cfg.quiet = i%4 != 3
			cfg.tt = "size:65536"
			for _, n := range []int{1, 2, 3, 5, 8, 13, 21, 34, 55, 89, 144, 233, 377, 610, 987} {
				runHaltCase(c, zt, zseed, f, cfg, n)
			}
		}
		uciTableSessions(c)
	case "C12":
		for i := 0; i < c.scale(25, 400); i++ {
			f := pick()
			cfg := full
			cfg.depths = []int{2 + c.r.Intn(2)}
			cfg.quiet = c.r.Intn(3) == 0
			cfg.tt = "size:65536"
			if i%3 == 1 {
				// a narrowed root window (aspiration): halts inside the quiet search must still be reported
				m := materialOf(f)
				a, b := windowAround(c, m), windowAround(c, m)
				if b.Less(a) {
					a, b = b, a
				}
				if a.Less(b) {
					cfg.low, cfg.high = a, b
					cfg.depths = []int{1 + c.r.Intn(2)}
					cfg.quiet = true
				}
			}
			// uncancelled control run
			runSearchCase(c, zt, zseed, f, nil, cfg)
			// cancellation at selected poll indices, then a clean search on the same table
			for _, n := range []int{0, 1, 2, 3, 5, 8, 13, 21, 34, 55, 89, 144, 233, 377, 610, 987} {
				if !c.thorough() && n > 150 && c.r.Intn(2) == 0 {
					continue
				}
				runHaltCase(c, zt, zseed, f, cfg, n)
			}
		}
		haltTerminalRoots("C12")
		// a search halted one move down the line, then the move taken back and the parent searched with the
		// same table: what the halted search left behind must not change the parent's result either
		nparent := 0
		for i := 0; i < c.scale(12, 240); i++ {
			f := pick()
			if i < 2 {
				f = "4r1k1/3n1ppp/8/p7/1P6/8/5PPP/3R2K1 w - - 0 1"
			}
			pos, turn, np, fm, err := fen.Decode(f)
			if err != nil || pos == nil {
				continue
			}
			ms := legalMoves(pos, turn)
			if len(ms) == 0 {
				continue
			}
			m := ms[c.r.Intn(len(ms))]
			if i < 2 {
				for _, x := range ms {
					if x.IsCapture() {
						m = x
					}
				}
			}
			d := 1 + c.r.Intn(2)
			quiet := c.r.Intn(3) == 0
			mk := func() search.Search {
				if quiet {
					return search.AlphaBeta{Eval: search.Quiescence{Explore: capturesOnly, Eval: search.Leaf{Eval: eval.Material{}}}}
				}
				return search.AlphaBeta{Eval: search.Leaf{Eval: eval.Material{}}}
			}
			// control: the parent at depth d+1 on a fresh table
			bc := board.NewBoard(zt, pos, turn, np, fm)
			_, want, _, errc := mk().Search(context.Background(), &search.Context{TT: makeTT("size:65536")}, bc, d+1)
			if errc != nil {
				continue
			}
			for _, n := range []int{1, 2, 3, 5, 8, 13, 21, 34, 55} {
				b := board.NewBoard(zt, pos, turn, np, fm)
				if !b.PushMove(m) {
					break
				}
				tt := makeTT("size:65536")
				cctx := newCountingCtx(n)
				_, _, _, err1 := mk().Search(cctx, &search.Context{TT: tt}, b, d)
				b.PopMove()
				_, got, _, err2 := mk().Search(context.Background(), &search.Context{TT: tt}, b, d+1)
				nparent++
				if err2 != nil {
					continue
				}
				le := func(a, b eval.Score) bool { return !b.Less(a) }
				if !(le(got, want) && le(want, got)) {
					fmt.Printf("IMPLVIOL haltparent %s move=%s depth=%d q=%s cancel=%d halted=%v :: after the halted search of the position one move on, the search of this position with the same table returns %s, without it %s prop=C12 key=left-behind\n", f, uciMove(m), d, b01(quiet), n, err1 != nil, scoreTok(got), scoreTok(want))
					break
				}
			}
		}
		fmt.Printf("COUNT haltparent %d\n", nparent)
		// roots at which a draw can be claimed on entry (threefold on the board, clock at 100): the halted
		// search must hand the board back with that result
		type hroot struct {
			f string
			h []string
		}
		for _, hr := range []hroot{
			{"3k4/8/3K4/8/8/8/8/R7 w - - 0 1", strings.Fields("a1a2 d8c8 a2a1 c8d8 a1a2 d8c8 a2a1 c8d8")},
			{fen.Initial, strings.Fields("g1f3 g8f6 f3g1 f6g8 g1f3 g8f6 f3g1 f6g8")},
			{"1k6/8/1K6/8/8/8/8/7Q w - - 99 60", strings.Fields("h1h2")},
		} {
			for _, n := range []int{0, 1, 2, 3, 5, 8, 13, 21} {
				cfg := full
				cfg.depths = []int{2}
				cfg.quiet = n%2 == 0
				cfg.cancel = n
				cfg.tt = "size:65536"
				runSearchCase(c, zt, zseed, hr.f, hr.h, cfg)
			}
		}
	}
}

// runHaltCase: a search cancelled at poll n on a fresh table, followed by an uncancelled search with
// the same table, compared with an uncancelled search on a fresh table (control).
func runHaltCase(c *caseCtx, zt *board.ZobristTable, zseed int64, fenStr string, cfg searchCfg, n int) {
	pos, turn, np, fm, err := fen.Decode(fenStr)
	if err != nil || pos == nil {
		return
	}
	mk := func() search.Search {
		if cfg.quiet {
			return search.AlphaBeta{Eval: search.Quiescence{Explore: capturesOnly, Eval: search.Leaf{Eval: eval.Material{}}}}
		}
		return search.AlphaBeta{Eval: search.Leaf{Eval: eval.Material{}}}
	}
	d := cfg.depths[0]
	b := board.NewBoard(zt, pos, turn, np, fm)
	before := boardObs(zt, b, true)
	tt := makeTT(cfg.tt)
	cctx := newCountingCtx(n)
	rec := &recordingTT{TranspositionTable: tt, b: b, ctx: cctx}
	nodes, score, pv, err1 := mk().Search(cctx, &search.Context{Alpha: cfg.low, Beta: cfg.high, TT: rec}, b, d)
	after := boardObs(zt, b, true)
	// some poll of this search saw the cancellation (the context is cancelled from poll n on): it has to
	// say that it was halted, not return a score
	if cctx.Err() != nil && err1 == nil {
		fmt.Printf("IMPLVIOL halt %d %s %d %d %d %s cancel=%d :: the search saw the cancellation at poll %d (of %d polls) and still returned the score %s instead of reporting that it was halted prop=C12 key=halt-not-reported\n", zseed, posTok(pos), turn, np, fm, cfg.String(), n, n, atomic.LoadInt64(&cctx.polls), scoreTok(score))
	}
	nAfter := 0
	for _, w := range rec.writes {
		if w.after {
			nAfter++
		}
	}
	// follow-up search with the same table
	c2 := newCountingCtx(-1)
	_, score2, pv2, err2 := mk().Search(c2, &search.Context{Alpha: cfg.low, Beta: cfg.high, TT: tt}, b, d)
	// control: fresh table, fresh board
	b3 := board.NewBoard(zt, pos, turn, np, fm)
	c3 := newCountingCtx(-1)
	_, score3, pv3, err3 := mk().Search(c3, &search.Context{Alpha: cfg.low, Beta: cfg.high, TT: makeTT(cfg.tt)}, b3, d)
	first := func(pv []board.Move) string {
		if len(pv) == 0 {
			return "-"
		}
		return moveTok(pv[0])
	}
	if c.prop == "C11" && err2 == nil && err3 == nil && scoreTok(score2) != scoreTok(score3) {
		fmt.Printf("IMPLVIOL halt %d %s %d %d %d %s cancel=%d :: the search after a halted one (cancelled at poll %d), on the table the halted search used, returns %s; the same search on an empty table returns %s: the table changed the result prop=C11 key=table-after-halt\n", zseed, posTok(pos), turn, np, fm, cfg.String(), n, n, scoreTok(score2), scoreTok(score3))
	}
	c.emit("halt %d %s %d %d %d %s cancel=%d => %s %d %s %s %d %d || %s || %s || %s %s %s || %s %s %s", zseed, posTok(pos), turn, np, fm, cfg.String(), n,
		b01(err1 != nil), nodes, scoreTok(score), pvTok(pv), len(rec.writes), nAfter, before, after,
		b01(err2 != nil), scoreTok(score2), first(pv2), b01(err3 != nil), scoreTok(score3), first(pv3))
}

// deepChecks: failing-input search on the implementation itself, beyond the depth the extracted
// oracle can reach: AlphaBeta (full window for C03, random windows for C13) against the repository's
// exhaustive Minimax with the same static leaf, on history-free mate-rich endings at depth 4-5.
// Disagreements are printed as IMPLVIOL lines (picked up by check.py as violations with a replay).
var deepFENs = []string{
	"8/3r4/8/8/K1k5/8/8/8 w - - 0 1",
	"k7/8/8/8/1q1K4/8/5q2/8 w - - 0 1",
	"3k4/8/3K4/8/8/8/8/R7 w - - 0 1",
	"k7/2K5/8/8/8/8/8/1R6 w - - 0 1",
	"7k/8/5K2/6Q1/8/8/8/8 w - - 0 1",
	"5k2/8/5K2/8/8/8/8/6RR w - - 0 1",
	"8/8/8/8/8/1k6/2q5/K7 w - - 0 1",
	"6k1/8/6K1/8/8/8/8/1Q6 b - - 0 1",
	"8/8/8/8/8/k7/2q5/K7 b - - 0 1",
	"1k6/8/K7/8/8/8/8/3R3R b - - 0 1",
}

func deepChecks(c *caseCtx, prop string) {
	zt := board.NewZobristTable(0)
	n := 0
	run := func(f string, d int, low, high eval.Score) {
		pos, turn, np, fm, err := fen.Decode(f)
		if err != nil || pos == nil {
			return
		}
		b1 := board.NewBoard(zt, pos, turn, np, fm)
		b2 := board.NewBoard(zt, pos, turn, np, fm)
		ctx := context.Background()
		_, v, _, _ := search.Minimax{Eval: search.Leaf{Eval: eval.Material{}}}.Search(ctx, &search.Context{TT: search.NoTranspositionTable{}}, b1, d)
		_, r, pv, _ := search.AlphaBeta{Eval: search.Leaf{Eval: eval.Material{}}}.Search(ctx, &search.Context{Alpha: low, Beta: high, TT: search.NoTranspositionTable{}}, b2, d)
		n++
		le := func(a, b eval.Score) bool { return !b.Less(a) }
		ok := true
		switch {
		case low.Less(v) && v.Less(high):
			ok = le(r, v) && le(v, r)
		case le(v, low):
			ok = le(v, r) && le(r, low)
		default:
			ok = le(high, r) && le(r, v)
		}
		if !ok {
			fmt.Printf("IMPLVIOL deep %s depth=%d window=(%s,%s) :: AlphaBeta returned %s (pv %s), exhaustive Minimax %s prop=%s\n", f, d, scoreTok(low), scoreTok(high), scoreTok(r), pvTok(pv), scoreTok(v), prop)
		}
	}
	for i, f := range deepFENs {
		d := 4
		if i < c.scale(8, len(deepFENs)) {
			d = 5
		}
		if prop == "C03" {
			run(f, d, eval.NegInfScore, eval.InfScore)
			run(f, d-1, eval.NegInfScore, eval.InfScore)
		} else {
			for k := 0; k < c.scale(3, 12); k++ {
				a, b := randomWindowScore(c), randomWindowScore(c)
				if b.Less(a) {
					a, b = b, a
				}
				if a.Less(b) {
					run(f, d, a, b)
				}
			}
		}
	}
	for i := 0; i < c.scale(300, 6000); i++ {
		if f, ok := randomSmallPosition(c); ok {
			if prop == "C03" {
				run(f, 4, eval.NegInfScore, eval.InfScore)
			} else {
				a, b := randomWindowScore(c), randomWindowScore(c)
				if b.Less(a) {
					a, b = b, a
				}
				if a.Less(b) {
					run(f, 4, a, b)
				}
			}
		}
	}
	fmt.Printf("deepcmp=%d\n", n)
}

// gameTableChecks (C11): one table shared along the successive positions of a game, with static and
// quiescence leaves, all table sizes incl. tables that keep depth-0 entries; every search is compared
// with the same search without a table (score equal, first PV move has the same value).
func gameTableChecks(c *caseCtx) {
	ctx := context.Background()
	zt := board.NewZobristTable(0)
	n := 0
	sizes := []uint64{64, 1024, 65536, 1 << 20}
	mateFENs := []string{"k7/7R/7R/8/8/8/8/7K w - - 0 1", "7k/8/5K2/6Q1/8/8/8/8 w - - 0 1", "8/8/8/8/8/2k5/8/K2R4 b - - 0 1",
		"k7/3R4/7R/8/8/8/8/7K b - - 0 1", "6k1/5ppp/8/8/8/8/8/R5K1 w - - 0 1", "8/8/8/8/8/5k2/5q2/7K b - - 0 1"}
	scripted := 2 * len(mateFENs)
	for g := 0; g < scripted+c.scale(25, 500); g++ {
		f, ok := randomSmallPosition(c)
		if g < scripted {
			// every mate ending, static and quiescence leaves: depth 1..4, play the PV move, again
			f, ok = mateFENs[g/2], true
		} else {
			switch c.r.Intn(4) {
			case 0:
				f, ok = curatedFENs[1+c.r.Intn(5)], false
			case 1:
				// short forced mates: mate scores meet entries of other depths
				mates := []string{"k7/7R/7R/8/8/8/8/7K w - - 0 1", "7k/8/5K2/6Q1/8/8/8/8 w - - 0 1", "8/8/8/8/8/2k5/8/K2R4 b - - 0 1",
					"k7/3R4/7R/8/8/8/8/7K b - - 0 1", "6k1/5ppp/8/8/8/8/8/R5K1 w - - 0 1", "8/8/8/8/8/5k2/5q2/7K b - - 0 1"}
				f, ok = mates[c.r.Intn(len(mates))], true
			}
		}
		pos, turn, _, _, err := fen.Decode(f)
		if err != nil || pos == nil {
			continue
		}
		quiet := c.r.Intn(2) == 0
		if g < scripted {
			quiet = g%2 == 0
		}
		// every fifth game with the SARGON leaf (a nested one-ply search when in check, sharing the context)
		sargonLeaf := g >= scripted && g%5 == 0
		mk := func() search.Search {
			if sargonLeaf {
				return search.AlphaBeta{Eval: sargon.OnePlyIfChecked{Leaf: search.Leaf{Eval: eval.Material{}}}}
			}
			if quiet {
				return search.AlphaBeta{Eval: search.Quiescence{Explore: capturesOnly, Eval: search.Leaf{Eval: eval.Material{}}}}
			}
			return search.AlphaBeta{Eval: search.Leaf{Eval: eval.Material{}}}
		}
		tt := search.NewTranspositionTable(ctx, sizes[c.r.Intn(len(sizes))])
		b := board.NewBoard(zt, pos, turn, 0, 1)
		var played []string
		small := ok && f != curatedFENs[1] // few men: depth 4 is affordable
		failed := false
		for ply := 0; ply < 5 && !failed; ply++ {
			// iterative deepening 1..D with the shared table, as the engine does between the moves of a game:
			// entries left by the deeper searches of the previous move meet shallower requests now
			D := 1 + c.r.Intn(3)
			if small && c.r.Intn(2) == 0 {
				D = 4
			}
			from := 1
			if c.r.Intn(3) == 0 {
				from = D // or one search only
			}
			if g < scripted {
				D, from = 4, 1
			}
			var pvT []board.Move
			for d := from; d <= D; d++ {
				_, withT, pv, e1 := mk().Search(ctx, &search.Context{TT: tt}, b, d)
				pvT = pv
				b2 := b.Fork()
				_, without, _, e2 := mk().Search(ctx, &search.Context{TT: search.NoTranspositionTable{}}, b2, d)
				n++
				if e1 != nil || e2 != nil {
					failed = true
					break
				}
				le := func(a, b eval.Score) bool { return !b.Less(a) }
				if !(le(withT, without) && le(without, withT)) {
					fmt.Printf("IMPLVIOL tablegame %s moves=[%s] depth=%d q=%s :: with the shared table the search returns %s, without a table %s prop=C11 key=game-table\n", f, strings.Join(played, " "), d, b01(quiet), scoreTok(withT), scoreTok(without))
					failed = true
					break
				}
			}
			if failed {
				break
			}
			// play the PV move (or a random legal move) and continue with the same table
			ms := legalMoves(b.Position(), b.Turn())
			if len(ms) == 0 {
				break
			}
			m := ms[c.r.Intn(len(ms))]
			if len(pvT) > 0 && (c.r.Intn(2) == 0 || g < scripted) {
				for _, x := range ms {
					if x.Equals(pvT[0]) {
						m = x
					}
				}
			}
			if !b.PushMove(m) {
				break
			}
			played = append(played, uciMove(m))
			if b.Result().Outcome == board.Draw {
				break
			}
		}
	}
	// the SARGON leaf on check-rich positions: depth 1 then 2 then 3 on one table against no table
	for _, f := range []string{"rn2k2r/6p1/1pp2p1p/p1Pp2Pn/3QqP2/P3PK2/P7/R1B3R1 w k - 1 30", "r3k2r/p1ppqpb1/bn2pnp1/3PN3/1p2P3/2N2Q1p/PPPBBPPP/R3K2R w KQkq - 0 1", "6k1/5ppp/8/8/8/8/5PPP/R5K1 w - - 0 1", "3rk3/8/8/8/8/8/3R4/3K4 w - - 0 1"} {
		pos, turn, np, fm, err := fen.Decode(f)
		if err != nil {
			continue
		}
		s := search.AlphaBeta{Eval: sargon.OnePlyIfChecked{Leaf: search.Leaf{Eval: eval.Material{}}}}
		tt := search.NewTranspositionTable(ctx, 1<<20)
		for d := 1; d <= 3; d++ {
			b1 := board.NewBoard(zt, pos, turn, np, fm)
			b2 := board.NewBoard(zt, pos, turn, np, fm)
			_, withT, _, e1 := s.Search(ctx, &search.Context{TT: tt}, b1, d)
			_, without, _, e2 := s.Search(ctx, &search.Context{TT: search.NoTranspositionTable{}}, b2, d)
			n++
			le := func(a, b eval.Score) bool { return !b.Less(a) }
			if e1 == nil && e2 == nil && !(le(withT, without) && le(without, withT)) {
				fmt.Printf("IMPLVIOL tablegame %s leaf=sargon depth=%d :: with the shared table the search returns %s, without a table %s prop=C11 key=sargon-leaf-table\n", f, d, scoreTok(withT), scoreTok(without))
				break
			}
		}
	}
	fmt.Printf("COUNT tablegame %d\n", n)
}
