//go:build verif

package main

import (
	"fmt"
	"strings"
	"sync"

	"github.com/herohde/morlock/pkg/board"
	"github.com/herohde/morlock/pkg/eval"
)

func init() {
	caseGens["C01"] = casesMovegen
	caseGens["C02"] = casesMove
	caseGens["C06"] = casesAttacks
}

func emitMovegen(c *caseCtx, s state) {
	var parts []string
	for _, m := range s.pos.PseudoLegalMoves(s.turn) {
		_, ok := s.pos.Move(m)
		parts = append(parts, moveTok(m)+","+b01(ok))
	}
	c.emit("movegen %s %d => %s", posTok(s.pos), s.turn, strings.Join(parts, ";"))
}

// C01: move generation on generated positions + perft anchors.
func casesMovegen(c *caseCtx) {
	// the opening book is the one path on which the engine plays a move without asking the generator
	bookChecks(c, "C01")
	for _, s := range genStates(c, c.scale(1500, 30000)) {
		emitMovegen(c, s)
	}
	// castling stress: short playouts from positions with castling rights and corner rooks under attack,
	// move generation checked in EVERY state visited (an error in the castling rights only surfaces
	// several moves later, when a castle is generated that should not be)
	castleStarts := curatedFENs[len(curatedFENs)-8:]
	for g := 0; g < c.scale(70, 3000); g++ {
		start := mustDecode(castleStarts[c.r.Intn(len(castleStarts))])
		sts, ms := castlePlayout(c, start, 8+c.r.Intn(10))
		// the whole game against the specification game played from the start by the rules: castling
		// rights and e.p. targets are then the oracle's own, not read off the implementation's position
		var sets, mtoks []string
		for _, s := range sts {
			var l []string
			for _, m := range legalMoves(s.pos, s.turn) {
				l = append(l, fmt.Sprintf("%d-%d-%d", m.From, m.To, promoCode(m)))
			}
			if len(l) == 0 {
				l = []string{"-"}
			}
			sets = append(sets, strings.Join(l, ","))
		}
		for _, m := range ms {
			mtoks = append(mtoks, moveTok(m))
		}
		if len(mtoks) == 0 {
			mtoks = []string{"-"}
		}
		c.emit("gamegen %s %d :: %s => %s", posTok(start.pos), start.turn, strings.Join(mtoks, " "), strings.Join(sets, " | "))
		if len(sts) > 0 {
			emitMovegen(c, sts[len(sts)-1])
		}
	}
	// perft on the standard positions (spec perft vs implementation perft)
	depth := c.scale(2, 3)
	for i, f := range curatedFENs {
		if i >= 6 && !c.thorough() {
			break
		}
		s := mustDecode(f)
		c.emit("perft %s %d %d => %d", posTok(s.pos), s.turn, depth, perft(s.pos, s.turn, depth))
	}
}

func perft(pos *board.Position, turn board.Color, depth int) int {
	if depth == 0 {
		return 1
	}
	n := 0
	for _, m := range pos.PseudoLegalMoves(turn) {
		if next, ok := pos.Move(m); ok {
			n += perft(next, turn.Opponent(), depth-1)
		}
	}
	return n
}

// C02: every pseudo-legal move of generated positions with the full successor (all words), and the
// origin position re-dumped afterwards (must be untouched).
func casesMove(c *caseCtx) {
	for i, s := range genStates(c, c.scale(400, 8000)) {
		if i%7 == 0 {
			restrictedQueries(s)
		}
		before := posTok(s.pos)
		for _, m := range s.pos.PseudoLegalMoves(s.turn) {
			next, ok := s.pos.Move(m)
			if ok {
				c.emit("move %s %s => %s", before, moveTok(m), posTok(next))
			} else {
				c.emit("move %s %s => illegal", before, moveTok(m))
			}
			if after := posTok(s.pos); after != before {
				fmt.Printf("IMPLVIOL move %s %s :: position moved from was modified key=origin-mutated\n", before, moveTok(m))
			}
		}
		emitQueries(c, s)
	}
	// long playouts: errors in a redundant view only surface several moves later
	for g := 0; g < c.scale(10, 200); g++ {
		sts := playout(c, mustDecode(curatedFENs[c.r.Intn(len(curatedFENs))]), 120)
		last := sts[len(sts)-1]
		emitQueries(c, last)
		emitMovegen(c, last)
	}
	// positions are values also when they come from a game board: played, taken back, forked and played
	// again, every position once obtained still reads what it read (monitor inside the script)
	zt := board.NewZobristTable(0)
	for g := 0; g < c.scale(40, 800); g++ {
		randomScript(c, zt, 0, curatedFENs[c.r.Intn(len(curatedFENs))], 30+c.r.Intn(60)).checkSeen()
	}
	fmt.Printf("COUNT position-values %d\n", c.scale(40, 800))
}

// restrictedQueries asks "attacked by one of these kinds" with piece lists built the usual way, by
// appending to the exported lists; the answer must equal the one for a literal list, and (checked by the
// queries that follow) asking must not change what later queries say.
func restrictedQueries(s state) {
	lists := [][2][]board.Piece{
		{append(board.KingQueen, board.Knight), {board.King, board.Queen, board.Knight}},
		{append(board.KingQueen, board.Pawn), {board.King, board.Queen, board.Pawn}},
		{append(board.QueenRookKnightBishop, board.Pawn), {board.Queen, board.Rook, board.Knight, board.Bishop, board.Pawn}},
		{append(board.KingQueenRookKnightBishop, board.Pawn), {board.King, board.Queen, board.Rook, board.Knight, board.Bishop, board.Pawn}},
	}
	for _, col := range []board.Color{board.White, board.Black} {
		for sq := board.ZeroSquare; sq < board.NumSquares; sq += 5 {
			for _, l := range lists {
				if a, b := s.pos.IsAttackedBy(col, sq, l[0]), s.pos.IsAttackedBy(col, sq, l[1]); a != b {
					fmt.Printf("IMPLVIOL queries %s %d :: IsAttackedBy(%v, %v, appended list %v) = %v but %v for the literal list prop=C06 key=restricted-query\n", posTok(s.pos), s.turn, col, sq, l[1], a, b)
					return
				}
			}
		}
	}
}

func emitQueries(c *caseCtx, s state) {
	var mask uint64
	for sq := board.ZeroSquare; sq < board.NumSquares; sq++ {
		if s.pos.IsAttacked(s.turn, sq) {
			mask |= 1 << sq
		}
	}
	c.emit("queries %s %d => %s %s %s %x", posTok(s.pos), s.turn, b01(s.pos.IsChecked(board.White)), b01(s.pos.IsChecked(board.Black)), b01(s.pos.IsCheckMate(s.turn)), mask)
}

func emitAttacks(c *caseCtx, occ board.Bitboard, sq board.Square) {
	r := board.NewRotatedBitboard(occ)
	w := r.VerifWords()
	c.emit("attacks %x %x %x %x %d => %x %x %x %x", uint64(w[0]), uint64(w[1]), uint64(w[2]), uint64(w[3]), sq,
		uint64(board.RookAttackboard(r, sq)), uint64(board.BishopAttackboard(r, sq)), uint64(board.KingAttackboard(sq)), uint64(board.KnightAttackboard(sq)))
}

// lineSquares returns the squares of the four lines through sq (rank, file, two diagonals).
func lineSquares(sq board.Square) [4][]board.Square {
	var ret [4][]board.Square
	f0, r0 := int(sq.File()), int(sq.Rank())
	for s := board.ZeroSquare; s < board.NumSquares; s++ {
		f, r := int(s.File()), int(s.Rank())
		if s == sq {
			continue
		}
		switch {
		case r == r0:
			ret[0] = append(ret[0], s)
		case f == f0:
			ret[1] = append(ret[1], s)
		case f-f0 == r-r0:
			ret[2] = append(ret[2], s)
		case f-f0 == -(r - r0):
			ret[3] = append(ret[3], s)
		}
	}
	return ret
}

// C06: structured sweep. For every square: every occupancy of each of its four lines with the rest
// of the board empty; each such line state again with one other square toggled (cross-talk through
// a wrong rotation entry); random occupancies; pawn boards; derived queries on positions.
func casesAttacks(c *caseCtx) {
	for sq := board.ZeroSquare; sq < board.NumSquares; sq++ {
		lines := lineSquares(sq)
		for li := 0; li < 4; li++ {
			l := lines[li]
			for st := 0; st < 1<<len(l); st++ {
				if !c.thorough() && len(l) == 7 && st%3 != int(sq)%3 {
					continue // quick tier: a third of the 128-state lines per square
				}
				var occ board.Bitboard
				for i, s := range l {
					if st&(1<<i) != 0 {
						occ |= board.BitMask(s)
					}
				}
				emitAttacks(c, occ|board.BitMask(sq), sq)
				if st%4 == 0 || c.thorough() {
					other := board.Square(c.r.Intn(64))
					emitAttacks(c, (occ|board.BitMask(sq))^board.BitMask(other), sq)
				}
			}
		}
	}
	// every pair (slider square, one other occupied square): a wrong rotation entry for the other square
	// shows up as a phantom blocker or a transparent piece on some line of some slider square
	for sq := board.ZeroSquare; sq < board.NumSquares; sq++ {
		for other := board.ZeroSquare; other < board.NumSquares; other++ {
			if other != sq {
				emitAttacks(c, board.BitMask(sq)|board.BitMask(other), sq)
			}
		}
	}
	// ... and the complement: everything occupied except one other square
	for sq := board.ZeroSquare; sq < board.NumSquares; sq++ {
		for other := board.ZeroSquare; other < board.NumSquares; other++ {
			if other != sq && (c.thorough() || (int(sq)+int(other))%4 == 0) {
				emitAttacks(c, ^board.BitMask(other), sq)
			}
		}
	}
	for i := 0; i < c.scale(20000, 400000); i++ {
		occ := board.Bitboard(c.r.Uint64())
		switch c.r.Intn(3) {
		case 0:
			occ &= board.Bitboard(c.r.Uint64())
		case 1:
			occ &= board.Bitboard(c.r.Uint64()) & board.Bitboard(c.r.Uint64())
		}
		emitAttacks(c, occ, board.Square(c.r.Intn(64)))
	}
	for i := 0; i < c.scale(3000, 60000); i++ {
		pawns := board.Bitboard(c.r.Uint64()) & board.Bitboard(c.r.Uint64())
		all := pawns | board.Bitboard(c.r.Uint64())&board.Bitboard(c.r.Uint64())
		col := board.Color(c.r.Intn(2))
		c.emit("pawnboards %d %x %x => %x %x", col, uint64(pawns), uint64(all), uint64(board.PawnCaptureboard(col, pawns)), uint64(board.PawnMoveboard(all, col, pawns)))
	}
	for i, s := range genStates(c, c.scale(600, 12000)) {
		if i%9 == 0 {
			restrictedQueries(s) // asking with a restricted piece list must not change later answers
		}
		emitQueries(c, s)
	}
	// checks (mostly mates) from a slider with the square behind the king free: every derived query, for both sides
	nm := 0
	for _, f := range sliderChecks(c, c.scale(120, 1200)) {
		s := mustDecode(f)
		if len(legalMoves(s.pos, s.turn)) == 0 {
			nm++
		}
		emitQueries(c, s)
		emitQueries(c, state{s.pos, s.turn.Opponent()})
	}
	fmt.Printf("COUNT slider-mates %d\n", nm)
	concurrentQueries(c)
	// eval.FindCapture / eval.FindPins
	for _, s := range genStates(c, c.scale(300, 6000)) {
		for k := 0; k < 8; k++ {
			side := board.Color(c.r.Intn(2))
			sq := board.Square(c.r.Intn(64))
			if k >= 4 {
				// targets on the back ranks (pawn capturers from the seventh / second rank)
				sq = board.Square(c.r.Intn(8))
				if k%2 == 0 {
					sq += 56
				}
			}
			var toks []string
			for _, pl := range eval.FindCapture(s.pos, side, sq) {
				toks = append(toks, fmt.Sprintf("%d:%d", pl.Piece, pl.Square))
			}
			if len(toks) == 0 {
				toks = []string{"-"}
			}
			c.emit("captures %s %d %d => %s", posTok(s.pos), side, sq, strings.Join(toks, ","))
		}
		for _, piece := range []board.Piece{board.King, board.Queen} {
			for side := board.White; side <= board.Black; side++ {
				var toks []string
				for _, pin := range eval.FindPins(s.pos, side, piece) {
					toks = append(toks, fmt.Sprintf("%d:%d:%d", pin.Attacker, pin.Pinned, pin.Target))
				}
				if len(toks) == 0 {
					toks = []string{"-"}
				}
				c.emit("pins %s %d %d => %s", posTok(s.pos), side, piece, strings.Join(toks, ","))
			}
		}
	}
}

// concurrentQueries: the derived queries are functions of an immutable position, so asking them from
// several goroutines at once (several engines or searches in one process) gives the same answers as asking
// them one after the other.
func concurrentQueries(c *caseCtx) {
	sts := genStates(c, 320)[:320]
	answer := func(s state) string {
		var sb strings.Builder
		for _, side := range []board.Color{board.White, board.Black} {
			for sq := board.ZeroSquare; sq < board.NumSquares; sq += 3 {
				for _, pl := range eval.FindCapture(s.pos, side, sq) {
					fmt.Fprintf(&sb, "%d:%d:%d,", sq, pl.Piece, pl.Square)
				}
				fmt.Fprintf(&sb, "%v%v;", s.pos.IsAttacked(side, sq), s.pos.IsDefended(side, sq))
			}
			for _, pin := range eval.FindPins(s.pos, side, board.King) {
				fmt.Fprintf(&sb, "p%d:%d:%d,", pin.Attacker, pin.Pinned, pin.Target)
			}
			for _, sq := range s.pos.Piece(side, board.Pawn).ToSquares() {
				fmt.Fprintf(&sb, "s%d,", sq)
			}
			fmt.Fprintf(&sb, "%v%v%d|", s.pos.IsChecked(side), s.pos.IsCheckMate(side), len(s.pos.LegalMoves(side)))
		}
		return sb.String()
	}
	want := make([]string, len(sts))
	for i, s := range sts {
		want[i] = answer(s)
	}
	var wg sync.WaitGroup
	var mu sync.Mutex
	bad := 0
	// every worker asks about EVERY position, each starting elsewhere, several times over: a clash needs two
	// goroutines inside the same helper at the same instant, so the phase has to last long enough to make
	// that all but certain (a shared scratch buffer in Bitboard.ToSquares went unnoticed in 1 run of 4 with
	// three passes over an eighth of the positions per worker)
	const workers, reps = 16, 4
	for w := 0; w < workers; w++ {
		wg.Add(1)
		go func(w int) {
			defer wg.Done()
			for rep := 0; rep < reps; rep++ {
				for k := 0; k < len(sts); k++ {
					i := (k + w*len(sts)/workers) % len(sts)
					if got := answer(sts[i]); got != want[i] {
						mu.Lock()
						if bad < 2 {
							fmt.Printf("IMPLVIOL queries %s %d :: asked concurrently with other positions the queries answer [%s], alone [%s] prop=C06 key=concurrent-queries\n", posTok(sts[i].pos), sts[i].turn, got, want[i])
						}
						bad++
						mu.Unlock()
					}
				}
			}
		}(w)
	}
	wg.Wait()
	fmt.Printf("COUNT concurrent-queries %d\n", len(sts)*workers*reps)
}

func isCorner(sq board.Square) bool {
	return sq == board.A1 || sq == board.H1 || sq == board.A8 || sq == board.H8
}

// castlePlayout biases the game towards the life cycle of a castling right: pieces capturing on a
// corner, pieces other than rooks leaving a corner, rooks returning to an empty home corner, castling.
func promoCode(m board.Move) int {
	if m.IsPromotion() {
		return int(m.Promotion)
	}
	return 0
}

func castlePlayout(c *caseCtx, start state, plies int) ([]state, []board.Move) {
	var played []board.Move
	ret := []state{start}
	cur := start
	for i := 0; i < plies; i++ {
		moves := legalMoves(cur.pos, cur.turn)
		if len(moves) == 0 {
			break
		}
		var pri []board.Move
		for _, m := range moves {
			switch {
			case isCorner(m.To) && m.IsCapture():
				pri = append(pri, m, m)
			case isCorner(m.From) && m.Piece != board.Rook:
				pri = append(pri, m)
			case isCorner(m.To) && m.Piece == board.Rook && !m.IsCapture():
				pri = append(pri, m, m)
			case m.IsCastle():
				pri = append(pri, m)
			}
		}
		var m board.Move
		if len(pri) > 0 && c.r.Intn(3) != 0 {
			m = pri[c.r.Intn(len(pri))]
		} else {
			m = moves[c.r.Intn(len(moves))]
		}
		next, ok := cur.pos.Move(m)
		if !ok {
			break
		}
		cur = state{next, cur.turn.Opponent()}
		ret = append(ret, cur)
		played = append(played, m)
	}
	return ret, played
}
