//go:build verif

package main

import (
	"fmt"
	"strings"

	"github.com/herohde/morlock/pkg/board"
	"github.com/herohde/morlock/pkg/board/fen"
)

// posTok serialises every word of a position: 14 piece words (colour*7 + piece, index 0 = all of
// the colour), the 4 rotated words, castling and en passant. All hex.
func posTok(p *board.Position) string {
	var parts []string
	for c := board.ZeroColor; c < board.NumColors; c++ {
		parts = append(parts, fmt.Sprintf("%x", uint64(p.Color(c))))
		for pc := board.ZeroPiece; pc < board.NumPieces; pc++ {
			parts = append(parts, fmt.Sprintf("%x", uint64(p.Piece(c, pc))))
		}
	}
	for _, w := range p.Rotated().VerifWords() {
		parts = append(parts, fmt.Sprintf("%x", uint64(w)))
	}
	ep, _ := p.EnPassant()
	parts = append(parts, fmt.Sprintf("%x", uint64(p.Castling())), fmt.Sprintf("%x", uint64(ep)))
	return strings.Join(parts, ",")
}

func moveTok(m board.Move) string {
	return fmt.Sprintf("%d,%d,%d,%d,%d,%d", m.Type, m.From, m.To, m.Piece, m.Promotion, m.Capture)
}

type state struct {
	pos  *board.Position
	turn board.Color
}

func mustDecode(f string) state {
	pos, turn, _, _, err := fen.Decode(f)
	if err != nil || pos == nil {
		panic(fmt.Sprintf("bad curated fen %q: %v", f, err))
	}
	return state{pos, turn}
}

// curatedFENs: the six standard perft positions, castling skeletons, e.p. pins, promotion races,
// rook-on-home-square captures, minor-piece endings, checks and mates.
var curatedFENs = []string{
	fen.Initial,
	"r3k2r/p1ppqpb1/bn2pnp1/3PN3/1p2P3/2N2Q1p/PPPBBPPP/R3K2R w KQkq - 0 1",
	"8/2p5/3p4/KP5r/1R3p1k/8/4P1P1/8 w - - 0 1",
	"r3k2r/Pppp1ppp/1b3nbN/nP6/BBP1P3/q4N2/Pp1P2PP/R2Q1RK1 w kq - 0 1",
	"rnbq1k1r/pp1Pbppp/2p5/8/2B5/8/PPP1NnPP/RNBQK2R w KQ - 1 8",
	"r4rk1/1pp1qppp/p1np1n2/2b1p1B1/2B1P1b1/P1NP1N2/1PP1QPPP/R4RK1 w - - 0 10",
	"r3k2r/8/8/8/8/8/8/R3K2R w KQkq - 0 1",
	"r3k2r/8/8/8/8/8/8/R3K2R b KQkq - 0 1",
	"r3k2r/8/8/8/8/5b2/8/R3K2R w KQkq - 0 1",
	"r3k2r/8/8/2B5/8/8/8/R3K2R b KQkq - 0 1",
	"r3k3/8/8/8/8/8/8/R3K3 w Qq - 0 1",
	"4k2r/8/8/8/8/8/8/4K2R b Kk - 0 1",
	"1r2k2r/8/8/8/8/8/8/R3K1R1 w Qk - 0 1",
	"8/8/8/8/k2Pp2Q/8/8/3K4 b - d3 0 1",
	"8/8/8/2k5/3Pp3/8/8/4K2B b - d3 0 1",
	"8/8/3k4/2pP4/8/8/8/3K2B1 w - c6 0 2",
	"rnbqkbnr/ppp1p1pp/8/3pPp2/8/8/PPPP1PPP/RNBQKBNR w KQkq f6 0 3",
	"4k3/P6P/8/8/8/8/p6p/4K3 w - - 0 1",
	"1n2k1n1/P6P/8/8/8/8/p6p/1N2K1N1 b - - 0 1",
	"r1b1k3/1P6/8/8/8/8/6p1/3K1B1R b - - 0 1",
	"8/8/8/8/8/2k5/1p6/K7 w - - 0 1",
	"7k/5Q2/6K1/8/8/8/8/8 b - - 0 1",
	"7k/6Q1/6K1/8/8/8/8/8 b - - 0 1",
	"k7/8/8/8/1q1K4/8/5q2/8 w - - 0 1",
	"8/3r4/8/8/K1k5/8/8/8 w - - 0 1",
	"4k3/8/8/8/8/8/4b3/4KB2 w - - 0 1",
	"4k3/8/8/8/8/8/8/2B1KB2 w - - 0 1",
	"4k3/8/8/8/8/8/3n4/4K3 w - - 0 1",
	"4k3/8/8/8/8/8/3r4/4KB2 w - - 0 1",
	"QQQQQQQQ/Q7/8/8/8/8/8/K6k b - - 0 1",
	"3rk3/8/8/8/8/8/3R4/3K4 w - - 0 1",
	"4k3/4r3/8/8/8/8/4N3/4K3 w - - 0 1",
	"8/8/8/3k4/8/2nK4/8/8 w - - 0 1",
	"r3k2r/pppq1ppp/2npbn2/2b1p3/2B1P3/2NPBN2/PPPQ1PPP/R3K2R w KQkq - 4 8",
	"2kr3r/pppq1ppp/2npbn2/2b1p3/2B1P3/2NPBN2/PPPQ1PPP/R3K2R w KQ - 5 9",
	"6k1/8/2p5/3pP3/4K3/8/2n5/3r1r2 w - d6 0 2", // in check by the pawn that just jumped: e.p. is the only legal move
	"5bk1/8/p7/Pp6/K7/7r/8/8 w - b6 0 2",
	"7k/8/8/KpP4r/8/8/8/8 w - b6 0 2", // the e.p. capture would clear the rank between king and rook: illegal
	"8/8/8/8/kPp4R/8/8/7K b - b3 0 2",
	"7k/8/8/K1pP3q/8/8/8/8 w - c6 0 2",
	"4k2r/6K1/8/8/8/8/1r6/8 w k - 0 1", // a king may take a home rook that still has its right
	"8/8/8/8/8/8/6k1/4K2R b K - 0 1",
	"r3k3/1K6/8/8/8/8/8/8 w q - 0 1",
	"8/8/8/8/8/8/1k6/R3K3 b Q - 0 1",
	// corner rooks with castling rights under attack by pawns about to promote, knights, bishops, rooks
	"r3k2r/1P4P1/8/8/8/8/1p4p1/R3K2R w KQkq - 0 1",
	"r3k2r/1P4P1/8/8/8/8/1p4p1/R3K2R b KQkq - 0 1",
	"r3k3/1P6/8/8/r7/8/8/6K1 w q - 0 1",
	"6k1/8/8/R7/8/8/1p6/R3K3 b Q - 0 1",
	"r3k2r/2N2N2/8/8/8/8/2n2n2/R3K2R w KQkq - 0 1",
	"r3k2r/8/8/3BB3/3bb3/8/8/R3K2R w KQkq - 0 1",
	"r3k2r/8/8/8/8/8/8/R3K2R w KQkq - 0 1",
	"r3k2r/p6p/8/8/8/8/P6P/R3K2R w KQkq - 0 1",
}

func legalMoves(pos *board.Position, turn board.Color) []board.Move {
	var ret []board.Move
	for _, m := range pos.PseudoLegalMoves(turn) {
		if _, ok := pos.Move(m); ok {
			ret = append(ret, m)
		}
	}
	return ret
}

func isSpecial(m board.Move) bool {
	return m.Type != board.Normal && m.Type != board.Push
}

// pickMove chooses uniformly among the legal moves, with a 30% bias towards captures, castling,
// en passant, jumps and promotions when available.
func pickMove(c *caseCtx, moves []board.Move) board.Move {
	if c.r.Intn(2) == 0 {
		// rare kinds first: capture-promotions, then moves touching a corner (castling rights)
		var rare []board.Move
		for _, m := range moves {
			if m.Type == board.CapturePromotion || m.Type == board.EnPassant || m.IsCastle() {
				rare = append(rare, m)
			}
		}
		if len(rare) > 0 && c.r.Intn(2) == 0 {
			return rare[c.r.Intn(len(rare))]
		}
	}
	if c.r.Intn(10) < 3 {
		var sp []board.Move
		for _, m := range moves {
			if isSpecial(m) {
				sp = append(sp, m)
			}
		}
		if len(sp) > 0 {
			return sp[c.r.Intn(len(sp))]
		}
	}
	return moves[c.r.Intn(len(moves))]
}

// playout returns the states visited by a random game of at most plies half-moves.
func playout(c *caseCtx, start state, plies int) []state {
	ret := []state{start}
	cur := start
	for i := 0; i < plies; i++ {
		moves := legalMoves(cur.pos, cur.turn)
		if len(moves) == 0 {
			break
		}
		m := pickMove(c, moves)
		next, ok := cur.pos.Move(m)
		if !ok {
			break
		}
		cur = state{next, cur.turn.Opponent()}
		ret = append(ret, cur)
	}
	return ret
}

// synthetic builds a random position with both kings and up to 14 further men of odd material
// (several queens, no pawns on ranks 1/8); castling rights only with king and rook at home; no e.p.
// Returns ok=false if the side not to move is in check (not a legal position).
func synthetic(c *caseCtx) (state, bool) {
	var used [64]bool
	var pls []board.Placement
	place := func(col board.Color, pc board.Piece) {
		for tries := 0; tries < 50; tries++ {
			sq := board.Square(c.r.Intn(64))
			if used[sq] {
				continue
			}
			if pc == board.Pawn && (sq.Rank() == board.Rank1 || sq.Rank() == board.Rank8) {
				continue
			}
			used[sq] = true
			pls = append(pls, board.Placement{Square: sq, Color: col, Piece: pc})
			return
		}
	}
	var castling board.Castling
	// optionally put kings and rooks at home to get castling rights
	wk, bk := false, false
	if c.r.Intn(3) == 0 {
		used[board.E1] = true
		pls = append(pls, board.Placement{Square: board.E1, Color: board.White, Piece: board.King})
		wk = true
		if c.r.Intn(2) == 0 {
			used[board.H1] = true
			pls = append(pls, board.Placement{Square: board.H1, Color: board.White, Piece: board.Rook})
			castling |= board.WhiteKingSideCastle
		}
		if c.r.Intn(2) == 0 {
			used[board.A1] = true
			pls = append(pls, board.Placement{Square: board.A1, Color: board.White, Piece: board.Rook})
			castling |= board.WhiteQueenSideCastle
		}
	}
	if c.r.Intn(3) == 0 {
		used[board.E8] = true
		pls = append(pls, board.Placement{Square: board.E8, Color: board.Black, Piece: board.King})
		bk = true
		if c.r.Intn(2) == 0 {
			used[board.H8] = true
			pls = append(pls, board.Placement{Square: board.H8, Color: board.Black, Piece: board.Rook})
			castling |= board.BlackKingSideCastle
		}
		if c.r.Intn(2) == 0 {
			used[board.A8] = true
			pls = append(pls, board.Placement{Square: board.A8, Color: board.Black, Piece: board.Rook})
			castling |= board.BlackQueenSideCastle
		}
	}
	if !wk {
		place(board.White, board.King)
	}
	if !bk {
		place(board.Black, board.King)
	}
	n := c.r.Intn(15)
	kinds := []board.Piece{board.Pawn, board.Pawn, board.Pawn, board.Bishop, board.Knight, board.Rook, board.Queen, board.Queen}
	for i := 0; i < n; i++ {
		place(board.Color(c.r.Intn(2)), kinds[c.r.Intn(len(kinds))])
	}
	pos, err := board.NewPosition(pls, castling, 0)
	if err != nil || pos == nil {
		return state{}, false
	}
	turn := board.Color(c.r.Intn(2))
	if pos.IsChecked(turn.Opponent()) {
		return state{}, false
	}
	// kings must not be adjacent (then the side not to move would be "in check" by the king)
	return state{pos, turn}, true
}

// genStates yields a mixed stream of positions: curated, playouts from curated and synthetic.
func genStates(c *caseCtx, n int) []state {
	var ret []state
	for _, f := range curatedFENs {
		ret = append(ret, mustDecode(f))
	}
	if n >= 300 {
		// checks by a pawn that has just made its double step (en passant among the evasions, often the
		// only one) and positions in which every legal move is a concession
		sp := append(epEvasions(c, 30), cramped(c, 20)...)
		sp = append(sp, kingNextToHomeRook(c, 20)...)
		sp = append(sp, pinLines(c, 40)...)
		sp = append(sp, queenStars(c, 10)...)
		sp = append(sp, h1Corner(c, 30)...)
		sp = append(sp, sliderChecks(c, 60)...)
		for _, f := range sp {
			ret = append(ret, mustDecode(f))
		}
	}
	for len(ret) < n {
		switch c.r.Intn(3) {
		case 0, 1:
			start := mustDecode(curatedFENs[c.r.Intn(len(curatedFENs))])
			if c.r.Intn(2) == 0 {
				start = mustDecode(fen.Initial)
			}
			sts := playout(c, start, 20+c.r.Intn(100))
			// sample a few states of the game
			for k := 0; k < 6 && len(sts) > 0; k++ {
				ret = append(ret, sts[c.r.Intn(len(sts))])
			}
		default:
			if s, ok := synthetic(c); ok {
				ret = append(ret, s)
			}
		}
	}
	return ret[:n]
}

// cramped builds positions in which the side to move is not in check, its king cannot move, and it has
// one to four legal moves, none of them a capture: every choice is a concession (typically onto an
// attacked square). Found by rejection sampling; returns FENs (both colours through mirroring by the caller).
func cramped(c *caseCtx, n int) []string {
	var ret []string
	corners := []board.Square{board.A1, board.H1, board.A8, board.H8, board.B1, board.G1, board.A2, board.H2}
	for tries := 0; tries < 400*n && len(ret) < n; tries++ {
		var used [64]bool
		var pls []board.Placement
		put := func(col board.Color, pc board.Piece, sq board.Square) bool {
			if used[sq] || (pc == board.Pawn && (sq.Rank() == board.Rank1 || sq.Rank() == board.Rank8)) {
				return false
			}
			used[sq] = true
			pls = append(pls, board.Placement{Square: sq, Color: col, Piece: pc})
			return true
		}
		side := board.Color(c.r.Intn(2))
		put(side, board.King, corners[c.r.Intn(len(corners))])
		for !put(side.Opponent(), board.King, board.Square(c.r.Intn(64))) {
		}
		own := []board.Piece{board.Pawn, board.Pawn, board.Knight, board.Bishop}
		for k := 0; k < 1+c.r.Intn(2); k++ {
			put(side, own[c.r.Intn(len(own))], board.Square(c.r.Intn(64)))
		}
		theirs := []board.Piece{board.Queen, board.Rook, board.Rook, board.Bishop, board.Knight, board.Pawn, board.Pawn, board.Pawn}
		for k := 0; k < 3+c.r.Intn(5); k++ {
			put(side.Opponent(), theirs[c.r.Intn(len(theirs))], board.Square(c.r.Intn(64)))
		}
		pos, err := board.NewPosition(pls, 0, 0)
		if err != nil || pos == nil || pos.IsChecked(side) || pos.IsChecked(side.Opponent()) {
			continue
		}
		ms := legalMoves(pos, side)
		if len(ms) == 0 || len(ms) > 4 {
			continue
		}
		ok := true
		for _, m := range ms {
			if m.Piece == board.King || m.IsCapture() {
				ok = false
			}
		}
		if !ok {
			continue
		}
		ret = append(ret, fen.Encode(pos, side, 0, 1))
	}
	return ret
}

// epEvasions builds positions in which the side to move is in check from a pawn that has just made
// its double step and may capture it en passant; the other evasions are restricted by random enemy
// pieces, so that en passant is often the only legal move (or there is none: mate).
func epEvasions(c *caseCtx, n int) []string {
	var ret []string
	for tries := 0; tries < 200*n && len(ret) < n; tries++ {
		var used [64]bool
		var pls []board.Placement
		put := func(col board.Color, pc board.Piece, sq board.Square) bool {
			if sq >= 64 || used[sq] || (pc == board.Pawn && (sq.Rank() == board.Rank1 || sq.Rank() == board.Rank8)) {
				return false
			}
			used[sq] = true
			pls = append(pls, board.Placement{Square: sq, Color: col, Piece: pc})
			return true
		}
		side := board.Color(c.r.Intn(2)) // the side in check
		// the checking pawn stands on its fourth rank (seen from its own side) on file pf
		pf := board.File(c.r.Intn(8))
		pawnRank, kingRank, epRank := board.Rank5, board.Rank4, board.Rank6 // black pawn checks the white king
		if side == board.Black {
			pawnRank, kingRank, epRank = board.Rank4, board.Rank5, board.Rank3
		}
		var kf []board.File
		if pf > 0 {
			kf = append(kf, pf-1)
		}
		if pf < 7 {
			kf = append(kf, pf+1)
		}
		// square numbering: H1 = 0, so file index runs against the letter; use the constructors
		psq := board.NewSquare(pf, pawnRank)
		ksq := board.NewSquare(kf[c.r.Intn(len(kf))], kingRank)
		put(side.Opponent(), board.Pawn, psq)
		put(side, board.King, ksq)
		// the capturing pawn beside the checking pawn
		var cf []board.File
		if pf > 0 {
			cf = append(cf, pf-1)
		}
		if pf < 7 {
			cf = append(cf, pf+1)
		}
		if !put(side, board.Pawn, board.NewSquare(cf[c.r.Intn(len(cf))], pawnRank)) {
			continue
		}
		for !put(side.Opponent(), board.King, board.Square(c.r.Intn(64))) {
		}
		theirs := []board.Piece{board.Queen, board.Rook, board.Rook, board.Bishop, board.Knight, board.Pawn}
		for k := 0; k < 2+c.r.Intn(5); k++ {
			put(side.Opponent(), theirs[c.r.Intn(len(theirs))], board.Square(c.r.Intn(64)))
		}
		ep := board.NewSquare(pf, epRank)
		origin := board.NewSquare(pf, epRank+(epRank-pawnRank)) // where the pawn came from: must be empty, as the e.p. square
		if used[ep] || used[origin] {
			continue
		}
		pos, err := board.NewPosition(pls, 0, ep)
		if err != nil || pos == nil || !pos.IsChecked(side) || pos.IsChecked(side.Opponent()) {
			continue
		}
		// the pawn must be the only checker, or at least the position must be reachable-looking: keep all
		ret = append(ret, fen.Encode(pos, side, 0, 2))
	}
	return ret
}

// kingNextToHomeRook: the enemy king stands next to a rook on its home corner whose side still has the
// castling right with it, and may capture it (side to move: the capturing king's).
func kingNextToHomeRook(c *caseCtx, n int) []string {
	var ret []string
	type corner struct {
		rook, king board.Square
		col        board.Color
		right      board.Castling
	}
	corners := []corner{
		{board.H1, board.E1, board.White, board.WhiteKingSideCastle},
		{board.A1, board.E1, board.White, board.WhiteQueenSideCastle},
		{board.H8, board.E8, board.Black, board.BlackKingSideCastle},
		{board.A8, board.E8, board.Black, board.BlackQueenSideCastle},
	}
	for tries := 0; tries < 100*n && len(ret) < n; tries++ {
		k := corners[c.r.Intn(len(corners))]
		var used [64]bool
		var pls []board.Placement
		put := func(col board.Color, pc board.Piece, sq board.Square) bool {
			if sq >= 64 || used[sq] || (pc == board.Pawn && (sq.Rank() == board.Rank1 || sq.Rank() == board.Rank8)) {
				return false
			}
			used[sq] = true
			pls = append(pls, board.Placement{Square: sq, Color: col, Piece: pc})
			return true
		}
		put(k.col, board.Rook, k.rook)
		put(k.col, board.King, k.king)
		// the capturing king diagonally or straight next to the rook, not adjacent to the other king
		var adj []board.Square
		for _, df := range []int{-1, 0, 1} {
			for _, dr := range []int{-1, 0, 1} {
				f, r := int(k.rook.File())+df, int(k.rook.Rank())+dr
				if (df != 0 || dr != 0) && f >= 0 && f < 8 && r >= 0 && r < 8 {
					adj = append(adj, board.NewSquare(board.File(f), board.Rank(r)))
				}
			}
		}
		if !put(k.col.Opponent(), board.King, adj[c.r.Intn(len(adj))]) {
			continue
		}
		extras := []board.Piece{board.Pawn, board.Pawn, board.Rook, board.Knight, board.Bishop}
		for j := 0; j < c.r.Intn(4); j++ {
			put(board.Color(c.r.Intn(2)), extras[c.r.Intn(len(extras))], board.Square(c.r.Intn(64)))
		}
		pos, err := board.NewPosition(pls, k.right, 0)
		side := k.col.Opponent()
		if err != nil || pos == nil || pos.IsChecked(k.col) {
			continue
		}
		ret = append(ret, fen.Encode(pos, side, 0, 1))
	}
	return ret
}

// queenStars: a queen on a central square with long open rays ending on enemy men (weighted mobility
// counts far above what ordinary play reaches), for either colour.
func queenStars(c *caseCtx, n int) []string {
	var ret []string
	dirs := [][2]int{{1, 0}, {-1, 0}, {0, 1}, {0, -1}, {1, 1}, {1, -1}, {-1, 1}, {-1, -1}}
	for tries := 0; tries < 100*n && len(ret) < n; tries++ {
		var used [64]bool
		var pls []board.Placement
		put := func(col board.Color, pc board.Piece, sq board.Square) bool {
			if sq >= 64 || used[sq] || (pc == board.Pawn && (sq.Rank() == board.Rank1 || sq.Rank() == board.Rank8)) {
				return false
			}
			used[sq] = true
			pls = append(pls, board.Placement{Square: sq, Color: col, Piece: pc})
			return true
		}
		col := board.Color(c.r.Intn(2))
		qf, qr := 2+c.r.Intn(4), 2+c.r.Intn(4)
		put(col, board.Queen, board.NewSquare(board.File(qf), board.Rank(qr)))
		men := []board.Piece{board.Pawn, board.Rook, board.Knight, board.Bishop, board.Rook, board.Pawn}
		var ends []board.Square
		for _, d := range dirs {
			f, r := qf, qr
			for f+d[0] >= 0 && f+d[0] < 8 && r+d[1] >= 0 && r+d[1] < 8 {
				f, r = f+d[0], r+d[1]
			}
			ends = append(ends, board.NewSquare(board.File(f), board.Rank(r)))
		}
		c.r.Shuffle(len(ends), func(i, j int) { ends[i], ends[j] = ends[j], ends[i] })
		k := 4 + c.r.Intn(5)
		for _, sq := range ends[:k] {
			put(col.Opponent(), men[c.r.Intn(len(men))], sq)
		}
		// kings off the rays where possible
		placed := 0
		for t := 0; t < 200 && placed < 2; t++ {
			sq := board.Square(c.r.Intn(64))
			onRay := int(sq.File()) == qf || int(sq.Rank()) == qr || int(sq.File())-qf == int(sq.Rank())-qr || int(sq.File())-qf == qr-int(sq.Rank())
			if onRay {
				continue
			}
			who := col
			if placed == 1 {
				who = col.Opponent()
			}
			if put(who, board.King, sq) {
				placed++
			}
		}
		if placed < 2 {
			continue
		}
		pos, err := board.NewPosition(pls, 0, 0)
		if err != nil || pos == nil {
			continue
		}
		side := board.Color(c.r.Intn(2))
		if pos.IsChecked(side.Opponent()) {
			side = side.Opponent()
			if pos.IsChecked(side.Opponent()) {
				continue
			}
		}
		ret = append(ret, fen.Encode(pos, side, 0, 1))
	}
	return ret
}

// pinLines: a target (king or queen), an own piece in front of it (any kind, a second queen included)
// and an enemy slider of the matching kind behind that, all on one line with nothing between; plus
// random extras elsewhere.
func pinLines(c *caseCtx, n int) []string {
	var ret []string
	dirs := [][2]int{{1, 0}, {-1, 0}, {0, 1}, {0, -1}, {1, 1}, {1, -1}, {-1, 1}, {-1, -1}}
	for tries := 0; tries < 100*n && len(ret) < n; tries++ {
		var used [64]bool
		var pls []board.Placement
		put := func(col board.Color, pc board.Piece, sq board.Square) bool {
			if sq >= 64 || used[sq] || (pc == board.Pawn && (sq.Rank() == board.Rank1 || sq.Rank() == board.Rank8)) {
				return false
			}
			used[sq] = true
			pls = append(pls, board.Placement{Square: sq, Color: col, Piece: pc})
			return true
		}
		col := board.Color(c.r.Intn(2))
		d := dirs[c.r.Intn(len(dirs))]
		f0, r0 := c.r.Intn(8), c.r.Intn(8)
		var line []board.Square
		for f, r := f0, r0; f >= 0 && f < 8 && r >= 0 && r < 8; f, r = f+d[0], r+d[1] {
			line = append(line, board.NewSquare(board.File(f), board.Rank(r)))
		}
		if len(line) < 3 {
			continue
		}
		i1 := 1 + c.r.Intn(len(line)-2)
		i2 := i1 + 1 + c.r.Intn(len(line)-i1-1)
		target := board.Queen
		if c.r.Intn(2) == 0 {
			target = board.King
		}
		shields := []board.Piece{board.Queen, board.Queen, board.Rook, board.Bishop, board.Knight, board.Pawn}
		slider := board.Rook
		if d[0] != 0 && d[1] != 0 {
			slider = board.Bishop
		}
		if c.r.Intn(3) == 0 {
			slider = board.Queen
		}
		put(col, target, line[0])
		if !put(col, shields[c.r.Intn(len(shields))], line[i1]) || !put(col.Opponent(), slider, line[i2]) {
			continue
		}
		if target != board.King {
			for !put(col, board.King, board.Square(c.r.Intn(64))) {
			}
		}
		for !put(col.Opponent(), board.King, board.Square(c.r.Intn(64))) {
		}
		extras := []board.Piece{board.Pawn, board.Queen, board.Rook, board.Knight, board.Bishop}
		for j := 0; j < c.r.Intn(5); j++ {
			put(board.Color(c.r.Intn(2)), extras[c.r.Intn(len(extras))], board.Square(c.r.Intn(64)))
		}
		pos, err := board.NewPosition(pls, 0, 0)
		if err != nil || pos == nil {
			continue
		}
		side := col
		if pos.IsChecked(side.Opponent()) {
			side = side.Opponent()
			if pos.IsChecked(side.Opponent()) {
				continue
			}
		}
		ret = append(ret, fen.Encode(pos, side, 0, 1))
	}
	return ret
}

// h1Corner: square 0 is h1 and also means "no en passant square": positions that put pawns and pieces
// around that corner (a black pawn on g2 about to promote, white pawns on the h-file, h1 empty or
// occupied), with and without a real en passant square elsewhere; and the mirror-image corner a8 for
// White. Black / White to move respectively.
func h1Corner(c *caseCtx, n int) []string {
	var ret []string
	for tries := 0; tries < 100*n && len(ret) < n; tries++ {
		var used [64]bool
		var pls []board.Placement
		put := func(col board.Color, pc board.Piece, sq board.Square) bool {
			if sq >= 64 || used[sq] || (pc == board.Pawn && (sq.Rank() == board.Rank1 || sq.Rank() == board.Rank8)) {
				return false
			}
			used[sq] = true
			pls = append(pls, board.Placement{Square: sq, Color: col, Piece: pc})
			return true
		}
		side := board.Black
		pawnSq, cornerSq := board.G2, board.H1
		hFile := []board.Square{board.H3, board.H4, board.H5, board.H6}
		if c.r.Intn(4) == 0 {
			side = board.White
			pawnSq, cornerSq = board.B7, board.A8
			hFile = []board.Square{board.A6, board.A5, board.A4, board.A3}
		}
		put(side, board.Pawn, pawnSq)
		if c.r.Intn(2) == 0 {
			put(side.Opponent(), []board.Piece{board.Rook, board.Knight, board.Bishop, board.Queen}[c.r.Intn(4)], cornerSq)
		}
		for _, sq := range hFile {
			if c.r.Intn(2) == 0 {
				put(side.Opponent(), board.Pawn, sq)
			}
		}
		for !put(side, board.King, board.Square(c.r.Intn(64))) {
		}
		for !put(side.Opponent(), board.King, board.Square(c.r.Intn(64))) {
		}
		extras := []board.Piece{board.Pawn, board.Pawn, board.Rook, board.Knight, board.Bishop}
		for j := 0; j < c.r.Intn(5); j++ {
			put(board.Color(c.r.Intn(2)), extras[c.r.Intn(len(extras))], board.Square(c.r.Intn(64)))
		}
		pos, err := board.NewPosition(pls, 0, 0)
		if err != nil || pos == nil || pos.IsChecked(side.Opponent()) {
			continue
		}
		ret = append(ret, fen.Encode(pos, side, 0, 1))
	}
	return ret
}

// sliderChecks builds positions in which the side to move is in check from a rook, bishop or queen and
// the king is NOT in a corner of the checking line: the square behind the king on that line is on the board,
// so whether the king may step there depends on seeing through the king itself. Most are mates: back-rank
// mates behind a pawn shield, two-rook / rook-and-queen ladder mates on every edge (the eight symmetries of
// the board), and mates and one-escape near-mates found by rejection sampling (lone king plus at most two men
// against king and two to four heavy or light pieces). Both colours; returns FENs.
func sliderChecks(c *caseCtx, n int) []string {
	var ret []string
	add := func(pls []board.Placement, side board.Color) {
		pos, err := board.NewPosition(pls, 0, 0)
		if err != nil || pos == nil || pos.IsChecked(side.Opponent()) || !pos.IsChecked(side) {
			return
		}
		ret = append(ret, fen.Encode(pos, side, 0, 1))
	}
	sq := func(f, r int) board.Square { return board.NewSquare(board.File(f), board.Rank(r)) }
	// back-rank mates: black king on b8..g8 behind three pawns, white rook or queen on the rank two or more
	// files away on either side; and the same with colours swapped
	for kf := 1; kf <= 6; kf++ {
		for af := 0; af < 8; af++ {
			if af >= kf-1 && af <= kf+1 {
				continue
			}
			if c.r.Intn(3) != 0 {
				continue
			}
			heavy := board.Rook
			if c.r.Intn(3) == 0 {
				heavy = board.Queen
			}
			for _, side := range []board.Color{board.Black, board.White} {
				kr, pr, okr := 7, 6, 0
				if side == board.White {
					kr, pr, okr = 0, 1, 7
				}
				pls := []board.Placement{{Square: sq(kf, kr), Color: side, Piece: board.King}, {Square: sq(af, kr), Color: side.Opponent(), Piece: heavy},
					{Square: sq((kf+4)%8, okr), Color: side.Opponent(), Piece: board.King}}
				for d := -1; d <= 1; d++ {
					pls = append(pls, board.Placement{Square: sq(kf+d, pr), Color: side, Piece: board.Pawn})
				}
				add(pls, side)
			}
		}
	}
	// ladder mates under the eight symmetries of the board: king on the edge (not in the corner), one heavy
	// piece checking along the edge, another sealing the next line, the attacker's king far away
	for sym := 0; sym < 8; sym++ {
		tr := func(f, r int) board.Square {
			if sym&1 != 0 {
				f = 7 - f
			}
			if sym&2 != 0 {
				r = 7 - r
			}
			if sym&4 != 0 {
				f, r = r, f
			}
			return sq(f, r)
		}
		for k := 0; k < 3; k++ {
			kf := 1 + c.r.Intn(6)
			af := (kf + 3 + c.r.Intn(3)) % 8 // checking piece, at least two files from the king
			bf := (kf + 3 + c.r.Intn(3)) % 8 // sealing piece
			if af == bf || af >= kf-1 && af <= kf+1 || bf >= kf-1 && bf <= kf+1 {
				continue
			}
			kinds := []board.Piece{board.Rook, board.Rook, board.Queen}
			side := board.Color(c.r.Intn(2))
			pls := []board.Placement{{Square: tr(kf, 7), Color: side, Piece: board.King},
				{Square: tr(af, 7), Color: side.Opponent(), Piece: kinds[c.r.Intn(3)]},
				{Square: tr(bf, 6), Color: side.Opponent(), Piece: board.Rook},
				{Square: tr((kf+4)%8, 0), Color: side.Opponent(), Piece: board.King}}
			add(pls, side)
		}
	}
	// rejection sampling: in check from a slider, no legal move (or exactly one, a king move)
	for tries := 0; tries < 3000*n && len(ret) < n; tries++ {
		var used [64]bool
		var pls []board.Placement
		put := func(col board.Color, pc board.Piece, s board.Square) {
			if used[s] || (pc == board.Pawn && (s.Rank() == board.Rank1 || s.Rank() == board.Rank8)) {
				return
			}
			used[s] = true
			pls = append(pls, board.Placement{Square: s, Color: col, Piece: pc})
		}
		side := board.Color(c.r.Intn(2))
		ksq := board.Square(c.r.Intn(64))
		put(side, board.King, ksq)
		for len(pls) < 2 {
			put(side.Opponent(), board.King, board.Square(c.r.Intn(64)))
		}
		theirs := []board.Piece{board.Queen, board.Rook, board.Rook, board.Bishop, board.Bishop, board.Knight}
		for k := 0; k < 2+c.r.Intn(3); k++ {
			put(side.Opponent(), theirs[c.r.Intn(len(theirs))], board.Square(c.r.Intn(64)))
		}
		own := []board.Piece{board.Pawn, board.Pawn, board.Knight, board.Bishop, board.Rook}
		for k := 0; k < c.r.Intn(3); k++ {
			put(side, own[c.r.Intn(len(own))], board.Square(c.r.Intn(64)))
		}
		pos, err := board.NewPosition(pls, 0, 0)
		if err != nil || pos == nil || pos.IsChecked(side.Opponent()) || !pos.IsChecked(side) {
			continue
		}
		// a slider gives check along a line that continues behind the king
		behind := false
		for _, pl := range pls {
			if pl.Color == side || (pl.Piece != board.Queen && pl.Piece != board.Rook && pl.Piece != board.Bishop) {
				continue
			}
			df, dr := int(ksq.File())-int(pl.Square.File()), int(ksq.Rank())-int(pl.Square.Rank())
			straight, diag := (df == 0) != (dr == 0), df != 0 && (df == dr || df == -dr)
			if !(straight && pl.Piece != board.Bishop) && !(diag && pl.Piece != board.Rook) {
				continue
			}
			sf, sr := sign(df), sign(dr)
			clear := true
			for f, r := int(pl.Square.File())+sf, int(pl.Square.Rank())+sr; f != int(ksq.File()) || r != int(ksq.Rank()); f, r = f+sf, r+sr {
				if used[sq(f, r)] {
					clear = false
				}
			}
			bf, br := int(ksq.File())+sf, int(ksq.Rank())+sr
			if clear && bf >= 0 && bf < 8 && br >= 0 && br < 8 && !used[sq(bf, br)] {
				behind = true
			}
		}
		if !behind {
			continue
		}
		ms := legalMoves(pos, side)
		if len(ms) > 1 || (len(ms) == 1 && ms[0].Piece != board.King) {
			continue
		}
		if len(ms) == 1 && c.r.Intn(3) != 0 {
			continue // mostly mates
		}
		ret = append(ret, fen.Encode(pos, side, 0, 1))
	}
	if len(ret) > n {
		c.r.Shuffle(len(ret), func(i, j int) { ret[i], ret[j] = ret[j], ret[i] })
		ret = ret[:n]
	}
	return ret
}

func sign(x int) int {
	switch {
	case x < 0:
		return -1
	case x > 0:
		return 1
	}
	return 0
}
