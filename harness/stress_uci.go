//go:build verif

package main

import (
	"context"
	"fmt"
	"math/rand"
	"os"
	"strings"
	"sync"
	"time"

	"github.com/herohde/morlock/cmd/bernstein/bernstein"
	"github.com/herohde/morlock/cmd/sargon/sargon"
	"github.com/herohde/morlock/cmd/turochamp/turochamp"
	"github.com/herohde/morlock/pkg/board"
	"github.com/herohde/morlock/pkg/board/fen"
	"github.com/herohde/morlock/pkg/engine"
	"github.com/herohde/morlock/pkg/engine/uci"
	"github.com/herohde/morlock/pkg/eval"
	"github.com/herohde/morlock/pkg/search"
)

func init() {
	stressFns["C16"] = stressUCI
	stressFns["C04"] = stressUCI
}

// bundledEngine builds one of the four bundled engine configurations the way cmd/*/main.go does.
func bundledEngine(ctx context.Context, name string, hash, noise, depth uint, book bool, seed int64) (*engine.Engine, []uci.Option) {
	var opts []uci.Option
	switch name {
	case "turochamp":
		s := search.AlphaBeta{Eval: search.Quiescence{Explore: turochamp.ConsiderableMovesOnly, Eval: search.Leaf{Eval: turochamp.Eval{}}}}
		return engine.New(ctx, "TUROCHAMP", "t", s, engine.WithOptions(engine.Options{Depth: depth, Noise: noise, Hash: hash}), engine.WithTable(smallTable)), opts
	case "bernstein":
		s := search.AlphaBeta{Explore: bernstein.PlausibleMoveTable{Limit: 7}.Explore, Eval: search.Leaf{Eval: bernstein.Eval{Factor: 20}}}
		if book {
			opts = append(opts, uci.UseBook(bernstein.NewBook(), seed))
		}
		return engine.New(ctx, "BERNSTEIN", "t", s, engine.WithOptions(engine.Options{Depth: depth, Noise: noise, Hash: hash}), engine.WithTable(smallTable)), opts
	case "bernstein-nolimit":
		// cmd/bernstein -branch 0: "zero if no limit"
		s := search.AlphaBeta{Explore: bernstein.PlausibleMoveTable{Limit: 0}.Explore, Eval: search.Leaf{Eval: bernstein.Eval{Factor: 20}}}
		return engine.New(ctx, "BERNSTEIN", "t", s, engine.WithOptions(engine.Options{Depth: depth, Noise: noise, Hash: hash}), engine.WithTable(smallTable)), opts
	case "sargon":
		points := &sargon.Points{}
		s := sargon.Hook{Eval: search.AlphaBeta{Explore: sargon.SkipUnderPromotions, Eval: sargon.OnePlyIfChecked{Leaf: search.Leaf{Eval: points}}}, Hook: points}
		if book {
			opts = append(opts, uci.UseBook(sargon.NewBook(), seed))
		}
		return engine.New(ctx, "SARGON", "t", s, engine.WithOptions(engine.Options{Depth: depth, Noise: noise, Hash: hash}), engine.WithTable(smallTable)), opts
	default:
		s := search.AlphaBeta{Eval: search.Leaf{Eval: eval.Material{}}}
		return engine.New(ctx, "morlock", "t", s, engine.WithOptions(engine.Options{Depth: depth, Noise: noise, Hash: hash}), engine.WithTable(search.NewMinDepthTranspositionTable(1))), opts
	}
}

// bundledSearch is the root search of a bundled engine.
func bundledSearch(name string) search.Search {
	switch name {
	case "turochamp":
		return search.AlphaBeta{Eval: search.Quiescence{Explore: turochamp.ConsiderableMovesOnly, Eval: search.Leaf{Eval: turochamp.Eval{}}}}
	case "bernstein":
		return search.AlphaBeta{Explore: bernstein.PlausibleMoveTable{Limit: 7}.Explore, Eval: search.Leaf{Eval: bernstein.Eval{Factor: 20}}}
	case "sargon":
		points := &sargon.Points{}
		return sargon.Hook{Eval: search.AlphaBeta{Explore: sargon.SkipUnderPromotions, Eval: sargon.OnePlyIfChecked{Leaf: search.Leaf{Eval: points}}}, Hook: points}
	default:
		return search.AlphaBeta{Eval: search.Leaf{Eval: eval.Material{}}}
	}
}

// bundledEngineSeed is bundledEngine without book and with a Zobrist / noise seed.
func bundledEngineSeed(ctx context.Context, name string, hash, noise, depth uint, seed int64) (*engine.Engine, []uci.Option) {
	switch name {
	case "turochamp":
		s := search.AlphaBeta{Eval: search.Quiescence{Explore: turochamp.ConsiderableMovesOnly, Eval: search.Leaf{Eval: turochamp.Eval{}}}}
		return engine.New(ctx, "TUROCHAMP", "t", s, engine.WithOptions(engine.Options{Depth: depth, Noise: noise, Hash: hash}), engine.WithTable(smallTable), engine.WithZobrist(seed)), nil
	case "bernstein":
		s := search.AlphaBeta{Explore: bernstein.PlausibleMoveTable{Limit: 7}.Explore, Eval: search.Leaf{Eval: bernstein.Eval{Factor: 20}}}
		return engine.New(ctx, "BERNSTEIN", "t", s, engine.WithOptions(engine.Options{Depth: depth, Noise: noise, Hash: hash}), engine.WithTable(smallTable), engine.WithZobrist(seed)), nil
	case "sargon":
		points := &sargon.Points{}
		s := sargon.Hook{Eval: search.AlphaBeta{Explore: sargon.SkipUnderPromotions, Eval: sargon.OnePlyIfChecked{Leaf: search.Leaf{Eval: points}}}, Hook: points}
		return engine.New(ctx, "SARGON", "t", s, engine.WithOptions(engine.Options{Depth: depth, Noise: noise, Hash: hash}), engine.WithTable(smallTable), engine.WithZobrist(seed)), nil
	default:
		s := search.AlphaBeta{Eval: search.Leaf{Eval: eval.Material{}}}
		return engine.New(ctx, "morlock", "t", s, engine.WithOptions(engine.Options{Depth: depth, Noise: noise, Hash: hash}), engine.WithTable(smallTable), engine.WithZobrist(seed)), nil
	}
}

type uciEvent struct {
	at   time.Time
	line string
}

// stressUCI: randomly timed command scripts against the real driver and the four bundled engine
// configurations; monitors for C04 (exactly one legal bestmove per owed go) and C16 (no crash, no
// deadlock, readyok for every isready, no stale bestmove, clean shutdown).
var traceFile *os.File

func stressUCI(seed int64, tier string) {
	if p := os.Getenv("VERIF_TRACE_FILE"); p != "" {
		if f, err := os.Create(p); err == nil {
			traceFile = f
			defer f.Close()
		}
	}
	r := rand.New(rand.NewSource(seed))
	rounds := 24
	if tier == "thorough" {
		rounds = 400
	}
	viol := 0
	answered, gos, stale, deaths := 0, 0, 0, 0
	report := func(prop, key, script, msg string) {
		viol++
		fmt.Printf("IMPLVIOL uci %s :: %s prop=%s key=%s\n", script, msg, prop, key)
	}
	// two positions with different sides to move and disjoint move sets, so that an answer computed for
	// the other position is recognisably stale
	type setup struct {
		line string
		f    string
	}
	setups := []setup{
		{"position startpos", fen.Initial},
		{"position startpos moves e2e4", "rnbqkbnr/pppppppp/8/8/4P3/8/PPPP1PPP/RNBQKBNR b KQkq e3 0 1"},
		{"position fen 6k1/5ppp/8/8/8/8/5PPP/R5K1 w - - 0 1", "6k1/5ppp/8/8/8/8/5PPP/R5K1 w - - 0 1"},
		{"position fen 6k1/5ppp/8/8/8/8/r4PPP/6K1 b - - 0 1", "6k1/5ppp/8/8/8/8/r4PPP/6K1 b - - 0 1"},
		{"position fen 7k/5Q2/6K1/8/8/8/8/8 b - - 0 1", "7k/5Q2/6K1/8/8/8/8/8 b - - 0 1"}, // stalemate: bestmove 0000
	}
	legalSet := func(f string) map[string]bool {
		pos, turn, _, _, _ := fen.Decode(f)
		m := map[string]bool{}
		for _, mv := range legalMoves(pos, turn) {
			m[uciMove(mv)] = true
		}
		return m
	}
	engines := []string{"morlock", "turochamp", "bernstein", "sargon"}
	for round := 0; round < rounds; round++ {
		name := engines[round%len(engines)]
		hash := uint(r.Intn(2))
		noise := uint(0)
		if r.Intn(2) == 0 {
			noise = 10
		}
		book := r.Intn(2) == 0
		depth := uint(1 + r.Intn(3))
		if name == "morlock" {
			depth = uint(3 + r.Intn(3))
		}
		ctx := context.Background()
		e, opts := bundledEngine(ctx, name, hash, noise, depth, book, r.Int63())
		in := make(chan string, 100)
		_, out := uci.NewDriver(ctx, e, in, opts...)

		var mu sync.Mutex
		var events []uciEvent
		closed := make(chan struct{})
		go func() {
			for l := range out {
				mu.Lock()
				events = append(events, uciEvent{time.Now(), l})
				mu.Unlock()
			}
			close(closed)
		}()
		count := func(pred func(string) bool) int {
			mu.Lock()
			defer mu.Unlock()
			n := 0
			for _, ev := range events {
				if pred(ev.line) {
					n++
				}
			}
			return n
		}
		bests := func() []string {
			mu.Lock()
			defer mu.Unlock()
			var ret []string
			for _, ev := range events {
				if strings.HasPrefix(ev.line, "bestmove ") {
					ret = append(ret, strings.Fields(ev.line)[1])
				}
			}
			return ret
		}
		// dead: the driver has closed its output; nothing more will ever be answered
		dead := func() bool {
			select {
			case <-closed:
				return true
			default:
				return false
			}
		}
		waitBest := func(n int, d time.Duration) bool {
			deadline := time.Now().Add(d)
			for time.Now().Before(deadline) {
				if len(bests()) >= n {
					return true
				}
				if dead() {
					break // no point in waiting out the deadline
				}
				time.Sleep(2 * time.Millisecond)
			}
			return len(bests()) >= n
		}
		var script []string
		var mcmds []string // the script in the command alphabet of Model/Driver.v
		bookAnswers := func() bool {
			if !book || (name != "bernstein" && name != "sargon") {
				return false
			}
			var bk engine.Book = bernstein.NewBook()
			if name == "sargon" {
				bk = sargon.NewBook()
			}
			ms, _ := bk.Find(ctx, e.Position())
			return len(ms) > 0
		}
		send := func(l string) {
			script = append(script, l)
			f := strings.Fields(l)
			switch {
			case len(f) == 0:
				mcmds = append(mcmds, "j")
			case f[0] == "isready":
				mcmds = append(mcmds, "r")
			case f[0] == "ucinewgame":
				mcmds = append(mcmds, "n")
			case f[0] == "position":
				mcmds = append(mcmds, "p")
			case f[0] == "stop":
				mcmds = append(mcmds, "s")
			case f[0] == "quit":
				mcmds = append(mcmds, "q")
			case f[0] == "go":
				// the loop has consumed everything sent before (every step settles), so the engine position is current
				time.Sleep(2 * time.Millisecond)
				if bookAnswers() {
					mcmds = append(mcmds, "G")
				} else {
					inf, mt, clk := strings.Contains(l, "infinite"), strings.Contains(l, "movetime"), strings.Contains(l, "wtime")
					mcmds = append(mcmds, fmt.Sprintf("g:%s%s%s%s", b01(inf), b01(mt), "1", b01(clk)))
				}
			default:
				mcmds = append(mcmds, "j")
			}
			select {
			case in <- l:
			case <-closed: // a driver that has shut down reads nothing
			}
		}
		nap := func(max int) {
			if max > 0 {
				d := r.Intn(max)
				script = append(script, fmt.Sprintf("[%dms]", d))
				time.Sleep(time.Duration(d) * time.Millisecond)
			}
		}
		isready := 0
		cur := setups[r.Intn(len(setups))]
		send(cur.line)
		owed := 0 // bestmoves that must have been emitted so far
		nGo := 0
		steps := 4 + r.Intn(6)
		quit, died := false, false
		for k := 0; k < steps && !quit; k++ {
			// every step starts from a settled state: the number of bestmoves equals the number owed
			base := len(bests())
			kind := r.Intn(8)
			label := fmt.Sprintf("%s hash=%d noise=%d book=%v step=%d", name, hash, noise, book, k)
			switch kind {
			case 0, 1: // go depth d, let it end by itself
				send(fmt.Sprintf("go depth %d", 1+r.Intn(int(depth))))
				nGo++
				if r.Intn(3) == 0 {
					send("isready")
					isready++
				}
				if !waitBest(base+1, 60*time.Second) {
					report("C04", "no-answer", strings.Join(script, "; "), label+": go that ended by itself was not answered")
				}
				owed = base + 1
			case 2: // go infinite ... stop
				send("go infinite")
				nGo++
				nap(40)
				if r.Intn(2) == 0 {
					send("isready")
					isready++
					nap(10)
				}
				send("stop")
				if !waitBest(base+1, 60*time.Second) {
					report("C04", "no-answer", strings.Join(script, "; "), label+": go infinite + stop was not answered")
				}
				owed = base + 1
			case 3: // go movetime
				send(fmt.Sprintf("go movetime %d", 20+r.Intn(60)))
				nGo++
				if !waitBest(base+1, 60*time.Second) {
					report("C04", "no-answer", strings.Join(script, "; "), label+": go movetime was not answered")
				}
				owed = base + 1
			case 4: // go with a clock
				send(fmt.Sprintf("go wtime %d btime %d movestogo %d", 200+r.Intn(2000), 200+r.Intn(2000), 1+r.Intn(30)))
				nGo++
				if !waitBest(base+1, 60*time.Second) {
					report("C04", "no-answer", strings.Join(script, "; "), label+": go with a clock was not answered")
				}
				owed = base + 1
			case 5: // supersede a running search by a new position and go: the old one must not answer
				if r.Intn(2) == 0 {
					send("go infinite")
				} else {
					send("go depth 30") // ends only by being halted; its forwarder then posts a completion
				}
				nGo++
				nap(15)
				time.Sleep(5 * time.Millisecond)
				if mid := bests(); len(mid) > base {
					// an opening book answers even an infinite go at once: that answer belongs to the old position
					legal := legalSet(cur.f)
					for _, b := range mid[base:] {
						answered++
						if b == "0000" && len(legal) == 0 {
							continue // a search of a mated or stalemated position ends by itself with the null move
						}
						if !legal[b] {
							report("C04", "book-illegal", strings.Join(script, "; "), fmt.Sprintf("%s: immediate answer %s is not legal in %s", label, b, cur.f))
						}
					}
					if len(mid) > base+1 {
						report("C04", "duplicate", strings.Join(script, "; "), label+": more than one immediate answer")
					}
					base = len(mid)
				}
				next := setups[r.Intn(len(setups))]
				for next.f == cur.f {
					next = setups[r.Intn(len(setups))]
				}
				if r.Intn(3) == 0 {
					send("ucinewgame")
				}
				send(next.line)
				cur = next
				send(fmt.Sprintf("go depth %d", 1+r.Intn(int(depth))))
				nGo++
				if !waitBest(base+1, 60*time.Second) {
					report("C04", "no-answer", strings.Join(script, "; "), label+": go after a superseded search was not answered")
				}
				owed = base + 1
			case 6: // a movetime search answered early by stop, then an infinite search across the old deadline
				send("go movetime 120")
				nGo++
				nap(30)
				send("stop")
				if !waitBest(base+1, 60*time.Second) {
					report("C04", "no-answer", strings.Join(script, "; "), label+": stopped movetime search was not answered")
				}
				if r.Intn(2) == 0 {
					// a new game in between: the pending timer belongs to the previous game
					send("ucinewgame")
					send(cur.line)
				}
				send("go infinite")
				nGo++
				script = append(script, "[200ms]")
				time.Sleep(200 * time.Millisecond)
				if name == "morlock" || !book {
					if early := len(bests()); early > base+1 {
						report("C16", "answered-without-stop", strings.Join(script, "; "), label+": go infinite was answered before stop (by the expired movetime of an earlier search)")
					}
				}
				send("stop")
				if !waitBest(base+2, 60*time.Second) {
					report("C04", "stale-timer", strings.Join(script, "; "), label+": go infinite + stop after an expired movetime of an earlier search was not answered")
				}
				owed = base + 2
			default: // junk and malformed lines, option changes, new position
				switch r.Intn(5) {
				case 0:
					send("xyzzy 1 2 3")
				case 1:
					send("")
				case 2:
					send("setoption name Hash value 1")
				case 3:
					send("debug on")
				case 4:
					next := setups[r.Intn(len(setups))]
					send(next.line)
					cur = next
				}
				send("isready")
				isready++
			}
			// settle, then check the step
			time.Sleep(15 * time.Millisecond)
			if dead() {
				// neither quit nor the end of input has been sent: every line of these scripts is one a driver
				// must survive, so a closed output is a shutdown nobody asked for; the rest of the script
				// would only wait for answers that cannot come
				report("C16", "driver-exit", strings.Join(script, "; "), label+": the driver closed its output although neither quit nor the end of input was sent")
				died = true
				break
			}
			got := bests()
			if len(got) > owed {
				report("C04", "duplicate", strings.Join(script, "; "), fmt.Sprintf("%s: %d bestmove lines for %d answered searches", label, len(got), owed))
			}
			if len(got) > base {
				legal := legalSet(cur.f)
				for _, b := range got[base:] {
					answered++
					if b == "0000" {
						if len(legal) > 0 {
							report("C04", "null-move", strings.Join(script, "; "), label+": bestmove 0000 although the position has legal moves")
						}
					} else if !legal[b] {
						stale++
						report("C16", "stale-or-illegal", strings.Join(script, "; "), fmt.Sprintf("%s: bestmove %s is not a legal move of the position last set up (%s)", label, b, cur.f))
					}
				}
			}
			if r.Intn(12) == 0 {
				if r.Intn(2) == 0 {
					send("go infinite") // quit while searching
					nGo++
					nap(10)
				}
				send("quit")
				quit = true
			}
		}
		gos += nGo
		if died {
			deaths++
			if deaths >= 3 {
				fmt.Printf("stress stopped after %d rounds: the driver shut down unasked in %d of them\n", round+1, deaths)
				break
			}
			continue // nothing left to observe: no trace for the acceptor, no shutdown to wait for
		}
		if !quit {
			if r.Intn(2) == 0 {
				send("go infinite")
				nap(10)
			}
			close(in) // end of input
		}
		select {
		case <-closed:
		case <-time.After(20 * time.Second):
			report("C16", "no-shutdown", strings.Join(script, "; "), name+": the driver did not close its output after quit / end of input (deadlock)")
		}
		// the observable trace for the model's trace checker (Driver.obs_ok)
		if traceFile != nil {
			mu.Lock()
			var obs []string
			for _, ev := range events {
				switch {
				case ev.line == "readyok":
					obs = append(obs, "R")
				case strings.HasPrefix(ev.line, "info "):
					obs = append(obs, "I")
				case strings.HasPrefix(ev.line, "bestmove"):
					obs = append(obs, "B")
				}
			}
			mu.Unlock()
			if len(obs) == 0 {
				obs = []string{"-"}
			}
			fmt.Fprintf(traceFile, "ucitrace %s %s => %s\n", name, strings.Join(mcmds, " "), strings.Join(obs, " "))
		}
		if n := count(func(l string) bool { return l == "readyok" }); n != isready && !quit {
			report("C16", "readyok", strings.Join(script, "; "), fmt.Sprintf("%s: %d isready but %d readyok", name, isready, n))
		}
	}
	hostile := hostileChecks(report) + slowConsumerChecks(report) + eofChecks(report)
	fmt.Printf("stress rounds=%d gos=%d answered=%d stale=%d hostile=%d violations=%d\n", rounds, gos, answered, stale, hostile, viol)
	_ = board.White
}
