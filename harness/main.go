//go:build verif

// Command vharness is the Go side of the verification machinery: it dumps values observed from
// the running morlock code (tables, constants, behaviour tables) as Coq files, and runs the
// implementation on generated inputs, printing one observation per line for the model driver.
package main

import (
	"fmt"
	"os"
)

func main() {
	if len(os.Args) < 2 {
		fmt.Fprintln(os.Stderr, "usage: vharness gen <dir> | cases <prop> <seed> <tier> <out>")
		os.Exit(2)
	}
	switch os.Args[1] {
	case "gen":
		genAll(os.Args[2])
	case "cases":
		runCases(os.Args[2:])
	case "stress":
		runStress(os.Args[2:])
	case "det-child":
		runDetChild(os.Args[2], os.Args[3:])
	case "hostile-child":
		var idx int
		fmt.Sscan(os.Args[3], &idx)
		runHostileChild(os.Args[2], idx)
	default:
		fmt.Fprintln(os.Stderr, "unknown subcommand", os.Args[1])
		os.Exit(2)
	}
}

// runStress: concurrent scenarios, meant to be run from the binary built with -race.
func runStress(args []string) {
	if len(args) != 3 {
		fmt.Fprintln(os.Stderr, "usage: vharness stress <prop> <seed> <tier>")
		os.Exit(2)
	}
	var seed int64
	fmt.Sscan(args[1], &seed)
	switch args[0] {
	case "C17":
		stressTT(seed, args[2])
	default:
		if fn, ok := stressFns[args[0]]; ok {
			fn(seed, args[2])
			return
		}
		fmt.Fprintln(os.Stderr, "no stress scenario for", args[0])
		os.Exit(2)
	}
}

var stressFns = map[string]func(seed int64, tier string){}
