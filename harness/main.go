//go:build verif

// Command vharness is the Go side of the verification machinery: it dumps values observed from
// the running morlock code (tables, constants, behaviour tables) as Coq files, and runs the
// implementation on generated inputs, printing one observation per line for the model driver.
package main

import (
	"fmt"
	"os"
)

func main() {
	if len(os.Args) < 2 {
		fmt.Fprintln(os.Stderr, "usage: vharness gen <dir> | cases <prop> <seed> <tier> <out>")
		os.Exit(2)
	}
	switch os.Args[1] {
	case "gen":
		genAll(os.Args[2])
	case "cases":
		runCases(os.Args[2:])
	default:
		fmt.Fprintln(os.Stderr, "unknown subcommand", os.Args[1])
		os.Exit(2)
	}
}
