module verifharness

go 1.21

require (
	github.com/herohde/morlock v0.0.0
	github.com/seekerror/stdlib v0.0.0-20231216224128-fab4c1e73ebe
)

require (
	github.com/golang/glog v1.2.0 // indirect
	github.com/seekerror/build v1.0.2 // indirect
	github.com/seekerror/logw v0.8.1 // indirect
	golang.org/x/exp v0.0.0-20231214170342-aacd6d4b4611 // indirect
)

replace github.com/herohde/morlock => /repo
