//go:build verif

package main

import (
	"context"
	"fmt"
	"strings"
	"time"
	"unicode"

	"github.com/herohde/morlock/pkg/board"
	"github.com/herohde/morlock/pkg/board/fen"
	"github.com/herohde/morlock/pkg/engine"
	"github.com/herohde/morlock/pkg/engine/uci"
	"github.com/herohde/morlock/pkg/eval"
	"github.com/herohde/morlock/pkg/search"
)

func init() {
	caseGens["C14"] = casesFen
	caseGens["C19"] = casesText
	caseGens["C10"] = casesUciPosition
}

// codes renders a string as comma-separated rune codes ("-" for the empty string).
func codes(s string) string {
	rs := []rune(s)
	if len(rs) == 0 {
		return "-"
	}
	parts := make([]string, len(rs))
	for i, r := range rs {
		parts[i] = fmt.Sprint(int(r))
	}
	return strings.Join(parts, ",")
}

// safeDecode runs fen.Decode and turns a panic into an observation.
func safeDecode(s string) (res string, pos *board.Position, turn board.Color, np, fm int) {
	defer func() {
		if r := recover(); r != nil {
			res = "CRASH"
		}
	}()
	p, t, n, f, err := fen.Decode(s)
	if err != nil {
		return "ERR", nil, 0, 0, 0
	}
	if p == nil {
		return "NIL", nil, 0, 0, 0
	}
	return "OK", p, t, n, f
}

func decodeObs(s string) string {
	res, pos, turn, np, fm := safeDecode(s)
	if res != "OK" {
		return res
	}
	enc := fen.Encode(pos, turn, np, fm)
	res2, pos2, turn2, np2, fm2 := safeDecode(enc)
	again := "0"
	if res2 == "OK" && posTok(pos2) == posTok(pos) && turn2 == turn && np2 == np && fm2 == fm {
		again = "1"
	}
	return fmt.Sprintf("OK %s %d %d %d %s %s", posTok(pos), turn, np, fm, codes(enc), again)
}

func safeParseMove(s string) (res string) {
	defer func() {
		if r := recover(); r != nil {
			res = "CRASH"
		}
	}()
	m, err := board.ParseMove(s)
	if err != nil {
		return "ERR"
	}
	return fmt.Sprintf("OK %d %d %d", m.From, m.To, m.Promotion)
}

func safeParseSquare(s string) (res string) {
	defer func() {
		if r := recover(); r != nil {
			res = "CRASH"
		}
	}()
	sq, err := board.ParseSquareStr(s)
	if err != nil {
		return "ERR"
	}
	return fmt.Sprintf("OK %d", sq)
}

func randomFEN(c *caseCtx) string {
	sts := genStates(c, 40)
	s := sts[c.r.Intn(len(sts))]
	np := c.r.Intn(120)
	fm := 1 + c.r.Intn(300)
	if c.r.Intn(10) == 0 {
		np = c.r.Intn(1000000)
		fm = c.r.Intn(1000000)
	}
	return fen.Encode(s.pos, s.turn, np, fm)
}

// C14: round trips on structured positions and clocks; engine-reported FEN along games.
func casesFen(c *caseCtx) {
	emitZKeys(c, 0)
	for _, s := range genStates(c, c.scale(800, 16000)) {
		np := c.r.Intn(150)
		fm := c.r.Intn(500)
		if c.r.Intn(8) == 0 {
			np, fm = c.r.Intn(1<<30), c.r.Intn(1<<30)
		}
		enc := fen.Encode(s.pos, s.turn, np, fm)
		c.emit("fenrt %s %d %d %d => %s | %s", posTok(s.pos), s.turn, np, fm, codes(enc), decodeObs(enc))
	}
	// all castling-right subsets and e.p. squares on a skeleton
	for ca := 0; ca < 16; ca++ {
		pos, _, _, _, _ := fen.Decode("r3k2r/8/8/8/8/8/8/R3K2R w KQkq - 0 1")
		var pls []board.Placement
		for sq := board.ZeroSquare; sq < board.NumSquares; sq++ {
			if col, pc, ok := pos.Square(sq); ok {
				pls = append(pls, board.Placement{Square: sq, Color: col, Piece: pc})
			}
		}
		for _, ep := range []board.Square{0, board.A3, board.E3, board.H3, board.A6, board.D6, board.H6} {
			p2, err := board.NewPosition(pls, board.Castling(ca), ep)
			if err != nil {
				continue
			}
			enc := fen.Encode(p2, board.Color(ca%2), ca, ca+1)
			c.emit("fenrt %s %d %d %d => %s | %s", posTok(p2), ca%2, ca, ca+1, codes(enc), decodeObs(enc))
		}
	}
	// engine-reported FEN along games with take-backs
	ctx := context.Background()
	for g := 0; g < c.scale(40, 800); g++ {
		start := randomFEN(c)
		if c.r.Intn(3) == 0 {
			start = fen.Initial
		}
		if g < 12 {
			// corner rooks with castling rights next to promoting pawns, knights, kings: the castling field
			// of the reported FEN after captures on the corners
			corner := []string{"r3k2r/1P4P1/8/8/8/8/1p4p1/R3K2R w KQkq - 0 1", "r3k2r/1P4P1/8/8/8/8/1p4p1/R3K2R b KQkq - 3 9",
				"4k2r/6K1/8/8/8/8/1r6/8 w k - 0 1", "8/8/8/8/8/8/6k1/4K2R b K - 5 40", "r3k2r/2N2N2/8/8/8/8/2n2n2/R3K2R w KQkq - 0 1",
				"r3k2r/8/8/3BB3/3bb3/8/8/R3K2R w KQkq - 0 1"}
			start = corner[g%len(corner)]
		}
		e := engine.New(ctx, "t", "t", search.AlphaBeta{Eval: search.Leaf{Eval: eval.Material{}}})
		if err := e.Reset(ctx, start); err != nil {
			continue
		}
		var ops, obs []string
		obs = append(obs, codes(e.Position()))
		depth := 0
		for k := 0; k < 20+c.r.Intn(60); k++ {
			b := e.Board()
			moves := legalMoves(b.Position(), b.Turn())
			if c.r.Intn(6) == 0 && depth > 0 {
				_ = e.TakeBack(ctx)
				depth--
				ops = append(ops, "tb")
			} else if len(moves) > 0 {
				m := pickMove(c, moves)
				if g < 12 && k < 2 {
					// first the captures on the corner squares
					for _, x := range moves {
						if x.IsCapture() && (x.To == board.A1 || x.To == board.H1 || x.To == board.A8 || x.To == board.H8) && c.r.Intn(2) == 0 {
							m = x
						}
					}
				}
				str := uciMove(m)
				if err := e.Move(ctx, str); err != nil {
					break
				}
				depth++
				ops = append(ops, "mv:"+codes(str))
			} else {
				break
			}
			obs = append(obs, codes(e.Position()))
		}
		c.emit("engfen %s :: %s => %s", codes(start), strings.Join(ops, " "), strings.Join(obs, " | "))
	}
	// a new game set up on the same engine: the same placement with other clocks, the position just reached
	// given as a FEN, another position - each time the reported FEN is that of the new set-up
	for g := 0; g < c.scale(12, 200); g++ {
		start := randomFEN(c)
		if g%3 == 0 {
			start = fen.Initial
		}
		e := engine.New(ctx, "t", "t", search.AlphaBeta{Eval: search.Leaf{Eval: eval.Material{}}})
		if err := e.Reset(ctx, start); err != nil {
			continue
		}
		var ops, obs []string
		obs = append(obs, codes(e.Position()))
		for k := 0; k < 8; k++ {
			b := e.Board()
			moves := legalMoves(b.Position(), b.Turn())
			switch {
			case k%3 == 2:
				// same placement, side, rights and e.p. square - other clocks
				np, fm := c.r.Intn(90), 1+c.r.Intn(200)
				if c.r.Intn(2) == 0 {
					np, fm = 0, 1
				}
				f := fen.Encode(b.Position(), b.Turn(), np, fm)
				if err := e.Reset(ctx, f); err != nil {
					k = 99
					break
				}
				ops = append(ops, "rs:"+codes(f))
			case len(moves) > 0:
				str := uciMove(pickMove(c, moves))
				if err := e.Move(ctx, str); err != nil {
					k = 99
					break
				}
				ops = append(ops, "mv:"+codes(str))
			default:
				k = 99
			}
			if k < 99 {
				obs = append(obs, codes(e.Position()))
			}
		}
		c.emit("engfen %s :: %s => %s", codes(start), strings.Join(ops, " "), strings.Join(obs, " | "))
	}
}

func safeEngineMove(ctx context.Context, e *engine.Engine, s string) (err error, crashed bool) {
	defer func() {
		if r := recover(); r != nil {
			crashed = true
		}
	}()
	return e.Move(ctx, s), false
}

func uciMove(m board.Move) string {
	s := m.From.String() + m.To.String()
	switch m.Promotion {
	case board.Queen:
		s += "q"
	case board.Rook:
		s += "r"
	case board.Knight:
		s += "n"
	case board.Bishop:
		s += "b"
	}
	return s
}

var junkRunes = []rune{'0', '9', '8', '1', '/', ' ', 'K', 'k', 'x', 'P', 'p', '-', '+', 'w', 'b', 'e', '3', 0x0660, 0x0669, 0xFF11, 0xFF2B, 0x00E9, 0x2003, 0x3000, '\t', '\n', 0, 0x10FFFF, 0x1D7D8}

func mutate(c *caseCtx, s string) string {
	rs := []rune(s)
	n := 1 + c.r.Intn(3)
	for i := 0; i < n; i++ {
		switch c.r.Intn(7) {
		case 0: // delete
			if len(rs) > 0 {
				k := c.r.Intn(len(rs))
				rs = append(rs[:k], rs[k+1:]...)
			}
		case 1: // insert
			k := c.r.Intn(len(rs) + 1)
			rs = append(rs[:k], append([]rune{junkRunes[c.r.Intn(len(junkRunes))]}, rs[k:]...)...)
		case 2: // replace
			if len(rs) > 0 {
				rs[c.r.Intn(len(rs))] = junkRunes[c.r.Intn(len(junkRunes))]
			}
		case 3: // duplicate a rank
			parts := strings.Split(string(rs), "/")
			if len(parts) > 1 {
				k := c.r.Intn(len(parts))
				parts = append(parts[:k+1], parts[k:]...)
				rs = []rune(strings.Join(parts, "/"))
			}
		case 4: // stretch a digit run so that an 8-bit cursor would wrap
			k := c.r.Intn(len(rs) + 1)
			run := strings.Repeat("8", 24+c.r.Intn(16))
			rs = append(rs[:k], append([]rune(run), rs[k:]...)...)
		case 5: // truncate
			if len(rs) > 0 {
				rs = rs[:c.r.Intn(len(rs))]
			}
		case 6: // swap two fields
			parts := strings.Split(string(rs), " ")
			if len(parts) > 2 {
				i, j := c.r.Intn(len(parts)), c.r.Intn(len(parts))
				parts[i], parts[j] = parts[j], parts[i]
				rs = []rune(strings.Join(parts, " "))
			}
		}
	}
	return string(rs)
}

// C19: totality of Decode / ParseMove / ParseSquare on malformed streams; Engine.Move accepts exactly
// the legal moves and leaves the state unchanged otherwise.
func casesText(c *caseCtx) {
	emitZKeys(c, 0)
	curated := []string{
		"", " ", "8/8/8/8/8/8/8/8 w - - 0 1", "8/8/8/8/8/8/8/8K" + strings.Repeat("8", 31) + "7 w - - 0 1",
		"k7/8/8/8/8/8/8/8/" + strings.Repeat("8", 24) + "K7/8/8/8/8/8/8/8 w - - 0 1",
		"k7/8/8/8/8/8/8/8/" + strings.Repeat("8", 24) + "K7/8/8/8/8/8/8/7 w - - 0 1",
		"9/7/8/8/8/8/8/8 w - - 0 1", "80/8/8/8/8/8/8/8 w - - 0 1", "8/8/8/8/8/8/8/8 w  - 0 1", "8/8/8/8/8/8/8/8 W kkKK e4 +5 -0",
		"8/8/8/8/8/8/8/8 w - h1 007 1", "8/8/8/8/8/8/8/8 w - - 9223372036854775808 1", "8/8/8/8/8/8/8/8 w - - -1 1", "8/8/8/8/8/8/8/8 x - - 0 1",
		"٨/8/8/8/8/8/8/8 w - - 0 1", "Ｋ7/8/8/8/8/8/8/8 w - - 0 1", "8/8/8/8/8/8/8/8 w - - 0 1 extra", "  " + fen.Initial + "\n",
		"rnbqkbnr/pppppppp/8/8/8/8/PPPPPPPP/RNBQKBNRR w KQkq - 0 1", "pppppppp/8/8/8/8/8/8/PPPPPPPP w - - 0 1", "8/8/8/8/8/8/8/8 w KQkqKQ a9 0 1",
		"8/8/8/8/8/8/8/8\tw - - 0 1", "8/8/8/8/8/8/8/8 w - - 0 1",
		// numbers at the ends of the ranges of the number types involved (Go int, OCaml's 63-bit int in the driver)
		"4k3/8/8/8/8/8/8/4K3 w - - 4611686018427387903 4611686018427387904", "4k3/8/8/8/8/8/8/4K3 w - - 4611686018427387904 4611686018427387903",
		"4k3/8/8/8/8/8/8/4K3 b - - 9223372036854775807 9223372036854775807", "4k3/8/8/8/8/8/8/4K3 b - - 62 8888888888888888888",
		"4k3/8/8/8/8/8/8/4K3 w - - 0 9223372036854775808", "4k3/8/8/8/8/8/8/4K3 w - - 18446744073709551616 1", "4k3/8/8/8/8/8/8/4K3 w - - 0 99999999999999999999",
		"4k3/8/8/8/8/8/8/4K3 w - - 2147483648 4294967296", "4k3/8/8/8/8/8/8/4K3 w - - 0000000000000000000000007 000000000000000000000000000000012",
	}
	for _, s := range curated {
		c.emit("decode %s => %s", codes(s), decodeObs(s))
	}
	for i := 0; i < c.scale(4000, 100000); i++ {
		base := randomFEN(c)
		s := base
		if c.r.Intn(10) != 0 {
			s = mutate(c, base)
		}
		c.emit("decode %s => %s", codes(s), decodeObs(s))
	}
	// every Unicode decimal digit (category Nd, about 680 runes) and a band of runes around each code
	// point congruent to '1'..'8' or 'a'..'h' modulo 256 / 65536, as rank and as file character of a
	// square, of a move and of a FEN en passant field: only ASCII is coordinate notation
	var exotic []rune
	for _, r16 := range unicode.Nd.R16 {
		for r := rune(r16.Lo); r <= rune(r16.Hi); r += rune(r16.Stride) {
			exotic = append(exotic, r)
		}
	}
	for _, r32 := range unicode.Nd.R32 {
		for r := rune(r32.Lo); r <= rune(r32.Hi); r += rune(r32.Stride) {
			exotic = append(exotic, r)
		}
	}
	for _, base := range []rune{0x100, 0x200, 0xff00, 0x10000, 0x10100, 0x20000, 0x10ff00} {
		for _, lo := range []rune{'1', '8', 'a', 'h', 'A', 'H'} {
			if r := base + lo; r <= unicode.MaxRune {
				exotic = append(exotic, r)
			}
		}
	}
	for _, r := range exotic {
		if r < 128 {
			continue
		}
		sq1, sq2 := "e"+string(r), string(r)+"4"
		c.emit("parsesq %s => %s", codes(sq1), safeParseSquare(sq1))
		c.emit("parsesq %s => %s", codes(sq2), safeParseSquare(sq2))
		mv := "e2e" + string(r)
		c.emit("parsemove %s => %s", codes(mv), safeParseMove(mv))
		ep := "rnbqkbnr/pppp1ppp/8/8/4pP2/8/PPPPP1PP/RNBQKBNR b KQkq f" + string(r) + " 0 2"
		c.emit("decode %s => %s", codes(ep), decodeObs(ep))
	}
	// every square as the en passant field: whatever is accepted must survive the round trip
	for _, skel := range []string{"4k3/8/8/8/8/3P4/8/4K3 w - %s 0 1", "4k3/8/3p4/8/8/8/8/4K3 b - %s 0 1", "4k3/8/8/3pP3/8/8/8/4K3 w - %s 0 3"} {
		for sq := board.ZeroSquare; sq < board.NumSquares; sq++ {
			f := fmt.Sprintf(skel, sq.String())
			c.emit("decode %s => %s", codes(f), decodeObs(f))
		}
	}
	// moves and squares
	letters := []rune("abcdefghABCDEFGHijxz0123456789qrbnkpQRBNKP -+éｅ")
	for i := 0; i < c.scale(3000, 60000); i++ {
		n := 3 + c.r.Intn(4)
		rs := make([]rune, n)
		for k := range rs {
			if c.r.Intn(4) == 0 {
				rs[k] = letters[c.r.Intn(len(letters))]
			} else if k%2 == 0 || k == 4 {
				rs[k] = []rune("abcdefghqrbn")[c.r.Intn(12)]
			} else {
				rs[k] = []rune("12345678")[c.r.Intn(8)]
			}
		}
		s := string(rs)
		c.emit("parsemove %s => %s", codes(s), safeParseMove(s))
		if n >= 2 {
			c.emit("parsesq %s => %s", codes(string(rs[:2])), safeParseSquare(string(rs[:2])))
		}
		// byte length and rune count differ for multi-byte characters
		if i%4 == 0 {
			multi := []string{"é", "€", "😀", "ｅ", "٢", "\xff", "\xc3"}
			k := c.r.Intn(len(rs) + 1)
			t := string(rs[:k]) + multi[c.r.Intn(len(multi))] + string(rs[k:])
			if c.r.Intn(2) == 0 && len(rs) > 2 {
				t = string(rs[:2]) + multi[c.r.Intn(len(multi))]
			}
			c.emit("parsemove %s => %s", codes(t), safeParseMove(t))
			c.emit("parsesq %s => %s", codes(t), safeParseSquare(t))
		}
	}
	ctx := context.Background()
	// whole games given as text: a set-up FEN with a half-move clock of its own, then move strings that
	// shuffle officers out and back twice (third occurrence of the start position with a clock that is
	// longer than the recorded history): every legal string must be accepted, none may crash
	shuffleStarts := []string{
		"rnbqkbnr/pppppppp/8/8/8/8/PPPPPPPP/RNBQKBNR w KQkq - %d 30",
		"r3k2r/pppq1ppp/2npbn2/2b1p3/2B1P3/2NPBN2/PPPQ1PPP/R3K2R w KQkq - %d 12",
		"4k3/8/8/8/8/8/8/R3K2R b KQ - %d 40",
		"3k4/8/3K4/8/8/8/8/R7 w - - %d 60",
	}
	for _, tmpl := range shuffleStarts {
		for _, clock := range []int{0, 1, 2, 3, 10, 41, 90, 96} {
			start := fmt.Sprintf(tmpl, clock)
			e := engine.New(ctx, "t", "t", search.AlphaBeta{Eval: search.Leaf{Eval: eval.Material{}}})
			if err := e.Reset(ctx, start); err != nil {
				continue
			}
			pos, turn, _, _, _ := fen.Decode(start)
			cyc, ok := shuffleCycle(c, state{pos, turn})
			if !ok {
				continue
			}
			var ops, obs []string
			obs = append(obs, codes(e.Position()))
			for k := 0; k < 12; k++ {
				str := cyc[k%4]
				ops = append(ops, "mv:"+codes(str))
				err, crashed := safeEngineMove(ctx, e, str)
				if crashed {
					obs = append(obs, "CRASH")
					break
				}
				if err != nil {
					obs = append(obs, "REJ")
					break
				}
				obs = append(obs, codes(e.Position()))
			}
			c.emit("enggame %s :: %s => %s", codes(start), strings.Join(ops, " "), strings.Join(obs, " | "))
		}
	}
	// Engine.Move: accepted iff the string denotes a legal move; rejected input leaves the state unchanged
	for g := 0; g < c.scale(150, 3000); g++ {
		start := randomFEN(c)
		e := engine.New(ctx, "t", "t", search.AlphaBeta{Eval: search.Leaf{Eval: eval.Material{}}})
		if err := e.Reset(ctx, start); err != nil {
			continue
		}
		b := e.Board()
		var cand []string
		for _, m := range b.Position().PseudoLegalMoves(b.Turn()) {
			cand = append(cand, uciMove(m))
		}
		for k := 0; k < 6; k++ {
			f, t := board.Square(c.r.Intn(64)), board.Square(c.r.Intn(64))
			s := f.String() + t.String()
			if c.r.Intn(4) == 0 {
				s += string("qrbnkp"[c.r.Intn(6)])
			}
			cand = append(cand, s)
		}
		cand = append(cand, "", "e2", "e2e4e5q", "0000", "E2E4", "e7e8", "e7e8Q", "e2é", "e2€", "😀", "e2e4é", "é2e4")
		// the notation the engine prints (piece letter, hyphen or capture sign, =Q) is not coordinate notation
		for i, m := range b.Position().PseudoLegalMoves(b.Turn()) {
			if i > 6 {
				break
			}
			ft := m.From.String() + m.To.String()
			for _, pre := range []string{"Q", "N", "B", "R", "K", "P"} {
				cand = append(cand, pre+m.From.String()+"-"+m.To.String(), pre+ft, pre+m.From.String()+"x"+m.To.String())
			}
			cand = append(cand, m.From.String()+"-"+m.To.String(), ft+"=Q", ft+"+", ft+"#")
		}
		for _, s := range cand {
			before := boardObs(board.NewZobristTable(0), e.Board(), true)
			beforeFen := e.Position()
			err, crashed := safeEngineMove(ctx, e, s)
			if crashed {
				c.emit("engmove %s %s => CRASH", codes(start), codes(s))
				break
			}
			if err != nil {
				after := boardObs(board.NewZobristTable(0), e.Board(), true)
				same := b01(after == before && e.Position() == beforeFen)
				c.emit("engmove %s %s => REJ %s", codes(start), codes(s), same)
			} else {
				c.emit("engmove %s %s => ACC %s", codes(start), codes(s), codes(e.Position()))
				_ = e.TakeBack(ctx)
			}
		}
	}
}

// driveUCI runs the real UCI driver on a list of lines, synchronising with isready after each, and
// observes the engine after every line. Returns one observation per line ("EXIT" once the driver
// has closed its output).
func driveUCI(lines []string) []string {
	ctx := context.Background()
	e := engine.New(ctx, "t", "t", search.AlphaBeta{Eval: search.Leaf{Eval: eval.Material{}}}, engine.WithOptions(engine.Options{Depth: 1}))
	in := make(chan string, 1)
	_, out := uci.NewDriver(ctx, e, in)
	alive := true
	waitReady := func() bool {
		for {
			select {
			case l, ok := <-out:
				if !ok {
					return false
				}
				if l == "readyok" {
					return true
				}
			case <-time.After(5 * time.Second):
				return false
			}
		}
	}
	in <- "isready"
	if !waitReady() {
		alive = false
	}
	var obs []string
	zt := board.NewZobristTable(0)
	for _, l := range lines {
		if !alive {
			obs = append(obs, "EXIT")
			continue
		}
		in <- l
		in <- "isready"
		if !waitReady() {
			alive = false
			obs = append(obs, "EXIT")
			continue
		}
		b := e.Board()
		obs = append(obs, fmt.Sprintf("ALIVE %s %d %d %d %d %d %d", codes(e.Position()), b.Ply(), b.VerifRepetitions(b.Hash()), b.Result().Outcome, reasonCode(b.Result().Reason), b.NoProgress(), b.FullMoves()))
		_ = zt
	}
	if alive {
		close(in)
	}
	return obs
}

// C10: sequences of position / ucinewgame commands in GUI form.
func casesUciPosition(c *caseCtx) {
	emitZKeys(c, 0)
	emit := func(lines []string) {
		obs := driveUCI(lines)
		var ls []string
		for _, l := range lines {
			ls = append(ls, codes(l))
		}
		c.emit("ucipos %s => %s", strings.Join(ls, " "), strings.Join(obs, " | "))
	}
	// scripted: extension, verbatim repetition, shortening, ucinewgame, FEN that is a textual prefix
	emit([]string{"position startpos", "position startpos moves e2e4", "position startpos moves e2e4 e7e5", "position startpos moves e2e4 e7e5", "position startpos moves e2e4", "ucinewgame", "position startpos moves d2d4"})
	emit([]string{"position startpos moves e2e4", "position startpos moves e2e4"})
	emit([]string{"position fen 4k3/8/8/8/8/8/8/R3K3 w Q - 0 1", "position fen 4k3/8/8/8/8/8/8/R3K3 w Q - 0 10 moves a1a2"})
	emit([]string{"position fen 4k3/8/8/8/8/8/8/R3K3 w Q - 0 1", "position fen 4k3/8/8/8/8/8/8/R3K3 w Q - 0 1 moves a1a2", "position fen 4k3/8/8/8/8/8/8/R3K3 w Q - 0 1 moves a1a2 e8d8 a2a1 d8e8 a1a2 e8d8 a2a1 d8e8"})
	emit([]string{"position startpos moves g1f3 g8f6 f3g1 f6g8", "position startpos moves g1f3 g8f6 f3g1 f6g8 g1f3 g8f6 f3g1 f6g8", "position startpos moves g1f3 g8f6 f3g1 f6g8 g1f3 g8f6 f3g1 f6g8 g1f3"})
	// commands that differ from the previous one only in the case of letters describe other games (piece
	// colours, castling rights) or are not moves at all
	emit([]string{"position fen 4k3/8/8/8/8/8/3Q4/4K3 w - - 0 1", "position fen 4k3/8/8/8/8/8/3q4/4K3 w - - 0 1", "position fen 4k3/8/8/8/8/8/3q4/4K3 w - - 0 1 moves e1d2"})
	emit([]string{"position fen r3k2r/8/8/8/8/8/8/R3K2R w Kq - 0 1", "position fen r3k2r/8/8/8/8/8/8/R3K2R w kQ - 0 1", "position fen r3k2r/8/8/8/8/8/8/R3K2R w kQ - 0 1 moves e1c1"})
	emit([]string{"position fen 4k3/3p4/8/8/8/8/3P4/4K3 w - - 0 1 moves d2d4", "position fen 4k3/3P4/8/8/8/8/3p4/4K3 w - - 0 1 moves d7d8q"})
	emit([]string{"position startpos moves e2e4", "position startpos moves E2E4 e7e5"})
	// the current position re-sent as a FEN is a NEW game: no history, the clocks of the FEN
	emit([]string{"position startpos moves g1f3 g8f6 f3g1 f6g8", "position fen rnbqkbnr/pppppppp/8/8/8/8/PPPPPPPP/RNBQKBNR w KQkq - 4 3", "position fen rnbqkbnr/pppppppp/8/8/8/8/PPPPPPPP/RNBQKBNR w KQkq - 4 3 moves g1f3 g8f6 f3g1 f6g8"})
	emit([]string{"position startpos moves g1f3 g8f6 f3g1 f6g8", "ucinewgame", "position fen rnbqkbnr/pppppppp/8/8/8/8/PPPPPPPP/RNBQKBNR w KQkq - 4 3 moves g1f3 g8f6 f3g1 f6g8"})
	emit([]string{"position startpos moves g1f3 g8f6 f3g1 f6g8", "position startpos", "position startpos moves g1f3 g8f6"})
	emit([]string{"position fen 8/8/4k3/8/8/4K3/4P3/8 w - - 37 60", "position fen 8/8/4k3/8/8/4K3/4P3/8 w - - 0 1", "position fen 8/8/4k3/8/8/4K3/4P3/8 w - - 0 1 moves e3d3"})
	// shortened lines whose game is already drawn by rule (the result is recorded when the move is made and is
	// part of the game the line describes): third occurrence, clock reaching 100, bare minor piece
	shuffle := "g1f3 g8f6 f3g1 f6g8"
	rep8 := shuffle + " " + shuffle
	emit([]string{"position startpos moves " + rep8 + " b1c3 b8c6", "position startpos moves " + rep8 + " b1c3", "position startpos moves " + rep8, "position startpos moves " + rep8 + " e2e4"})
	emit([]string{"position startpos moves " + rep8 + " g1f3", "position startpos moves " + rep8, "position startpos moves " + shuffle + " g1f3 g8f6 f3g1", "position startpos moves " + rep8})
	emit([]string{"position fen 4k3/8/8/8/8/8/8/R3K3 w - - 98 70 moves a1a2 e8d8 a2a3", "position fen 4k3/8/8/8/8/8/8/R3K3 w - - 98 70 moves a1a2 e8d8", "position fen 4k3/8/8/8/8/8/8/R3K3 w - - 98 70 moves a1a2 e8d8 a2a4", "position fen 4k3/8/8/8/8/8/8/R3K3 w - - 98 70 moves a1a2"})
	emit([]string{"position fen 4k3/8/8/8/3n4/8/3R4/4K3 b - - 0 1 moves e8e7 d2d4 e7e6", "position fen 4k3/8/8/8/3n4/8/3R4/4K3 b - - 0 1 moves e8e7 d2d4", "position fen 4k3/8/8/8/3n4/8/3R4/4K3 b - - 0 1 moves e8e7 d2d4 e7f6", "position fen 4k3/8/8/8/3n4/8/3R4/4K3 b - - 0 1 moves e8e7"})
	emit([]string{"position fen 4k3/8/8/8/3b4/8/3R4/4K3 b - - 0 1 moves d4f2 e1f2 e8e7 f2e2", "position fen 4k3/8/8/8/3b4/8/3R4/4K3 b - - 0 1 moves d4f2 e1f2 e8e7", "position fen 4k3/8/8/8/3b4/8/3R4/4K3 b - - 0 1 moves d4f2 e1f2"})
	// commands other than position / ucinewgame between two position lines leave the game alone: the next line
	// still continues it (options changed while idle, searches run and stopped, isready, debug, junk)
	knights := []string{"g1f3", "g8f6", "f3g1", "f6g8", "g1f3", "g8f6", "f3g1", "f6g8", "b1c3"}
	for _, noise := range [][]string{
		{"setoption name Hash value 1"}, {"setoption name Hash value 1", "setoption name Hash value 0"}, {"setoption name Hash value 16"},
		{"go depth 1"}, {"go depth 2", "stop"}, {"go infinite", "stop"}, {"debug on"}, {"uci"},
		{"setoption name Noise value 3"}, {"setoption name OwnBook value false"}, {"setoption name Depth value 2"}, {"stop"}, {"ponderhit"}, {"xyzzy"},
	} {
		for _, at := range []int{2, 5} {
			var ls []string
			for n := 0; n <= len(knights); n++ {
				l := "position startpos"
				if n > 0 {
					l += " moves " + strings.Join(knights[:n], " ")
				}
				ls = append(ls, l)
				if n == at || (n == 7 && at == 5) {
					ls = append(ls, noise...)
				}
			}
			emit(ls)
		}
		emit(append(append([]string{"position fen 4k3/8/8/8/8/8/8/R3K3 w Q - 98 70 moves a1a2"}, noise...), "position fen 4k3/8/8/8/8/8/8/R3K3 w Q - 98 70 moves a1a2", "position fen 4k3/8/8/8/8/8/8/R3K3 w Q - 98 70 moves a1a2 e8d8"))
	}
	noiseCmds := []string{"setoption name Hash value 1", "setoption name Hash value 0", "setoption name Hash value 4", "go depth 1", "stop", "debug off", "setoption name Noise value 0", "setoption name Depth value 1"}
	for g := 0; g < c.scale(60, 1500); g++ {
		// one game, sent as a GUI would: growing move lists, occasional repeats, shortenings, new games
		start := "startpos"
		startFen := fen.Initial
		if c.r.Intn(3) == 0 {
			startFen = randomFEN(c)
			start = "fen " + startFen
		}
		pos, turn, _, _, err := fen.Decode(startFen)
		if err != nil {
			continue
		}
		sts := []state{{pos, turn}}
		var moves []string
		var lines []string
		line := func(n int) string {
			if n == 0 {
				return "position " + start
			}
			return "position " + start + " moves " + strings.Join(moves[:n], " ")
		}
		lines = append(lines, line(0))
		for k := 0; k < 6+c.r.Intn(20); k++ {
			cur := sts[len(sts)-1]
			ms := legalMoves(cur.pos, cur.turn)
			r := c.r.Intn(20)
			switch {
			case r == 0:
				lines = append(lines, "ucinewgame")
			case r == 1 && len(moves) > 0:
				lines = append(lines, line(len(moves))) // verbatim
			case r == 5 || r == 6:
				lines = append(lines, noiseCmds[c.r.Intn(len(noiseCmds))])
			case (r == 3 || r == 4) && len(moves) > 0:
				// the GUI switches to describing the game by the FEN of the current position: a new game
				// starting there (no history), with the current clocks or with fresh ones
				if b, err := fen.NewBoard(startFen); err == nil {
					okAll := true
					for i := range moves {
						cur := sts[i]
						found := false
						for _, m := range legalMoves(cur.pos, cur.turn) {
							if uciMove(m) == moves[i] {
								found = b.PushMove(m)
								break
							}
						}
						if !found {
							okAll = false
							break
						}
					}
					if okAll {
						np, fm := b.NoProgress(), b.FullMoves()
						if r == 4 {
							np, fm = 0, 1
						}
						startFen = fen.Encode(b.Position(), b.Turn(), np, fm)
						start = "fen " + startFen
						sts = sts[len(sts)-1:]
						moves = nil
						if c.r.Intn(3) == 0 {
							lines = append(lines, "ucinewgame")
						}
						lines = append(lines, line(0))
					}
				}
			case r == 2 && len(moves) > 1:
				n := c.r.Intn(len(moves))
				moves = moves[:n]
				sts = sts[:n+1]
				lines = append(lines, line(n))
			case len(ms) > 0:
				add := 1 + c.r.Intn(2)
				for a := 0; a < add; a++ {
					cur = sts[len(sts)-1]
					ms = legalMoves(cur.pos, cur.turn)
					if len(ms) == 0 {
						break
					}
					m := pickMove(c, ms)
					if c.r.Intn(3) == 0 && len(moves) >= 2 {
						// try to undo the move made two plies ago (shuffles lead to repetitions)
						for _, x := range ms {
							if uciMove(x) == moves[len(moves)-2][2:4]+moves[len(moves)-2][0:2] {
								m = x
							}
						}
					}
					next, ok := cur.pos.Move(m)
					if !ok {
						break
					}
					moves = append(moves, uciMove(m))
					sts = append(sts, state{next, cur.turn.Opponent()})
				}
				lines = append(lines, line(len(moves)))
			}
		}
		emit(lines)
	}
}
