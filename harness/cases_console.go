//go:build verif

package main

import (
	"context"
	"fmt"
	"strings"
	"time"

	"github.com/herohde/morlock/pkg/board/fen"
	"github.com/herohde/morlock/pkg/engine"
	"github.com/herohde/morlock/pkg/engine/console"
	"github.com/herohde/morlock/pkg/eval"
	"github.com/herohde/morlock/pkg/search"
)

// consoleSession runs the console driver on the commands and returns, for every analyze command,
// "<final score> <bestmove>" ("-" when nothing was reported).
func consoleSession(hash uint, minDepth bool, cmds []string) []string {
	ctx := context.Background()
	root := search.AlphaBeta{Eval: search.Leaf{Eval: eval.Material{}}}
	opts := []engine.Option{engine.WithOptions(engine.Options{Hash: hash})}
	if minDepth {
		opts = append(opts, engine.WithTable(search.NewMinDepthTranspositionTable(1)))
	}
	e := engine.New(ctx, "morlock", "t", root, opts...)
	in := make(chan string, 1)
	_, out := console.NewDriver(ctx, e, root, in)
	var results []string
	drain := func(idle time.Duration, until string) []string {
		var lines []string
		seen := until == ""
		for {
			wait := idle
			if !seen {
				wait = 30 * time.Second
			}
			select {
			case l, ok := <-out:
				if !ok {
					return lines
				}
				lines = append(lines, l)
				if until != "" && strings.HasPrefix(l, until) {
					seen = true
				}
			case <-time.After(wait):
				return lines
			}
		}
	}
	drain(20*time.Millisecond, "")
	for _, cmd := range cmds {
		in <- cmd
		if strings.HasPrefix(cmd, "analyze") {
			lines := drain(60*time.Millisecond, "Search, depth=")
			score, best := "-", "-"
			for _, l := range lines {
				if strings.HasPrefix(l, "depth=") {
					for _, f := range strings.Fields(l) {
						if strings.HasPrefix(f, "score=") {
							score = strings.TrimPrefix(f, "score=")
						}
					}
				}
				if strings.HasPrefix(l, "bestmove ") {
					best = strings.TrimPrefix(l, "bestmove ")
				}
			}
			results = append(results, score+" "+best)
		} else {
			drain(20*time.Millisecond, "")
		}
	}
	in <- "quit"
	return results
}

// consoleTableChecks (C11): analysis sessions on the console driver - set-up, analyze, undo / move,
// analyze deeper - with a hash table and without one must report the same scores.
func consoleTableChecks(c *caseCtx) {
	n := 0
	starts := []string{
		"6k1/5ppp/4p3/3p4/8/8/P7/3QK3 w - - 0 1",
		"k7/7R/7R/8/8/8/8/7K w - - 0 1",
		"r3k2r/p1ppqpb1/bn2pnp1/3PN3/1p2P3/2N2Q1p/PPPBBPPP/R3K2R w KQkq - 0 1",
		"8/2p5/3p4/KP5r/1R3p1k/8/4P1P1/8 w - - 0 1",
		"6k1/5ppp/8/8/8/8/5PPP/R5K1 w - - 0 1",
	}
	// scripted: from one small position, every legal move in turn - set up with the move played, analyse,
	// undo, analyse one ply deeper (the table then holds what the per-move breakdown of the first analysis
	// left behind, for the very position the second analysis passes through)
	{
		f := starts[0]
		pos, turn, _, _, _ := fen.Decode(f)
		for i, mv := range legalMoves(pos, turn) {
			cmds := []string{"reset " + f + " moves " + uciMove(mv), "analyze 2", "undo", "analyze 3"}
			with := consoleSession(1, i%4 < 2, cmds)
			without := consoleSession(0, false, cmds)
			n++
			for k := range with {
				if k >= len(without) {
					break
				}
				ws, os := strings.Fields(with[k]), strings.Fields(without[k])
				if len(ws) < 2 || len(os) < 2 || ws[0] == "-" || os[0] == "-" {
					continue
				}
				if ws[0] != os[0] {
					fmt.Printf("IMPLVIOL console %s :: analysis #%d reports score %s (bestmove %s) with a hash table, %s (bestmove %s) without prop=C11 key=console-table\n", strings.Join(cmds, "; "), k+1, ws[0], ws[1], os[0], os[1])
					break
				}
			}
		}
	}
	for g := 0; g < c.scale(10, 150); g++ {
		f := starts[g%len(starts)]
		if g >= len(starts) {
			if rf, ok := randomSmallPosition(c); ok {
				f = rf
			}
		}
		pos, turn, _, _, err := fen.Decode(f)
		if err != nil || pos == nil {
			continue
		}
		ms := legalMoves(pos, turn)
		if len(ms) == 0 {
			continue
		}
		m := uciMove(ms[c.r.Intn(len(ms))])
		d := 1 + c.r.Intn(2)
		var cmds []string
		switch g % 3 {
		case 0:
			cmds = []string{"reset " + f + " moves " + m, fmt.Sprintf("analyze %d", d), "undo", fmt.Sprintf("analyze %d", d+1)}
		case 1:
			cmds = []string{"reset " + f, fmt.Sprintf("analyze %d", d+1), m, fmt.Sprintf("analyze %d", d), "undo", fmt.Sprintf("analyze %d", d+1)}
		default:
			cmds = []string{"reset " + f, fmt.Sprintf("analyze %d", d), fmt.Sprintf("analyze %d", d+1), fmt.Sprintf("analyze %d", d)}
		}
		with := consoleSession(1, g%2 == 0, cmds)
		without := consoleSession(0, false, cmds)
		n++
		for i := range with {
			if i >= len(without) {
				break
			}
			ws, os := strings.Fields(with[i]), strings.Fields(without[i])
			if len(ws) == 0 || len(os) == 0 || ws[0] == "-" || os[0] == "-" {
				continue
			}
			if ws[0] != os[0] {
				fmt.Printf("IMPLVIOL console %s :: analysis #%d reports score %s (bestmove %s) with a hash table, %s (bestmove %s) without prop=C11 key=console-table\n", strings.Join(cmds, "; "), i+1, ws[0], ws[1], os[0], os[1])
				break
			}
		}
	}
	fmt.Printf("COUNT console %d\n", n)
}

// engineResetTableChecks (C11): a new game on the same engine starts from an empty table - what the
// searches of the previous game stored (values that depended on its clock, its history or its evaluation
// noise) must not surface in the next one: the first search of the new game equals the one of an engine
// without table.
func engineResetTableChecks(c *caseCtx, prop string) {
	ctx := context.Background()
	type sc struct {
		first      string
		firstNoise uint
		second     string
		depth      uint
	}
	scs := []sc{
		{"k7/7R/6R1/8/8/8/8/7K b - - 98 80", 0, "k7/7R/6R1/8/8/8/8/7K b - - 0 1", 3},
		{"r3k2r/p1ppqpb1/bn2pnp1/3PN3/1p2P3/2N2Q1p/PPPBBPPP/R3K2R w KQkq - 0 1", 8000, "r3k2r/p1ppqpb1/bn2pnp1/3PN3/1p2P3/2N2Q1p/PPPBBPPP/R3K2R w KQkq - 0 1", 3},
		{"7k/8/5K2/6Q1/8/8/8/8 w - - 97 60", 0, "7k/8/5K2/6Q1/8/8/8/8 w - - 0 1", 3},
		{"6k1/5ppp/8/8/8/8/5PPP/R5K1 w - - 99 70", 0, "6k1/5ppp/8/8/8/8/5PPP/R5K1 w - - 0 1", 2},
		{"q7/8/8/8/8/2k5/8/K7 w - - 98 80", 0, "q7/8/8/8/8/2k5/8/K7 w - - 0 1", 2},
	}
	n := 0
	run := func(e *engine.Engine, f string, d uint) (string, bool) {
		a, _, ok := analyse(ctx, e, f, nil, d)
		if !ok || len(a.lines) == 0 {
			return "", false
		}
		// depth:nodes:score:pv - the score is the third field
		parts := strings.Split(a.lines[len(a.lines)-1], ":")
		if len(parts) < 3 {
			return "", false
		}
		return parts[2], true
	}
	for _, s := range scs {
		for _, minDepth := range []bool{false, true} {
			mk := func(hash uint) *engine.Engine {
				root := search.AlphaBeta{Eval: search.Leaf{Eval: eval.Material{}}}
				opts := []engine.Option{engine.WithOptions(engine.Options{Hash: hash})}
				if minDepth {
					opts = append(opts, engine.WithTable(search.NewMinDepthTranspositionTable(1)))
				}
				return engine.New(ctx, "morlock", "t", root, opts...)
			}
			with := mk(1)
			with.SetNoise(s.firstNoise)
			_, _ = run(with, s.first, s.depth)
			with.SetNoise(0)
			got, ok1 := run(with, s.second, s.depth)
			want, ok2 := run(mk(0), s.second, s.depth)
			n++
			if ok1 && ok2 && got != want {
				fmt.Printf("IMPLVIOL enginetable first=%q noise=%d second=%q depth=%d :: the first search of the new game returns %s with a hash table, %s without prop=%s key=table-across-games\n", s.first, s.firstNoise, s.second, s.depth, got, want, prop)
			}
		}
	}
	fmt.Printf("COUNT enginetable %d\n", n)
}

// manyNewGamesChecks (C18, C11): however many games an engine has set up before, a new game starts from an
// empty table - the first search of game k returns what a fresh engine returns: score, principal variation
// AND node count. The distance between the two searches of the same position runs to 256 new games because
// generation counters of 6 or 8 bits wrap there.
func manyNewGamesChecks(c *caseCtx, prop string) {
	ctx := context.Background()
	mk := func() *engine.Engine {
		root := search.AlphaBeta{Eval: search.Leaf{Eval: eval.Material{}}}
		return engine.New(ctx, "morlock", "t", root, engine.WithOptions(engine.Options{Hash: 1}))
	}
	last := func(e *engine.Engine, f string, d uint) (string, bool) {
		a, _, ok := analyse(ctx, e, f, nil, d)
		if !ok || len(a.lines) == 0 {
			return "", false
		}
		return a.lines[len(a.lines)-1], true
	}
	n := 0
	for _, target := range []string{
		"r3k2r/p1ppqpb1/bn2pnp1/3PN3/1p2P3/2N2Q1p/PPPBBPPP/R3K2R w KQkq - 0 1",
		"8/2p5/3p4/KP5r/1R3p1k/8/4P1P1/8 w - - 0 1",
	} {
		want, ok := last(mk(), target, 3)
		if !ok {
			continue
		}
		// one engine per distance: a search, then P-1 new games in which that position is not searched
		// (a search of the same position would overwrite what the first one left), then the position again
		for _, p := range []int{1, 2, 3, 4, 5, 8, 16, 32, 64, 128, 256} {
			e := mk()
			if _, ok := last(e, target, 3); !ok {
				continue
			}
			for k := 1; k < p; k++ {
				_ = e.Reset(ctx, fen.Initial)
			}
			n++
			if got, ok := last(e, target, 3); ok && got != want {
				fmt.Printf("IMPLVIOL manygames fen=%q depth=3 games=%d :: an engine that searched this position %d new games ago now reports %s for it, a fresh engine %s (depth:nodes:score:pv) prop=%s key=table-across-games\n", target, p, p, got, want, prop)
				break
			}
		}
	}
	fmt.Printf("COUNT manygames %d\n", n)
}
