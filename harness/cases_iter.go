//go:build verif

package main

import (
	"context"
	"fmt"
	"strings"
	"time"

	"github.com/herohde/morlock/pkg/board"
	"github.com/herohde/morlock/pkg/board/fen"
	"github.com/herohde/morlock/pkg/engine"
	"github.com/herohde/morlock/pkg/engine/uci"
	"github.com/herohde/morlock/pkg/eval"
	"github.com/herohde/morlock/pkg/search"
	"github.com/herohde/morlock/pkg/search/searchctl"
	"github.com/seekerror/stdlib/pkg/lang"
)

func init() { caseGens["C15"] = casesIterative }

func pvinfoTok(pv search.PV) string {
	return fmt.Sprintf("d%d:%d:%s:%s", pv.Depth, pv.Nodes, scoreTok(pv.Score), pvTok(pv.Moves))
}

// C15: the stream an analysis reports (consumer always draining) for a depth limit, with the table
// on and off; halting at random instants of an unbounded analysis.
func casesIterative(c *caseCtx) {
	emitZKeys(c, 0)
	ctx := context.Background()
	mk := func(hash uint) *engine.Engine {
		return engine.New(ctx, "t", "t", search.AlphaBeta{Eval: search.Leaf{Eval: eval.Material{}}}, engine.WithOptions(engine.Options{Hash: hash}), engine.WithTable(smallTable))
	}
	pick := func() string {
		if c.r.Intn(3) == 0 {
			return searchFENs[c.r.Intn(len(searchFENs)-2)]
		}
		if f, ok := randomSmallPosition(c); ok {
			return f
		}
		return fen.Initial
	}
	for g := 0; g < c.scale(60, 1500); g++ {
		f := pick()
		hash := uint(c.r.Intn(2))
		limit := 1 + c.r.Intn(c.scale(4, 5))
		e := mk(hash)
		if err := e.Reset(ctx, f); err != nil {
			continue
		}
		before := e.Position()
		out, err := e.Analyze(ctx, searchctl.Options{DepthLimit: lang.Some(uint(limit))})
		if err != nil {
			continue
		}
		var toks []string
		lastDepth := 0
		for pv := range out {
			toks = append(toks, pvinfoTok(pv))
			if pv.Depth <= lastDepth {
				fmt.Printf("IMPLVIOL iter %s limit=%d :: depths reported out of order: %d after %d prop=C15 key=order\n", f, limit, pv.Depth, lastDepth)
			}
			lastDepth = pv.Depth
		}
		final, herr := e.Halt(ctx)
		if herr == nil && final.Depth != lastDepth {
			fmt.Printf("IMPLVIOL iter %s limit=%d :: Halt after the end returned depth %d, last reported %d prop=C15 key=halt-final\n", f, limit, final.Depth, lastDepth)
		}
		if e.Position() != before {
			fmt.Printf("IMPLVIOL iter %s :: analysing changed the engine's game: %s -> %s prop=C18 key=analyze-mutates\n", f, before, e.Position())
		}
		pos, turn, np, fm, _ := fen.Decode(f)
		c.emit("iterpv hash=%d %s %d %d %d limit=%d => %s", hash, posTok(pos), turn, np, fm, limit, strings.Join(toks, " | "))
	}

	// halting an unbounded analysis at random instants
	halts, early := 0, 0
	for g := 0; g < c.scale(40, 800); g++ {
		f := pick()
		e := mk(uint(c.r.Intn(2)))
		if err := e.Reset(ctx, f); err != nil {
			continue
		}
		out, err := e.Analyze(ctx, searchctl.Options{})
		if err != nil {
			continue
		}
		// drain concurrently, remembering what was reported before Halt was requested
		type rec struct {
			pv search.PV
			at time.Time
		}
		var seen []rec
		done := make(chan struct{})
		go func() {
			for pv := range out {
				seen = append(seen, rec{pv, time.Now()})
			}
			close(done)
		}()
		delay := time.Duration(c.r.Intn(3000)) * time.Microsecond
		if c.r.Intn(4) == 0 {
			delay = 0
			early++
		}
		time.Sleep(delay)
		req := time.Now()
		pv, herr := e.Halt(ctx)
		select {
		case <-done:
		case <-time.After(10 * time.Second):
			fmt.Printf("IMPLVIOL halt %s :: the PV channel was not closed after Halt prop=C15 key=not-closed\n", f)
		}
		halts++
		if herr != nil {
			fmt.Printf("IMPLVIOL halt %s :: Halt failed: %v prop=C15 key=halt-error\n", f, herr)
			continue
		}
		if pv.Depth < 1 {
			fmt.Printf("IMPLVIOL halt %s delay=%v :: Halt returned before depth 1 was complete (depth %d) prop=C15 key=before-depth1\n", f, delay, pv.Depth)
			continue
		}
		for _, r := range seen {
			if r.at.Before(req) && r.pv.Depth > pv.Depth {
				fmt.Printf("IMPLVIOL halt %s :: Halt returned depth %d although depth %d had been reported before the halt prop=C15 key=shallower\n", f, pv.Depth, r.pv.Depth)
			}
		}
		// the returned iteration is a fully completed one: equal to the direct search at that depth (table off)
		pos, turn, np, fm, _ := fen.Decode(f)
		b := board.NewBoard(board.NewZobristTable(0), pos, turn, np, fm)
		_, sc, _, _ := search.AlphaBeta{Eval: search.Leaf{Eval: eval.Material{}}}.Search(ctx, &search.Context{TT: search.NoTranspositionTable{}}, b, pv.Depth)
		le := func(a, b eval.Score) bool { return !b.Less(a) }
		if !(le(sc, pv.Score) && le(pv.Score, sc)) {
			fmt.Printf("IMPLVIOL halt %s :: Halt returned score %s for depth %d, the direct search gives %s prop=C15 key=not-completed\n", f, scoreTok(pv.Score), pv.Depth, scoreTok(sc))
		}
	}
	fmt.Printf("halts=%d immediate=%d\n", halts, early)
	haltTerminalRoots("C15")

	// unbounded analyses that must end by themselves: forced mates, seen by a quiescence that looks beyond
	// the horizon (TUROCHAMP's considerable moves include mating moves), so that a mate score can appear
	// at a depth smaller than its distance
	mateFENs := []string{"4k3/8/R7/1R6/8/8/8/K7 w - - 0 1", "7k/8/5K2/8/8/8/8/R7 w - - 0 1", "7k/8/5K2/6Q1/8/8/8/8 w - - 0 1", "k7/2K5/8/8/8/8/8/1R6 w - - 0 1", "6k1/5ppp/8/8/8/8/8/R3K3 w Q - 0 1"}
	for _, f := range mateFENs {
		for _, name := range []string{"turochamp", "morlock"} {
			e, _ := bundledEngine(ctx, name, 0, 0, 0, false, 1)
			if err := e.Reset(ctx, f); err != nil {
				continue
			}
			out, err := e.Analyze(ctx, searchctl.Options{DepthLimit: lang.Some(uint(8))})
			if err != nil {
				continue
			}
			var last search.PV
			n := 0
			for pv := range out {
				// an iteration that is not the last one must not already carry a mate within its depth
				if n > 0 {
					if md, ok := last.Score.MateDistance(); ok && int(md) <= last.Depth {
						fmt.Printf("IMPLVIOL itermate %s %s :: analysis continued after depth %d although it had a forced mate in %d prop=C15 key=continued-after-mate\n", name, f, last.Depth, md)
					}
				}
				last = pv
				n++
			}
			_, _ = e.Halt(ctx)
			if md, ok := last.Score.MateDistance(); ok {
				if int(md) > last.Depth && last.Depth < 8 {
					fmt.Printf("IMPLVIOL itermate %s %s :: analysis ended by itself at depth %d with a mate in %d plies, which is not within the searched depth prop=C15 key=ended-before-mate-depth\n", name, f, last.Depth, md)
				}
			} else if last.Depth < 8 {
				fmt.Printf("IMPLVIOL itermate %s %s :: analysis ended at depth %d without a forced mate and below the limit prop=C15 key=ended-early\n", name, f, last.Depth)
			}
		}
	}
	fmt.Printf("COUNT matestop %d\n", 2*len(mateFENs))

	// the hard limit through the real driver: whatever else the go line carries (increments, a long
	// movestogo), an unbounded search must be answered before the clock of the side to move runs out
	type clk struct {
		line  string
		moves string
		left  time.Duration
	}
	clocks := []clk{
		{"go wtime 1000 btime 1000 winc 30000 binc 30000 movestogo 4", "", time.Second},
		{"go wtime 1000 btime 1000 winc 30000 binc 30000 movestogo 4", " moves e2e4", time.Second},
		{"go wtime 800 btime 60000 winc 20000 binc 0 movestogo 1", "", 800 * time.Millisecond},
		{"go wtime 60000 btime 700 winc 0 binc 60000", " moves e2e4", 700 * time.Millisecond},
		{"go wtime 900 btime 900 movestogo 1", "", 900 * time.Millisecond},
		{"go wtime 2000 btime 2000 movestogo 1", " moves e2e4 e7e5 g1f3 b8c6", 2 * time.Second}, // score swings between depths (Nxe5)
		{"go wtime 1500 btime 1500 movestogo 2", " moves e2e4 e7e5 g1f3 b8c6", 1500 * time.Millisecond},
	}
	nclk := 0
	for _, ck := range clocks {
		e, opts := bundledEngine(ctx, "morlock", 0, 0, 0, false, 1)
		in := make(chan string, 4)
		_, out := uci.NewDriver(ctx, e, in, opts...)
		in <- "position startpos" + ck.moves
		in <- "isready"
		for l := range out {
			if l == "readyok" {
				break
			}
		}
		t0 := time.Now()
		in <- ck.line
		answered := false
		deadline := time.After(ck.left + 1500*time.Millisecond)
	waitb:
		for {
			select {
			case l, ok := <-out:
				if !ok {
					break waitb
				}
				if strings.HasPrefix(l, "bestmove") {
					answered = true
					break waitb
				}
			case <-deadline:
				break waitb
			}
		}
		el := time.Since(t0)
		nclk++
		// generous slack for a loaded machine: the answer is due at the hard limit, well before the flag
		if !answered || el > ck.left+250*time.Millisecond {
			fmt.Printf("IMPLVIOL uciclock position startpos%s; %s :: no bestmove within the %v left on the clock of the side to move (waited %v) prop=C15 key=past-the-clock\n", ck.moves, ck.line, ck.left, el.Round(time.Millisecond))
		}
		close(in)
	}
	fmt.Printf("COUNT uciclock %d\n", nclk)

	// `go depth 0` asks for no depth limit, whatever the engine's default depth option says: no answer
	// before stop, one after it; `go depth 1` / `go depth 3` end by themselves at that depth
	for _, deflt := range []uint{0, 2} {
		e := engine.New(ctx, "t", "t", search.AlphaBeta{Eval: search.Leaf{Eval: eval.Material{}}}, engine.WithOptions(engine.Options{Depth: deflt}))
		in := make(chan string, 4)
		_, out := uci.NewDriver(ctx, e, in)
		lines := make(chan string, 1000)
		go func() {
			for l := range out {
				lines <- l
			}
			close(lines)
		}()
		waitBest := func(d time.Duration) (bool, int) {
			deadline := time.After(d)
			maxDepth := 0
			for {
				select {
				case l, ok := <-lines:
					if !ok {
						return false, maxDepth
					}
					if strings.HasPrefix(l, "info depth ") {
						var dd int
						fmt.Sscanf(l, "info depth %d", &dd)
						if dd > maxDepth {
							maxDepth = dd
						}
					}
					if strings.HasPrefix(l, "bestmove") {
						return true, maxDepth
					}
				case <-deadline:
					return false, maxDepth
				}
			}
		}
		in <- "position startpos"
		in <- "go depth 0"
		if got, _ := waitBest(400 * time.Millisecond); got {
			fmt.Printf("IMPLVIOL ucidepth default=%d :: `go depth 0` (no depth limit) was answered without stop prop=C15 key=depth0-ends\n", deflt)
		} else {
			in <- "stop"
			if got, _ := waitBest(10 * time.Second); !got {
				fmt.Printf("IMPLVIOL ucidepth default=%d :: `go depth 0` + stop was not answered prop=C15 key=depth0-unanswered\n", deflt)
			}
		}
		for _, d := range []int{1, 3} {
			in <- fmt.Sprintf("go depth %d", d)
			got, maxd := waitBest(30 * time.Second)
			if !got || maxd != d {
				fmt.Printf("IMPLVIOL ucidepth default=%d :: `go depth %d` ended=%v at depth %d prop=C15 key=depth-limit\n", deflt, d, got, maxd)
			}
		}
		close(in)
	}
}

// haltTerminalRoots: halting an analysis of a root that has no legal move (stalemate, checkmate) or a
// single one, with and without a depth limit: Halt must return (within a watchdog), whatever the principal
// variations look like, and the engine must be usable afterwards. prop tags the property being checked.
func haltTerminalRoots(prop string) {
	ctx := context.Background()
	n := 0
	for _, f := range []string{"7k/5Q2/6K1/8/8/8/8/8 b - - 0 1", "k7/P7/1K6/8/8/8/8/8 b - - 0 1", "7k/6Q1/6K1/8/8/8/8/8 b - - 0 1", "8/8/8/8/8/5k2/5p2/5K2 w - - 0 1", fen.Initial} {
		for _, name := range []string{"morlock", "turochamp"} {
			for _, wait := range []time.Duration{0, 20 * time.Millisecond} {
				e, _ := bundledEngine(ctx, name, 0, 0, 0, false, 1)
				if err := e.Reset(ctx, f); err != nil {
					continue
				}
				before := e.Position()
				out, err := e.Analyze(ctx, searchctl.Options{})
				if err != nil {
					continue
				}
				go func() {
					for range out {
					}
				}()
				time.Sleep(wait)
				done := make(chan struct{})
				go func() {
					_, _ = e.Halt(ctx)
					close(done)
				}()
				n++
				select {
				case <-done:
					if after := e.Position(); after != before {
						fmt.Printf("IMPLVIOL halt %s %s :: the engine game changed across analyse + halt: %s prop=%s key=halt-changes-game\n", name, f, after, prop)
					}
				case <-time.After(5 * time.Second):
					fmt.Printf("IMPLVIOL halt %s %s wait=%v :: Halt did not return within 5s for an analysis without depth limit prop=%s key=halt-hangs\n", name, f, wait, prop)
				}
			}
		}
	}
	fmt.Printf("COUNT halt-terminal-roots %d\n", n)
}
