//go:build verif

package main

import (
	"bufio"
	"fmt"
	"math/rand"
	"os"
	"strconv"
)

// caseCtx carries the output stream and the single PRNG every random choice derives from.
type caseCtx struct {
	w    *bufio.Writer
	r    *rand.Rand
	tier string
	n    int
	prop string
}

func (c *caseCtx) emit(format string, args ...interface{}) {
	fmt.Fprintf(c.w, format, args...)
	c.w.WriteByte('\n')
	c.n++
}

func (c *caseCtx) thorough() bool { return c.tier == "thorough" }

// scale returns q for the quick tier and t for the thorough tier. Counts (t > 50) of the thorough tier
// are capped at VERIF_THOROUGH_X times the quick count (default 8, so that the thorough pass over all
// properties ends within about two hours on 16 cores); VERIF_THOROUGH_X=0 removes the cap.
func (c *caseCtx) scale(q, t int) int {
	if !c.thorough() {
		return q
	}
	if t > 50 && thoroughX > 0 && q*thoroughX < t {
		return q * thoroughX
	}
	return t
}

var thoroughX = func() int {
	if v, err := strconv.Atoi(os.Getenv("VERIF_THOROUGH_X")); err == nil && v >= 0 {
		return v
	}
	return 8
}()

var caseGens = map[string]func(*caseCtx){}

func runCases(args []string) {
	if len(args) != 4 {
		fmt.Fprintln(os.Stderr, "usage: vharness cases <prop> <seed> <tier> <out>")
		os.Exit(2)
	}
	prop, tier, out := args[0], args[2], args[3]
	seed, err := strconv.ParseInt(args[1], 10, 64)
	if err != nil {
		panic(err)
	}
	gen, ok := caseGens[prop]
	if !ok {
		fmt.Fprintln(os.Stderr, "no case generator for", prop)
		os.Exit(2)
	}
	f, err := os.Create(out)
	if err != nil {
		panic(err)
	}
	defer f.Close()
	c := &caseCtx{w: bufio.NewWriterSize(f, 1<<20), r: rand.New(rand.NewSource(seed)), tier: tier, prop: prop}
	fmt.Fprintf(c.w, "# prop=%s seed=%d tier=%s\n", prop, seed, tier)
	gen(c)
	c.w.Flush()
	fmt.Printf("cases=%d\n", c.n)
}
