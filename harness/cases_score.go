//go:build verif

package main

import (
	"fmt"
	"math"

	"github.com/herohde/morlock/pkg/eval"
)

func init() { caseGens["C09"] = casesScore }

func sstr(s eval.Score) string {
	return fmt.Sprintf("%d %d %d", int(s.Type), int(s.Mate), math.Float32bits(float32(s.Pawns)))
}

func b01(b bool) string {
	if b {
		return "1"
	}
	return "0"
}

// randScore draws a constructor-built score: mostly valid, mates concentrated near 0 and near the
// int8 boundary, floats from random bit patterns, small integers/quarters and special values.
func randScore(c *caseCtx) eval.Score {
	switch c.r.Intn(12) {
	case 0:
		return eval.InfScore
	case 1:
		return eval.NegInfScore
	case 2, 3, 4:
		k := c.r.Intn(12) - 6
		if c.r.Intn(4) == 0 {
			k = c.r.Intn(256) - 128
		}
		return eval.MateInXScore(int8(k))
	case 5:
		return eval.HeuristicScore(eval.Pawns(math.Float32frombits(c.r.Uint32())))
	case 6:
		fs := floatSet()
		return eval.HeuristicScore(eval.Pawns(fs[c.r.Intn(len(fs))]))
	case 7:
		if c.r.Intn(50) == 0 {
			return eval.InvalidScore
		}
		return eval.ZeroScore
	default:
		return eval.HeuristicScore(eval.Pawns(float32(c.r.Intn(4001)-2000) / 100))
	}
}

func casesScore(c *caseCtx) {
	// (1) the complete domain of the behaviour tables: every ordered pair.
	all := scoreSet()
	for _, a := range all {
		c.emit("neginv %s => %s", sstr(a), sstr(a.Negate().Negate()))
		for _, b := range all {
			c.emit("less %s %s => %s", sstr(a), sstr(b), b01(a.Less(b)))
			c.emit("negrev %s %s => %s %s", sstr(a), sstr(b), b01(a.Less(b)), b01(b.Negate().Less(a.Negate())))
			c.emit("incmono %s %s => %s %s", sstr(a), sstr(b), b01(a.Less(b)), b01(eval.IncrementMateDistance(a).Less(eval.IncrementMateDistance(b))))
			c.emit("max %s %s => %s", sstr(a), sstr(b), sstr(eval.Max(a, b)))
			c.emit("min %s %s => %s", sstr(a), sstr(b), sstr(eval.Min(a, b)))
		}
	}
	// (1b) the constructors are faithful: a heuristic score carries exactly the value it was built from
	// (every float32 that is not NaN has its place on the line, the infinities included), a mate score its distance
	for _, v := range floatSet() {
		h := eval.HeuristicScore(eval.Pawns(v))
		c.emit("hctor %x => %d %x", math.Float32bits(v), h.Type, math.Float32bits(float32(h.Pawns)))
		lit := eval.Score{Type: eval.Heuristic, Pawns: eval.Pawns(v)}
		c.emit("neglit %x => %s", math.Float32bits(v), sstr(lit.Negate().Negate()))
	}
	// (2) seeded random scores.
	n := c.scale(20000, 400000)
	for i := 0; i < n; i++ {
		a, b := randScore(c), randScore(c)
		if c.r.Intn(10) == 0 && a.Type == eval.Heuristic {
			// neighbours in bit space
			bits := math.Float32bits(float32(a.Pawns))
			b = eval.HeuristicScore(eval.Pawns(math.Float32frombits(bits + uint32(c.r.Intn(3)) - 1)))
		}
		c.emit("less %s %s => %s", sstr(a), sstr(b), b01(a.Less(b)))
		c.emit("negrev %s %s => %s %s", sstr(a), sstr(b), b01(a.Less(b)), b01(b.Negate().Less(a.Negate())))
		c.emit("incmono %s %s => %s %s", sstr(a), sstr(b), b01(a.Less(b)), b01(eval.IncrementMateDistance(a).Less(eval.IncrementMateDistance(b))))
		switch i % 4 {
		case 0:
			c.emit("negate %s => %s", sstr(a), sstr(a.Negate()))
		case 1:
			c.emit("inc %s => %s", sstr(a), sstr(eval.IncrementMateDistance(a)))
		case 2:
			c.emit("max %s %s => %s", sstr(a), sstr(b), sstr(eval.Max(a, b)))
		case 3:
			c.emit("min %s %s => %s", sstr(a), sstr(b), sstr(eval.Min(a, b)))
		}
	}
}
