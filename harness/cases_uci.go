//go:build verif

package main

import (
	"context"
	"fmt"
	"strings"
	"time"

	"github.com/herohde/morlock/pkg/board"
	"github.com/herohde/morlock/pkg/board/fen"
	"github.com/herohde/morlock/pkg/engine"
	"github.com/herohde/morlock/pkg/engine/uci"
	"github.com/herohde/morlock/pkg/eval"
	"github.com/herohde/morlock/pkg/search"
)

func init() {
	caseGens["C04"] = casesUciGo
}

func smallTable(ctx context.Context, size uint64) search.TranspositionTable {
	return search.NewTranspositionTable(ctx, 1024)
}

// uciSession drives the real UCI driver with a real engine and records its output lines.
type uciSession struct {
	e    *engine.Engine
	in   chan string
	out  <-chan string
	open bool
}

func newSession(hash uint, quiet bool) *uciSession {
	ctx := context.Background()
	var s search.Search = search.AlphaBeta{Eval: search.Leaf{Eval: eval.Material{}}}
	if quiet {
		s = search.AlphaBeta{Eval: search.Quiescence{Explore: capturesOnly, Eval: search.Leaf{Eval: eval.Material{}}}}
	}
	e := engine.New(ctx, "t", "t", s, engine.WithOptions(engine.Options{Hash: hash}), engine.WithTable(smallTable))
	in := make(chan string, 10)
	_, out := uci.NewDriver(ctx, e, in)
	return &uciSession{e: e, in: in, out: out, open: true}
}

// collect reads output lines until pred says stop or the timeout passes; ok=false on close/timeout.
func (s *uciSession) collect(timeout time.Duration, stop func(string) bool) ([]string, bool) {
	var lines []string
	deadline := time.After(timeout)
	for {
		select {
		case l, ok := <-s.out:
			if !ok {
				s.open = false
				return lines, false
			}
			lines = append(lines, l)
			if stop(l) {
				return lines, true
			}
		case <-deadline:
			return lines, false
		}
	}
}

func (s *uciSession) ready() bool {
	if !s.open {
		return false
	}
	s.in <- "isready"
	_, ok := s.collect(10*time.Second, func(l string) bool { return l == "readyok" })
	return ok
}

// infoTok condenses an info line to depth:kind:value:pv
func infoTok(l string) string {
	f := strings.Fields(l)
	var depth, kind, val string
	var pv []string
	for i := 0; i < len(f); i++ {
		switch f[i] {
		case "depth":
			depth = f[i+1]
		case "score":
			kind, val = f[i+1], f[i+2]
		case "pv":
			pv = f[i+1:]
			i = len(f)
		}
	}
	p := "-"
	if len(pv) > 0 {
		p = strings.Join(pv, ";")
	}
	return fmt.Sprintf("d%s:%s:%s:%s", depth, kind, val, p)
}

// C04 (sequential part): sessions of position / go depth d commands, each go run to completion;
// the info lines and the bestmove are compared with the end-to-end model and with the specification.
func casesUciGo(c *caseCtx) {
	emitZKeys(c, 0)
	bookChecks(c, "C04")
	engineAnswerChecks(c)
	for g := 0; g < c.scale(30, 600); g++ {
		hash := uint(c.r.Intn(2))
		quiet := c.r.Intn(4) == 0
		s := newSession(hash, quiet)
		if !s.ready() {
			continue
		}
		var lines, obs []string
		send := func(l string) {
			lines = append(lines, codes(l))
			if !s.open {
				obs = append(obs, "EXIT")
				return
			}
			s.in <- l
			if strings.HasPrefix(l, "go ") {
				out, ok := s.collect(60*time.Second, func(x string) bool { return strings.HasPrefix(x, "bestmove") })
				if !ok {
					obs = append(obs, "NOANSWER")
					return
				}
				var toks []string
				seen := map[string]bool{}
				for _, x := range out {
					if strings.HasPrefix(x, "info ") {
						t := infoTok(x)
						if !seen[t] { // the final info is repeated before bestmove
							seen[t] = true
							toks = append(toks, t)
						}
					} else if strings.HasPrefix(x, "bestmove") {
						toks = append(toks, "best:"+strings.Fields(x)[1])
					}
				}
				// nothing more may follow: a second bestmove would be a duplicate answer
				extra, _ := s.collect(30*time.Millisecond, func(x string) bool { return strings.HasPrefix(x, "bestmove") })
				for _, x := range extra {
					if strings.HasPrefix(x, "bestmove") {
						toks = append(toks, "DUPLICATE:"+strings.Fields(x)[1])
					}
				}
				obs = append(obs, "go "+strings.Join(toks, " "))
				return
			}
			if !s.ready() {
				obs = append(obs, "EXIT")
				return
			}
			obs = append(obs, "ok")
		}
		// a short game: position (startpos or small ending), searches at several depths, moves in between
		start := "startpos"
		startFen := fen.Initial
		maxd := 2
		if c.r.Intn(2) == 0 {
			startFen = searchFENs[c.r.Intn(len(searchFENs))]
			if f, ok := randomSmallPosition(c); ok && c.r.Intn(2) == 0 {
				startFen = f
			}
			start = "fen " + startFen
			maxd = c.scale(3, 4)
		}
		pos, turn, _, _, err := fen.Decode(startFen)
		if err != nil {
			continue
		}
		cur := state{pos, turn}
		var moves []string
		for k := 0; k < 2+c.r.Intn(4); k++ {
			l := "position " + start
			if len(moves) > 0 {
				l += " moves " + strings.Join(moves, " ")
			}
			send(l)
			d := 1 + c.r.Intn(maxd)
			send(fmt.Sprintf("go depth %d", d))
			if c.r.Intn(4) == 0 {
				send(fmt.Sprintf("go depth %d", d)) // repeated go on the same position (table hit at the root)
			}
			ms := legalMoves(cur.pos, cur.turn)
			if len(ms) == 0 {
				break
			}
			m := pickMove(c, ms)
			next, _ := cur.pos.Move(m)
			moves = append(moves, uciMove(m))
			cur = state{next, cur.turn.Opponent()}
			if c.r.Intn(6) == 0 {
				send("ucinewgame")
			}
		}
		if s.open {
			close(s.in)
		}
		c.emit("ucigo hash=%d q=%s :: %s => %s", hash, b01(quiet), strings.Join(lines, " "), strings.Join(obs, " | "))
	}
	_ = board.White
}

// engineAnswerChecks: every bundled engine, driven through the real UCI driver, on positions chosen to
// starve selective move policies (every legal move a concession, e.p. the only evasion, mate and
// stalemate): the answer to `go` must be a legal move, and the null move only without a legal move.
func engineAnswerChecks(c *caseCtx) {
	ctx := context.Background()
	fens := append(cramped(c, c.scale(10, 100)), epEvasions(c, c.scale(5, 50))...)
	fens = append(fens, "7k/5Q2/6K1/8/8/8/8/8 b - - 0 1", "7k/6Q1/6K1/8/8/8/8/8 b - - 0 1",
		"1r5k/8/8/8/7p/p3p3/P7/K6N w - - 0 1", "k1bq2r1/8/8/8/8/8/7P/7K w - - 0 1")
	n := 0
	for _, f := range fens {
		// also the colour-mirrored position
		for _, ff := range []string{f, mirrorFEN(f)} {
			pos, turn, _, _, err := fen.Decode(ff)
			if err != nil || pos == nil {
				continue
			}
			legal := map[string]bool{}
			for _, m := range legalMoves(pos, turn) {
				legal[uciMove(m)] = true
			}
			for _, name := range []string{"morlock", "turochamp", "bernstein", "sargon", "bernstein-nolimit"} {
				e, opts := bundledEngine(ctx, name, uint(c.r.Intn(2)), 0, uint(1+c.r.Intn(2)), false, 1)
				in := make(chan string, 4)
				_, out := uci.NewDriver(ctx, e, in, opts...)
				in <- "position fen " + ff
				in <- "go"
				best := ""
				timeout := time.After(60 * time.Second)
			wait:
				for {
					select {
					case l, ok := <-out:
						if !ok {
							break wait
						}
						if strings.HasPrefix(l, "bestmove") {
							fs := strings.Fields(l)
							if len(fs) > 1 {
								best = fs[1]
							}
							break wait
						}
					case <-timeout:
						break wait
					}
				}
				close(in)
				n++
				switch {
				case best == "":
					fmt.Printf("IMPLVIOL uci position fen %s; go :: %s gave no bestmove prop=C04 key=no-answer\n", ff, name)
				case best == "0000" && len(legal) > 0:
					fmt.Printf("IMPLVIOL uci position fen %s; go :: %s answered bestmove 0000 although the position has %d legal moves prop=C04 key=null-move\n", ff, name, len(legal))
				case best != "0000" && !legal[best]:
					fmt.Printf("IMPLVIOL uci position fen %s; go :: %s answered bestmove %s, which is not legal prop=C04 key=illegal\n", ff, name, best)
				}
			}
		}
	}
	fmt.Printf("COUNT special-positions %d\n", n)
}
