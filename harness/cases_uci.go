//go:build verif

package main

import (
	"context"
	"fmt"
	"strings"
	"time"

	"github.com/herohde/morlock/pkg/board"
	"github.com/herohde/morlock/pkg/board/fen"
	"github.com/herohde/morlock/pkg/engine"
	"github.com/herohde/morlock/pkg/engine/uci"
	"github.com/herohde/morlock/pkg/eval"
	"github.com/herohde/morlock/pkg/search"
)

func init() {
	caseGens["C04"] = casesUciGo
}

func smallTable(ctx context.Context, size uint64) search.TranspositionTable {
	return search.NewTranspositionTable(ctx, 1024)
}

// uciSession drives the real UCI driver with a real engine and records its output lines.
type uciSession struct {
	e    *engine.Engine
	in   chan string
	out  <-chan string
	open bool
}

func newSession(hash uint, quiet bool) *uciSession {
	ctx := context.Background()
	var s search.Search = search.AlphaBeta{Eval: search.Leaf{Eval: eval.Material{}}}
	if quiet {
		s = search.AlphaBeta{Eval: search.Quiescence{Explore: capturesOnly, Eval: search.Leaf{Eval: eval.Material{}}}}
	}
	e := engine.New(ctx, "t", "t", s, engine.WithOptions(engine.Options{Hash: hash}), engine.WithTable(smallTable))
	in := make(chan string, 10)
	_, out := uci.NewDriver(ctx, e, in)
	return &uciSession{e: e, in: in, out: out, open: true}
}

// collect reads output lines until pred says stop or the timeout passes; ok=false on close/timeout.
func (s *uciSession) collect(timeout time.Duration, stop func(string) bool) ([]string, bool) {
	var lines []string
	deadline := time.After(timeout)
	for {
		select {
		case l, ok := <-s.out:
			if !ok {
				s.open = false
				return lines, false
			}
			lines = append(lines, l)
			if stop(l) {
				return lines, true
			}
		case <-deadline:
			return lines, false
		}
	}
}

func (s *uciSession) ready() bool {
	if !s.open {
		return false
	}
	s.in <- "isready"
	_, ok := s.collect(10*time.Second, func(l string) bool { return l == "readyok" })
	return ok
}

// infoTok condenses an info line to depth:kind:value:pv
func infoTok(l string) string {
	f := strings.Fields(l)
	var depth, kind, val string
	var pv []string
	for i := 0; i < len(f); i++ {
		switch f[i] {
		case "depth":
			depth = f[i+1]
		case "score":
			kind, val = f[i+1], f[i+2]
		case "pv":
			pv = f[i+1:]
			i = len(f)
		}
	}
	p := "-"
	if len(pv) > 0 {
		p = strings.Join(pv, ";")
	}
	return fmt.Sprintf("d%s:%s:%s:%s", depth, kind, val, p)
}

// C04 (sequential part): sessions of position / go depth d commands, each go run to completion;
// the info lines and the bestmove are compared with the end-to-end model and with the specification.
func casesUciGo(c *caseCtx) {
	emitZKeys(c, 0)
	bookChecks(c, "C04")
	for g := 0; g < c.scale(30, 600); g++ {
		hash := uint(c.r.Intn(2))
		quiet := c.r.Intn(4) == 0
		s := newSession(hash, quiet)
		if !s.ready() {
			continue
		}
		var lines, obs []string
		send := func(l string) {
			lines = append(lines, codes(l))
			if !s.open {
				obs = append(obs, "EXIT")
				return
			}
			s.in <- l
			if strings.HasPrefix(l, "go ") {
				out, ok := s.collect(60*time.Second, func(x string) bool { return strings.HasPrefix(x, "bestmove") })
				if !ok {
					obs = append(obs, "NOANSWER")
					return
				}
				var toks []string
				seen := map[string]bool{}
				for _, x := range out {
					if strings.HasPrefix(x, "info ") {
						t := infoTok(x)
						if !seen[t] { // the final info is repeated before bestmove
							seen[t] = true
							toks = append(toks, t)
						}
					} else if strings.HasPrefix(x, "bestmove") {
						toks = append(toks, "best:"+strings.Fields(x)[1])
					}
				}
				// nothing more may follow: a second bestmove would be a duplicate answer
				extra, _ := s.collect(30*time.Millisecond, func(x string) bool { return strings.HasPrefix(x, "bestmove") })
				for _, x := range extra {
					if strings.HasPrefix(x, "bestmove") {
						toks = append(toks, "DUPLICATE:"+strings.Fields(x)[1])
					}
				}
				obs = append(obs, "go "+strings.Join(toks, " "))
				return
			}
			if !s.ready() {
				obs = append(obs, "EXIT")
				return
			}
			obs = append(obs, "ok")
		}
		// a short game: position (startpos or small ending), searches at several depths, moves in between
		start := "startpos"
		startFen := fen.Initial
		maxd := 2
		if c.r.Intn(2) == 0 {
			startFen = searchFENs[c.r.Intn(len(searchFENs))]
			if f, ok := randomSmallPosition(c); ok && c.r.Intn(2) == 0 {
				startFen = f
			}
			start = "fen " + startFen
			maxd = c.scale(3, 4)
		}
		pos, turn, _, _, err := fen.Decode(startFen)
		if err != nil {
			continue
		}
		cur := state{pos, turn}
		var moves []string
		for k := 0; k < 2+c.r.Intn(4); k++ {
			l := "position " + start
			if len(moves) > 0 {
				l += " moves " + strings.Join(moves, " ")
			}
			send(l)
			d := 1 + c.r.Intn(maxd)
			send(fmt.Sprintf("go depth %d", d))
			if c.r.Intn(4) == 0 {
				send(fmt.Sprintf("go depth %d", d)) // repeated go on the same position (table hit at the root)
			}
			ms := legalMoves(cur.pos, cur.turn)
			if len(ms) == 0 {
				break
			}
			m := pickMove(c, ms)
			next, _ := cur.pos.Move(m)
			moves = append(moves, uciMove(m))
			cur = state{next, cur.turn.Opponent()}
			if c.r.Intn(6) == 0 {
				send("ucinewgame")
			}
		}
		if s.open {
			close(s.in)
		}
		c.emit("ucigo hash=%d q=%s :: %s => %s", hash, b01(quiet), strings.Join(lines, " "), strings.Join(obs, " | "))
	}
	_ = board.White
}
