//go:build verif

package main

import (
	"context"
	"fmt"
	"strings"
	"time"

	"github.com/herohde/morlock/pkg/board"
	"github.com/herohde/morlock/pkg/board/fen"
	"github.com/herohde/morlock/pkg/engine"
	"github.com/herohde/morlock/pkg/engine/uci"
	"github.com/herohde/morlock/pkg/eval"
	"github.com/herohde/morlock/pkg/search"
)

func init() {
	caseGens["C04"] = casesUciGo
}

func smallTable(ctx context.Context, size uint64) search.TranspositionTable {
	return search.NewTranspositionTable(ctx, 1024)
}

// uciSession drives the real UCI driver with a real engine and records its output lines.
type uciSession struct {
	e    *engine.Engine
	in   chan string
	out  <-chan string
	open bool
}

func newSession(hash uint, quiet bool) *uciSession {
	ctx := context.Background()
	var s search.Search = search.AlphaBeta{Eval: search.Leaf{Eval: eval.Material{}}}
	if quiet {
		s = search.AlphaBeta{Eval: search.Quiescence{Explore: capturesOnly, Eval: search.Leaf{Eval: eval.Material{}}}}
	}
	e := engine.New(ctx, "t", "t", s, engine.WithOptions(engine.Options{Hash: hash}), engine.WithTable(smallTable))
	in := make(chan string, 10)
	_, out := uci.NewDriver(ctx, e, in)
	return &uciSession{e: e, in: in, out: out, open: true}
}

// collect reads output lines until pred says stop or the timeout passes; ok=false on close/timeout.
func (s *uciSession) collect(timeout time.Duration, stop func(string) bool) ([]string, bool) {
	var lines []string
	deadline := time.After(timeout)
	for {
		select {
		case l, ok := <-s.out:
			if !ok {
				s.open = false
				return lines, false
			}
			lines = append(lines, l)
			if stop(l) {
				return lines, true
			}
		case <-deadline:
			return lines, false
		}
	}
}

func (s *uciSession) ready() bool {
	if !s.open {
		return false
	}
	s.in <- "isready"
	_, ok := s.collect(10*time.Second, func(l string) bool { return l == "readyok" })
	return ok
}

// infoTok condenses an info line to depth:kind:value:pv
func infoTok(l string) string {
	f := strings.Fields(l)
	var depth, kind, val string
	var pv []string
	for i := 0; i < len(f); i++ {
		switch f[i] {
		case "depth":
			depth = f[i+1]
		case "score":
			kind, val = f[i+1], f[i+2]
		case "pv":
			pv = f[i+1:]
			i = len(f)
		}
	}
	p := "-"
	if len(pv) > 0 {
		p = strings.Join(pv, ";")
	}
	return fmt.Sprintf("d%s:%s:%s:%s", depth, kind, val, p)
}

// C04 (sequential part): sessions of position / go depth d commands, each go run to completion;
// the info lines and the bestmove are compared with the end-to-end model and with the specification.
func casesUciGo(c *caseCtx) {
	emitZKeys(c, 0)
	bookChecks(c, "C04")
	engineAnswerChecks(c)
	caseVariantSessions(c)
	for g := 0; g < c.scale(30, 600); g++ {
		hash := uint(c.r.Intn(2))
		quiet := c.r.Intn(4) == 0
		s := newSession(hash, quiet)
		if !s.ready() {
			continue
		}
		var lines, obs []string
		send := func(l string) {
			lines = append(lines, codes(l))
			if !s.open {
				obs = append(obs, "EXIT")
				return
			}
			s.in <- l
			if strings.HasPrefix(l, "go ") {
				out, ok := s.collect(60*time.Second, func(x string) bool { return strings.HasPrefix(x, "bestmove") })
				if !ok {
					obs = append(obs, "NOANSWER")
					return
				}
				var toks []string
				seen := map[string]bool{}
				for _, x := range out {
					if strings.HasPrefix(x, "info ") {
						t := infoTok(x)
						if !seen[t] { // the final info is repeated before bestmove
							seen[t] = true
							toks = append(toks, t)
						}
					} else if strings.HasPrefix(x, "bestmove") {
						toks = append(toks, "best:"+strings.Fields(x)[1])
					}
				}
				// nothing more may follow: a second bestmove would be a duplicate answer
				extra, _ := s.collect(30*time.Millisecond, func(x string) bool { return strings.HasPrefix(x, "bestmove") })
				for _, x := range extra {
					if strings.HasPrefix(x, "bestmove") {
						toks = append(toks, "DUPLICATE:"+strings.Fields(x)[1])
					}
				}
				obs = append(obs, "go "+strings.Join(toks, " "))
				return
			}
			if !s.ready() {
				obs = append(obs, "EXIT")
				return
			}
			obs = append(obs, "ok")
		}
		// a short game: position (startpos or small ending), searches at several depths, moves in between
		start := "startpos"
		startFen := fen.Initial
		maxd := 2
		if c.r.Intn(2) == 0 {
			startFen = searchFENs[c.r.Intn(len(searchFENs))]
			if f, ok := randomSmallPosition(c); ok && c.r.Intn(2) == 0 {
				startFen = f
			}
			start = "fen " + startFen
			maxd = c.scale(3, 4)
		}
		pos, turn, _, _, err := fen.Decode(startFen)
		if err != nil {
			continue
		}
		cur := state{pos, turn}
		var moves []string
		for k := 0; k < 2+c.r.Intn(4); k++ {
			l := "position " + start
			if len(moves) > 0 {
				l += " moves " + strings.Join(moves, " ")
			}
			send(l)
			d := 1 + c.r.Intn(maxd)
			send(fmt.Sprintf("go depth %d", d))
			if c.r.Intn(4) == 0 {
				send(fmt.Sprintf("go depth %d", d)) // repeated go on the same position (table hit at the root)
			}
			ms := legalMoves(cur.pos, cur.turn)
			if len(ms) == 0 {
				break
			}
			m := pickMove(c, ms)
			next, _ := cur.pos.Move(m)
			moves = append(moves, uciMove(m))
			cur = state{next, cur.turn.Opponent()}
			if c.r.Intn(6) == 0 {
				send("ucinewgame")
			}
		}
		if s.open {
			close(s.in)
		}
		c.emit("ucigo hash=%d q=%s :: %s => %s", hash, b01(quiet), strings.Join(lines, " "), strings.Join(obs, " | "))
	}
	_ = board.White
}

// engineAnswerChecks: every bundled engine, driven through the real UCI driver, on positions chosen to
// starve selective move policies (every legal move a concession, e.p. the only evasion, mate and
// stalemate): the answer to `go` must be a legal move, and the null move only without a legal move.
func engineAnswerChecks(c *caseCtx) {
	ctx := context.Background()
	fens := append(cramped(c, c.scale(10, 100)), epEvasions(c, c.scale(5, 50))...)
	fens = append(fens, "7k/5Q2/6K1/8/8/8/8/8 b - - 0 1", "7k/6Q1/6K1/8/8/8/8/8 b - - 0 1",
		"1r5k/8/8/8/7p/p3p3/P7/K6N w - - 0 1", "k1bq2r1/8/8/8/8/8/7P/7K w - - 0 1")
	n := 0
	for _, f := range fens {
		// also the colour-mirrored position
		for _, ff := range []string{f, mirrorFEN(f)} {
			pos, turn, _, _, err := fen.Decode(ff)
			if err != nil || pos == nil {
				continue
			}
			legal := map[string]bool{}
			for _, m := range legalMoves(pos, turn) {
				legal[uciMove(m)] = true
			}
			for _, name := range []string{"morlock", "turochamp", "bernstein", "sargon", "bernstein-nolimit"} {
				e, opts := bundledEngine(ctx, name, uint(c.r.Intn(2)), 0, uint(1+c.r.Intn(2)), false, 1)
				in := make(chan string, 4)
				_, out := uci.NewDriver(ctx, e, in, opts...)
				in <- "position fen " + ff
				in <- "go"
				best := ""
				timeout := time.After(60 * time.Second)
			wait:
				for {
					select {
					case l, ok := <-out:
						if !ok {
							break wait
						}
						if strings.HasPrefix(l, "bestmove") {
							fs := strings.Fields(l)
							if len(fs) > 1 {
								best = fs[1]
							}
							break wait
						}
					case <-timeout:
						break wait
					}
				}
				close(in)
				n++
				switch {
				case best == "":
					fmt.Printf("IMPLVIOL uci position fen %s; go :: %s gave no bestmove prop=C04 key=no-answer\n", ff, name)
				case best == "0000" && len(legal) > 0:
					fmt.Printf("IMPLVIOL uci position fen %s; go :: %s answered bestmove 0000 although the position has %d legal moves prop=C04 key=null-move\n", ff, name, len(legal))
				case best != "0000" && !legal[best]:
					fmt.Printf("IMPLVIOL uci position fen %s; go :: %s answered bestmove %s, which is not legal prop=C04 key=illegal\n", ff, name, best)
				}
			}
		}
	}
	fmt.Printf("COUNT special-positions %d\n", n)
}

// runUciScript drives a fresh driver over the given lines (each go is waited for) and returns, per go,
// the bestmove and the last reported score token; ok=false if the driver closed or an answer timed out.
func runUciScript(e *engine.Engine, opts []uci.Option, lines []string) (best []string, scores []string, ok bool) {
	ctx := context.Background()
	in := make(chan string, 4)
	_, out := uci.NewDriver(ctx, e, in, opts...)
	defer close(in)
	for _, l := range lines {
		in <- l
		if !strings.HasPrefix(l, "go") {
			continue
		}
		score := "-"
		timeout := time.After(60 * time.Second)
	wait:
		for {
			select {
			case o, open := <-out:
				if !open {
					return best, scores, false
				}
				if strings.HasPrefix(o, "info ") {
					f := strings.Fields(o)
					for i := range f {
						if f[i] == "score" && i+2 < len(f) {
							score = f[i+1] + ":" + f[i+2]
						}
					}
				}
				if strings.HasPrefix(o, "bestmove") {
					f := strings.Fields(o)
					b := "-"
					if len(f) > 1 {
						b = f[1]
					}
					best = append(best, b)
					scores = append(scores, score)
					break wait
				}
			case <-timeout:
				return best, scores, false
			}
		}
	}
	return best, scores, true
}

// caseVariantSessions (C04): a position line that differs from the previous one only in the case of
// letters or in spacing describes another position (piece colours, castling sides): the answer to the
// next go must be legal THERE.
func caseVariantSessions(c *caseCtx) {
	ctx := context.Background()
	type sess struct {
		lines []string
		fens  []string // the position each go is asked in
	}
	ss := []sess{
		{[]string{"position fen 3qk3/8/8/8/8/8/8/3RK3 w - - 0 1", "go depth 2", "position fen 3qk3/8/8/8/8/8/8/3rK3 w - - 0 1", "go depth 2"},
			[]string{"3qk3/8/8/8/8/8/8/3RK3 w - - 0 1", "3qk3/8/8/8/8/8/8/3rK3 w - - 0 1"}},
		{[]string{"position fen r3k2r/8/8/8/8/8/8/R3K2R w Kq - 0 1", "go depth 1", "position fen r3k2r/8/8/8/8/8/8/R3K2R w kQ - 0 1", "go depth 1"},
			[]string{"r3k2r/8/8/8/8/8/8/R3K2R w Kq - 0 1", "r3k2r/8/8/8/8/8/8/R3K2R w kQ - 0 1"}},
		{[]string{"position fen 4k3/8/8/8/8/8/3Q4/4K3 b - - 0 1", "go depth 1", "position fen 4k3/8/8/8/8/8/3q4/4K3 b - - 0 1", "go depth 1"},
			[]string{"4k3/8/8/8/8/8/3Q4/4K3 b - - 0 1", "4k3/8/8/8/8/8/3q4/4K3 b - - 0 1"}},
		{[]string{"position  startpos   moves e2e4", "go depth 1", "position startpos moves e2e4 e7e5", "go depth 1"},
			[]string{"rnbqkbnr/pppppppp/8/8/4P3/8/PPPP1PPP/RNBQKBNR b KQkq e3 0 1", "rnbqkbnr/pppp1ppp/8/4p3/4P3/8/PPPP1PPP/RNBQKBNR w KQkq e6 0 2"}},
	}
	n := 0
	for _, s := range ss {
		for _, name := range []string{"morlock", "turochamp"} {
			e, opts := bundledEngine(ctx, name, uint(n%2), 0, 2, false, 1)
			best, _, ok := runUciScript(e, opts, s.lines)
			n++
			if !ok {
				// a driver that shuts down on a line it cannot read is not a C04 matter as long as it answered before
				continue
			}
			for i, b := range best {
				if i >= len(s.fens) {
					break
				}
				pos, turn, _, _, err := fen.Decode(s.fens[i])
				if err != nil {
					continue
				}
				legal := map[string]bool{}
				for _, m := range legalMoves(pos, turn) {
					legal[uciMove(m)] = true
				}
				if (b == "0000" && len(legal) > 0) || (b != "0000" && !legal[b]) {
					fmt.Printf("IMPLVIOL uci %s :: %s: bestmove %s for go #%d is not legal in the position last set up (%s) prop=C04 key=stale-position\n", strings.Join(s.lines, "; "), name, b, i+1, s.fens[i])
				}
			}
		}
	}
	fmt.Printf("COUNT case-variant-sessions %d\n", n)
}

// uciTableSessions (C11): the same UCI session on an engine with a hash table and on one without gives
// the same scores (history-free continuations, no repetition inside the tree); go lines may carry tokens
// the driver does not know (searchmoves).
func uciTableSessions(c *caseCtx) {
	ctx := context.Background()
	sessions := [][]string{
		{"position startpos moves b1c3", "go searchmoves b7b5 depth 3", "position startpos moves b1c3 g8f6 g1f3 f6g8", "go depth 4"},
		{"position startpos moves e2e4 e7e5", "go depth 3 searchmoves a2a3", "position startpos moves e2e4 e7e5 g1f3", "go depth 3", "position startpos moves e2e4 e7e5 g1f3 b8c6", "go depth 3"},
		{"position fen 6k1/5ppp/4p3/3p4/8/8/P7/3QK3 w - - 0 1", "go searchmoves d1d5 depth 2", "position fen 6k1/5ppp/4p3/3p4/8/8/P7/3QK3 w - - 0 1 moves a2a3 g8f8", "go depth 3"},
	}
	n := 0
	for _, lines := range sessions {
		for _, minDepth := range []bool{false, true} {
			mk := func(hash uint) *engine.Engine {
				root := search.AlphaBeta{Eval: search.Leaf{Eval: eval.Material{}}}
				opts := []engine.Option{engine.WithOptions(engine.Options{Hash: hash})}
				if minDepth {
					opts = append(opts, engine.WithTable(search.NewMinDepthTranspositionTable(1)))
				}
				return engine.New(ctx, "morlock", "t", root, opts...)
			}
			_, with, ok1 := runUciScript(mk(1), nil, lines)
			_, without, ok2 := runUciScript(mk(0), nil, lines)
			n++
			if !ok1 || !ok2 {
				continue
			}
			for i := range with {
				if i < len(without) && with[i] != without[i] {
					fmt.Printf("IMPLVIOL ucitable %s :: go #%d reports score %s with a hash table, %s without prop=C11 key=uci-table\n", strings.Join(lines, "; "), i+1, with[i], without[i])
					break
				}
			}
		}
	}
	fmt.Printf("COUNT uci-table-sessions %d\n", n)
}
