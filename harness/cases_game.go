//go:build verif

package main

import (
	"context"
	"fmt"
	"github.com/herohde/morlock/pkg/engine"
	"github.com/herohde/morlock/pkg/eval"
	"github.com/herohde/morlock/pkg/search"
	"math"
	"os"
	"strings"

	"github.com/herohde/morlock/pkg/board"
	"github.com/herohde/morlock/pkg/board/fen"
)

func init() {
	caseGens["C05"] = casesGame
	caseGens["C07"] = casesGame
	caseGens["C08"] = casesGame
}

func emitZKeys(c *caseCtx, seed int64) *board.ZobristTable {
	zt := board.NewZobristTable(seed)
	pieces, castling, ep, turn := zt.VerifKeys()
	var parts []string
	for col := 0; col < 2; col++ {
		for p := 0; p < 7; p++ {
			for sq := 0; sq < 64; sq++ {
				parts = append(parts, fmt.Sprintf("%x", uint64(pieces[col][p][sq])))
			}
		}
	}
	for i := 0; i < 16; i++ {
		parts = append(parts, fmt.Sprintf("%x", uint64(castling[i])))
	}
	for i := 0; i < 64; i++ {
		parts = append(parts, fmt.Sprintf("%x", uint64(ep[i])))
	}
	for i := 0; i < 2; i++ {
		parts = append(parts, fmt.Sprintf("%x", uint64(turn[i])))
	}
	c.emit("zkeys %d => %s", seed, strings.Join(parts, ","))
	return zt
}

func reasonCode(r board.Reason) int {
	switch r {
	case "":
		return 0
	case board.Checkmate:
		return 1
	case board.Stalemate:
		return 2
	case board.Repetition3:
		return 3
	case board.Repetition5:
		return 4
	case board.NoProgress:
		return 5
	case board.InsufficientMaterial:
		return 6
	default:
		return 7
	}
}

func omove(m board.Move, ok bool) string {
	if !ok {
		return "-"
	}
	return moveTok(m)
}

func boardObs(zt *board.ZobristTable, b *board.Board, ok bool) string {
	last, lok := b.LastMove()
	second, sok := b.SecondToLastMove()
	res := b.Result()
	return fmt.Sprintf("%s %s %d %x %d %d %d %s %s %d %d %s %s %x %x %x %d",
		b01(ok), posTok(b.Position()), b.Turn(), uint64(b.Hash()), b.NoProgress(), b.Ply(), b.FullMoves(),
		b01(b.HasCastled(board.White)), b01(b.HasCastled(board.Black)), res.Outcome, reasonCode(res.Reason),
		omove(last, lok), omove(second, sok), uint64(b.HasMoved(3)), uint64(b.HasMoved(1000)),
		uint64(zt.Hash(b.Position(), b.Turn())), b.VerifRepetitions(b.Hash()))
}

// script builds a bscript line while executing it on real boards.
type script struct {
	zt     *board.ZobristTable
	zseed  int64
	boards []*board.Board
	depth  []int // pushes above creation/fork point, per board
	floor  []int // depth at which the board was last forked: popping below it would mutate history shared with the fork
	sel    int
	ops    []string
	obs    []string
	start  string
	// positions handed out by Board.Position() are values: what they said when obtained they must say for good
	seen map[*board.Position]string
}

func (s *script) remember() {
	if s.seen == nil {
		s.seen = map[*board.Position]string{}
	}
	p := s.cur().Position()
	if _, ok := s.seen[p]; !ok {
		s.seen[p] = posTok(p)
	}
}

func newScript(zt *board.ZobristTable, zseed int64, f string) *script {
	pos, turn, np, fm, err := fen.Decode(f)
	if err != nil || pos == nil {
		panic("bad fen " + f)
	}
	b := board.NewBoard(zt, pos, turn, np, fm)
	s := &script{zt: zt, zseed: zseed, boards: []*board.Board{b}, depth: []int{0}, floor: []int{0}}
	s.start = fmt.Sprintf("%s %d %d %d", posTok(pos), turn, np, fm)
	s.obs = append(s.obs, boardObs(zt, b, true))
	return s
}

func (s *script) cur() *board.Board { return s.boards[s.sel] }

func (s *script) push(m board.Move) bool {
	ok := s.cur().PushMove(m)
	if ok {
		s.depth[s.sel]++
	}
	s.ops = append(s.ops, "push:"+moveTok(m))
	s.obs = append(s.obs, boardObs(s.zt, s.cur(), ok))
	s.remember()
	return ok
}

// replay: take the last move back and play it again - play must continue identically (C08)
func (s *script) replay() {
	b := s.cur()
	m, ok := b.LastMove()
	if !ok || s.depth[s.sel] <= s.floor[s.sel] {
		return
	}
	// everything but the result field must be reproduced; the result too, unless the Draw it showed was only
	// inherited from the parent (the flag is sticky along a line and cleared by a take-back) - it must come
	// back whenever a draw condition holds in the position itself
	obsNoResult := func(x *board.Board) string {
		return fmt.Sprintf("%s %v %x %d %d %d %v %v", posTok(x.Position()), x.Turn(), uint64(x.Hash()), x.Ply(), x.NoProgress(), x.FullMoves(), x.HasCastled(board.White), x.HasCastled(board.Black))
	}
	before := obsNoResult(b)
	wasDraw := b.Result().Outcome == board.Draw
	holds := b.VerifRepetitions(b.Hash()) >= 3 || b.NoProgress() >= 100
	s.pop()
	s.push(m)
	after := obsNoResult(s.cur())
	if wasDraw && holds && s.cur().Result().Outcome != board.Draw {
		after += " result=" + s.cur().Result().String()
		before += " result=draw"
	}
	if after != before {
		fmt.Printf("IMPLVIOL bscript %d %s :: %s :: taking the last move back and playing it again gives [%s], before it was [%s] prop=C08 key=replay-differs\n", s.zseed, s.start, strings.Join(s.ops, " "), after, before)
	}
}

func (s *script) pop() {
	_, ok := s.cur().PopMove()
	if ok {
		s.depth[s.sel]--
	}
	s.ops = append(s.ops, "pop")
	s.obs = append(s.obs, boardObs(s.zt, s.cur(), ok))
}

func (s *script) fork() {
	f := s.cur().Fork()
	s.boards = append(s.boards, f)
	s.floor[s.sel] = s.depth[s.sel]
	s.depth = append(s.depth, 0)
	s.floor = append(s.floor, 0)
	s.sel = len(s.boards) - 1
	s.ops = append(s.ops, "fork")
	s.obs = append(s.obs, boardObs(s.zt, f, true))
}

func (s *script) selectBoard(k int) {
	s.sel = k
	s.ops = append(s.ops, fmt.Sprintf("sel:%d", k))
	s.obs = append(s.obs, boardObs(s.zt, s.cur(), true))
}

func (s *script) adj() {
	s.cur().AdjudicateNoLegalMoves()
	s.ops = append(s.ops, "adj")
	s.obs = append(s.obs, boardObs(s.zt, s.cur(), true))
}

func (s *script) emit(c *caseCtx) {
	s.checkSeen()
	c.emit("bscript %d %s :: %s => %s", s.zseed, s.start, strings.Join(s.ops, " "), strings.Join(s.obs, " | "))
}

func (s *script) checkSeen() {
	n := 0
	for p, tok := range s.seen {
		if now := posTok(p); now != tok && n < 2 {
			n++
			fmt.Printf("IMPLVIOL bscript %d %s :: %s :: a position obtained from Board.Position() changed afterwards: it read %s when obtained and reads %s at the end of the script prop=C02 key=position-mutated\n", s.zseed, s.start, strings.Join(s.ops, " "), tok, now)
		}
	}
}

// playStr plays a move given in coordinate notation, matching it against the pseudo-legal moves the
// way Engine.Move does.
func (s *script) playStr(str string) bool {
	cand, err := board.ParseMove(str)
	if err != nil {
		panic(err)
	}
	b := s.cur()
	for _, m := range b.Position().PseudoLegalMoves(b.Turn()) {
		if cand.Equals(m) {
			return s.push(m)
		}
	}
	fmt.Fprintf(os.Stderr, "script: move %s not found in %v (turn %v)\n", str, b.Position(), b.Turn())
	return false
}

func (s *script) playAll(moves string) {
	for _, m := range strings.Fields(moves) {
		if !s.playStr(m) {
			return
		}
	}
}

func randomScript(c *caseCtx, zt *board.ZobristTable, zseed int64, f string, nops int) *script {
	s := newScript(zt, zseed, f)
	for i := 0; i < nops; i++ {
		b := s.cur()
		moves := legalMoves(b.Position(), b.Turn())
		r := c.r.Intn(100)
		switch {
		case len(moves) == 0:
			if b.Result().Reason != board.Checkmate && b.Result().Reason != board.Stalemate && c.r.Intn(2) == 0 {
				s.adj()
			} else if s.depth[s.sel] > s.floor[s.sel] {
				s.pop()
			} else {
				return s
			}
		case r < 60:
			s.push(pickMove(c, moves))
		case r < 65:
			// a pseudo-legal move that may be illegal
			ps := b.Position().PseudoLegalMoves(b.Turn())
			s.push(ps[c.r.Intn(len(ps))])
		case r < 85:
			if s.depth[s.sel] > s.floor[s.sel] {
				s.pop()
			} else {
				s.push(pickMove(c, moves))
			}
		case r < 87:
			// read-only queries must not change what the board reports later (nothing to observe here)
			_ = b.Position().IsChecked(b.Turn())
			_ = b.Position().IsChecked(b.Turn().Opponent())
			_ = b.Position().IsCheckMate(b.Turn())
		case r < 89:
			s.replay()
		case r < 93:
			if len(s.boards) < 4 {
				s.fork()
			}
		default:
			if len(s.boards) > 1 {
				s.selectBoard(c.r.Intn(len(s.boards)))
			}
		}
	}
	return s
}

var shuffleStarts = []string{
	fen.Initial,
	"rnbqkbnr/pppppppp/8/8/8/8/PPPPPPPP/RNBQKBNR w KQkq - 92 60",
	"r3k2r/pppq1ppp/2npbn2/2b1p3/2B1P3/2NPBN2/PPPQ1PPP/R3K2R w KQkq - 4 8",
	"4k3/8/8/8/8/8/8/R3K2R w KQ - 10 20",
	"4k3/8/8/8/8/8/8/R3K2R w KQ - 97 70",
}

// drawScripts: repetition by knight/rook shuffles (from the start, after a capture, around castling),
// fifty-move clocks, insufficient material by capture / under-promotion on both square colours.
func drawScripts(c *caseCtx, zt *board.ZobristTable, zseed int64) {
	// threefold and fivefold from the start position (start position included in the count)
	s := newScript(zt, zseed, fen.Initial)
	s.playAll("g1f3 g8f6 f3g1 f6g8 g1f3 g8f6 f3g1 f6g8 g1f3 g8f6 f3g1 f6g8 g1f3 g8f6 f3g1 f6g8 g1f3 g8f6")
	s.emit(c)
	// the fourth and the sixth occurrence reached again after a take-back (the sticky flag is gone then)
	for _, plies := range []int{12, 13, 16, 20, 24} {
		s = newScript(zt, zseed, fen.Initial)
		cyc := strings.Fields("g1f3 g8f6 f3g1 f6g8")
		for k := 0; k < plies; k++ {
			s.playStr(cyc[k%4])
			if k == 3 {
				// a fork taken here is queried (read-only) and dropped
				f := s.cur().Fork()
				_ = f.Position().IsChecked(f.Turn())
				_ = f.Position().IsCheckMate(f.Turn())
			}
		}
		s.replay()
		s.pop()
		s.pop()
		s.playStr(cyc[(plies-2)%4])
		s.playStr(cyc[(plies-1)%4])
		s.replay()
		s.emit(c)
	}
	// repetition right after a capture
	s = newScript(zt, zseed, fen.Initial)
	s.playAll("e2e4 d7d5 e4d5 g8f6 g1f3 f6g8 f3g1 g8f6 g1f3 f6g8 f3g1 g8f6 g1f3")
	s.emit(c)
	// castling in between: rights differ, so positions before/after castling are different
	s = newScript(zt, zseed, "r3k2r/8/8/8/8/8/8/R3K2R w KQkq - 0 1")
	s.playAll("a1b1 a8b8 b1a1 b8a8 a1b1 a8b8 b1a1 b8a8 e1g1 a8b8 g1h1 b8a8 h1g1 a8b8 g1h1 b8a8 h1g1 a8b8 g1h1 b8a8 h1g1")
	s.emit(c)
	// castling does not reset the fifty-move clock
	s = newScript(zt, zseed, "4k3/8/8/8/8/8/8/R3K2R w KQ - 10 20")
	s.playAll("e1g1 e8d8 f1f2")
	s.emit(c)
	s = newScript(zt, zseed, "4k3/8/8/8/8/8/8/R3K2R w KQ - 97 70")
	s.playAll("e1c1 e8e7 d1d2 e7e8")
	s.emit(c)
	// fifty-move rule counting on from the clock given at set-up
	for _, clock := range []int{0, 90, 95, 98, 99, 100, 101, 150, 254, 255, 256, 260, 300, 354, 511, 1000, 65535, 65536, 1 << 31, 1 << 62, math.MaxInt64 - 2, math.MaxInt64 - 1, math.MaxInt64} {
		s = newScript(zt, zseed, fmt.Sprintf("4k3/8/8/8/8/8/8/R3K3 w - - %d 80", clock))
		s.playAll("a1a2 e8d8 a2a3 d8c8 a3b3 c8d8 b3c3 d8e8 c3c4 e8f8 c4c5 f8g8")
		s.emit(c)
	}
	// insufficient material: every pair of bishop squares after a capture, and minor endings
	for i := 0; i < c.scale(40, 600); i++ {
		// white bishop captures a rook, leaving K+B v K+B (two bishops, random squares)
		sqs := c.r.Perm(64)
		wk, bk, wb, bb, br := board.Square(sqs[0]), board.Square(sqs[1]), board.Square(sqs[2]), board.Square(sqs[3]), board.Square(sqs[4])
		pls := []board.Placement{{Square: wk, Color: board.White, Piece: board.King}, {Square: bk, Color: board.Black, Piece: board.King},
			{Square: wb, Color: board.White, Piece: board.Bishop}, {Square: bb, Color: board.Black, Piece: board.Bishop}, {Square: br, Color: board.Black, Piece: board.Rook}}
		if c.r.Intn(3) == 0 {
			pls[3].Color = board.White // KBB v K
		}
		if c.r.Intn(4) == 0 {
			pls[3].Piece = board.Knight
		}
		pos, err := board.NewPosition(pls, 0, 0)
		if err != nil || pos == nil || pos.IsChecked(board.Black) {
			continue
		}
		f := fen.Encode(pos, board.White, 3, 40)
		s = newScript(zt, zseed, f)
		for _, m := range legalMoves(pos, board.White) {
			if m.IsCapture() {
				s.push(m)
				s.pop()
			}
		}
		if len(s.ops) > 0 {
			s.emit(c)
		}
	}
	// under-promotion leaving K+minor v K
	s = newScript(zt, zseed, "8/4P1k1/8/8/8/8/8/4K3 w - - 0 1")
	s.playAll("e7e8n")
	s.pop()
	s.playAll("e7e8b")
	s.pop()
	s.playAll("e7e8r")
	s.pop()
	s.playAll("e7e8q")
	s.emit(c)
	// mate and stalemate adjudication
	for _, f := range []string{"7k/5Q2/6K1/8/8/8/8/8 b - - 0 1", "7k/6Q1/6K1/8/8/8/8/8 b - - 0 1", "k7/8/8/8/8/8/5q2/7K w - - 0 1", "6rk/5Npp/8/8/8/8/8/K7 b - - 0 1"} {
		s = newScript(zt, zseed, f)
		if len(legalMoves(s.cur().Position(), s.cur().Turn())) == 0 {
			s.adj()
		}
		s.emit(c)
	}
	// repetition spanning a fork point: the fork continues the shuffle
	s = newScript(zt, zseed, fen.Initial)
	s.playAll("g1f3 g8f6 f3g1 f6g8 g1f3 g8f6")
	s.fork()
	s.playAll("f3g1 f6g8 g1f3 g8f6 f3g1 f6g8")
	s.selectBoard(0)
	s.playAll("f3g1 f6g8")
	s.selectBoard(1)
	s.emit(c)
}

// engineNewGameChecks: a game set up on a used engine is a new game - what the engine's board reports
// after each move depends on that game alone. The occurrences are counted here from the FENs the engine
// prints (first four fields), from the set-up on.
func engineNewGameChecks(c *caseCtx, prop string) {
	ctx := context.Background()
	n := 0
	for _, start := range []string{fen.Initial, "r3k2r/pppq1ppp/2npbn2/2b1p3/2B1P3/2NPBN2/PPPQ1PPP/R3K2R w KQkq - 4 8", "3k4/8/3K4/8/8/8/8/R7 w - - 0 1"} {
		for variant := 0; variant < 3; variant++ {
			e := engine.New(ctx, "t", "t", search.AlphaBeta{Eval: search.Leaf{Eval: eval.Material{}}})
			if err := e.Reset(ctx, start); err != nil {
				continue
			}
			pos, turn, _, _, _ := fen.Decode(start)
			cyc, ok := shuffleCycle(c, state{pos, turn})
			if !ok {
				if start == "3k4/8/3K4/8/8/8/8/R7 w - - 0 1" {
					cyc = strings.Fields("a1a2 d8c8 a2a1 c8d8")
				} else {
					continue
				}
			}
			for _, m := range cyc {
				_ = e.Move(ctx, m)
			}
			// the new game: the position the engine is at, given as a FEN (verbatim / with fresh clocks / the start again)
			f := e.Position()
			switch variant {
			case 1:
				b := e.Board()
				f = fen.Encode(b.Position(), b.Turn(), 0, 1)
			case 2:
				f = start
			}
			if err := e.Reset(ctx, f); err != nil {
				continue
			}
			key := func(x string) string { return strings.Join(strings.Fields(x)[:4], " ") }
			seen := map[string]int{key(e.Position()): 1}
			n++
			for k := 0; k < 12; k++ {
				if err := e.Move(ctx, cyc[k%4]); err != nil {
					break
				}
				kk := key(e.Position())
				seen[kk]++
				res := e.Board().Result()
				drawn := res.Outcome == board.Draw
				if seen[kk] >= 3 && !drawn {
					fmt.Printf("IMPLVIOL enginegame start=%q newgame=%q moves=%d :: the position has occurred %d times in the new game but the board reports %v prop=%s key=engine-new-game\n", start, f, k+1, seen[kk], res, prop)
					break
				}
				if seen[kk] < 3 && drawn && res.Reason != board.NoProgress && res.Reason != board.InsufficientMaterial {
					fmt.Printf("IMPLVIOL enginegame start=%q newgame=%q moves=%d :: the position has occurred only %d times in the new game but the board reports %v prop=%s key=engine-new-game\n", start, f, k+1, seen[kk], res, prop)
					break
				}
			}
		}
	}
	fmt.Printf("COUNT enginegame %d\n", n)
}

// forkTwinChecks (C08): whatever is done on a fork - read-only queries, moves played and taken back - the
// original goes on reporting exactly what a twin board that was never forked reports.
func forkTwinChecks(c *caseCtx) {
	zt := board.NewZobristTable(0)
	n := 0
	for _, start := range []string{fen.Initial, "r3k2r/pppq1ppp/2npbn2/2b1p3/2B1P3/2NPBN2/PPPQ1PPP/R3K2R w KQkq - 4 8", "3k4/8/3K4/8/8/8/8/R7 w - - 0 1"} {
		pos, turn, np, fm, err := fen.Decode(start)
		if err != nil {
			continue
		}
		cyc, ok := shuffleCycle(c, state{pos, turn})
		if !ok {
			cyc = strings.Fields("a1a2 d8c8 a2a1 c8d8")
		}
		for forkAt := 0; forkAt <= 8; forkAt++ {
			// each board gets a position object of its own (positions are shared by pointer along a history)
			posA, _, _, _, _ := fen.Decode(start)
			posB, _, _, _, _ := fen.Decode(start)
			a := board.NewBoard(zt, posA, turn, np, fm)
			b := board.NewBoard(zt, posB, turn, np, fm)
			play := func(x *board.Board, str string) bool {
				cand, _ := board.ParseMove(str)
				for _, m := range x.Position().PseudoLegalMoves(x.Turn()) {
					if cand.Equals(m) {
						return x.PushMove(m)
					}
				}
				return false
			}
			okAll := true
			for k := 0; k < 12 && okAll; k++ {
				if k == forkAt {
					f := a.Fork()
					_ = f.Position().IsChecked(f.Turn())
					_ = f.Position().IsChecked(f.Turn().Opponent())
					_ = f.Position().IsCheckMate(f.Turn())
					_ = len(f.Position().LegalMoves(f.Turn()))
					if ms := legalMoves(f.Position(), f.Turn()); len(ms) > 0 {
						f.PushMove(ms[c.r.Intn(len(ms))])
						_ = f.Position().IsChecked(f.Turn())
						f.PopMove()
					}
					f.AdjudicateNoLegalMoves()
				}
				okAll = play(a, cyc[k%4]) && play(b, cyc[k%4])
				n++
				if oa, ob := boardObs(zt, a, true), boardObs(zt, b, true); oa != ob {
					fmt.Printf("IMPLVIOL forktwin start=%q forkAt=%d ply=%d :: after work on a fork the original reports [%s], a twin that was never forked [%s] prop=%s key=fork-changes-original\n", start, forkAt, k+1, oa, ob, c.prop)
					okAll = false
				}
				// and the game continued on a fork taken here reports what the twin reports (the fork replaces
				// the original from this ply on in a second run of the same game)
				if k+1 == forkAt+1 && okAll {
					g := a.Fork()
					t := b.Fork()
					_ = t
					for j := k + 1; j < 12; j++ {
						if !play(g, cyc[j%4]) {
							break
						}
						tw := board.NewBoard(zt, posB, turn, np, fm)
						for i := 0; i <= j; i++ {
							play(tw, cyc[i%4])
						}
						og, ot := boardObs(zt, g, true), boardObs(zt, tw, true)
						// the fork does not know the moves before the fork point as its own (LastMove etc. are the same, hasMoved too): compare everything
						if og != ot {
							fmt.Printf("IMPLVIOL forktwin start=%q forkAt=%d ply=%d :: the game continued on a fork reports [%s], the same game on a board of its own [%s] prop=%s key=fork-differs\n", start, k+1, j+1, og, ot, c.prop)
							break
						}
					}
				}
			}
		}
	}
	fmt.Printf("COUNT forktwin %d\n", n)

	// a fork is a value of its own: what it reports (position, hash) does not change when the board it was
	// taken from takes the last move back and plays something else
	for _, start := range []string{fen.Initial, "r3k2r/p1ppqpb1/bn2pnp1/3PN3/1p2P3/2N2Q1p/PPPBBPPP/R3K2R w KQkq - 0 1"} {
		pos, turn, np, fm, _ := fen.Decode(start)
		ms := legalMoves(pos, turn)
		for i := 0; i+1 < len(ms) && i < 12; i++ {
			a := board.NewBoard(zt, pos, turn, np, fm)
			a.PushMove(ms[i])
			f := a.Fork()
			want := posTok(f.Position())
			wantHash := f.Hash()
			a.PopMove()
			a.PushMove(ms[i+1])
			if r := legalMoves(a.Position(), a.Turn()); len(r) > 0 {
				a.PushMove(r[0])
			}
			if got := posTok(f.Position()); got != want || f.Hash() != wantHash || f.Hash() != zt.Hash(f.Position(), f.Turn()) {
				fmt.Printf("IMPLVIOL forkvalue start=%q move=%s then=%s :: after the original took the move back and played another, the fork reads position [%s] hash %x (scratch %x), it read [%s] hash %x prop=%s key=fork-overwritten\n", start, uciMove(ms[i]), uciMove(ms[i+1]), got, uint64(f.Hash()), uint64(zt.Hash(f.Position(), f.Turn())), want, uint64(wantHash), c.prop)
				break
			}
		}
	}

	// a long walk on the board itself (every line to depth 4 played and taken back: about 200 000 positions)
	// between two occurrences of a position: take-backs restore everything, so the third occurrence is a draw
	{
		pos, turn, np, fm, _ := fen.Decode(fen.Initial)
		for _, onFork := range []bool{false, true} {
			a := board.NewBoard(zt, pos, turn, np, fm)
			play := func(x *board.Board, str string) {
				cand, _ := board.ParseMove(str)
				for _, m := range x.Position().PseudoLegalMoves(x.Turn()) {
					if cand.Equals(m) {
						x.PushMove(m)
						return
					}
				}
			}
			for _, m := range strings.Fields("g1f3 g8f6 f3g1 f6g8") {
				play(a, m)
			}
			w := a
			if onFork {
				w = a.Fork()
			}
			play(w, "e2e4")
			var walk func(d int)
			walk = func(d int) {
				if d == 0 {
					return
				}
				for _, m := range w.Position().PseudoLegalMoves(w.Turn()) {
					if w.PushMove(m) {
						walk(d - 1)
						w.PopMove()
					}
				}
			}
			walk(c.scale(4, 4))
			w.PopMove()
			for _, m := range strings.Fields("g1f3 g8f6 f3g1 f6g8") {
				play(w, m)
			}
			if r := w.Result(); r.Outcome != board.Draw {
				fmt.Printf("IMPLVIOL longwalk fork=%v :: after a depth-4 walk played and taken back, the third occurrence of the start position is reported as %v prop=%s key=long-walk\n", onFork, r, c.prop)
			}
		}
	}
}

func casesGame(c *caseCtx) {
	engineNewGameChecks(c, c.prop)
	forkTwinChecks(c)
	seeds := []int64{0, 1, c.r.Int63()}
	for _, zs := range seeds {
		zt := emitZKeys(c, zs)
		drawScripts(c, zt, zs)
		n := c.scale(60, 1500)
		for i := 0; i < n; i++ {
			f := curatedFENs[c.r.Intn(len(curatedFENs))]
			if c.r.Intn(4) == 0 {
				f = shuffleStarts[c.r.Intn(len(shuffleStarts))]
			}
			randomScript(c, zt, zs, f, 30+c.r.Intn(120)).emit(c)
		}
		// shuffle-heavy games: only reversible officer moves, to reach repetitions and high clocks
		for i := 0; i < c.scale(20, 400); i++ {
			s := newScript(zt, zs, shuffleStarts[c.r.Intn(len(shuffleStarts))])
			for k := 0; k < 40+c.r.Intn(200); k++ {
				b := s.cur()
				var quiet []board.Move
				for _, m := range legalMoves(b.Position(), b.Turn()) {
					if m.Type == board.Normal && m.Piece != board.King {
						quiet = append(quiet, m)
					}
				}
				if len(quiet) == 0 {
					break
				}
				// prefer undoing the move made two plies ago
				var pick board.Move
				if m2, ok := b.SecondToLastMove(); ok && c.r.Intn(3) != 0 {
					for _, m := range quiet {
						if m.From == m2.To && m.To == m2.From {
							pick = m
						}
					}
				}
				if pick.Type == 0 {
					pick = quiet[c.r.Intn(len(quiet))]
				}
				s.push(pick)
			}
			s.emit(c)
		}
	}
}
