//go:build verif

package main

import (
	"bufio"
	"context"
	"fmt"
	"os"
	"os/exec"
	"strings"
	"sync"
	"time"

	"github.com/herohde/morlock/pkg/board/fen"
	"github.com/herohde/morlock/pkg/engine/uci"
)

// hostileScripts: well-formed command lines with values at and beyond the ends of their ranges -
// clocks of zero, negative or astronomic size, absurd movestogo, option values outside the advertised
// range, depth 0 - and malformed variants. None may crash the driver (C16); every go that is owed an
// answer must get exactly one legal bestmove (C04).
var hostileScripts = [][]string{
	{"position startpos", "go wtime 1000 btime 1000 movestogo 9223372036854775807"},
	{"position startpos", "go wtime 1000 btime 1000 movestogo 4611686018427387904"},
	{"position startpos", "go wtime 1000 btime 1000 movestogo 4611686018427387903"},
	{"position startpos", "go wtime 1000 btime 1000 movestogo -3"},
	{"position startpos", "go wtime 0 btime 0"},
	{"position startpos moves e2e4", "go wtime 60000 btime 0 movestogo 10"},
	{"position startpos", "go wtime -15 btime 3000"},
	{"position startpos", "go wtime 9223372036854775807 btime 1 movestogo 1"},
	{"position startpos", "go wtime 9223372036854 btime 9223372036854"},
	{"position startpos", "go movetime 0"},
	{"position startpos", "go movetime -5"},
	{"position startpos", "go depth 1 movetime 9223372036854775807"},
	{"position startpos", "go depth 0"},
	{"position startpos", "go depth -1 movetime 50"},
	{"setoption name Hash value 17592186044416", "position startpos", "go depth 1"},
	{"setoption name Hash value -1", "position startpos", "go depth 1"},
	{"setoption name Hash value 4294967296", "position startpos", "go depth 1"},
	{"setoption name Hash value 99999999999999999999", "position startpos", "go depth 1"},
	{"setoption name Hash value", "position startpos", "go depth 1"},
	{"setoption name Hash value 1", "position startpos", "go depth 2", "setoption name Hash value 0", "position startpos moves e2e4", "go depth 2"},
	{"setoption name Depth value -1", "position startpos", "go movetime 50"},
	{"setoption name Noise value -1", "position startpos", "go depth 1"},
	{"setoption name Noise value 4294967295", "position startpos", "go depth 1"},
	{"setoption name OwnBook value maybe", "position startpos", "go depth 1"},
	{"setoption", "setoption name", "setoption name Hash", "position startpos", "go depth 1"},
	{"position startpos", "go wtime", "isready"},
}

// runHostileChild drives one script in this process (which may die of a panic in a goroutine of the
// code under test) and prints every bestmove.
func runHostileChild(engineName string, idx int) {
	ctx := context.Background()
	e, opts := bundledEngine(ctx, engineName, 0, 0, 2, false, 1)
	in := make(chan string, 16)
	_, out := uci.NewDriver(ctx, e, in, opts...)
	done := make(chan struct{})
	go func() {
		for l := range out {
			if strings.HasPrefix(l, "bestmove") || l == "readyok" {
				fmt.Println("OUT " + l)
			}
		}
		fmt.Println("OUT closed")
		close(done)
	}()
	for _, l := range hostileScripts[idx] {
		in <- l
		if strings.HasPrefix(l, "go") {
			time.Sleep(400 * time.Millisecond)
			in <- "stop"
			time.Sleep(100 * time.Millisecond)
		}
	}
	in <- "isready"
	time.Sleep(300 * time.Millisecond)
	in <- "quit"
	select {
	case <-done:
	case <-time.After(10 * time.Second):
		fmt.Println("OUT hang")
	}
}

// hostileChecks runs every script against every bundled engine, each in a process of its own.
func hostileChecks(report0 func(prop, key, script, what string)) int {
	n := 0
	var mu sync.Mutex
	report := func(prop, key, script, what string) {
		mu.Lock()
		defer mu.Unlock()
		report0(prop, key, script, what)
	}
	var wg sync.WaitGroup
	sem := make(chan struct{}, 12)
	for idx, script := range hostileScripts {
		idx, script := idx, script
		// the legal moves of the position each go command is asked in, in order
		var legalAt []map[string]bool
		cur := map[string]bool{}
		if b := boardFrom(fen.Initial, nil); b != nil {
			for _, m := range legalMoves(b.Position(), b.Turn()) {
				cur[uciMove(m)] = true
			}
		}
		for _, l := range script {
			f := strings.Fields(l)
			if strings.HasPrefix(l, "position startpos") {
				var moves []string
				if len(f) > 3 {
					moves = f[3:]
				}
				if b := boardFrom(fen.Initial, moves); b != nil {
					cur = map[string]bool{}
					for _, m := range legalMoves(b.Position(), b.Turn()) {
						cur[uciMove(m)] = true
					}
				}
			}
			if len(f) > 0 && f[0] == "go" && !(len(f) == 2 && f[1] == "wtime") {
				legalAt = append(legalAt, cur)
			}
		}
		for _, name := range []string{"morlock", "turochamp", "bernstein", "sargon"} {
			if idx%4 != 0 && name != "morlock" && idx%4 != len(name)%4 && !strings.HasPrefix(script[0], "position fen") {
				continue // every script on morlock, a quarter of them on each of the others
			}
			n++
			name := name
			wg.Add(1)
			sem <- struct{}{}
			go func() {
				defer func() { <-sem; wg.Done() }()
				cmd := exec.Command(os.Args[0], "hostile-child", name, fmt.Sprint(idx))
				var sb, eb strings.Builder
				cmd.Stdout, cmd.Stderr = &sb, &eb
				err := cmd.Start()
				if err != nil {
					return
				}
				waited := make(chan error, 1)
				go func() { waited <- cmd.Wait() }()
				select {
				case err = <-waited:
				case <-time.After(60 * time.Second):
					_ = cmd.Process.Kill()
					err = fmt.Errorf("timeout")
				}
				label := strings.Join(script, "; ")
				stderr := eb.String()
				if i := strings.Index(stderr, "panic:"); i >= 0 {
					line := stderr[i:]
					if j := strings.Index(line, "\n"); j > 0 {
						line = line[:j]
					}
					where := ""
					sc := bufio.NewScanner(strings.NewReader(stderr[i:]))
					for sc.Scan() {
						if t := strings.TrimSpace(sc.Text()); strings.HasPrefix(t, "/") && strings.Contains(t, "/pkg/") {
							where = t
							break
						}
					}
					report("C16", "crash", label, fmt.Sprintf("%s: the process died: %s at %s", name, line, where))
					return
				}
				if err != nil {
					report("C16", "crash", label, fmt.Sprintf("%s: the driver process failed: %v", name, err))
					return
				}
				fenScript := false
				for _, l := range script {
					if strings.HasPrefix(l, "position fen") {
						fenScript = true
					}
				}
				outs := strings.Split(sb.String(), "\n")
				nGo, nBest := 0, 0
				for _, l := range script {
					f := strings.Fields(l)
					if len(f) > 0 && f[0] == "go" && !(len(f) == 2 && f[1] == "wtime") {
						nGo++
					}
				}
				for _, o := range outs {
					if o == "OUT hang" {
						report("C16", "no-shutdown", label, name+": the driver did not close its output after quit")
					}
					if strings.HasPrefix(o, "OUT bestmove") {
						nBest++
						f := strings.Fields(o)
						if len(f) >= 3 && nBest <= len(legalAt) && !fenScript && !legalAt[nBest-1][f[2]] {
							report("C04", "illegal", label, fmt.Sprintf("%s: bestmove %s is not a legal move of the position set up", name, f[2]))
						}
					}
				}
				// a malformed go (missing argument) makes the driver shut down: then nothing is owed
				closedEarly := false
				for _, l := range script {
					if l == "go wtime" {
						closedEarly = true
					}
				}
				if !closedEarly && nBest != nGo {
					report("C04", "count", label, fmt.Sprintf("%s: %d go commands (each followed by stop), %d bestmove lines", name, nGo, nBest))
				}
			}()
		}
	}
	wg.Wait()
	return n
}

// eofChecks: the input ends (no quit) while a search is running that will never end by itself - however it
// was asked for (`go infinite`, `go depth 0`, a depth no search reaches, a bare go): the driver shuts down.
func eofChecks(report func(prop, key, script, what string)) int {
	ctx := context.Background()
	n := 0
	for _, goLine := range []string{"go infinite", "go depth 0", "go depth -1", "go", "go depth 100", "go movetime 60000", "go wtime 600000 btime 600000"} {
		for _, pre := range []string{"", "setoption name Depth value 0"} {
			n++
			e, opts := bundledEngine(ctx, "morlock", 0, 0, 0, false, 1)
			in := make(chan string, 16)
			_, out := uci.NewDriver(ctx, e, in, opts...)
			closed := make(chan struct{})
			go func() {
				for range out {
				}
				close(closed)
			}()
			if pre != "" {
				in <- pre
			}
			in <- "position startpos"
			in <- goLine
			time.Sleep(100 * time.Millisecond)
			close(in)
			select {
			case <-closed:
			case <-time.After(8 * time.Second):
				report("C16", "no-shutdown", pre+"; position startpos; "+goLine+"; [end of input]", "the driver did not close its output after the end of input")
			}
		}
	}
	return n
}

// slowConsumerChecks: the reader of the driver's output pauses (a GUI busy redrawing) while a search
// of a position without legal moves floods the forwarder with iterations; then quit / end of input
// arrives. The driver must still close its output.
func slowConsumerChecks(report func(prop, key, script, what string)) int {
	ctx := context.Background()
	n := 0
	for _, f := range []string{"7k/5Q2/6K1/8/8/8/8/8 b - - 0 1", "k7/P7/1K6/8/8/8/8/8 b - - 0 1"} {
		for _, end := range []string{"quit", "eof"} {
			for _, name := range []string{"morlock", "turochamp"} {
				n++
				e, opts := bundledEngine(ctx, name, 0, 0, 0, false, 1)
				in := make(chan string, 16)
				_, out := uci.NewDriver(ctx, e, in, opts...)
				closed := make(chan struct{})
				pause := make(chan struct{})
				go func() {
					k := 0
					for range out {
						k++
						if k == 40 {
							<-pause // stop reading for a while
						}
					}
					close(closed)
				}()
				in <- "position fen " + f
				in <- "go infinite"
				time.Sleep(300 * time.Millisecond)
				if end == "quit" {
					in <- "quit"
				} else {
					close(in)
				}
				time.Sleep(50 * time.Millisecond)
				close(pause) // reading resumes
				select {
				case <-closed:
				case <-time.After(8 * time.Second):
					report("C16", "no-shutdown", "position fen "+f+"; go infinite; [reader pauses]; "+end, name+": the driver did not close its output after "+end+" (deadlock)")
				}
			}
		}
	}
	return n
}
