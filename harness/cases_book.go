//go:build verif

package main

import (
	"context"
	"fmt"
	"strings"

	"github.com/herohde/morlock/cmd/bernstein/bernstein"
	"github.com/herohde/morlock/cmd/sargon/sargon"
	"github.com/herohde/morlock/pkg/board"
	"github.com/herohde/morlock/pkg/board/fen"
	"github.com/herohde/morlock/pkg/engine"
)

// playLine plays coordinate moves from the start position; returns the FEN (engine style: clock 0,
// move 1 are irrelevant for book keys) after every prefix, or false if a move is illegal.
func playLine(moves []string) ([]state, bool) {
	pos, turn, _, _, _ := fen.Decode(fen.Initial)
	cur := state{pos, turn}
	ret := []state{cur}
	for _, s := range moves {
		found := false
		for _, m := range legalMoves(cur.pos, cur.turn) {
			if uciMove(m) == s {
				next, _ := cur.pos.Move(m)
				cur = state{next, cur.turn.Opponent()}
				ret = append(ret, cur)
				found = true
				break
			}
		}
		if !found {
			return ret, false
		}
	}
	return ret, true
}

// bookChecks: every reply an opening book gives for a position must be legal in that position -
// for the bundled books and for books built with engine.NewBook from generated lines, queried on
// positions reached by play, including transpositions that reach the same placement with a different
// en-passant status or castling rights than the book line.
func bookChecks(c *caseCtx, prop string) {
	ctx := context.Background()
	n, replies := 0, 0
	check := func(name string, book engine.Book, s state) {
		key := fen.Encode(s.pos, s.turn, 0, 1)
		moves, err := book.Find(ctx, key)
		n++
		if err != nil {
			return
		}
		legal := map[string]bool{}
		for _, m := range legalMoves(s.pos, s.turn) {
			legal[uciMove(m)] = true
		}
		for _, m := range moves {
			replies++
			if !legal[uciMove(m)] {
				fmt.Printf("IMPLVIOL book %s position %s :: book reply %s is not legal in the position it is returned for prop=%s key=book-illegal\n", name, key, uciMove(m), prop)
			}
		}
	}
	// lines ending in special moves and games transposing into the same placement
	type pair struct{ line, game string }
	pairs := []pair{
		{"e2e4 a7a6 e4e5 d7d5 e5d6", "e2e3 a7a6 e3e4 d7d6 e4e5 d6d5"},
		{"d2d4 h7h6 d4d5 e7e5 d5e6", "d2d3 h7h6 d3d4 e7e6 d4d5 e6e5"},
		{"a2a3 e7e5 b2b3 e5e4 d2d4 e4d3", "a2a3 e7e6 b2b3 e6e5 d2d3 e5e4 d3d4"},
		{"h2h3 c7c5 g2g3 c5c4 b2b4 c4b3", "h2h3 c7c6 g2g3 c6c5 b2b3 c5c4 b3b4"},
		{"e2e4 e7e5 g1f3 g8f6 f1e2 f8e7 e1g1", "e2e4 e7e5 g1f3 g8f6 f1e2 f8e7 h1g1 h8g8 g1h1 g8h8"},
		{"e2e4 e7e5 g1f3 g8f6 f1e2 f8e7 e1g1 e8g8", "e2e4 e7e5 g1f3 g8f6 f1e2 f8e7 e1g1 h8g8 f1e1 g8h8 e1f1"},
	}
	var lines []engine.Line
	for _, p := range pairs {
		lines = append(lines, engine.Line(strings.Fields(p.line)))
	}
	// random lines from playouts
	var playouts [][]string
	for i := 0; i < c.scale(30, 600); i++ {
		pos, turn, _, _, _ := fen.Decode(fen.Initial)
		cur := state{pos, turn}
		var ms []string
		for k := 0; k < 4+c.r.Intn(8); k++ {
			lm := legalMoves(cur.pos, cur.turn)
			if len(lm) == 0 {
				break
			}
			m := pickMove(c, lm)
			next, _ := cur.pos.Move(m)
			ms = append(ms, uciMove(m))
			cur = state{next, cur.turn.Opponent()}
		}
		playouts = append(playouts, ms)
		if i%2 == 0 {
			lines = append(lines, engine.Line(ms))
		}
	}
	custom, err := engine.NewBook(lines)
	if err != nil {
		fmt.Printf("IMPLVIOL book custom :: NewBook rejected lines of legal moves: %v prop=%s key=book-rejects\n", err, prop)
		return
	}
	books := map[string]engine.Book{"custom": custom, "bernstein": bernstein.NewBook(), "sargon": sargon.NewBook()}
	for name, book := range books {
		for _, p := range pairs {
			for _, txt := range []string{p.line, p.game} {
				sts, _ := playLine(strings.Fields(txt))
				for _, s := range sts {
					check(name, book, s)
				}
			}
		}
		for _, ms := range playouts {
			sts, _ := playLine(ms)
			for _, s := range sts {
				check(name, book, s)
			}
		}
		// every position after one white move (the SARGON book answers all of them)
		pos, turn, _, _, _ := fen.Decode(fen.Initial)
		for _, m := range legalMoves(pos, turn) {
			next, _ := pos.Move(m)
			check(name, book, state{next, board.Black})
		}
	}
	fmt.Printf("bookqueries=%d replies=%d\n", n, replies)
}
