"""Per-property configuration for tools/check.py."""

PROPS = {
    'C09': {
        'coq_targets': ['Properties/C09.vo'],
        'obligation_files': ['Properties/C09.v', 'Impl/ImplScore.v'],
        'cases': ['C09'],
        'level': 'proof',
        'rule': 'obligations = theorems/examples of Properties/C09.v + the Impl_Score tie lemmas (model = behaviour table dumped from the running code over 276 scores, all 76176 ordered pairs for Less). '
                'Cases: every ordered pair of the 276 table scores (exhaustive) plus seeded random constructor-built scores (mates near 0 and near the int8 boundary, random float32 bit patterns, neighbours in bit space); '
                'a case is non-trivial when both operands are valid scores (class less/valid-pair).',
        'explanation': 'Theorems: Less is the lexicographic order of an explicit key (total order, chain of the statement), Negate is an involution that reverses it, IncrementMateDistance preserves it, Max/Min agree with it - for all valid scores, floats as IEEE bit patterns. '
                       'Tie: behaviour tables regenerated from the running code and proved equal to the model; extracted model and key-order specification run against Go on the sampled cases.',
        'assumptions': ['NaN and Mate = 0 are outside the property (not constructible by the evaluators)',
                        'float32 comparison and sign flip are modelled on IEEE-754 bit patterns; agreement with the hardware is exercised by the correspondence, not proved'],
        'trusted_base': [],
        'level_text': 'Proof: Less is shown to be the lexicographic order of an explicit rank key for all valid scores (hence a strict total order with the chain of the statement), Negate an order-reversing involution, IncrementMateDistance order-preserving, Max/Min consistent - floats as IEEE-754 bit patterns, mates as int8 with explicit wrap. The model is proved equal to behaviour tables dumped from the running code (276 scores, all ordered pairs) and run against Go on sampled scores every check.',
        'level_note': 'Trusted: Coq kernel; the model of float32 comparison/sign flip on bit patterns (exercised, not proved, against the hardware); harness printing what the code computed. Int8 boundary (|k|>=127) is refuted in Coq and listed as known finding.',
        'design_ref': 'DESIGN.md section 6, C09',
    },
}

BOARD_IMPL = ['Impl/ImplBoard.v']
WIDEN_THOROUGH = ['C01', 'C02', 'C06', 'C09']
PENDING = 'oracle and correspondence with kernel-checked tie lemmas; property theorems pending (see DESIGN.md section 9)'

def _board(pid, cases, rule, expl, extra_files=(), level='other'):
    return {
        'coq_targets': ['Impl/ImplBoard.vo'] + [f + 'o' for f in extra_files],
        'obligation_files': BOARD_IMPL + list(extra_files),
        'cases': cases,
        'level': level,
        'rule': rule,
        'explanation': expl,
        'assumptions': ['legal position = wf_b of coq/Model/Abs.v (one king per side, no pawn on ranks 1/8, castling right => king and rook at home, consistent e.p. target, side not to move not in check)'],
        'trusted_base': [],
        'level_text': PENDING + '. ' + expl,
        'level_note': 'Trusted: Coq kernel for the Impl_* lemmas (model constants / finite-domain helpers = values dumped from the running code); the extracted specification (coq/Spec) as oracle; the harness.',
    }

PROPS['C01'] = _board('C01', ['C01'],
    'positions: curated set (6 perft positions, castling skeletons, e.p. pins, promotion races, mates), random playouts from them with a 30% bias to special moves, synthetic odd-material positions; a case is non-trivial when the position is legal (wf_b); classes count checks, castling, e.p., promotions, illegal pseudo-legal moves. Perft 2 (quick) / 3 (thorough) against the specification.',
    'Implementation legal-move set (origin, destination, promotion) and per-move metadata compared with the FIDE specification spec_legal of coq/Spec/Chess.v on every generated legal position; model pseudo_legal_moves/pos_move compared with the implementation (multiset of moves with legality flags).')
PROPS['C02'] = _board('C02', ['C02'],
    'every pseudo-legal move of generated positions with the full successor (14 piece words, 4 rotated words, rights, e.p.) and the origin re-dumped; attack/check queries on all 64 squares; 120-ply playouts ending in queries and movegen.',
    'Successor dumped from Go compared word for word with the model pos_move, checked against the representation invariant inv_b (all views agree), against the specification apply_move through the abstraction abs_pos, and for legality of the successor; origin position must be unchanged.')
PROPS['C06'] = _board('C06', ['C06'],
    'structured sweep: every square x every occupancy of each of its four lines (a third of the 128-state lines in the quick tier) with the rest empty, each again with one other square toggled; random occupancies of three densities; pawn boards on random pawn sets; check / checkmate / attacked-square queries on generated positions and on constructed checks by a slider with a free square behind the king on the checking line (back-rank mates, ladder mates under the eight board symmetries, sampled mates and one-escape positions; both sides; count slider-mates).',
    'Rook/Bishop/King/Knight attack boards and pawn capture boards of the implementation compared with the model (table lookup on the dumped tables) and with geometric ray walking (coq/Spec/Chess.v attacks_from); derived queries compared with the specification.')
PROPS['C05'] = _board('C05', ['C05'],
    'board scripts (push / pop / fork / select / adjudicate with every getter observed after every operation) over 3 Zobrist seeds: scripted repetition (from the start position, after a capture, around castling, across a fork), fifty-move clocks 0/90/95/98/99/100 from FEN, insufficient-material endings by capture on random bishop squares and by under-promotion, mate/stalemate adjudication, random scripts and shuffle-heavy games.',
    'Result after every PushMove compared with the game specification coq/Spec/Game.v (occurrences >= 3 / >= 5, half-move clock >= 100 counted on from set-up, insufficient material after capture or under-promotion; never drawn otherwise); adjudication vs in_check.')
PROPS['C07'] = _board('C07', ['C07'],
    'the same board scripts as C05/C08 for Zobrist seeds 0, 1 and a seed derived from VERIF_SEED; after every operation the incremental Board.Hash() is compared with ZobristTable.Hash(position, turn) computed from scratch by the implementation and with the model zhash on the dumped keys.',
    'Incremental hash = scratch hash after every push/pop/fork on the implementation; model zmove/zhash (arbitrary key table) agree with the implementation on the dumped keys.')
PROPS['C08'] = _board('C08', ['C08'],
    'the same board scripts: every getter (position, turn, hash, clock, ply, full moves, castled flags, last / second-to-last move, HasMoved(3), HasMoved(1000), result, repetition count) recorded before each successful push and compared after the matching pop; boards re-selected after operations on their forks / parents must report what they reported last; pops never go below a fork point.',
    'Take-back restores every getter at any nesting depth; forks and parents are isolated above the fork point; fork reports what its parent reports; heap model of coq/Model/Board.v compared with the implementation after every operation.')

PROPS['C06'].update({
    'coq_targets': ['Properties/C06.vo', 'Impl/ImplBoard.vo'],
    'obligation_files': ['Properties/C06.v', 'Lemmas/QueriesLemmas.v', 'Impl/ImplBoard.v'],
    'level': 'proof',
    'level_text': 'Proof: for every occupancy (lifting argument over the rotated bitboards, no enumeration of occupancies), every square and every target bit, Rook/Bishop/Queen attack boards computed by shift-mask-lookup on the tables dumped from the running code equal geometric ray walking (stop at and include the first occupied square); King/Knight tables and pawn capture boards equal their offset definitions; the incrementally xor-maintained rotated words stay in lockstep with the occupancy. The three lookup functions and the derived queries (attacked / check / checkmate) are tied to Go by the structured sweep and compared with the specification on generated positions. Derived queries under the representation invariant: is_attacked / is_checked = the specification s attacked / in_check, checkmate = in check and no legal move (with C01); FindCapture lists exactly the pieces of the colour that geometrically attack the square (find_capture_spec; order within a kind ascending; the reverse pawn-capture trick proved), FindPins reports exactly the (attacker, pinned, target) triples of the definition - first own piece seen from the target along a line, next piece beyond it an enemy queen or slider of the line s kind - and the x-ray word has at most one bit, so the reported attacker is the right one (find_pins_spec, candidate_one_bit).',
    'level_note': 'Trusted: Coq kernel (vm_compute for the 64x256 table sweeps, domain stated in the lemmas); the regenerated tables are values observed from the running code via the verif hook; Go array indexing/shift semantics as modelled in Model/Bits.v and Model/Attacks.v, exercised by the sweep. FindPins/FindCapture are covered by correspondence only so far.',
})

PROPS['C08'].update({
    'coq_targets': ['Properties/C08.vo', 'Impl/ImplBoard.vo'],
    'obligation_files': ['Properties/C08.v', 'Impl/ImplBoard.v', 'Lemmas/BoardHeap4.v'],
    'level': 'proof',
    'level_text': 'Proof on the heap model of the board (nodes shared between a board and its forks exactly as the Go pointers are): push followed by pop restores every getter and the heap itself up to one garbage node; every balanced nest of push/pop/adjudicate is the identity up to the result field and play continues identically; a fork reports what its parent reports, gets the same verdicts for the same moves (common past), and any operation sequence on either board that stays above the fork point leaves the other board s view unchanged (frame theorem). The model is run against Go on operation scripts with every getter observed after every operation.',
    'level_note': 'Hypotheses: wf (established by NewBoard, preserved by every operation - proved) and castle_ok (a side that has castled does not castle again; automatic for games from legal positions, violated only from FENs granting castling rights to a king off its home square - counterexample kept in BoardHeap4). Result is restored as Undecided (property: a not-drawn result). Popping below a fork point is excluded by the statement and by Fork s comment. Trusted: Coq kernel, harness, model of pointer sharing as list indices.',
})

def _search(pid, rule, expl):
    d = _board(pid, [pid], rule, expl)
    d['assumptions'] = ['leaf evaluation eval.Material (exact small integers), exploration FullExploration, quiescence over captures (the model takes exploration and evaluation as parameters)',
                        'container/heap move ordering is modelled step by step (Model/Search.v movelist) and compared through exact PV / node-count equality']
    return d

PROPS['C03'] = _search('C03',
    'searches on 21 curated endings (mates, promotions, e.p., clocks 98/99) and random kings+1..4-men positions, depths 1..3 (quick) / 4 (thorough), static and quiescence leaves, histories with a threefold on the board and inside the tree; a case is non-trivial when the start is a legal position; classes count depths, mate values, quiescence.',
    'Full-window AlphaBeta of the implementation compared (a) with the model search on the model board: halted flag, node count, score, whole PV and number of cancellation polls must be equal; (b) with the reference minimax spec_mm on the specification game (independent of bitboards, ordering, windows): value equal, PV a legal line no longer than the depth whose first move attains the value; board getters before = after.')
PROPS['C13'] = _search('C13',
    'the same positions with random windows a < b drawn from {-inf, +inf, M+-1..5, heuristics -12..12}, depths 1..3(4), and depth 0 (quiescence alone) with and without window.',
    'Returned value r of the implementation checked against the three-case contract of the property w.r.t. the reference value v = spec_mm / spec_qv; model search compared exactly.')
PROPS['C11'] = _search('C11',
    'pairs of runs (no table / table of 32 B .. 1 MB, plain or minimum-depth filtered) of search sequences 1,2,3,3 or d,d,2 sharing one table on history-free positions with clock + depth < 100; every Write is recorded with the position it was made for and a sample of the exact entries is evaluated by the reference minimax.',
    'Score with table = minimax value (= score without table); PV first move optimal; sampled exact entries equal the reference value of their position at their depth; model search with the model table (Model/TT.v) compared exactly, including replacement behaviour.')
PROPS['C12'] = _search('C12',
    'for each position an uncancelled control run, then cancellation at poll index 0,1,2,3,5,8,...,987 of a counting context (every n is a node entry or store guard where the search polls), each followed by a clean search on the same table and compared with a clean search on a fresh table.',
    'Halted run: reports ErrHalted and no score, board getters before = after, no table write after the first cancelled poll; follow-up search on the same table returns what the control returns; model search with the cancellation oracle compared exactly (nodes, polls).')

PROPS['C01'].update({
    'coq_targets': ['Properties/C01.vo', 'Impl/ImplBoard.vo'],
    'obligation_files': ['Properties/C01.v', 'Impl/ImplBoard.v'],
    'level': 'proof',
    'level_text': 'Proof: for every legal position (wf_b) and both colours the set {(from, to, promotion)} of moves accepted by the bit-level generator (pseudo_legal_moves filtered by pos_move, on the tables dumped from the running code) equals the legal-move set of the mailbox FIDE specification - castling incl. attacked-square conditions, en passant incl. discovered checks, four promotions, check evasions - with no duplicates; every move record (kind, moving piece, promotion, captured piece) equals the one the rules determine. Closed under sequences of legal moves by C02. The model is compared with Go on generated positions (multiset of moves + legality flags) and Go is compared with the extracted specification (sets, metadata, perft).',
    'level_note': 'Hypotheses: wf_b p turn and turn in {0,1}. Positions with a castling right but king/rook off the home squares, or an inconsistent e.p. square, are outside the property (not legal positions). Trusted: Coq kernel; model of Go integer/array semantics (Model/Bits.v), exercised by the correspondence; harness.',
})
PROPS['C02'].update({
    'coq_targets': ['Properties/C02.vo', 'Impl/ImplBoard.vo'],
    'obligation_files': ['Properties/C02.v', 'Impl/ImplBoard.v'],
    'level': 'proof',
    'level_text': 'Proof for all nine move types: for every legal position and every pseudo-legal move that pos_move accepts, the abstraction of the successor equals apply_move of the specification (placement incl. rook hop, e.p. pawn removal, promotion; castling rights dropped exactly for king/rook origin or destination home squares; e.p. target iff double step), the representation invariant (all 18 words consistent: per-piece/per-colour sets, occupancy, three rotated words) is preserved, and the successor is again a legal position - hence for all sequences of legal moves (induction). Under the invariant, square lookup and attack queries are functions of the abstract board. Model vs Go: every word of every successor; Go vs specification through abs_pos.',
    'level_note': 'Position moved from is untouched: pos_move is a pure function in the model; on the Go side the harness re-dumps the origin after every move. Trusted: Coq kernel; model of Go shifts/array indexing; harness.',
})

GEN_SEARCH = 'The theorems are about the search function of Model/Search.v itself (the function that is extracted and compared with Go: halted flag, node count, score, whole PV and poll count equal on every case), over any game satisfying explicit representation laws; SearchToy.v discharges the laws for a concrete game, Lemmas/SearchBoardInst*.v for the real heap board (board_* theorems). '
for _pid, _txt, _note in [
    ('C03', 'Proof: for every game tree satisfying the representation laws, every depth with qfuel + depth <= 127, every move order (the heap order is a permutation) and exploration predicate, the full-window search returns the reference minimax value (Go ==), the PV is a legal line no longer than the depth whose first move attains the value, the board is handed back at the same node (a draw claimable on entry still claimable), the root is expanded even when drawn. The reference value is proved equal to the minimax value spec_mm of the FIDE game tree of the specification (mailbox rules, repetition / fifty-move / insufficient-material draws, mate, stalemate) for the engine configuration - material leaf, full exploration, captures-only quiescence (board_search_is_spec_minimax, also with a table under HashValue, for boards carrying a game and for freshly set-up boards): legal moves agree up to a permutation, the fold over children is order-independent up to ==. ', 'Value equality is up to Go == (+0 = -0; Leibniz equality is refuted). Depth bound 127 = int8 mate distance. Side condition: not (depth 0 with quiescence at a root where a draw can be claimed) - depth0_corner, unreachable through iterative deepening. Other leaf evaluations / move policies enter as explicit correspondence hypotheses (b_mm_is_spec_mm). Deep (depth 4-5) failing-input search uses the repository s exhaustive Minimax.'),
    ('C13', 'Proof: the window-agnostic contract Rm a b v r (r == v, or v <= r <= a, or b <= r <= v) for alpha-beta and quiescence for ALL windows incl. mate bounds and collapsed windows; the three-case statement of the property for a < b; quiescence never below stand-pat when a legal move exists and exact on checkmate/stalemate; the adjunction less s (T v) = less v (U s) for the repaired child window and its refutation for the legacy one; board_window_is_spec states the three cases with v = the minimax value of the FIDE game tree of the specification. ', 'Quiescence termination: fuel sufficiency is a hypothesis (qfin); Depth bound 127.'),
    ('C11', 'Proof: under the property s own preconditions (HashValue: the hash identifies the search value - position-determined evaluation, no history draw inside the tree, no collision) and the table law (an entry readable after a write is the written one or was readable before: any size/replacement policy), TTInv (every exact entry is the true value at its depth) is preserved by every run and all search theorems hold with the table as without, for any sequence of searches sharing it. ', 'HashValue is a hypothesis (it is the property s precondition); TTLaw for the concrete table of Model/TT.v is proved (board_tt_law). Exact writes of the implementation are sampled and evaluated by the reference minimax.'),
    ('C12', 'Proof for every cancellation oracle (every poll index): halted exactly when the final poll is cancelled (no score, no PV), board handed back at the same node, table invariant preserved (nothing false is left behind), a search entered after cancellation returns at once and writes nothing; with C11 a following search returns the reference value. ', 'Cancellation oracle monotone. The implementation is cancelled at poll indices 0..987 through a counting context and compared with the model poll by poll.'),
]:
    PROPS[_pid].update({
        'coq_targets': ['Properties/%s.vo' % _pid, 'Impl/ImplBoard.vo', 'Impl/ImplScore.vo'],
        'obligation_files': ['Properties/%s.v' % _pid, 'Lemmas/SearchToy.v', 'Impl/ImplBoard.v', 'Impl/ImplScore.v'],
        'level': 'proof',
        'level_text': _txt + GEN_SEARCH,
        'level_note': _note + ' Trusted: Coq kernel; container/heap, context cancellation and eval.Material as modelled (exercised by exact correspondence); harness.',
    })
PROPS['C03']['obligation_files'] += ['Lemmas/MinimaxRefines.v', 'Lemmas/SearchBoardInst.v']
PROPS['C13']['obligation_files'] += ['Lemmas/MinimaxRefines.v', 'Lemmas/SearchBoardInst.v']

PROPS['C14'] = _board('C14', ['C14'],
    'encode/decode round trips on curated, playout and synthetic positions with clocks up to 2^30, all 16 castling-right subsets x 7 e.p. squares on a skeleton; engine-reported FEN after every Move / TakeBack of random games (30% special moves) from random and initial starts.',
    'fen.Encode / fen.Decode of the implementation compared with the model codec (Model/Fen.v) character by character; decode(encode x) = x and re-encoding canonical strings checked on the implementation; the FEN an engine reports is decoded and compared with the specification game (position, side, half-move clock since last pawn move or capture, full-move number).')
PROPS['C19'] = _board('C19', ['C19'],
    'curated malformed FENs (wrapping digit runs, 9/0 digits, non-ASCII digits and letters, missing/extra/swapped fields, signs and overflow in clocks, tabs) and seeded mutations of valid FENs (delete/insert/replace runes incl. Arabic-Indic and full-width, duplicate rank, 24-40 digit runs, truncate, swap fields); random 3-6 rune move and 2 rune square strings; Engine.Move with every pseudo-legal move string, random coordinate pairs and junk on random positions.',
    'No input crashes (a panic is an observation), none yields a nil position without error, accepted FENs decode to well-formed values whose re-encoding decodes to the same value; ParseMove/ParseSquare compared with the model; Engine.Move accepts exactly the strings denoting a legal move of the specification and rejected input leaves every getter unchanged.')
PROPS['C10'] = _board('C10', ['C10'],
    'the real UCI driver is fed position / ucinewgame lines in GUI form, synchronised by isready: scripted extension, verbatim repetition, shortening, new game, FEN textual-prefix cases, threefold by repeated moves; random games sent as growing move lists with repeats, shortenings and ucinewgame, from startpos and random FENs.',
    'After every line the engine FEN, history length, repetition count of the current position, result and clocks are compared with the model (Model/Engine.v cmd_position) and with the game the line describes, built from the line alone on the specification game (EngineSpec.setup).')

PROPS['C17'] = _board('C17', ['C17'],
    'sequential: random Read/Write/Used sequences on tables of 1..128 slots with few hashes per slot (replacement, refusal, hash mismatch, uint16 wrap of ply/depth); concurrent: 30 (quick) / 600 (thorough) rounds of 2-7 goroutines x 200-1000 operations on 1..128-slot tables with self-describing payloads, run from a harness binary built with -race.',
    'Sequential Read/Write/Used compared with the model table (Model/TT.v) operation by operation; every hit must be a tuple one single earlier store for that hash wrote; fill counter = occupied slots. Concurrent: every hit explained by one (writer, sequence) payload, fraction within [0,1], counter = occupied slots after the join, and the Go race detector must stay silent.')
PROPS['C17'].update({
    'stress': ['C17'],
    'coq_targets': ['Properties/C17.vo', 'Impl/ImplBoard.vo'],
    'obligation_files': ['Properties/C17.v', 'Impl/ImplBoard.v'],
    'level': 'proof',
    'level_text': 'Proof on the micro-step semantics (atomic load / CAS / atomic counter increment) for any number of threads, any programs and any schedule: a hit returns the tuple of one single store for that hash (the j-th output answers the j-th Read); a CAS only replaces an entry of no greater replacement value; used + pending increments = occupied slots always, used = occupied when quiescent, 0 <= used <= slots; no two enabled steps of different threads conflict (Go memory-model definition); nodes immutable; a single thread refines the sequential table the searches use. The plain t.used++ as found is refuted (lost update, race) and repaired by a fix: commit. Sequential model compared with Go operation by operation; concurrent stress under the race detector.',
    'level_note': 'Trusted: Go s sync/atomic and unsafe.Pointer give the sequentially consistent single steps the model has; allocation is private until published by a CAS (alloc_is_private). The engine-level scenario (halted search still unwinding while its successor runs) is exercised under C16/C18.',
    'assumptions': ['table has at least one slot (size >= 32 bytes; smaller sizes shift by a negative amount in NewTranspositionTable and are outside the domain)'],
})

PROPS['C07'].update({
    'coq_targets': ['Properties/C07.vo', 'Impl/ImplBoard.vo'],
    'obligation_files': ['Properties/C07.v', 'Impl/ImplBoard.v'],
    'level': 'proof',
    'level_text': 'Proof for an arbitrary key table (every seed): for every legal position and accepted pseudo-legal move of every type, the incremental update equals the hash of the successor computed from scratch; by induction the hash maintained along any line of legal moves from any legal start equals the scratch hash of the position reached, so two lines reaching the same placement, side, rights and e.p. target carry the same hash (clocks and history do not enter); positions differing in a component collide only if a xor of distinct table keys vanishes. Take-back restores the stored hash of the previous node (C08). Implementation: Board.Hash() compared with ZobristTable.Hash(position, turn) after every push/pop/fork for three seeds, and with the model on the dumped keys.',
    'level_note': 'zt_ok (e.p. keys off ranks 3/6 are zero) is what NewZobristTable guarantees for every seed; math/rand and the 2^-64 collision probability are not modelled. Trusted: Coq kernel, harness.',
})
PROPS['C14'].update({
    'coq_targets': ['Properties/C14.vo', 'Impl/ImplBoard.vo'],
    'obligation_files': ['Properties/C14.v', 'Impl/ImplBoard.v'],
    'level': 'proof',
    'level_text': 'Proof (Leibniz equality): for every position satisfying the representation invariant, both colours and all clocks in [0, 2^63), decode (encode x) = x; decoding a canonical FEN and re-encoding reproduces the string; Atoi/Itoa inverse over int64. The model codec is compared with Go character by character; the FEN an engine reports is the standard FEN of its game (engine_fen_standard: for every engine state refining a specification game the reported string is the encoding of that game s position, side, half-move clock = half-moves since the last pawn move or capture counted on from set-up, full-move number incremented after each Black move - g_clock_since_last, g_fullmove_all); the FEN reported by the implementation after every Move/TakeBack is also decoded and compared with the specification game.',
    'level_note': 'strings.Split/TrimSpace, strconv.Atoi/Itoa, fmt %v and []rune conversion are modelled (Model/Fen.v) and exercised by the correspondence, not proved against the Go library. Trusted: Coq kernel, harness.',
})
PROPS['C19'].update({
    'coq_targets': ['Properties/C19.vo', 'Impl/ImplBoard.vo'],
    'obligation_files': ['Properties/C19.v', 'Impl/ImplBoard.v'],
    'level': 'proof',
    'level_text': 'Proof: the model decoder has an explicit Crash outcome for Go panics and never reaches it, for all strings; every accepted FEN yields a well-formed value (representation invariant, colour w/b, clocks in [0, 2^63)) whose re-encoding decodes to the same value; ParseMove accepts exactly file-rank-file-rank[-promotion] and returns squares < 64; ParseSquare total. The legacy uint8 cursor is refuted with the two strings that crash / yield a nil position. Engine.Move accepts a string iff it denotes a legal move of the specification game (engine_move_iff_legal) and leaves the whole engine state unchanged on rejection (engine_move_rejected_unchanged_any); both are also checked on the implementation with all pseudo-legal, random and junk strings.',
    'level_note': 'unicode.IsDigit/IsLetter beyond ASCII are abstracted: every non-ASCII rune in the board field leads to an error in both Go and the model (argued in Lemmas/FenLemmas, exercised with Arabic-Indic / full-width / astral runes). UTF-8 decoding is Go s. Trusted: Coq kernel, harness (panics are caught by recover and reported as CRASH).',
})

PROPS['C05'].update({
    'coq_targets': ['Properties/C05.vo', 'Impl/ImplBoard.vo'],
    'obligation_files': ['Properties/C05.v', 'Lemmas/GameLemmas8.v', 'Impl/ImplBoard.v'],
    'level': 'proof',
    'level_text': 'Proof for every game played on a board from any legal start position, any set-up clock 0 .. 2^63-1 (the clock saturates there; the refinement relation is board clock = min(specification clock, 2^63-1)) and move number and any key table: after each move, a draw condition of the specification game (current position occurred >= 3 times in the game, start included - five-fold from the fifth; half-move clock >= 100 counted on from set-up; insufficient material after a capture or under-promotion) implies the board reports Draw with the reason of the last applicable rule, and the board reports Draw only if some condition has held in the game; the repetition map counts nodes per hash, every node carries the scratch hash (C07), a potential argument shows no equal position lies beyond the clock window, the exact recount equals the specification occurrences; insufficient material popcount test = K v K / K+minor v K / two bishops on one square colour; adjudication = checkmate iff in check. Forked boards carry the same game (fork_game). The three repaired defects are refuted by computation. Model vs Go on operation scripts; Go vs the specification game after every push.',
    'level_note': 'Set-up conditions are not checked by NewBoard (a clock of 100 or bare kings at set-up are not reported) - the property speaks of "after each move". The Draw flag is sticky along a line (PushMove inherits it) and cleared by PopMove. Trusted: Coq kernel, harness.',
})
PROPS['C10'].update({
    'coq_targets': ['Properties/C10.vo', 'Impl/ImplBoard.vo'],
    'obligation_files': ['Properties/C10.v', 'Impl/ImplBoard.v'],
    'level': 'proof',
    'level_text': 'Proof: for any sequence of ucinewgame / position commands in GUI form (tokens separated by single spaces, valid FEN or startpos, legal moves) the model driver never exits and the engine state refines the specification game built from the LAST position line alone - position, side, half-move clock, full-move number and the whole history chain used for repetition detection; a line extending the previous one at a token boundary has the same effect as setting it up from scratch (setup_extend), verbatim repetition and shortening included. The textual-prefix continuation test as found is refuted. The real UCI driver is run on such command sequences (synchronised by isready) and compared with the model and with the specification after every line.',
    'level_note': 'GUI form is necessary (a bare `position` line followed by a real one exits: gui_form_needed - not valid UCI). `position fen` with fewer than six fields silently means startpos in driver and in setup alike (excluded by GUI form). strings.Split/Fields/HasPrefix are modelled. Trusted: Coq kernel, harness.',
})

PROPS['C15'] = _board('C15', ['C15'],
    'analyses with depth limit 1..4(5) and the table on/off on curated endings and random kings+1..4-men positions, every PV drained from the channel; 40 (quick) / 800 (thorough) unbounded analyses halted after 0-3 ms (a quarter immediately).',
    'Reported stream compared with the model iteration loop (subsequence ending in the same final iteration: the one-slot channel keeps only the latest unread PV) and each reported score with the reference minimax at its depth; analysis ends at the limit or at a forced mate within the depth; Halt returns depth >= 1, a completed iteration (equal to the direct search), at least as deep as everything reported before the halt; Limits compared on a grid (Impl lemma).')
PROPS['C15'].update({
    'coq_targets': ['Properties/C15.vo', 'Impl/ImplBoard.vo', 'Impl/ImplMisc.vo'],
    'obligation_files': ['Properties/C15.v', 'Lemmas/DriverLemmas5.v', 'Lemmas/IterateLemmas.v', 'Lemmas/SearchctlLemmas.v', 'Impl/ImplMisc.v', 'Impl/ImplBoard.v'],
    'level': 'proof',
    'level_text': 'Proof: the iteration loop on the real board model reports depths 1,2,3,... in order, each entry being exactly the direct full-window search at that depth on the threaded board/table, and ends exactly at the depth limit or the first depth with a forced mate within the depth; the hard time limit never exceeds the remaining clock (int64 Duration arithmetic with truncating division) for clocks >= 0 and EVERY moves-to-go value, and the divisor is never zero (limits_divisor_pos; the bound moves-to-go < 2^31 that the theorem used to carry pointed at a genuine crash, repaired by fix 150a1d2). The halting protocol is proved on the driver transition system under every interleaving: Halt returns only after depth 1 has completed (halt_after_depth1), what it returns is a completed iteration (halt_returns_completed) and at least as deep as everything reported before the halt (halt_at_least_reported); it is also checked on the implementation by halting real analyses at random instants. ',
    'level_note': 'A consumer that falls behind misses intermediate depths (one-slot channel, latest wins): the property is read as "what is reported is in increasing order, each equal to the direct search, and the final iteration is always delivered". Wall-clock behaviour of time.AfterFunc and the soft limit is not modelled. Trusted: Coq kernel, harness.',
})
PROPS['C04'] = _board('C04', ['C04'],
    'sequential: 30 (quick) / 600 (thorough) UCI sessions on the real driver (position / go depth d / repeated go / ucinewgame, table on and off, static and quiescence leaves), each go run to completion; concurrent: randomly timed scripts against the four bundled engine configurations (hash/noise/book on and off): go depth, go infinite + stop, movetime, clock, superseding position+go, stale movetime timer, junk lines, quit / end of input while searching - run under the race detector.',
    'Sequential: info lines and bestmove compared with the end-to-end model (UciSeq.go_depth: fork, iterative deepening with the engine table, bestmove = head of the last PV); bestmove legal in the specification game of the last position line, 0000 only without legal moves, exactly one per go. Concurrent: every owed go answered exactly once within a timeout, never twice, answers legal in the current position.')
PROPS['C04'].update({'stress': ['C04']})
PROPS['C04'].update({
    'coq_targets': ['Properties/C04.vo', 'Properties/C16.vo', 'Properties/C15.vo', 'Impl/ImplBoard.vo'],
    'obligation_files': ['Properties/C04.v', 'Lemmas/DriverLemmas.v', 'Lemmas/DriverLemmas4.v', 'Lemmas/DriverLemmas5.v', 'Lemmas/SearchBoardInst.v', 'Lemmas/UciLegal.v', 'Lemmas/UciLegal2.v', 'Lemmas/UciLegal4.v', 'Impl/ImplBoard.v'],
    'level': 'proof',
    'level_text': 'Proof on the driver transition system (Model/Driver.v: command loop, search goroutine, forwarder, movetime timer and hard-limit timer as separately scheduled processes over the active / searches counters, the update channel with sequence numbers and the AsyncCloser handle): in every reachable state of every script under every interleaving each go has at most one bestmove, a bestmove is only ever emitted for a go, and once the system is at rest every go that was not superseded and whose search ended by itself, was stopped, timed out or was answered by the book has exactly one; Halt returns a completed iteration of depth >= 1. Legality / null move, end to end on the sequential UCI model that is compared line by line with the real driver (UciSeq.go_depth: fork, iterative deepening with the engine table, bestmove = head of the last PV): the answer to go depth d is legal in the specification game of the position last set up and is the null move only if that game has no legal move - without table and with a table under HashValue/TTInv (a fresh table satisfies TTInv), also when a draw can be claimed at the root (threefold, clock 100, bare kings), the engine s own game untouched (go_depth_bestmove_legal, _table, _noq); for whole sessions of valid position lines, ucinewgame and go depth d (uci_session_legal_noq). The model is tied to the code by replaying every command/output trace recorded from the real driver (four engine configurations, race build, random timing) through the trace acceptor of the model (Driver.obs_ok) and by the sequential end-to-end model.',
    'level_note': 'The transition system is hand-written from uci.go / engine.go / iterative.go; its tie to the code is the trace acceptor: real traces must be accepted by Driver.obs_ok, and obs_sound proves that the acceptor accepts every trace of the model (so a rejected real trace is behaviour outside the model); in addition two scripts are explored exhaustively (3289 / 7457 states); scheduling fairness and Go channel semantics are modelled, wall-clock timers are nondeterministic events. Legality with a transposition table is proved under HashValue (no hash collision between positions of different value), the precondition of C11; the quiescence versions carry the fuel-sufficiency hypothesis (LeavesUpTo), the static-leaf versions none. The step from the sequential model to the concurrent driver is the transition-system argument (the answer is the last completed iteration of the search that was launched for this go). Trusted: Coq kernel, extraction, harness.',
})
PROPS['C16'] = _board('C16', [],
    'randomly timed command scripts (isready, stop, new position / go / ucinewgame during a search, junk and empty lines, quit and end of input while searching) against the real driver with the four bundled engine configurations, under the race detector; positions alternate the side to move so that an answer computed for a superseded search is recognisably illegal; a driver that closes its output although neither quit nor the end of input was sent is reported at once (driver-exit) and the monitors stop waiting for it.',
    'No panic, no data race, output closed within a timeout after quit / end of input, one readyok per isready, no bestmove that is illegal in the position last set up (stale), no duplicate answers.')
PROPS['C16'].update({'stress': ['C16']})
PROPS['C16'].update({
    'coq_targets': ['Properties/C16.vo', 'Impl/ImplBoard.vo'],
    'obligation_files': ['Properties/C16.v', 'Lemmas/DriverLemmas.v', 'Lemmas/DriverLemmas7.v', 'Lemmas/DriverLemmas8.v', 'Lemmas/DriverTrace.v', 'Lemmas/DriverTrace3.v'],
    'level': 'proof',
    'level_text': 'Proof on the driver transition system, for every script (isready, ucinewgame, position good/bad, go with every option mix, book-answered go, stop, quit, junk, end of input) and every interleaving of loop, search goroutine, forwarder and the two timers: nothing is ever sent on the closed output channel (the only panic path of the loop), the output is closed iff the loop has exited; the search whose updates are accepted is always the latest one, so a superseded search is never answered and no bestmove is emitted between a superseding command and the next go; every isready is answered by readyok in the same loop step; no reachable state is stuck (the loop blocked in Halt always has a way forward, the search goroutine never blocks, forwarders drain); after quit / end of input nothing more is emitted and the exited state can always be reached. The hand-off as found (before the fix: commits) is refuted by three concrete traces (send on closed channel, stale bestmove, stale movetime timer). Whole-trace form (obs_sound): every output trace the transition system can produce up to the exit of the loop is accepted by the executable trace acceptor Driver.obs_ok (declarative semantics obs_ok_iff; count form obs_counts_sound). Tie to the code: the command/output traces recorded from the real driver under the race detector are run through the same extracted acceptor on every check - a rejected trace is behaviour the model cannot produce; liveness, panics, races and output closure are observed directly.',
    'level_note': 'Hand-written transition system (see C04 note). No-deadlock is stated as "not stuck" plus "can finish" - termination under a fair scheduler is not formalised. Data races are outside the model (race detector only). Trusted: Coq kernel, extraction, harness.',
})

PROPS['C18'] = _board('C18', ['C18', 'C15'],
    'for each of the four bundled engine configurations (noise off, no table): random games from the start or curated positions, analysed to depth 1-3: on a fresh engine, twice on one engine, with Zobrist seeds 0/1/99, after unrelated searches and after searching the SAME position with a different history (a reversible 4-ply shuffle appended: same position and hash, other HasMoved / last move / move number), concurrently on three engines, and with noise on twice from the same seed; every analysis also checks that the engine s own game (FEN and all board getters) is unchanged.',
    'Last reported PV (depth, node count, score, moves) must be identical across all runs of the same game state and depth; the engine game must be unchanged by Analyze.')

PROPS['C18'].update({
    'coq_targets': ['Properties/C18.vo', 'Impl/ImplBoard.vo'],
    'obligation_files': ['Properties/C18.v', 'Lemmas/DeterminismLemmas.v', 'Lemmas/DeterminismLemmas3.v', 'Lemmas/DeterminismLemmas4.v', 'Impl/ImplBoard.v'],
    'level': 'proof',
    'level_text': 'Proof on the model search (the Gallina function compared with the Go search node for node on every run): the answer - node count, score, principal variation, halted flag, number of polls - is the same on any two heap boards that carry the same legal game hashed with two arbitrary key tables (zrel: equal in everything but hashes and heap addresses), for any hash-blind move policy and leaf (the engine policies qualify), any cancellation oracle, depth and window, with or without quiescence, hash collisions included (an all-zero key table is an instance); hence it is a function of the hash-free game state: new boards, replayed games and forks of a game are in one class whatever was searched before on the heap (analysis_repeatable). A search on a fork - any table, policy, cancellation - leaves every getter of the engine s own board (of any board whose history does not run through the searched head node) unchanged. Repeating a search on the very board a search handed back is NOT a theorem without the RootFlag hypothesis (returned_board_needs_rootflag; the engine always analyses a fork). Implementation: identical last PV across repeat / seeds / other searches before / other history of the same position / concurrent engines; engine game unchanged by Analyze.',
    'level_note': 'Evaluation noise (math/rand) is not modelled: reproducibility from the seed is differential only. Independence of concurrently running engines is by construction in the model (no shared state) and checked under the race detector for the Go code. The iterative-deepening layer is covered by C15 (iterate_reports: each reported entry is the direct search). Trusted: Coq kernel, harness.',
})

PROPS['C20'] = _board('C20', ['C20'],
    'every curated position as it stands (e.p. targets, castling rights, promotions, mates) and 120 (quick) / 3000 (thorough) short games (0-13 plies, biased to special moves) from the start, curated and random positions, each also set up colour-mirrored with mirrored moves; opening books: bundled books and books built with engine.NewBook from generated lines, queried on all positions of the lines, of transposing games (same placement, different e.p. status / castling rights) and of random playouts.',
    'Evaluations (eval.Material, TUROCHAMP Eval/Material, BERNSTEIN Eval with factors 20 and 0, SARGON Points also after every legal move) must not panic and must be finite; the first five must be equal on the mirrored game; FindPlausibleMoves returns only legal non-under-promotion moves, each once, non-empty when possible; the branch-limited selection picks only those, at most the limit, at least one; SkipUnderPromotions non-starving; IsConsiderableMove total on every legal move; depth-1 searches of the three historical engines do not panic; every book reply legal in the position it is returned for.')

PROPS['C20'].update({
    'coq_targets': ['Properties/C20.vo', 'Impl/ImplBoard.vo'],
    'obligation_files': ['Properties/C20.v', 'Lemmas/EnginesLemmas.v', 'Lemmas/EnginesLemmas2.v', 'Lemmas/EnginesLemmas3.v', 'Lemmas/EnginesLemmas4.v', 'Lemmas/MirrorMobility.v', 'Impl/ImplBoard.v'],
    'level': 'proof',
    'level_text': 'Proof on the model of the three engines (Model/Engines.v, compared with the Go functions on every run: evaluation terms, the ordered plausible-move list and the considerable-move predicate equal on every generated position) for every legal position: generic material within +-567, TUROCHAMP material ratio defined with divisor in [1, 1280], BERNSTEIN evaluation >= 1 with bounded terms, so every division has an integer divisor >= 1 and bounded integer operands (finiteness); generic material, the TUROCHAMP material ratio and the whole BERNSTEIN evaluation (material, control, king defence and mobility: the legal moves of either colour commute with the mirror up to a permutation) are invariant under the colour mirror in every legal position (bernstein_colourblind_full); no-under-promotion, plausible-move (any static-exchange predicate, any limit) and considerable-move filters select only legal moves, each once, within the limit, the two main-search filters at least one when a legal move exists, the considerable predicate is total on legal moves (en passant never reads a NoPiece value); every reply stored by engine.NewBook is legal in a position with its key, the BERNSTEIN book is {start: e2e4}, all 21 SARGON book entries are legal replies in legal positions. Implementation monitors on curated, cramped, queen-star, pin-line and random positions, each also colour-mirrored.',
    'level_note': 'Partial in one respect: the float32 steps after the integer skeleton (conversion, division, Round, Sqrt of a count) are not modelled - finiteness is proved for the integer operands and divisors only; the TUROCHAMP position-play term and the SARGON Points evaluation are covered by monitors only (no panic, finite, colour-blind on mirrored games). The mobility statement over the bare representation invariant is refuted (mirror_mobility_statement_false) and replaced by the one for legal positions. Trusted: Coq kernel, extraction, harness.',
})

for _p in WIDEN_THOROUGH:
    if _p in PROPS:
        PROPS[_p]['widen_tier'] = 'thorough'

# Every listed property is claimed; reasons would go here otherwise.
NOT_APPLICABLE = [
    {'property_id': pid, 'reason': 'check not built yet in this session (work in progress; see DESIGN.md section 9)'}
    for pid in ['C%02d' % i for i in range(1, 21)] if pid not in PROPS
]

HOOK_COMMITS = ['5335fab']

