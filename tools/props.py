"""Per-property configuration for tools/check.py."""

PROPS = {
    'C09': {
        'coq_targets': ['Properties/C09.vo'],
        'obligation_files': ['Properties/C09.v', 'Impl/ImplScore.v'],
        'cases': ['C09'],
        'level': 'proof',
        'rule': 'obligations = theorems/examples of Properties/C09.v + the Impl_Score tie lemmas (model = behaviour table dumped from the running code over 276 scores, all 76176 ordered pairs for Less). '
                'Cases: every ordered pair of the 276 table scores (exhaustive) plus seeded random constructor-built scores (mates near 0 and near the int8 boundary, random float32 bit patterns, neighbours in bit space); '
                'a case is non-trivial when both operands are valid scores (class less/valid-pair).',
        'explanation': 'Theorems: Less is the lexicographic order of an explicit key (total order, chain of the statement), Negate is an involution that reverses it, IncrementMateDistance preserves it, Max/Min agree with it - for all valid scores, floats as IEEE bit patterns. '
                       'Tie: behaviour tables regenerated from the running code and proved equal to the model; extracted model and key-order specification run against Go on the sampled cases.',
        'assumptions': ['NaN and Mate = 0 are outside the property (not constructible by the evaluators)',
                        'float32 comparison and sign flip are modelled on IEEE-754 bit patterns; agreement with the hardware is exercised by the correspondence, not proved'],
        'trusted_base': [],
        'level_text': 'Proof: Less is shown to be the lexicographic order of an explicit rank key for all valid scores (hence a strict total order with the chain of the statement), Negate an order-reversing involution, IncrementMateDistance order-preserving, Max/Min consistent - floats as IEEE-754 bit patterns, mates as int8 with explicit wrap. The model is proved equal to behaviour tables dumped from the running code (276 scores, all ordered pairs) and run against Go on sampled scores every check.',
        'level_note': 'Trusted: Coq kernel; the model of float32 comparison/sign flip on bit patterns (exercised, not proved, against the hardware); harness printing what the code computed. Int8 boundary (|k|>=127) is refuted in Coq and listed as known finding.',
        'design_ref': 'DESIGN.md section 6, C09',
    },
}

# Every listed property is claimed; reasons would go here otherwise.
NOT_APPLICABLE = [
    {'property_id': pid, 'reason': 'check not built yet in this session (work in progress; see DESIGN.md section 9)'}
    for pid in ['C%02d' % i for i in range(1, 21)] if pid not in PROPS
]

HOOK_COMMITS = ['5335fab']

