#!/usr/bin/env python3
"""Regenerate MANIFEST.json from tools/props.py (dev helper; the manifest is committed)."""
import json, sys
sys.path.insert(0, '/verif/tools')
from props import PROPS, NOT_APPLICABLE, HOOK_COMMITS

BASE = "for m in $(cat /w/out/gomods.txt); do MF=$(cd /repo/$m && . /w/out/goenv.sh && gomodflag); (cd /repo/$m && go test $MF -json -vet=off -count=1 -timeout 25m ./...); done"
checks = []
for pid in sorted(PROPS):
    c = PROPS[pid]
    checks.append({
        'property_id': pid,
        'quick_cmd': 'python3 tools/check.py %s --tier quick' % pid,
        'thorough_cmd': 'python3 tools/check.py %s --tier thorough' % pid,
        'evidence_file': '/verif/evidence/%s.json' % pid,
        'replay_cmd_template': 'python3 tools/check.py %s --replay {path}' % pid,
        'engine': 'rocq-model',
        'level_claimed': {'category': c.get('level', 'proof'), 'text': c['level_text'], 'design_ref': c.get('design_ref', 'DESIGN.md section 6')},
        'level_note': c['level_note'],
        'technique': c.get('technique', 'machine-checked proof in Rocq (Coq 8.16) about a Gallina model tied to the code by regenerated behaviour tables and extracted-model differential runs'),
    })
m = {
    'version': 1,
    'setup_cmd': 'sh tools/setup.sh',
    'hooks': {
        'guard': 'verif',
        'enable': 'go build -tags verif (the harness module in /verif/harness replaces github.com/herohde/morlock by /repo)',
        'baseline_off_cmd': BASE,
        'source_commits': HOOK_COMMITS,
        'add_only': True,
    },
    'engines': [{'name': 'rocq-model', 'path': '/verif/coq', 'serves_properties': sorted(PROPS),
                 'kind_free_text': 'Gallina model + specification + theorems (Coq 8.16.1), regenerated gen/*.v tie, extracted OCaml driver vs Go harness'}],
    'checks': checks,
    'notes': 'One entry point: tools/check.py <id> --tier quick|thorough. See DESIGN.md.',
    'not_applicable': NOT_APPLICABLE,
}
json.dump(m, open('/verif/MANIFEST.json', 'w'), indent=1)
print('wrote MANIFEST.json with', len(checks), 'checks')
