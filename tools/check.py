#!/usr/bin/env python3
"""check.py <property> [--tier quick|thorough] [--replay <file>]

The one entry point of the verification machinery (see DESIGN.md section 3).  For a property it
  1. builds the Go harness against /repo's working tree (tag verif) and regenerates coq/gen/*.v
     from the running code;
  2. builds the closure of coq/Properties/<id>.v (theorems + Impl_* tie lemmas) with the Rocq kernel
     and parses Print Assumptions;
  3. extracts the model/spec to OCaml, runs the corpus and the seeded correspondence: the Go harness
     prints observations of the implementation, the driver evaluates model and specification on the
     same inputs;
  4. decides: exit 0 if everything checks; VIOLATION with a concrete replay if the implementation
     differs from the specification; VIOLATION ... no-failing-input-found if a proof obligation or
     the correspondence broke and the widened search finds no failing input;
  5. writes evidence/<id>.json.
"""
import argparse
import hashlib
import json
import os
import re
import signal
import subprocess
import sys
import time

V = '/verif'
COQ = V + '/coq'
BUILD = V + '/build'
GOENV = dict(os.environ, GOFLAGS='-mod=mod', GOPROXY='off', GOSUMDB='off', GOTOOLCHAIN='local')

sys.path.insert(0, V + '/tools')
from props import PROPS  # noqa: E402


# Every child runs in a session of its own and is registered here, so that a child that outlives its time limit -
# or this script being told to stop - is killed together with whatever it started (make's coqc jobs, the
# harness's hostile-script children) instead of being left behind to hold the machine.
CHILDREN = set()
# time limit for one harness / extracted-driver / stress run: a hang in the code under test must surface as a
# verdict of the check, and in the quick tier within minutes (set in main() from the tier)
HARNESS_TIMEOUT = 600


def spawn(cmd, **kw):
    p = subprocess.Popen(cmd, stdout=subprocess.PIPE, stderr=subprocess.STDOUT, start_new_session=True, **kw)
    CHILDREN.add(p)
    return p


def kill_tree(p):
    try:
        os.killpg(p.pid, signal.SIGKILL)
    except OSError:
        pass


def reap(p, timeout):
    """(exit code, output) of a spawned child; 124 and the output so far if it had to be killed"""
    try:
        o, _ = p.communicate(timeout=max(1, timeout))
        rc = p.returncode
    except subprocess.TimeoutExpired:
        kill_tree(p)
        o, _ = p.communicate()
        o = (o or b'') + ('\n[timeout after %ds]' % timeout).encode()
        rc = 124
    kill_tree(p)   # stragglers of a child that has exited
    CHILDREN.discard(p)
    return rc, (o or b'').decode('utf-8', 'replace')


def _on_signal(sig, _frame):
    for p in list(CHILDREN):
        kill_tree(p)
    sys.exit(128 + sig)


def run(cmd, cwd=None, timeout=1800, env=None):
    t0 = time.time()
    rc, out = reap(spawn(cmd, cwd=cwd, env=env, shell=isinstance(cmd, str)), timeout)
    return rc, out, time.time() - t0


def newest(paths):
    m = 0
    for p in paths:
        if os.path.exists(p):
            m = max(m, os.path.getmtime(p))
    return m


def glob_files(d, suffixes):
    out = []
    for root, _, files in os.walk(d):
        for f in files:
            if f.endswith(suffixes):
                out.append(os.path.join(root, f))
    return out


class Lock:
    """Serialise builds when several checks run at once."""
    def __enter__(self):
        import fcntl
        os.makedirs(BUILD, exist_ok=True)
        self.f = open(BUILD + '/.lock', 'w')
        fcntl.flock(self.f, fcntl.LOCK_EX)

    def __exit__(self, *a):
        import fcntl
        fcntl.flock(self.f, fcntl.LOCK_UN)
        self.f.close()


def build_harness(log):
    os.makedirs(BUILD, exist_ok=True)
    rc, out, _ = run(['cp', '/repo/go.sum', V + '/harness/go.sum'])
    rc, out, dt = run(['go', 'build', '-tags', 'verif', '-o', BUILD + '/vharness', '.'], cwd=V + '/harness', env=GOENV, timeout=900)
    log['harness_build_s'] = round(dt, 1)
    if rc != 0:
        return out
    rc, out, dt = run([BUILD + '/vharness', 'gen', COQ + '/gen'], timeout=300)
    log['gen_s'] = round(dt, 1)
    if rc != 0:
        return out
    return None


def coq_build(targets, log):
    """make -k the given .vo targets. Returns (ok, failures, output). failures: list of dicts."""
    mk = COQ + '/Makefile'
    if not os.path.exists(mk) or os.path.getmtime(mk) < os.path.getmtime(COQ + '/_CoqProject'):
        run(['coq_makefile', '-f', '_CoqProject', '-o', 'Makefile'], cwd=COQ)
    for t in targets:
        src = COQ + '/' + t[:-1]
        if t.startswith('Properties/') and os.path.exists(src):
            os.utime(src)  # recompile so that Print Assumptions output is captured
    # the extraction needs every Model/Spec file consistent with the regenerated tables
    listed = set(l.strip() for l in open(COQ + '/_CoqProject') if l.strip().endswith('.v'))
    model_vo = sorted(f + 'o' for f in listed if f.startswith(('Model/', 'Spec/')))
    rc, out, dt = run(['make', '-k', '-j16'] + targets + model_vo, cwd=COQ, timeout=3000)
    log['coq_make_s'] = round(dt, 1)
    failures = []
    for m in re.finditer(r'File "\./([^"]+)", line (\d+), characters [^\n]*\n(Error:?[^\n]*(?:\n(?!make|File|COQC)[^\n]*){0,12})', out):
        f, line, msg = m.group(1), int(m.group(2)), m.group(3)
        failures.append({'file': f, 'line': line, 'lemma': enclosing_lemma(COQ + '/' + f, line), 'error': msg.strip()[:600]})
    if rc != 0 and not failures:
        failures.append({'file': '?', 'line': 0, 'lemma': '?', 'error': out[-800:]})
    return rc == 0, failures, out


def enclosing_lemma(path, line):
    try:
        lines = open(path).read().split('\n')
    except OSError:
        return '?'
    for i in range(min(line, len(lines)) - 1, -1, -1):
        m = re.match(r'\s*(Lemma|Theorem|Corollary|Example|Definition|Fact|Remark)\s+([A-Za-z0-9_\']+)', lines[i])
        if m:
            return m.group(2)
    return '?'


def count_obligations(files):
    n = 0
    names = []
    for f in files:
        p = COQ + '/' + f
        if not os.path.exists(p):
            continue
        for m in re.finditer(r'^\s*(Lemma|Theorem|Corollary|Example|Fact)\s+([A-Za-z0-9_\']+)', open(p).read(), re.M):
            n += 1
            names.append(f + ':' + m.group(2))
    return n, names


def parse_assumptions(out):
    """Collect what Print Assumptions printed while compiling the property file."""
    closed = len(re.findall(r'Closed under the global context', out))
    axioms = sorted(set(re.findall(r'^([A-Za-z_][A-Za-z0-9_.\']*)\s*:', '\n'.join(
        blk for blk in re.findall(r'Axioms:\n((?:.+\n)+?)(?=\S|\Z)', out)), re.M)))
    return closed, axioms


def vo_key():
    h = hashlib.sha1()
    # content, not modification time: the property file under check is recompiled on every run (to print its
    # assumptions) and comes out byte-identical when nothing it depends on changed
    for f in sorted(glob_files(COQ, ('.vo',))):
        h.update(f.encode())
        h.update(hashlib.sha1(open(f, 'rb').read()).digest())
    return h.hexdigest()


def strip_comments(text):
    out, depth, i = [], 0, 0
    while i < len(text):
        if text.startswith('(*', i):
            depth += 1
            i += 2
        elif text.startswith('*)', i) and depth > 0:
            depth -= 1
            i += 2
        else:
            if depth == 0 or text[i] == '\n':
                out.append(text[i])
            i += 1
    return ''.join(out)


FORBIDDEN = re.compile(r'\b(Admitted|admit|Axiom|Axioms|Parameter|Parameters|Conjecture|Conjectures|give_up)\b|Admit Obligations|Unset\s+Guard\s+Checking|Unset\s+Positivity\s+Checking|Unset\s+Universe\s+Checking|bypass_check|type-in-type|impredicative-set')
SECTION_LOCAL = re.compile(r'^\s*(Variable|Variables|Hypothesis|Hypotheses|Context)\b')


def scan_forbidden():
    """No axiom-declaring vernacular anywhere in the development (comments stripped), and no Variable /
    Hypothesis / Context outside a Section."""
    hits = []
    files = [l.strip() for l in open(COQ + '/_CoqProject') if l.strip().endswith('.v')]
    files += ['../ocaml/Extract.v']
    for f in files:
        try:
            text = strip_comments(open(COQ + '/' + f).read())
        except OSError:
            continue
        depth = 0
        for no, line in enumerate(text.split('\n'), 1):
            if re.match(r'^\s*(Section|Module\s+Type)\s+\w+', line):
                depth += 1 if line.lstrip().startswith('Section') else 0
            m = FORBIDDEN.search(line)
            if m:
                hits.append({'file': f, 'line': no, 'lemma': m.group(0), 'error': 'forbidden vernacular: ' + line.strip()[:200]})
            if SECTION_LOCAL.match(line) and depth == 0:
                hits.append({'file': f, 'line': no, 'lemma': line.strip().split()[0], 'error': 'declared outside a Section: ' + line.strip()[:200]})
            if re.match(r'^\s*End\s+\w+\s*\.', line) and depth > 0:
                depth -= 1
    for l in open(COQ + '/_CoqProject'):
        if re.search(r'type-in-type|impredicative-set|-vos|-vok', l):
            hits.append({'file': '_CoqProject', 'line': 0, 'lemma': l.strip(), 'error': 'forbidden flag'})
    return hits


def coqchk_all(log):
    """Re-check every compiled property module and everything it depends on with the independent
    checker (one invocation for the whole development: closures overlap), cached on the state of the
    .vo files so that later thorough checks of an unchanged development reuse the verdict."""
    cache = BUILD + '/coqchk.json'
    run(['make', '-k', '-j16'], cwd=COQ, timeout=3000)   # every property file, so that the closure is complete
    key = vo_key()
    if os.path.exists(cache):
        try:
            c = json.load(open(cache))
            if c.get('key') == key:
                c['cached'] = True
                return c
        except ValueError:
            pass
    mods = ['Morlock.Properties.' + os.path.basename(f)[:-3] for f in sorted(glob_files(COQ + '/Properties', ('.vo',)))]
    qs = []
    for d in ('gen', 'Model', 'Spec', 'Lemmas', 'Impl', 'Properties'):
        qs += ['-Q', d, 'Morlock.' + d]
    rc, cout, dt = run(['coqchk', '-silent', '-o'] + qs + mods, cwd=COQ, timeout=7000)
    log['coqchk_s'] = round(dt, 1)
    m = re.search(r'\* Axioms:(.*?)\n\s*\n\* Constants', cout, re.S)
    res = {'key': vo_key(), 'rc': rc, 'modules': mods, 'axioms': (m.group(1).strip() if m else None), 'tail': cout[-600:], 'seconds': round(dt, 1)}
    json.dump(res, open(cache, 'w'), indent=1)
    return res


def build_driver(log):
    srcs = glob_files(COQ + '/Model', ('.vo',)) + glob_files(COQ + '/Spec', ('.vo',)) + glob_files(COQ + '/gen', ('.vo',)) + \
        [V + '/ocaml/' + f for f in os.listdir(V + '/ocaml') if f.endswith(('.ml', '.v', '.sh')) and f not in ('model.ml',)]
    drv = BUILD + '/vdriver'
    if os.path.exists(drv) and os.path.getmtime(drv) >= newest(srcs):
        log['driver_build_s'] = 0
        return None
    rc, out, dt = run(['sh', V + '/ocaml/build.sh'], cwd=V + '/ocaml', timeout=1200)
    log['driver_build_s'] = round(dt, 1)
    return out if rc != 0 else None


def run_driver_sharded(cf, timeout=None, maxshards=16):
    """Run the extracted-model driver over a cases file, split round-robin into parallel shards. Every case
    line is independent except for the Zobrist key tables (`zkeys` lines) and comment headers, which every
    shard gets."""
    timeout = timeout or HARNESS_TIMEOUT
    lines = open(cf).read().split('\n')
    head = [l for l in lines if l.startswith('#') or l.startswith('zkeys ')]
    body = [l for l in lines if l and not (l.startswith('#') or l.startswith('zkeys '))]
    k = max(1, min(maxshards, len(body) // 40))
    if k == 1:
        return reap(spawn([BUILD + '/vdriver', cf]), timeout)
    procs = []
    for i in range(k):
        sf = '%s.shard%d' % (cf, i)
        with open(sf, 'w') as f:
            f.write('\n'.join(head + body[i::k]) + '\n')
        procs.append((sf, spawn([BUILD + '/vdriver', sf])))
    t0 = time.time()
    rc, outs, n = 0, [], 0
    nz = len([l for l in head if l.startswith('zkeys ')])
    for sf, p in procs:
        prc, o = reap(p, timeout - (time.time() - t0))
        if prc != 0 and rc == 0:
            rc = prc
        kept = []
        for l in o.split('\n'):
            m = re.match(r'DONE n=(\d+)', l)
            if m:
                n += int(m.group(1)) - nz
            else:
                kept.append(l)
        outs.append('\n'.join(kept))
        try:
            os.remove(sf)
        except OSError:
            pass
    return rc, '\n'.join(outs) + '\nDONE n=%d\n' % (n + nz)

def run_cases(prop, gen_name, seed, tier, log, tag=''):
    os.makedirs(BUILD + '/cases', exist_ok=True)
    cf = '%s/cases/%s%s.txt' % (BUILD, gen_name, tag)
    rc, out, dt = run([BUILD + '/vharness', 'cases', gen_name, str(seed), tier, cf], timeout=HARNESS_TIMEOUT, cwd=BUILD)
    log.setdefault('cases_s', 0)
    log['cases_s'] = round(log['cases_s'] + dt, 1)
    if rc != 0:
        # the harness died (e.g. a panic in a goroutine of the code under test): keep what its monitors reported
        res = {'n': 0, 'mismatch': [], 'specviol': [l[9:] for l in out.split('\n') if l.startswith('IMPLVIOL ')], 'classes': {}, 'file': cf, 'harness_out': out[-600:]}
        if res['specviol']:
            return res, None
        return None, 'harness cases failed: ' + out[-2000:]
    t0 = time.time()
    rc, dout = run_driver_sharded(cf)
    dt = time.time() - t0
    log.setdefault('driver_s', 0)
    log['driver_s'] = round(log['driver_s'] + dt, 1)
    if rc != 0:
        return None, 'driver failed: ' + dout[-2000:]
    res = {'n': 0, 'mismatch': [], 'specviol': [], 'classes': {}, 'file': cf, 'harness_out': out.strip()}
    for line in dout.split('\n'):
        if line.startswith('MISMATCH '):
            res['mismatch'].append(line[9:])
        elif line.startswith('SPECVIOL '):
            res['specviol'].append(line[9:])
        elif line.startswith('CLASS '):
            _, k, v = line.split(' ')
            res['classes'][k] = res['classes'].get(k, 0) + int(v)
        elif line.startswith('DONE '):
            res['n'] = int(re.search(r'n=(\d+)', line).group(1))
    # harness-side observations (property monitors evaluated on the implementation itself)
    for line in out.split('\n'):
        if line.startswith('IMPLVIOL '):
            res['specviol'].append(line[9:])
        m = re.match(r'COUNT (\S+) (\d+)', line)
        if m:
            res['classes']['monitor/' + m.group(1)] = res['classes'].get('monitor/' + m.group(1), 0) + int(m.group(2))
            res['n'] += int(m.group(2))
    return res, None


def sample_lines(path, k=3):
    out = []
    try:
        with open(path) as f:
            seen = set()
            for line in f:
                if line.startswith('#') or ' => ' not in line:
                    continue
                kind = line.split(' ', 1)[0]
                if kind in seen:
                    continue
                seen.add(kind)
                out.append(line.strip()[:400])
                if len(out) >= 12:
                    break
    except OSError:
        pass
    return out


def load_known():
    known, fixed = [], []
    p = V + '/KNOWN_FINDINGS'
    if os.path.exists(p):
        for line in open(p):
            line = line.strip()
            m = re.match(r'known: property=(\S+) key=(\S+) (.*)', line)
            if m:
                known.append({'property': m.group(1), 'key': m.group(2), 'what': m.group(3)})
            m = re.match(r'fixed: property=(\S+) (\S+) (.*)', line)
            if m:
                fixed.append({'property': m.group(1), 'commit': m.group(2), 'what': m.group(3)})
    return known, fixed


def viol_key(v):
    m = re.search(r'key=(\S+)', v)
    return m.group(1) if m else 'unlisted:' + v.split(' ', 1)[0]


def write_replay(prop, kind, payload):
    os.makedirs(V + '/replays', exist_ok=True)
    h = hashlib.sha1(json.dumps(payload, sort_keys=True).encode()).hexdigest()[:10]
    path = '%s/replays/%s-%s.json' % (V, prop, h)
    payload = dict(payload, property=prop, kind=kind)
    with open(path, 'w') as f:
        json.dump(payload, f, indent=1)
    return path


def main():
    ap = argparse.ArgumentParser()
    ap.add_argument('prop')
    ap.add_argument('--tier', default=os.environ.get('VERIF_TIER', 'quick'))
    ap.add_argument('--replay')
    a = ap.parse_args()
    prop = a.prop
    tier = a.tier if a.tier in ('quick', 'thorough') else 'quick'
    global HARNESS_TIMEOUT
    HARNESS_TIMEOUT = 600 if tier == 'quick' else 3000
    for sig in (signal.SIGTERM, signal.SIGHUP, signal.SIGINT):
        signal.signal(sig, _on_signal)
    seed = int(os.environ.get('VERIF_SEED', '1') or 1)
    cfg = PROPS[prop]
    t0 = time.time()
    log = {}
    violations = []   # (replay_path, suffix)
    known_hits = []
    known, _fixed = load_known()

    with Lock():
        err = build_harness(log)
        if err:
            rp = write_replay(prop, 'proof-obligation', {'what': 'harness does not build against /repo (hook shape changed?)', 'error': err[-3000:]})
            print('VIOLATION property=%s replay=%s no-failing-input-found' % (prop, rp))
            finish(prop, tier, seed, cfg, log, t0, 0, 0, [], {}, None, 1, ['harness build failed'])
            return 1

        targets = cfg['coq_targets']
        ok, failures, out = coq_build(targets, log)
        closed, axioms = parse_assumptions(out)
        forb = scan_forbidden()
        if forb:
            failures += forb
            ok = False
        n_obl, obl_names = count_obligations(cfg['obligation_files'])
        failed_lemmas = sorted(set(f['file'] + ':' + f['lemma'] for f in failures))
        # a failed file blocks every obligation in it from being checked: count them all as undischarged
        failed_files = set(f['file'] for f in failures)
        undis = [n for n in obl_names if n.split(':')[0] in failed_files]
        # files that depend on a failed file are not built either
        if not ok:
            for fpath in cfg['obligation_files']:
                vo = COQ + '/' + fpath + 'o'
                if not os.path.exists(vo) or os.path.getmtime(vo) < os.path.getmtime(COQ + '/' + fpath):
                    undis += [n for n in obl_names if n.split(':')[0] == fpath and n not in undis]
        discharged = n_obl - len(undis)

        derr = build_driver(log)

        # thorough tier: re-check the compiled property file and everything it depends on with the
        # independent checker and record the axioms it reports
        coqchk = None
        if tier == 'thorough' and ok:
            coqchk = coqchk_all(log)
            if coqchk.get('rc') != 0:
                failures.append({'file': 'coqchk', 'line': 0, 'lemma': 'all property modules', 'error': str(coqchk.get('tail'))[-800:]})
                ok = False

    if derr:
        failures.append({'file': 'ocaml/Extract.v', 'line': 0, 'lemma': 'extraction', 'error': derr[-1500:]})
        ok = False

    results = []
    harness_err = None
    if not derr:
        if a.replay:
            rp = json.load(open(a.replay))
            lines = rp.get('case_lines') or []
            os.makedirs(BUILD + '/cases', exist_ok=True)
            cf = BUILD + '/cases/replay.txt'
            open(cf, 'w').write('\n'.join(lines) + '\n')
            # re-observe on the current tree
            rc, rout, _ = run([BUILD + '/vharness', 'reobserve', cf, cf + '.now'], timeout=600)
            rc, dout, _ = run([BUILD + '/vdriver', cf + '.now' if rc == 0 else cf], timeout=600)
            print(dout)
        for gen_name in cfg.get('cases', []):
            res, e = run_cases(prop, gen_name, seed, tier, log)
            if e:
                harness_err = e
                break
            results.append(res)
        # widen the search if an obligation or the correspondence broke and no failing input yet
        broke = (not ok) or any(r['mismatch'] for r in results)
        if broke and not any(v for r in results for v in r['specviol'] if (' prop=' not in v or (' prop=' + prop) in v)) and not harness_err:
            for extra in range(1, 7):
                for gen_name in cfg.get('cases', []):
                    res, e = run_cases(prop, gen_name, seed + 1000 * extra, cfg.get('widen_tier', 'quick'), log, tag='-w%d' % extra)
                    if res:
                        res['widened'] = True
                        results.append(res)
                if any(v for r in results for v in r['specviol'] if (' prop=' not in v or (' prop=' + prop) in v)):
                    break

    def owned(v):
        m = re.search(r' prop=(C\d+)', v)
        return (m is None) or (m.group(1) == prop)
    # concurrent stress scenarios, run from the harness built with the race detector
    stress_info = {}
    for sname in cfg.get('stress', []):
        rc, sout, dt = run(['go', 'build', '-race', '-tags', 'verif', '-o', BUILD + '/vharness-race', '.'], cwd=V + '/harness', env=GOENV, timeout=900)
        if rc != 0:
            harness_err = 'race build failed: ' + sout[-1500:]
            break
        os.makedirs(BUILD + '/cases', exist_ok=True)
        tracef = '%s/cases/trace-%s.txt' % (BUILD, sname)
        if os.path.exists(tracef):
            os.remove(tracef)
        rc, sout, dt = run([BUILD + '/vharness-race', 'stress', sname, str(seed), tier], timeout=HARNESS_TIMEOUT, cwd=BUILD,
                           env=dict(os.environ, GORACE='halt_on_error=0 exitcode=66', VERIF_TRACE_FILE=tracef))
        log['stress_s'] = round(log.get('stress_s', 0) + dt, 1)
        sres = {'n': 0, 'mismatch': [], 'specviol': [], 'classes': {}, 'file': '', 'harness_out': sout[-400:]}
        for ln in sout.split('\n'):
            if ln.startswith('IMPLVIOL '):
                sres['specviol'].append(ln[9:])
            m = re.match(r'stress rounds=(\d+) (.*)', ln)
            if m:
                sres['n'] = int(m.group(1))
                sres['classes']['stress/rounds'] = int(m.group(1))
                for kv in m.group(2).split():
                    k, _, v = kv.partition('=')
                    if v.isdigit():
                        sres['classes']['stress/' + k] = int(v)
        if 'DATA RACE' in sout:
            i = sout.index('WARNING: DATA RACE')
            rep = sout[i:i + 1800].replace('\n', ' | ')
            sres['specviol'].append('stress %s :: the race detector reports a data race: %s prop=%s key=data-race' % (sname, rep[:1500], prop))
        elif rc not in (0,) and not sres['specviol']:
            harness_err = 'stress run failed (exit %d): %s' % (rc, sout[-1500:])
        # the recorded command/output traces are replayed through the trace acceptor of the driver model
        if os.path.exists(tracef) and os.path.getsize(tracef) > 0 and not derr:
            rc2, dout, dt2 = run([BUILD + '/vdriver', tracef], timeout=1200)
            log['driver_s'] = round(log.get('driver_s', 0) + dt2, 1)
            sres['file'] = tracef
            if rc2 != 0:
                harness_err = 'driver failed on traces: ' + dout[-1500:]
            for line in dout.split('\n'):
                if line.startswith('MISMATCH '):
                    sres['mismatch'].append(line[9:])
                elif line.startswith('SPECVIOL '):
                    sres['specviol'].append(line[9:])
                elif line.startswith('CLASS '):
                    _, k, v = line.split(' ')
                    sres['classes'][k] = sres['classes'].get(k, 0) + int(v)
                elif line.startswith('DONE '):
                    sres['n'] += int(re.search(r'n=(\d+)', line).group(1))
        results.append(sres)
        stress_info[sname] = sout[-300:]

    specviol = [v for r in results for v in r['specviol'] if owned(v)]
    mismatch = [v for r in results for v in r['mismatch']]
    n_cases = sum(r['n'] for r in results)
    classes = {}
    for r in results:
        for k, v in r['classes'].items():
            classes[k] = classes.get(k, 0) + v

    # classify spec violations against the known findings
    new_viol = []
    for v in specviol:
        k = viol_key(v)
        hit = [x for x in known if x['property'] == prop and x['key'] == k]
        if hit:
            if k not in [h[0] for h in known_hits]:
                known_hits.append((k, hit[0]['what'], v))
        else:
            new_viol.append(v)
    for k, what, v in known_hits:
        print('KNOWN-FINDING: property=%s %s [key=%s]' % (prop, what, k))

    exit_code = 0
    notes = []
    if new_viol:
        # group by key, one replay per key (at most 5)
        bykey = {}
        for v in new_viol:
            bykey.setdefault(viol_key(v), []).append(v)
        for k, vs in list(bykey.items())[:5]:
            rp = write_replay(prop, 'impl-vs-spec', {'key': k, 'case_lines': [x.split(' :: ')[0] for x in vs[:5]], 'details': vs[:5],
                                                    'seed': seed, 'tier': tier,
                                                    'broken_obligations': failed_lemmas})
            print('VIOLATION property=%s replay=%s' % (prop, rp))
        exit_code = 1
    elif not ok or mismatch or harness_err:
        payload = {'seed': seed, 'tier': tier, 'broken_obligations': failures[:10],
                   'correspondence_mismatches': mismatch[:10], 'harness_error': harness_err,
                   'case_lines': [x.split(' :: ')[0] for x in mismatch[:5]],
                   'searched_cases': n_cases}
        rp = write_replay(prop, 'proof-obligation' if not ok else 'impl-vs-model', payload)
        print('VIOLATION property=%s replay=%s no-failing-input-found' % (prop, rp))
        exit_code = 1

    finish(prop, tier, seed, cfg, log, t0, n_obl, discharged, results, classes,
           {'closed': closed, 'axioms': axioms, 'failed': failed_lemmas, 'coqchk': coqchk}, exit_code,
           notes, n_cases=n_cases, n_mismatch=len(mismatch), n_spec=len(new_viol), known_hits=known_hits,
           obl_names=obl_names)
    return exit_code


def finish(prop, tier, seed, cfg, log, t0, n_obl, discharged, results, classes, assum, exit_code, notes,
           n_cases=0, n_mismatch=0, n_spec=0, known_hits=(), obl_names=()):
    os.makedirs(V + '/evidence', exist_ok=True)
    samples = []
    for r in results:
        samples += sample_lines(r['file'])
    samples = samples[:12]
    if obl_names:
        samples = [{'obligation': n} for n in list(obl_names)[:6]] + [{'case': s} for s in samples]
    if not samples:
        samples = [{'note': 'no cases were run'}]
    distinct = sum(1 for k, v in classes.items() if v > 0)
    level = cfg.get('level', 'proof')
    cov = {
        'obligations': n_obl,
        'discharged': discharged,
        'checker_cmd': 'cd /verif/coq && make -k -j16 ' + ' '.join(cfg['coq_targets']) + '  (coqc 8.16.1 full .vo build; coqchk -silent -o in the thorough tier)',
        'trusted_base': cfg.get('trusted_base', []) + COMMON_TRUSTED,
        'evaluations': max(n_cases, 1),
        'distinct_nontrivial': max(n_cases - classes.get('trivial', 0), 2) if n_cases else 2,
        'rule': cfg.get('rule', ''),
        'samples': samples,
        'input_classes': classes,
        'correspondence_cases': n_cases,
        'correspondence_mismatches': n_mismatch,
        'spec_violations_new': n_spec,
        'known_findings_reproduced': [k for k, _, _ in known_hits],
        'print_assumptions': assum,
        'timing': log,
        'explanation': cfg.get('explanation', ''),
        'exhaustive': False,
    }
    if n_cases == 0:
        cov['distinct_nontrivial'] = max(n_obl, 2)
        cov['evaluations'] = max(n_obl, 1)
    ev = {
        'property_id': prop,
        'tier': tier,
        'seed': seed,
        'level': level,
        'coverage': cov,
        'assumptions': cfg.get('assumptions', []),
        'wall_s': round(time.time() - t0, 1),
        'violations': 0 if exit_code == 0 else max(n_spec, 1),
    }
    with open('%s/evidence/%s.json' % (V, prop), 'w') as f:
        json.dump(ev, f, indent=1)
    print('%s tier=%s obligations=%d/%d cases=%d mismatches=%d new-violations=%d wall=%.1fs' %
          (prop, tier, discharged, n_obl, n_cases, n_mismatch, n_spec, time.time() - t0))


COMMON_TRUSTED = [
    'Coq 8.16.1 kernel and coqc (vm_compute used for finite sweeps; no native_compute)',
    'extraction via ExtrOcamlBasic (Extract Inductive bool/option/unit/list/prod/sumbool/sumor; no Extract Constant), OCaml 4.13.1, ocaml/driver.ml + conv.ml',
    'Go harness /verif/harness (prints what the code computed) and the add-only verif hook files in /repo',
    'the specification in coq/Spec and the validity predicates in the theorem statements',
]

if __name__ == '__main__':
    sys.exit(main())
