#!/bin/sh
# MANIFEST.setup_cmd: build the whole framework offline from files on disk.
set -e
export GOFLAGS=-mod=mod GOPROXY=off GOSUMDB=off GOTOOLCHAIN=local
cd /verif
mkdir -p build evidence replays coq/gen
cp /repo/go.sum harness/go.sum
(cd harness && go build -tags verif -o /verif/build/vharness .)
./build/vharness gen /verif/coq/gen
(cd coq && coq_makefile -f _CoqProject -o Makefile && timeout 3000 make -j16)
sh ocaml/build.sh
echo setup-ok
