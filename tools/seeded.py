#!/usr/bin/env python3
"""seeded.py verify <prop> <name>     confirm a seeded change delivered in /tmp/mut/<prop>-out (worktree /tmp/mut/<prop>)
                                      and keep it as /verif/seeded/<name>/
   seeded.py detect <name> [props..]  apply /verif/seeded/<name>/patch.diff to /repo, run the quick checks of the
                                      given properties (default: the property it breaks), undo, record detection.json
"""
import json
import os
import re
import shutil
import signal
import subprocess
import sys
import time

ENV = dict(os.environ, GOFLAGS='-mod=mod', GOPROXY='off', GOSUMDB='off', GOTOOLCHAIN='local')


def sh(cmd, cwd=None, timeout=1800):
    p = subprocess.run(cmd, cwd=cwd, shell=True, env=ENV, stdout=subprocess.PIPE, stderr=subprocess.STDOUT, timeout=timeout)
    return p.returncode, p.stdout.decode('utf-8', 'replace')


def verify(prop, name):
    wt = '/tmp/mut/%s' % prop
    out = '/tmp/mut/%s-out' % prop
    meta = json.load(open(out + '/meta.json'))
    ran = []
    rc, o = sh('git diff --stat', cwd=wt)
    assert o.strip(), 'no change in worktree'
    rc, o = sh('go build ./... && go test -vet=off -count=1 ./... 2>&1 | tail -15', cwd=wt)
    ran.append({'cmd': 'go build ./... && go test -vet=off -count=1 ./... (worktree with the change)', 'rc': rc, 'tail': o[-600:]})
    tests_pass = rc == 0 and 'FAIL' not in o
    demo_cmd = meta.get('demo_cmd') or open(out + '/demo/RUN.txt').read().strip()
    rc1, o1 = sh(demo_cmd, cwd=out + '/demo')
    ran.append({'cmd': demo_cmd + '   (with the change)', 'rc': rc1, 'tail': o1[-800:]})
    sh('git add -N . && git diff > /tmp/mut/%s.patch && git reset -q --hard HEAD && git clean -fdq' % prop, cwd=wt)
    rc2, o2 = sh(demo_cmd, cwd=out + '/demo')
    ran.append({'cmd': demo_cmd + '   (without the change)', 'rc': rc2, 'tail': o2[-400:]})
    sh('git apply /tmp/mut/%s.patch && git add -N .' % prop, cwd=wt)
    fails_with = rc1 != 0 or 'FAIL' in o1 or 'WRONG' in o1 or 'MISMATCH' in o1
    passes_without = rc2 == 0 and 'FAIL' not in o2
    ok = tests_pass and fails_with and passes_without
    print('tests_pass=%s demo_fails_with_change=%s demo_passes_without=%s => %s' % (tests_pass, fails_with, passes_without, 'CONFIRMED' if ok else 'REJECTED'))
    if not ok:
        for r in ran:
            print(r['cmd'], r['rc'], r['tail'][-300:])
        return 1
    dst = '/verif/seeded/%s' % name
    if os.path.exists(dst):
        shutil.rmtree(dst)
    os.makedirs(dst)
    shutil.copy('/tmp/mut/%s.patch' % prop, dst + '/patch.diff')
    shutil.copytree(out + '/demo', dst + '/demo')
    meta2 = {
        'property': prop,
        'summary': meta.get('summary'),
        'needs': meta.get('needs'),
        'demo_cmd': demo_cmd,
        'origin': 'fresh sub-agent given only the property text and a scratch worktree',
        'confirmed_by': ran,
        'note': 'the demo module replaces github.com/herohde/morlock by the scratch worktree /tmp/mut/%s (removed after confirmation); point the replace at a checkout with patch.diff applied to re-run it' % prop,
    }
    json.dump(meta2, open(dst + '/meta.json', 'w'), indent=1)
    return 0


MARKER = '/verif/build/seeded-applied.json'


def recover():
    """undo a seeded change that an interrupted detect run left in /repo's working tree"""
    if not os.path.exists(MARKER):
        return
    m = json.load(open(MARKER))
    rc, o = sh('git apply -R --check %s && git apply -R %s' % (m['patch'], m['patch']), cwd='/repo')
    print('recover: seeded change %s left in /repo by an interrupted run: %s' % (m['name'], 'reverted' if rc == 0 else 'not present (or not revertible): ' + o.strip()[:200]))
    os.remove(MARKER)


def detect(name, props):
    dst = '/verif/seeded/%s' % name
    meta = json.load(open(dst + '/meta.json'))
    if not props:
        props = [meta['property']]
    recover()
    rc, o = sh('git status --short', cwd='/repo')
    assert not o.strip(), '/repo not clean: ' + o
    # a run that is killed must not leave the seeded change in /repo (it happened once: S-C04-8 was picked up by
    # an end-of-round snapshot and became /repo 3b533f5, repaired by fix b5f4564): termination signals unwind
    # through the finally below, and a marker lets the next run (or a human) undo what a SIGKILL left behind
    for sig in (signal.SIGTERM, signal.SIGHUP, signal.SIGINT):
        signal.signal(sig, lambda *_: sys.exit(143))
    json.dump({'name': name, 'patch': dst + '/patch.diff'}, open(MARKER, 'w'))
    rc, o = sh('git apply %s/patch.diff' % dst, cwd='/repo')
    if rc != 0:
        os.remove(MARKER)
    assert rc == 0, o
    res = {}
    try:
        for p in props:
            t0 = time.time()
            rc, o = sh('python3 tools/check.py %s --tier quick' % p, cwd='/verif', timeout=3000)
            viol = [l for l in o.split('\n') if l.startswith('VIOLATION')]
            summ = [l for l in o.split('\n') if l.startswith(p + ' tier=')]
            replay = None
            m = re.search(r'replay=(\S+)', viol[0]) if viol else None
            if m and os.path.exists(m.group(1)):
                rp = json.load(open(m.group(1)))
                replay = {k: (str(v)[:600]) for k, v in rp.items() if k in ('kind', 'key', 'details', 'broken_obligations', 'correspondence_mismatches', 'what')}
            res[p] = {'exit': rc, 'violations': viol[:3], 'summary': summ[-1] if summ else '', 'replay': replay, 'wall_s': round(time.time() - t0, 1), 'seed': os.environ.get('VERIF_SEED', '1')}
            print(p, 'exit', rc, (viol[0] if viol else 'no violation reported'))
    finally:
        sh('git checkout -- . && git clean -fdq', cwd='/repo')
        if os.path.exists(MARKER):
            os.remove(MARKER)
    det = {}
    dpath = dst + '/detection.json'
    if os.path.exists(dpath):
        det = json.load(open(dpath))
    det.update(res)
    json.dump(det, open(dpath, 'w'), indent=1)
    # restore generated files / evidence for the unchanged tree lazily: the next check run regenerates them
    return 0


if __name__ == '__main__':
    if sys.argv[1] == 'recover':
        recover()
        sys.exit(0)
    if sys.argv[1] == 'verify':
        sys.exit(verify(sys.argv[2], sys.argv[3]))
    else:
        sys.exit(detect(sys.argv[2], sys.argv[3:]))
