#!/bin/sh
# usage: coqgoal.sh <file.v> <line>   -- show the goal after the given line (dev helper)
f=$1; n=$2
cd /verif/coq
head -n "$n" "$f" > /tmp/_goal.v
echo "Show." >> /tmp/_goal.v
coqc -Q gen Morlock.gen -Q Model Morlock.Model -Q Spec Morlock.Spec -Q Lemmas Morlock.Lemmas -Q Impl Morlock.Impl -Q Properties Morlock.Properties /tmp/_goal.v 2>&1 | grep -v '^Error: There are pending proofs' | tail -${3:-40}
