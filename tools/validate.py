#!/opt/veriftools/pyvenv/bin/python
"""Validate MANIFEST.json and evidence files against the schemas (dev helper; uses the tooling venv)."""
import json, sys, glob, jsonschema
m = json.load(open('/verif/MANIFEST.json'))
jsonschema.validate(m, json.load(open('/root/.vp/MANIFEST.schema.json')))
print('MANIFEST ok:', len(m['checks']), 'checks')
es = json.load(open('/root/.vp/EVIDENCE.schema.json'))
for f in sorted(glob.glob('/verif/evidence/*.json')):
    jsonschema.validate(json.load(open(f)), es)
    print('ok', f)
