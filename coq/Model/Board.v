(** M7 — game board with history, mirroring pkg/board/board.go and result.go.
    Nodes live in an append-only heap (list; id = index) so that the sharing between a board and
    its forks is the sharing the Go pointers have: Fork copies the head node and shares prev. *)
From Coq Require Import NArith ZArith List Bool.
From Morlock.Model Require Import Bits Attacks Move Position Zobrist.
Import ListNotations.
Open Scope N_scope.

(** Outcome / Reason *)
Definition Unknown : N := 0. Definition Undecided : N := 1. Definition WhiteWins : N := 2.
Definition BlackWins : N := 3. Definition Draw : N := 4.
Inductive reason := NoReason | Checkmate | Stalemate | Repetition3 | Repetition5 | NoProgress | InsufficientMaterial | OtherReason.
Record result := mkResult { outcome : N; rreason : reason }.
Definition no_result : result := mkResult Unknown NoReason.
Definition loss (c : N) : N := if c =? White then BlackWins else WhiteWins.

Definition repetition3Limit : N := 3.
Definition repetition5Limit : N := 5.
Definition noprogressPlyLimit : N := 100.

Record node := mkNode {
  n_pos : position;
  n_hash : N;
  n_noprogress : N;
  n_next : move;            (* if not current *)
  n_prev : option nat
}.

Definition heap := list node.

(** repetitions map: hash -> count *)
Definition repmap := list (N * Z).
Fixpoint rep_get (m : repmap) (h : N) : Z :=
  match m with [] => 0%Z | (k, v) :: r => if k =? h then v else rep_get r h end.
Fixpoint rep_set (m : repmap) (h : N) (v : Z) : repmap :=
  match m with
  | [] => [(h, v)]
  | (k, w) :: r => if k =? h then (k, v) :: r else (k, w) :: rep_set r h v
  end.

Record board := mkBoard {
  b_reps : repmap;
  b_castled_w : bool;
  b_castled_b : bool;
  b_ply : Z;
  b_moves : Z;
  b_turn : N;
  b_result : result;
  b_current : nat
}.

Definition dummy_node : node := mkNode (empty_position 0 0) 0 0 no_move None.
Definition hnode (h : heap) (i : nat) : node := nth i h dummy_node.
Definition hset (h : heap) (i : nat) (n : node) : heap := upd h i n.
Definition set_next (n : node) (m : move) : node := mkNode (n_pos n) (n_hash n) (n_noprogress n) m (n_prev n).

(** NewBoard *)
Definition new_board (z : ztable) (h : heap) (pos : position) (turn np : N) (fullmoves : Z) : heap * board :=
  let hash := zhash z pos turn in
  (h ++ [mkNode pos hash np no_move None],
   mkBoard [(hash, 1%Z)] false false 1 fullmoves turn no_result (length h)).

(** Fork *)
Definition fork (h : heap) (b : board) : heap * board :=
  let cur := hnode h (b_current b) in
  (h ++ [mkNode (n_pos cur) (n_hash cur) (n_noprogress cur) no_move (n_prev cur)],
   mkBoard (b_reps b) (b_castled_w b) (b_castled_b b) (b_ply b) (b_moves b) (b_turn b) (b_result b) (length h)).

Definition b_position (h : heap) (b : board) : position := n_pos (hnode h (b_current b)).
Definition b_hash (h : heap) (b : board) : N := n_hash (hnode h (b_current b)).
Definition b_noprogress (h : heap) (b : board) : N := n_noprogress (hnode h (b_current b)).

(** identicalPositionCount (repaired bound: i <= limit).  [fuel] bounds the walk (heap length suffices). *)
Fixpoint ipc_walk (le : bool) (h : heap) (fuel : nat) (cur : node) (tmp : option nat) (t turn : N) (i limit : N) (acc : Z) : Z :=
  match fuel with
  | O => acc
  | S fuel' =>
    match tmp with
    | None => acc
    | Some id =>
      if (if le then i <=? limit else i <? limit) then
        let tn := hnode h id in
        let acc' := if (n_hash tn =? n_hash cur) && (turn =? t) && pos_eqb (n_pos tn) (n_pos cur) then (acc + 1)%Z else acc in
        ipc_walk le h fuel' cur (n_prev tn) (opponent t) turn (i + 1) limit acc'
      else acc
    end
  end.
Definition identical_position_count_with (le : bool) (h : heap) (b : board) (n : nat) (turn limit : N) : Z :=
  let cur := hnode h n in
  ipc_walk le h (length h) cur (n_prev cur) (opponent (b_turn b)) turn 1 limit 1%Z.
Definition identical_position_count := identical_position_count_with true.

(** PushMove: (heap, board, ok).  Parameterised by the pieces that were repaired, so that the legacy
    behaviour stays expressible (Model/Legacy). *)
Definition push_move_with (zm : ztable -> N -> position -> move -> N) (unp : N -> move -> N)
           (ipc : heap -> board -> nat -> N -> N -> Z) (insuff : position -> bool)
           (z : ztable) (h : heap) (b : board) (m : move) : heap * board * bool :=
  match rreason (b_result b) with
  | Checkmate | Stalemate => (h, b, false)
  | _ =>
    let cur := hnode h (b_current b) in
    match pos_move (n_pos cur) m with
    | None => (h, b, false)
    | Some next =>
      let nid := length h in
      let n := mkNode next (zm z (n_hash cur) (n_pos cur) m) (unp (n_noprogress cur) m) no_move (Some (b_current b)) in
      let h1 := hset h (b_current b) (set_next cur m) ++ [n] in
      let cw := if is_castle m && (b_turn b =? White) then true else b_castled_w b in
      let cb := if is_castle m && negb (b_turn b =? White) then true else b_castled_b b in
      let turn := opponent (b_turn b) in
      let reps := rep_set (b_reps b) (n_hash n) (rep_get (b_reps b) (n_hash n) + 1)%Z in
      let ply := (b_ply b + 1)%Z in
      let moves := if turn =? White then (b_moves b + 1)%Z else b_moves b in
      let b1 := mkBoard reps cw cb ply moves turn (b_result b) nid in
      let res := b_result b in
      let res :=
        if (3 <=? rep_get reps (n_hash n))%Z then
          let actual := ipc h1 b1 nid turn (n_noprogress n) in
          if (5 <=? actual)%Z then mkResult Draw Repetition5
          else if (3 <=? actual)%Z then mkResult Draw Repetition3
          else res
        else res in
      let res := if noprogressPlyLimit <=? n_noprogress n then mkResult Draw NoProgress else res in
      let res :=
        if (mtype m =? Capture) ||
           (((mtype m =? CapturePromotion) || (mtype m =? Promotion)) && ((mpromo m =? Bishop) || (mpromo m =? Knight)))
        then if insuff next then mkResult Draw InsufficientMaterial else res
        else res in
      (h1, mkBoard reps cw cb ply moves turn res nid, true)
    end
  end.

Definition push_move := push_move_with zmove update_noprogress identical_position_count has_insufficient_material.

(** PopMove: (heap, board, move, ok) *)
Definition pop_move (h : heap) (b : board) : heap * board * move * bool :=
  let cur := hnode h (b_current b) in
  match n_prev cur with
  | None => (h, b, no_move, false)
  | Some pid =>
    let prev := hnode h pid in
    let opp := opponent (b_turn b) in
    let cw := if is_castle (n_next prev) && (opp =? White) then false else b_castled_w b in
    let cb := if is_castle (n_next prev) && negb (opp =? White) then false else b_castled_b b in
    let reps := rep_set (b_reps b) (n_hash cur) (rep_get (b_reps b) (n_hash cur) - 1)%Z in
    let moves := if opp =? Black then (b_moves b - 1)%Z else b_moves b in
    let m := n_next prev in
    (hset h pid (set_next prev no_move),
     mkBoard reps cw cb (b_ply b - 1)%Z moves opp (mkResult Undecided NoReason) pid, m, true)
  end.

(** Adjudicate / AdjudicateNoLegalMoves *)
Definition adjudicate (b : board) (r : result) : board :=
  mkBoard (b_reps b) (b_castled_w b) (b_castled_b b) (b_ply b) (b_moves b) (b_turn b) r (b_current b).
Definition adjudicate_no_legal_moves (h : heap) (b : board) : board * result :=
  let r := if is_checked (b_position h b) (b_turn b) then mkResult (loss (b_turn b)) Checkmate
           else mkResult Draw Stalemate in
  (adjudicate b r, r).

(** LastMove / SecondToLastMove / HasCastled / HasMoved *)
Definition last_move (h : heap) (b : board) : option move :=
  match n_prev (hnode h (b_current b)) with
  | Some pid => Some (n_next (hnode h pid))
  | None => None
  end.
Definition second_to_last_move (h : heap) (b : board) : option move :=
  match n_prev (hnode h (b_current b)) with
  | Some pid => match n_prev (hnode h pid) with
                | Some ppid => Some (n_next (hnode h ppid))
                | None => None
                end
  | None => None
  end.
Definition has_castled (b : board) (c : N) : bool := if c =? White then b_castled_w b else b_castled_b b.

Fixpoint has_moved_walk (h : heap) (fuel : nat) (cur : option nat) (limit : Z) (acc : N) : N :=
  match fuel with
  | O => acc
  | S fuel' =>
    match cur with
    | None => acc
    | Some id =>
      if (0 <? limit)%Z then
        let n := hnode h id in
        has_moved_walk h fuel' (n_prev n) (limit - 1)%Z (N.lor acc (bitmask (mto (n_next n))))
      else acc
    end
  end.
Definition has_moved (h : heap) (b : board) (limit : Z) : N :=
  N.land (has_moved_walk h (length h) (n_prev (hnode h (b_current b))) limit 0) (all_bb (b_position h b)).

(** Legacy variants (as found in the pinned snapshot) *)
Definition push_move_legacy :=
  push_move_with zmove_legacy update_noprogress_legacy (identical_position_count_with false)
                 (has_insufficient_material_with whiteSquareMask_legacy).
