(** M12 (sequential part) — time control, mirroring pkg/search/searchctl/timectrl.go.
    time.Duration is an int64 of nanoseconds; Go integer division truncates toward zero (Z.quot).
    The iteration loop (handle.process) for runs that are never halted is [UciSeq.iterate]. *)
From Coq Require Import ZArith Bool.
Open Scope Z_scope.

Definition wrap64 (z : Z) : Z := (z + 9223372036854775808) mod 18446744073709551616 - 9223372036854775808.

(** TimeControl.Limits: (soft, hard) for colour c (0 = White) *)
Definition limits (white black moves c : Z) : Z * Z :=
  let remainder := if c =? 1 then black else white in
  let mv := if 0 <? moves then wrap64 (moves + 1) else 40 in
  let soft := Z.quot remainder (wrap64 (2 * mv)) in
  (soft, wrap64 (3 * soft)).
