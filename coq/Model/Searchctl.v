(** M12 (sequential part) — time control, mirroring pkg/search/searchctl/timectrl.go.
    time.Duration is an int64 of nanoseconds; Go integer division truncates toward zero (Z.quot).
    The iteration loop (handle.process) for runs that are never halted is [UciSeq.iterate]. *)
From Coq Require Import ZArith Bool.
Open Scope Z_scope.

Definition wrap64 (z : Z) : Z := (z + 9223372036854775808) mod 18446744073709551616 - 9223372036854775808.

(** the cap on moves-to-go (constant maxMovesToGo): without it 2 * (moves + 1) wraps to 0 for
    moves = 2^63 - 1 and the division panics *)
Definition max_moves_to_go : Z := 1048576.

(** TimeControl.Limits: (soft, hard) for colour c (0 = White) *)
Definition limits (white black moves c : Z) : Z * Z :=
  let remainder := if c =? 1 then black else white in
  let mv := if 0 <? moves then Z.min moves max_moves_to_go + 1 else 40 in
  let soft := Z.quot remainder (wrap64 (2 * mv)) in
  (soft, wrap64 (3 * soft)).

(** uci.go, `go wtime <n> btime <n> movestogo <n>`: strconv.Atoi accepts exactly the decimal strings of
    an int (64 bit here), and the clock becomes `time.Millisecond * time.Duration(n)`: an int64 product
    that wraps silently. [go_limits] is what EnforceTimeControl hands to time.AfterFunc for a go line
    with these numbers. *)
Definition go_duration (ms : Z) : Z := wrap64 (1000000 * ms).
Definition go_limits (wms bms moves c : Z) : Z * Z :=
  limits (go_duration wms) (go_duration bms) moves c.
