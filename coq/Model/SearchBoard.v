(** Instantiation of the generic search (Model/Search.v) with the heap board of Model/Board.v and the
    transposition table of Model/TT.v. *)
From Coq Require Import NArith ZArith List Bool.
From Morlock.Model Require Import Bits Score Attacks Move Position Zobrist Board Search TT.
Import ListNotations.
Open Scope Z_scope.

Definition gboard := (heap * board)%type.

Section SB.
  Variable z : ztable.
  Definition gb_draw (g : gboard) : bool := (outcome (b_result (snd g)) =? Draw)%N.
  Definition gb_hash (g : gboard) : N := b_hash (fst g) (snd g).
  Definition gb_ply (g : gboard) : Z := b_ply (snd g).
  Definition gb_moves (g : gboard) : list move := pseudo_legal_moves (b_position (fst g) (snd g)) (b_turn (snd g)).
  Definition gb_push (g : gboard) (m : move) : option gboard :=
    let '(h1, b1, ok) := push_move z (fst g) (snd g) m in if ok then Some (h1, b1) else None.
  Definition gb_pop (g : gboard) : gboard :=
    let '(h1, b1, _, _) := pop_move (fst g) (snd g) in (h1, b1).
  Definition gb_mated (g : gboard) : gboard * bool :=
    let (b1, r) := adjudicate_no_legal_moves (fst g) (snd g) in
    ((fst g, b1), match rreason r with Checkmate => true | _ => false end).
  Definition gb_clear_draw (g : gboard) : gboard := (fst g, adjudicate (snd g) (mkResult Undecided NoReason)).
  Definition gb_restore (g0 g : gboard) : gboard := (fst g, adjudicate (snd g) (b_result (snd g0))).

  (** eval.Material as the leaf evaluation: integer material balance as a float32 bit pattern.
      Only small integers occur; [f32_of_int] covers |n| < 2^24 exactly. *)
  Definition f32_of_nat_bits (n : N) : Z :=
    match n with
    | N0 => 0
    | _ => let e := N.log2 n in
           (* normalised: exponent field e + 127, mantissa = (n - 2^e) << (23 - e)   (e <= 23) *)
           Z.of_N (N.shiftl (e + 127) 23 + N.shiftl (n - N.shiftl 1 e) (23 - e))
    end.
  Definition f32_of_int (v : Z) : Z :=
    if v <? 0 then f32_of_nat_bits (Z.to_N (- v)) + 2147483648 else f32_of_nat_bits (Z.to_N v).
  Definition material (g : gboard) : Z :=
    let pos := b_position (fst g) (snd g) in
    let turn := b_turn (snd g) in
    let opp := opponent turn in
    f32_of_int (fold_left (fun acc p => acc + (Z.of_N (popcount (pget pos turn p)) - Z.of_N (popcount (pget pos opp p))) * nominal_value p)
                          [Pawn; Bishop; Knight; Rook; Queen; King] 0).

  Definition full_exploration (g : gboard) : (move -> Z) * (gboard -> move -> bool) := (mvvlva, fun _ _ => true).
  (** captures only (a typical quiescence policy; used by the correspondence runs) *)
  Definition captures_only (g : gboard) : (move -> Z) * (gboard -> move -> bool) := (mvvlva, fun _ m => is_capture_or_ep m).

  (** a selective policy whose predicate looks at the board AFTER the move (the Exploration contract of
      pkg/search asks the predicate about a move that has just been pushed): captures and checking moves *)
  Definition checks_or_captures (g : gboard) : (move -> Z) * (gboard -> move -> bool) :=
    (mvvlva, fun g1 m => is_capture_or_ep m || is_checked (b_position (fst g1) (snd g1)) (b_turn (snd g1))).

  (** table variants *)
  Inductive ttv := NoTT | TableTT (t : table) | MinDepthTT (min : Z) (t : table).
  Definition ttv_read (t : ttv) (h : N) : option (N * Z * score * move) :=
    match t with NoTT => None | TableTT t => tt_read t h | MinDepthTT _ t => tt_read t h end.
  Definition ttv_write (t : ttv) (h bound : N) (ply depth : Z) (sc : score) (m : move) : ttv :=
    match t with
    | NoTT => NoTT
    | TableTT t => TableTT (tt_write t h bound ply depth sc m)
    | MinDepthTT min t => MinDepthTT min (tt_write_mindepth min t h bound ply depth sc m)
    end.

  Definition search_board (explore qexplore : gboard -> (move -> Z) * (gboard -> move -> bool))
             (leaf : gboard -> Z) (cancel : nat -> bool) (use_q : bool) (qfuel : nat)
             (g : gboard) (t : ttv) (ponder : list move) (depth : nat) (low high : score) :=
    ab_search gboard gb_draw gb_hash gb_ply gb_moves gb_push gb_pop gb_mated gb_clear_draw gb_restore
              ttv ttv_read ttv_write explore qexplore leaf cancel use_q qfuel g t ponder depth low high.

  Definition minimax_board (leaf : gboard -> Z) (cancel : nat -> bool) (g : gboard) (depth : nat) :=
    mmx gboard gb_draw gb_moves gb_push gb_pop gb_mated ttv leaf cancel depth (mkSst gboard ttv g NoTT 0%N 0%nat []).
End SB.
