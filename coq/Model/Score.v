(** M8 — model of pkg/eval/score.go.  Executable definitions only; proofs live in Lemmas/.
    A score is (type, mate, pawns); [mate] is an int8 (Z with explicit wrap), [pawns] is a float32
    carried as its IEEE-754 bit pattern (Z in [0, 2^32)).  Float comparison and negation are the
    IEEE operations on bit patterns; no float arithmetic is modelled. *)
From Coq Require Import ZArith Bool List.
Import ListNotations.
Open Scope Z_scope.

Inductive stype := Invalid | Heuristic | MateInX | Inf | NegInf.

Definition stype_eqb (a b : stype) : bool :=
  match a, b with
  | Invalid, Invalid | Heuristic, Heuristic | MateInX, MateInX | Inf, Inf | NegInf, NegInf => true
  | _, _ => false
  end.

Record score := mkScore { sty : stype; smate : Z; sbits : Z }.

(** float32 bit patterns *)
Definition two31 : Z := 2147483648.
Definition f_sign (b : Z) : bool := two31 <=? b.
Definition f_mag (b : Z) : Z := b mod two31.
Definition f_isnan (b : Z) : bool := 2139095040 <? f_mag b.   (* 0x7f800000 *)
Definition f_key (b : Z) : Z := if f_sign b then - f_mag b else f_mag b.
Definition f_lt (a b : Z) : bool := negb (f_isnan a) && negb (f_isnan b) && (f_key a <? f_key b).
Definition f_eq (a b : Z) : bool := negb (f_isnan a) && negb (f_isnan b) && (f_key a =? f_key b).
Definition f_neg (b : Z) : Z := if f_sign b then b - two31 else b + two31.

(** int8 wrap-around *)
Definition wrap8 (z : Z) : Z := (z + 128) mod 256 - 128.

Definition invalid_score : score := mkScore Invalid 0 0.
Definition zero_score : score := mkScore Heuristic 0 0.
Definition inf_score : score := mkScore Inf 0 0.
Definition neginf_score : score := mkScore NegInf 0 0.
Definition heuristic (b : Z) : score := mkScore Heuristic 0 b.
Definition mate_in (m : Z) : score := mkScore MateInX m 0.

(** Go's [==] on the struct: field-wise, floats by IEEE equality. *)
Definition go_eq (a b : score) : bool :=
  stype_eqb (sty a) (sty b) && (smate a =? smate b) && f_eq (sbits a) (sbits b).

(** structural equality (bit pattern) *)
Definition score_eqb (a b : score) : bool :=
  stype_eqb (sty a) (sty b) && (smate a =? smate b) && (sbits a =? sbits b).

Definition negate (s : score) : score :=
  match sty s with
  | Heuristic => heuristic (f_neg (sbits s))
  | MateInX => mate_in (wrap8 (- smate s))
  | Inf => neginf_score
  | NegInf => inf_score
  | Invalid => invalid_score
  end.

Definition less (s o : score) : bool :=
  if go_eq s o || stype_eqb (sty s) Inf || stype_eqb (sty o) NegInf then false
  else if stype_eqb (sty s) NegInf || stype_eqb (sty o) Inf then true
  else match sty s, sty o with
       | Heuristic, Heuristic => f_lt (sbits s) (sbits o)
       | Heuristic, MateInX => 0 <? smate o
       | MateInX, Heuristic => smate s <? 0
       | MateInX, MateInX =>
           if Bool.eqb (smate s <? 0) (smate o <? 0) then smate o <? smate s else smate s <? smate o
       | _, _ => false
       end.

Definition inc (s : score) : score :=
  match sty s with
  | Inf => mate_in 1
  | NegInf => mate_in (-1)
  | MateInX => if smate s <? 0 then mate_in (wrap8 (smate s - 1)) else mate_in (wrap8 (smate s + 1))
  | _ => s
  end.

(** inverse of [inc]: DecrementMateDistance *)
Definition dec (s : score) : score :=
  match sty s with
  | MateInX =>
      if smate s =? 1 then inf_score
      else if smate s =? -1 then neginf_score
      else if smate s <? 0 then mate_in (wrap8 (smate s + 1)) else mate_in (wrap8 (smate s - 1))
  | _ => s
  end.

Definition mate_distance (s : score) : Z * bool :=
  match sty s with
  | MateInX => (if smate s <? 0 then wrap8 (- smate s) else smate s, true)
  | Inf | NegInf => (0, true)
  | _ => (0, false)
  end.

Definition smax (a b : score) : score := if less a b then b else a.
Definition smin (a b : score) : score := if less a b then a else b.

(** value of a move given the value of the position it leads to, and the bound transformer *)
Definition T (s : score) : score := negate (inc s).
Definition U (s : score) : score := dec (negate s).

(** Validity: what the constructors build, int8 boundary and NaN excluded. *)
Definition valid (s : score) : bool :=
  match sty s with
  | Invalid => false
  | Heuristic => (smate s =? 0) && negb (f_isnan (sbits s)) && (0 <=? sbits s) && (sbits s <? 2 * two31)
  | MateInX => negb (smate s =? 0) && (-127 <=? smate s) && (smate s <=? 127) && (sbits s =? 0)
  | Inf | NegInf => (smate s =? 0) && (sbits s =? 0)
  end.

(** The order of the property statement as a lexicographic key:
    lost < mated sooner < mated later < heuristics (numerically) < mating later < mating sooner < won *)
Definition rank (s : score) : Z * Z :=
  match sty s with
  | NegInf => (0, 0)
  | MateInX => if smate s <? 0 then (1, - smate s) else (3, - smate s)
  | Heuristic => (2, f_key (sbits s))
  | Inf => (4, 0)
  | Invalid => (5, 0)
  end.
Definition rank_lt (a b : Z * Z) : bool :=
  (fst a <? fst b) || ((fst a =? fst b) && (snd a <? snd b)).

(** Legacy (as found in the pinned snapshot): negative mates ordered backwards. *)
Definition less_legacy (s o : score) : bool :=
  if go_eq s o || stype_eqb (sty s) Inf || stype_eqb (sty o) NegInf then false
  else if stype_eqb (sty s) NegInf || stype_eqb (sty o) Inf then true
  else match sty s, sty o with
       | Heuristic, Heuristic => f_lt (sbits s) (sbits o)
       | Heuristic, MateInX => 0 <? smate o
       | MateInX, Heuristic => smate s <? 0
       | MateInX, MateInX =>
           if (smate s <? 0) || (smate o <? 0) then smate s <? smate o else smate o <? smate s
       | _, _ => false
       end.
