(** M4 — moves, castling rights, mirroring pkg/board/move.go and castling.go. *)
From Coq Require Import NArith List Bool.
From Morlock.Model Require Import Bits Attacks.
Import ListNotations.
Open Scope N_scope.

(** MoveType *)
Definition Normal : N := 1. Definition Push : N := 2. Definition Jump : N := 3. Definition EnPassant : N := 4.
Definition QueenSideCastle : N := 5. Definition KingSideCastle : N := 6. Definition Capture : N := 7.
Definition Promotion : N := 8. Definition CapturePromotion : N := 9.

(** Castling rights (bit set) *)
Definition WhiteKingSideCastle : N := 1. Definition WhiteQueenSideCastle : N := 2.
Definition BlackKingSideCastle : N := 4. Definition BlackQueenSideCastle : N := 8.
Definition NoCastlingRights : N := 0.
Definition is_allowed (c right : N) : bool := negb (N.land c right =? 0).

(** Named squares (H1 = 0 ... A8 = 63) *)
Definition H1 : N := 0. Definition G1 : N := 1. Definition F1 : N := 2. Definition E1 : N := 3.
Definition D1 : N := 4. Definition C1 : N := 5. Definition B1 : N := 6. Definition A1 : N := 7.
Definition H8 : N := 56. Definition G8 : N := 57. Definition F8 : N := 58. Definition E8 : N := 59.
Definition D8 : N := 60. Definition C8 : N := 61. Definition B8 : N := 62. Definition A8 : N := 63.

Record move := mkMove { mtype : N; mfrom : N; mto : N; mpiece : N; mpromo : N; mcapture : N }.
Definition no_move : move := mkMove 0 0 0 0 0 0.

Definition move_eqb (a b : move) : bool :=
  (mtype a =? mtype b) && (mfrom a =? mfrom b) && (mto a =? mto b) && (mpiece a =? mpiece b) &&
  (mpromo a =? mpromo b) && (mcapture a =? mcapture b).

(** Move.Equals: from, to, promotion *)
Definition move_equals (a b : move) : bool :=
  (mfrom a =? mfrom b) && (mto a =? mto b) && (mpromo a =? mpromo b).

Definition is_invalid (m : move) : bool := mtype m =? 0.
Definition is_capture (m : move) : bool := (mtype m =? CapturePromotion) || (mtype m =? Capture).
Definition is_capture_or_ep (m : move) : bool :=
  (mtype m =? CapturePromotion) || (mtype m =? Capture) || (mtype m =? EnPassant).
Definition is_promotion (m : move) : bool := (mtype m =? CapturePromotion) || (mtype m =? Promotion).
Definition is_underpromotion (m : move) : bool := is_promotion m && negb (mpromo m =? Queen).
Definition is_castle (m : move) : bool := (mtype m =? KingSideCastle) || (mtype m =? QueenSideCastle).

(** EnPassantTarget: (square, ok) *)
Definition ep_target (m : move) : N * bool :=
  if negb (mtype m =? Jump) then (0, false)
  else if sq_rank (mto m) =? 3 then (new_square (sq_file (mto m)) 2, true)
  else (new_square (sq_file (mto m)) 5, true).

(** EnPassantCapture *)
Definition ep_capture (m : move) : N * bool :=
  if negb (mtype m =? EnPassant) then (0, false)
  else if sq_rank (mto m) =? 2 then (new_square (sq_file (mto m)) 3, true)
  else (new_square (sq_file (mto m)) 4, true).

(** CastlingRookMove: (from, to, ok) *)
Definition castling_rook_move (m : move) : N * N * bool :=
  if (mtype m =? KingSideCastle) && (mfrom m =? E1) then (H1, F1, true)
  else if (mtype m =? QueenSideCastle) && (mfrom m =? E1) then (A1, D1, true)
  else if (mtype m =? KingSideCastle) && (mfrom m =? E8) then (H8, F8, true)
  else if (mtype m =? QueenSideCastle) && (mfrom m =? E8) then (A8, D8, true)
  else (0, 0, false).

(** CastlingRightsLost (repaired: rights accumulate over origin and destination) *)
Definition castling_rights_lost (m : move) : N :=
  let f := mfrom m in let t := mto m in
  N.lor (if f =? E1 then N.lor WhiteKingSideCastle WhiteQueenSideCastle else 0)
  (N.lor (if (f =? A1) || (t =? A1) then WhiteQueenSideCastle else 0)
  (N.lor (if (f =? H1) || (t =? H1) then WhiteKingSideCastle else 0)
  (N.lor (if f =? E8 then N.lor BlackKingSideCastle BlackQueenSideCastle else 0)
  (N.lor (if (f =? A8) || (t =? A8) then BlackQueenSideCastle else 0)
         (if (f =? H8) || (t =? H8) then BlackKingSideCastle else 0))))).

(** As found in the pinned snapshot: first matching case only. *)
Definition castling_rights_lost_legacy (m : move) : N :=
  let f := mfrom m in let t := mto m in
  if f =? E1 then N.lor WhiteKingSideCastle WhiteQueenSideCastle
  else if (f =? A1) || (t =? A1) then WhiteQueenSideCastle
  else if (f =? H1) || (t =? H1) then WhiteKingSideCastle
  else if f =? E8 then N.lor BlackKingSideCastle BlackQueenSideCastle
  else if (f =? A8) || (t =? A8) then BlackQueenSideCastle
  else if (f =? H8) || (t =? H8) then BlackKingSideCastle
  else NoCastlingRights.

(** updateNoProgress (repaired: only pawn moves and captures reset the clock; castling does not; the
    clock saturates at math.MaxInt instead of wrapping to a negative number) *)
Definition max_int : N := 9223372036854775807.
Definition update_noprogress (old : N) (m : move) : N :=
  if (mtype m =? Normal) || is_castle m then (if old =? max_int then old else old + 1) else 0.
Definition update_noprogress_legacy (old : N) (m : move) : N :=
  if negb (mtype m =? Normal) then 0 else old + 1.

(** safeCastlingSquares *)
Definition safe_castling_squares (c t : N) : list N :=
  if c =? White then
    if t =? KingSideCastle then [E1; F1] else if t =? QueenSideCastle then [E1; D1] else []
  else
    if t =? KingSideCastle then [E8; F8] else if t =? QueenSideCastle then [E8; D8] else [].
