(** M11 + the sequential part of M13 — the engine's game (pkg/engine/engine.go: Reset, Move,
    TakeBack, Position) and the UCI `position` / `ucinewgame` commands (pkg/engine/uci/uci.go,
    repaired: a continuation needs a token boundary and skips empty tokens). *)
From Coq Require Import NArith ZArith List Bool.
From Morlock.Model Require Import Bits Attacks Move Position Zobrist Board Fen.
Import ListNotations.
Open Scope N_scope.

Record engine := mkEngine { e_heap : heap; e_board : board }.

(** Engine.Reset: on a decoding error the engine is unchanged *)
Definition eng_reset (z : ztable) (e : engine) (fen : str) : engine * bool :=
  match decode fen with
  | Ok (pos, turn, np, fm) =>
      let '(h, b) := new_board z [] pos turn (Z.to_N np) fm in (mkEngine h b, true)
  | _ => (e, false)
  end.

(** Engine.Move: the first pseudo-legal move equal to the candidate (from, to, promotion) is pushed *)
Definition eng_move (z : ztable) (e : engine) (s : str) : engine * bool :=
  match parse_move s with
  | None => (e, false)
  | Some cand =>
      let b := e_board e in let h := e_heap e in
      match find (fun m => move_equals cand m) (pseudo_legal_moves (b_position h b) (b_turn b)) with
      | None => (e, false)
      | Some m => let '(h1, b1, ok) := push_move z h b m in
                  if ok then (mkEngine h1 b1, true) else (e, false)
      end
  end.

Definition eng_takeback (e : engine) : engine * bool :=
  let '(h1, b1, _, ok) := pop_move (e_heap e) (e_board e) in
  if ok then (mkEngine h1 b1, true) else (e, false).

(** Engine.Position *)
Definition eng_position (e : engine) : str :=
  let h := e_heap e in let b := e_board e in
  encode (b_position h b) (b_turn b) (Z.of_N (b_noprogress h b)) (b_moves b).

(** * UCI position / ucinewgame *)
Record dstate := mkD { d_eng : engine; d_last : str }.
Inductive dres := Running (s : dstate) | Exited.

Fixpoint is_prefix (p s : str) : bool :=
  match p, s with
  | [], _ => true
  | x :: p', y :: s' => (x =? y) && is_prefix p' s'
  | _ :: _, [] => false
  end.
(** isContinuation *)
Definition is_continuation (line last : str) : bool :=
  is_prefix last line &&
  ((length line =? length last)%nat || (match nth_error line (length last) with Some 32 => true | _ => false end)).

Definition moves_tok : str := [109; 111; 118; 101; 115].
Definition fen_tok : str := [102; 101; 110].

Fixpoint play_moves (z : ztable) (e : engine) (args : list str) : option engine :=
  match args with
  | [] => Some e
  | a :: r => if str_eqb a moves_tok then play_moves z e r
              else let (e1, ok) := eng_move z e a in if ok then play_moves z e1 r else None
  end.
(** new-position branch: everything before the token "moves" is skipped *)
Fixpoint play_after_moves (z : ztable) (e : engine) (args : list str) (started : bool) : option engine :=
  match args with
  | [] => Some e
  | a :: r => if str_eqb a moves_tok then play_after_moves z e r true
              else if started then
                let (e1, ok) := eng_move z e a in if ok then play_after_moves z e1 r true else None
              else play_after_moves z e r false
  end.

(** the `position` command; [line] is the raw line, [args] = tokens after the command word *)
Definition cmd_position (z : ztable) (st : dstate) (line : str) : dres :=
  let parts := split_space (trim_space line) in
  let args := tl parts in
  if negb (match d_last st with [] => true | _ => false end) && is_continuation line (d_last st) then
    match play_moves z (d_eng st) (fields (skipn (length (d_last st)) line)) with
    | Some e => Running (mkD e line)
    | None => Exited
    end
  else
    let position :=
      if (7 <=? length args)%nat && str_eqb (hd [] args) fen_tok then join_space (firstn 6 (tl args)) else fen_initial in
    let (e0, ok) := eng_reset z (d_eng st) position in
    if negb ok then Exited else
    match play_after_moves z e0 args false with
    | Some e => Running (mkD e line)
    | None => Exited
    end.

Definition cmd_ucinewgame (st : dstate) : dstate := mkD (d_eng st) [].

(** legacy continuation test (as found): textual prefix, remainder split on single spaces *)
Definition cmd_position_legacy_cont (line last : str) : bool :=
  negb (match last with [] => true | _ => false end) && is_prefix last line.
