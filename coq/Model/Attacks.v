(** M2/M3 — rotated bitboards and attack boards, mirroring pkg/board/bitboard.go 72-519.
    The lookup tables are the ones dumped from the running code (gen/). *)
From Coq Require Import NArith List.
From Morlock.gen Require Import GenTables GenRookRank GenRookFile GenBishopL GenBishopR.
From Morlock.Model Require Import Bits.
Import ListNotations.
Open Scope N_scope.

(** Colours and pieces as in color.go / piece.go *)
Definition White : N := 0.  Definition Black : N := 1.
Definition NoPiece : N := 0. Definition Pawn : N := 1. Definition Bishop : N := 2. Definition Knight : N := 3.
Definition Rook : N := 4. Definition Queen : N := 5. Definition King : N := 6.
Definition opponent (c : N) : N := if c =? White then Black else White.

Definition FileH : N := 0. Definition FileG : N := 1. Definition FileB : N := 6. Definition FileA : N := 7.

(** PawnCaptureboard *)
Definition pawn_captureboard (c pawns : N) : N :=
  if c =? White
  then N.lor (andnot (shl64 pawns 9) (bitfile FileH)) (andnot (shl64 pawns 7) (bitfile FileA))
  else N.lor (andnot (shr64 pawns 9) (bitfile FileA)) (andnot (shr64 pawns 7) (bitfile FileH)).

(** PawnMoveboard *)
Definition pawn_moveboard (all c pawns : N) : N :=
  if c =? White then N.land (shl64 pawns 8) (not64 all) else N.land (shr64 pawns 8) (not64 all).

Definition promotion_rank (c : N) : N := if c =? White then 7 else 0.
Definition pawn_promotion_rank (c : N) : N := bitrank (promotion_rank c).
Definition pawn_jump_rank (c : N) : N := if c =? White then bitrank 3 else bitrank 4.

(** RotatedBitboard *)
Record rotated := mkRot { r0 : N; r90 : N; r45L : N; r45R : N }.
Definition rot_empty : rotated := mkRot 0 0 0 0.
Definition rot_xor (r : rotated) (sq : N) : rotated :=
  mkRot (N.lxor (r0 r) (bitmask sq))
        (N.lxor (r90 r) (bitmask (nthN g_rot90 sq 0)))
        (N.lxor (r45L r) (bitmask (nthN g_rot45L sq 0)))
        (N.lxor (r45R r) (bitmask (nthN g_rot45R sq 0))).
(** NewRotatedBitboard *)
Definition new_rotated (bb : N) : rotated :=
  fold_left (fun acc sq => if is_set bb sq then rot_xor acc sq else acc) (seqN 64) rot_empty.

Definition tbl2 (t : list (list N)) (sq st : N) : N := nthN (nthN t sq []) st 0.

Definition king_attackboard (sq : N) : N := nthN g_king sq 0.
Definition knight_attackboard (sq : N) : N := nthN g_knight sq 0.

Definition rook_attackboard (bb : rotated) (sq : N) : N :=
  let rank := N.land (shr64 (r0 bb) (shl64 (sq_rank sq) 3)) 255 in
  let file := N.land (shr64 (r90 bb) (shl64 (sq_file sq) 3)) 255 in
  N.lor (tbl2 g_rookrank sq rank) (tbl2 g_rookfile sq file).

Definition bishop_attackboard (bb : rotated) (sq : N) : N :=
  let diagL := N.land (shr64 (r45L bb) (nthN g_off45L sq 0)) (nthN g_mask45L sq 0) in
  let diagR := N.land (shr64 (r45R bb) (nthN g_off45R sq 0)) (nthN g_mask45R sq 0) in
  N.lor (tbl2 g_bishopl sq diagL) (tbl2 g_bishopr sq diagR).

Definition queen_attackboard (bb : rotated) (sq : N) : N :=
  N.lor (rook_attackboard bb sq) (bishop_attackboard bb sq).

(** Attackboard: panics for Pawn / invalid piece; the model returns 0 there and the callers never
    pass such a piece (proved where it matters). *)
Definition attackboard (bb : rotated) (sq piece : N) : N :=
  if piece =? King then king_attackboard sq
  else if piece =? Queen then queen_attackboard bb sq
  else if piece =? Rook then rook_attackboard bb sq
  else if piece =? Bishop then bishop_attackboard bb sq
  else if piece =? Knight then knight_attackboard sq
  else 0.
