(** M5 — positions, move application and move generation, mirroring pkg/board/position.go.
    pieces : 14 words indexed by colour*7 + piece; index colour*7 + 0 holds all pieces of the colour. *)
From Coq Require Import NArith List Bool.
From Morlock.Model Require Import Bits Attacks Move.
Import ListNotations.
Open Scope N_scope.

Record position := mkPos {
  pieces : list N;
  rotated_bb : rotated;
  castling : N;
  enpassant : N      (* zero if last move was not a Jump *)
}.

Definition pidx (c p : N) : N := c * 7 + p.
Definition pget (pos : position) (c p : N) : N := nthN (pieces pos) (pidx c p) 0.

Definition empty_position (castling ep : N) : position :=
  mkPos (repeat 0 14) rot_empty castling ep.

Definition all_bb (pos : position) : N := r0 (rotated_bb pos).
Definition is_empty (pos : position) (sq : N) : bool := negb (is_set (all_bb pos) sq).

(** Position.xor *)
Definition pos_xor (pos : position) (sq c p : N) : position :=
  let pcs := pieces pos in
  let pcs := updN pcs (pidx c NoPiece) (N.lxor (nthN pcs (pidx c NoPiece) 0) (bitmask sq)) in
  let pcs := updN pcs (pidx c p) (N.lxor (nthN pcs (pidx c p) 0) (bitmask sq)) in
  mkPos pcs (rot_xor (rotated_bb pos) sq) (castling pos) (enpassant pos).

Record placement := mkPlacement { pl_square : N; pl_color : N; pl_piece : N }.

(** NewPosition: None on duplicate placement *)
Definition new_position (pls : list placement) (castling ep : N) : option position :=
  fold_left (fun acc pl =>
    match acc with
    | None => None
    | Some pos => if is_empty pos (pl_square pl) then Some (pos_xor pos (pl_square pl) (pl_color pl) (pl_piece pl)) else None
    end) pls (Some (empty_position castling ep)).

(** Position.Square: (colour, piece, ok) *)
Definition first_piece (pos : position) (c sq : N) : option N :=
  find (fun p => is_set (pget pos c p) sq) [Pawn; Bishop; Knight; Rook; Queen; King].
Definition square (pos : position) (sq : N) : option (N * N) :=
  if is_empty pos sq then None
  else
    match (if is_set (pget pos White NoPiece) sq then first_piece pos White sq else None) with
    | Some p => Some (White, p)
    | None =>
        match (if is_set (pget pos Black NoPiece) sq then first_piece pos Black sq else None) with
        | Some p => Some (Black, p)
        | None => None
        end
    end.

Definition AllPieces : list N := [King; Queen; Rook; Knight; Bishop; Pawn].
Definition QueenRookKnightBishop : list N := [Queen; Rook; Knight; Bishop].
Definition KingQueenRookKnightBishop : list N := [King; Queen; Rook; Knight; Bishop].

(** IsAttackedBy: is [sq] attacked by the given pieces of the opponent of [c] *)
Definition is_attacked_by (pos : position) (c sq : N) (l : list N) : bool :=
  let opp := opponent c in
  existsb (fun piece =>
    if piece =? Pawn then negb (N.land (pawn_captureboard opp (pget pos opp Pawn)) (bitmask sq) =? 0)
    else let pcs := pget pos opp piece in
         negb (pcs =? 0) && negb (N.land (attackboard (rotated_bb pos) sq piece) pcs =? 0)) l.
Definition is_attacked (pos : position) (c sq : N) : bool := is_attacked_by pos c sq AllPieces.
Definition is_defended (pos : position) (c sq : N) : bool := is_attacked pos (opponent c) sq.

(** IsChecked *)
Definition is_checked (pos : position) (c : N) : bool :=
  let k := ctz (pget pos c King) in
  if k =? 64 then false else is_attacked pos c k.

(** Position.Move: None if not legal *)
Definition pos_move (p : position) (m : move) : option position :=
  match square p (mfrom m) with
  | None => None
  | Some (turn, piece0) =>
    let ret := pos_xor p (mfrom m) turn piece0 in
    let ret := if is_capture m then pos_xor ret (mto m) (opponent turn) (mcapture m) else ret in
    let piece := if is_promotion m then mpromo m else piece0 in
    let ret := pos_xor ret (mto m) turn piece in
    let special : option position :=
      if mtype m =? EnPassant then
        Some (pos_xor ret (fst (ep_capture m)) (opponent turn) Pawn)
      else if is_castle m then
        if existsb (fun sq => is_attacked p turn sq) (safe_castling_squares turn (mtype m)) then None
        else let '(rf, rt, _) := castling_rook_move m in
             Some (pos_xor (pos_xor ret rf turn Rook) rt turn Rook)
      else Some ret in
    match special with
    | None => None
    | Some ret =>
      let ret := mkPos (pieces ret) (rotated_bb ret)
                       (andnot (castling p) (castling_rights_lost m)) (fst (ep_target m)) in
      if is_checked ret turn then None else Some ret
    end
  end.

(** captureAt *)
Definition capture_at (pos : position) (sq turn : N) : N :=
  match first_piece pos (opponent turn) sq with Some p => p | None => NoPiece end.

(** emitMove / emitPromo *)
Definition emit_move (pos : position) (turn t piece from attackboard : N) : list move :=
  map (fun to => mkMove t from to piece NoPiece (if t =? Capture then capture_at pos to turn else NoPiece))
      (bits_asc attackboard).
Definition emit_promo (pos : position) (turn t piece from attackboard : N) : list move :=
  flat_map (fun to =>
      let cap := if t =? CapturePromotion then capture_at pos to turn else NoPiece in
      map (fun pc => mkMove t from to piece pc cap) QueenRookKnightBishop)
    (bits_asc attackboard).

Definition whiteKingSideCastlingMask : N := N.lor (bitmask G1) (bitmask F1).
Definition whiteQueenSideCastlingMask : N := N.lor (N.lor (bitmask B1) (bitmask C1)) (bitmask D1).
Definition blackKingSideCastlingMask : N := N.lor (bitmask G8) (bitmask F8).
Definition blackQueenSideCastlingMask : N := N.lor (N.lor (bitmask B8) (bitmask C8)) (bitmask D8).

(** PseudoLegalMoves, in the emission order of the implementation *)
Definition pseudo_legal_moves (p : position) (turn : N) : list move :=
  let mask := not64 (pget p turn NoPiece) in
  let captures := pget p (opponent turn) NoPiece in
  let moves := not64 captures in
  let jumps := pawn_jump_rank turn in
  let promos := pawn_promotion_rank turn in
  let rot := all_bb p in
  let officers :=
    flat_map (fun piece =>
      flat_map (fun from =>
        let ab := N.land (attackboard (rotated_bb p) from piece) mask in
        emit_move p turn Normal piece from (N.land ab moves) ++
        emit_move p turn Capture piece from (N.land ab captures))
      (bits_asc (pget p turn piece))) QueenRookKnightBishop in
  let pawns :=
    flat_map (fun from =>
      let origin := bitmask from in
      let captureboard := N.land (pawn_captureboard turn origin) mask in
      let pushboard := pawn_moveboard rot turn origin in
      let jumpboard := N.land (pawn_moveboard rot turn pushboard) jumps in
      emit_move p turn Capture Pawn from (andnot (N.land captureboard captures) promos) ++
      emit_move p turn Push Pawn from (andnot pushboard promos) ++
      emit_move p turn Jump Pawn from jumpboard ++
      emit_promo p turn CapturePromotion Pawn from (N.land (N.land captureboard captures) promos) ++
      emit_promo p turn Promotion Pawn from (N.land pushboard promos) ++
      (if negb (enpassant p =? 0)
       then emit_move p turn EnPassant Pawn from (N.land captureboard (bitmask (enpassant p)))
       else []))
    (bits_asc (pget p turn Pawn)) in
  let king :=
    let kb := pget p turn King in
    if kb =? 0 then [] else
    let from := ctz kb in
    let ab := N.land (king_attackboard from) mask in
    emit_move p turn Normal King from (N.land ab moves) ++
    emit_move p turn Capture King from (N.land ab captures) ++
    (if turn =? White then
       (if is_allowed (castling p) WhiteKingSideCastle && (N.land whiteKingSideCastlingMask rot =? 0)
           && negb (N.land (pget p turn Rook) (bitmask H1) =? 0)
        then emit_move p turn KingSideCastle King from (bitmask G1) else []) ++
       (if is_allowed (castling p) WhiteQueenSideCastle && (N.land whiteQueenSideCastlingMask rot =? 0)
           && negb (N.land (pget p turn Rook) (bitmask A1) =? 0)
        then emit_move p turn QueenSideCastle King from (bitmask C1) else [])
     else
       (if is_allowed (castling p) BlackKingSideCastle && (N.land blackKingSideCastlingMask rot =? 0)
           && negb (N.land (pget p turn Rook) (bitmask H8) =? 0)
        then emit_move p turn KingSideCastle King from (bitmask G8) else []) ++
       (if is_allowed (castling p) BlackQueenSideCastle && (N.land blackQueenSideCastlingMask rot =? 0)
           && negb (N.land (pget p turn Rook) (bitmask A8) =? 0)
        then emit_move p turn QueenSideCastle King from (bitmask C8) else [])) in
  officers ++ pawns ++ king.

(** LegalMoves *)
Definition legal_moves (p : position) (turn : N) : list move :=
  filter (fun m => match pos_move p m with Some _ => true | None => false end) (pseudo_legal_moves p turn).

Definition is_checkmate (p : position) (c : N) : bool :=
  is_checked p c && match legal_moves p c with [] => true | _ => false end.

(** HasInsufficientMaterial (repaired mask: the light squares, 0xaa55aa55aa55aa55) *)
Definition whiteSquareMask : N := 0xaa55aa55aa55aa55.
Definition whiteSquareMask_legacy : N := 0xaaaaaaaaaaaaaaaa.
Definition has_insufficient_material_with (mask : N) (p : position) : bool :=
  let n := popcount (all_bb p) in
  if n =? 2 then true
  else if n =? 3 then
    popcount (N.lor (N.lor (pget p White Knight) (pget p Black Knight)) (N.lor (pget p White Bishop) (pget p Black Bishop))) =? 1
  else if n =? 4 then
    let bishops := N.lor (pget p White Bishop) (pget p Black Bishop) in
    (popcount bishops =? 2) && negb (popcount (N.land mask bishops) =? 1)
  else false.
Definition has_insufficient_material := has_insufficient_material_with whiteSquareMask.

(** structural equality of positions (Go: *tmp.pos == *n.pos) *)
Definition rot_eqb (a b : rotated) : bool :=
  (r0 a =? r0 b) && (r90 a =? r90 b) && (r45L a =? r45L b) && (r45R a =? r45R b).
Fixpoint listN_eqb (a b : list N) : bool :=
  match a, b with
  | [], [] => true
  | x :: a', y :: b' => (x =? y) && listN_eqb a' b'
  | _, _ => false
  end.
Definition pos_eqb (a b : position) : bool :=
  listN_eqb (pieces a) (pieces b) && rot_eqb (rotated_bb a) (rotated_bb b) &&
  (castling a =? castling b) && (enpassant a =? enpassant b).
