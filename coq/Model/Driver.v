(** * M13 - the concurrent glue of the UCI driver as a small-step transition system.

    Mirrors (line numbers of the repaired code, commits 2d5ca72 / 76ce114 / 7f9a5f9):
      pkg/engine/uci/uci.go                 Driver.process (89-682), ensureInactive (690-693),
                                            searchCompleted (695-715)
      pkg/engine/engine.go                  Analyze (226-243), Halt (246-257), haltSearchIfActive (259-268)
      pkg/search/searchctl/iterative.go     Launch (20-30), handle.process (39-98), handle.Halt (100-109)
      pkg/search/searchctl/timectrl.go      EnforceTimeControl (47-60)

    Goroutines: the command loop (Driver.process), one search process per successful `go`
    (handle.process), one forwarder per successful `go` (uci.go:551-560), timers
    (movetime: uci.go:564-568, hard clock limit: timectrl.go:54-56).

    Every step is [fire l s = Some s'] for a label [l]; one label = one atomic action of one goroutine:

      label        goroutine   Go code
      -----------  ----------  -----------------------------------------------------------------
      LCmd         loop        uci.go:248 `case line, ok := <-in`: end of input (249-252, `return`)
                               or one command handled up to its first blocking point:
                                 isready 284; ucinewgame 362; position 374 (+ Reset/Move errors
                                 385-388, 401-404, 416-419 = [CPosition false]); go 466 (argument
                                 errors 482-490 = [CGoBad]; book move 520-537 = [CGoBook];
                                 Analyze..timer 540-568 = continuation [KGo]); stop 576-579;
                                 quit 591; anything else 286, 295, 333, 581, 594 = [CJunk].
                               `return` runs the deferred ensureInactive / close(d.out) / d.Close()
                               (90-92) = [do_exit] .. [finish].
      LRecv        loop        uci.go:597 `case u := <-d.ponder`, 663-675.
      LHaltInit    loop        iterative.go:101-102 `<-h.init.Closed(); h.quit.Close()` inside
                               engine.go:261 (Engine.Halt 246-257, called from uci.go 576, 668, 692).
      LHaltDone    loop        iterative.go:103-108 `<-h.done.Closed()`, return h.pv; engine.go:264
                               `e.active = nil`; then the rest of the interrupted handler
                               ([run_cont]: uci.go 363 / 376-421 / 468-568 / 577-579 / 668-670 / 91-90).
      LIter h b    search h    iterative.go:54-96: iteration `depth` completes: store pv (76-78),
                               drain-then-send on the 1-slot `out` (80-84), init.Close() (86);
                               b = true: a limit fired (87-95) -> return;  b = false: depth++ and the
                               loop test 51 (quit closed -> return).  `return` = deferred close(out),
                               init.Close(), done.Close() (40-42).
      LHalted h    search h    iterative.go:54-57 the search observes the cancelled context
                               (ErrHalted) or the loop test 51 fails: return (40-42).
      LFRecv h     forwarder   uci.go:553-554 `for pv := range out { last = pv`
      LFPost h     forwarder   uci.go:555 `d.ponder <- update{seq, pv}` (blocks while ponder is full)
      LFClosed h   forwarder   uci.go:553 range ends (closed and empty), 557 `if !infinite`
      LFPostDone h forwarder   uci.go:558 `d.ponder <- update{seq, last, done}`
      LTMove q     timer       uci.go:565-567 `d.ponder <- update{seq, expired}`
      LTHard h     timer       timectrl.go:54-56 `h.Halt()`: `<-init; quit.Close()` (the rest of that
                               Halt has no effect)

    Atomicity choices (documented reductions):
    - A completed iteration (store, drain, send, init.Close, limit tests) is one step, and so is the
      exit of the search (close(out); init.Close(); done.Close()): all these operations are performed
      by the same goroutine without reading shared state in between (the only read is quit at the loop
      test, modelled as "read at completion time or later": a search running with quit closed may
      complete at most one more iteration - an over-approximation of the Go code), and the closes
      only ENABLE other goroutines, so every interleaving of the finer steps is a stuttering of one
      of the modelled ones.
    - The engine mutex is not modelled in the repaired system: only the loop goroutine calls Engine
      methods.  Engine.Reset/Move (position) call haltSearchIfActive after ensureInactive already
      halted: no effect.
    - Sends on d.out (capacity 100) do not block: environment assumption (the GUI reads the output).
      `case <-d.Closed()` (uci.go:677): nobody but process itself closes the driver.
    - searchCompleted prints the final info line and the bestmove (uci.go:707-708) or only
      `bestmove 0000` (712): both are folded into the single line [LBest seq depth].
    - The abstract search result is its depth (nat); 0 stands for the zero PV (no iteration stored).

    The [legacy] part at the end (functions named lg_...) is the hand-off BEFORE 76ce114 (forwarder calls
    searchCompleted and the movetime timer calls Engine.Halt directly, `active` is a bool, quit does
    not halt), used only to exhibit the three defects as counterexample traces.

    No proofs in this file. *)
From Coq Require Import List Bool Arith PeanoNat.
Import ListNotations.

(** ** Commands, messages, output *)

Record goopts := mkGo {
  g_inf : bool;   (* `go infinite` *)
  g_mt  : bool;   (* `go movetime n`, n > 0: a movetime timer is started *)
  g_lim : bool;   (* the search may end by itself (depth limit, forced mate, soft time limit) *)
  g_clk : bool    (* wtime/btime given: EnforceTimeControl starts the hard-limit timer *)
}.

Inductive cmd :=
| CIsReady
| CNewGame
| CPosition (ok : bool)     (* ok = false: invalid FEN or move: the handler returns *)
| CGo (o : goopts)
| CGoBad                    (* `go depth` without / with a malformed number: the handler returns *)
| CGoBook                   (* `go` answered from the opening book *)
| CStop
| CQuit
| CJunk.                    (* debug, setoption, register, ponderhit, unknown, empty, malformed *)

Inductive upd :=            (* uci.go:63-68 *)
| UInfo (seq d : nat)
| UDone (seq d : nat)
| UExp (seq : nat).

Definition upd_seq (u : upd) : nat :=
  match u with UInfo q _ => q | UDone q _ => q | UExp q => q end.

Inductive out_line :=       (* ghost-tagged with the seq of the search that produced the line *)
| LReady
| LInfo (seq d : nat)
| LBest (seq d : nat).

(** ** Loop program counter *)

Inductive cont :=           (* what the loop does when the Engine.Halt it is blocked in returns *)
| KIdle                     (* ucinewgame, valid position *)
| KExit                     (* invalid position, malformed go: `return` *)
| KGo (o : goopts)          (* go: Analyze, searches++, active.Store, forwarder, timer *)
| KGoBook                   (* go answered from the book *)
| KStop                     (* stop: searchCompleted(d.searches, pv) if err == nil *)
| KExpired (seq : nat)      (* expired update: searchCompleted(u.seq, pv) if err == nil *)
| KClose.                   (* deferred ensureInactive: then close(d.out), d.Close() *)

Inductive lpc :=
| PIdle                             (* at the select, uci.go:247 *)
| PHaltInit (h : nat) (k : cont)    (* in handle.Halt, waiting for init *)
| PHaltDone (h : nat) (k : cont)    (* in handle.Halt, quit closed, waiting for done *)
| PExited.

(** ** One search: handle + process + out channel + forwarder.  [h_id] = its sequence number. *)

Inductive fstate := FRead | FPost (d : nat) | FPostDone | FFin.
Inductive pstate := PRun (k : nat) | PExit.     (* running the iteration of depth k / returned *)

Record srch := mkSrch {
  h_id : nat; h_opt : goopts;
  h_init : bool; h_quit : bool; h_done : bool;      (* the three AsyncClosers *)
  h_pv : nat;                                       (* h.pv: depth of the stored pv, 0 = zero PV *)
  h_proc : pstate;
  h_out : option nat; h_oclosed : bool;             (* `out`, capacity 1 *)
  h_fwd : fstate; h_last : nat;                     (* forwarder and its `last` *)
  h_sent : list nat                                 (* ghost: every depth sent on out, newest first *)
}.

Inductive timer :=
| TMove (seq : nat)                     (* pending movetime timer of search seq *)
| THard (h : nat)                       (* pending hard-limit timer holding handle h *)
| TLegacyHalt (h : nat) (quit_done : bool).
    (* legacy only: the movetime timer goroutine inside Engine.Halt, holding the engine mutex *)

Record dstate := mkD {
  inp : list cmd;                   (* remaining input; [] = end of input *)
  consumed : list cmd;              (* ghost: commands consumed, newest first *)
  pc : lpc;
  searches : nat;
  active : nat;                     (* 0 = none *)
  eactive : option nat;             (* Engine.active *)
  srchs : list srch;                (* newest first *)
  timers : list timer;
  ponder : list upd;                (* head = oldest *)
  emitted : list out_line;          (* newest first *)
  out_closed : bool;
  crashed : bool;                   (* a send on the closed output happened *)
  g_super : bool;                   (* ghost: the latest go has been superseded (ensureInactive ran) *)
  g_stopped : bool                  (* ghost: a stop was consumed since the latest go *)
}.

Definition set_inp v s := mkD v (consumed s) (pc s) (searches s) (active s) (eactive s) (srchs s) (timers s) (ponder s) (emitted s) (out_closed s) (crashed s) (g_super s) (g_stopped s).
Definition set_consumed v s := mkD (inp s) v (pc s) (searches s) (active s) (eactive s) (srchs s) (timers s) (ponder s) (emitted s) (out_closed s) (crashed s) (g_super s) (g_stopped s).
Definition set_pc v s := mkD (inp s) (consumed s) v (searches s) (active s) (eactive s) (srchs s) (timers s) (ponder s) (emitted s) (out_closed s) (crashed s) (g_super s) (g_stopped s).
Definition set_searches v s := mkD (inp s) (consumed s) (pc s) v (active s) (eactive s) (srchs s) (timers s) (ponder s) (emitted s) (out_closed s) (crashed s) (g_super s) (g_stopped s).
Definition set_active v s := mkD (inp s) (consumed s) (pc s) (searches s) v (eactive s) (srchs s) (timers s) (ponder s) (emitted s) (out_closed s) (crashed s) (g_super s) (g_stopped s).
Definition set_eactive v s := mkD (inp s) (consumed s) (pc s) (searches s) (active s) v (srchs s) (timers s) (ponder s) (emitted s) (out_closed s) (crashed s) (g_super s) (g_stopped s).
Definition set_srchs v s := mkD (inp s) (consumed s) (pc s) (searches s) (active s) (eactive s) v (timers s) (ponder s) (emitted s) (out_closed s) (crashed s) (g_super s) (g_stopped s).
Definition set_timers v s := mkD (inp s) (consumed s) (pc s) (searches s) (active s) (eactive s) (srchs s) v (ponder s) (emitted s) (out_closed s) (crashed s) (g_super s) (g_stopped s).
Definition set_ponder v s := mkD (inp s) (consumed s) (pc s) (searches s) (active s) (eactive s) (srchs s) (timers s) v (emitted s) (out_closed s) (crashed s) (g_super s) (g_stopped s).
Definition set_emitted v s := mkD (inp s) (consumed s) (pc s) (searches s) (active s) (eactive s) (srchs s) (timers s) (ponder s) v (out_closed s) (crashed s) (g_super s) (g_stopped s).
Definition set_out_closed v s := mkD (inp s) (consumed s) (pc s) (searches s) (active s) (eactive s) (srchs s) (timers s) (ponder s) (emitted s) v (crashed s) (g_super s) (g_stopped s).
Definition set_crashed v s := mkD (inp s) (consumed s) (pc s) (searches s) (active s) (eactive s) (srchs s) (timers s) (ponder s) (emitted s) (out_closed s) v (g_super s) (g_stopped s).
Definition set_super v s := mkD (inp s) (consumed s) (pc s) (searches s) (active s) (eactive s) (srchs s) (timers s) (ponder s) (emitted s) (out_closed s) (crashed s) v (g_stopped s).
Definition set_stopped v s := mkD (inp s) (consumed s) (pc s) (searches s) (active s) (eactive s) (srchs s) (timers s) (ponder s) (emitted s) (out_closed s) (crashed s) (g_super s) v.

Definition init_state (script : list cmd) : dstate :=
  mkD script [] PIdle 0 0 None [] [] [] [] false false false false.

(** ** Searches and timers by identity *)

Definition find_h (id : nat) (l : list srch) : option srch :=
  find (fun r => h_id r =? id) l.

Definition upd_h (id : nat) (f : srch -> srch) (l : list srch) : list srch :=
  map (fun r => if h_id r =? id then f r else r) l.

Definition timer_eqb (a b : timer) : bool :=
  match a, b with
  | TMove x, TMove y => x =? y
  | THard x, THard y => x =? y
  | TLegacyHalt x p, TLegacyHalt y q => (x =? y) && Bool.eqb p q
  | _, _ => false
  end.

Fixpoint remove_timer (t : timer) (l : list timer) : list timer :=
  match l with
  | [] => []
  | x :: r => if timer_eqb t x then r else x :: remove_timer t r
  end.

Definition has_timer (t : timer) (l : list timer) : bool := existsb (timer_eqb t) l.

(** ** Transitions of one search record *)

(* return of handle.process: close(out); init.Close(); done.Close()  (iterative.go:40-42) *)
Definition srch_exit (r : srch) : srch :=
  mkSrch (h_id r) (h_opt r) true (h_quit r) true (h_pv r) PExit (h_out r) true (h_fwd r) (h_last r) (h_sent r).

(* iteration k completes (iterative.go:63-96) *)
Definition srch_iter (k : nat) (stop : bool) (r : srch) : srch :=
  let r1 := mkSrch (h_id r) (h_opt r) true (h_quit r) (h_done r) k (PRun (S k)) (Some k) (h_oclosed r)
                   (h_fwd r) (h_last r) (k :: h_sent r) in
  if stop || h_quit r then srch_exit r1 else r1.

Definition srch_set_quit (r : srch) : srch :=
  mkSrch (h_id r) (h_opt r) (h_init r) true (h_done r) (h_pv r) (h_proc r) (h_out r) (h_oclosed r) (h_fwd r) (h_last r) (h_sent r).

Definition srch_frecv (d : nat) (r : srch) : srch :=
  mkSrch (h_id r) (h_opt r) (h_init r) (h_quit r) (h_done r) (h_pv r) (h_proc r) None (h_oclosed r) (FPost d) d (h_sent r).

Definition srch_set_fwd (f : fstate) (r : srch) : srch :=
  mkSrch (h_id r) (h_opt r) (h_init r) (h_quit r) (h_done r) (h_pv r) (h_proc r) (h_out r) (h_oclosed r) f (h_last r) (h_sent r).

Definition new_srch (seq : nat) (o : goopts) : srch :=
  mkSrch seq o false false false 0 (PRun 1) None false FRead 0 [].

(** ** The loop's handlers *)

(* d.out <- line.  Only the loop calls this in the repaired system. *)
Definition emit (l : out_line) (s : dstate) : dstate :=
  if out_closed s then set_crashed true s else set_emitted (l :: emitted s) s.

(* uci.go:695-715 *)
Definition search_completed (seq d : nat) (s : dstate) : dstate :=
  if negb (seq =? 0) && (active s =? seq) then emit (LBest seq d) (set_active 0 s) else s.

(* close(d.out); d.Close()  (uci.go:91, 90) *)
Definition finish (s : dstate) : dstate := set_pc PExited (set_out_closed true s).

(* `return` from process: deferred ensureInactive (uci.go:92, 690-693), then finish *)
Definition do_exit (s : dstate) : dstate :=
  let s1 := set_super true (set_active 0 s) in
  match eactive s1 with
  | Some h => set_pc (PHaltInit h KClose) s1
  | None => finish s1
  end.

(* uci.go:540-568 after a successful Analyze (engine.go:240-242, iterative.go:20-30, timectrl.go:54) *)
Definition launch (o : goopts) (s : dstate) : dstate :=
  let seq := S (searches s) in
  let tm := (if g_mt o then [TMove seq] else []) ++ (if g_clk o then [THard seq] else []) in
  set_stopped false (set_super false
    (set_timers (tm ++ timers s)
      (set_srchs (new_srch seq o :: srchs s)
        (set_eactive (Some seq) (set_active seq (set_searches seq s)))))).

(* uci.go:533-535 *)
Definition book_go (s : dstate) : dstate :=
  let seq := S (searches s) in
  search_completed seq 0
    (set_stopped false (set_super false (set_active seq (set_searches seq s)))).

(* The rest of a handler after Engine.Halt returned; r = Some pv (err == nil) or None (no active search). *)
Definition run_cont (k : cont) (r : option nat) (s : dstate) : dstate :=
  match k with
  | KIdle => set_pc PIdle s
  | KExit => do_exit s
  | KGo o => match eactive s with
             | Some _ => do_exit s                      (* Analyze fails (engine.go:236-238): return *)
             | None => set_pc PIdle (launch o s)
             end
  | KGoBook => set_pc PIdle (book_go s)
  | KStop => set_pc PIdle (match r with Some d => search_completed (searches s) d s | None => s end)
  | KExpired q => set_pc PIdle (match r with Some d => search_completed q d s | None => s end)
  | KClose => finish s
  end.

(* Engine.Halt (engine.go:246-268) up to the first blocking point *)
Definition engine_halt (k : cont) (s : dstate) : dstate :=
  match eactive s with
  | Some h => set_pc (PHaltInit h k) s
  | None => run_cont k None s
  end.

(* uci.go:690-693 *)
Definition ensure_inactive (k : cont) (s : dstate) : dstate :=
  engine_halt k (set_super true (set_active 0 s)).

Definition handle_cmd (c : cmd) (s : dstate) : dstate :=
  match c with
  | CIsReady => emit LReady s
  | CJunk => s
  | CNewGame => ensure_inactive KIdle s
  | CPosition ok => ensure_inactive (if ok then KIdle else KExit) s
  | CGo o => ensure_inactive (KGo o) s
  | CGoBad => ensure_inactive KExit s
  | CGoBook => ensure_inactive KGoBook s
  | CStop => engine_halt KStop (set_stopped true s)
  | CQuit => do_exit s
  end.

(* uci.go:663-675 *)
Definition handle_upd (u : upd) (s : dstate) : dstate :=
  if upd_seq u =? active s then
    match u with
    | UExp q => engine_halt (KExpired q) s
    | UDone q d => search_completed q d s
    | UInfo q d => emit (LInfo q d) s
    end
  else s.

(** ** Labels and the step function *)

Inductive label :=
| LCmd | LRecv | LHaltInit | LHaltDone
| LIter (h : nat) (stop : bool) | LHalted (h : nat)
| LFRecv (h : nat) | LFPost (h : nat) | LFClosed (h : nat) | LFPostDone (h : nat)
| LTMove (seq : nat) | LTHard (h : nat)
| LTLegInit (h : nat) | LTLegDone (h : nat).     (* legacy only *)

Section Steps.
  Variable cap : nat.     (* capacity of d.ponder: 400 in NewDriver (uci.go:82) *)

  Definition with_srch (h : nat) (s : dstate) (f : srch -> option dstate) : option dstate :=
    match find_h h (srchs s) with Some r => f r | None => None end.

  Definition post (u : upd) (s : dstate) : option dstate :=
    if length (ponder s) <? cap then Some (set_ponder (ponder s ++ [u]) s) else None.

  Definition fire (l : label) (s : dstate) : option dstate :=
    match l with
    | LCmd =>
        match pc s with
        | PIdle =>
            match inp s with
            | [] => Some (do_exit s)
            | c :: rest => Some (handle_cmd c (set_consumed (c :: consumed s) (set_inp rest s)))
            end
        | _ => None
        end
    | LRecv =>
        match pc s, ponder s with
        | PIdle, u :: rest => Some (handle_upd u (set_ponder rest s))
        | _, _ => None
        end
    | LHaltInit =>
        match pc s with
        | PHaltInit h k =>
            with_srch h s (fun r =>
              if h_init r then Some (set_pc (PHaltDone h k) (set_srchs (upd_h h srch_set_quit (srchs s)) s))
              else None)
        | _ => None
        end
    | LHaltDone =>
        match pc s with
        | PHaltDone h k =>
            with_srch h s (fun r =>
              if h_done r then Some (run_cont k (Some (h_pv r)) (set_eactive None s)) else None)
        | _ => None
        end
    | LIter h stop =>
        with_srch h s (fun r =>
          match h_proc r with
          | PRun k =>
              if implb stop (g_lim (h_opt r))
              then Some (set_srchs (upd_h h (srch_iter k stop) (srchs s)) s)
              else None
          | PExit => None
          end)
    | LHalted h =>
        with_srch h s (fun r =>
          match h_proc r with
          | PRun _ => if h_quit r then Some (set_srchs (upd_h h srch_exit (srchs s)) s) else None
          | PExit => None
          end)
    | LFRecv h =>
        with_srch h s (fun r =>
          match h_fwd r, h_out r with
          | FRead, Some d => Some (set_srchs (upd_h h (srch_frecv d) (srchs s)) s)
          | _, _ => None
          end)
    | LFPost h =>
        with_srch h s (fun r =>
          match h_fwd r with
          | FPost d =>
              match post (UInfo h d) s with
              | Some s1 => Some (set_srchs (upd_h h (srch_set_fwd FRead) (srchs s1)) s1)
              | None => None
              end
          | _ => None
          end)
    | LFClosed h =>
        with_srch h s (fun r =>
          match h_fwd r, h_out r with
          | FRead, None =>
              if h_oclosed r
              then Some (set_srchs (upd_h h (srch_set_fwd (if g_inf (h_opt r) then FFin else FPostDone)) (srchs s)) s)
              else None
          | _, _ => None
          end)
    | LFPostDone h =>
        with_srch h s (fun r =>
          match h_fwd r with
          | FPostDone =>
              match post (UDone h (h_last r)) s with
              | Some s1 => Some (set_srchs (upd_h h (srch_set_fwd FFin) (srchs s1)) s1)
              | None => None
              end
          | _ => None
          end)
    | LTMove q =>
        if has_timer (TMove q) (timers s)
        then match post (UExp q) s with
             | Some s1 => Some (set_timers (remove_timer (TMove q) (timers s1)) s1)
             | None => None
             end
        else None
    | LTHard h =>
        if has_timer (THard h) (timers s)
        then with_srch h s (fun r =>
               if h_init r
               then Some (set_timers (remove_timer (THard h) (timers s))
                            (set_srchs (upd_h h srch_set_quit (srchs s)) s))
               else None)
        else None
    | LTLegInit _ | LTLegDone _ => None
    end.

  (** The step relation of the repaired system. *)
  Definition lstep (l : label) (s s' : dstate) : Prop := fire l s = Some s'.
  Definition step (s s' : dstate) : Prop := exists l, lstep l s s'.

  (** internal steps: everything but the consumption of input *)
  Definition is_internal (l : label) : bool := match l with LCmd => false | _ => true end.
  Definition istep (s s' : dstate) : Prop := exists l, is_internal l = true /\ lstep l s s'.

  Inductive reachable (script : list cmd) : dstate -> Prop :=
  | reach_init : reachable script (init_state script)
  | reach_step : forall s s', reachable script s -> step s s' -> reachable script s'.

  (** *** Executable successor enumeration.  [maxd] bounds the depth a search may continue after
      (an iteration of depth >= maxd may still complete, but only with the limit firing), so
      that small instances are finite; the relation [step] has no such bound. *)
  Variable maxd : nat.

  Definition srch_labels (r : srch) : list label :=
    let h := h_id r in
    (match h_proc r with PRun k => if k <? maxd then [LIter h false] else [] | PExit => [] end)
    ++ [LIter h true; LHalted h; LFRecv h; LFPost h; LFClosed h; LFPostDone h].

  Definition timer_labels (t : timer) : list label :=
    match t with
    | TMove q => [LTMove q]
    | THard h => [LTHard h]
    | TLegacyHalt h false => [LTLegInit h]
    | TLegacyHalt h true => [LTLegDone h]
    end.

  Definition labels (s : dstate) : list label :=
    [LCmd; LRecv; LHaltInit; LHaltDone] ++ flat_map srch_labels (srchs s) ++ flat_map timer_labels (timers s).

  Definition lsteps_with (f : label -> dstate -> option dstate) (s : dstate) : list (label * dstate) :=
    flat_map (fun l => match f l s with Some s' => [(l, s')] | None => [] end) (labels s).

  Definition lsteps (s : dstate) : list (label * dstate) := lsteps_with fire s.
  Definition steps (s : dstate) : list dstate := map snd (lsteps s).
  Definition step_enabled (s : dstate) : bool := match lsteps s with [] => false | _ => true end.
  Definition internal_enabled (s : dstate) : bool := existsb (fun p => is_internal (fst p)) (lsteps s).
End Steps.

(** running a trace of labels *)
Fixpoint run_with (f : label -> dstate -> option dstate) (tr : list label) (s : dstate) : option dstate :=
  match tr with
  | [] => Some s
  | l :: r => match f l s with Some s' => run_with f r s' | None => None end
  end.
Definition run (cap : nat) := run_with (fire cap).

(** ** Boolean equality of states and bounded exhaustive exploration *)

Scheme Boolean Equality for goopts.
Scheme Boolean Equality for cmd.
Scheme Boolean Equality for upd.
Scheme Boolean Equality for out_line.
Scheme Boolean Equality for cont.
Scheme Boolean Equality for lpc.
Scheme Boolean Equality for fstate.
Scheme Boolean Equality for pstate.
Scheme Boolean Equality for srch.
Scheme Boolean Equality for timer.
Scheme Boolean Equality for dstate.

Definition mem_state (s : dstate) (l : list dstate) : bool := existsb (dstate_beq s) l.

(* visited states are kept in buckets under a cheap key, so that membership compares few states *)
Definition pc_tag (p : lpc) : nat :=
  match p with PIdle => 0 | PHaltInit _ _ => 1 | PHaltDone _ _ => 2 | PExited => 3 end.
Definition state_key (s : dstate) : nat :=
  length (inp s) + 8 * (pc_tag (pc s) + 4 * (length (ponder s) + 6 * length (emitted s))).

Definition buckets := list (nat * list dstate).

Fixpoint bucket_mem (k : nat) (s : dstate) (b : buckets) : bool :=
  match b with
  | [] => false
  | (k', l) :: r => if k =? k' then mem_state s l else bucket_mem k s r
  end.

Fixpoint bucket_add (k : nat) (s : dstate) (b : buckets) : buckets :=
  match b with
  | [] => [(k, [s])]
  | (k', l) :: r => if k =? k' then (k', s :: l) :: r else (k', l) :: bucket_add k s r
  end.

(* add the candidates not yet visited: returns (new frontier, visited) *)
Fixpoint add_new (cands : list dstate) (fresh : list dstate) (visited : buckets) : list dstate * buckets :=
  match cands with
  | [] => (fresh, visited)
  | c :: r =>
    let k := state_key c in
    if bucket_mem k c visited then add_new r fresh visited
    else add_new r (c :: fresh) (bucket_add k c visited)
  end.

(** Breadth-first closure: [Some all_states] if the frontier empties within [fuel] rounds. *)
Fixpoint explore_with (succ : dstate -> list dstate) (fuel : nat) (frontier : list dstate) (visited : buckets)
  : option (list dstate) :=
  match frontier with
  | [] => Some (flat_map snd visited)
  | _ =>
    match fuel with
    | O => None
    | S f =>
      let (fresh, visited') := add_new (flat_map succ frontier) [] visited in
      explore_with succ f fresh visited'
    end
  end.

Definition explore (cap maxd fuel : nat) (script : list cmd) : option (list dstate) :=
  let s0 := init_state script in explore_with (steps cap maxd) fuel [s0] [(state_key s0, [s0])].

(** ** Observations and the trace checker

    [obs_ok script obs] decides whether the sequence [obs] of output lines of the real driver
    (uciok header stripped; `readyok` -> OReady, `info ...` -> OInfo, `bestmove ...` -> OBest, in
    order) can be explained by SOME run of the command [script] that respects the safety properties:

    - the k-th OReady is the answer to the k-th isready (same atomic step, so it splits the output
      exactly where the command was consumed);
    - OInfo / OBest only while a go is pending (consumed, not superseded by position / ucinewgame /
      go / exit, not yet answered); OBest answers it (at most one bestmove per go, none stale);
    - a `stop` consumed while a go is pending is answered by (info* then) bestmove before the next
      command is consumed; a book go likewise;
    - nothing after the loop exited (quit, invalid position, malformed go, end of input);
    - at the end of [obs] the rest of the script must be consumable without owing any output.

    Whether a search "ended by itself" cannot be seen from script and output alone (timing), so
    a go without stop may remain unanswered; recorders should follow such a go by `stop` or wait.
    The matcher is a subset construction over configurations (remaining script, monitor state). *)

Inductive obs_line := OReady | OInfo | OBest.

Definition untag (l : out_line) : obs_line :=
  match l with LReady => OReady | LInfo _ _ => OInfo | LBest _ _ => OBest end.

Definition observed (s : dstate) : list obs_line := map untag (rev (emitted s)).

Inductive mon := MNone | MPending | MMustBest | MExited.
Scheme Boolean Equality for mon.

Definition cfg := (list cmd * mon)%type.
Definition cfg_eqb (a b : cfg) : bool :=
  internal_list_beq cmd cmd_beq (fst a) (fst b) && mon_beq (snd a) (snd b).

Definition is_pending (m : mon) : bool := match m with MPending => true | _ => false end.

(* silent command step of the monitor (no output owed by the command itself) *)
Definition cfg_eps (c : cfg) : list cfg :=
  match c with
  | (_, MExited) => []
  | (_, MMustBest) => []
  | ([], _) => [([], MExited)]
  | (CIsReady :: _, _) => []
  | (CJunk :: r, m) => [(r, m)]
  | (CNewGame :: r, _) => [(r, MNone)]
  | (CPosition true :: r, _) => [(r, MNone)]
  | (CPosition false :: r, _) => [(r, MExited)]
  | (CGoBad :: r, _) => [(r, MExited)]
  | (CQuit :: r, _) => [(r, MExited)]
  | (CGo _ :: r, _) => [(r, MPending)]
  | (CGoBook :: r, _) => [(r, MMustBest)]
  | (CStop :: r, m) => if is_pending m then [(r, MMustBest)] else [(r, m)]
  end.

Definition add_cfgs (new acc : list cfg) : list cfg :=
  fold_left (fun a c => if existsb (cfg_eqb c) a then a else c :: a) new acc.

(* closure under silent steps; every silent step shortens the script or ends, so
   [fuel] = length of the script + 2 suffices *)
Fixpoint eps_closure (fuel : nat) (front acc : list cfg) : list cfg :=
  match fuel with
  | O => acc
  | S f =>
    let next := flat_map cfg_eps front in
    let fresh := filter (fun c => negb (existsb (cfg_eqb c) acc)) next in
    match fresh with
    | [] => acc
    | _ => eps_closure f fresh (add_cfgs fresh acc)
    end
  end.

(* consuming one observed line *)
Definition cfg_obs (o : obs_line) (c : cfg) : list cfg :=
  match o, c with
  | OReady, (CIsReady :: r, m) =>
      match m with MExited | MMustBest => [] | _ => [(r, m)] end
  | OInfo, (s, MPending) => [(s, MPending)]
  | OInfo, (s, MMustBest) => [(s, MMustBest)]
  | OBest, (s, MPending) => [(s, MNone)]
  | OBest, (s, MMustBest) => [(s, MNone)]
  | _, _ => []
  end.

Fixpoint obs_run (fuel : nat) (cs : list cfg) (obs : list obs_line) : bool :=
  let cl := eps_closure fuel cs cs in
  match obs with
  | [] => existsb (fun c => match c with (_, MExited) => true | _ => false end) cl
  | o :: rest => obs_run fuel (add_cfgs (flat_map (cfg_obs o) cl) []) rest
  end.

Definition obs_ok (script : list cmd) (obs : list obs_line) : bool :=
  obs_run (length script + 2) [(script, MNone)] obs.

(** Simple count form (weaker, also checkable on any trace). *)
Definition count_cmd (p : cmd -> bool) (l : list cmd) : nat := length (filter p l).
Definition is_go (c : cmd) : bool := match c with CGo _ | CGoBook => true | _ => false end.
Definition is_isready (c : cmd) : bool := match c with CIsReady => true | _ => false end.
Definition exits (c : cmd) : bool := match c with CQuit | CGoBad | CPosition false => true | _ => false end.
Fixpoint effective (l : list cmd) : list cmd :=      (* the commands the loop gets to consume *)
  match l with [] => [] | c :: r => if exits c then [c] else c :: effective r end.
Definition count_obs (o : obs_line) (l : list obs_line) : nat :=
  length (filter (fun x => match o, x with OReady, OReady | OInfo, OInfo | OBest, OBest => true | _, _ => false end) l).
Definition obs_counts_ok (script : list cmd) (obs : list obs_line) : bool :=
  (count_obs OReady obs =? count_cmd is_isready (effective script))
  && (count_obs OBest obs <=? count_cmd is_go (effective script)).

(** ** Legacy hand-off (before 76ce114), for counterexample traces only.

    `active` is a bool (here 0 / 1); the forwarder posts bare PVs (here UInfo tagged with its ghost seq)
    and calls searchCompleted ITSELF when the search ended (it is the forwarder that then writes to
    d.out); the movetime timer calls Engine.Halt itself (taking the engine mutex: while it is inside,
    the loop does not consume - a simplification that only removes behaviours); `return` closes the
    output without halting the search.  [searches] is kept as a ghost counter to tag the lines. *)

Definition lg_completed (tag d : nat) (s : dstate) : dstate :=
  if active s =? 1 then emit (LBest tag d) (set_active 0 s) else s.

Definition lg_launch (o : goopts) (s : dstate) : dstate :=
  let seq := S (searches s) in
  let tm := (if g_mt o then [TMove seq] else []) ++ (if g_clk o then [THard seq] else []) in
  set_stopped false (set_super false
    (set_timers (tm ++ timers s)
      (set_srchs (new_srch seq o :: srchs s)
        (set_eactive (Some seq) (set_active 1 (set_searches seq s)))))).

Definition lg_run_cont (k : cont) (r : option nat) (s : dstate) : dstate :=
  match k with
  | KIdle => set_pc PIdle s
  | KExit => finish s
  | KGo o => match eactive s with Some _ => finish s | None => set_pc PIdle (lg_launch o s) end
  | KGoBook => set_pc PIdle (lg_completed (S (searches s)) 0
                               (set_stopped false (set_super false (set_active 1 (set_searches (S (searches s)) s)))))
  | KStop => set_pc PIdle (match r with Some d => lg_completed (searches s) d s | None => s end)
  | KExpired _ => set_pc PIdle s
  | KClose => finish s
  end.

Definition lg_engine_halt (k : cont) (s : dstate) : dstate :=
  match eactive s with
  | Some h => set_pc (PHaltInit h k) s
  | None => lg_run_cont k None s
  end.

Definition lg_ensure_inactive (k : cont) (s : dstate) : dstate :=
  lg_engine_halt k (set_super true (set_active 0 s)).

Definition lg_handle_cmd (c : cmd) (s : dstate) : dstate :=
  match c with
  | CIsReady => emit LReady s
  | CJunk => s
  | CNewGame => lg_ensure_inactive KIdle s
  | CPosition ok => lg_ensure_inactive (if ok then KIdle else KExit) s
  | CGo o => lg_ensure_inactive (KGo o) s
  | CGoBad => lg_ensure_inactive KExit s
  | CGoBook => lg_ensure_inactive KGoBook s
  | CStop => lg_engine_halt KStop (set_stopped true s)
  | CQuit => finish s
  end.

Definition lg_mutex_free (s : dstate) : bool :=
  forallb (fun t => match t with TLegacyHalt _ _ => false | _ => true end) (timers s).

Definition lg_fire (cap : nat) (l : label) (s : dstate) : option dstate :=
  match l with
  | LCmd =>
      match pc s with
      | PIdle =>
          if lg_mutex_free s then
            match inp s with
            | [] => Some (finish s)
            | c :: rest => Some (lg_handle_cmd c (set_consumed (c :: consumed s) (set_inp rest s)))
            end
          else None
      | _ => None
      end
  | LRecv =>
      match pc s, ponder s with
      | PIdle, UInfo q d :: rest =>
          let s1 := set_ponder rest s in
          Some (if active s1 =? 1 then emit (LInfo q d) s1 else s1)
      | _, _ => None
      end
  | LHaltDone =>
      match pc s with
      | PHaltDone h k =>
          with_srch h s (fun r =>
            if h_done r then Some (lg_run_cont k (Some (h_pv r)) (set_eactive None s)) else None)
      | _ => None
      end
  | LFPostDone h =>        (* the forwarder itself: d.searchCompleted(ctx, last) *)
      with_srch h s (fun r =>
        match h_fwd r with
        | FPostDone =>
            let s1 := lg_completed h (h_last r) s in
            Some (set_srchs (upd_h h (srch_set_fwd FFin) (srchs s1)) s1)
        | _ => None
        end)
  | LTMove q =>            (* the timer goroutine: d.e.Halt(ctx) *)
      if has_timer (TMove q) (timers s) && lg_mutex_free s
         && (match pc s with PIdle | PExited => true | _ => false end)
      then match eactive s with
           | Some h => Some (set_timers (TLegacyHalt h false :: remove_timer (TMove q) (timers s)) s)
           | None => Some (set_timers (remove_timer (TMove q) (timers s)) s)
           end
      else None
  | LTLegInit h =>
      if has_timer (TLegacyHalt h false) (timers s)
      then with_srch h s (fun r =>
             if h_init r
             then Some (set_timers (TLegacyHalt h true :: remove_timer (TLegacyHalt h false) (timers s))
                          (set_srchs (upd_h h srch_set_quit (srchs s)) s))
             else None)
      else None
  | LTLegDone h =>
      if has_timer (TLegacyHalt h true) (timers s)
      then with_srch h s (fun r =>
             if h_done r
             then Some (set_eactive None (set_timers (remove_timer (TLegacyHalt h true) (timers s)) s))
             else None)
      else None
  | _ => fire cap l s      (* LHaltInit, search process, forwarder receive/post, hard-limit timer *)
  end.

Definition lg_lsteps (cap maxd : nat) (s : dstate) : list (label * dstate) := lsteps_with maxd (lg_fire cap) s.
Definition lg_steps (cap maxd : nat) (s : dstate) : list dstate := map snd (lg_lsteps cap maxd s).
Definition lg_run (cap : nat) := run_with (lg_fire cap).
