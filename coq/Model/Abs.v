(** Abstraction from the bit-level model to the specification's mailbox board, the representation
    invariant [inv_b] and the well-formedness predicate [wf_b] ("legal position" of the properties). *)
From Coq Require Import NArith ZArith List Bool.
From Morlock.Model Require Import Bits Attacks Move Position.
From Morlock.Spec Require Import Chess.
Import ListNotations.
Open Scope N_scope.

Definition color_of (c : N) : color := if c =? White then Wh else Bl.
Definition code_of_color (c : color) : N := match c with Wh => White | Bl => Black end.
Definition kind_of (p : N) : option kind :=
  if p =? Pawn then Some P else if p =? Bishop then Some Bi else if p =? Knight then Some Kn
  else if p =? Rook then Some R else if p =? Queen then Some Q else if p =? King then Some K else None.
Definition code_of_kind (k : kind) : N :=
  match k with P => Pawn | Bi => Bishop | Kn => Knight | R => Rook | Q => Queen | K => King end.

Definition abs_cell (pos : position) (sq : N) : cell :=
  match square pos sq with
  | Some (c, p) => match kind_of p with Some k => Some (color_of c, k) | None => None end
  | None => None
  end.
Definition abs_rights (c : N) : rights :=
  mkRights (is_allowed c WhiteKingSideCastle) (is_allowed c WhiteQueenSideCastle)
           (is_allowed c BlackKingSideCastle) (is_allowed c BlackQueenSideCastle).
Definition abs_pos (pos : position) : spos :=
  mkSpos (map (abs_cell pos) (seqN 64)) (abs_rights (castling pos))
         (if enpassant pos =? 0 then None else Some (N.to_nat (enpassant pos))).

Definition abs_move (m : move) : smove :=
  mkSmove (N.to_nat (mfrom m)) (N.to_nat (mto m)) (if is_promotion m then kind_of (mpromo m) else None).

(** Representation invariant: words are 64-bit; the per-piece boards of both colours are pairwise
    disjoint; the colour boards are the unions; the occupancy word is the union of both colours; the
    three rotated words are the images of the occupancy. *)
Definition word_ok (x : N) : bool := x <? 18446744073709551616.
Fixpoint pairwise_disjoint (l : list N) : bool :=
  match l with
  | [] => true
  | x :: r => forallb (fun y => N.land x y =? 0) r && pairwise_disjoint r
  end.
Definition piece_boards (pos : position) (c : N) : list N :=
  map (pget pos c) [Pawn; Bishop; Knight; Rook; Queen; King].
Definition inv_b (pos : position) : bool :=
  (length (pieces pos) =? 14)%nat &&
  forallb word_ok (pieces pos) &&
  pairwise_disjoint (piece_boards pos White ++ piece_boards pos Black) &&
  (pget pos White NoPiece =? fold_left N.lor (piece_boards pos White) 0) &&
  (pget pos Black NoPiece =? fold_left N.lor (piece_boards pos Black) 0) &&
  (all_bb pos =? N.lor (pget pos White NoPiece) (pget pos Black NoPiece)) &&
  rot_eqb (rotated_bb pos) (new_rotated (all_bb pos)) &&
  (castling pos <? 16) && (enpassant pos <? 64).

(** Well-formed ("legal") position with [turn] to move: one king per side, no pawn on ranks 1/8,
    castling right => king and rook at home, e.p. target behind a pawn that can just have made a
    double step (target and origin square empty), side not to move not in check. *)
Definition home_ok (pos : position) (right kingsq rooksq c : N) : bool :=
  negb (is_allowed (castling pos) right) ||
  (is_set (pget pos c King) kingsq && is_set (pget pos c Rook) rooksq).
Definition ep_ok (pos : position) (turn : N) : bool :=
  let e := enpassant pos in
  if e =? 0 then true
  else
    if turn =? White
    then (sq_rank e =? 5) && is_set (pget pos Black Pawn) (e - 8) && is_empty pos e && is_empty pos (e + 8)
    else (sq_rank e =? 2) && is_set (pget pos White Pawn) (e + 8) && is_empty pos e && is_empty pos (e - 8).
Definition wf_b (pos : position) (turn : N) : bool :=
  inv_b pos &&
  (popcount (pget pos White King) =? 1) && (popcount (pget pos Black King) =? 1) &&
  (N.land (N.lor (pget pos White Pawn) (pget pos Black Pawn)) (N.lor (bitrank 0) (bitrank 7)) =? 0) &&
  home_ok pos WhiteKingSideCastle E1 H1 White && home_ok pos WhiteQueenSideCastle E1 A1 White &&
  home_ok pos BlackKingSideCastle E8 H8 Black && home_ok pos BlackQueenSideCastle E8 A8 Black &&
  ep_ok pos turn &&
  negb (is_checked pos (opponent turn)).
