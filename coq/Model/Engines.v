(** M15 — the three bundled historical engines: integer / rational skeletons of their evaluations,
    their move filters and their opening books.  Mirrors
      pkg/eval/eval.go (Material), pkg/search/exploration.go (Selection), pkg/engine/book.go (NewBook),
      cmd/turochamp/turochamp/{eval.go,quiescence.go},
      cmd/bernstein/bernstein/{eval.go,search.go,book.go},
      cmd/sargon/sargon/{search.go,book.go}.
    Executable definitions only.

    What is NOT modelled (float steps; eval.Pawns is a float32):
      - TUROCHAMP  Material.Evaluate: the float32 division own/opp (resp. -opp/own); the model returns the
        sign and the two integer operands (in half-pawns), which are >= 1.
        Eval.Evaluate: math.Round(float64(mat)*100)*10 and math.Round(float64(pp)*100)/1000 (division by the
        constant 1000); PositionPlay: math.Sqrt / math.Round of the mobility counts and of the king-safety count
        (the model returns these counts, which are naturals, so the square roots are defined) and the float32
        additions of multiples of 0.1.
      - BERNSTEIN  Eval.Evaluate: float32 conversion of the two ints, the product by the constant 100 and the
        float32 division by the other int; the model returns the sign and the two integer operands (>= 1).
      - generic Material: the conversion of the integer balance to float32 (exact: |balance| < 2^24).
      - SARGON Points: all terms are sums of integers, halves ((2*ptsw2-1)/2) and hundredths (brdc/100): the only
        divisors are the constants 2 and 100; only its filter and its book are modelled here.
    Go [int] / [int16] overflow is not modelled (all quantities here are below 2^15 for factor < 50). *)
From Coq Require Import NArith ZArith List Bool.
From Morlock.Model Require Import Bits Attacks Move Position Search Fen.
Import ListNotations.
Open Scope Z_scope.

Definition cntZ (b : N) : Z := Z.of_N (popcount b).

(* ------------------------------------------------------------------ *)
(** * eval.Material (generic): integer material balance for the side to move.
    The Go loop runs over p = ZeroPiece .. NumPieces-1, i.e. it includes NoPiece with nominal value 0. *)
Definition material_pos (pos : position) (turn : N) : Z :=
  fold_left (fun acc p => acc + (cntZ (pget pos turn p) - cntZ (pget pos (opponent turn) p)) * nominal_value p)
            [NoPiece; Pawn; Bishop; Knight; Rook; Queen; King] 0.

(* ------------------------------------------------------------------ *)
(** * TUROCHAMP *)

(** pieceValue, in half-pawns (2 x value); [None] = panic("invalid piece") *)
Definition turo_value2 (p : N) : option Z :=
  if (p =? King)%N then Some 200 else if (p =? Queen)%N then Some 20 else if (p =? Rook)%N then Some 10
  else if (p =? Bishop)%N then Some 7 else if (p =? Knight)%N then Some 6 else if (p =? Pawn)%N then Some 2
  else None.

Definition QueenRookKnightBishopPawn : list N := [Queen; Rook; Knight; Bishop; Pawn].

(** material(pos, turn), in half-pawns; "0.5 if only the king is left" = 1 half-pawn. [None] = panic. *)
Definition turo_material2 (pos : position) (turn : N) : option Z :=
  match fold_left (fun acc piece =>
           match acc, turo_value2 piece with
           | Some a, Some v => Some (a + v * cntZ (pget pos turn piece))
           | _, _ => None
           end) QueenRookKnightBishopPawn (Some 0) with
  | Some 0 => Some 1
  | r => r
  end.

(** a signed ratio of two integers: value = (if neg then -1 else 1) * num / den *)
Record ratio := mkRatio { r_neg : bool; r_num : Z; r_den : Z }.
Definition ratio_zero : ratio := mkRatio false 0 1.

(** Material.Evaluate: 0, own/opp or -opp/own.  The comparisons are exact in float32 (half-integers <= 640). *)
Definition turo_material_eval (pos : position) (turn : N) : option ratio :=
  match turo_material2 pos turn, turo_material2 pos (opponent turn) with
  | Some own, Some opp =>
      Some (if own =? opp then ratio_zero
            else if opp <? own then mkRatio false own opp
            else mkRatio true opp own)
  | _, _ => None
  end.

(** PositionPlay skeleton.  All contributions are multiples of 0.1 except the square roots; the model returns
    the integer part in tenths and the natural numbers whose square roots are taken.
    [has_castled] is the board-level flag b.HasCastled(turn). *)
Definition count_from (l : list move) (from : N) : N :=
  fold_left (fun acc m => if (mfrom m =? from)%N && negb (mpiece m =? Pawn)%N && negb (is_castle m)
                          then (if (mtype m =? Capture)%N then acc + 2 else acc + 1)%N else acc) l 0%N.
(** mobility[m.From] for every origin with at least one counted move (map iteration order is irrelevant: sum) *)
Definition turo_mobility_counts (pos : position) (turn : N) : list N :=
  let legal := legal_moves pos turn in
  filter (fun n => negb (n =? 0)%N) (map (count_from legal) (seqN 64)).
Definition turo_defenders (pos : position) (turn from : N) : N :=
  (fold_left (fun acc p =>
     let bb := N.land (attackboard (rotated_bb pos) from p) (pget pos turn p) in
     if negb (bb =? 0) then acc + popcount bb else acc) KingQueenRookKnightBishop 0
   + popcount (N.land (pawn_captureboard turn (pget pos turn Pawn)) (bitmask from)))%N.
Definition turo_king_safety (pos : position) (turn : N) : option N :=
  let king := pget pos turn King in
  if (king =? 0)%N then None
  else Some (popcount (andnot (queen_attackboard (rotated_bb pos) (ctz king)) (pget pos turn NoPiece))).
Definition turo_pawn_tenths (pos : position) (turn from : N) : Z :=
  let ranks := if (turn =? White)%N then Z.of_N (sq_rank from) - 1 else 6 - Z.of_N (sq_rank from) in
  2 * ranks +
  (if existsb (fun p => negb (N.land (attackboard (rotated_bb pos) from p) (pget pos turn p) =? 0)%N)
              KingQueenRookKnightBishop then 3 else 0).
Record turo_pp := mkTuroPP {
  pp_tenths : Z;               (* everything except the square roots, in tenths of a pawn *)
  pp_mobility : list N;        (* + Round(10*sqrt n)/10 for each n *)
  pp_safety : option N         (* - Round(10*sqrt n)/10 *)
}.
Definition turo_position_play (pos : position) (has_castled : bool) (turn : N) : turo_pp :=
  let legal := legal_moves pos turn in
  let next_mates := existsb (fun m => match pos_move pos m with
                                      | Some next => is_checkmate next (opponent turn)
                                      | None => false end) legal in
  let middle := N.lor (N.lor (pget pos turn Rook) (pget pos turn Knight)) (pget pos turn Bishop) in
  let tenths :=
    (if negb (N.land (castling pos) (if (turn =? White)%N then 3 else 12) =? 0)%N then 10 else 0) +
    (if has_castled then 10 else 0) +
    (if is_checked pos (opponent turn) then 5 else 0) +
    (if next_mates then 10 else 0) +
    (if existsb is_castle legal then 10 else 0) +
    fold_left (fun acc from => let d := turo_defenders pos turn from in
                 acc + (if (0 <? d)%N then 10 else 0) + (if (1 <? d)%N then 5 else 0)) (bits_asc middle) 0 +
    fold_left (fun acc from => acc + turo_pawn_tenths pos turn from) (bits_asc (pget pos turn Pawn)) 0 in
  mkTuroPP tenths (turo_mobility_counts pos turn) (turo_king_safety pos turn).

(** IsConsiderableMove(m, b), b being the board after m: [post] its position, [post_turn] its side to move,
    [second_last] = b.SecondToLastMove().  [None] = panic("invalid piece") in pieceValue. *)
Definition considerable (post : position) (post_turn : N) (second_last : option move) (m : move) : option bool :=
  let mate := is_checkmate post post_turn in
  if is_capture m then
    let recapture := match second_last with
                     | Some last => is_capture_or_ep last && (mto m =? mto last)%N
                     | None => false
                     end in
    match turo_value2 (mpiece m), turo_value2 (mcapture m) with
    | Some vp, Some vc =>
        Some (mate || recapture || (vp <? vc) || negb (is_attacked post (opponent post_turn) (mto m)))
    | _, _ => None
    end
  else Some mate.

(** ConsiderableMovesOnly as the quiescence search uses it: the predicate is asked about a move that has just
    been pushed successfully (pkg/search/quiescence.go). *)
Definition considerable_after (p : position) (turn : N) (second_last : option move) (m : move) : option bool :=
  match pos_move p m with
  | Some post => considerable post (opponent turn) second_last m
  | None => Some false
  end.
Definition considerable_moves (p : position) (turn : N) (second_last : option move) : list move :=
  filter (fun m => match considerable_after p turn second_last m with Some true => true | _ => false end)
         (legal_moves p turn).

(* ------------------------------------------------------------------ *)
(** * Generic filter helpers *)

Definition is_not_underpromotion (m : move) : bool := negb (is_underpromotion m).
(** board.FindMoves *)
Definition find_moves (l : list move) (f : move -> bool) : list move := filter f l.

(** bernstein truncate: limit <= 0 means no limit *)
Definition truncate {A} (l : list A) (limit : Z) : list A :=
  if (0 <? limit) && (limit <? Z.of_nat (length l)) then firstn (Z.to_nat limit) l else l.

(** search.Selection: rank[m] = len(list) - i (a later duplicate overwrites an earlier one);
    priority(m) = rank[m] (0 if absent); pick(m) = m is a key of rank. *)
Fixpoint sel_rank (l : list move) (m : move) : option Z :=
  match l with
  | [] => None
  | x :: r => match sel_rank r m with
              | Some v => Some v
              | None => if move_eqb x m then Some (Z.of_nat (length l)) else None
              end
  end.
Definition sel_priority (l : list move) (m : move) : Z := match sel_rank l m with Some v => v | None => 0 end.
Definition sel_pick (l : list move) (m : move) : bool := match sel_rank l m with Some _ => true | None => false end.
Definition selection (l : list move) : (move -> Z) * (move -> bool) := (sel_priority l, sel_pick l).

(** board.SortByPriority = sort.SliceStable with "fn(i) > fn(j)": stable, descending *)
Fixpoint insert_by (pri : move -> Z) (m : move) (l : list move) : list move :=
  match l with
  | [] => [m]
  | x :: r => if pri m <? pri x then x :: insert_by pri m r else m :: l
  end.
Definition sort_by_priority (pri : move -> Z) (l : list move) : list move := fold_right (insert_by pri) [] l.

(** SARGON SkipUnderPromotions / the moves the main search explores under a predicate *)
Definition explored (pick : move -> bool) (p : position) (turn : N) : list move := filter pick (legal_moves p turn).
Definition sargon_explored (p : position) (turn : N) : list move := explored is_not_underpromotion p turn.

(* ------------------------------------------------------------------ *)
(** * BERNSTEIN *)

Definition bern_value (p : N) : Z :=
  if (p =? King)%N then 100 else if (p =? Queen)%N then 9 else if (p =? Rook)%N then 5
  else if ((p =? Knight) || (p =? Bishop))%N then 3 else if (p =? Pawn)%N then 1 else 0.
Definition bern_material (pos : position) (side : N) : Z :=
  bern_value Queen * cntZ (pget pos side Queen) + bern_value Rook * cntZ (pget pos side Rook) +
  bern_value Knight * cntZ (pget pos side Knight) + bern_value Bishop * cntZ (pget pos side Bishop) +
  bern_value Pawn * cntZ (pget pos side Pawn).
Definition bern_mobility (pos : position) (side : N) : Z := Z.of_nat (length (legal_moves pos side)).
Definition bern_controlled (pos : position) (side sq : N) : bool :=
  is_defended pos side sq && negb (is_attacked pos side sq).
Definition bern_control (pos : position) (side : N) : Z :=
  Z.of_nat (length (filter (bern_controlled pos side) (seqN 64))).
(** KingSquare = LastPopSquare of the king board; KingAttackboard(64) is an index panic in Go: the model's
    table lookup returns 0 there, and a legal position has a king. *)
Definition bern_king_defense (pos : position) (side : N) : Z :=
  Z.of_nat (length (filter (fun sq =>
      if is_empty pos sq
      then is_attacked_by pos (opponent side) sq QueenRookKnightBishopPawn && negb (is_attacked pos side sq)
      else bern_controlled pos side sq)
    (bits_asc (king_attackboard (ctz (pget pos side King)))))).
Definition bern_evaluate (pos : position) (factor : Z) (side : N) : Z :=
  Z.max 1 (bern_mobility pos side + bern_control pos side + bern_king_defense pos side + factor * bern_material pos side).
(** Eval.Evaluate: 0, self*100/opp or -opp*100/self *)
Definition bern_eval (pos : position) (factor : Z) (turn : N) : ratio :=
  let self := bern_evaluate pos factor turn in
  let opp := bern_evaluate pos factor (opponent turn) in
  if self =? opp then ratio_zero
  else if opp <? self then mkRatio false (self * 100) opp
  else mkRatio true (opp * 100) self.

(** TA1 / Table1 priorities *)
Definition ta1 (side : N) (m : move) : Z :=
  let r := Z.of_N (sq_rank (mto m)) in let f := Z.of_N (sq_file (mto m)) in
  if (side =? White)%N then r * 8 + f else (8 - r) * 8 + (8 - f).
Definition table1 (m : move) : Z :=
  if (mpiece m =? Pawn)%N then
    nth (N.to_nat (sq_file (mfrom m))) [2; 4; 5; 8; 7; 6; 3; 1] 0     (* files h g f e d c b a *)
  else 0.

Section Plausible.
  (** The static-exchange tests of exchange.go (IsMoveSafe, IsSafe on the origin square) do not matter for
      the filter properties; they are abstract boolean parameters. *)
  Variable is_move_safe : move -> bool.          (* IsMoveSafe(pos, side, move) *)
  Variable is_safe_origin : move -> bool.        (* IsSafe(pos, side, move.Piece, move.From) *)
  Variables (pos : position) (side : N).

  Definition check_priority (m : move) : Z :=
    if is_capture_or_ep m then 2 else if (mpiece m =? King)%N then 0 else 1.

  Definition pm_gain (m : move) : bool :=
    if is_promotion m then true
    else if (mtype m =? Capture)%N then (bern_value (mpiece m) <? bern_value (mcapture m)) || is_move_safe m
    else if (mtype m =? EnPassant)%N then negb (is_attacked pos side (mto m))
    else false.
  Definition pm_loss (m : move) : bool := negb (is_safe_origin m) && is_move_safe m.
  Definition pm_exchange (m : move) : bool :=
    (mtype m =? Capture)%N && (bern_value (mcapture m) =? bern_value (mpiece m)).

  (** rules 2-3: the value stored in the map (0 = no entry) *)
  Definition pm_rank1 (m : move) : Z :=
    if pm_gain m then 23 else if pm_loss m then 22 else if pm_exchange m then 21
    else if is_castle m then 20 else 0.
  Definition pm_castle_flag (moves : list move) : bool := existsb (fun m => pm_rank1 m =? 20) moves.

  Definition pm_key : N :=
    let pawns := pget pos side Pawn in
    pawn_captureboard side (N.land (pawn_captureboard side pawns) pawns).
  Definition pm_develop (m : move) : bool :=
    ((mpiece m =? Knight) || (mpiece m =? Bishop))%N && (sq_rank (mfrom m) =? promotion_rank (opponent side))%N.
  Definition pm_chains (m : move) : bool := negb (mpiece m =? King)%N && is_set pm_key (mto m).
  Definition pm_files (m : move) : bool :=
    ((mpiece m =? Rook) || (mpiece m =? Queen))%N &&
    (let pawns := pget pos side Pawn in
     let from := (N.land (bitfile (sq_file (mfrom m))) pawns =? 0)%N in
     let to := (N.land (bitfile (sq_file (mto m))) pawns =? 0)%N in
     negb from && to).
  (** rules 4-8 for a move without an entry from rules 2-3 *)
  Definition pm_rank2 (m : move) : Z :=
    if 0 <? pm_rank1 m then pm_rank1 m
    else if negb (is_move_safe m) then 0
    else if pm_develop m then 13 else if pm_chains m then 12 else if pm_files m then 11
    else if (mpiece m =? Pawn)%N then 10 else 1.

  (** FindPlausibleMoves.  The general branch ends with a sort only: every non-under-promotion legal move is
      returned (moves without a rank have priority 0 and come last); the cut is made by [truncate]. *)
  Definition plausible_base : list move :=
    sort_by_priority table1 (sort_by_priority (ta1 side) (find_moves (legal_moves pos side) is_not_underpromotion)).
  Definition find_plausible_moves : list move :=
    let moves := plausible_base in
    if is_checked pos side then sort_by_priority check_priority moves
    else if pm_castle_flag moves then
      sort_by_priority pm_rank1 (find_moves moves (fun m => 0 <? pm_rank1 m))
    else sort_by_priority pm_rank2 moves.

  (** PlausibleMoveTable.Explore *)
  Definition plausible_explore (limit : Z) : (move -> Z) * (move -> bool) :=
    selection (truncate find_plausible_moves limit).
End Plausible.

(* ------------------------------------------------------------------ *)
(** * Colour mirror: ranks flipped, colours swapped *)

Definition mirror_sq (s : N) : N := N.lxor s 56.
(** byte swap of a 64-bit word: rank r goes to rank 7 - r *)
Definition flip_bb (x : N) : N :=
  fold_left (fun acc r => N.lor acc (shl64 (N.land (shr64 x (8 * r)) 255) (8 * (7 - r)))) (seqN 8) 0%N.
Definition mirror_castling (c : N) : N := N.lor (shr64 (N.land c 12) 2) (shl64 (N.land c 3) 2).
Definition mirror_pos (p : position) : position :=
  let pcs := pieces p in
  mkPos (map flip_bb (firstn 7 (skipn 7 pcs)) ++ map flip_bb (firstn 7 pcs))
        (new_rotated (flip_bb (all_bb p)))
        (mirror_castling (castling p))
        (if (enpassant p =? 0)%N then 0%N else mirror_sq (enpassant p)).
Definition mirror_move (m : move) : move :=
  mkMove (mtype m) (mirror_sq (mfrom m)) (mirror_sq (mto m)) (mpiece m) (mpromo m) (mcapture m).

(* ------------------------------------------------------------------ *)
(** * Opening books *)

(** fen.Strip: the first four space-separated fields *)
Definition strip (s : str) : str := join_space (firstn 4 (split_space s)).

Definition bookmap := list (str * list move).          (* map[string]map[Move]bool, in insertion order *)
Fixpoint book_add (b : bookmap) (k : str) (m : move) : bookmap :=
  match b with
  | [] => [(k, [m])]
  | (k', ms) :: r => if str_eqb k' k then (k', if existsb (move_eqb m) ms then ms else ms ++ [m]) :: r
                     else (k', ms) :: book_add r k m
  end.
Fixpoint book_find (b : bookmap) (k : str) : list move :=
  match b with [] => [] | (k', ms) :: r => if str_eqb k' k then ms else book_find r k end.

(** engine.NewBook: one line.  [Err] = the book is rejected with an error; [Crash] = the decode error that
    the Go code ignores (nil position) *)
Fixpoint book_line (b : bookmap) (key : str) (line : list str) : outcome bookmap :=
  match line with
  | [] => Ok b
  | s :: rest =>
      match parse_move s with
      | None => Err
      | Some next =>
          match decode key with
          | Ok (pos, turn, _, _) =>
              match find (fun cand => move_equals cand next) (pseudo_legal_moves pos turn) with
              | None => Err                                              (* move not found *)
              | Some cand =>
                  match pos_move pos cand with
                  | None => Err                                          (* move not legal *)
                  | Some p' => book_line (book_add b (strip key) cand) (encode p' (opponent turn) 0 1) rest
                  end
              end
          | _ => Crash
          end
      end
  end.
Fixpoint new_book_from (b : bookmap) (lines : list (list str)) : outcome bookmap :=
  match lines with
  | [] => Ok b
  | l :: r => match book_line b fen_initial l with
              | Ok b' => new_book_from b' r
              | Err => Err
              | Crash => Crash
              end
  end.
Definition new_book (lines : list (list str)) : outcome bookmap := new_book_from [] lines.
(** book.Find *)
Definition book_lookup (b : bookmap) (fen : str) : list move := book_find b (strip fen).

(** bernstein.NewBook: the single line "e2e4" *)
Definition str_e2e4 : str := [101; 50; 101; 52]%N.
Definition bernstein_book : outcome bookmap := new_book [[str_e2e4]].

(** sargon.NewBook.  The stored moves are bare (Type Normal, no piece): only their from/to/promotion are
    ever used (the UCI driver prints them as "bestmove"). *)
Definition sq_E2 : N := 11%N. Definition sq_E4 : N := 27%N. Definition sq_D2 : N := 12%N. Definition sq_D4 : N := 28%N.
Definition sq_E7 : N := 51%N. Definition sq_E5 : N := 35%N. Definition sq_D7 : N := 52%N. Definition sq_D5 : N := 36%N.
Definition bare (from to : N) : move := mkMove Normal from to NoPiece NoPiece NoPiece.
Definition m_e2e4 := bare sq_E2 sq_E4. Definition m_d2d4 := bare sq_D2 sq_D4.
Definition m_e7e5 := bare sq_E7 sq_E5. Definition m_d7d5 := bare sq_D7 sq_D5.

Definition is_queenside_or_king_pawn (m : move) : bool :=
  (mpiece m =? Pawn)%N &&
  (let f := sq_file (mfrom m) in (f =? 7) || (f =? 6) || (f =? 5) || (f =? 3))%N.   (* files a b c e *)

(** one entry: key, the position and side to move the key denotes, the replies *)
Record sargon_entry := mkSE { se_key : str; se_pos : position; se_turn : N; se_replies : list move }.
Definition sargon_book : list sargon_entry :=
  match decode fen_initial with
  | Ok (pos, turn, _, _) =>
      mkSE (strip fen_initial) pos turn [m_e2e4; m_d2d4] ::
      flat_map (fun m =>
        match pos_move pos m with
        | Some next =>
            [mkSE (strip (encode next (opponent turn) 0 1)) next (opponent turn)
                  [if is_queenside_or_king_pawn m then m_e7e5 else m_d7d5]]
        | None => []
        end) (legal_moves pos turn)
  | _ => []
  end.
(** a bare book move is playable iff some legal move has its from/to/promotion (Engine.Move's matching) *)
Definition book_move_legal (pos : position) (turn : N) (m : move) : bool :=
  existsb (fun cand => move_equals cand m) (legal_moves pos turn).
