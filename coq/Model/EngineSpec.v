(** Specification side of C10 / C14 / C19: the game a UCI `position` line describes, built from the
    line alone on the specification game (Spec/Game.v); "denotes a legal move". *)
From Coq Require Import NArith ZArith List Bool.
From Morlock.Model Require Import Bits Attacks Move Position Fen Abs Engine.
From Morlock.Spec Require Import Chess Game.
Import ListNotations.
Open Scope N_scope.

(** the legal move of [g] that a coordinate string denotes, if any *)
Definition smove_of_str (g : gstate) (s : str) : option smove :=
  match parse_move s with
  | None => None
  | Some cand =>
      find (fun sm => Nat.eqb (sfrom sm) (N.to_nat (mfrom cand)) && Nat.eqb (sto sm) (N.to_nat (mto cand)) &&
                      okind_eqb (spromo sm) (kind_of (mpromo cand)))
           (spec_legal (g_pos g) (g_turn g))
  end.

Definition gstate_of_fen (fen : str) : option gstate :=
  match decode fen with
  | Ok (pos, turn, np, fm) => Some (g_start (abs_pos pos) (color_of turn) np fm)
  | _ => None
  end.

Fixpoint play_strs (g : gstate) (ms : list str) : option gstate :=
  match ms with
  | [] => Some g
  | s :: r => match smove_of_str g s with Some sm => play_strs (g_play g sm) r | None => None end
  end.

Fixpoint after_moves_tok (args : list str) : list str :=
  match args with
  | [] => []
  | a :: r => if str_eqb a moves_tok then r else after_moves_tok r
  end.

(** setup(line): the game described by a `position` line in GUI form (single spaces) *)
Definition setup (line : str) : option gstate :=
  let args := tl (split_space (trim_space line)) in
  let fen := if (7 <=? length args)%nat && str_eqb (hd [] args) fen_tok then join_space (firstn 6 (tl args)) else fen_initial in
  match gstate_of_fen fen with
  | Some g => play_strs g (filter (fun a => negb (str_eqb a moves_tok)) (after_moves_tok args))
  | None => None
  end.

(** well-formed decoded value (C19): representation invariant, colour w/b, clocks >= 0 *)
Definition wf_value (d : decoded) : bool :=
  let '(pos, turn, np, fm) := d in
  inv_b pos && ((turn =? 0) || (turn =? 1)) && (0 <=? np)%Z && (0 <=? fm)%Z.
