(** M6 — Zobrist hashing, mirroring pkg/board/zobrist.go.  The table is arbitrary: the theorems
    quantify over it ("for every seed"); the only fact used is that NewZobristTable leaves the
    en-passant key of every square off ranks 3 and 6 at zero. *)
From Coq Require Import NArith List Bool.
From Morlock.Model Require Import Bits Attacks Move Position.
Import ListNotations.
Open Scope N_scope.

Record ztable := mkZt {
  z_piece : N -> N -> N -> N;    (* colour, piece, square *)
  z_castling : N -> N;
  z_enpassant : N -> N;
  z_turn : N -> N
}.

(** ZobristTable.Hash *)
Definition zhash (z : ztable) (pos : position) (turn : N) : N :=
  let h := fold_left (fun h sq =>
             match square pos sq with
             | Some (c, p) => N.lxor h (z_piece z c p sq)
             | None => h
             end) (seqN 64) 0 in
  let h := N.lxor h (z_castling z (castling pos)) in
  let h := if negb (enpassant pos =? 0) then N.lxor h (z_enpassant z (enpassant pos)) else h in
  N.lxor h (z_turn z turn).

(** ZobristTable.Move (repaired: new castling key is castling &^ lost) *)
Definition zmove_with (newcastle : N -> N -> N) (z : ztable) (h : N) (pos : position) (m : move) : N :=
  let turn := match square pos (mfrom m) with Some (c, _) => c | None => 0 end in
  let h := N.lxor h (z_castling z (castling pos)) in
  let h := if negb (enpassant pos =? 0) then N.lxor h (z_enpassant z (enpassant pos)) else h in
  let h := N.lxor h (z_turn z turn) in
  let h := N.lxor h (z_piece z turn (mpiece m) (mfrom m)) in
  let opp := opponent turn in
  let h :=
    if mtype m =? Capture then
      N.lxor (N.lxor h (z_piece z opp (mcapture m) (mto m))) (z_piece z turn (mpiece m) (mto m))
    else if mtype m =? Promotion then
      N.lxor h (z_piece z turn (mpromo m) (mto m))
    else if mtype m =? CapturePromotion then
      N.lxor (N.lxor h (z_piece z opp (mcapture m) (mto m))) (z_piece z turn (mpromo m) (mto m))
    else if mtype m =? EnPassant then
      N.lxor (N.lxor h (z_piece z turn (mpiece m) (mto m))) (z_piece z opp Pawn (fst (ep_capture m)))
    else if is_castle m then
      let '(rf, rt, _) := castling_rook_move m in
      N.lxor (N.lxor (N.lxor h (z_piece z turn (mpiece m) (mto m))) (z_piece z turn Rook rf)) (z_piece z turn Rook rt)
    else
      N.lxor h (z_piece z turn (mpiece m) (mto m)) in
  let h := N.lxor h (z_castling z (newcastle (castling pos) (castling_rights_lost m))) in
  let h := N.lxor h (z_enpassant z (fst (ep_target m))) in
  N.lxor h (z_turn z opp).

Definition zmove := zmove_with andnot.
Definition zmove_legacy := zmove_with N.land.

(** what NewZobristTable guarantees for every seed *)
Definition zt_ok (z : ztable) : Prop :=
  forall sq, sq_rank sq <> 2 -> sq_rank sq <> 5 -> z_enpassant z sq = 0.
