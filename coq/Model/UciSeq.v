(** Sequential end-to-end model of a UCI session (M13 sequential part + M12 iteration loop + M11):
    `position`, `ucinewgame`, `isready`, `setoption name Hash|Depth`, and `go depth d` run to completion
    (no stop, no clock): iterative deepening with the engine's table, one info line per completed
    depth, then bestmove.  Mirrors pkg/engine/uci/uci.go, pkg/engine/engine.go (Analyze, Reset) and
    pkg/search/searchctl/iterative.go (process) for runs that end by themselves. *)
From Coq Require Import NArith ZArith List Bool.
From Morlock.Model Require Import Bits Score Attacks Move Position Zobrist Board Search TT SearchBoard Fen Engine.
Import ListNotations.
Open Scope Z_scope.

(** one completed iteration: depth, nodes, score, principal variation *)
Definition pvinfo := (nat * N * score * list move)%type.

Section Seq.
  Variable z : ztable.
  (** the engine's evaluation configuration: AlphaBeta{Eval: Leaf{Material}} or with Quiescence *)
  Variable use_q : bool.
  Variable qfuel : nat.

  (** handle.process for a search that is never halted: depths 1, 2, ... until the depth limit is
      reached or a forced mate within the searched depth is found ([fuel] bounds the loop; a limit of
      None means "no limit" and the theorems exclude fuel exhaustion). *)
  Fixpoint iterate (fuel : nat) (depth : nat) (limit : option nat) (g : gboard) (t : ttv) (acc : list pvinfo)
    : list pvinfo * gboard * ttv :=
    match fuel with
    | O => (acc, g, t)
    | S f =>
      let '(st, nodes, sc, pv, halted) :=
        search_board z (full_exploration) (captures_only) (material) (fun _ => false) use_q qfuel g t [] depth neginf_score inf_score in
      let acc' := acc ++ [(depth, nodes, sc, pv)] in
      let g' := s_g _ _ st in let t' := s_tt _ _ st in
      if (match limit with Some l => Nat.eqb depth l | None => false end) then (acc', g', t')
      else
        let (md, ok) := mate_distance sc in
        if ok && (md <=? Z.of_nat depth) then (acc', g', t')
        else iterate f (S depth) limit g' t' acc'
    end.

  (** engine with its table; the table is re-created by Reset from the Hash option through [mk_table] *)
  Record ueng := mkU { u_d : dstate; u_tt : ttv; u_hash : N; u_depth : N }.
  Variable mk_table : N -> ttv.       (* Hash option (MB) -> table; 0 -> NoTT *)

  Inductive uout := OReady | OInfo (i : pvinfo) | OBest (m : option move).

  (** go depth d (d = 0: engine default depth option; 0 there means no limit - not run sequentially) *)
  Definition go_depth (u : ueng) (d : nat) : list uout * ueng :=
    let e := d_eng (u_d u) in
    let (h1, f) := fork (e_heap e) (e_board e) in
    let '(infos, _, t') := iterate (S d) 1 (Some d) (h1, f) (u_tt u) [] in
    let best := match rev infos with
                | (_, _, _, m :: _) :: _ => Some m
                | _ => None
                end in
    (map OInfo infos ++ [OBest best], mkU (mkD (mkEngine h1 (e_board e)) (d_last (u_d u))) t' (u_hash u) (u_depth u)).

  (** position: as cmd_position, and Reset re-creates the table *)
  Definition u_position (u : ueng) (line : str) : option ueng :=
    let cont := negb (match d_last (u_d u) with [] => true | _ => false end) && is_continuation line (d_last (u_d u)) in
    match cmd_position z (u_d u) line with
    | Running s' => Some (mkU s' (if cont then u_tt u else mk_table (u_hash u)) (u_hash u) (u_depth u))
    | Exited => None
    end.
End Seq.
