(** M1 — 64-bit words (Go's uint64 / board.Bitboard) as N with explicit wrap.
    Mirrors pkg/board/bitboard.go lines 1-111. Executable definitions only. *)
From Coq Require Import NArith List.
Import ListNotations.
Open Scope N_scope.

Definition mask64 (x : N) : N := N.land x (N.ones 64).
(** Go: x << k on uint64 (bits shifted out are lost; k >= 64 gives 0) *)
Definition shl64 (x k : N) : N := mask64 (N.shiftl x k).
Definition shr64 (x k : N) : N := N.shiftr x k.
(** Go: ^x on uint64 *)
Definition not64 (x : N) : N := N.lxor (mask64 x) (N.ones 64).
(** Go: x &^ y *)
Definition andnot (x y : N) : N := N.ldiff x y.

(** BitMask(sq) = Bitboard(1 << sq) *)
Definition bitmask (sq : N) : N := shl64 1 sq.
Definition is_set (b sq : N) : bool := negb (N.land b (bitmask sq) =? 0).

(** bits.OnesCount64 *)
Fixpoint pos_popcount (p : positive) : N :=
  match p with xH => 1 | xO q => pos_popcount q | xI q => 1 + pos_popcount q end.
Definition popcount (b : N) : N := match b with N0 => 0 | Npos p => pos_popcount p end.

(** bits.TrailingZeros64: index of the least significant 1, 64 if zero (LastPopSquare) *)
Fixpoint pos_ctz (p : positive) : N :=
  match p with xO q => 1 + pos_ctz q | _ => 0 end.
Definition ctz (b : N) : N := match b with N0 => 64 | Npos p => pos_ctz p end.

(** Squares of a bitboard in ascending order: the order in which the emission loops
    (LastPopSquare; b ^= BitMask) visit them, and ToSquares. *)
Fixpoint pos_bits (p : positive) (i : N) : list N :=
  match p with
  | xH => [i]
  | xO q => pos_bits q (i + 1)
  | xI q => i :: pos_bits q (i + 1)
  end.
Definition bits_asc (b : N) : list N := match b with N0 => [] | Npos p => pos_bits p 0 end.

(** BitRank(r) = 0xff << (r << 3); BitFile(f) = 0x0101010101010101 << f *)
Definition bitrank (r : N) : N := shl64 255 (shl64 r 3).
Definition bitfile (f : N) : N := shl64 72340172838076673 f.

(** Square helpers (square.go): NewSquare, Rank, File *)
Definition new_square (f r : N) : N := N.lor (shl64 (N.land r 7) 3) (N.land f 7).
Definition sq_rank (s : N) : N := N.land (N.shiftr s 3) 7.
Definition sq_file (s : N) : N := N.land s 7.

(** list helpers used throughout the model *)
Definition nthN {A} (l : list A) (i : N) (d : A) : A := nth (N.to_nat i) l d.
Fixpoint upd {A} (l : list A) (i : nat) (v : A) : list A :=
  match l, i with
  | [], _ => []
  | _ :: r, O => v :: r
  | x :: r, S j => x :: upd r j v
  end.
Definition updN {A} (l : list A) (i : N) (v : A) : list A := upd l (N.to_nat i) v.
Definition seqN (n : nat) : list N := map N.of_nat (seq 0 n).
