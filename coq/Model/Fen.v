(** M10 — text codecs, mirroring pkg/board/fen/fen.go, ParseMove (move.go), ParseSquare (square.go),
    ParsePiece (piece.go).  Strings are lists of runes (N).  Repaired Decode: int cursor with bounds
    check, NewPosition's error propagated.  Go panics are an explicit outcome ([Crash]) so that
    totality is a theorem, not an assumption; the legacy decoder (uint8 cursor) is kept as
    [decode_legacy] with its crash. *)
From Coq Require Import NArith ZArith List Bool.
From Morlock.Model Require Import Bits Attacks Move Position.
Import ListNotations.
Open Scope N_scope.

Inductive outcome (A : Type) := Ok (a : A) | Err | Crash.
Arguments Ok {A}. Arguments Err {A}. Arguments Crash {A}.

Definition str := list N.

(** unicode.IsSpace as used by strings.TrimSpace *)
Definition is_space (r : N) : bool :=
  ((9 <=? r) && (r <=? 13)) || (r =? 32) || (r =? 0x85) || (r =? 0xA0) || (r =? 0x1680) ||
  ((0x2000 <=? r) && (r <=? 0x200a)) || (r =? 0x2028) || (r =? 0x2029) || (r =? 0x202f) || (r =? 0x205f) || (r =? 0x3000).

Fixpoint trim_left (s : str) : str :=
  match s with r :: t => if is_space r then trim_left t else s | [] => [] end.
Definition trim_space (s : str) : str := rev (trim_left (rev (trim_left s))).

(** strings.Split(s, " ") *)
Fixpoint split_space_aux (s : str) (cur : str) : list str :=
  match s with
  | [] => [rev cur]
  | r :: t => if r =? 32 then rev cur :: split_space_aux t [] else split_space_aux t (r :: cur)
  end.
Definition split_space (s : str) : list str := split_space_aux s [].

(** strings.Fields: split around runs of white space, no empty fields *)
Fixpoint fields_aux (s : str) (cur : str) : list str :=
  match s with
  | [] => match cur with [] => [] | _ => [rev cur] end
  | r :: t => if is_space r then (match cur with [] => fields_aux t [] | _ => rev cur :: fields_aux t [] end)
              else fields_aux t (r :: cur)
  end.
Definition fields (s : str) : list str := fields_aux s [].

Fixpoint str_eqb (a b : str) : bool :=
  match a, b with [] , [] => true | x :: a', y :: b' => (x =? y) && str_eqb a' b' | _, _ => false end.

Definition is_ascii_digit (r : N) : bool := (48 <=? r) && (r <=? 57).

(** strconv.Atoi: optional sign, decimal digits, int64 range *)
Fixpoint digits_value (s : str) (acc : Z) : option Z :=
  match s with
  | [] => Some acc
  | r :: t => if is_ascii_digit r then digits_value t (acc * 10 + Z.of_N (r - 48))%Z else None
  end.
Definition atoi (s : str) : option Z :=
  let body (neg : bool) (d : str) :=
    match d with
    | [] => None
    | _ => match digits_value d 0%Z with
           | Some v => let v := if neg then (- v)%Z else v in
                       if ((-9223372036854775808 <=? v) && (v <=? 9223372036854775807))%Z then Some v else None
           | None => None
           end
    end in
  match s with
  | [] => None
  | 43 :: d => body false d       (* '+' *)
  | 45 :: d => body true d        (* '-' *)
  | d => body false d
  end.

(** strconv.Itoa / %v of a non-negative int *)
Fixpoint itoa_pos (fuel : nat) (n : N) (acc : str) : str :=
  match fuel with
  | O => acc
  | S f => let acc' := (48 + n mod 10) :: acc in if n / 10 =? 0 then acc' else itoa_pos f (n / 10) acc'
  end.
Definition itoa (z : Z) : str :=
  if (z <? 0)%Z then 45 :: itoa_pos 25 (Z.to_N (- z)) [] else itoa_pos 25 (Z.to_N z) [].

(** ParsePiece / fen.parsePiece *)
Definition parse_piece (r : N) : option N :=
  if (r =? 112) || (r =? 80) then Some Pawn else if (r =? 98) || (r =? 66) then Some Bishop
  else if (r =? 110) || (r =? 78) then Some Knight else if (r =? 114) || (r =? 82) then Some Rook
  else if (r =? 113) || (r =? 81) then Some Queen else if (r =? 107) || (r =? 75) then Some King else None.
Definition is_upper (r : N) : bool := (65 <=? r) && (r <=? 90).
Definition fen_parse_piece (r : N) : option (N * N) :=
  match parse_piece r with Some p => Some (if is_upper r then White else Black, p) | None => None end.

(** ParseFile / ParseRank / ParseSquare *)
Definition parse_file (r : N) : option N :=
  if ((97 <=? r) && (r <=? 104)) then Some (7 - (r - 97))
  else if ((65 <=? r) && (r <=? 72)) then Some (7 - (r - 65)) else None.
Definition parse_rank (r : N) : option N := if (49 <=? r) && (r <=? 56) then Some (r - 49) else None.
Definition parse_square (f r : N) : option N :=
  match parse_file f, parse_rank r with Some fi, Some ra => Some (new_square fi ra) | _, _ => None end.
Definition parse_square_str (s : str) : option N :=
  match s with [f; r] => parse_square f r | _ => None end.

(** ParseMove: (from, to, promotion) *)
Definition parse_move (s : str) : option move :=
  match s with
  | [a; b; c; d] =>
      match parse_square a b, parse_square c d with
      | Some f, Some t => Some (mkMove 0 f t 0 0 0)
      | _, _ => None
      end
  | [a; b; c; d; e] =>
      match parse_square a b, parse_square c d with
      | Some f, Some t =>
          match parse_piece e with
          | Some p => if (p =? Pawn) || (p =? King) then None else Some (mkMove 0 f t 0 p 0)
          | None => None
          end
      | _, _ => None
      end
  | _ => None
  end.

(** fen.parseColor / parseCastling *)
Definition parse_color (s : str) : option N :=
  match s with [119] | [87] => Some White | [98] | [66] => Some Black | _ => None end.
Fixpoint parse_castling_runes (s : str) (acc : N) : option N :=
  match s with
  | [] => Some acc
  | r :: t => if r =? 75 then parse_castling_runes t (N.lor acc WhiteKingSideCastle)
              else if r =? 81 then parse_castling_runes t (N.lor acc WhiteQueenSideCastle)
              else if r =? 107 then parse_castling_runes t (N.lor acc BlackKingSideCastle)
              else if r =? 113 then parse_castling_runes t (N.lor acc BlackQueenSideCastle)
              else None
  end.
Definition parse_castling (s : str) : option N := if str_eqb s [45] then Some 0 else parse_castling_runes s 0.

(** piece placement field, repaired: the cursor is an int (Z); a piece can only be placed on 0..63 *)
Fixpoint parse_board (s : str) (sq : Z) (acc : list placement) : option (list placement * Z) :=
  match s with
  | [] => Some (rev acc, sq)
  | r :: t =>
      if r =? 47 then parse_board t sq acc
      else if is_ascii_digit r then parse_board t (sq - Z.of_N (r - 48))%Z acc
      else match fen_parse_piece r with
           | Some (c, p) => if ((sq <? 0) || (63 <? sq))%Z then None
                            else parse_board t (sq - 1)%Z (mkPlacement (Z.to_N sq) c p :: acc)
           | None => None
           end
  end.

Definition decoded := (position * N * Z * Z)%type.

(** fen.Decode *)
Definition decode (s : str) : outcome decoded :=
  match split_space (trim_space s) with
  | [brd; col; cas; ep; np; fm] =>
      match parse_board brd 63%Z [] with
      | Some (pls, sq) =>
          if negb (sq =? -1)%Z then Err else
          match parse_color col, parse_castling cas with
          | Some c, Some ca =>
              match (if str_eqb ep [45] then Some 0 else parse_square_str ep) with
              | Some e =>
                  match atoi np, atoi fm with
                  | Some n, Some f =>
                      if ((n <? 0) || (f <? 0))%Z then Err else
                      match new_position pls ca e with
                      | Some pos => Ok (pos, c, n, f)
                      | None => Err
                      end
                  | _, _ => Err
                  end
              | None => Err
              end
          | _, _ => Err
          end
      | None => Err
      end
  | _ => Err
  end.

(** fen.Encode *)
Definition print_piece (c p : N) : N :=
  let base := if p =? Pawn then 80 else if p =? Bishop then 66 else if p =? Knight then 78
              else if p =? Rook then 82 else if p =? Queen then 81 else if p =? King then 75 else 63 in
  if c =? White then base else if base =? 63 then 63 else base + 32.

Definition encode_rank (pos : position) (r : N) : str :=
  let step (st : str * N) (f : N) : str * N :=
    let '(out, blanks) := st in
    match square pos (new_square (8 - f - 1) (8 - r - 1)) with
    | None => (out, blanks + 1)
    | Some (c, p) => (out ++ (if 0 <? blanks then itoa (Z.of_N blanks) else []) ++ [print_piece c p], 0)
    end in
  let '(out, blanks) := fold_left step (seqN 8) ([], 0) in
  out ++ (if 0 <? blanks then itoa (Z.of_N blanks) else []).

Definition print_castling (c : N) : str :=
  if c =? 0 then [45] else
  (if is_allowed c WhiteKingSideCastle then [75] else []) ++ (if is_allowed c WhiteQueenSideCastle then [81] else []) ++
  (if is_allowed c BlackKingSideCastle then [107] else []) ++ (if is_allowed c BlackQueenSideCastle then [113] else []).

Definition file_char (f : N) : N := 97 + (7 - f).      (* FileH = 0 -> 'h' *)
Definition rank_char (r : N) : N := 49 + r.
Definition square_str (s : N) : str := [file_char (sq_file s); rank_char (sq_rank s)].

Definition join_space (l : list str) : str :=
  match l with [] => [] | x :: r => fold_left (fun acc y => acc ++ 32 :: y) r x end.

Definition encode (pos : position) (c : N) (np fm : Z) : str :=
  let brd := fold_left (fun acc r => acc ++ encode_rank pos r ++ (if r <? 7 then [47] else [])) (seqN 8) [] in
  join_space [brd; (if c =? White then [119] else [98]); print_castling (castling pos);
              (if enpassant pos =? 0 then [45] else square_str (enpassant pos)); itoa np; itoa fm].

(** fen.Initial *)
Definition fen_initial : str :=
  [114;110;98;113;107;98;110;114;47;112;112;112;112;112;112;112;112;47;56;47;56;47;56;47;56;47;
   80;80;80;80;80;80;80;80;47;82;78;66;81;75;66;78;82;32;119;32;75;81;107;113;32;45;32;48;32;49].

(** * Legacy decoder (as found): uint8 cursor, NewPosition's error dropped.  [is_digit]/[is_letter]
    are unicode.IsDigit / unicode.IsLetter.  A placement on a square >= 64 indexes the rotation tables
    out of range (Crash); a duplicate placement yields a nil position with a nil error (modelled as
    Ok of the empty position marker [None]). *)
Section Legacy.
  Variable is_digit is_letter : N -> bool.
  Definition wrap8u (z : Z) : Z := (z mod 256)%Z.
  Fixpoint parse_board_legacy (s : str) (sq : Z) (acc : list placement) : option (list placement * Z) :=
    match s with
    | [] => Some (rev acc, sq)
    | r :: t =>
        if r =? 47 then parse_board_legacy t sq acc
        else if is_digit r then parse_board_legacy t (wrap8u (sq - (Z.of_N r - 48))) acc
        else if is_letter r then
          match fen_parse_piece r with
          | Some (c, p) => parse_board_legacy t (wrap8u (sq - 1)) (mkPlacement (Z.to_N sq) c p :: acc)
          | None => None
          end
        else None
    end.
  (** outcome of building the position: Crash if a placement is off the board when reached *)
  Definition new_position_legacy (pls : list placement) (ca e : N) : outcome (option position) :=
    fold_left (fun acc pl =>
      match acc with
      | Ok (Some pos) =>
          if 64 <=? pl_square pl then Crash
          else if is_empty pos (pl_square pl) then Ok (Some (pos_xor pos (pl_square pl) (pl_color pl) (pl_piece pl)))
          else Ok None
      | other => other
      end) pls (Ok (Some (empty_position ca e))).
  Definition decode_board_legacy (brd : str) : outcome (option position) :=
    match parse_board_legacy brd 63%Z [] with
    | Some (pls, sq) => if negb (wrap8u (sq + 1) =? 0)%Z then Err else new_position_legacy pls 0 0
    | None => Err
    end.
End Legacy.
