(** M14 — transposition table, mirroring pkg/search/transposition.go.
    Sequential semantics (Read / Write / Used on a slot array) and a micro-step semantics for any
    number of threads (atomic load, compare-and-swap, update of the fill counter). *)
From Coq Require Import NArith ZArith List Bool.
From Morlock.Model Require Import Bits Score Move.
Import ListNotations.
Open Scope N_scope.

(** node + metadata: immutable once published *)
Record entry := mkEntry {
  e_hash : N; e_score : score; e_bound : N;
  e_from : N; e_to : N; e_promo : N;
  e_ply : N; e_depth : N        (* uint16 *)
}.

Definition wrap16 (x : N) : N := x mod 65536.
Definition wrap16z (x : Z) : N := Z.to_N (x mod 65536).

(** val: replacement value, uint16 arithmetic *)
Definition val (e : option entry) : N :=
  match e with
  | None => 0
  | Some n => wrap16 (e_ply n + wrap16 (N.shiftl (e_depth n) 1))
  end.

Record table := mkTable { slots : list (option entry); used : N }.

(** number of slots for a byte size: 1 << (63 - 5 - LeadingZeros64(size)) = 2^(floor(log2 size) - 5).
    Sizes below 32 bytes shift by a negative amount in Go (panic); the model returns no table. *)
Definition slot_count (size : N) : option N :=
  if size <? 32 then None else Some (N.shiftl 1 (N.log2 size - 5)).
Definition new_table (size : N) : option table :=
  match slot_count size with
  | Some n => Some (mkTable (repeat None (N.to_nat n)) 0)
  | None => None
  end.

Definition nslots (t : table) : N := N.of_nat (length (slots t)).
Definition key (t : table) (hash : N) : N := N.land hash (nslots t - 1).

(** Read: (bound, depth, score, move{from,to,promotion}) *)
Definition tt_read (t : table) (hash : N) : option (N * Z * score * move) :=
  match nthN (slots t) (key t hash) None with
  | Some e => if e_hash e =? hash
              then Some (e_bound e, Z.of_N (e_depth e), e_score e, mkMove 0 (e_from e) (e_to e) 0 (e_promo e) 0)
              else None
  | None => None
  end.

Definition fresh_entry (hash bound : N) (ply depth : Z) (sc : score) (m : move) : entry :=
  mkEntry hash sc bound (mfrom m) (mto m) (mpromo m) (wrap16z ply) (wrap16z depth).

(** Write (sequential): skip when the resident entry has a strictly greater replacement value *)
Definition tt_write_ok (t : table) (hash bound : N) (ply depth : Z) (sc : score) (m : move) : table * bool :=
  let k := key t hash in
  let old := nthN (slots t) k None in
  let fresh := fresh_entry hash bound ply depth sc m in
  if val (Some fresh) <? val old then (t, false)
  else (mkTable (updN (slots t) k (Some fresh)) (match old with None => used t + 1 | Some _ => used t end), true).
Definition tt_write (t : table) (hash bound : N) (ply depth : Z) (sc : score) (m : move) : table :=
  fst (tt_write_ok t hash bound ply depth sc m).

(** Used() as a fraction numerator/denominator *)
Definition tt_used (t : table) : N * N := (used t, nslots t).
Definition tt_occupied (t : table) : N := N.of_nat (length (filter (fun s => match s with Some _ => true | None => false end) (slots t))).

(** WriteLimited with the minimum-depth filter of NewMinDepthTranspositionTable *)
Definition tt_write_mindepth (min : Z) (t : table) (hash bound : N) (ply depth : Z) (sc : score) (m : move) : table :=
  if (depth <? min)%Z then t else tt_write t hash bound ply depth sc m.

(** * Micro-step semantics for concurrent use.
    Each thread runs a list of operations; a Write is: load the slot; loop { if val(ptr) > val(fresh)
    give up; CAS(slot, ptr, fresh): on success, if ptr was nil bump the counter, done; else reload }.
    Entries are identified by allocation ids so that CAS compares pointers, not contents. *)
Inductive top := TRead (hash : N) | TWrite (hash bound : N) (ply depth : Z) (sc : score) (m : move).

Inductive pc :=
  | PIdle
  | PLoaded (fresh : nat) (ptr : option nat)      (* fresh node allocated, slot value loaded *)
  | PBump                                          (* CAS from nil succeeded, counter update pending *)
  | PBumpLoaded (u : N).                           (* non-atomic counter update: value read, write pending *)

Record thread := mkThread { t_ops : list top; t_pc : pc; t_out : list (option (N * Z * score * move)) }.

Record cstate := mkC {
  c_nodes : list entry;             (* allocation heap of immutable nodes *)
  c_slots : list (option nat);      (* slot -> node id *)
  c_used : N;
  c_threads : list thread
}.

Definition c_key (s : cstate) (hash : N) : N := N.land hash (N.of_nat (length (c_slots s)) - 1).
Definition node_of (s : cstate) (p : option nat) : option entry :=
  match p with Some i => nth_error (c_nodes s) i | None => None end.
Definition onat_eqb (a b : option nat) : bool :=
  match a, b with None, None => true | Some x, Some y => Nat.eqb x y | _, _ => false end.

Definition set_thread (s : cstate) (i : nat) (t : thread) : cstate :=
  mkC (c_nodes s) (c_slots s) (c_used s) (upd (c_threads s) i t).

(** one step of thread [i]; [atomic_used] selects atomic.AddUint64 (repaired) or the plain
    read-modify-write t.used++ (as found).  None = thread has nothing to do. *)
Definition cstep (atomic_used : bool) (s : cstate) (i : nat) : option cstate :=
  match nth_error (c_threads s) i with
  | None => None
  | Some t =>
    match t_pc t, t_ops t with
    | PIdle, [] => None
    | PIdle, TRead hash :: rest =>
        let p := nthN (c_slots s) (c_key s hash) None in
        let out := match node_of s p with
                   | Some e => if e_hash e =? hash
                               then Some (e_bound e, Z.of_N (e_depth e), e_score e, mkMove 0 (e_from e) (e_to e) 0 (e_promo e) 0)
                               else None
                   | None => None
                   end in
        Some (set_thread s i (mkThread rest PIdle (t_out t ++ [out])))
    | PIdle, TWrite hash bound ply depth sc m :: _ =>
        (* allocate fresh, load the slot *)
        let id := length (c_nodes s) in
        let s1 := mkC (c_nodes s ++ [fresh_entry hash bound ply depth sc m]) (c_slots s) (c_used s) (c_threads s) in
        Some (set_thread s1 i (mkThread (t_ops t) (PLoaded id (nthN (c_slots s) (c_key s hash) None)) (t_out t)))
    | PLoaded fresh ptr, TWrite hash _ _ _ _ _ :: rest =>
        if val (node_of s (Some fresh)) <? val (node_of s ptr) then
          Some (set_thread s i (mkThread rest PIdle (t_out t)))                       (* skip *)
        else
          let k := c_key s hash in
          let cur := nthN (c_slots s) k None in
          if onat_eqb cur ptr then                                                    (* CAS succeeds *)
            let s1 := mkC (c_nodes s) (updN (c_slots s) k (Some fresh)) (c_used s) (c_threads s) in
            match ptr with
            | None => Some (set_thread s1 i (mkThread (t_ops t) PBump (t_out t)))
            | Some _ => Some (set_thread s1 i (mkThread rest PIdle (t_out t)))
            end
          else Some (set_thread s i (mkThread (t_ops t) (PLoaded fresh cur) (t_out t)))   (* reload *)
    | PBump, _ :: rest =>
        if atomic_used
        then Some (set_thread (mkC (c_nodes s) (c_slots s) (c_used s + 1) (c_threads s)) i (mkThread rest PIdle (t_out t)))
        else Some (set_thread s i (mkThread (t_ops t) (PBumpLoaded (c_used s)) (t_out t)))
    | PBumpLoaded u, _ :: rest =>
        Some (set_thread (mkC (c_nodes s) (c_slots s) (u + 1) (c_threads s)) i (mkThread rest PIdle (t_out t)))
    | _, _ => None
    end
  end.

(** run a schedule (list of thread indices); steps of finished threads are no-ops *)
Definition crun (atomic_used : bool) (s : cstate) (sched : list nat) : cstate :=
  fold_left (fun s i => match cstep atomic_used s i with Some s' => s' | None => s end) sched s.

Definition c_init (nslots : nat) (progs : list (list top)) : cstate :=
  mkC [] (repeat None nslots) 0 (map (fun ops => mkThread ops PIdle []) progs).
Definition c_occupied (s : cstate) : N :=
  N.of_nat (length (filter (fun p => match p with Some _ => true | None => false end) (c_slots s))).
Definition c_quiescent (s : cstate) : bool :=
  forallb (fun t => match t_pc t, t_ops t with PIdle, [] => true | _, _ => false end) (c_threads s).
