(** Derived queries of pkg/eval: FindCapture (capture.go) and FindPins (pins.go), and their
    specification on the mailbox board (C06: "which pieces can capture on this square", "which pieces
    are pinned against this king or queen"). Executable definitions only. *)
From Coq Require Import NArith ZArith List Bool.
From Morlock.Model Require Import Bits Attacks Move Position Abs.
From Morlock.Spec Require Import Chess.
Import ListNotations.
Open Scope N_scope.

(** FindCapture: the pieces of [side] that directly target [sq] (piece, square), officers in the
    order K Q R N B with squares ascending, then pawns *)
Definition find_capture (pos : position) (side sq : N) : list (N * N) :=
  flat_map (fun piece =>
      map (fun from => (piece, from))
          (bits_asc (N.land (attackboard (rotated_bb pos) sq piece) (pget pos side piece))))
    KingQueenRookKnightBishop
  ++ map (fun from => (Pawn, from))
         (bits_asc (N.land (pawn_captureboard (opponent side) (bitmask sq)) (pget pos side Pawn))).

(** FindPins: (attacker, pinned, target) *)
Definition pins_on_line (pos : position) (side target : N) (ab : rotated -> N -> N) (slider : N) : list (N * N * N) :=
  let line := ab (rotated_bb pos) target in
  let attackers := N.lor (pget pos (opponent side) Queen) (pget pos (opponent side) slider) in
  flat_map (fun pinned =>
      let candidate := N.land (andnot (ab (rot_xor (rotated_bb pos) pinned) target) line) attackers in
      if candidate =? 0 then [] else [(ctz candidate, pinned, target)])
    (bits_asc (N.land line (pget pos side NoPiece))).
Definition find_pins (pos : position) (side piece : N) : list (N * N * N) :=
  flat_map (fun target =>
      pins_on_line pos side target rook_attackboard Rook ++ pins_on_line pos side target bishop_attackboard Bishop)
    (bits_asc (pget pos side piece)).

(** * Specification *)
(** the squares holding a piece of colour [c] that geometrically attacks [t] *)
Definition spec_capturers (b : mboard) (c : color) (t : nat) : list (kind * nat) :=
  flat_map (fun s => match at_ b s with
                     | Some (c', k) => if color_eqb c c' && mem_nat t (attacks_from (occupied b) c k s) then [(k, s)] else []
                     | None => []
                     end) all_squares.

(** walking from (f,r) in direction (df,dr): the first occupied square, if any *)
Fixpoint first_occupied (b : mboard) (f r df dr : Z) (fuel : nat) : option nat :=
  match fuel with
  | O => None
  | S n => let f' := (f + df)%Z in let r' := (r + dr)%Z in
           if on_board f' r' then
             let s := sq_of f' r' in if occupied b s then Some s else first_occupied b f' r' df dr n
           else None
  end.
(** pins against the piece on [t] of colour [c]: an own piece p is the first piece seen from t along a
    line, and the next piece beyond p on that line is an enemy queen or a slider of the line's kind *)
Definition spec_pins_on (b : mboard) (c : color) (t : nat) : list (nat * nat * nat) :=
  let go (dirs : list (Z * Z)) (slider : kind) :=
    flat_map (fun d =>
      match first_occupied b (file_of t) (rank_of t) (fst d) (snd d) 7 with
      | Some p =>
          if is_color b c p then
            match first_occupied b (file_of p) (rank_of p) (fst d) (snd d) 7 with
            | Some a => match at_ b a with
                        | Some (c', k) => if color_eqb c' (other c) && (kind_eqb k Q || kind_eqb k slider) then [(a, p, t)] else []
                        | None => []
                        end
            | None => []
            end
          else []
      | None => []
      end) dirs in
  go rook_dirs R ++ go bishop_dirs Bi.
Definition spec_pins (b : mboard) (c : color) (k : kind) : list (nat * nat * nat) :=
  flat_map (fun t => match at_ b t with
                     | Some (c', k') => if color_eqb c c' && kind_eqb k k' then spec_pins_on b c t else []
                     | None => []
                     end) all_squares.
