(** M9 — searches, mirroring pkg/search/{alphabeta,quiescence,minimax,exploration}.go and
    pkg/board/movelist.go (repaired code: child window shifted by one ply of mate distance, root
    always expanded, exact table entries only strictly inside the window, nothing stored once
    halted).

    The search is written once, over an abstract mutable game [G] with the operations the Go code
    calls on *board.Board; Model/SearchBoard.v instantiates it with the heap board of Model/Board.v.
    The transposition table, the exploration policy, the leaf evaluation and the cancellation
    oracle are parameters. *)
From Coq Require Import NArith ZArith List Bool.
From Morlock.Model Require Import Bits Score Attacks Move.
Import ListNotations.
Open Scope Z_scope.

(** * MoveList: container/heap on (move, priority), largest priority first *)
Definition elm := (move * Z)%type.
Definition delm : elm := (no_move, 0).
Definition hless (h : list elm) (i j : nat) : bool := snd (nth j h delm) <? snd (nth i h delm).
Definition swap (h : list elm) (i j : nat) : list elm :=
  let a := nth i h delm in let b := nth j h delm in upd (upd h i b) j a.

Fixpoint down (fuel : nat) (h : list elm) (i n : nat) : list elm :=
  match fuel with
  | O => h
  | S f =>
    let j1 := (2 * i + 1)%nat in
    if (n <=? j1)%nat then h
    else
      let j := if ((j1 + 1 <? n)%nat && hless h (j1 + 1) j1) then (j1 + 1)%nat else j1 in
      if negb (hless h j i) then h else down f (swap h i j) j n
  end.

(** heap.Init *)
Definition heap_init (h : list elm) : list elm :=
  let n := length h in
  fold_left (fun h i => down n h i n) (rev (seq 0 (n / 2))) h.

(** heap.Pop: swap first and last, sift down, remove last *)
Definition heap_pop (h : list elm) : elm * list elm :=
  let n := (length h - 1)%nat in
  let h1 := down n (swap h 0 n) 0 n in
  (nth n h1 delm, firstn n h1).

Fixpoint drain (fuel : nat) (h : list elm) : list move :=
  match fuel with
  | O => []
  | S f => match h with
           | [] => []
           | _ => let (e, h') := heap_pop h in fst e :: drain f h'
           end
  end.

(** the order in which MoveList.Next returns the moves *)
Definition movelist (moves : list move) (prio : move -> Z) : list move :=
  drain (length moves) (heap_init (map (fun m => (m, prio m)) moves)).

(** board.First *)
Definition first_prio (best : move) (prio : move -> Z) (m : move) : Z :=
  if move_equals best m then 32767 else prio m.

(** * Exploration helpers (exploration.go, eval.go) *)
Definition nominal_value (p : N) : Z :=
  if (p =? Pawn)%N then 1 else if ((p =? Bishop) || (p =? Knight))%N then 3
  else if (p =? Rook)%N then 5 else if (p =? Queen)%N then 9 else if (p =? King)%N then 100 else 0.
Definition nominal_value_gain (m : move) : Z :=
  if (mtype m =? CapturePromotion)%N then nominal_value (mcapture m) + nominal_value (mpromo m) - 1
  else if (mtype m =? Promotion)%N then nominal_value (mpromo m) - 1
  else if (mtype m =? Capture)%N then nominal_value (mcapture m)
  else if (mtype m =? EnPassant)%N then 1 else 0.
Definition mvvlva (m : move) : Z :=
  let p := 100 * nominal_value_gain m in
  if 0 <? p then p - nominal_value (mpiece m) else 0.

(** Bound *)
Definition ExactBound : N := 0%N. Definition LowerBound : N := 1%N.

Section Search.
  (** the game board as the search sees it *)
  Variable G : Type.
  Variable g_draw : G -> bool.                 (* Result().Outcome == Draw *)
  Variable g_hash : G -> N.
  Variable g_ply : G -> Z.
  Variable g_moves : G -> list move.           (* Position().PseudoLegalMoves(Turn()) *)
  Variable g_push : G -> move -> option G.     (* PushMove: None when not legal *)
  Variable g_pop : G -> G.                     (* PopMove *)
  Variable g_mated : G -> G * bool.            (* AdjudicateNoLegalMoves: (board, is checkmate) *)
  Variable g_clear_draw : G -> G.              (* Adjudicate(Undecided) *)
  Variable g_restore : G -> G -> G.            (* Adjudicate(entry result of the first board) *)

  (** transposition table *)
  Variable TT : Type.
  Variable tt_read : TT -> N -> option (N * Z * score * move).          (* bound, depth, score, move *)
  Variable tt_write : TT -> N -> N -> Z -> Z -> score -> move -> TT.     (* hash bound ply depth score move *)

  (** exploration policy: priorities from the board before the move, predicate on the board after it *)
  Variable explore : G -> (move -> Z) * (G -> move -> bool).
  Variable qexplore : G -> (move -> Z) * (G -> move -> bool).
  (** leaf evaluation (float32 bit pattern of Pawns) *)
  Variable leaf_eval : G -> Z.
  (** cancellation: answer of the n-th poll of ctx.Done() *)
  Variable cancel : nat -> bool.

  Record sst := mkSst { s_g : G; s_tt : TT; s_nodes : N; s_polls : nat; s_ponder : list move }.
  Definition set_g (st : sst) (g : G) : sst := mkSst g (s_tt st) (s_nodes st) (s_polls st) (s_ponder st).
  Definition set_tt (st : sst) (t : TT) : sst := mkSst (s_g st) t (s_nodes st) (s_polls st) (s_ponder st).
  Definition add_nodes (st : sst) (n : N) : sst := mkSst (s_g st) (s_tt st) (s_nodes st + n)%N (s_polls st) (s_ponder st).
  Definition set_ponder (st : sst) (p : list move) : sst := mkSst (s_g st) (s_tt st) (s_nodes st) (s_polls st) p.
  (** contextx.IsCancelled(ctx) *)
  Definition poll (st : sst) : bool * sst :=
    (cancel (s_polls st), mkSst (s_g st) (s_tt st) (s_nodes st) (S (s_polls st)) (s_ponder st)).

  (** ** Quiescence.search (fuel bounds the recursion; the theorems exclude exhaustion).
      Own node counter, returned to the caller. *)
  Fixpoint qsearch (fuel : nat) (st : sst) (qn : N) (alpha beta : score) {struct fuel} : sst * N * score :=
    match fuel with
    | O => (st, qn, invalid_score)
    | S f =>
      let (c, st) := poll st in
      if c then (st, qn, zero_score) else
      if g_draw (s_g st) then (st, qn, zero_score) else
      let qn := (qn + 1)%N in
      let sc := heuristic (leaf_eval (s_g st)) in
      let alpha := smax alpha sc in
      let (prio, pred) := qexplore (s_g st) in
      let order := movelist (g_moves (s_g st)) prio in
      let fix loop (ms : list move) (st : sst) (qn : N) (alpha : score) (has : bool) {struct ms} : sst * N * score * bool :=
        match ms with
        | [] => (st, qn, alpha, has)
        | mv :: rest =>
          match g_push (s_g st) mv with
          | None => loop rest st qn alpha has
          | Some g1 =>
            let st1 := set_g st g1 in
            let '(st2, qn2, alpha') :=
              if pred g1 mv then
                let '(st2, qn2, s) := qsearch f st1 qn (dec (negate beta)) (dec (negate alpha)) in
                (st2, qn2, smax alpha (negate (inc s)))
              else (st1, qn, alpha) in
            let st3 := set_g st2 (g_pop (s_g st2)) in
            if go_eq alpha' beta || less beta alpha' then (st3, qn2, alpha', true)
            else loop rest st3 qn2 alpha' true
          end
        end in
      let '(st, qn, alpha', has) := loop order st qn alpha false in
      if negb has then
        let (g', mated) := g_mated (s_g st) in
        (set_g st g', qn, if mated then neginf_score else zero_score)
      else (st, qn, alpha')
    end.

  (** QuietSearch implementations: Leaf (static evaluation) or Quiescence *)
  Variable use_quiescence : bool.
  Variable qfuel : nat.
  Definition quiet_search (st : sst) (alpha beta : score) : sst * N * score :=
    if use_quiescence then qsearch qfuel st 0%N alpha beta
    else (st, 1%N, heuristic (leaf_eval (s_g st))).

  (** ** runAlphaBeta.search *)
  Fixpoint ab (depth : nat) (root : bool) (st : sst) (alpha beta : score) {struct depth} : sst * score * list move :=
    let (c, st) := poll st in
    if c then (st, invalid_score, []) else
    if negb root && g_draw (s_g st) then (st, zero_score, []) else
    let rd := tt_read (s_tt st) (g_hash (s_g st)) in
    let best := match rd with Some (_, _, _, m) => m | None => no_move end in
    let hit := match rd with
               | Some (bound, d, sc, _) =>
                   if negb root && (Z.of_nat depth =? d) && (bound =? ExactBound)%N then Some sc else None
               | None => None
               end in
    match hit with
    | Some sc => (st, sc, [])
    | None =>
      match depth with
      | O =>
        let '(st, nodes, sc) := quiet_search st alpha beta in
        let st := add_nodes st nodes in
        if less alpha sc && less sc beta then
          let (c, st) := poll st in
          if c then (st, sc, [])
          else (set_tt st (tt_write (s_tt st) (g_hash (s_g st)) ExactBound (g_ply (s_g st)) 0 sc no_move), sc, [])
        else (st, sc, [])
      | S d =>
        let st := add_nodes st 1%N in
        let low := alpha in
        let (prio, pred0) := explore (s_g st) in
        let '(pred, st) :=
          match s_ponder st with
          | p :: rest => ((fun (_ : G) (m : move) => move_equals p m), set_ponder st rest)
          | [] => (pred0, st)
          end in
        let order := movelist (g_moves (s_g st)) (first_prio best prio) in
        let fix loop (ms : list move) (st : sst) (alpha : score) (pv : list move) (has : bool) {struct ms}
          : sst * score * list move * bool * bool :=
          match ms with
          | [] => (st, alpha, pv, has, false)
          | mv :: rest =>
            match g_push (s_g st) mv with
            | None => loop rest st alpha pv has
            | Some g1 =>
              let st1 := set_g st g1 in
              let '(st2, alpha', pv') :=
                if pred g1 mv then
                  let '(st2, s, rem) := ab d false st1 (dec (negate beta)) (dec (negate alpha)) in
                  let s := negate (inc s) in
                  if less alpha s then (st2, s, mv :: rem) else (st2, alpha, pv)
                else (st1, alpha, pv) in
              let st3 := set_g st2 (g_pop (s_g st2)) in
              if go_eq alpha' beta || less beta alpha' then (st3, alpha', pv', true, true)
              else loop rest st3 alpha' pv' true
            end
          end in
        let '(st, alpha', pv, has, cut) := loop order st alpha [] false in
        if negb has then
          let (g', mated) := g_mated (s_g st) in
          (set_g st g', if mated then neginf_score else zero_score, [])
        else if negb cut && less low alpha' then
          let (c, st) := poll st in
          if c then (st, alpha', pv)
          else (set_tt st (tt_write (s_tt st) (g_hash (s_g st)) ExactBound (g_ply (s_g st)) (Z.of_nat depth) alpha'
                                    (match pv with m :: _ => m | [] => no_move end)), alpha', pv)
        else (st, alpha', pv)
      end
    end.

  (** AlphaBeta.Search: (final state, nodes, score, pv, halted) *)
  Definition ab_search (g : G) (t : TT) (ponder : list move) (depth : nat) (low high : score)
    : sst * N * score * list move * bool :=
    let drawn := g_draw g in
    let g0 := if drawn then g_clear_draw g else g in
    let st := mkSst g0 t 0%N 0%nat ponder in
    let '(st, sc, pv) := ab depth true st low high in
    let (c, st) := poll st in
    let st := if drawn then set_g st (g_restore g (s_g st)) else st in
    if c then (st, 0%N, invalid_score, [], true) else (st, s_nodes st, sc, pv, false).

  (** ** runMinimax.search (reference implementation in the repository) *)
  Fixpoint mmx (depth : nat) (st : sst) {struct depth} : sst * score * list move :=
    let st := add_nodes st 1%N in
    let (c, st) := poll st in
    if c then (st, zero_score, []) else
    if g_draw (s_g st) then (st, zero_score, []) else
    match depth with
    | O => (st, heuristic (leaf_eval (s_g st)), [])
    | S d =>
      let fix loop (ms : list move) (st : sst) (sc : score) (pv : list move) (has : bool) {struct ms}
        : sst * score * list move * bool :=
        match ms with
        | [] => (st, sc, pv, has)
        | mv :: rest =>
          match g_push (s_g st) mv with
          | None => loop rest st sc pv has
          | Some g1 =>
            let '(st2, s, rem) := mmx d (set_g st g1) in
            let st3 := set_g st2 (g_pop (s_g st2)) in
            let s := negate (inc s) in
            if less sc s then loop rest st3 s (mv :: rem) true else loop rest st3 sc pv true
          end
        end in
      let '(st, sc, pv, has) := loop (g_moves (s_g st)) st neginf_score [] false in
      if negb has then
        let (g', mated) := g_mated (s_g st) in
        (set_g st g', if mated then neginf_score else zero_score, [])
      else (st, sc, pv)
    end.
End Search.
