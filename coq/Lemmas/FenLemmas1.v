(** FEN codec, part 1: string helpers, Atoi/Itoa, the small parsers (colour, castling, square, move). *)
From Coq Require Import NArith ZArith List Bool Lia ZifyBool ZifyNat ZifyN.
From Morlock.Model Require Import Bits Attacks Move Position Fen.
From Morlock.Lemmas Require Import PositionLemmas.
Import ListNotations.
Open Scope N_scope.

(* ------------------------------------------------------------------ *)
(** * white space, trimming, splitting *)

Definition nospace (s : str) : Prop := Forall (fun r => is_space r = false) s.

Lemma nospace_app a b : nospace a -> nospace b -> nospace (a ++ b).
Proof. intros Ha Hb. apply Forall_app. now split. Qed.

Lemma is_space_32 r : is_space r = false -> (r =? 32) = false.
Proof. unfold is_space. intros H. destruct (r =? 32); [|reflexivity].
  rewrite orb_true_r in H. cbn in H. discriminate. Qed.

Lemma trim_left_id r t : is_space r = false -> trim_left (r :: t) = r :: t.
Proof. intros H. cbn [trim_left]. now rewrite H. Qed.

Lemma trim_space_id x m y : is_space x = false -> is_space y = false ->
  trim_space (x :: m ++ [y]) = x :: m ++ [y].
Proof. intros Hx Hy. unfold trim_space. rewrite (trim_left_id _ _ Hx).
  change (x :: m ++ [y]) with ((x :: m) ++ [y]). rewrite rev_app_distr. cbn [rev app].
  rewrite (trim_left_id _ _ Hy).
  change (y :: rev m ++ [x]) with ([y] ++ rev (x :: m)).
  rewrite rev_app_distr, rev_involutive. reflexivity. Qed.

Lemma split_aux_field a b cur : nospace a ->
  split_space_aux (a ++ 32 :: b) cur = (rev cur ++ a) :: split_space_aux b [].
Proof. intros Ha. revert cur. induction Ha as [|r a Hr Ha IH]; intros cur.
  - cbn. now rewrite app_nil_r.
  - cbn [app split_space_aux]. rewrite (is_space_32 _ Hr), IH. cbn [rev]. now rewrite <- app_assoc. Qed.

Lemma split_aux_last a cur : nospace a -> split_space_aux a cur = [rev cur ++ a].
Proof. intros Ha. revert cur. induction Ha as [|r a Hr Ha IH]; intros cur.
  - cbn. now rewrite app_nil_r.
  - cbn [split_space_aux]. rewrite (is_space_32 _ Hr), IH. cbn [rev]. now rewrite <- app_assoc. Qed.

Lemma split_six a b c d e f : nospace a -> nospace b -> nospace c -> nospace d -> nospace e -> nospace f ->
  split_space (join_space [a; b; c; d; e; f]) = [a; b; c; d; e; f].
Proof. intros Ha Hb Hc Hd He Hf. unfold split_space, join_space. cbn [fold_left].
  rewrite <- !app_assoc. rewrite <- !app_comm_cons.
  rewrite !split_aux_field by assumption. rewrite split_aux_last by assumption. reflexivity. Qed.

Lemma join_six a b c d e f :
  join_space [a; b; c; d; e; f] = a ++ 32 :: b ++ 32 :: c ++ 32 :: d ++ 32 :: e ++ 32 :: f.
Proof. unfold join_space. cbn [fold_left]. rewrite <- !app_assoc. rewrite <- !app_comm_cons.
  repeat (f_equal; rewrite <- ?app_assoc, <- ?app_comm_cons). Qed.

Lemma trim_join_six a b c d e f : a <> [] -> f <> [] -> nospace a -> nospace f ->
  trim_space (join_space [a; b; c; d; e; f]) = join_space [a; b; c; d; e; f].
Proof. intros Hane Hfne Ha Hf. rewrite join_six.
  destruct a as [|x a']; [congruence|]. destruct (exists_last Hfne) as [f' [y ->]].
  inversion Ha as [|? ? Hx _]; subst.
  apply Forall_app in Hf as [_ Hy]. inversion Hy as [|? ? Hy' _]; subst.
  replace ((x :: a') ++ 32 :: b ++ 32 :: c ++ 32 :: d ++ 32 :: e ++ 32 :: f' ++ [y])
    with (x :: (a' ++ 32 :: b ++ 32 :: c ++ 32 :: d ++ 32 :: e ++ 32 :: f') ++ [y]).
  - now apply trim_space_id.
  - cbn [app]. f_equal. rewrite <- !app_assoc. cbn [app]. repeat (f_equal; rewrite <- ?app_assoc; cbn [app]). Qed.

(* ------------------------------------------------------------------ *)
(** * Atoi / Itoa *)

Definition atoi_body (neg : bool) (d : str) : option Z :=
  match d with
  | [] => None
  | _ => match digits_value d 0%Z with
         | Some v => let v := if neg then (- v)%Z else v in
                     if ((-9223372036854775808 <=? v) && (v <=? 9223372036854775807))%Z then Some v else None
         | None => None
         end
  end.

Lemma atoi_cons r d : atoi (r :: d) =
  if r =? 43 then atoi_body false d else if r =? 45 then atoi_body true d else atoi_body false (r :: d).
Proof. unfold atoi. fold atoi_body.
  destruct r as [|p]; [reflexivity|].
  do 6 (try (destruct p as [p|p|]; try reflexivity)). Qed.

Lemma atoi_range s v : atoi s = Some v -> (-9223372036854775808 <= v <= 9223372036854775807)%Z.
Proof. destruct s as [|r d]; [discriminate|]. rewrite atoi_cons.
  assert (G : forall neg l, atoi_body neg l = Some v -> (-9223372036854775808 <= v <= 9223372036854775807)%Z).
  { intros neg l. unfold atoi_body. destruct l as [|x l]; [discriminate|].
    destruct (digits_value (x :: l) 0%Z) as [w|]; [|discriminate].
    destruct ((-9223372036854775808 <=? (if neg then (- w)%Z else w)) && ((if neg then (- w)%Z else w) <=? 9223372036854775807))%Z eqn:E; [|discriminate].
    intros H. inversion H; subst. lia. }
  destruct (r =? 43); [apply G|]. destruct (r =? 45); apply G. Qed.

Definition all_digits (s : str) : Prop := Forall (fun r => is_ascii_digit r = true) s.

Lemma digits_value_app l1 l2 a : digits_value (l1 ++ l2) a =
  match digits_value l1 a with Some v => digits_value l2 v | None => None end.
Proof. revert a. induction l1 as [|r l1 IH]; intros a; [reflexivity|].
  cbn [app digits_value]. destruct (is_ascii_digit r); [apply IH | reflexivity]. Qed.

Lemma digit_char_ok k : k < 10 -> is_ascii_digit (48 + k) = true.
Proof. unfold is_ascii_digit. lia. Qed.

(** characterisation of [itoa_pos]: it prepends the decimal digits of [n] *)
Lemma itoa_pos_spec f : forall n acc, n < 10 ^ N.of_nat (S f) ->
  exists l, itoa_pos (S f) n acc = l ++ acc /\ l <> [] /\ all_digits l /\
            forall a, digits_value l a = Some (a * 10 ^ Z.of_nat (length l) + Z.of_N n)%Z.
Proof. induction f as [|f IH]; intros n acc Hn.
  all: cbn [itoa_pos]; assert (Hd : n mod 10 < 10) by (apply N.mod_lt; lia).
  all: destruct (N.eqb_spec (n / 10) 0) as [Hz|Hnz].
  1,3: exists [48 + n mod 10]; (split; [reflexivity|]); (split; [discriminate|]); split;
       [ constructor; [now apply digit_char_ok | constructor]
       | intros a; cbn [digits_value length]; rewrite (digit_char_ok _ Hd);
         replace (48 + n mod 10 - 48) with (n mod 10) by lia;
         pose proof (N.div_mod n 10 ltac:(lia)) as Hdm;
         f_equal; change (10 ^ Z.of_nat 1)%Z with 10%Z; lia ].
  - exfalso. change (10 ^ N.of_nat 1) with 10 in Hn. apply Hnz. apply N.div_small. exact Hn.
  - assert (Hq : n / 10 < 10 ^ N.of_nat (S f)).
    { apply N.div_lt_upper_bound; [lia|]. rewrite (Nat2N.inj_succ (S f)), N.pow_succ_r' in Hn. exact Hn. }
    destruct (IH (n / 10) ((48 + n mod 10) :: acc) Hq) as [l [E [Hne [Hdig Hval]]]].
    exists (l ++ [48 + n mod 10]). split.
    { cbn [itoa_pos] in E. rewrite E, <- app_assoc. reflexivity. }
    split.
    + intros C. apply app_eq_nil in C as [_ C]. discriminate.
    + split.
      * apply Forall_app. split; [assumption|]. constructor; [now apply digit_char_ok | constructor].
      * intros a. rewrite digits_value_app, Hval. cbn [digits_value]. rewrite (digit_char_ok _ Hd).
        replace (48 + n mod 10 - 48) with (n mod 10) by lia. f_equal.
        rewrite app_length. cbn [length]. rewrite Nat2Z.inj_add. change (Z.of_nat 1) with 1%Z.
        rewrite Z.pow_add_r by lia. change (10 ^ 1)%Z with 10%Z.
        pose proof (N.div_mod n 10 ltac:(lia)) as Hdm. nia. Qed.

Lemma digit_nospace r : is_ascii_digit r = true -> is_space r = false.
Proof. unfold is_ascii_digit, is_space. lia. Qed.

Lemma all_digits_nospace l : all_digits l -> nospace l.
Proof. apply Forall_impl. exact digit_nospace. Qed.

Lemma digit_not_sign r : is_ascii_digit r = true -> (r =? 43) = false /\ (r =? 45) = false.
Proof. unfold is_ascii_digit. lia. Qed.

Lemma bound25 : 9223372036854775808 < 10 ^ N.of_nat 25.
Proof. vm_compute. reflexivity. Qed.

Lemma itoa_nonneg z : (0 <= z <= 9223372036854775807)%Z ->
  exists l, itoa z = l /\ l <> [] /\ all_digits l /\ digits_value l 0%Z = Some z.
Proof. intros Hz. unfold itoa. destruct (Z.ltb_spec z 0); [lia|].
  destruct (itoa_pos_spec 24 (Z.to_N z) []) as [l [E [Hne [Hd Hv]]]].
  { pose proof bound25. lia. }
  exists l. rewrite E, app_nil_r. repeat split; try assumption.
  rewrite Hv. f_equal. lia. Qed.

(** strconv.Atoi (strconv.Itoa z) = z, over the whole int64 range *)
Theorem atoi_itoa z : (-9223372036854775808 <= z <= 9223372036854775807)%Z -> atoi (itoa z) = Some z.
Proof. intros Hz. destruct (Z.ltb_spec z 0) as [Hneg|Hpos].
  - unfold itoa. destruct (Z.ltb_spec z 0); [|lia].
    destruct (itoa_pos_spec 24 (Z.to_N (- z)) []) as [l [E [Hne [Hd Hv]]]].
    { pose proof bound25. lia. }
    rewrite E, app_nil_r, atoi_cons. change (45 =? 43) with false. change (45 =? 45) with true. cbn iota.
    unfold atoi_body. destruct l as [|x l]; [congruence|]. rewrite Hv.
    replace (0 * 10 ^ Z.of_nat (length (x :: l)) + Z.of_N (Z.to_N (- z)))%Z with (- z)%Z by lia.
    cbn zeta. rewrite Z.opp_involutive.
    destruct ((-9223372036854775808 <=? z) && (z <=? 9223372036854775807))%Z eqn:Er; [reflexivity | lia].
  - destruct (itoa_nonneg z ltac:(lia)) as [l [E [Hne [Hd Hv]]]]. rewrite E.
    destruct l as [|x l]; [congruence|]. rewrite atoi_cons.
    inversion Hd as [|? ? Hx _]; subst. destruct (digit_not_sign _ Hx) as [-> ->].
    unfold atoi_body. rewrite Hv. cbn zeta.
    destruct ((-9223372036854775808 <=? z) && (z <=? 9223372036854775807))%Z eqn:Er; [reflexivity | lia]. Qed.

Lemma itoa_nospace z : (0 <= z <= 9223372036854775807)%Z -> nospace (itoa z) /\ itoa z <> [].
Proof. intros Hz. destruct (itoa_nonneg z Hz) as [l [E [Hne [Hd _]]]]. rewrite E. split; [now apply all_digits_nospace | assumption]. Qed.

(** single-digit counters (blank runs 1..8 in the board field) *)
Lemma itoa_small b : 1 <= b <= 9 -> itoa (Z.of_N b) = [48 + b].
Proof. intros Hb. assert (Hin : In b (seqN 10)) by (apply in_seqN; lia).
  revert b Hin Hb. apply (Forall_forall (fun b => 1 <= b <= 9 -> itoa (Z.of_N b) = [48 + b]) (seqN 10)).
  repeat constructor; intros; try lia; reflexivity. Qed.

(* ------------------------------------------------------------------ *)
(** * colour and castling fields *)

Lemma parse_color_cases s c : parse_color s = Some c -> c = White \/ c = Black.
Proof. unfold parse_color. destruct s as [|r [|r2 t]]; try discriminate.
  - destruct r as [|p]; [discriminate|].
    do 7 (try (destruct p as [p|p|]; try discriminate)); intros H; inversion H; auto.
  - destruct r as [|p]; [discriminate|].
    do 7 (try (destruct p as [p|p|]; try discriminate)). Qed.

Lemma parse_color_print c : parse_color (if c =? White then [119] else [98]) = Some (if c =? White then White else Black).
Proof. destruct (c =? White); reflexivity. Qed.

Lemma lt16_in a : a < 16 -> In a (seqN 16).
Proof. intros H. apply in_seqN. lia. Qed.

Lemma lor16 a k : a < 16 -> In k [1; 2; 4; 8] -> N.lor a k < 16.
Proof. intros Ha Hk. apply lt16_in in Ha. revert a Ha k Hk.
  apply (Forall_forall (fun a => forall k, In k [1;2;4;8] -> N.lor a k < 16) (seqN 16)).
  repeat constructor; intros k Hk; cbn [In] in Hk;
  repeat (destruct Hk as [<-|Hk]; [vm_compute; reflexivity|]); destruct Hk. Qed.

Lemma parse_castling_runes_lt s : forall acc c, acc < 16 -> parse_castling_runes s acc = Some c -> c < 16.
Proof. induction s as [|r t IH]; intros acc c Hacc H; cbn [parse_castling_runes] in H.
  - inversion H; subst. assumption.
  - destruct (r =? 75); [eapply IH; [|exact H]; apply lor16; cbn; auto|].
    destruct (r =? 81); [eapply IH; [|exact H]; apply lor16; cbn; auto|].
    destruct (r =? 107); [eapply IH; [|exact H]; apply lor16; cbn; auto|].
    destruct (r =? 113); [eapply IH; [|exact H]; apply lor16; cbn; auto|]. discriminate. Qed.

Lemma parse_castling_lt s c : parse_castling s = Some c -> c < 16.
Proof. unfold parse_castling. destruct (str_eqb s [45]).
  - intros H. inversion H. reflexivity.
  - apply parse_castling_runes_lt. reflexivity. Qed.

Lemma castling_roundtrip_all :
  forallb (fun c => match parse_castling (print_castling c) with Some c' => c' =? c | None => false end
                    && forallb (fun r => negb (is_space r)) (print_castling c)
                    && negb (match print_castling c with [] => true | _ => false end)) (seqN 16) = true.
Proof. vm_compute. reflexivity. Qed.

Lemma castling_roundtrip c : c < 16 ->
  parse_castling (print_castling c) = Some c /\ nospace (print_castling c) /\ print_castling c <> [].
Proof. intros Hc. pose proof castling_roundtrip_all as H. rewrite forallb_forall in H.
  specialize (H c (lt16_in c Hc)). apply andb_true_iff in H as [H H3]. apply andb_true_iff in H as [H1 H2].
  split; [|split].
  - destruct (parse_castling (print_castling c)) as [c'|]; [|discriminate]. apply N.eqb_eq in H1. now subst.
  - rewrite forallb_forall in H2. apply Forall_forall. intros r Hr. specialize (H2 r Hr). now apply negb_true_iff in H2.
  - destruct (print_castling c); [discriminate | discriminate]. Qed.

(* ------------------------------------------------------------------ *)
(** * squares *)

Lemma new_square_small_all :
  forallb (fun f => forallb (fun r => new_square f r =? 8 * r + f) (seqN 8)) (seqN 8) = true.
Proof. vm_compute. reflexivity. Qed.

Lemma new_square_small f r : f < 8 -> r < 8 -> new_square f r = 8 * r + f.
Proof. intros Hf Hr. pose proof new_square_small_all as H. rewrite forallb_forall in H.
  assert (Hfi : In f (seqN 8)) by (apply in_seqN; lia). assert (Hri : In r (seqN 8)) by (apply in_seqN; lia).
  specialize (H f Hfi). rewrite forallb_forall in H. specialize (H r Hri). now apply N.eqb_eq. Qed.

Definition is_file_char (r : N) : bool := ((97 <=? r) && (r <=? 104)) || ((65 <=? r) && (r <=? 72)).
Definition is_rank_char (r : N) : bool := (49 <=? r) && (r <=? 56).
Definition is_promo_char (r : N) : bool := existsb (N.eqb r) [113; 114; 98; 110; 81; 82; 66; 78].

Lemma parse_file_some r : parse_file r <> None <-> is_file_char r = true.
Proof. unfold parse_file, is_file_char.
  destruct ((97 <=? r) && (r <=? 104)); destruct ((65 <=? r) && (r <=? 72)); cbn [orb]; split; intros H; congruence. Qed.

Lemma parse_file_lt r f : parse_file r = Some f -> f < 8.
Proof. unfold parse_file. destruct ((97 <=? r) && (r <=? 104)) eqn:E1; [intros H; assert (f = 7 - (r - 97)) by congruence; lia|].
  destruct ((65 <=? r) && (r <=? 72)) eqn:E2; [intros H; assert (f = 7 - (r - 65)) by congruence; lia | discriminate]. Qed.

Lemma parse_rank_lt r k : parse_rank r = Some k -> k < 8.
Proof. unfold parse_rank. destruct ((49 <=? r) && (r <=? 56)) eqn:E; [intros H; assert (k = r - 49) by congruence; lia | discriminate]. Qed.

Lemma parse_square_some f r : parse_square f r <> None <-> is_file_char f = true /\ is_rank_char r = true.
Proof. unfold parse_square. rewrite <- parse_file_some. unfold is_rank_char, parse_rank.
  destruct (parse_file f); destruct ((49 <=? r) && (r <=? 56));
  (split; [intros H; try congruence; split; congruence | intros [H1 H2]; congruence]). Qed.

Lemma parse_square_lt f r s : parse_square f r = Some s -> s < 64.
Proof. unfold parse_square. destruct (parse_file f) as [fi|] eqn:Ef; [|discriminate].
  destruct (parse_rank r) as [ra|] eqn:Er; [|discriminate]. intros H. inversion H; subst.
  apply parse_file_lt in Ef. apply parse_rank_lt in Er. rewrite new_square_small by assumption. lia. Qed.

Lemma parse_square_str_lt s e : parse_square_str s = Some e -> e < 64.
Proof. unfold parse_square_str. destruct s as [|f [|r [|x t]]]; try discriminate. apply parse_square_lt. Qed.

Lemma lt64_in s : s < 64 -> In s (seqN 64).
Proof. apply in_seqN64. Qed.

Lemma square_roundtrip_all :
  forallb (fun s => match parse_square_str (square_str s) with Some s' => s' =? s | None => false end
                    && forallb (fun r => negb (is_space r)) (square_str s)) (seqN 64) = true.
Proof. vm_compute. reflexivity. Qed.

(** ParseSquareStr (Square.String s) = s *)
Theorem parse_square_str_roundtrip s : s < 64 -> parse_square_str (square_str s) = Some s.
Proof. intros Hs. pose proof square_roundtrip_all as H. rewrite forallb_forall in H.
  specialize (H s (lt64_in s Hs)). apply andb_true_iff in H as [H1 _].
  destruct (parse_square_str (square_str s)) as [s'|]; [|discriminate]. apply N.eqb_eq in H1. now subst. Qed.

Lemma square_str_nospace s : s < 64 -> nospace (square_str s) /\ square_str s <> [].
Proof. intros Hs. pose proof square_roundtrip_all as H. rewrite forallb_forall in H.
  specialize (H s (lt64_in s Hs)). apply andb_true_iff in H as [_ H2]. split; [|discriminate].
  rewrite forallb_forall in H2. apply Forall_forall. intros r Hr. specialize (H2 r Hr). now apply negb_true_iff in H2. Qed.

(** ParseSquareStr accepts exactly the two-rune strings file,rank *)
Theorem parse_square_str_accepts s :
  parse_square_str s <> None <-> exists f r, s = [f; r] /\ is_file_char f = true /\ is_rank_char r = true.
Proof. unfold parse_square_str. destruct s as [|f [|r [|x t]]].
  1,2,4: split; [congruence | intros [f' [r' [E _]]]; discriminate].
  rewrite parse_square_some. split.
  - intros [H1 H2]. now exists f, r.
  - intros [f' [r' [E H]]]. inversion E; subst. exact H. Qed.

(* ------------------------------------------------------------------ *)
(** * moves *)

Lemma parse_piece_promo e : (exists p, parse_piece e = Some p /\ (p =? Pawn) || (p =? King) = false) <-> is_promo_char e = true.
Proof. unfold parse_piece, is_promo_char. cbn [existsb]. split.
  - intros [p [H Hp]].
    destruct (N.eqb_spec e 112); [subst; inversion H; subst; discriminate|].
    destruct (N.eqb_spec e 80); [subst; inversion H; subst; discriminate|].
    destruct (N.eqb_spec e 107); [subst; inversion H; subst; discriminate|].
    destruct (N.eqb_spec e 75); [subst; inversion H; subst; discriminate|].
    cbn [orb] in H.
    destruct (N.eqb_spec e 98); [subst; reflexivity|]. destruct (N.eqb_spec e 66); [subst; reflexivity|].
    destruct (N.eqb_spec e 110); [subst; reflexivity|]. destruct (N.eqb_spec e 78); [subst; reflexivity|].
    destruct (N.eqb_spec e 114); [subst; reflexivity|]. destruct (N.eqb_spec e 82); [subst; reflexivity|].
    destruct (N.eqb_spec e 113); [subst; reflexivity|]. destruct (N.eqb_spec e 81); [subst; reflexivity|].
    cbn in H. discriminate.
  - rewrite !orb_true_iff, !N.eqb_eq. intros H.
    repeat (destruct H as [H|H]; [subst e; eexists; split; reflexivity|]). discriminate. Qed.

(** ParseMove accepts exactly: file rank file rank, optionally followed by one of qrbnQRBN *)
Theorem parse_move_accepts s :
  parse_move s <> None <->
  exists a b c d, is_file_char a = true /\ is_rank_char b = true /\ is_file_char c = true /\ is_rank_char d = true /\
    (s = [a; b; c; d] \/ exists e, is_promo_char e = true /\ s = [a; b; c; d; e]).
Proof. unfold parse_move. destruct s as [|a [|b [|c [|d [|e [|x t]]]]]].
  1,2,3,4,7: split; [congruence | intros [a' [b' [c' [d' [_ [_ [_ [_ [E|[e' [_ E]]]]]]]]]]]; discriminate].
  - split.
    + intros H. destruct (parse_square a b) eqn:E1; [|congruence]. destruct (parse_square c d) eqn:E2; [|congruence].
      assert (H1 : parse_square a b <> None) by congruence. assert (H2 : parse_square c d <> None) by congruence.
      apply parse_square_some in H1 as [? ?]. apply parse_square_some in H2 as [? ?].
      exists a, b, c, d. repeat split; auto.
    + intros [a' [b' [c' [d' [Ha [Hb [Hc [Hd [E|[e' [_ E]]]]]]]]]]]; [|discriminate]. inversion E; subst.
      assert (H1 : parse_square a' b' <> None) by (apply parse_square_some; auto).
      assert (H2 : parse_square c' d' <> None) by (apply parse_square_some; auto).
      destruct (parse_square a' b'); [|congruence]. destruct (parse_square c' d'); [|congruence]. discriminate.
  - split.
    + intros H. destruct (parse_square a b) eqn:E1; [|congruence]. destruct (parse_square c d) eqn:E2; [|congruence].
      assert (H1 : parse_square a b <> None) by congruence. assert (H2 : parse_square c d <> None) by congruence.
      apply parse_square_some in H1 as [? ?]. apply parse_square_some in H2 as [? ?].
      exists a, b, c, d. repeat split; auto. right. exists e. split; [|reflexivity].
      apply parse_piece_promo. destruct (parse_piece e) as [p|]; [|congruence]. exists p. split; [reflexivity|].
      destruct ((p =? Pawn) || (p =? King)); [congruence | reflexivity].
    + intros [a' [b' [c' [d' [Ha [Hb [Hc [Hd [E|[e' [He E]]]]]]]]]]]; [discriminate|]. inversion E; subst.
      assert (H1 : parse_square a' b' <> None) by (apply parse_square_some; auto).
      assert (H2 : parse_square c' d' <> None) by (apply parse_square_some; auto).
      destruct (parse_square a' b'); [|congruence]. destruct (parse_square c' d'); [|congruence].
      apply parse_piece_promo in He as [p [-> Hp]]. rewrite Hp. discriminate. Qed.

(** what an accepted move looks like: squares on the board, promotion piece an officer *)
Theorem parse_move_wf s m : parse_move s = Some m ->
  mfrom m < 64 /\ mto m < 64 /\ mtype m = 0 /\ (mpromo m = 0 \/ 2 <= mpromo m <= 5).
Proof. unfold parse_move. destruct s as [|a [|b [|c [|d [|e [|x t]]]]]]; try discriminate.
  - destruct (parse_square a b) as [f|] eqn:E1; [|discriminate]. destruct (parse_square c d) as [t|] eqn:E2; [|discriminate].
    intros H. inversion H; subst. cbn. apply parse_square_lt in E1, E2. auto.
  - destruct (parse_square a b) as [f|] eqn:E1; [|discriminate]. destruct (parse_square c d) as [t|] eqn:E2; [|discriminate].
    destruct (parse_piece e) as [p|] eqn:E3; [|discriminate].
    destruct ((p =? Pawn) || (p =? King)) eqn:E4; [discriminate|].
    intros H. inversion H; subst. cbn. apply parse_square_lt in E1, E2. repeat split; auto. right.
    unfold parse_piece in E3. unfold Pawn, King, Bishop, Knight, Rook, Queen in *.
    repeat match type of E3 with (if ?b then _ else _) = _ => destruct b end; inversion E3; subst; cbn in E4; try discriminate; lia. Qed.

Print Assumptions atoi_itoa.
Print Assumptions parse_move_accepts.
Print Assumptions parse_square_str_roundtrip.
