(** MoveGen12 — sanity checks by computation (non-vacuity of the C01 theorems): on 15 concrete positions
    (Kiwipete both sides, en passant for both sides, promotions with and without capture, castling through /
    out of / into attack, an en-passant pin, check evasions) [wf_b] holds, the emitted moves and the
    specification's pseudo candidates agree as sets, no (from,to,promotion) is repeated, every record equals
    [concretize], and [legal_moves] agrees with [spec_legal].  [check_pos] is defined in MoveGen3. *)
From Coq Require Import NArith ZArith List Bool.
From Morlock.Model Require Import Bits Attacks Move Position Abs.
From Morlock.Spec Require Import Chess.
From Morlock.Lemmas Require Import MoveGen3.
Import ListNotations.
Open Scope N_scope.
Definition kiwi_w : position := getpos (new_position [pl 63 1 4; pl 59 1 6; pl 56 1 4; pl 55 1 1; pl 53 1 1; pl 52 1 1; pl 51 1 5; pl 50 1 1; pl 49 1 2; pl 47 1 2; pl 46 1 3; pl 43 1 1; pl 42 1 3; pl 41 1 1; pl 36 0 1; pl 35 0 3; pl 30 1 1; pl 27 0 1; pl 21 0 3; pl 18 0 5; pl 16 1 1; pl 15 0 1; pl 14 0 1; pl 13 0 1; pl 12 0 2; pl 11 0 2; pl 10 0 1; pl 9 0 1; pl 8 0 1; pl 7 0 4; pl 3 0 6; pl 0 0 4] 15 0).
Example check_kiwi_w : check_pos kiwi_w 0 = true. Proof. vm_compute. reflexivity. Qed.
Definition kiwi_b : position := getpos (new_position [pl 63 1 4; pl 59 1 6; pl 56 1 4; pl 55 1 1; pl 53 1 1; pl 52 1 1; pl 51 1 5; pl 50 1 1; pl 49 1 2; pl 47 1 2; pl 46 1 3; pl 43 1 1; pl 42 1 3; pl 41 1 1; pl 36 0 1; pl 35 0 3; pl 30 1 1; pl 27 0 1; pl 21 0 3; pl 18 0 5; pl 16 1 1; pl 15 0 1; pl 14 0 1; pl 13 0 1; pl 12 0 2; pl 11 0 2; pl 10 0 1; pl 9 0 1; pl 8 0 1; pl 7 0 4; pl 3 0 6; pl 0 0 4] 15 0).
Example check_kiwi_b : check_pos kiwi_b 1 = true. Proof. vm_compute. reflexivity. Qed.
Definition ep_w : position := getpos (new_position [pl 63 1 4; pl 62 1 3; pl 61 1 2; pl 60 1 5; pl 59 1 6; pl 58 1 2; pl 57 1 3; pl 56 1 4; pl 55 1 1; pl 54 1 1; pl 53 1 1; pl 51 1 1; pl 49 1 1; pl 48 1 1; pl 36 1 1; pl 35 0 1; pl 34 1 1; pl 15 0 1; pl 14 0 1; pl 13 0 1; pl 12 0 1; pl 10 0 1; pl 9 0 1; pl 8 0 1; pl 7 0 4; pl 6 0 3; pl 5 0 2; pl 4 0 5; pl 3 0 6; pl 2 0 2; pl 1 0 3; pl 0 0 4] 15 42).
Example check_ep_w : check_pos ep_w 0 = true. Proof. vm_compute. reflexivity. Qed.
Definition ep_b : position := getpos (new_position [pl 63 1 4; pl 62 1 3; pl 61 1 2; pl 60 1 5; pl 59 1 6; pl 58 1 2; pl 57 1 3; pl 56 1 4; pl 55 1 1; pl 54 1 1; pl 53 1 1; pl 52 1 1; pl 50 1 1; pl 49 1 1; pl 48 1 1; pl 28 0 1; pl 27 1 1; pl 15 0 1; pl 14 0 1; pl 13 0 1; pl 11 0 1; pl 10 0 1; pl 9 0 1; pl 8 0 1; pl 7 0 4; pl 6 0 3; pl 5 0 2; pl 4 0 5; pl 3 0 6; pl 2 0 2; pl 1 0 3; pl 0 0 4] 15 20).
Example check_ep_b : check_pos ep_b 1 = true. Proof. vm_compute. reflexivity. Qed.
Definition pos3 : position := getpos (new_position [pl 53 1 1; pl 44 1 1; pl 39 0 6; pl 38 0 1; pl 32 1 4; pl 30 0 4; pl 26 1 1; pl 24 1 6; pl 11 0 1; pl 9 0 1] 0 0).
Example check_pos3 : check_pos pos3 0 = true. Proof. vm_compute. reflexivity. Qed.
Definition pos4 : position := getpos (new_position [pl 63 1 4; pl 59 1 6; pl 56 1 4; pl 55 0 1; pl 54 1 1; pl 53 1 1; pl 52 1 1; pl 50 1 1; pl 49 1 1; pl 48 1 1; pl 46 1 2; pl 42 1 3; pl 41 1 2; pl 40 0 3; pl 39 1 3; pl 38 0 1; pl 31 0 2; pl 30 0 2; pl 29 0 1; pl 27 0 1; pl 23 1 5; pl 18 0 3; pl 15 0 1; pl 14 1 1; pl 12 0 1; pl 9 0 1; pl 8 0 1; pl 7 0 4; pl 4 0 5; pl 2 0 4; pl 1 0 6] 12 0).
Example check_pos4 : check_pos pos4 0 = true. Proof. vm_compute. reflexivity. Qed.
Definition pos4b : position := getpos (new_position [pl 63 1 4; pl 60 1 5; pl 58 1 4; pl 57 1 6; pl 55 1 1; pl 54 0 1; pl 52 1 1; pl 49 1 1; pl 48 1 1; pl 47 0 5; pl 42 1 3; pl 39 1 2; pl 38 1 2; pl 37 1 1; pl 35 1 1; pl 31 0 3; pl 30 1 1; pl 22 0 2; pl 18 0 3; pl 17 0 2; pl 16 1 3; pl 15 1 1; pl 14 0 1; pl 13 0 1; pl 12 0 1; pl 10 0 1; pl 9 0 1; pl 8 0 1; pl 7 0 4; pl 3 0 6; pl 0 0 4] 3 0).
Example check_pos4b : check_pos pos4b 1 = true. Proof. vm_compute. reflexivity. Qed.
Definition pos5 : position := getpos (new_position [pl 63 1 4; pl 62 1 3; pl 61 1 2; pl 60 1 5; pl 58 1 6; pl 56 1 4; pl 55 1 1; pl 54 1 1; pl 52 0 1; pl 51 1 2; pl 50 1 1; pl 49 1 1; pl 48 1 1; pl 45 1 1; pl 29 0 2; pl 15 0 1; pl 14 0 1; pl 13 0 1; pl 11 0 3; pl 10 1 3; pl 9 0 1; pl 8 0 1; pl 7 0 4; pl 6 0 3; pl 5 0 2; pl 4 0 5; pl 3 0 6; pl 0 0 4] 3 0).
Example check_pos5 : check_pos pos5 0 = true. Proof. vm_compute. reflexivity. Qed.
Definition castle_att : position := getpos (new_position [pl 63 1 4; pl 59 1 6; pl 56 1 4; pl 27 1 4; pl 7 0 4; pl 3 0 6; pl 0 0 4] 15 0).
Example check_castle_att : check_pos castle_att 0 = true. Proof. vm_compute. reflexivity. Qed.
Definition castle_att2 : position := getpos (new_position [pl 63 1 4; pl 59 1 6; pl 56 1 4; pl 26 1 4; pl 7 0 4; pl 3 0 6; pl 0 0 4] 15 0).
Example check_castle_att2 : check_pos castle_att2 0 = true. Proof. vm_compute. reflexivity. Qed.
Definition castle_att3 : position := getpos (new_position [pl 63 1 4; pl 59 1 6; pl 56 1 4; pl 30 1 4; pl 7 0 4; pl 3 0 6; pl 0 0 4] 15 0).
Example check_castle_att3 : check_pos castle_att3 0 = true. Proof. vm_compute. reflexivity. Qed.
Definition castle_att4 : position := getpos (new_position [pl 63 1 4; pl 59 1 6; pl 56 1 4; pl 28 0 4; pl 7 0 4; pl 3 0 6; pl 0 0 4] 15 0).
Example check_castle_att4 : check_pos castle_att4 1 = true. Proof. vm_compute. reflexivity. Qed.
Definition ep_pin : position := getpos (new_position [pl 39 0 6; pl 38 0 1; pl 37 1 1; pl 32 1 4; pl 0 1 6] 0 45).
Example check_ep_pin : check_pos ep_pin 0 = true. Proof. vm_compute. reflexivity. Qed.
Definition promo_cap : position := getpos (new_position [pl 62 1 3; pl 59 1 6; pl 55 0 1; pl 8 1 1; pl 3 0 6; pl 1 0 3] 0 0).
Example check_promo_cap : check_pos promo_cap 0 = true. Proof. vm_compute. reflexivity. Qed.
Definition promo_capb : position := getpos (new_position [pl 62 1 3; pl 59 1 6; pl 55 0 1; pl 8 1 1; pl 3 0 6; pl 1 0 3] 0 0).
Example check_promo_capb : check_pos promo_capb 1 = true. Proof. vm_compute. reflexivity. Qed.
