(** EnginesLemmas4 — C20, part 7: every opening-book reply is legal in the position it is keyed on. *)
From Coq Require Import NArith ZArith List Bool Lia.
From Morlock.Model Require Import Bits Attacks Move Position Abs Search Fen Engines.
From Morlock.Lemmas Require Import FenLemmas2 EnginesLemmas1.
Import ListNotations.

(* ------------------------------------------------------------------ *)
(** * engine.NewBook *)

(** a reply [m] stored under the stripped key [k] is a legal move of a position that [k] denotes: some full
    FEN whose first four fields are [k] decodes to a position in which [m] is a legal move (a full move record
    of the generator, not just from/to). *)
Definition entry_ok (k : str) (m : move) : Prop :=
  exists key pos turn np fm,
    strip key = k /\ decode key = Ok (pos, turn, np, fm) /\ In m (legal_moves pos turn).
Definition book_ok (b : bookmap) : Prop := forall k ms m, In (k, ms) b -> In m ms -> entry_ok k m.

Lemma book_add_ok b k m : book_ok b -> entry_ok k m -> book_ok (book_add b k m).
Proof.
  induction b as [|[k' ms'] r IH]; intros Hb Hm; cbn [book_add].
  - intros k0 ms0 m0 [E|[]] H0. injection E as <- <-. destruct H0 as [<-|[]]. exact Hm.
  - destruct (str_eqb k' k) eqn:Ek.
    + apply str_eqb_eq in Ek. subst k'.
      intros k0 ms0 m0 [E|Hin] H0.
      * injection E as <- <-. destruct (existsb (move_eqb m) ms').
        -- apply (Hb k ms' m0); [now left|exact H0].
        -- apply in_app_or in H0 as [H0|[<-|[]]]; [apply (Hb k ms' m0); [now left|exact H0]|exact Hm].
      * apply (Hb k0 ms0 m0); [now right|exact H0].
    + intros k0 ms0 m0 [E|Hin] H0.
      * injection E as <- <-. apply (Hb k' ms' m0); [now left|exact H0].
      * apply (IH (fun a b c H1 H2 => Hb a b c (or_intror H1) H2) Hm k0 ms0 m0 Hin H0).
Qed.

Lemma book_line_ok line : forall b key b', book_ok b -> book_line b key line = Ok b' -> book_ok b'.
Proof.
  induction line as [|s rest IH]; intros b key b' Hb; cbn [book_line].
  - intros [= <-]. exact Hb.
  - destruct (parse_move s) as [next|]; [|discriminate].
    destruct (decode key) as [[[[pos turn] np] fm]| |] eqn:Ed; try discriminate.
    destruct (find (fun cand => move_equals cand next) (pseudo_legal_moves pos turn)) as [cand|] eqn:Ef; [|discriminate].
    destruct (pos_move pos cand) as [p'|] eqn:Em; [|discriminate].
    apply IH. apply book_add_ok; [exact Hb|].
    exists key, pos, turn, np, fm. split; [reflexivity|]. split; [exact Ed|].
    apply find_some in Ef as [Hin _]. unfold legal_moves. apply filter_In. split; [exact Hin|]. now rewrite Em.
Qed.

Lemma new_book_from_ok lines : forall b b', book_ok b -> new_book_from b lines = Ok b' -> book_ok b'.
Proof.
  induction lines as [|l r IH]; intros b b' Hb; cbn [new_book_from].
  - intros [= <-]. exact Hb.
  - destruct (book_line b fen_initial l) as [b1| |] eqn:E; try discriminate.
    apply IH. now apply (book_line_ok l b fen_initial b1).
Qed.

(** C20 (7a): an accepted book only contains legal replies *)
Theorem book_moves_legal lines b : new_book lines = Ok b -> book_ok b.
Proof. unfold new_book. apply new_book_from_ok. intros k ms m []. Qed.

(** what [Find] returns *)
Lemma book_find_in b k m : In m (book_find b k) -> exists ms, In (k, ms) b /\ In m ms.
Proof.
  induction b as [|[k' ms'] r IH]; cbn [book_find]; [intros []|].
  destruct (str_eqb k' k) eqn:E.
  - apply str_eqb_eq in E. subst k'. intros H. exists ms'. split; [now left|exact H].
  - intros H. destruct (IH H) as [ms [H1 H2]]. exists ms. split; [now right|exact H2].
Qed.

Theorem book_lookup_legal lines b fen m : new_book lines = Ok b ->
  In m (book_lookup b fen) -> entry_ok (strip fen) m.
Proof.
  intros Hb Hm. unfold book_lookup in Hm. apply book_find_in in Hm as [ms [H1 H2]].
  exact (book_moves_legal lines b Hb _ _ _ H1 H2).
Qed.

(** a book move that the model rejects (illegal, or not a move at all) makes the whole book fail *)
Theorem book_line_rejects_illegal b key s rest pos turn np fm next :
  parse_move s = Some next -> decode key = Ok (pos, turn, np, fm) ->
  (forall cand, In cand (legal_moves pos turn) -> move_equals cand next = false) ->
  book_line b key (s :: rest) = Err.
Proof.
  intros Hp Hd Hno. cbn [book_line]. rewrite Hp, Hd.
  destruct (find (fun cand => move_equals cand next) (pseudo_legal_moves pos turn)) as [cand|] eqn:Ef; [|reflexivity].
  destruct (pos_move pos cand) as [p'|] eqn:Em; [|reflexivity].
  exfalso. apply find_some in Ef as [Hin He].
  assert (Hl : In cand (legal_moves pos turn)) by (unfold legal_moves; apply filter_In; split; [exact Hin|now rewrite Em]).
  rewrite (Hno cand Hl) in He. discriminate.
Qed.

(* ------------------------------------------------------------------ *)
(** * BERNSTEIN's book: the line "e2e4" *)

Definition initial_pos : position :=
  match decode fen_initial with Ok (p, _, _, _) => p | _ => empty_position 0 0 end.

Example initial_decodes : decode fen_initial = Ok (initial_pos, White, 0%Z, 1%Z).
Proof. vm_compute. reflexivity. Qed.

Example initial_wf : wf_b initial_pos White = true.
Proof. vm_compute. reflexivity. Qed.

Theorem bernstein_book_value :
  bernstein_book = Ok [(strip fen_initial, [mkMove Jump sq_E2 sq_E4 Pawn NoPiece NoPiece])].
Proof. vm_compute. reflexivity. Qed.

Theorem bernstein_book_legal : forall k ms m, bernstein_book = Ok [(k, ms)] -> In m ms ->
  k = strip fen_initial /\ In m (legal_moves initial_pos White).
Proof.
  intros k ms m H Hm. rewrite bernstein_book_value in H. injection H as <- <-.
  split; [reflexivity|]. destruct Hm as [<-|[]]. vm_compute. tauto.
Qed.

(* ------------------------------------------------------------------ *)
(** * SARGON's book: 21 keyed positions, checked by evaluation *)

Definition clocks_0_1 : str := [32; 48; 32; 49]%N.      (* " 0 1" *)

Definition sargon_entry_ok (e : sargon_entry) : bool :=
  (* the key is the stripped FEN of the entry's position ... *)
  match decode (se_key e ++ clocks_0_1) with
  | Ok (p, t, _, _) => pos_eqb p (se_pos e) && (t =? se_turn e)%N
  | _ => false
  end &&
  (* ... which is a legal position ... *)
  wf_b (se_pos e) (se_turn e) &&
  (* ... there is at least one reply, and every reply is (the from/to/promotion of) a legal move there *)
  negb (match se_replies e with [] => true | _ => false end) &&
  forallb (book_move_legal (se_pos e) (se_turn e)) (se_replies e).

Lemma sargon_book_check : forallb sargon_entry_ok sargon_book = true.
Proof. vm_compute. reflexivity. Qed.

Lemma sargon_book_size : length sargon_book = 21%nat.
Proof. vm_compute. reflexivity. Qed.

(** keys are pairwise different, so the Go map has exactly these 21 entries *)
Lemma sargon_book_keys_distinct : NoDup (map se_key sargon_book).
Proof.
  assert (H : (fix nd (l : list str) : bool :=
                 match l with [] => true | x :: r => negb (existsb (str_eqb x) r) && nd r end)
              (map se_key sargon_book) = true) by (vm_compute; reflexivity).
  revert H. generalize (map se_key sargon_book). induction l as [|x r IH]; intros H; [constructor|].
  apply andb_true_iff in H as [H1 H2]. constructor; [|now apply IH].
  intros Hin. apply negb_true_iff in H1. assert (E : existsb (str_eqb x) r = true).
  { apply existsb_exists. exists x. split; [exact Hin|]. clear. induction x as [|a x IH]; cbn; [reflexivity|].
    now rewrite N.eqb_refl, IH. }
  congruence.
Qed.

(** C20 (7b) *)
Theorem sargon_book_moves_legal : forall e m, In e sargon_book -> In m (se_replies e) ->
  wf_b (se_pos e) (se_turn e) = true /\
  exists cand, In cand (legal_moves (se_pos e) (se_turn e)) /\
               mfrom cand = mfrom m /\ mto cand = mto m /\ mpromo cand = mpromo m.
Proof.
  intros e m He Hm. pose proof sargon_book_check as H. rewrite forallb_forall in H. specialize (H e He).
  unfold sargon_entry_ok in H. rewrite !andb_true_iff in H. destruct H as [[[_ Hwf] _] Hall].
  split; [exact Hwf|]. rewrite forallb_forall in Hall. specialize (Hall m Hm).
  unfold book_move_legal in Hall. apply existsb_exists in Hall as [cand [Hc He']].
  exists cand. split; [exact Hc|]. unfold move_equals in He'. rewrite !andb_true_iff, !N.eqb_eq in He'. tauto.
Qed.

(** non-vacuity: the first entry is the initial position with e2e4 / d2d4; after 1.e4 the reply is e7e5,
    after 1.d4 it is d7d5 *)
Example sargon_book_initial :
  map (fun e => (str_eqb (se_key e) (strip fen_initial), pos_eqb (se_pos e) initial_pos, se_turn e,
                 map (fun m => (mfrom m, mto m)) (se_replies e))) (firstn 1 sargon_book)
  = [(true, true, White, [(sq_E2, sq_E4); (sq_D2, sq_D4)])].
Proof. vm_compute. reflexivity. Qed.

Example sargon_book_replies :
  map (fun e => map (fun m => (mfrom m, mto m)) (se_replies e))
      (filter (fun e => is_set (pget (se_pos e) White Pawn) sq_E4 || is_set (pget (se_pos e) White Pawn) sq_D4) sargon_book)
  = [[(sq_E7, sq_E5)]; [(sq_D7, sq_D5)]].
Proof. vm_compute. reflexivity. Qed.

Print Assumptions book_moves_legal.
Print Assumptions book_lookup_legal.
Print Assumptions bernstein_book_legal.
Print Assumptions sargon_book_moves_legal.
