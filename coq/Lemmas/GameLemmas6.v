(** C05, part 6: heap boards.  A game played on a board by successive PushMoves refines the specification
    game move by move; draw reporting agrees with the specification's conditions.  Everything here is
    generic in the potential function [W] (hypothesis [W_step], discharged in GameLemmas7 with the function
    of GameLemmas5). *)
From Coq Require Import NArith ZArith List Bool Lia ZifyBool ZifyNat ZifyN.
From Morlock.Model Require Import Bits Attacks Move Position Abs Zobrist Board.
From Morlock.Spec Require Import Chess Game.
From Morlock.Lemmas Require Import AttackGeometry3 PositionLemmas MoveRefines1 MoveRefines2 MoveRefines
  MoveGen2 MoveGen7 BoardHeap1 BoardHeap2 BoardHeap3 GameLemmas1 GameLemmas2 GameLemmas3 GameLemmas4.
Import ListNotations.
Open Scope N_scope.

(** the refinement relation of the task statement, on heap boards: position, side to move, clock, full-move
    number, and the chain below the head (positions and sides, most recent first).  The clock of the board
    is the clock of the specification game capped at [max_int] (the Go counter saturates at math.MaxInt):
    [clk_rel n gc] is [Z.of_N n = Z.min gc (Z.of_N max_int)]. *)
Definition GRel (hb : heap * board) (g : gstate) : Prop :=
  let (h, b) := hb in
  abs_pos (b_position h b) = g_pos g /\
  color_of (b_turn b) = g_turn g /\
  clk_rel (b_noprogress h b) (g_clock g) /\
  b_moves b = g_fullmove g /\
  tl (states (data h b) (b_turn b)) = g_past g.

Lemma data_nonempty h b : wf h b -> exists e r, data h b = e :: r /\ e = ndata (hnode h (b_current b)).
Proof. intros (Hw & _). rewrite data_unfold by exact Hw. eauto. Qed.

Lemma GRel_ARel h b g : wf h b -> (GRel (h, b) g <-> ARel (abs h b) g).
Proof.
  intros Hwf. destruct (data_nonempty h b Hwf) as [e [r [Ed Ee]]].
  unfold GRel, ARel. cbn [abs a_data a_turn a_moves]. unfold a_noprogress. cbn [a_data].
  unfold b_position, b_noprogress. rewrite Ed. cbn [states tl hd]. subst e. cbn [ndata epos eclk fst snd].
  split.
  - intros (A & B & C & D & E). rewrite A, B, E. auto.
  - intros (A & C & D). inversion A. auto.
Qed.

(** the premise of the exact recount: the clock is below saturation, or the history has at most
    [max_int + 1] nodes (GameLemmas3.[unsat]) *)
Definition b_unsat (h : heap) (b : board) : Prop :=
  unsat (b_noprogress h b) (length (chain h (b_current b))).

Definition spec_game (pos : position) (turn np : N) (fm : Z) (ms : list move) : gstate :=
  g_play_all (g_start (abs_pos pos) (color_of turn) (Z.of_N np) fm) (map abs_move ms).

Lemma spec_game_snoc pos turn np fm ms m :
  spec_game pos turn np fm (ms ++ [m]) = g_play (spec_game pos turn np fm ms) (abs_move m).
Proof. unfold spec_game, g_play_all. now rewrite map_app, fold_left_app. Qed.

Lemma filter_map_len {A B} (g : A -> B) (f : B -> bool) l :
  length (filter f (map g l)) = length (filter (fun x => f (g x)) l).
Proof. induction l as [|a l IH]; [reflexivity|]. cbn. destruct (f (g a)); cbn; now rewrite IH. Qed.

Section Boards.
Variable z : ztable.
Hypothesis Hzt : zt_ok z.
Variable W : position -> nat.
Hypothesis W_step : forall p t m p', wf_b p t = true -> vcol t -> In m (pseudo_legal_moves p t) ->
  pos_move p m = Some p' ->
  (W p' <= W p)%nat /\ ((mtype m =? Normal) || is_castle m = false -> (W p' < W p)%nat).

(** a board that carries a legal game refining the specification game [g] *)
Definition Game (h : heap) (b : board) (g : gstate) : Prop :=
  wf h b /\ AInv z (abs h b) /\ ARel (abs h b) g /\ (outcome (b_result b) = Draw -> g_drawn g = true).

Lemma Game_aeq h b h' b' g : wf h' b' -> aeq (abs h b) (abs h' b') -> Game h b g -> Game h' b' g.
Proof.
  intros Hwf' [(Hr & _ & _ & _ & Hm & Ht & Hd & _) Hres] (Hwf & [Hh Hc] & [A [B C]] & D).
  cbn [abs a_reps a_moves a_turn a_data a_result] in Hr, Hm, Ht, Hd, Hres.
  split; [exact Hwf'|]. split; [|split].
  - split; cbn [abs a_data a_turn a_reps] in *.
    + now rewrite <- Hd, <- Ht.
    + intros k. now rewrite <- Hr, <- Hd.
  - unfold ARel in *. unfold a_noprogress in *. cbn [abs a_data a_turn a_moves] in *.
    now rewrite <- Hd, <- Ht, <- Hm.
  - now rewrite <- Hres.
Qed.

(** set-up; the set-up clock is a Go [int] that [fen.Decode] / [NewBoard] accept: 0 <= np <= max_int *)
Theorem Game_new pos turn np fm h b : wf_b pos turn = true -> (turn = 0 \/ turn = 1) -> np <= max_int ->
  new_board z [] pos turn np fm = (h, b) ->
  Game h b (g_start (abs_pos pos) (color_of turn) (Z.of_N np) fm) /\ b_result b = no_result.
Proof.
  intros Hwf Ht Hnp H. pose proof (wf_new z pos turn np fm h b Ht H) as Hw.
  unfold new_board in H. inversion H; subst h b. clear H.
  assert (Ed : data [mkNode pos (zhash z pos turn) np no_move None]
                 (mkBoard [(zhash z pos turn, 1%Z)] false false 1 fm turn no_result 0) = [(pos, zhash z pos turn, np)]).
  { rewrite data_unfold by (destruct Hw; assumption). reflexivity. }
  split; [|reflexivity]. split; [exact Hw|]. split; [|split].
  - split; cbn [abs a_data a_turn a_reps b_reps b_turn]; rewrite Ed.
    + now constructor.
    + intros k. unfold count_hash. cbn [rep_get filter ehash fst snd].
      destruct (zhash z pos turn =? k); reflexivity.
  - unfold ARel, a_noprogress. cbn [abs a_data a_turn a_moves b_turn b_moves]. rewrite Ed.
    cbn [states epos hd fst snd g_start g_pos g_turn g_past g_clock g_fullmove].
    split; [reflexivity|]. split; [now apply clk_rel_start|reflexivity].
  - cbn. discriminate.
Qed.

(** 7. [push_refines]: one successful PushMove of a pseudo-legal move is one [g_play] step, and the result
    reported afterwards is [result_after (g_now g') old]: the draw conditions that hold for the position just
    reached are applied in the order repetition, no progress, insufficient material; the last one that
    applies is the reason reported; if none applies the result is unchanged. *)
Theorem push_refines_gen h b g m h1 b1 : Game h b g ->
  In m (pseudo_legal_moves (b_position h b) (b_turn b)) -> push_move z h b m = (h1, b1, true) ->
  let g' := g_play g (abs_move m) in
  Game h1 b1 g' /\ GRel (h1, b1) g' /\
  b_result b1 = result_after (g_now g') (b_result b) /\
  (g_now g' <> [] -> outcome (b_result b1) = Draw) /\
  (outcome (b_result b1) = Draw -> outcome (b_result b) = Draw \/ g_now g' <> []) /\
  rep_get (b_reps b1) (b_hash h1 b1) =
    Z.of_nat (length (filter (fun n => n_hash n =? b_hash h1 b1) (chain h1 (b_current b1)))) /\
  (b_unsat h1 b1 ->
   identical_position_count h1 b1 (b_current b1) (b_turn b1) (b_noprogress h1 b1) =
     occurrences (g_pos g', g_turn g') (g_past g')).
Proof.
  intros (Hwf & Hinv & Hrel & Hdr) Hin Hpush. cbv zeta.
  pose proof (wf_push_move z h b m h1 b1 true Hwf Hpush) as Hwf1.
  rewrite push_move_is_pushw in Hpush.
  pose proof (push_sim zmove update_noprogress true has_insufficient_material z h b m h1 b1 true Hwf Hpush) as Hsim.
  rewrite get_position in Hin by exact Hwf. change (b_turn b) with (a_turn (abs h b)) in Hin.
  destruct (apush_step z Hzt W W_step (abs h b) g m (abs h1 b1) Hinv Hrel Hin Hsim) as (Hinv1 & Hrel1 & Hres & Hrep & Hipc).
  cbn [abs a_result] in Hres.
  set (g' := g_play g (abs_move m)) in *.
  assert (Hnow : g_now g' <> [] -> outcome (b_result b1) = Draw).
  { intros Hn. rewrite Hres. now apply result_after_draw. }
  assert (Hdraw : outcome (b_result b1) = Draw -> outcome (b_result b) = Draw \/ g_now g' <> []).
  { intros Hd. destruct (g_now g') as [|x l] eqn:E; [left|right; discriminate].
    rewrite Hres in Hd. exact Hd. }
  split; [|split; [|split; [|split; [|split; [|split]]]]].
  - split; [exact Hwf1|]. split; [exact Hinv1|]. split; [exact Hrel1|].
    intros Hd. destruct (Hdraw Hd) as [Hold|Hn].
    + unfold g', g_play. cbn [g_drawn]. rewrite (Hdr Hold). reflexivity.
    + unfold g', g_play in Hn |- *. cbn [g_drawn g_now] in Hn |- *.
      match type of Hn with ?l <> [] => destruct l; [contradiction|apply orb_true_r] end.
  - now apply GRel_ARel.
  - exact Hres.
  - exact Hnow.
  - exact Hdraw.
  - rewrite <- get_hash in Hrep by exact Hwf1. cbn [abs a_reps a_data] in Hrep. rewrite Hrep.
    unfold count_hash, data. rewrite filter_map_len. reflexivity.
  - (* the walk on the new heap is the list walk over the old chain *)
    intros Hu.
    assert (Hipc' := Hipc ltac:(rewrite <- (get_noprogress h1 b1 Hwf1); unfold abs; cbn [a_data]; unfold data;
                               rewrite map_length; exact Hu)).
    clear Hipc. rename Hipc' into Hipc.
    destruct Hwf as (Hw & Hc & Hn & Ht). destruct Hwf1 as (Hw1 & Hc1 & Hn1 & Ht1).
    unfold identical_position_count, identical_position_count_with.
    rewrite (ipc_walk_list true h1 _ (b_turn b1) (b_noprogress h1 b1) Hw1).
    2:{ intros id Hid. pose proof (Hw1 _ _ Hid). lia. }
    assert (Ed1 : a_data (abs h1 b1) = ndata (hnode h1 (b_current b1)) :: map ndata (chain_opt h1 (n_prev (hnode h1 (b_current b1)))))
      by (cbn [abs a_data]; now apply data_unfold).
    unfold apush, apush_with in Hsim.
    destruct (blocked (a_result (abs h b))); [discriminate|].
    destruct (pos_move (a_position (abs h b)) m); [|discriminate].
    apply (f_equal fst) in Hsim. cbn [fst] in Hsim.
    assert (Ed : a_data (abs h1 b1) = hd dummy_data (a_data (abs h1 b1)) :: a_data (abs h b)) by (rewrite <- Hsim; reflexivity).
    assert (Et : a_turn (abs h1 b1) = opponent (a_turn (abs h b))) by (rewrite <- Hsim; reflexivity).
    clear Hsim.
    rewrite Ed1 in Ed. cbn [hd] in Ed. inversion Ed as [Etl]. rewrite Etl.
    cbn [abs a_turn] in Et.
    unfold a_position, a_hash, a_noprogress in Hipc. rewrite Ed1 in Hipc. cbn [hd ndata fst snd] in Hipc.
    cbn [abs a_turn a_data] in Hipc. unfold b_noprogress.
    rewrite Et. rewrite (opp_opp (b_turn b)) by (destruct Ht; [left|right]; assumption).
    rewrite Et in Hipc. exact Hipc.
Qed.

(** * a game played on one board *)
Inductive played_board (pos : position) (turn np : N) (fm : Z) : list move -> heap -> board -> Prop :=
| pb_new h b : new_board z [] pos turn np fm = (h, b) -> played_board pos turn np fm [] h b
| pb_push ms h b m h1 b1 : played_board pos turn np fm ms h b ->
    In m (pseudo_legal_moves (b_position h b) (b_turn b)) -> push_move z h b m = (h1, b1, true) ->
    played_board pos turn np fm (ms ++ [m]) h1 b1.

Section Played.
Variables (pos : position) (turn np : N) (fm : Z).
Hypothesis Hpos : wf_b pos turn = true.
Hypothesis Hturn : turn = 0 \/ turn = 1.
Hypothesis Hnp : np <= max_int.
Local Notation sg := (spec_game pos turn np fm).

Theorem played_Game ms h b : played_board pos turn np fm ms h b -> Game h b (sg ms).
Proof.
  induction 1 as [h b Hnew | ms h b m h1 b1 Hpl IH Hin Hpush].
  - exact (proj1 (Game_new pos turn np fm h b Hpos Hturn Hnp Hnew)).
  - rewrite spec_game_snoc. exact (proj1 (push_refines_gen h b (sg ms) m h1 b1 IH Hin Hpush)).
Qed.

(** 8. [drawn_iff] (C05): after every move, if some draw condition holds for the position just reached the
    board reports a draw; and a board reports a draw only in a game in which some condition has held at or
    before this point. *)
Theorem drawn_iff_gen ms h b : played_board pos turn np fm ms h b ->
  (ms <> [] -> g_now (sg ms) <> [] -> outcome (b_result b) = Draw) /\
  (outcome (b_result b) = Draw -> g_drawn (sg ms) = true) /\
  (ms = [] -> b_result b = no_result).
Proof.
  intros Hpl. pose proof (played_Game ms h b Hpl) as HG.
  split; [|split].
  - destruct Hpl as [h b Hnew | ms h b m h1 b1 Hpl Hin Hpush]; [contradiction|].
    intros _. rewrite spec_game_snoc.
    pose proof (played_Game ms h b Hpl) as HG0.
    exact (proj1 (proj2 (proj2 (proj2 (push_refines_gen h b (sg ms) m h1 b1 HG0 Hin Hpush))))).
  - exact (proj2 (proj2 (proj2 HG))).
  - intros E. destruct Hpl as [h b Hnew | ms h b m h1 b1 Hpl Hin Hpush].
    + exact (proj2 (Game_new pos turn np fm h b Hpos Hturn Hnp Hnew)).
    + destruct ms; discriminate.
Qed.

(** the exact result after every move *)
Theorem played_result ms h b m h1 b1 : played_board pos turn np fm ms h b ->
  In m (pseudo_legal_moves (b_position h b) (b_turn b)) -> push_move z h b m = (h1, b1, true) ->
  b_result b1 = result_after (g_now (sg (ms ++ [m]))) (b_result b).
Proof.
  intros Hpl Hin Hpush. rewrite spec_game_snoc.
  exact (proj1 (proj2 (proj2 (push_refines_gen h b (sg ms) m h1 b1 (played_Game ms h b Hpl) Hin Hpush)))).
Qed.

(** 1. [hash_consistent]: node [j] of the chain (0 = head) carries the hash of its position with the side that
    was to move there, that position is legal for that side, and the sides alternate *)
Theorem hash_consistent_gen ms h b : played_board pos turn np fm ms h b ->
  forall j n, nth_error (chain h (b_current b)) j = Some n ->
  let t := turn_at (b_turn b) j in
  (t = 0 \/ t = 1) /\ wf_b (n_pos n) t = true /\ n_hash n = zhash z (n_pos n) t.
Proof.
  intros Hpl j n Hj. destruct (played_Game ms h b Hpl) as (_ & [Hh _] & _).
  cbn [abs a_data a_turn] in Hh. cbv zeta.
  apply (hash_consistent_list z _ _ Hh j (ndata n)). unfold data. now rewrite nth_error_map, Hj.
Qed.

(** 3. [rep_map_counts] *)
Theorem rep_map_counts_gen ms h b : played_board pos turn np fm ms h b ->
  forall k, rep_get (b_reps b) k = Z.of_nat (length (filter (fun n => n_hash n =? k) (chain h (b_current b)))).
Proof.
  intros Hpl k. destruct (played_Game ms h b Hpl) as (_ & [_ Hc] & _).
  cbn [abs a_data a_reps] in Hc. rewrite Hc. unfold count_hash, data. now rewrite filter_map_len.
Qed.

(** the history has one node per move played, plus the start node *)
Lemma played_length ms h b : played_board pos turn np fm ms h b ->
  length (chain h (b_current b)) = S (length ms).
Proof.
  induction 1 as [h b Hnew | ms h b m h1 b1 Hpl IH Hin Hpush].
  - pose proof (wf_new z pos turn np fm h b Hturn Hnew) as Hw. unfold new_board in Hnew. inversion Hnew; subst h b.
    rewrite chain_unfold by (destruct Hw; assumption). reflexivity.
  - pose proof (played_Game ms h b Hpl) as (Hwf & _).
    pose proof (wf_push_move z h b m h1 b1 true Hwf Hpush) as Hwf1.
    rewrite push_move_is_pushw in Hpush.
    pose proof (push_sim zmove update_noprogress true has_insufficient_material z h b m h1 b1 true Hwf Hpush) as Hsim.
    unfold apush_with in Hsim.
    destruct (blocked (a_result (abs h b))); [discriminate|].
    destruct (pos_move (a_position (abs h b)) m); [|discriminate].
    apply (f_equal (fun x => length (a_data (fst x)))) in Hsim. cbn [fst a_data abs length] in Hsim.
    unfold data in Hsim. rewrite !map_length in Hsim. rewrite app_length. cbn [length]. lia.
Qed.

(** the clock never exceeds [max_int] *)
Theorem clock_le_max_int ms h b : played_board pos turn np fm ms h b -> b_noprogress h b <= max_int.
Proof.
  intros Hpl. destruct (played_Game ms h b Hpl) as (Hwf & _ & Hrel & _).
  rewrite (get_noprogress h b Hwf). destruct Hrel as (_ & Hc & _). exact (clk_rel_le _ _ Hc).
Qed.

(** 4. [window_complete] *)
Theorem window_complete_gen ms h b : played_board pos turn np fm ms h b -> b_unsat h b ->
  forall j n, nth_error (chain h (b_current b)) j = Some n -> b_noprogress h b < N.of_nat j ->
  abs_pos (n_pos n) <> abs_pos (b_position h b).
Proof.
  intros Hpl Hu j n Hj Hlt. destruct (played_Game ms h b Hpl) as (Hwf & [Hh _] & _).
  cbn [abs a_data a_turn] in Hh. destruct (data_nonempty h b Hwf) as [e [r [Ed Ee]]].
  assert (Hje : nth_error (data h b) j = Some (ndata n)) by (unfold data; now rewrite nth_error_map, Hj).
  pose proof (window_complete_list z W W_step _ _ Hh e r j (ndata n) Ed Hje) as Hwc.
  subst e. cbn [ndata epos eclk fst snd] in Hwc. apply Hwc; [|exact Hlt].
  unfold data. rewrite map_length. exact Hu.
Qed.

(** 5. [ipc_counts], for the board as it stands after any number of moves *)
Theorem ipc_counts_gen ms h b : played_board pos turn np fm ms h b -> b_unsat h b ->
  identical_position_count h b (b_current b) (b_turn b) (b_noprogress h b) =
  occurrences (g_pos (sg ms), g_turn (sg ms)) (g_past (sg ms)).
Proof.
  intros Hpl Hu. destruct (played_Game ms h b Hpl) as (Hwf & [Hh _] & [Hst _] & _).
  cbn [abs a_data a_turn] in Hh, Hst. destruct Hwf as (Hw & Hc & Hn & Ht).
  assert (Hu' : unsat (n_noprogress (hnode h (b_current b))) (length (data h b)))
    by (unfold data; rewrite map_length; exact Hu).
  unfold identical_position_count, identical_position_count_with.
  rewrite (ipc_walk_list true h _ (b_turn b) (b_noprogress h b) Hw).
  2:{ intros id Hid. pose proof (Hw _ _ Hid). lia. }
  rewrite data_unfold in Hh, Hst, Hu' by exact Hw.
  set (cur := hnode h (b_current b)) in *. set (r := map ndata (chain_opt h (n_prev cur))) in *.
  assert (Hvt : vcol (b_turn b)) by (destruct Ht; [left|right]; assumption).
  destruct (hash_consistent_list z _ _ Hh 0%nat (ndata cur) eq_refl) as (_ & Hwf0 & Hh0).
  cbn [turn_at ndata epos ehash fst snd] in Hwf0, Hh0.
  cbn [states] in Hst. inversion Hst as [[E1 E2 E3]]. cbn [ndata epos fst] in *.
  unfold b_noprogress. fold cur.
  rewrite Hh0.
  rewrite (ipc_counts_list z (n_pos cur) (b_turn b) (n_noprogress cur) Hvt (wf_inv _ _ (wf_b_WF _ _ Hwf0))
             r (opponent (b_turn b)) 1 1%Z (vcol_opponent _)).
  - unfold occurrences. reflexivity.
  - intros j e Hj. destruct (hash_consistent_list z _ _ Hh (S j) e Hj) as (_ & A & B).
    split; [exact (wf_inv _ _ (wf_b_WF _ _ A))|exact B].
  - intros j e Hj Hlim. destruct (same_state _ _) eqn:Es; [|reflexivity]. exfalso.
    apply same_state_eq in Es. assert (Ea := f_equal fst Es). cbn [fst] in Ea.
    refine (window_complete_list z W W_step _ _ Hh (ndata cur) r (S j) e eq_refl Hj Hu' _ (eq_sym Ea)).
    cbn [ndata eclk snd]. lia.
Qed.

End Played.

(** * 10. forks: the repetition map is copied and the chain shared, so a fork (and the original, whatever is
    then played on the other board) carries the same specification game *)
Theorem Game_fork h b g h1 f : Game h b g -> fork h b = (h1, f) -> Game h1 f g /\ Game h1 b g.
Proof.
  intros HG Hf. pose proof HG as (Hwf & _).
  destruct (wf_fork_both h b h1 f Hwf Hf) as [Hwf1 Hwf2].
  destruct (fork_sim h b h1 f Hwf Hf) as [E1 E2].
  split; (eapply Game_aeq; [| |exact HG]); try assumption; [rewrite E1|rewrite E2]; apply aeq_refl.
Qed.

Theorem Game_fork_isolated_original h b g h1 f ops h2 f2 d2 : Game h b g -> fork h b = (h1, f) ->
  run_d zmove update_noprogress true has_insufficient_material false z ops h1 f 0 = Some (h2, f2, d2) ->
  Game h2 b g.
Proof.
  intros HG Hf Hrun. pose proof HG as (Hwf & _).
  destruct (fork_isolated_original z h b h1 f ops h2 f2 d2 Hwf Hf Hrun) as (_ & Hwb & _ & Hbeq).
  eapply Game_aeq; [exact Hwb| |exact HG].
  apply aeq_sym. apply (view_eq_abs h2 b h b Hwb Hwf). exact Hbeq.
Qed.

Theorem Game_fork_isolated_fork h b g h1 f ops h2 b2 d2 : Game h b g -> fork h b = (h1, f) ->
  run_d zmove update_noprogress true has_insufficient_material false z ops h1 b 0 = Some (h2, b2, d2) ->
  Game h2 f g.
Proof.
  intros HG Hf Hrun. pose proof HG as (Hwf & _).
  destruct (Game_fork h b g h1 f HG Hf) as [HGf _]. pose proof HGf as (Hwf1 & _).
  destruct (fork_isolated_fork z h b h1 f ops h2 b2 d2 Hwf Hf Hrun) as (_ & Hwf2 & Hbeq).
  eapply Game_aeq; [exact Hwf2| |exact HGf].
  apply aeq_sym. apply (view_eq_abs h2 f h1 f Hwf2 Hwf1). exact Hbeq.
Qed.

End Boards.
