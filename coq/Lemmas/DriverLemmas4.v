(** * Driver transition system: halting (C15), absence of deadlock, termination on quit (C16). *)
From Coq Require Import List Bool Arith PeanoNat Lia.
From Morlock.Model Require Import Driver.
From Morlock.Lemmas Require Import DriverLemmas1 DriverLemmas2 DriverLemmas3.
Import ListNotations.

Section Halt.
  Variable cap : nat.
  Variable script : list cmd.

  Lemma reach_hok : forall s h r, reachable cap script s -> find_h h (srchs s) = Some r ->
    hok r /\ h_id r = h /\ h <= searches s.
  Proof. intros s h r R F. destruct (InvAB_reachable cap script s R) as [_ IB]. eapply hok_of_find; eauto. Qed.

  (** ** C15, invariant form: for every search ever launched,
      - quit is closed only after init (Halt waits for init first),
      - init is closed only when the depth-1 iteration is stored (the process cannot exit earlier:
        before quit is closed it only exits after a completed iteration),
      - the stored pv is the deepest completed iteration: it was sent, everything sent is at most as
        deep, and the process is running the next depth or has exited. *)
  Theorem halt_protocol : forall s r, reachable cap script s -> In r (srchs s) ->
    (h_quit r = true -> h_init r = true)
    /\ (h_init r = true -> 1 <= h_pv r /\ In (h_pv r) (h_sent r))
    /\ (forall d, In d (h_sent r) -> d <= h_pv r)
    /\ (h_done r = true <-> h_proc r = PExit)
    /\ (forall k, h_proc r = PRun k -> k = S (h_pv r)).
  Proof.
    intros s r R Hin. destruct (InvAB_reachable cap script s R) as [_ [C _ _]].
    destruct (c_hok _ _ _ _ _ C r Hin) as [[H1 [H2 [H3 [H4 [H5 [H6 [H7 [HP H8]]]]]]]] _].
    split; auto. split; [|split; [|split]].
    - intros Hi. apply H3 in Hi. split; auto. destruct HP; auto. lia.
    - intros d Hd. apply H4 in Hd. lia.
    - destruct (h_proc r); split; intros X; try discriminate; try tauto.
      destruct H8 as [_ [X' _]]. congruence.
    - intros k Hk. rewrite Hk in H8. tauto.
  Qed.

  (** ** C15, step form: what holds when Halt returns (the loop's LHaltDone step). *)
  Theorem halt_returns : forall s s', reachable cap script s -> fire cap LHaltDone s = Some s' ->
    exists h k r,
      pc s = PHaltDone h k /\ find_h h (srchs s) = Some r
      /\ s' = run_cont k (Some (h_pv r)) (set_eactive None s)        (* returns the stored pv *)
      /\ h_init r = true /\ h_quit r = true /\ h_done r = true /\ h_proc r = PExit
      /\ 1 <= h_pv r                                               (* halt_after_depth1 *)
      /\ In (h_pv r) (h_sent r)                                    (* halt_returns_completed *)
      /\ (forall d, In d (h_sent r) -> d <= h_pv r)                (* halt_at_least_reported: out *)
      /\ (forall d, In (UInfo h d) (ponder s) -> d <= h_pv r)      (* ... in the ponder queue *)
      /\ (forall d, In (LInfo h d) (emitted s) -> d <= h_pv r).    (* ... printed as info lines *)
  Proof.
    intros s s' R F. destruct (InvAB_reachable cap script s R) as [IA [C P A]].
    simpl in F. unfold with_srch in F. unfold pcB in P.
    destruct (pc s) eqn:Hpc; try discriminate.
    destruct (find_h h (srchs s)) as [r|] eqn:Hf; try discriminate.
    destruct (h_done r) eqn:Hd; inversion F; subst; clear F.
    destruct P as [P1 P2]. destruct (P2 r eq_refl) as [Q I].
    assert (Hin : In r (srchs s)) by (apply find_h_In in Hf; tauto).
    destruct (halt_protocol s r R Hin) as [T1 [T2 [T3 [T4 T5]]]].
    destruct (T2 I) as [T6 T7].
    exists h, k, r. repeat split; auto.
    - apply T4; auto.
    - intros d Hd'. apply (c_ponder _ _ _ _ _ C) in Hd'. simpl in Hd'. destruct Hd' as [r' [F' I']].
      rewrite Hf in F'. inversion F'; subst. auto.
    - intros d Hd'. apply (c_lines _ _ _ _ _ C) in Hd'. simpl in Hd'. destruct Hd' as [r' [F' I']].
      rewrite Hf in F'. inversion F'; subst. auto.
  Qed.

  (** what the hard-limit timer's Halt does: it too waits for init *)
  Theorem timer_halt_after_depth1 : forall s s' h, reachable cap script s -> fire cap (LTHard h) s = Some s' ->
    exists r, find_h h (srchs s) = Some r /\ h_init r = true /\ 1 <= h_pv r.
  Proof.
    intros s s' h R F. simpl in F. unfold with_srch in F.
    destruct (has_timer (THard h) (timers s)); try discriminate.
    destruct (find_h h (srchs s)) as [r|] eqn:Hf; try discriminate.
    destruct (h_init r) eqn:Hi; try discriminate.
    exists r. repeat split; auto.
    assert (Hin : In r (srchs s)) by (apply find_h_In in Hf; tauto).
    destruct (halt_protocol s r R Hin) as [_ [T2 _]]. apply T2; auto.
  Qed.

  (** ** No deadlock *)
  Definition terminated (s : dstate) : Prop := pc s = PExited /\ out_closed s = true.

  (** The loop blocked in Halt on h: either it can move itself, or the search process of h can
      complete its iteration (it never blocks: drain-then-send). *)
  Lemma halt_way_forward : forall s h k, reachable cap script s ->
    pc s = PHaltInit h k \/ pc s = PHaltDone h k ->
    exists r, find_h h (srchs s) = Some r /\
      ((exists s', fire cap LHaltInit s = Some s') \/ (exists s', fire cap LHaltDone s = Some s')
       \/ (exists d s', h_proc r = PRun d /\ fire cap (LIter h false) s = Some s')).
  Proof.
    intros s h k R Hpc. destruct (InvAB_reachable cap script s R) as [IA [C P A]]. unfold pcB in P.
    assert (E : eactive s = Some h) by (destruct Hpc as [Hpc|Hpc]; rewrite Hpc in P; tauto).
    destruct (c_eact _ _ _ _ _ C h E) as [_ [r F]]. exists r. split; auto.
    destruct (reach_hok s h r R F) as [[H1 [H2 [H3 [H4 [H5 [H6 [H7 [HP H8]]]]]]]] _].
    destruct Hpc as [Hpc|Hpc].
    - destruct (h_init r) eqn:Hi.
      + left. eexists. apply view_fire. eapply V_hinit; eauto.
      + right. right. destruct (h_proc r) eqn:Hp; [|destruct H8; congruence].
        exists k0. eexists. split; auto. apply view_fire. eapply V_iter; eauto. discriminate.
    - destruct (h_done r) eqn:Hd.
      + right. left. eexists. apply view_fire. eapply V_hdone; eauto.
      + right. right. destruct (h_proc r) eqn:Hp; [|destruct H8 as [_ [X _]]; congruence].
        exists k0. eexists. split; auto. apply view_fire. eapply V_iter; eauto. discriminate.
  Qed.

  Theorem no_deadlock : forall s, reachable cap script s -> terminated s \/ exists s', step cap s s'.
  Proof.
    intros s R. destruct (pc s) eqn:Hpc.
    - right. destruct (inp s) eqn:Hi.
      + eexists. exists LCmd. apply view_fire. now apply V_eof.
      + eexists. exists LCmd. apply view_fire. eapply V_cmd; eauto.
    - right. destruct (halt_way_forward s h k R (or_introl Hpc)) as [r [_ [[s' F]|[[s' F]|[d [s' [_ F]]]]]]];
        exists s'; eexists; exact F.
    - right. destruct (halt_way_forward s h k R (or_intror Hpc)) as [r [_ [[s' F]|[[s' F]|[d [s' [_ F]]]]]]];
        exists s'; eexists; exact F.
    - left. split; auto. apply (output_closed_iff_exited cap script s R). exact Hpc.
  Qed.

  (** the search process never blocks: while it runs, its iteration can complete *)
  Theorem search_never_blocks : forall s r k, In r (srchs s) -> NoDup (map h_id (srchs s)) ->
    h_proc r = PRun k -> exists s', fire cap (LIter (h_id r) false) s = Some s'.
  Proof.
    intros s r k Hin Hnd Hp. eexists. apply view_fire. eapply V_iter; eauto.
    - apply In_find_h; auto.
    - discriminate.
  Qed.
End Halt.

Print Assumptions halt_protocol.
Print Assumptions halt_returns.
Print Assumptions no_deadlock.
