(** C05, part 1: structural equality tests reflect equality; the abstraction [abs_pos] is injective on
    invariant positions; popcount as a count over the 64 squares. *)
From Coq Require Import NArith ZArith List Bool Lia ZifyBool ZifyNat ZifyN Sorted.
From Morlock.Model Require Import Bits Attacks Move Position Abs.
From Morlock.Spec Require Import Chess Game.
From Morlock.Lemmas Require Import AttackGeometry1 AttackGeometry3 AttackGeometry_Extra PositionLemmas MoveRefines1 MoveGen2.
Import ListNotations.
Open Scope N_scope.

(** * boolean equality tests of the specification reflect equality *)

Lemma kind_eqb_eq a b : kind_eqb a b = true <-> a = b.
Proof. destruct a, b; cbn; split; intros H; try reflexivity; discriminate. Qed.

Lemma cell_eqb_eq a b : cell_eqb a b = true <-> a = b.
Proof.
  destruct a as [[c1 k1]|], b as [[c2 k2]|]; cbn; try (split; [discriminate|discriminate]); try tauto.
  rewrite andb_true_iff, color_eqb_eq, kind_eqb_eq. split; [intros [-> ->]; reflexivity|intros H; inversion H; auto].
Qed.

Lemma mboard_eqb_eq a : forall b, mboard_eqb a b = true <-> a = b.
Proof.
  induction a as [|x a IH]; intros [|y b]; cbn; try (split; [discriminate|discriminate]); try tauto.
  rewrite andb_true_iff, cell_eqb_eq, IH. split; [intros [-> ->]; reflexivity|intros H; inversion H; auto].
Qed.

Lemma rights_eqb_iff a b : rights_eqb a b = true <-> a = b.
Proof. split; [apply rights_eqb_eq|]. intros ->. destruct b as [[] [] [] []]; reflexivity. Qed.

Lemma onat_eqb_eq a b : onat_eqb a b = true <-> a = b.
Proof.
  destruct a as [x|], b as [y|]; cbn; try (split; [discriminate|discriminate]); try tauto.
  rewrite Nat.eqb_eq. split; [intros ->; reflexivity|intros H; inversion H; auto].
Qed.

Theorem spos_eqb_eq a b : spos_eqb a b = true <-> a = b.
Proof.
  destruct a as [b1 r1 e1], b as [b2 r2 e2]. unfold spos_eqb. cbn [brd rts eps].
  rewrite !andb_true_iff, mboard_eqb_eq, rights_eqb_iff, onat_eqb_eq.
  split; [intros [[-> ->] ->]; reflexivity|intros H; inversion H; auto].
Qed.

Lemma same_state_eq a b : same_state a b = true <-> a = b.
Proof.
  destruct a as [p c], b as [q d]. unfold same_state. cbn [fst snd].
  rewrite andb_true_iff, spos_eqb_eq, color_eqb_eq.
  split; [intros [-> ->]; reflexivity|intros H; inversion H; auto].
Qed.

(** * structural equality of positions (Go: [*tmp.pos == *n.pos]) reflects equality *)

Lemma listN_eqb_eq a : forall b, listN_eqb a b = true <-> a = b.
Proof.
  induction a as [|x a IH]; intros [|y b]; cbn; try (split; [discriminate|discriminate]); try tauto.
  rewrite andb_true_iff, N.eqb_eq, IH. split; [intros [-> ->]; reflexivity|intros H; inversion H; auto].
Qed.

Theorem pos_eqb_eq a b : pos_eqb a b = true <-> a = b.
Proof.
  destruct a as [p1 r1 c1 e1], b as [p2 r2 c2 e2]. unfold pos_eqb. cbn [pieces rotated_bb castling enpassant].
  rewrite !andb_true_iff, listN_eqb_eq, rot_eqb_eq, !N.eqb_eq.
  split; [intros [[[-> ->] ->] ->]; reflexivity|intros H; inversion H; auto].
Qed.

(** * [abs_pos] is injective on invariant positions *)

Lemma abs_cell_eq_square p q s : Inv p -> Inv q -> s < 64 -> abs_cell p s = abs_cell q s -> square p s = square q s.
Proof.
  intros Hp Hq Hs H. unfold abs_cell in H.
  destruct (square p s) as [[c pc]|] eqn:E1; destruct (square q s) as [[c' pc']|] eqn:E2; try reflexivity.
  - apply square_some in E1 as [Hc [Hv _]]; try assumption.
    apply square_some in E2 as [Hc' [Hv' _]]; try assumption.
    destruct (vpc_kind _ Hv) as [k ->]. destruct (vpc_kind _ Hv') as [k' ->].
    rewrite !kind_of_code in H. inversion H as [[H1 H2]].
    apply color_of_inj in H1; auto. now subst.
  - apply square_some in E1 as [Hc [Hv _]]; try assumption.
    destruct (vpc_kind _ Hv) as [k ->]. rewrite kind_of_code in H. discriminate.
  - apply square_some in E2 as [Hc [Hv _]]; try assumption.
    destruct (vpc_kind _ Hv) as [k ->]. rewrite kind_of_code in H. discriminate.
Qed.

Lemma map_seqN_inj (f g : N -> cell) : map f (seqN 64) = map g (seqN 64) -> forall s, s < 64 -> f s = g s.
Proof.
  intros H s Hs. rewrite <- (at_map_seqN f s Hs), <- (at_map_seqN g s Hs). now rewrite H.
Qed.

Lemma abs_rights_inj a b : a < 16 -> b < 16 -> abs_rights a = abs_rights b -> a = b.
Proof.
  intros Ha Hb H.
  assert (G : forallb (fun a => forallb (fun b =>
     imp (rights_eqb (abs_rights a) (abs_rights b)) (a =? b)) (seqN 16)) (seqN 16) = true) by (vm_compute; reflexivity).
  rewrite forallb_forall in G. specialize (G a). rewrite in_seqN in G. specialize (G ltac:(lia)).
  rewrite forallb_forall in G. specialize (G b). rewrite in_seqN in G. specialize (G ltac:(lia)).
  rewrite H in G. rewrite (proj2 (rights_eqb_iff _ _) eq_refl) in G. cbn in G. now apply N.eqb_eq.
Qed.

Theorem abs_pos_square p q : Inv p -> Inv q -> abs_pos p = abs_pos q -> forall s, s < 64 -> square p s = square q s.
Proof.
  intros Hp Hq H s Hs. apply abs_cell_eq_square; try assumption.
  apply (f_equal brd) in H. unfold abs_pos in H. cbn [brd] in H. now apply (map_seqN_inj _ _ H).
Qed.

Lemma pget_eq_of_square p q c pc : Inv p -> Inv q -> (forall s, s < 64 -> square p s = square q s) ->
  vcol c -> vpc pc -> pget p c pc = pget q c pc.
Proof.
  intros Hp Hq H Hc Hv. apply N.bits_inj. intros s.
  destruct (N.lt_ge_cases s 64) as [L|L].
  - apply bool_eq_iff. rewrite (pbit_square p c pc s Hp L Hc Hv), (pbit_square q c pc s Hq L Hc Hv), (H s L). tauto.
  - rewrite (high_bits_zero _ _ (pget_word p c pc Hp) L), (high_bits_zero _ _ (pget_word q c pc Hq) L). reflexivity.
Qed.

Lemma pget_eq_all p q : Inv p -> Inv q -> (forall s, s < 64 -> square p s = square q s) ->
  forall c pc, vcol c -> pc <= 6 -> pget p c pc = pget q c pc.
Proof.
  intros Hp Hq H c pc Hc Hle.
  destruct (N.eq_dec pc 0) as [->|Hn].
  - pose proof Hp as [_ [_ [_ [U1 _]]]]. pose proof Hq as [_ [_ [_ [U2 _]]]].
    change 0 with NoPiece. rewrite (U1 c Hc), (U2 c Hc).
    rewrite !(pget_eq_of_square p q c _ Hp Hq H Hc) by (unfold vpc, Pawn, Bishop, Knight, Rook, Queen, King; lia).
    reflexivity.
  - apply pget_eq_of_square; auto. unfold vpc. lia.
Qed.

Theorem abs_pos_inj p q : Inv p -> Inv q -> abs_pos p = abs_pos q -> p = q.
Proof.
  intros Hp Hq H. pose proof (abs_pos_square p q Hp Hq H) as Hsq.
  pose proof (pget_eq_all p q Hp Hq Hsq) as Hpg.
  assert (Epc : pieces p = pieces q).
  { pose proof (Inv_len _ Hp) as L1. pose proof (Inv_len _ Hq) as L2.
    apply (nth_ext _ _ 0 0); [congruence|]. intros n Hn. rewrite L1 in Hn.
    assert (E : exists c pc, vcol c /\ pc <= 6 /\ n = N.to_nat (pidx c pc)).
    { destruct (Nat.lt_ge_cases n 7).
      - exists 0, (N.of_nat n). split; [now left|]. split; [lia|]. unfold pidx. lia.
      - exists 1, (N.of_nat (n - 7)). split; [now right|]. split; [lia|]. unfold pidx. lia. }
    destruct E as [c [pc [Hc [Hle ->]]]]. exact (Hpg c pc Hc Hle). }
  assert (Eall : all_bb p = all_bb q).
  { pose proof Hp as [_ [_ [_ [_ [A1 _]]]]]. pose proof Hq as [_ [_ [_ [_ [A2 _]]]]].
    rewrite A1, A2. rewrite !(Hpg _ NoPiece) by (unfold vcol, White, Black, NoPiece; lia). reflexivity. }
  assert (Erot : rotated_bb p = rotated_bb q).
  { pose proof Hp as [_ [_ [_ [_ [_ [R1 _]]]]]]. pose proof Hq as [_ [_ [_ [_ [_ [R2 _]]]]]].
    rewrite R1, R2, Eall. reflexivity. }
  assert (Ecas : castling p = castling q).
  { pose proof Hp as [_ [_ [_ [_ [_ [_ [C1 _]]]]]]]. pose proof Hq as [_ [_ [_ [_ [_ [_ [C2 _]]]]]]].
    apply abs_rights_inj; auto. apply (f_equal rts) in H. exact H. }
  assert (Eep : enpassant p = enpassant q).
  { apply (f_equal eps) in H. unfold abs_pos in H. cbn [eps] in H.
    destruct (N.eqb_spec (enpassant p) 0) as [E1|E1]; destruct (N.eqb_spec (enpassant q) 0) as [E2|E2];
      try discriminate; try congruence.
    inversion H. lia. }
  destruct p as [a1 a2 a3 a4], q as [b1 b2 b3 b4]. cbn [pieces rotated_bb castling enpassant] in *. congruence.
Qed.

Corollary abs_pos_eq_iff p q : Inv p -> Inv q -> (abs_pos p = abs_pos q <-> p = q).
Proof. intros Hp Hq. split; [now apply abs_pos_inj|now intros ->]. Qed.

Corollary pos_eqb_abs p q : Inv p -> Inv q -> pos_eqb p q = spos_eqb (abs_pos p) (abs_pos q).
Proof.
  intros Hp Hq. apply bool_eq_iff. rewrite pos_eqb_eq, spos_eqb_eq. symmetry. now apply abs_pos_eq_iff.
Qed.

(** * popcount counts the set bits among the 64 squares *)

Lemma filter_sorted (f : N -> bool) l : StronglySorted N.lt l -> StronglySorted N.lt (filter f l).
Proof.
  induction 1 as [|a l Hs IH Hf]; cbn; [constructor|].
  destruct (f a); [|exact IH]. constructor; [exact IH|].
  rewrite Forall_forall in *. intros x Hx. apply filter_In in Hx as [Hx _]. now apply Hf.
Qed.

Lemma seqN_sorted n : StronglySorted N.lt (seqN n).
Proof.
  unfold seqN. generalize 0%nat. induction n as [|n IH]; intros a; cbn; [constructor|].
  constructor; [apply IH|]. rewrite Forall_forall. intros x Hx. apply in_map_iff in Hx as [y [<- Hy]].
  apply in_seq in Hy. lia.
Qed.

Definition cnt (f : N -> bool) : nat := length (filter f (seqN 64)).

Theorem popcount_cnt x : x < 2 ^ 64 -> popcount x = N.of_nat (cnt (N.testbit x)).
Proof.
  intros Hx. rewrite popcount_length. unfold cnt. f_equal. f_equal.
  apply bits_asc_unique; [apply filter_sorted, seqN_sorted|].
  intros s. rewrite filter_In, in_seqN64. split; [tauto|]. intros H. split; [|exact H].
  destruct (N.lt_ge_cases s 64) as [L|L]; [exact L|]. rewrite (high_bits_zero _ _ Hx L) in H. discriminate.
Qed.

Lemma cnt_ext f g : (forall s, s < 64 -> f s = g s) -> cnt f = cnt g.
Proof.
  intros H. unfold cnt. f_equal. apply filter_ext_in. intros s Hs. apply H. now apply in_seqN64.
Qed.

Lemma filter_length_or {A} (f g : A -> bool) l : (forall x, In x l -> f x && g x = false) ->
  length (filter (fun x => f x || g x) l) = (length (filter f l) + length (filter g l))%nat.
Proof.
  induction l as [|a l IH]; intros H; [reflexivity|]. cbn [filter].
  pose proof (H a (or_introl eq_refl)) as Ha.
  assert (IH' := IH (fun x Hx => H x (or_intror Hx))).
  destruct (f a), (g a); cbn in *; try discriminate; lia.
Qed.

Lemma cnt_or f g : (forall s, s < 64 -> f s && g s = false) -> cnt (fun s => f s || g s) = (cnt f + cnt g)%nat.
Proof. intros H. unfold cnt. apply filter_length_or. intros x Hx. apply H. now apply in_seqN64. Qed.

Print Assumptions spos_eqb_eq.
Print Assumptions pos_eqb_eq.
Print Assumptions abs_pos_inj.
Print Assumptions popcount_cnt.
