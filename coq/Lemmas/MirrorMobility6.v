(** MirrorMobility6 — C20, mobility under the colour mirror, part 6: the count of legal moves commutes with the
    mirror, for EITHER colour, under [Inv], one king of that colour and an en-passant square on rank 3 or 6;
    [mirror_mobility_statement] as stated (without the en-passant side condition) is FALSE, with the witness;
    BERNSTEIN's evaluation is colour-blind in every legal position, unconditionally. *)
From Coq Require Import NArith ZArith List Bool Lia ZifyBool ZifyNat ZifyN Permutation.
From Morlock.Model Require Import Bits Attacks Move Position Abs Search Fen Engines.
From Morlock.Spec Require Import Chess.
From Morlock.Lemmas Require Import PositionLemmas AttackGeometry1 AttackGeometry3 AttackGeometry_Extra MoveGen2 MoveGen3 MoveGen4 MoveGen7
     EnginesLemmas4 EnginesLemmas5 EnginesLemmas6 EnginesLemmas7 EnginesLemmas8 EnginesLemmas9
     MirrorMobility1 MirrorMobility2 MirrorMobility3 MirrorMobility4 MirrorMobility5.
Import ListNotations.
Open Scope N_scope.

Lemma legal_moves_legalb p c : legal_moves p c = filter (legalb p) (pseudo_legal_moves p c).
Proof. reflexivity. Qed.

Lemma ep_rank_ok_not56 p : ep_rank_ok p -> enpassant p <> 56.
Proof. intros [E|[E|E]] H; rewrite H in E; vm_compute in E; discriminate. Qed.

Lemma filter_map_commute {A} (f g : A -> bool) (h : A -> A) l : (forall x, In x l -> g (h x) = f x) ->
  filter g (map h l) = map h (filter f l).
Proof.
  induction l as [|a l IH]; intros H; [reflexivity|]. cbn [map filter].
  rewrite (H a (or_introl eq_refl)), IH by (intros x Hx; apply H; now right).
  destruct (f a); reflexivity.
Qed.

(** the legal moves of the mirrored position, for the other colour, are a permutation of the mirrored legal moves *)
Theorem legal_moves_mirror_perm : forall p c, Inv p -> (c = 0 \/ c = 1) -> popcount (pget p c King) = 1 -> ep_rank_ok p ->
  Permutation (legal_moves (mirror_pos p) (opponent c)) (map mirror_move (legal_moves p c)).
Proof.
  intros p c HI Hc HK Hep. rewrite !legal_moves_legalb.
  apply (Permutation_trans (Permutation_filter (legalb (mirror_pos p)) _ _
           (pseudo_legal_mirror p c HI Hc HK (ep_rank_ok_not56 p Hep)))).
  apply Permutation_refl'. apply filter_map_commute. intros m Hm.
  exact (pos_move_mirror p c m HI Hc HK (pseudo_legal_shape p c HI Hc Hep m Hm)).
Qed.

(** C20: the strongest true form of [mirror_mobility_statement] *)
Theorem mirror_mobility_ep : forall p c, Inv p -> (c = 0 \/ c = 1) -> popcount (pget p c King) = 1 -> ep_rank_ok p ->
  length (legal_moves (mirror_pos p) (opponent c)) = length (legal_moves p c).
Proof.
  intros p c HI Hc HK Hep. rewrite (Permutation_length (legal_moves_mirror_perm p c HI Hc HK Hep)). apply map_length.
Qed.

(** a legal position has its en-passant square on rank 3 or 6 *)
Lemma wf_ep_rank p turn : WF p turn -> ep_rank_ok p.
Proof.
  intros W. pose proof (wf_ep _ _ W) as H. unfold ep_ok in H. unfold ep_rank_ok.
  destruct (N.eqb_spec (enpassant p) 0) as [E|E]; [now left|right].
  destruct (turn =? White); rewrite !andb_true_iff in H; destruct H as [[[H _] _] _]; apply N.eqb_eq in H; auto.
Qed.

(** in a legal position, for both colours (the side to move and the side not to move) *)
Theorem mirror_mobility_wf : forall p turn c, wf_b p turn = true -> (c = 0 \/ c = 1) ->
  length (legal_moves (mirror_pos p) (opponent c)) = length (legal_moves p c).
Proof.
  intros p turn c Hwf Hc. pose proof (wf_b_WF _ _ Hwf) as W.
  apply mirror_mobility_ep; [exact (wf_inv _ _ W)|exact Hc|exact (wf_kings p turn c W Hc)|exact (wf_ep_rank p turn W)].
Qed.

(* ------------------------------------------------------------------ *)
(** * the statement without the en-passant side condition is false *)

(** white Ka1, Pg7; black Ka8; "en-passant square" h8 = 56 (allowed by [Inv], which only bounds the field):
    White has the bogus capture g7xh8 e.p. in addition to its 7 moves; the mirror maps square 56 to 0 = "none". *)
Definition ep56_pos : position :=
  match new_position [mkPlacement 49 White Pawn; mkPlacement 63 Black King; mkPlacement 7 White King] 0 56 with
  | Some p => p | None => empty_position 0 0 end.

Example ep56_facts :
  (inv_b ep56_pos, popcount (pget ep56_pos White King), popcount (pget ep56_pos Black King),
   length (legal_moves ep56_pos White), length (legal_moves (mirror_pos ep56_pos) Black)) = (true, 1, 1, 8%nat, 7%nat).
Proof. vm_compute. reflexivity. Qed.

Theorem mirror_mobility_statement_false : ~ mirror_mobility_statement.
Proof.
  intros MM. specialize (MM ep56_pos White).
  assert (HI : Inv ep56_pos) by (apply inv_b_iff; vm_compute; reflexivity).
  specialize (MM HI (or_introl eq_refl)). 
  assert (HK : popcount (pget ep56_pos White King) = 1) by (vm_compute; reflexivity).
  specialize (MM HK).
  assert (E1 : length (legal_moves (mirror_pos ep56_pos) (opponent White)) = 7%nat) by (vm_compute; reflexivity).
  assert (E2 : length (legal_moves ep56_pos White) = 8%nat) by (vm_compute; reflexivity).
  rewrite E1, E2 in MM. clear -MM. discriminate MM.
Qed.

(** excluding square 56 alone is not enough: white Kh4, Pf7; black Ka8; "en-passant square" g8 = 57.  [ep_capture]
    removes a pawn on rank 5 unless the target is on rank 3: the bogus capture f7xg8 e.p. toggles a black pawn on g5,
    which checks the king on h4 (move rejected); in the mirror image the toggled white pawn on g5 (not g4) does not
    attack the king on h5 (move accepted). *)
Definition ep57_pos : position :=
  match new_position [mkPlacement 50 White Pawn; mkPlacement 63 Black King; mkPlacement 24 White King] 0 57 with
  | Some p => p | None => empty_position 0 0 end.

Example ep57_facts :
  (inv_b ep57_pos, popcount (pget ep57_pos White King), negb (enpassant ep57_pos =? 56),
   length (legal_moves ep57_pos White), length (legal_moves (mirror_pos ep57_pos) Black)) = (true, 1, true, 9%nat, 10%nat).
Proof. vm_compute. reflexivity. Qed.

(** why the position after a move is followed under the weak invariant only: after 1. e4 e5 (White to move, legal
    position) the legal-move list of BLACK, which BERNSTEIN's mobility term counts, contains the two phantom captures
    d7xe6 e.p. and f7xe6 e.p. (they toggle a white pawn on e5, where a black pawn stands): 31 moves instead of 29.
    The same happens in the mirror image, so colour-blindness is not affected. *)
Definition after_move (p : position) (m : move) : position := match pos_move p m with Some q => q | None => p end.
Definition e4e5_pos : position :=
  after_move (after_move EnginesLemmas4.initial_pos (mkMove Jump 11 27 Pawn NoPiece NoPiece)) (mkMove Jump 51 35 Pawn NoPiece NoPiece).

Example phantom_ep_facts :
  (wf_b e4e5_pos White, enpassant e4e5_pos,
   map (fun m => (mfrom m, mto m)) (filter (fun m => mtype m =? EnPassant) (legal_moves e4e5_pos Black)),
   length (legal_moves e4e5_pos Black), length (legal_moves (mirror_pos e4e5_pos) White),
   length (legal_moves (mkPos (pieces e4e5_pos) (rotated_bb e4e5_pos) (castling e4e5_pos) 0) Black))
  = (true, 43, [(50, 43); (52, 43)], 31%nat, 31%nat, 29%nat).
Proof. vm_compute. reflexivity. Qed.

(** the side condition is exactly what was missing *)
Theorem mirror_mobility_partial :
  (forall p c, Inv p -> (c = 0 \/ c = 1) -> popcount (pget p c King) = 1 -> ep_rank_ok p ->
     length (legal_moves (mirror_pos p) (opponent c)) = length (legal_moves p c)) /\
  (forall p turn c, wf_b p turn = true -> (c = 0 \/ c = 1) ->
     length (legal_moves (mirror_pos p) (opponent c)) = length (legal_moves p c)) /\
  ~ mirror_mobility_statement.
Proof. split; [exact mirror_mobility_ep|]. split; [exact mirror_mobility_wf|exact mirror_mobility_statement_false]. Qed.

(* ------------------------------------------------------------------ *)
(** * BERNSTEIN is colour-blind in every legal position *)

Theorem bernstein_evaluate_colourblind p factor turn c : wf_b p turn = true -> (c = 0 \/ c = 1) ->
  bern_evaluate (mirror_pos p) factor (opponent c) = bern_evaluate p factor c.
Proof.
  intros Hwf Hc. pose proof (wf_b_WF _ _ Hwf) as W. pose proof (wf_inv _ _ W) as HI.
  pose proof (wf_kings p turn c W Hc) as HK.
  destruct (bernstein_terms_colourblind p c HI Hc HK) as [M1 [M2 M3]].
  unfold bern_evaluate, bern_mobility. now rewrite (mirror_mobility_wf p turn c Hwf Hc), M1, M2, M3.
Qed.

Theorem bernstein_colourblind_full : forall p factor turn, wf_b p turn = true -> (turn = 0 \/ turn = 1) ->
  bern_eval (mirror_pos p) factor (opponent turn) = bern_eval p factor turn.
Proof.
  intros p factor turn Hwf Hc.
  pose proof (bernstein_evaluate_colourblind p factor turn turn Hwf Hc) as E1.
  pose proof (bernstein_evaluate_colourblind p factor turn (opponent turn) Hwf (vcol_opponent turn)) as E2.
  rewrite (opponent_invol turn Hc) in E2.
  unfold bern_eval. rewrite (opponent_invol turn Hc). now rewrite E1, E2.
Qed.

(** the mirror statement of EnginesLemmas8, restricted to legal positions (which is all [bernstein_colourblind] uses) *)
Theorem mirror_commutes_wf : forall p turn c, wf_b p turn = true -> (c = 0 \/ c = 1) ->
  length (legal_moves (mirror_pos p) (opponent c)) = length (legal_moves p c) /\
  bern_king_defense (mirror_pos p) (opponent c) = bern_king_defense p c /\
  (forall sq, sq < 64 -> is_attacked (mirror_pos p) (opponent c) (mirror_sq sq) = is_attacked p c sq) /\
  bern_control (mirror_pos p) (opponent c) = bern_control p c.
Proof.
  intros p turn c Hwf Hc. pose proof (wf_b_WF _ _ Hwf) as W. pose proof (wf_inv _ _ W) as HI.
  pose proof (wf_kings p turn c W Hc) as HK.
  split; [now apply (mirror_mobility_wf p turn c)|]. split; [now apply bern_king_defense_mirror|].
  split; [intros sq Hs; now apply is_attacked_mirror|now apply bern_control_mirror].
Qed.

Print Assumptions legal_moves_mirror_perm.
Print Assumptions mirror_mobility_ep.
Print Assumptions mirror_mobility_wf.
Print Assumptions mirror_mobility_statement_false.
Print Assumptions mirror_mobility_partial.
Print Assumptions bernstein_colourblind_full.
