(** C15, reporting part: the iteration loop (UciSeq.iterate = handle.process for a run that is never
    halted) reports depth d, d+1, d+2, ... in order; each entry is exactly what the direct fixed-depth
    search returns at that depth on the threaded board and table; the run ends exactly at the depth
    limit or at the first depth whose score carries a forced mate within that depth. *)
From Coq Require Import NArith ZArith List Bool Lia.
From Morlock.Model Require Import Bits Score Attacks Move Position Zobrist Board Search TT SearchBoard UciSeq.
Import ListNotations.

Section Iter.
  Variable z : ztable.
  Variable use_q : bool.
  Variable qfuel : nat.

  Definition direct (g : gboard) (t : ttv) (depth : nat) :=
    search_board z full_exploration captures_only material (fun _ => false) use_q qfuel g t [] depth neginf_score inf_score.

  (** does the run stop after the iteration at [depth] that returned [sc]? *)
  Definition stops (limit : option nat) (depth : nat) (sc : score) : bool :=
    (match limit with Some l => Nat.eqb depth l | None => false end) ||
    (let (md, ok) := mate_distance sc in ok && (md <=? Z.of_nat depth)%Z).

  (** the reported stream as a relation: entries are direct searches on the threaded state *)
  Inductive stream : nat -> option nat -> gboard -> ttv -> list pvinfo -> gboard -> ttv -> bool -> Prop :=
  | stream_out : forall d limit g t, stream d limit g t [] g t false              (* fuel ran out *)
  | stream_stop : forall d limit g t st nodes sc pv halted,
      direct g t d = (st, nodes, sc, pv, halted) -> stops limit d sc = true ->
      stream d limit g t [(d, nodes, sc, pv)] (s_g _ _ st) (s_tt _ _ st) true
  | stream_next : forall d limit g t st nodes sc pv halted rest g' t' fin,
      direct g t d = (st, nodes, sc, pv, halted) -> stops limit d sc = false ->
      stream (S d) limit (s_g _ _ st) (s_tt _ _ st) rest g' t' fin ->
      stream d limit g t ((d, nodes, sc, pv) :: rest) g' t' fin.

  Lemma iterate_stream : forall fuel d limit g t acc acc' g' t',
    iterate z use_q qfuel fuel d limit g t acc = (acc', g', t') ->
    exists new fin, acc' = acc ++ new /\ stream d limit g t new g' t' fin.
  Proof.
    induction fuel as [|f IH]; intros d limit g t acc acc' g' t' H; cbn [iterate] in H.
    - injection H as <- <- <-. exists [], false. split; [now rewrite app_nil_r|constructor].
    - fold (direct g t d) in H.
      destruct (direct g t d) as [[[[st nodes] sc] pv] halted] eqn:E.
      assert (Hs : stops limit d sc =
                   (match limit with Some l => Nat.eqb d l | None => false end) ||
                   (let (md, ok) := mate_distance sc in ok && (md <=? Z.of_nat d)%Z)) by reflexivity.
      destruct (match limit with Some l => Nat.eqb d l | None => false end) eqn:El.
      + injection H as <- <- <-. exists [(d, nodes, sc, pv)], true. split; [reflexivity|].
        eapply stream_stop; [exact E|]. rewrite Hs. reflexivity.
      + destruct (mate_distance sc) as [md ok] eqn:Em.
        destruct (ok && (md <=? Z.of_nat d)%Z) eqn:Eo.
        * injection H as <- <- <-. exists [(d, nodes, sc, pv)], true. split; [reflexivity|].
          eapply stream_stop; [exact E|]. rewrite Hs. cbn [orb]; first [reflexivity | exact Eo].
        * apply IH in H. destruct H as [new [fin [Hacc Hst]]].
          exists ((d, nodes, sc, pv) :: new), fin. split.
          -- rewrite Hacc. rewrite <- app_assoc. reflexivity.
          -- eapply stream_next; [exact E| |exact Hst]. rewrite Hs. cbn [orb]; first [reflexivity | exact Eo].
  Qed.

  (** depths are reported in increasing order without gaps *)
  Lemma stream_depths : forall d limit g t l g' t' fin, stream d limit g t l g' t' fin ->
    map (fun i : pvinfo => fst (fst (fst i))) l = seq d (length l).
  Proof.
    intros d limit g t l g' t' fin H. induction H as [| |d limit g t st nodes sc pv halted rest g' t' fin E Hs Hr IHr].
    - reflexivity.
    - reflexivity.
    - cbn [map length seq fst]. f_equal. exact IHr.
  Qed.

  (** with a depth limit and enough fuel the run ends by itself, at the limit or at a forced mate *)
  Lemma stream_finishes : forall fuel d l g t acc acc' g' t',
    (d <= l)%nat -> (l - d < fuel)%nat ->
    iterate z use_q qfuel fuel d (Some l) g t acc = (acc', g', t') ->
    exists new, acc' = acc ++ new /\ stream d (Some l) g t new g' t' true.
  Proof.
    induction fuel as [|f IH]; intros d l g t acc acc' g' t' Hd Hf H; [lia|].
    cbn [iterate] in H. fold (direct g t d) in H.
    destruct (direct g t d) as [[[[st nodes] sc] pv] halted] eqn:E.
    destruct (Nat.eqb d l) eqn:El.
    - injection H as <- <- <-. exists [(d, nodes, sc, pv)]. split; [reflexivity|].
      eapply stream_stop; [exact E|]. unfold stops. rewrite El. reflexivity.
    - apply PeanoNat.Nat.eqb_neq in El.
      destruct (mate_distance sc) as [md ok] eqn:Em.
      destruct (ok && (md <=? Z.of_nat d)%Z) eqn:Eo.
      + injection H as <- <- <-. exists [(d, nodes, sc, pv)]. split; [reflexivity|].
        eapply stream_stop; [exact E|]. unfold stops. rewrite Em.
        destruct (Nat.eqb d l); cbn [orb]; first [reflexivity | exact Eo].
      + apply IH in H; [|lia|lia]. destruct H as [new [Hacc Hst]].
        exists ((d, nodes, sc, pv) :: new). split.
        * rewrite Hacc, <- app_assoc. reflexivity.
        * eapply stream_next; [exact E| |exact Hst]. unfold stops. rewrite Em.
          assert (Nat.eqb d l = false) by (apply PeanoNat.Nat.eqb_neq; exact El). rewrite H. cbn [orb]; first [reflexivity | exact Eo].
  Qed.

  Lemma stream_len : forall d lim g t new g' t' fin, stream d lim g t new g' t' fin ->
    forall l, lim = Some l -> (d <= l)%nat -> (length new <= S l - d)%nat.
  Proof.
    intros d lim g t new g' t' fin H.
    induction H as [| d limit g t st nodes sc pv halted E Hs | d limit g t st nodes sc pv halted rest g' t' fin E Hs Hr IHr];
      intros l Hl Hd.
    - cbn [length]; lia.
    - cbn [length]; lia.
    - subst limit. cbn [length].
      assert (d <> l).
      { intro; subst d. unfold stops in Hs. rewrite PeanoNat.Nat.eqb_refl in Hs. discriminate Hs. }
      specialize (IHr l eq_refl ltac:(lia)). lia.
  Qed.

  (** C15: for a depth limit l >= 1 the analysis reports depths 1, 2, ... in order, each entry being the
      direct fixed-depth search on the threaded state, and ends by itself at the limit or at the first
      depth with a forced mate within the depth - at most l iterations. *)
  Theorem iterate_reports : forall l g t,
    (1 <= l)%nat ->
    exists new g' t', iterate z use_q qfuel (S l) 1 (Some l) g t [] = (new, g', t') /\
      stream 1 (Some l) g t new g' t' true /\
      map (fun i : pvinfo => fst (fst (fst i))) new = seq 1 (length new) /\ (length new <= l)%nat.
  Proof.
    intros l g t Hl.
    destruct (iterate z use_q qfuel (S l) 1 (Some l) g t []) as [[new g'] t'] eqn:E.
    destruct (stream_finishes (S l) 1 l g t [] new g' t' Hl ltac:(lia) E) as [new' [Hacc Hst]].
    cbn [app] in Hacc. subst new'.
    exists new, g', t'. split; [reflexivity|]. split; [exact Hst|].
    split; [exact (stream_depths _ _ _ _ _ _ _ _ Hst)|].
    pose proof (stream_len _ _ _ _ _ _ _ _ Hst l eq_refl Hl). lia.
  Qed.
End Iter.
Print Assumptions iterate_reports.
