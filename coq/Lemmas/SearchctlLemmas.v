(** C15, time-control part: the hard limit granted to a move never exceeds the time left on the clock. *)
From Coq Require Import ZArith Bool Lia.
From Morlock.Model Require Import Searchctl.
Open Scope Z_scope.

Lemma wrap64_small z : -9223372036854775808 <= z <= 9223372036854775807 -> wrap64 z = z.
Proof. intros H. unfold wrap64. rewrite Z.mod_small by lia. lia. Qed.

(** for a clock value that fits a Duration and EVERY moves-to-go value (an int: negative, zero, up to
    2^63 - 1): the divisor is never 0 (no panic) and the hard limit never exceeds the clock *)
Theorem limits_hard_le_clock : forall white black moves c,
  0 <= white <= 9223372036854775807 -> 0 <= black <= 9223372036854775807 ->
  let '(soft, hard) := limits white black moves c in
  let remaining := if c =? 1 then black else white in
  0 <= soft /\ soft <= hard /\ hard <= remaining.
Proof.
  intros white black moves c Hw Hb. unfold limits.
  set (remaining := if c =? 1 then black else white).
  assert (Hr : 0 <= remaining <= 9223372036854775807) by (unfold remaining; destruct (c =? 1); lia).
  set (mv := if 0 <? moves then Z.min moves max_moves_to_go + 1 else 40).
  assert (Hmv : 2 <= mv <= 2147483648).
  { unfold mv, max_moves_to_go. destruct (0 <? moves) eqn:E; [apply Z.ltb_lt in E; lia|lia]. }
  rewrite (wrap64_small (2 * mv)) by lia.
  set (soft := Z.quot remaining (2 * mv)).
  assert (Hs : 0 <= soft /\ 2 * mv * soft <= remaining).
  { unfold soft. rewrite Z.quot_div_nonneg by lia. split; [apply Z.div_pos; lia|apply Z.mul_div_le; lia]. }
  destruct Hs as [Hs0 Hs1].
  assert (Hs2 : 4 * soft <= remaining) by nia.
  rewrite (wrap64_small (3 * soft)) by lia.
  repeat split; lia.
Qed.
Print Assumptions limits_hard_le_clock.

(** the divisor of the soft limit is at least 4 for every input: Limits cannot divide by zero *)
Lemma limits_divisor_pos : forall moves,
  4 <= wrap64 (2 * (if 0 <? moves then Z.min moves max_moves_to_go + 1 else 40)) <= 2097154.
Proof.
  intros moves. unfold max_moves_to_go. destruct (0 <? moves) eqn:E.
  - apply Z.ltb_lt in E. rewrite wrap64_small by lia. lia.
  - rewrite wrap64_small by lia. lia.
Qed.

(** before the cap (the code as found): moves-to-go 2^63 - 1 makes the divisor 2 * wrap64 (2^63) = 0 *)
Example limits_legacy_divisor_zero : wrap64 (2 * wrap64 (9223372036854775807 + 1)) = 0.
Proof. reflexivity. Qed.

(** the bound on moves matters only through overflow; with a negative clock the hard limit is 0 or negative
    and can exceed it (outside the property: "time left on the clock") *)
Example limits_negative_clock : limits (-1) 0 0 0 = (0, 0).
Proof. reflexivity. Qed.
Example limits_example : limits 60000000000 0 0 0 = (750000000, 2250000000).
Proof. reflexivity. Qed.

(** * From the numbers on the go line to the limits (uci.go + timectrl.go) *)

Lemma wrap64_range z : -9223372036854775808 <= wrap64 z <= 9223372036854775807.
Proof. unfold wrap64. pose proof (Z.mod_pos_bound (z + 9223372036854775808) 18446744073709551616 ltac:(lia)). lia. Qed.

Lemma wrap64_le_nonneg z : 0 <= z -> wrap64 z <= z.
Proof.
  intros H. unfold wrap64.
  pose proof (Z.mod_le (z + 9223372036854775808) 18446744073709551616 ltac:(lia) ltac:(lia)). lia.
Qed.

(** every clock value the driver accepts (strconv.Atoi: 0 .. 2^63 - 1 milliseconds; the product with
    10^6 may wrap) and every moves-to-go value: the divisor is positive and the hard limit, as a number of
    nanoseconds, never exceeds the TRUE time on the clock (10^6 * ms), wrapped Duration or not *)
Theorem go_limits_hard_le_clock : forall wms bms moves c,
  0 <= wms <= 9223372036854775807 -> 0 <= bms <= 9223372036854775807 ->
  let '(soft, hard) := go_limits wms bms moves c in
  let remaining_ms := if c =? 1 then bms else wms in
  soft <= 1000000 * remaining_ms /\ hard <= 1000000 * remaining_ms.
Proof.
  intros wms bms moves c Hw Hb. unfold go_limits, limits.
  set (rms := if c =? 1 then bms else wms).
  assert (Hrms : 0 <= rms <= 9223372036854775807) by (unfold rms; destruct (c =? 1); lia).
  replace (if c =? 1 then go_duration bms else go_duration wms) with (go_duration rms)
    by (unfold rms; destruct (c =? 1); reflexivity).
  set (mv := if 0 <? moves then Z.min moves max_moves_to_go + 1 else 40).
  assert (Hmv : 2 <= mv <= 2147483648).
  { unfold mv, max_moves_to_go. destruct (0 <? moves) eqn:E; [apply Z.ltb_lt in E; lia|lia]. }
  rewrite (wrap64_small (2 * mv)) by lia.
  pose proof (wrap64_range (1000000 * rms)) as Hrange.
  pose proof (wrap64_le_nonneg (1000000 * rms) ltac:(lia)) as Hle.
  fold (go_duration rms) in Hrange, Hle.
  set (r := go_duration rms) in *.
  set (soft := Z.quot r (2 * mv)).
  destruct (Z_le_gt_dec 0 r) as [Hr|Hr].
  - assert (Hs : 0 <= soft /\ 2 * mv * soft <= r).
    { unfold soft. rewrite Z.quot_div_nonneg by lia. split; [apply Z.div_pos; lia|apply Z.mul_div_le; lia]. }
    destruct Hs as [Hs0 Hs1].
    assert (Hs2 : 4 * soft <= r) by nia.
    rewrite (wrap64_small (3 * soft)) by lia. split; lia.
  - (* the product wrapped to a negative Duration: soft and hard are <= 0, the timer fires at once *)
    assert (Hs : soft <= 0 /\ r <= 2 * mv * soft).
    { assert (Hq : soft = - ((- r) / (2 * mv))).
      { unfold soft. replace r with (- (- r)) at 1 by lia. rewrite Z.quot_opp_l by lia.
        rewrite Z.quot_div_nonneg by lia. reflexivity. }
      pose proof (Z.div_pos (- r) (2 * mv) ltac:(lia) ltac:(lia)) as Hp.
      pose proof (Z.mul_div_le (- r) (2 * mv) ltac:(lia)) as Hm.
      set (q := (- r) / (2 * mv)) in *. split; [lia|]. rewrite Hq. nia. }
    destruct Hs as [Hs0 Hs1].
    assert (Hs2 : r <= 4 * soft) by nia.
    rewrite (wrap64_small (3 * soft)) by lia. split; lia.
Qed.
Print Assumptions go_limits_hard_le_clock.

(** clocks up to 9223372036854 ms (292 years) do not wrap: then [go_limits] is [limits] on the exact
    number of nanoseconds and [limits_hard_le_clock] applies as it stands *)
Lemma go_duration_exact ms : 0 <= ms <= 9223372036854 -> go_duration ms = 1000000 * ms.
Proof. intros H. unfold go_duration. apply wrap64_small. lia. Qed.

Theorem go_limits_exact : forall wms bms moves c,
  0 <= wms <= 9223372036854 -> 0 <= bms <= 9223372036854 ->
  let '(soft, hard) := go_limits wms bms moves c in
  let remaining_ms := if c =? 1 then bms else wms in
  0 <= soft /\ soft <= hard /\ hard <= 1000000 * remaining_ms.
Proof.
  intros wms bms moves c Hw Hb. unfold go_limits. rewrite !go_duration_exact by assumption.
  pose proof (limits_hard_le_clock (1000000 * wms) (1000000 * bms) moves c ltac:(lia) ltac:(lia)) as H.
  destruct (limits (1000000 * wms) (1000000 * bms) moves c) as [soft hard].
  destruct (c =? 1); exact H.
Qed.

(** what the wrap does (not a violation of the clause: the limit only gets shorter): the first clock value
    that wraps gives a negative Duration - the hard timer fires at once and the search is halted after
    depth 1 - and 18446744073710 ms wraps to 448 384 ns *)
Example go_duration_wraps : go_duration 9223372036855 = -9223372036854551616
  /\ go_limits 9223372036855 0 0 0 = (-115292150460681895, -345876451382045685)
  /\ go_limits 18446744073710 0 0 0 = (5604, 16812).
Proof. repeat split; reflexivity. Qed.

(** a negative number on the go line (a GUI reporting a flag that has already fallen) is accepted by
    Atoi; "time left on the clock" is then not a time and the hard limit -37500 ns exceeds -1 ms (both are in the
    past: the timer fires at once) - outside the clause *)
Example go_limits_negative_clock : go_limits (-1) 0 0 0 = (-12500, -37500).
Proof. reflexivity. Qed.
