(** C15, time-control part: the hard limit granted to a move never exceeds the time left on the clock. *)
From Coq Require Import ZArith Bool Lia.
From Morlock.Model Require Import Searchctl.
Open Scope Z_scope.

Lemma wrap64_small z : -9223372036854775808 <= z <= 9223372036854775807 -> wrap64 z = z.
Proof. intros H. unfold wrap64. rewrite Z.mod_small by lia. lia. Qed.

(** for a clock value that fits a Duration and EVERY moves-to-go value (an int: negative, zero, up to
    2^63 - 1): the divisor is never 0 (no panic) and the hard limit never exceeds the clock *)
Theorem limits_hard_le_clock : forall white black moves c,
  0 <= white <= 9223372036854775807 -> 0 <= black <= 9223372036854775807 ->
  let '(soft, hard) := limits white black moves c in
  let remaining := if c =? 1 then black else white in
  0 <= soft /\ soft <= hard /\ hard <= remaining.
Proof.
  intros white black moves c Hw Hb. unfold limits.
  set (remaining := if c =? 1 then black else white).
  assert (Hr : 0 <= remaining <= 9223372036854775807) by (unfold remaining; destruct (c =? 1); lia).
  set (mv := if 0 <? moves then Z.min moves max_moves_to_go + 1 else 40).
  assert (Hmv : 2 <= mv <= 2147483648).
  { unfold mv, max_moves_to_go. destruct (0 <? moves) eqn:E; [apply Z.ltb_lt in E; lia|lia]. }
  rewrite (wrap64_small (2 * mv)) by lia.
  set (soft := Z.quot remaining (2 * mv)).
  assert (Hs : 0 <= soft /\ 2 * mv * soft <= remaining).
  { unfold soft. rewrite Z.quot_div_nonneg by lia. split; [apply Z.div_pos; lia|apply Z.mul_div_le; lia]. }
  destruct Hs as [Hs0 Hs1].
  assert (Hs2 : 4 * soft <= remaining) by nia.
  rewrite (wrap64_small (3 * soft)) by lia.
  repeat split; lia.
Qed.
Print Assumptions limits_hard_le_clock.

(** the divisor of the soft limit is at least 4 for every input: Limits cannot divide by zero *)
Lemma limits_divisor_pos : forall moves,
  4 <= wrap64 (2 * (if 0 <? moves then Z.min moves max_moves_to_go + 1 else 40)) <= 2097154.
Proof.
  intros moves. unfold max_moves_to_go. destruct (0 <? moves) eqn:E.
  - apply Z.ltb_lt in E. rewrite wrap64_small by lia. lia.
  - rewrite wrap64_small by lia. lia.
Qed.

(** before the cap (the code as found): moves-to-go 2^63 - 1 makes the divisor 2 * wrap64 (2^63) = 0 *)
Example limits_legacy_divisor_zero : wrap64 (2 * wrap64 (9223372036854775807 + 1)) = 0.
Proof. reflexivity. Qed.

(** the bound on moves matters only through overflow; with a negative clock the hard limit is 0 or negative
    and can exceed it (outside the property: "time left on the clock") *)
Example limits_negative_clock : limits (-1) 0 0 0 = (0, 0).
Proof. reflexivity. Qed.
Example limits_example : limits 60000000000 0 0 0 = (750000000, 2250000000).
Proof. reflexivity. Qed.
