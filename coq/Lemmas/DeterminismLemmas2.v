(** C18, part 2: the relation between two boards that carry the same game under two Zobrist key tables, on
    the list view [aboard] of BoardHeap1.

    [nohash a]: everything a board holds except the hashes and the repetition map keyed by them: the history
    (positions and clocks), the [next] moves, side to move, castled flags, ply, move number, result.
    [AInv z a] (GameLemmas4): the history is a legal game from a legal start, every entry carries
    [zhash z (its position) (its side)], and the repetition map counts the entries per hash.

    [apush_zrel]: for [AInv z1 a1], [AInv z2 a2], [nohash a1 = nohash a2] and a pseudo-legal move, the two
    pushes are accepted or refused together and the successors again satisfy the three facts - in particular
    the RESULT field is the same: both equal [result_after (g_now (g_play g m)) old] for the same
    specification game [g] ([apush_step]); a hash collision in one table can make the repetition pre-filter
    fire on one side only, but then the exact recount finds fewer than three occurrences on that side.
    [apop_zrel], [aadj_zrel], [aset_result_zrel] likewise. *)
From Coq Require Import NArith ZArith List Bool Lia ZifyBool ZifyNat ZifyN.
From Morlock.Model Require Import Bits Attacks Move Position Abs Zobrist Board.
From Morlock.Spec Require Import Chess Game.
From Morlock.Lemmas Require Import PositionLemmas BoardHeap1 BoardHeap2 GameLemmas2 GameLemmas3 GameLemmas4 GameLemmas5.
Import ListNotations.
Open Scope N_scope.

(** * the hash-free content of a board *)
Definition strip (d : list entry) : list (position * N) := map (fun e => (epos e, eclk e)) d.

Definition nohash (a : aboard) :=
  (strip (a_data a), a_nexts a, a_turn a, a_cw a, a_cb a, a_ply a, a_moves a, a_result a).

Lemma nohash_fields a a' : nohash a = nohash a' ->
  strip (a_data a) = strip (a_data a') /\ a_nexts a = a_nexts a' /\ a_turn a = a_turn a' /\
  a_cw a = a_cw a' /\ a_cb a = a_cb a' /\ a_ply a = a_ply a' /\ a_moves a = a_moves a' /\
  a_result a = a_result a'.
Proof. unfold nohash. intros H. inversion H. auto 10. Qed.

Lemma nohash_intro a a' :
  strip (a_data a) = strip (a_data a') -> a_nexts a = a_nexts a' -> a_turn a = a_turn a' ->
  a_cw a = a_cw a' -> a_cb a = a_cb a' -> a_ply a = a_ply a' -> a_moves a = a_moves a' ->
  a_result a = a_result a' -> nohash a = nohash a'.
Proof. unfold nohash. intros -> -> -> -> -> -> -> ->. reflexivity. Qed.

(** the head of the stripped history *)
Definition dummy_sd : position * N := (fst (fst dummy_data), snd dummy_data).
Definition sd_pos (s : list (position * N)) : position := fst (hd dummy_sd s).
Definition sd_clk (s : list (position * N)) : N := snd (hd dummy_sd s).

Lemma a_position_strip a : a_position a = sd_pos (strip (a_data a)).
Proof. unfold a_position, sd_pos. destruct (a_data a) as [|e r]; reflexivity. Qed.
Lemma a_noprogress_strip a : a_noprogress a = sd_clk (strip (a_data a)).
Proof. unfold a_noprogress, sd_clk. destruct (a_data a) as [|e r]; reflexivity. Qed.

Lemma states_strip : forall d1 d2 t, strip d1 = strip d2 -> states d1 t = states d2 t.
Proof.
  induction d1 as [|e1 r1 IH]; intros [|e2 r2] t H; cbn in H; try discriminate; [reflexivity|].
  inversion H as [[Ep Ec Er]]. cbn [states]. rewrite Ep. f_equal. apply IH. exact Er.
Qed.

(** the specification game a board stands in (the two fields the refinement relation leaves free are fixed
    arbitrarily) *)
Definition gspec (a : aboard) : gstate :=
  match states (a_data a) (a_turn a) with
  | s :: past => mkG (fst s) (snd s) (Z.of_N (a_noprogress a)) (a_moves a) past true []
  | [] => g_start (abs_pos (a_position a)) (color_of (a_turn a)) 0 0
  end.

Lemma ARel_gspec z a : AInv z a -> ARel a (gspec a).
Proof.
  intros [Hh _]. pose proof (hist_nonempty z _ _ Hh) as Hne.
  pose proof (hist_clk_le z _ _ Hh 0%nat) as Hle.
  unfold ARel, gspec, a_noprogress. destruct (a_data a) as [|e r] eqn:E; [contradiction|].
  cbn [states]. cbn [g_pos g_turn g_past g_clock g_fullmove fst snd hd].
  split; [reflexivity|]. split; [|reflexivity].
  apply clk_rel_start. exact (Hle e eq_refl).
Qed.

Lemma gspec_nohash a a' : nohash a = nohash a' -> gspec a = gspec a'.
Proof.
  intros H. destruct (nohash_fields _ _ H) as (Hd & _ & Ht & _ & _ & _ & Hm & _).
  unfold gspec. rewrite (states_strip _ _ (a_turn a) Hd), Ht, Hm, !a_position_strip, !a_noprogress_strip, Hd.
  reflexivity.
Qed.

(** * one push, spelled out field by field *)
Lemma apush_true z a m a' : apush z a m = (a', true) ->
  exists next, pos_move (a_position a) m = Some next /\ blocked (a_result a) = false /\
    strip (a_data a') = (next, update_noprogress (a_noprogress a) m) :: strip (a_data a) /\
    a_nexts a' = m :: a_nexts a /\ a_turn a' = opponent (a_turn a) /\
    a_cw a' = (if is_castle m && (a_turn a =? White) then true else a_cw a) /\
    a_cb a' = (if is_castle m && negb (a_turn a =? White) then true else a_cb a) /\
    a_ply a' = (a_ply a + 1)%Z /\
    a_moves a' = (if opponent (a_turn a) =? White then (a_moves a + 1)%Z else a_moves a).
Proof.
  unfold apush, apush_with. destruct (blocked (a_result a)); [discriminate|].
  destruct (pos_move (a_position a) m) as [next|]; [|discriminate].
  intros H. injection H as <-. exists next. cbn. auto 12.
Qed.

Lemma apush_false z a m a' : apush z a m = (a', false) -> a' = a.
Proof.
  unfold apush, apush_with. destruct (blocked (a_result a)); [intros H; now injection H|].
  destruct (pos_move (a_position a) m) as [next|]; [discriminate|intros H; now injection H].
Qed.

Lemma apush_ok z a m :
  snd (apush z a m) = negb (blocked (a_result a)) && match pos_move (a_position a) m with Some _ => true | None => false end.
Proof.
  unfold apush, apush_with. destruct (blocked (a_result a)); [reflexivity|].
  destruct (pos_move (a_position a) m); reflexivity.
Qed.

Section Two.
Variables z1 z2 : ztable.
Hypothesis Hz1 : zt_ok z1.
Hypothesis Hz2 : zt_ok z2.

(** ** push *)
Theorem apush_zrel a1 a2 m a1' ok1 a2' ok2 :
  AInv z1 a1 -> AInv z2 a2 -> nohash a1 = nohash a2 ->
  In m (pseudo_legal_moves (a_position a1) (a_turn a1)) ->
  apush z1 a1 m = (a1', ok1) -> apush z2 a2 m = (a2', ok2) ->
  ok1 = ok2 /\ nohash a1' = nohash a2' /\ AInv z1 a1' /\ AInv z2 a2' /\
  (ok1 = false -> a1' = a1 /\ a2' = a2) /\
  (ok1 = true ->
     strip (a_data a1') = (sd_pos (strip (a_data a1')), sd_clk (strip (a_data a1'))) :: strip (a_data a1) /\
     a_turn a1' = opponent (a_turn a1)).
Proof.
  intros HI1 HI2 Hnh Hin E1 E2.
  destruct (nohash_fields _ _ Hnh) as (Hd & Hn & Ht & Hcw & Hcb & Hply & Hmv & Hres).
  assert (Hpos : a_position a1 = a_position a2) by (rewrite !a_position_strip, Hd; reflexivity).
  assert (Hclk : a_noprogress a1 = a_noprogress a2) by (rewrite !a_noprogress_strip, Hd; reflexivity).
  assert (Hok : ok1 = ok2).
  { change ok1 with (snd (a1', ok1)). change ok2 with (snd (a2', ok2)). rewrite <- E1, <- E2, !apush_ok.
    rewrite Hres, Hpos. reflexivity. }
  subst ok2. split; [reflexivity|].
  destruct ok1.
  - assert (Hne1 : a_data a1 <> []) by (apply (hist_nonempty z1 _ _ (proj1 HI1))).
    assert (Hne2 : a_data a2 <> []) by (apply (hist_nonempty z2 _ _ (proj1 HI2))).
    assert (Hin2 : In m (pseudo_legal_moves (a_position a2) (a_turn a2))) by (rewrite <- Hpos, <- Ht; exact Hin).
    destruct (apush_step z1 Hz1 potential potential_step a1 (gspec a1) m a1' HI1 (ARel_gspec z1 a1 HI1) Hin E1)
      as (HI1' & _ & R1 & _).
    destruct (apush_step z2 Hz2 potential potential_step a2 (gspec a2) m a2' HI2 (ARel_gspec z2 a2 HI2) Hin2 E2)
      as (HI2' & _ & R2 & _).
    destruct (apush_true _ _ _ _ E1) as (n1 & P1 & _ & D1 & N1 & T1 & CW1 & CB1 & PL1 & MV1).
    destruct (apush_true _ _ _ _ E2) as (n2 & P2 & _ & D2 & N2 & T2 & CW2 & CB2 & PL2 & MV2).
    assert (n1 = n2) by (rewrite Hpos in P1; congruence). subst n2.
    split; [|split; [exact HI1'|split; [exact HI2'|split; [discriminate|]]]].
    + apply nohash_intro.
      * rewrite D1, D2, Hclk, Hd. reflexivity.
      * rewrite N1, N2, Hn. reflexivity.
      * rewrite T1, T2, Ht. reflexivity.
      * rewrite CW1, CW2, Ht, Hcw. reflexivity.
      * rewrite CB1, CB2, Ht, Hcb. reflexivity.
      * rewrite PL1, PL2, Hply. reflexivity.
      * rewrite MV1, MV2, Ht, Hmv. reflexivity.
      * rewrite R1, R2, Hres, (gspec_nohash _ _ Hnh). reflexivity.
    + intros _. split; [|exact T1]. rewrite D1. reflexivity.
  - apply apush_false in E1. apply apush_false in E2. subst a1' a2'.
    split; [exact Hnh|]. split; [exact HI1|]. split; [exact HI2|]. split; [auto|discriminate].
Qed.

(** ** pop *)
Lemma hist_tl z d t e e' r : hist z d t -> d = e :: e' :: r -> hist z (e' :: r) (opponent t).
Proof.
  intros H E. destruct H as [p t np Hwf Ht | p hs n d t m p' H Hin Hmv]; [discriminate|].
  inversion E; subst. destruct (hist_head z _ _ H) as [Ht _]. rewrite (opp_opp t Ht). exact H.
Qed.

(** a view of a heap board has one recorded move per entry below the head *)
Definition shaped (a : aboard) : Prop := length (a_nexts a) = pred (length (a_data a)).

Lemma AInv_apop z a : shaped a -> AInv z a -> AInv z (fst (fst (apop a))).
Proof.
  intros Hs [Hh Hr]. unfold apop, shaped in *. destruct (a_nexts a) as [|m nx]; [split; assumption|].
  cbn [fst]. unfold AInv. cbn [a_data a_turn a_reps].
  destruct (a_data a) as [|e [|e' r]] eqn:Ed; cbn [length pred] in Hs; try discriminate.
  cbn [tl]. split.
  - exact (hist_tl z _ _ e e' r Hh eq_refl).
  - intros k. rewrite rep_get_set. unfold a_hash. rewrite Ed. cbn [hd].
    pose proof (Hr k) as Hk. pose proof (Hr (snd (fst e))) as Hk0.
    unfold count_hash in *. cbn [filter] in Hk, Hk0 |- *. unfold ehash at 1 in Hk. unfold ehash at 1 in Hk0.
    rewrite N.eqb_refl in Hk0.
    destruct (snd (fst e) =? k) eqn:Ek.
    + apply N.eqb_eq in Ek. subst k. cbn [length] in Hk0. lia.
    + exact Hk.
Qed.

Theorem apop_zrel a1 a2 :
  shaped a1 -> shaped a2 -> AInv z1 a1 -> AInv z2 a2 -> nohash a1 = nohash a2 ->
  let r1 := apop a1 in let r2 := apop a2 in
  snd (fst r1) = snd (fst r2) /\ snd r1 = snd r2 /\
  nohash (fst (fst r1)) = nohash (fst (fst r2)) /\ AInv z1 (fst (fst r1)) /\ AInv z2 (fst (fst r2)) /\
  (forall e d, strip (a_data a1) = e :: d -> d <> [] ->
     strip (a_data (fst (fst r1))) = d /\ a_turn (fst (fst r1)) = opponent (a_turn a1)).
Proof.
  intros S1 S2 HI1 HI2 Hnh. cbv zeta.
  destruct (nohash_fields _ _ Hnh) as (Hd & Hn & Ht & Hcw & Hcb & Hply & Hmv & Hres).
  pose proof (AInv_apop z1 a1 S1 HI1) as K1. pose proof (AInv_apop z2 a2 S2 HI2) as K2.
  unfold apop in *. unfold shaped in S1, S2. rewrite <- Hn in *.
  destruct (a_nexts a1) as [|m nx].
  - cbn [fst snd] in *. split; [reflexivity|]. split; [reflexivity|]. split; [exact Hnh|].
    split; [exact K1|]. split; [exact K2|].
    intros e d E Hne. exfalso. unfold strip in E. destruct (a_data a1) as [|x [|y r]]; cbn in E, S1; try discriminate.
    inversion E; subst d. contradiction.
  - cbn [fst snd] in *. split; [reflexivity|]. split; [reflexivity|]. split; [|split; [exact K1|split; [exact K2|]]].
    + apply nohash_intro; cbn [a_data a_nexts a_turn a_cw a_cb a_ply a_moves a_result]; try congruence.
      * unfold strip in *. destruct (a_data a1) as [|x r], (a_data a2) as [|y r']; cbn in Hd |- *; try discriminate; congruence.
      * rewrite Ht, Hcw. reflexivity.
      * rewrite Ht, Hcb. reflexivity.
      * rewrite Ht, Hmv. reflexivity.
    + intros e d E Hne. cbn [a_data a_turn]. split; [|reflexivity].
      unfold strip in *. destruct (a_data a1) as [|x r]; cbn in E |- *; [discriminate|]. congruence.
Qed.

(** ** adjudication *)
Lemma AInv_set_result z a r : AInv z a -> AInv z (aset_result a r).
Proof. intros H. exact H. Qed.

Lemma aset_result_nohash a a' r r' : nohash a = nohash a' -> r = r' -> nohash (aset_result a r) = nohash (aset_result a' r').
Proof.
  intros H ->. destruct (nohash_fields _ _ H) as (Hd & Hn & Ht & Hcw & Hcb & Hply & Hmv & _).
  apply nohash_intro; cbn [aset_result a_data a_nexts a_turn a_cw a_cb a_ply a_moves a_result]; congruence.
Qed.

Theorem aadj_zrel a1 a2 : nohash a1 = nohash a2 ->
  snd (aadj_nlm a1) = snd (aadj_nlm a2) /\ nohash (fst (aadj_nlm a1)) = nohash (fst (aadj_nlm a2)).
Proof.
  intros H. destruct (nohash_fields _ _ H) as (Hd & _ & Ht & _).
  unfold aadj_nlm. cbn [fst snd]. rewrite !a_position_strip, Hd, Ht. split; [reflexivity|].
  apply aset_result_nohash; [exact H|reflexivity].
Qed.

End Two.
