(** MirrorMobility3 — C20, mobility under the colour mirror, part 3: the legality test [pos_move] commutes with the
    mirror for every move of the shape the generator emits ([shape]), under [Inv] and one king of the moving
    colour.  The position after the move is only followed under the weak invariant (MirrorMobility2), so the
    phantom en-passant captures of the side not to move are covered. *)
From Coq Require Import NArith ZArith List Bool Lia ZifyBool ZifyNat ZifyN Permutation.
From Morlock.Model Require Import Bits Attacks Move Position Abs Search Fen Engines.
From Morlock.Spec Require Import Chess.
From Morlock.Lemmas Require Import PositionLemmas AttackGeometry1 AttackGeometry3 AttackGeometry_Extra MoveGen2 MoveGen4
     EnginesLemmas5 EnginesLemmas6 EnginesLemmas7 EnginesLemmas8 EnginesLemmas9 MirrorMobility1 MirrorMobility2.
Import ListNotations.
Open Scope N_scope.

(* ------------------------------------------------------------------ *)
(** * [pos_move] in named pieces *)

Definition pm_r3 (p : position) (m : move) (turn piece0 : N) : position :=
  let ret := pos_xor p (mfrom m) turn piece0 in
  let ret := if is_capture m then pos_xor ret (mto m) (opponent turn) (mcapture m) else ret in
  pos_xor ret (mto m) turn (if is_promotion m then mpromo m else piece0).

Definition pm_special (p : position) (m : move) (turn piece0 : N) : option position :=
  let ret := pm_r3 p m turn piece0 in
  if mtype m =? EnPassant then Some (pos_xor ret (fst (ep_capture m)) (opponent turn) Pawn)
  else if is_castle m then
    if existsb (fun sq => is_attacked p turn sq) (safe_castling_squares turn (mtype m)) then None
    else let '(rf, rt, _) := castling_rook_move m in Some (pos_xor (pos_xor ret rf turn Rook) rt turn Rook)
  else Some ret.

Lemma pos_move_unfold p m : pos_move p m =
  match square p (mfrom m) with
  | None => None
  | Some (turn, piece0) =>
    match pm_special p m turn piece0 with
    | None => None
    | Some ret =>
      let ret := mkPos (pieces ret) (rotated_bb ret) (andnot (castling p) (castling_rights_lost m)) (fst (ep_target m)) in
      if is_checked ret turn then None else Some ret
    end
  end.
Proof. reflexivity. Qed.

Definition legalb (p : position) (m : move) : bool := match pos_move p m with Some _ => true | None => false end.

(** what is needed of a move; every pseudo-legal move has it (MirrorMobility5) *)
Record shape (p : position) (c : N) (m : move) : Prop := mkShape {
  sh_from : mfrom m < 64;
  sh_to : mto m < 64;
  sh_sq : square p (mfrom m) = Some (c, mpiece m);
  sh_cap : is_capture m = true -> 1 <= mcapture m <= 6;
  sh_promo : is_promotion m = true -> 1 <= mpromo m <= 5;
  sh_king : mpiece m = King -> is_promotion m = false;
  sh_ep : mtype m = EnPassant -> sq_rank (mto m) = 2 \/ sq_rank (mto m) = 5
}.

(* ------------------------------------------------------------------ *)
(** * small facts *)

Lemma eqb_opponent c : (c = 0 \/ c = 1) -> (c =? opponent c) = false.
Proof. intros [-> | ->]; reflexivity. Qed.

Lemma ep_capture_mirror_b :
  forallb (fun t => negb ((sq_rank t =? 2) || (sq_rank t =? 5)) ||
     (((if sq_rank (mirror_sq t) =? 2 then new_square (sq_file (mirror_sq t)) 3 else new_square (sq_file (mirror_sq t)) 4)
        =? mirror_sq (if sq_rank t =? 2 then new_square (sq_file t) 3 else new_square (sq_file t) 4)) &&
      ((if sq_rank t =? 2 then new_square (sq_file t) 3 else new_square (sq_file t) 4) <? 64))) (seqN 64) = true.
Proof. vm_compute. reflexivity. Qed.

Lemma ep_capture_mirror m : mtype m = EnPassant -> mto m < 64 -> (sq_rank (mto m) = 2 \/ sq_rank (mto m) = 5) ->
  fst (ep_capture (mirror_move m)) = mirror_sq (fst (ep_capture m)) /\ fst (ep_capture m) < 64.
Proof.
  intros Ht Hto Hr. unfold ep_capture. cbn [mirror_move mtype mto]. rewrite Ht. change (negb (EnPassant =? EnPassant)) with false.
  cbv iota. pose proof ep_capture_mirror_b as H. rewrite forallb_forall in H.
  specialize (H (mto m) (proj2 (in_seqN64 _) Hto)).
  assert (E : (sq_rank (mto m) =? 2) || (sq_rank (mto m) =? 5) = true).
  { destruct Hr as [-> | ->]; reflexivity. }
  rewrite E in H. cbn [negb orb] in H. apply andb_true_iff in H as [H1 H2].
  apply N.eqb_eq in H1. apply N.ltb_lt in H2.
  destruct (sq_rank (mirror_sq (mto m)) =? 2); destruct (sq_rank (mto m) =? 2); cbn [fst]; split; assumption.
Qed.

Lemma mirror_eq_E1 s : s < 64 -> (mirror_sq s =? E1) = (s =? E8).
Proof.
  intros Hs. destruct (N.eqb_spec s E8) as [->|Hn]; [reflexivity|].
  destruct (N.eqb_spec (mirror_sq s) E1) as [E|E]; [|reflexivity]. exfalso. apply Hn.
  rewrite <- (mirror_sq_invol s), E. reflexivity.
Qed.
Lemma mirror_eq_E8 s : s < 64 -> (mirror_sq s =? E8) = (s =? E1).
Proof.
  intros Hs. destruct (N.eqb_spec s E1) as [->|Hn]; [reflexivity|].
  destruct (N.eqb_spec (mirror_sq s) E8) as [E|E]; [|reflexivity]. exfalso. apply Hn.
  rewrite <- (mirror_sq_invol s), E. reflexivity.
Qed.

(** the rook's part of a castling move under the mirror *)
Lemma castling_rook_mirror m : mfrom m < 64 ->
  exists rf rt b, castling_rook_move m = (rf, rt, b) /\
    ((b = true /\ rf < 64 /\ rt < 64 /\ castling_rook_move (mirror_move m) = (mirror_sq rf, mirror_sq rt, true)) \/
     (b = false /\ rf = 0 /\ rt = 0 /\ castling_rook_move (mirror_move m) = (0, 0, false))).
Proof.
  intros Hf. unfold castling_rook_move. cbn [mirror_move mtype mfrom].
  rewrite (mirror_eq_E1 _ Hf), (mirror_eq_E8 _ Hf).
  destruct (N.eqb_spec (mfrom m) E1) as [E1'|N1]; destruct (N.eqb_spec (mfrom m) E8) as [E8'|N8];
    [exfalso; rewrite E1' in E8'; discriminate| | |];
    destruct (mtype m =? KingSideCastle); destruct (mtype m =? QueenSideCastle); cbn [andb];
    eexists; eexists; eexists; (split; [reflexivity|]);
    first [left; repeat split; vm_compute; reflexivity | right; repeat split; reflexivity].
Qed.

Lemma safe_squares_mirror c t : (c = 0 \/ c = 1) ->
  safe_castling_squares (opponent c) t = map mirror_sq (safe_castling_squares c t) /\
  (forall s, In s (safe_castling_squares c t) -> s < 64).
Proof.
  intros [-> | ->]; unfold safe_castling_squares;
    [change (opponent 0 =? White) with false; change (0 =? White) with true
    |change (opponent 1 =? White) with true; change (1 =? White) with false]; cbv iota;
    destruct (t =? KingSideCastle); try destruct (t =? QueenSideCastle);
    (split; [reflexivity|]); cbn [In]; unfold E1, F1, D1, E8, F8, D8; intros s Hs; lia.
Qed.

Lemma existsb_map {A B} (f : B -> bool) (g : A -> B) l : existsb f (map g l) = existsb (fun x => f (g x)) l.
Proof. induction l as [|a l IH]; [reflexivity|]. cbn [map existsb]. now rewrite IH. Qed.

(* ------------------------------------------------------------------ *)
(** * the toggles of a move, followed on both sides *)

Lemma r3_rel c q q' kb m pc0 : Rel c q q' kb -> (c = 0 \/ c = 1) -> 1 <= pc0 <= 6 ->
  mfrom m < 64 -> mto m < 64 -> (is_capture m = true -> 1 <= mcapture m <= 6) ->
  (is_promotion m = true -> 1 <= mpromo m <= 5) ->
  let pc := if is_promotion m then mpromo m else pc0 in
  Rel c (pm_r3 q m c pc0) (pm_r3 q' (mirror_move m) (opponent c) pc0)
      (let kb1 := if pc0 =? King then N.lxor kb (bitmask (mfrom m)) else kb in
       if pc =? King then N.lxor kb1 (bitmask (mto m)) else kb1).
Proof.
  intros R Hc Hp0 Hf Ht Hcap Hpr pc. unfold pm_r3.
  change (mfrom (mirror_move m)) with (mirror_sq (mfrom m)). change (mto (mirror_move m)) with (mirror_sq (mto m)).
  change (is_capture (mirror_move m)) with (is_capture m). change (is_promotion (mirror_move m)) with (is_promotion m).
  change (mcapture (mirror_move m)) with (mcapture m). change (mpromo (mirror_move m)) with (mpromo m).
  fold pc.
  assert (Hpc : 1 <= pc <= 6).
  { unfold pc. destruct (is_promotion m); [specialize (Hpr eq_refl); lia|exact Hp0]. }
  pose proof (Rel_step c q q' kb (mfrom m) c pc0 R Hf Hc Hp0 Hc) as R1.
  rewrite N.eqb_refl in R1. cbn [andb] in R1.
  set (kb1 := if pc0 =? King then N.lxor kb (bitmask (mfrom m)) else kb) in *.
  set (r1 := pos_xor q (mfrom m) c pc0) in *. set (r1' := pos_xor q' (mirror_sq (mfrom m)) (opponent c) pc0) in *.
  assert (R2 : Rel c (if is_capture m then pos_xor r1 (mto m) (opponent c) (mcapture m) else r1)
                     (if is_capture m then pos_xor r1' (mirror_sq (mto m)) (opponent (opponent c)) (mcapture m) else r1') kb1).
  { destruct (is_capture m); [|exact R1].
    pose proof (Rel_step c r1 r1' kb1 (mto m) (opponent c) (mcapture m) R1 Ht (vcol_opponent c) (Hcap eq_refl) Hc) as R2.
    rewrite (eqb_opponent c Hc) in R2. exact R2. }
  set (r2 := if is_capture m then pos_xor r1 (mto m) (opponent c) (mcapture m) else r1) in *.
  set (r2' := if is_capture m then pos_xor r1' (mirror_sq (mto m)) (opponent (opponent c)) (mcapture m) else r1') in *.
  pose proof (Rel_step c r2 r2' kb1 (mto m) c pc R2 Ht Hc Hpc Hc) as R3.
  rewrite N.eqb_refl in R3. exact R3.
Qed.

Lemma lxor_same_mask a b : N.lxor (N.lxor (bitmask a) (bitmask a)) (bitmask b) = bitmask b.
Proof. now rewrite N.lxor_nilpotent, N.lxor_0_l. Qed.

(** both sides reach related positions, or both reject (castling through an attacked square) *)
Theorem special_rel p c m : Inv p -> (c = 0 \/ c = 1) -> popcount (pget p c King) = 1 -> shape p c m ->
  match pm_special p m c (mpiece m), pm_special (mirror_pos p) (mirror_move m) (opponent c) (mpiece m) with
  | Some r, Some r' => exists k, k < 64 /\ Rel c r r' (bitmask k)
  | None, None => True
  | _, _ => False
  end.
Proof.
  intros HI Hc H1 [Hf Ht Hsq Hcap Hpr Hkg Hep]. pose proof (Inv_Wk p HI) as HW.
  apply (square_some p _ c (mpiece m) HI Hf) in Hsq as [_ [Hp0 Hbit]].
  (* the king board is one square *)
  assert (HK : exists k0, k0 < 64 /\ pget p c King = bitmask k0 /\ (mpiece m = King -> k0 = mfrom m)).
  { destruct (N.eq_dec (mpiece m) King) as [E|E].
    - rewrite E in Hbit. destruct (one_bit_board _ _ (pget_word p c King HI) H1 Hbit) as [Hk Hkb].
      exists (mfrom m). repeat split; assumption.
    - pose proof (popcount_one_bits _ H1) as Hb.
      assert (Hin : N.testbit (pget p c King) (ctz (pget p c King)) = true).
      { apply bits_asc_spec. rewrite Hb. now left. }
      destruct (one_bit_board _ _ (pget_word p c King HI) H1 Hin) as [Hk Hkb].
      exists (ctz (pget p c King)). split; [exact Hk|]. split; [exact Hkb|]. intros E'. contradiction. }
  destruct HK as [k0 [Hk0 [Hkb Hk0f]]].
  assert (R0 : Rel c p (mirror_pos p) (bitmask k0)) by (split; [exact HW|split; [reflexivity|exact Hkb]]).
  pose proof (r3_rel c p (mirror_pos p) (bitmask k0) m (mpiece m) R0 Hc Hp0 Hf Ht Hcap Hpr) as R3.
  cbv zeta in R3.
  (* the king board after the three toggles is again one square *)
  assert (R3' : exists k, k < 64 /\ Rel c (pm_r3 p m c (mpiece m)) (pm_r3 (mirror_pos p) (mirror_move m) (opponent c) (mpiece m)) (bitmask k)).
  { destruct (N.eqb_spec (mpiece m) King) as [E|E].
    - rewrite (Hkg E) in R3. rewrite (proj2 (N.eqb_eq _ _) E) in R3. rewrite (Hk0f E), lxor_same_mask in R3.
      exists (mto m). split; assumption.
    - destruct (is_promotion m) eqn:Epr.
      + specialize (Hpr eq_refl). destruct (N.eqb_spec (mpromo m) King) as [E'|E']; [unfold King in E'; lia|].
        exists k0. split; assumption.
      + destruct (N.eqb_spec (mpiece m) King) as [E'|E']; [contradiction|]. exists k0. split; assumption. }
  clear R3. destruct R3' as [k [Hk R3]].
  unfold pm_special. change (mtype (mirror_move m)) with (mtype m). change (is_castle (mirror_move m)) with (is_castle m).
  set (r3 := pm_r3 p m c (mpiece m)) in *. set (r3' := pm_r3 (mirror_pos p) (mirror_move m) (opponent c) (mpiece m)) in *.
  destruct (N.eqb_spec (mtype m) EnPassant) as [Eep|Nep].
  - (* en passant *)
    destruct (ep_capture_mirror m Eep Ht (Hep Eep)) as [E1' E2']. rewrite E1'.
    exists k. split; [exact Hk|].
    pose proof (Rel_step c r3 r3' (bitmask k) (fst (ep_capture m)) (opponent c) Pawn R3 E2' (vcol_opponent c)) as R4.
    rewrite (eqb_opponent c Hc) in R4. apply R4; [unfold Pawn; lia|exact Hc].
  - destruct (is_castle m).
    + (* castling *)
      destruct (safe_squares_mirror c (mtype m) Hc) as [-> Hlt]. rewrite existsb_map.
      rewrite (existsb_ext_in (fun x => is_attacked (mirror_pos p) (opponent c) (mirror_sq x)) (is_attacked p c)
                 (safe_castling_squares c (mtype m))) by (intros x Hx; apply (is_attacked_flip p c x HW Hc (Hlt x Hx))).
      destruct (existsb (is_attacked p c) (safe_castling_squares c (mtype m))); [exact I|].
      destruct (castling_rook_mirror m Hf) as [rf [rt [b [Er [[Hb [Hrf [Hrt Er']]]|[Hb [Hrf [Hrt Er']]]]]]]]; rewrite Er, Er'.
      * exists k. split; [exact Hk|].
        pose proof (Rel_step c r3 r3' (bitmask k) rf c Rook R3 Hrf Hc) as R4.
        rewrite N.eqb_refl in R4. change (Rook =? King) with false in R4. cbn [andb] in R4.
        assert (R4' := R4 ltac:(unfold Rook; lia) Hc). clear R4.
        pose proof (Rel_step c _ _ (bitmask k) rt c Rook R4' Hrt Hc) as R5.
        rewrite N.eqb_refl in R5. change (Rook =? King) with false in R5. cbn [andb] in R5.
        apply R5; [unfold Rook; lia|exact Hc].
      * subst rf rt. exists k. split; [exact Hk|].
        destruct R3 as [HW3 [E3 K3]].
        assert (HW3' : Wk r3') by (rewrite E3; now apply Wk_mirror).
        rewrite (pos_xor_twice r3 0 c Rook HW3 Hc) by (unfold Rook; lia).
        rewrite (pos_xor_twice r3' 0 (opponent c) Rook HW3' (vcol_opponent c)) by (unfold Rook; lia).
        split; [exact HW3|split; [exact E3|exact K3]].
    + exists k. split; assumption.
Qed.

(** C20: the legality test commutes with the mirror *)
Theorem pos_move_mirror p c m : Inv p -> (c = 0 \/ c = 1) -> popcount (pget p c King) = 1 -> shape p c m ->
  legalb (mirror_pos p) (mirror_move m) = legalb p m.
Proof.
  intros HI Hc H1 Sh. pose proof (special_rel p c m HI Hc H1 Sh) as S.
  destruct Sh as [Hf Ht Hsq Hcap Hpr Hkg Hep].
  unfold legalb. rewrite !pos_move_unfold. change (mfrom (mirror_move m)) with (mirror_sq (mfrom m)).
  rewrite (square_mirror p _ HI (mirror_sq_lt _ Hf)), mirror_sq_invol, Hsq.
  destruct (pm_special p m c (mpiece m)) as [r|]; destruct (pm_special (mirror_pos p) (mirror_move m) (opponent c) (mpiece m)) as [r'|];
    try contradiction; [|reflexivity].
  destruct S as [k [Hk R]]. cbv zeta.
  rewrite (Rel_checked c r r' k (andnot (castling p) (castling_rights_lost m)) (fst (ep_target m))
             (andnot (castling (mirror_pos p)) (castling_rights_lost (mirror_move m))) (fst (ep_target (mirror_move m))) R Hk Hc).
  destruct (is_checked _ c); reflexivity.
Qed.

Print Assumptions pos_move_mirror.
