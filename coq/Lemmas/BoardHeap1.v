(** C08, part 1 — the heap of history nodes: chains, well-formedness, the abstract (list) board and the
    simulation theorems "concrete operation on (heap, board) = abstract operation on [abs h b]".
    No axioms.  Everything is proved for [push_move_with zm unp (identical_position_count_with le) insuff],
    hence both for the repaired [push_move] and for [push_move_legacy]. *)
From Coq Require Import NArith ZArith List Bool Lia.
From Morlock.Model Require Import Bits Attacks Move Position Zobrist Board.
Import ListNotations.
Local Open Scope nat_scope.

(** * 1. list / heap basics *)

Lemma upd_length : forall (A : Type) (l : list A) i v, length (upd l i v) = length l.
Proof. induction l as [|x r IH]; intros [|i] v; simpl; auto. Qed.

Lemma nth_upd_eq : forall (A : Type) (l : list A) i v d, i < length l -> nth i (upd l i v) d = v.
Proof.
  induction l as [|x r IH]; intros [|i] v d Hi; simpl in *; try lia; auto; try (apply IH; lia).
Qed.

Lemma nth_upd_neq : forall (A : Type) (l : list A) i j v d, i <> j -> nth j (upd l i v) d = nth j l d.
Proof.
  induction l as [|x r IH]; intros [|i] [|j] v d Hij; simpl; auto; try lia; try (apply IH; lia).
Qed.

Lemma hnode_app_lt : forall h l i, i < length h -> hnode (h ++ l) i = hnode h i.
Proof. intros h l i Hi. unfold hnode. apply app_nth1; auto. Qed.

Lemma hnode_app_last : forall h n, hnode (h ++ [n]) (length h) = n.
Proof. intros h n. unfold hnode. rewrite app_nth2 by lia. rewrite Nat.sub_diag. reflexivity. Qed.

Lemma hnode_beyond : forall h i, length h <= i -> hnode h i = dummy_node.
Proof. intros h i Hi. unfold hnode. apply nth_overflow; auto. Qed.

Lemma hset_length : forall h i n, length (hset h i n) = length h.
Proof. intros. apply upd_length. Qed.

Lemma hnode_hset_eq : forall h i n, i < length h -> hnode (hset h i n) i = n.
Proof. intros. apply nth_upd_eq; auto. Qed.

Lemma hnode_hset_neq : forall h i j n, i <> j -> hnode (hset h i n) j = hnode h j.
Proof. intros. apply nth_upd_neq; auto. Qed.

(** * 2. heap well-formedness and chains *)

(** every [prev] pointer points to an older node (append-only heap) *)
Definition hwf (h : heap) : Prop := forall i j, n_prev (hnode h i) = Some j -> j < i.

Lemma hwf_lt_length : forall h i j, hwf h -> n_prev (hnode h i) = Some j -> i < length h.
Proof.
  intros h i j _ Hp. destruct (Nat.lt_ge_cases i (length h)) as [Hl|Hl]; auto.
  rewrite hnode_beyond in Hp by auto. discriminate.
Qed.

(** ids of the nodes from [id] back to the root *)
Fixpoint cids_f (h : heap) (fuel id : nat) : list nat :=
  match fuel with
  | O => []
  | S f => id :: match n_prev (hnode h id) with Some j => cids_f h f j | None => [] end
  end.
Definition cids (h : heap) (id : nat) : list nat := cids_f h (S id) id.
Definition chain (h : heap) (id : nat) : list node := map (hnode h) (cids h id).
Definition chain_opt (h : heap) (o : option nat) : list node :=
  match o with Some id => chain h id | None => [] end.

Lemma cids_f_indep : forall h, hwf h -> forall f1 f2 id, id < f1 -> id < f2 -> cids_f h f1 id = cids_f h f2 id.
Proof.
  intros h Hw. induction f1 as [|f1 IH]; intros f2 id H1 H2; [lia|].
  destruct f2 as [|f2]; [lia|]. simpl. f_equal.
  destruct (n_prev (hnode h id)) as [j|] eqn:Hp; auto.
  apply Hw in Hp. apply IH; lia.
Qed.

Lemma cids_unfold : forall h id, hwf h ->
  cids h id = id :: match n_prev (hnode h id) with Some j => cids h j | None => [] end.
Proof.
  intros h id Hw. unfold cids at 1. simpl. f_equal.
  destruct (n_prev (hnode h id)) as [j|] eqn:Hp; auto.
  pose proof (Hw _ _ Hp). unfold cids. apply cids_f_indep; auto; lia.
Qed.

Lemma chain_unfold : forall h id, hwf h ->
  chain h id = hnode h id :: chain_opt h (n_prev (hnode h id)).
Proof.
  intros h id Hw. unfold chain. rewrite cids_unfold by auto. simpl. f_equal.
  destruct (n_prev (hnode h id)); reflexivity.
Qed.

Lemma cids_f_le : forall h, hwf h -> forall fuel id k, In k (cids_f h fuel id) -> k <= id.
Proof.
  intros h Hw. induction fuel as [|f IH]; intros id k Hin; simpl in Hin; [contradiction|].
  destruct Hin as [->|Hin]; [lia|].
  destruct (n_prev (hnode h id)) as [j|] eqn:Hp; [|contradiction].
  apply IH in Hin. apply Hw in Hp. lia.
Qed.

Lemma cids_le : forall h id k, hwf h -> In k (cids h id) -> k <= id.
Proof. intros h id k Hw. apply cids_f_le; auto. Qed.

(** below the head, every chain id is at most the head's [prev] *)
Lemma cids_tl_le : forall h id k j, hwf h -> n_prev (hnode h id) = Some j -> In k (tl (cids h id)) -> k <= j.
Proof.
  intros h id k j Hw Hp Hin. rewrite cids_unfold in Hin by auto. simpl in Hin. rewrite Hp in Hin.
  eapply cids_le; eauto.
Qed.

Lemma cids_tl_none : forall h id, hwf h -> n_prev (hnode h id) = None -> tl (cids h id) = [].
Proof. intros h id Hw Hp. rewrite cids_unfold by auto. simpl. rewrite Hp. reflexivity. Qed.

(** a chain only depends on the nodes it visits *)
Lemma cids_f_ext_in : forall h h' fuel id,
  (forall i, In i (cids_f h fuel id) -> hnode h' i = hnode h i) -> cids_f h' fuel id = cids_f h fuel id.
Proof.
  intros h h'. induction fuel as [|f IH]; intros id Hag; simpl; auto.
  simpl in Hag. f_equal. rewrite (Hag id) by (left; reflexivity).
  destruct (n_prev (hnode h id)) as [j|]; [|reflexivity].
  apply IH. intros i Hi. apply Hag. right; exact Hi.
Qed.

Lemma chain_ext_in : forall h h' id,
  (forall i, In i (cids h id) -> hnode h' i = hnode h i) -> cids h' id = cids h id /\ chain h' id = chain h id.
Proof.
  intros h h' id Hag. assert (Hc : cids h' id = cids h id) by (apply cids_f_ext_in; exact Hag).
  split; auto. unfold chain. rewrite Hc. apply map_ext_in. exact Hag.
Qed.

Lemma chain_ext : forall h h' id, hwf h ->
  (forall i, i <= id -> hnode h' i = hnode h i) -> chain h' id = chain h id.
Proof.
  intros h h' id Hw Hag. apply chain_ext_in. intros i Hi. apply Hag. eapply cids_le; eauto.
Qed.

Lemma chain_opt_ext : forall h h' o k, hwf h -> (forall id, o = Some id -> id <= k) ->
  (forall i, i <= k -> hnode h' i = hnode h i) -> chain_opt h' o = chain_opt h o.
Proof.
  intros h h' [id|] k Hw Hk Hag; simpl; auto.
  apply chain_ext; auto. intros i Hi. apply Hag. specialize (Hk id eq_refl). lia.
Qed.

(** * 3. boards on a heap *)

(** the side to move is a colour (Go: [Color] indexes [hasCastled [NumColors]bool]) *)
Definition turn_ok (b : board) : Prop := b_turn b = White \/ b_turn b = Black.

Definition wf (h : heap) (b : board) : Prop :=
  hwf h /\ b_current b < length h /\ n_next (hnode h (b_current b)) = no_move /\ turn_ok b.

Definition ndata (n : node) : position * N * N := (n_pos n, n_hash n, n_noprogress n).
Definition data (h : heap) (b : board) : list (position * N * N) := map ndata (chain h (b_current b)).
Definition nexts (h : heap) (b : board) : list move := map n_next (tl (chain h (b_current b))).

Lemma set_next_prev : forall n m, n_prev (set_next n m) = n_prev n. Proof. reflexivity. Qed.
Lemma set_next_data : forall n m, ndata (set_next n m) = ndata n. Proof. reflexivity. Qed.

Lemma data_unfold : forall h b, hwf h ->
  data h b = ndata (hnode h (b_current b)) :: map ndata (chain_opt h (n_prev (hnode h (b_current b)))).
Proof. intros h b Hw. unfold data. rewrite chain_unfold by auto. reflexivity. Qed.

Lemma nexts_unfold : forall h b, hwf h ->
  nexts h b = map n_next (chain_opt h (n_prev (hnode h (b_current b)))).
Proof. intros h b Hw. unfold nexts. rewrite chain_unfold by auto. reflexivity. Qed.

(** * 4. the abstract board: what the chain looks like as two lists *)

Record aboard := mkA {
  a_reps : repmap; a_cw : bool; a_cb : bool; a_ply : Z; a_moves : Z; a_turn : N; a_result : result;
  a_data : list (position * N * N);     (* (position, hash, noprogress), head first *)
  a_nexts : list move                   (* the [next] field of every node below the head *)
}.

Definition abs (h : heap) (b : board) : aboard :=
  mkA (b_reps b) (b_castled_w b) (b_castled_b b) (b_ply b) (b_moves b) (b_turn b) (b_result b)
      (data h b) (nexts h b).

Fixpoint ipc_list (le : bool) (cpos : position) (chash : N) (l : list (position * N * N))
         (t turn i limit : N) (acc : Z) : Z :=
  match l with
  | [] => acc
  | (p, hs, _) :: r =>
    if (if le then (i <=? limit)%N else (i <? limit)%N) then
      let acc' := if (hs =? chash)%N && (turn =? t)%N && pos_eqb p cpos then (acc + 1)%Z else acc in
      ipc_list le cpos chash r (opponent t) turn (i + 1)%N limit acc'
    else acc
  end.

Lemma ipc_walk_list : forall le h cur turn limit, hwf h ->
  forall fuel tmp t i acc, (forall id, tmp = Some id -> id < fuel) ->
  ipc_walk le h fuel cur tmp t turn i limit acc =
  ipc_list le (n_pos cur) (n_hash cur) (map ndata (chain_opt h tmp)) t turn i limit acc.
Proof.
  intros le h cur turn limit Hw. induction fuel as [|f IH]; intros tmp t i acc Hf.
  - destruct tmp as [id|]; [specialize (Hf id eq_refl); lia|]. reflexivity.
  - destruct tmp as [id|]; [|reflexivity].
    cbn [ipc_walk chain_opt]. rewrite chain_unfold by auto. cbn [map ipc_list ndata].
    destruct (if le then (i <=? limit)%N else (i <? limit)%N); auto.
    apply IH. intros j Hj. apply Hw in Hj. specialize (Hf id eq_refl). lia.
Qed.

Fixpoint hm_list (l : list move) (limit : Z) (acc : N) : N :=
  match l with
  | [] => acc
  | m :: r => if (0 <? limit)%Z then hm_list r (limit - 1)%Z (N.lor acc (bitmask (mto m))) else acc
  end.

Lemma has_moved_walk_list : forall h, hwf h ->
  forall fuel cur limit acc, (forall id, cur = Some id -> id < fuel) ->
  has_moved_walk h fuel cur limit acc = hm_list (map n_next (chain_opt h cur)) limit acc.
Proof.
  intros h Hw. induction fuel as [|f IH]; intros cur limit acc Hf.
  - destruct cur as [id|]; [specialize (Hf id eq_refl); lia|]. reflexivity.
  - destruct cur as [id|]; [|reflexivity].
    cbn [has_moved_walk chain_opt]. rewrite chain_unfold by auto. cbn [map hm_list].
    destruct (0 <? limit)%Z; auto.
    apply IH. intros j Hj. apply Hw in Hj. specialize (Hf id eq_refl). lia.
Qed.

(** abstract getters *)
Definition dummy_data : position * N * N := ndata dummy_node.
Definition a_position (a : aboard) : position := fst (fst (hd dummy_data (a_data a))).
Definition a_hash (a : aboard) : N := snd (fst (hd dummy_data (a_data a))).
Definition a_noprogress (a : aboard) : N := snd (hd dummy_data (a_data a)).
Definition a_last (a : aboard) : option move := match a_nexts a with m :: _ => Some m | [] => None end.
Definition a_last2 (a : aboard) : option move := match a_nexts a with _ :: m :: _ => Some m | _ => None end.
Definition a_has_moved (a : aboard) (limit : Z) : N :=
  N.land (hm_list (a_nexts a) limit 0%N) (all_bb (a_position a)).

Section Getters.
Variables (h : heap) (b : board).
Hypothesis Hwf : wf h b.
Let Hw : hwf h := proj1 Hwf.

Lemma get_position : b_position h b = a_position (abs h b).
Proof. unfold a_position, abs; cbn [a_data]. rewrite data_unfold by exact Hw. reflexivity. Qed.
Lemma get_hash : b_hash h b = a_hash (abs h b).
Proof. unfold a_hash, abs; cbn [a_data]. rewrite data_unfold by exact Hw. reflexivity. Qed.
Lemma get_noprogress : b_noprogress h b = a_noprogress (abs h b).
Proof. unfold a_noprogress, abs; cbn [a_data]. rewrite data_unfold by exact Hw. reflexivity. Qed.

Lemma get_last_move : last_move h b = a_last (abs h b).
Proof.
  unfold a_last, abs, last_move; cbn [a_nexts]. rewrite nexts_unfold by exact Hw.
  destruct (n_prev (hnode h (b_current b))) as [p|]; [|reflexivity].
  cbn [chain_opt]. rewrite chain_unfold by exact Hw. reflexivity.
Qed.

Lemma get_second_to_last_move : second_to_last_move h b = a_last2 (abs h b).
Proof.
  unfold a_last2, abs, second_to_last_move; cbn [a_nexts]. rewrite nexts_unfold by exact Hw.
  destruct (n_prev (hnode h (b_current b))) as [p|]; [|reflexivity].
  cbn [chain_opt]. rewrite chain_unfold by exact Hw. cbn [map].
  destruct (n_prev (hnode h p)) as [pp|]; [|reflexivity].
  cbn [chain_opt]. rewrite chain_unfold by exact Hw. reflexivity.
Qed.

Lemma get_has_moved : forall k, has_moved h b k = a_has_moved (abs h b) k.
Proof.
  intro k. unfold has_moved, a_has_moved. rewrite <- get_position. f_equal.
  unfold abs; cbn [a_nexts]. rewrite nexts_unfold by exact Hw.
  apply has_moved_walk_list; [exact Hw|].
  intros id Hid. pose proof (Hw _ _ Hid). pose proof Hwf as (_ & Hc & _ & _). lia.
Qed.

Lemma get_has_castled : forall c, has_castled b c = (if (c =? White)%N then a_cw (abs h b) else a_cb (abs h b)).
Proof. reflexivity. Qed.
End Getters.

(** * 5. abstract operations *)

Definition blocked (r : result) : bool :=
  match rreason r with Checkmate | Stalemate => true | _ => false end.

Section Ops.
Variables (zm : ztable -> N -> position -> move -> N) (unp : N -> move -> N) (le : bool)
          (insuff : position -> bool).

Definition apush_with (z : ztable) (a : aboard) (m : move) : aboard * bool :=
  if blocked (a_result a) then (a, false) else
  match pos_move (a_position a) m with
  | None => (a, false)
  | Some next =>
    let nh := zm z (a_hash a) (a_position a) m in
    let nnp := unp (a_noprogress a) m in
    let cw := if is_castle m && (a_turn a =? White)%N then true else a_cw a in
    let cb := if is_castle m && negb (a_turn a =? White)%N then true else a_cb a in
    let turn := opponent (a_turn a) in
    let reps := rep_set (a_reps a) nh (rep_get (a_reps a) nh + 1)%Z in
    let ply := (a_ply a + 1)%Z in
    let moves := if (turn =? White)%N then (a_moves a + 1)%Z else a_moves a in
    let res := a_result a in
    let res :=
      if (3 <=? rep_get reps nh)%Z then
        let actual := ipc_list le next nh (a_data a) (opponent turn) turn 1%N nnp 1%Z in
        if (5 <=? actual)%Z then mkResult Draw Repetition5
        else if (3 <=? actual)%Z then mkResult Draw Repetition3
        else res
      else res in
    let res := if (noprogressPlyLimit <=? nnp)%N then mkResult Draw NoProgress else res in
    let res :=
      if (mtype m =? Capture)%N ||
         (((mtype m =? CapturePromotion)%N || (mtype m =? Promotion)%N) && ((mpromo m =? Bishop)%N || (mpromo m =? Knight)%N))
      then if insuff next then mkResult Draw InsufficientMaterial else res
      else res in
    (mkA reps cw cb ply moves turn res ((next, nh, nnp) :: a_data a) (m :: a_nexts a), true)
  end.

Definition apop (a : aboard) : aboard * move * bool :=
  match a_nexts a with
  | [] => (a, no_move, false)
  | m :: nx =>
    let opp := opponent (a_turn a) in
    let cw := if is_castle m && (opp =? White)%N then false else a_cw a in
    let cb := if is_castle m && negb (opp =? White)%N then false else a_cb a in
    let reps := rep_set (a_reps a) (a_hash a) (rep_get (a_reps a) (a_hash a) - 1)%Z in
    let moves := if (opp =? Black)%N then (a_moves a - 1)%Z else a_moves a in
    (mkA reps cw cb (a_ply a - 1)%Z moves opp (mkResult Undecided NoReason) (tl (a_data a)) nx, m, true)
  end.

Definition aset_result (a : aboard) (r : result) : aboard :=
  mkA (a_reps a) (a_cw a) (a_cb a) (a_ply a) (a_moves a) (a_turn a) r (a_data a) (a_nexts a).
Definition aadj_nlm (a : aboard) : aboard * result :=
  let r := if is_checked (a_position a) (a_turn a) then mkResult (loss (a_turn a)) Checkmate
           else mkResult Draw Stalemate in
  (aset_result a r, r).

Definition pushw := push_move_with zm unp (identical_position_count_with le) insuff.

(** ** heap effect of the operations (frame facts) *)

Lemma push_heap : forall z h b m h1 b1 ok, pushw z h b m = (h1, b1, ok) ->
  (ok = false /\ h1 = h /\ b1 = b) \/
  (ok = true /\ exists n, h1 = hset h (b_current b) (set_next (hnode h (b_current b)) m) ++ [n] /\
      n_prev n = Some (b_current b) /\ n_next n = no_move /\ b_current b1 = length h /\
      b_turn b1 = opponent (b_turn b)).
Proof.
  intros z h b m h1 b1 ok H. unfold pushw, push_move_with in H.
  destruct (pos_move (n_pos (hnode h (b_current b))) m) as [next|] eqn:Hpm.
  - destruct (rreason (b_result b)); try (inversion H; subst; left; auto; fail);
      inversion H; subst; right; (split; [reflexivity|]); eexists; (split; [reflexivity|]); cbn; auto.
  - destruct (rreason (b_result b)); inversion H; subst; left; auto.
Qed.

Lemma pop_heap : forall h b h1 b1 m ok, pop_move h b = (h1, b1, m, ok) ->
  (ok = false /\ h1 = h /\ b1 = b /\ n_prev (hnode h (b_current b)) = None) \/
  (ok = true /\ exists pid, n_prev (hnode h (b_current b)) = Some pid /\
      h1 = hset h pid (set_next (hnode h pid) no_move) /\ b_current b1 = pid /\ m = n_next (hnode h pid) /\
      b_turn b1 = opponent (b_turn b)).
Proof.
  intros h b h1 b1 m ok H. unfold pop_move in H.
  destruct (n_prev (hnode h (b_current b))) as [pid|] eqn:Hp; inversion H; subst.
  - right. split; auto. exists pid. cbn. repeat split; auto.
  - left. auto.
Qed.

(** nodes after a write of [next] and an append *)
Lemma hnode_write_append : forall h c m n i, c < length h ->
  hnode (hset h c (set_next (hnode h c) m) ++ [n]) i =
  if i =? c then set_next (hnode h c) m else if i =? length h then n else hnode h i.
Proof.
  intros h c m n i Hc.
  destruct (Nat.eqb_spec i c) as [->|Hic].
  - rewrite hnode_app_lt by (rewrite hset_length; auto). apply hnode_hset_eq; auto.
  - destruct (Nat.eqb_spec i (length h)) as [->|Hil].
    + rewrite <- (hset_length h c (set_next (hnode h c) m)). apply hnode_app_last.
    + destruct (Nat.lt_ge_cases i (length h)) as [Hl|Hl].
      * rewrite hnode_app_lt by (rewrite hset_length; auto). apply hnode_hset_neq; auto.
      * rewrite !hnode_beyond; auto. rewrite app_length, hset_length. simpl. lia.
Qed.

Lemma hnode_write : forall h c m i, c < length h ->
  hnode (hset h c (set_next (hnode h c) m)) i = if i =? c then set_next (hnode h c) m else hnode h i.
Proof.
  intros h c m i Hc. destruct (Nat.eqb_spec i c) as [->|Hic].
  - apply hnode_hset_eq; auto.
  - apply hnode_hset_neq; auto.
Qed.

Lemma hwf_write : forall h c m, hwf h -> c < length h -> hwf (hset h c (set_next (hnode h c) m)).
Proof.
  intros h c m Hw Hc i j. rewrite hnode_write by auto.
  destruct (i =? c) eqn:E; [apply Nat.eqb_eq in E; subst; rewrite set_next_prev|]; apply Hw.
Qed.

Lemma hwf_append : forall h n, hwf h -> (forall j, n_prev n = Some j -> j < length h) -> hwf (h ++ [n]).
Proof.
  intros h n Hw Hn i j Hp.
  destruct (Nat.lt_ge_cases i (length h)) as [Hl|Hl].
  - rewrite hnode_app_lt in Hp by auto. apply Hw; auto.
  - destruct (Nat.eq_dec i (length h)) as [->|Hne].
    + rewrite hnode_app_last in Hp. apply Hn; auto.
    + rewrite hnode_beyond in Hp by (rewrite app_length; simpl; lia). discriminate.
Qed.

(** ** invariant preservation *)

Lemma opponent_ok : forall c, opponent c = White \/ opponent c = Black.
Proof. intro c. unfold opponent. destruct (c =? White)%N; auto. Qed.

Lemma wf_new_board : forall z h pos turn np fm h1 b1, hwf h -> (turn = White \/ turn = Black) ->
  new_board z h pos turn np fm = (h1, b1) -> wf h1 b1.
Proof.
  intros z h pos turn np fm h1 b1 Hw Hturn H. inversion H; subst. unfold wf, turn_ok. cbn [b_current b_turn].
  rewrite hnode_app_last, app_length. cbn. repeat split; try lia.
  apply hwf_append; auto. cbn. discriminate.
Qed.

Lemma hwf_nil : hwf []. Proof. intros i j H. rewrite hnode_beyond in H by (simpl; lia). discriminate. Qed.

Lemma wf_push : forall z h b m h1 b1 ok, wf h b -> pushw z h b m = (h1, b1, ok) -> wf h1 b1.
Proof.
  intros z h b m h1 b1 ok (Hw & Hc & Hn & Ht) H. apply push_heap in H.
  destruct H as [(_ & -> & ->)|(_ & n & -> & Hnp & Hnn & Hcur & Hturn)]; [repeat split; auto|].
  unfold wf, turn_ok. rewrite Hturn, Hcur, app_length, hset_length. cbn [length].
  rewrite hnode_write_append by auto. rewrite Nat.eqb_refl.
  destruct (Nat.eqb_spec (length h) (b_current b)) as [E|_]; [lia|].
  repeat split; auto using opponent_ok; try lia.
  apply hwf_append; [apply hwf_write; auto|]. intros j Hj. rewrite hset_length. congruence.
Qed.

Lemma wf_pop : forall h b h1 b1 m ok, wf h b -> pop_move h b = (h1, b1, m, ok) -> wf h1 b1.
Proof.
  intros h b h1 b1 m ok (Hw & Hc & Hn & Ht) H. apply pop_heap in H.
  destruct H as [(_ & -> & -> & _)|(_ & pid & Hp & -> & Hcur & _ & Hturn)]; [repeat split; auto|].
  pose proof (Hw _ _ Hp) as Hlt. unfold wf, turn_ok. rewrite Hturn, Hcur, hset_length.
  rewrite hnode_write by lia. rewrite Nat.eqb_refl.
  repeat split; auto using opponent_ok; try lia. apply hwf_write; auto; lia.
Qed.

Lemma wf_fork : forall h b h1 f, wf h b -> fork h b = (h1, f) -> wf h1 f /\ wf h1 b.
Proof.
  intros h b h1 f (Hw & Hc & Hn & Ht) H. inversion H; subst. clear H.
  assert (Hw1 : hwf (h ++ [mkNode (n_pos (hnode h (b_current b))) (n_hash (hnode h (b_current b)))
                               (n_noprogress (hnode h (b_current b))) no_move (n_prev (hnode h (b_current b)))])).
  { apply hwf_append; auto. cbn. intros j Hj. apply Hw in Hj. lia. }
  split; unfold wf; cbn [b_current]; rewrite app_length; cbn [length].
  - rewrite hnode_app_last. cbn. repeat split; auto; lia.
  - rewrite hnode_app_lt by auto. repeat split; auto; lia.
Qed.

Lemma wf_adjudicate : forall h b r, wf h b -> wf h (adjudicate b r).
Proof. intros h b r H. exact H. Qed.

Lemma wf_adjudicate_nlm : forall h b b1 r, wf h b -> adjudicate_no_legal_moves h b = (b1, r) -> wf h b1.
Proof. intros h b b1 r Hwf H. inversion H; subst. exact Hwf. Qed.

(** a board stays well-formed when somebody else appends to the heap *)
Lemma wf_app : forall h b l, wf h b -> hwf (h ++ l) -> wf (h ++ l) b.
Proof.
  intros h b l (Hw & Hc & Hn & Ht) Hw'. unfold wf. rewrite hnode_app_lt by auto. rewrite app_length.
  repeat split; auto; lia.
Qed.

(** ** simulation: concrete operation = abstract operation on [abs] *)

Theorem push_sim : forall z h b m h1 b1 ok, wf h b ->
  pushw z h b m = (h1, b1, ok) -> apush_with z (abs h b) m = (abs h1 b1, ok).
Proof.
  intros z h b m h1 b1 ok Hwf H. pose proof Hwf as (Hw & Hc & Hn & Ht).
  unfold apush_with. rewrite <- get_position, <- get_hash, <- get_noprogress by exact Hwf.
  unfold b_position, b_hash, b_noprogress.
  unfold pushw, push_move_with in H.
  unfold blocked. cbn [abs a_result a_turn a_reps a_cw a_cb a_ply a_moves a_data a_nexts].
  set (cur := hnode h (b_current b)) in *.
  assert (Hfail : (h, b, false) = (h1, b1, ok) -> (abs h b, false) = (abs h1 b1, ok)).
  { intro E. inversion E; subst. reflexivity. }
  destruct (pos_move (n_pos cur) m) as [next|] eqn:Hpm;
    [|destruct (rreason (b_result b)); apply Hfail; exact H].
  destruct (rreason (b_result b)) eqn:Hr; try (apply Hfail; exact H).
  all: set (n := mkNode next (zm z (n_hash cur) (n_pos cur) m) (unp (n_noprogress cur) m) no_move (Some (b_current b))) in *.
  all: set (h' := hset h (b_current b) (set_next cur m) ++ [n]) in *.
  all: assert (Hw' : hwf h') by
    (apply hwf_append; [apply hwf_write; auto|]; intros j Hj; rewrite hset_length; cbn in Hj; congruence).
  all: assert (Hnode : forall i, hnode h' i = if i =? b_current b then set_next cur m
                                              else if i =? length h then n else hnode h i)
    by (intro i; apply hnode_write_append; auto).
  all: assert (Hlow : forall i, i < b_current b -> hnode h' i = hnode h i)
    by (intros i Hi; rewrite Hnode;
        destruct (Nat.eqb_spec i (b_current b)); [lia|]; destruct (Nat.eqb_spec i (length h)); [lia|]; reflexivity).
  all: assert (Hco : chain_opt h' (n_prev cur) = chain_opt h (n_prev cur))
    by (destruct (n_prev cur) as [p|] eqn:Hp; [|reflexivity]; cbn [chain_opt];
        pose proof (Hw _ _ Hp) as Hlt; apply chain_ext; auto; intros i Hi; apply Hlow; lia).
  all: assert (Hchain : chain h' (length h) = n :: set_next cur m :: chain_opt h (n_prev cur))
    by (rewrite chain_unfold by auto; rewrite (Hnode (length h));
        destruct (Nat.eqb_spec (length h) (b_current b)); [lia|]; rewrite Nat.eqb_refl;
        cbn [n n_prev chain_opt]; rewrite chain_unfold by auto; rewrite (Hnode (b_current b)), Nat.eqb_refl;
        rewrite set_next_prev, Hco; reflexivity).
  all: assert (Hdata : forall bb, b_current bb = length h -> data h' bb = (next, n_hash n, n_noprogress n) :: data h b)
    by (intros bb Hbb; unfold data at 1; rewrite Hbb, Hchain; cbn [map]; rewrite set_next_data;
        rewrite data_unfold by auto; reflexivity).
  all: assert (Hnexts : forall bb, b_current bb = length h -> nexts h' bb = m :: nexts h b)
    by (intros bb Hbb; unfold nexts at 1; rewrite Hbb, Hchain; cbn [map tl];
        rewrite nexts_unfold by auto; reflexivity).
  all: assert (Hipc : forall bb turn limit, b_current bb = length h ->
        identical_position_count_with le h' bb (length h) turn limit =
        ipc_list le next (n_hash n) (data h b) (opponent (b_turn bb)) turn 1%N limit 1%Z)
    by (intros bb turn limit Hbb; unfold identical_position_count_with;
        rewrite ipc_walk_list;
        [ rewrite (Hnode (length h)); destruct (Nat.eqb_spec (length h) (b_current b)); [lia|];
          rewrite Nat.eqb_refl; cbn [n n_prev n_pos n_hash chain_opt];
          rewrite chain_unfold by auto; rewrite (Hnode (b_current b)), Nat.eqb_refl, set_next_prev, Hco;
          cbn [map]; rewrite set_next_data; rewrite data_unfold by auto; reflexivity
        | auto
        | intros id Hid; rewrite (Hnode (length h)) in Hid;
          destruct (Nat.eqb_spec (length h) (b_current b)); [lia|];
          rewrite Nat.eqb_refl in Hid; cbn in Hid; inversion Hid; subst;
          unfold h'; rewrite app_length, hset_length; cbn; lia ]).
  all: inversion H; subst h1 b1 ok; clear H.
  all: rewrite Hipc by reflexivity; cbn [b_turn n_hash n_noprogress n].
  all: unfold abs; cbn [b_reps b_castled_w b_castled_b b_ply b_moves b_turn b_result].
  all: rewrite Hdata, Hnexts by reflexivity; cbn [n_hash n_noprogress n]; reflexivity.
Qed.

Theorem pop_sim : forall h b h1 b1 m ok, wf h b ->
  pop_move h b = (h1, b1, m, ok) -> apop (abs h b) = (abs h1 b1, m, ok).
Proof.
  intros h b h1 b1 m ok Hwf H. pose proof Hwf as (Hw & Hc & Hn & Ht).
  unfold apop. rewrite <- get_hash by exact Hwf. unfold b_hash.
  cbn [abs a_result a_turn a_reps a_cw a_cb a_ply a_moves a_data a_nexts].
  unfold pop_move in H. rewrite nexts_unfold by auto.
  destruct (n_prev (hnode h (b_current b))) as [pid|] eqn:Hp.
  - pose proof (Hw _ _ Hp) as Hlt.
    cbn [chain_opt]. rewrite chain_unfold by auto. cbn [map].
    set (prev := hnode h pid) in *.
    set (h' := hset h pid (set_next prev no_move)) in *.
    assert (Hw' : hwf h') by (apply hwf_write; auto; lia).
    assert (Hnode : forall i, hnode h' i = if i =? pid then set_next prev no_move else hnode h i)
      by (intro i; apply hnode_write; lia).
    assert (Hco : chain_opt h' (n_prev prev) = chain_opt h (n_prev prev)).
    { destruct (n_prev prev) as [pp|] eqn:Hpp; [|reflexivity]. cbn [chain_opt].
      pose proof (Hw _ _ Hpp) as Hlt2. apply chain_ext; auto. intros i Hi. rewrite Hnode.
      destruct (Nat.eqb_spec i pid); [lia|reflexivity]. }
    assert (Hchain : chain h' pid = set_next prev no_move :: chain_opt h (n_prev prev)).
    { rewrite chain_unfold by auto. rewrite (Hnode pid), Nat.eqb_refl, set_next_prev, Hco. reflexivity. }
    inversion H; subst h1 b1 m ok; clear H.
    unfold abs; cbn [b_reps b_castled_w b_castled_b b_ply b_moves b_turn b_result].
    unfold data, nexts. cbn [b_current]. rewrite Hchain.
    rewrite (chain_unfold h (b_current b)) by auto. rewrite Hp. cbn [chain_opt].
    rewrite (chain_unfold h pid) by auto. cbn [map tl]. rewrite set_next_data. reflexivity.
  - inversion H; subst. reflexivity.
Qed.

Theorem adj_sim : forall h b r, abs h (adjudicate b r) = aset_result (abs h b) r.
Proof. reflexivity. Qed.

Theorem adj_nlm_sim : forall h b b1 r, wf h b ->
  adjudicate_no_legal_moves h b = (b1, r) -> aadj_nlm (abs h b) = (abs h b1, r).
Proof.
  intros h b b1 r Hwf H. unfold aadj_nlm. rewrite <- get_position by exact Hwf.
  unfold adjudicate_no_legal_moves in H. inversion H; subst. reflexivity.
Qed.

(** fork: the copy has the same abstract board; the original's abstract board is unchanged *)
Theorem fork_sim : forall h b h1 f, wf h b -> fork h b = (h1, f) -> abs h1 f = abs h b /\ abs h1 b = abs h b.
Proof.
  intros h b h1 f Hwf H. pose proof Hwf as (Hw & Hc & Hn & Ht).
  destruct (wf_fork _ _ _ _ Hwf H) as ((Hw1 & _) & _).
  inversion H; subst h1 f; clear H.
  set (cur := hnode h (b_current b)) in *.
  set (n := mkNode (n_pos cur) (n_hash cur) (n_noprogress cur) no_move (n_prev cur)) in *.
  assert (Hold : forall id, id < length h -> chain (h ++ [n]) id = chain h id).
  { intros id Hid. apply chain_ext; auto. intros i Hi. apply hnode_app_lt. lia. }
  assert (Hco : chain_opt (h ++ [n]) (n_prev cur) = chain_opt h (n_prev cur)).
  { destruct (n_prev cur) as [p|] eqn:Hp; [|reflexivity]. cbn [chain_opt]. apply Hold.
    pose proof (Hw _ _ Hp). lia. }
  split; unfold abs; cbn [b_reps b_castled_w b_castled_b b_ply b_moves b_turn b_result]; f_equal.
  - unfold data. cbn [b_current]. rewrite chain_unfold by auto. rewrite hnode_app_last. cbn [n n_prev].
    rewrite Hco. rewrite (chain_unfold h (b_current b)) by auto. reflexivity.
  - unfold nexts. cbn [b_current]. rewrite chain_unfold by auto. rewrite hnode_app_last. cbn [n n_prev].
    rewrite Hco. rewrite (chain_unfold h (b_current b)) by auto. reflexivity.
  - unfold data. rewrite Hold by auto. reflexivity.
  - unfold nexts. rewrite Hold by auto. reflexivity.
Qed.

End Ops.
