(** C08, part 2 — observable view, congruence ("play continues identically"), pop after push is the
    identity on the view (result excepted), balanced sequences.  No axioms. *)
From Coq Require Import NArith ZArith List Bool Lia.
From Morlock.Model Require Import Bits Attacks Move Position Zobrist Board.
From Morlock.Lemmas Require Import BoardHeap1.
Import ListNotations.
Local Open Scope nat_scope.

(** * 1. repetition map *)

Lemma rep_get_set : forall m k v k', rep_get (rep_set m k v) k' = if (k =? k')%N then v else rep_get m k'.
Proof.
  induction m as [|[k0 w] r IH]; intros k v k'; simpl.
  - reflexivity.
  - destruct (k0 =? k)%N eqn:E.
    + apply N.eqb_eq in E. subst k0. simpl. destruct (k =? k')%N; reflexivity.
    + simpl. destruct (k0 =? k')%N eqn:E2.
      * apply N.eqb_eq in E2. subst k0. rewrite N.eqb_sym, E. reflexivity.
      * apply IH.
Qed.

(** * 2. equivalence of abstract boards: everything equal, the repetition map as a function *)

Definition aeq_nr (a a' : aboard) : Prop :=
  (forall k, rep_get (a_reps a) k = rep_get (a_reps a') k) /\
  a_cw a = a_cw a' /\ a_cb a = a_cb a' /\ a_ply a = a_ply a' /\ a_moves a = a_moves a' /\
  a_turn a = a_turn a' /\ a_data a = a_data a' /\ a_nexts a = a_nexts a'.
Definition aeq (a a' : aboard) : Prop := aeq_nr a a' /\ a_result a = a_result a'.

Lemma aeq_nr_refl : forall a, aeq_nr a a. Proof. intro a. repeat split; auto. Qed.
Lemma aeq_nr_sym : forall a a', aeq_nr a a' -> aeq_nr a' a.
Proof. intros a a' (H1 & H2 & H3 & H4 & H5 & H6 & H7 & H8). repeat split; auto. Qed.
Lemma aeq_nr_trans : forall a b c, aeq_nr a b -> aeq_nr b c -> aeq_nr a c.
Proof.
  intros a b c (H1 & H2 & H3 & H4 & H5 & H6 & H7 & H8) (G1 & G2 & G3 & G4 & G5 & G6 & G7 & G8).
  repeat split; try congruence; try (intro k; rewrite H1; apply G1).
Qed.
Lemma aeq_refl : forall a, aeq a a. Proof. intro a. split; auto using aeq_nr_refl. Qed.
Lemma aeq_sym : forall a a', aeq a a' -> aeq a' a.
Proof. intros a a' (H & Hr). split; auto using aeq_nr_sym. Qed.
Lemma aeq_trans : forall a b c, aeq a b -> aeq b c -> aeq a c.
Proof. intros a b c (H & Hr) (G & Gr). split; [eapply aeq_nr_trans; eauto|congruence]. Qed.
Lemma aeq_aeq_nr : forall a a', aeq a a' -> aeq_nr a a'. Proof. intros a a' H. exact (proj1 H). Qed.

(** * 3. abstract congruence and the abstract pop-after-push law *)

Section AOps.
Variables (zm : ztable -> N -> position -> move -> N) (unp : N -> move -> N) (le : bool)
          (insuff : position -> bool).
Notation apush := (apush_with zm unp le insuff).
Notation pushw := (pushw zm unp le insuff).

Lemma apush_congr_nr : forall z a a' m, aeq_nr a a' -> blocked (a_result a) = blocked (a_result a') ->
  snd (apush z a m) = snd (apush z a' m) /\
  aeq_nr (fst (apush z a m)) (fst (apush z a' m)) /\
  (a_result a = a_result a' -> a_result (fst (apush z a m)) = a_result (fst (apush z a' m))).
Proof.
  intros z a a' m Heq Hb.
  destruct a as [reps cw cb ply mv turn res dat nx], a' as [reps' cw' cb' ply' mv' turn' res' dat' nx'].
  pose proof Heq as Heq0.
  destruct Heq as (Hreps & Hcw & Hcb & Hply & Hmv & Hturn & Hdat & Hnx). cbn in Hreps, Hcw, Hcb, Hply, Hmv, Hturn, Hdat, Hnx, Hb.
  subst cw' cb' ply' mv' turn' dat' nx'.
  unfold apush_with, a_position, a_hash, a_noprogress.
  cbn [a_reps a_cw a_cb a_ply a_moves a_turn a_result a_data a_nexts].
  rewrite <- Hb. destruct (blocked res); [cbn [fst snd]; auto|].
  destruct (pos_move (fst (fst (hd dummy_data dat))) m) as [next|]; [|cbn [fst snd]; auto].
  cbn [fst snd a_result]. rewrite !rep_get_set, !N.eqb_refl, <- !Hreps.
  split; [reflexivity|]. split.
  - repeat split; cbn [a_reps a_cw a_cb a_ply a_moves a_turn a_data a_nexts]; auto.
    intro k. rewrite !rep_get_set, !Hreps. reflexivity.
  - intro Hres. cbn in Hres. subst res'. reflexivity.
Qed.

Lemma apush_congr : forall z a a' m, aeq a a' ->
  snd (apush z a m) = snd (apush z a' m) /\ aeq (fst (apush z a m)) (fst (apush z a' m)).
Proof.
  intros z a a' m (Hnr & Hr).
  destruct (apush_congr_nr z a a' m Hnr) as (H1 & H2 & H3); [rewrite Hr; reflexivity|].
  split; auto. split; auto.
Qed.

Lemma apop_congr_nr : forall a a', aeq_nr a a' ->
  snd (apop a) = snd (apop a') /\ snd (fst (apop a)) = snd (fst (apop a')) /\
  aeq_nr (fst (fst (apop a))) (fst (fst (apop a'))) /\
  (snd (apop a) = true -> aeq (fst (fst (apop a))) (fst (fst (apop a')))) /\
  (a_result a = a_result a' -> aeq (fst (fst (apop a))) (fst (fst (apop a')))).
Proof.
  intros a a' Heq.
  destruct a as [reps cw cb ply mv turn res dat nx], a' as [reps' cw' cb' ply' mv' turn' res' dat' nx'].
  pose proof Heq as Heq0.
  destruct Heq as (Hreps & Hcw & Hcb & Hply & Hmv & Hturn & Hdat & Hnx). cbn in Hreps, Hcw, Hcb, Hply, Hmv, Hturn, Hdat, Hnx.
  subst cw' cb' ply' mv' turn' dat' nx'.
  unfold apop, a_hash. cbn [a_reps a_cw a_cb a_ply a_moves a_turn a_result a_data a_nexts].
  destruct nx as [|m nx]; cbn [fst snd].
  - repeat split; auto; try discriminate; try apply Heq0.
  - assert (Hnr : aeq_nr
      (mkA (rep_set reps (snd (fst (hd dummy_data dat))) (rep_get reps (snd (fst (hd dummy_data dat))) - 1)%Z)
           (if is_castle m && (opponent turn =? White)%N then false else cw)
           (if is_castle m && negb (opponent turn =? White)%N then false else cb) (ply - 1)%Z
           (if (opponent turn =? Black)%N then (mv - 1)%Z else mv) (opponent turn) (mkResult Undecided NoReason) (tl dat) nx)
      (mkA (rep_set reps' (snd (fst (hd dummy_data dat))) (rep_get reps' (snd (fst (hd dummy_data dat))) - 1)%Z)
           (if is_castle m && (opponent turn =? White)%N then false else cw)
           (if is_castle m && negb (opponent turn =? White)%N then false else cb) (ply - 1)%Z
           (if (opponent turn =? Black)%N then (mv - 1)%Z else mv) (opponent turn) (mkResult Undecided NoReason) (tl dat) nx)).
    { repeat split; cbn [a_reps a_cw a_cb a_ply a_moves a_turn a_data a_nexts]; auto.
      intro k. rewrite !rep_get_set, !Hreps. reflexivity. }
    repeat split; auto; apply Hnr.
Qed.

Lemma aset_result_congr : forall a a' r, aeq_nr a a' -> aeq (aset_result a r) (aset_result a' r).
Proof. intros a a' r H. split; [exact H|reflexivity]. Qed.

Lemma aadj_nlm_congr : forall a a', aeq_nr a a' ->
  snd (aadj_nlm a) = snd (aadj_nlm a') /\ aeq (fst (aadj_nlm a)) (fst (aadj_nlm a')).
Proof.
  intros a a' H. pose proof H as (_ & _ & _ & _ & _ & Hturn & Hdat & _).
  unfold aadj_nlm, a_position. rewrite Hturn, Hdat. cbn [fst snd]. split; [reflexivity|].
  apply aset_result_congr. exact H.
Qed.

(** the castling side condition (see [castle_twice_counterexample] in BoardHeap3) *)
Definition acastle_ok (a : aboard) (m : move) : Prop :=
  is_castle m = true -> (if (a_turn a =? White)%N then a_cw a else a_cb a) = false.

Lemma apop_apush : forall z a m a1, (a_turn a = White \/ a_turn a = Black) -> acastle_ok a m ->
  apush z a m = (a1, true) ->
  exists a2, apop a1 = (a2, m, true) /\ aeq_nr a2 a /\ a_result a2 = mkResult Undecided NoReason.
Proof.
  intros z a m a1 Ht Hc H. unfold apush_with in H.
  destruct (blocked (a_result a)); [discriminate|].
  destruct (pos_move (a_position a) m) as [next|]; [|discriminate].
  inversion H; subst a1; clear H.
  unfold apop, a_hash. cbn [a_reps a_cw a_cb a_ply a_moves a_turn a_result a_data a_nexts hd fst snd tl].
  eexists. split; [reflexivity|]. split; [|reflexivity].
  unfold acastle_ok in Hc.
  repeat split; cbn [a_reps a_cw a_cb a_ply a_moves a_turn a_data a_nexts].
  - intro k. rewrite !rep_get_set, N.eqb_refl.
    match goal with |- context [(?x =? k)%N] => destruct (x =? k)%N eqn:E end; [|reflexivity].
    apply N.eqb_eq in E. subst k. lia.
  - destruct Ht as [Ht|Ht]; rewrite Ht in *; cbn; destruct (is_castle m); cbn; auto.
    symmetry. apply Hc. reflexivity.
  - destruct Ht as [Ht|Ht]; rewrite Ht in *; cbn; destruct (is_castle m); cbn; auto.
    symmetry. apply Hc. reflexivity.
  - lia.
  - destruct Ht as [Ht|Ht]; rewrite Ht; cbn; lia.
  - destruct Ht as [Ht|Ht]; rewrite Ht; reflexivity.
Qed.

(** * 4. the observable view of a board *)

Record view_t := mkView {
  v_position : position; v_turn : N; v_hash : N; v_noprogress : N; v_ply : Z; v_moves : Z;
  v_castled_w : bool; v_castled_b : bool;
  v_last : option move; v_last2 : option move;
  v_has_moved : Z -> N;
  v_reps : N -> Z;
  v_chain : list (position * N * N);
  v_nexts : list move;
  v_result : result
}.

Definition view (h : heap) (b : board) : view_t :=
  mkView (b_position h b) (b_turn b) (b_hash h b) (b_noprogress h b) (b_ply b) (b_moves b)
         (b_castled_w b) (b_castled_b b) (last_move h b) (second_to_last_move h b)
         (fun k => has_moved h b k) (fun k => rep_get (b_reps b) k)
         (map (fun n => (n_pos n, n_hash n, n_noprogress n)) (chain h (b_current b)))
         (map n_next (tl (chain h (b_current b))))
         (b_result b).

(** equality of views, the two function fields compared pointwise (no functional extensionality) *)
Definition view_eq_nr (v v' : view_t) : Prop :=
  v_position v = v_position v' /\ v_turn v = v_turn v' /\ v_hash v = v_hash v' /\
  v_noprogress v = v_noprogress v' /\ v_ply v = v_ply v' /\ v_moves v = v_moves v' /\
  v_castled_w v = v_castled_w v' /\ v_castled_b v = v_castled_b v' /\
  v_last v = v_last v' /\ v_last2 v = v_last2 v' /\
  (forall k, v_has_moved v k = v_has_moved v' k) /\ (forall k, v_reps v k = v_reps v' k) /\
  v_chain v = v_chain v' /\ v_nexts v = v_nexts v'.
Definition view_eq (v v' : view_t) : Prop := view_eq_nr v v' /\ v_result v = v_result v'.

Lemma view_eq_nr_abs : forall h b h' b', wf h b -> wf h' b' ->
  (view_eq_nr (view h b) (view h' b') <-> aeq_nr (abs h b) (abs h' b')).
Proof.
  intros h b h' b' Hwf Hwf'. split.
  - intro H. unfold view_eq_nr, view in H.
    cbn [v_position v_turn v_hash v_noprogress v_ply v_moves v_castled_w v_castled_b v_last v_last2
         v_has_moved v_reps v_chain v_nexts] in H.
    destruct H as (H1 & H2 & H3 & H4 & H5 & H6 & H7 & H8 & H9 & H10 & H11 & H12 & H13 & H14).
    unfold aeq_nr, abs. cbn [a_reps a_cw a_cb a_ply a_moves a_turn a_data a_nexts].
    unfold data, nexts, ndata. repeat split; auto.
  - intros H. pose proof H as (H1 & H2 & H3 & H4 & H5 & H6 & H7 & H8).
    unfold abs in H1, H2, H3, H4, H5, H6.
    cbn [a_reps a_cw a_cb a_ply a_moves a_turn a_data a_nexts] in H1, H2, H3, H4, H5, H6.
    assert (Hp : a_position (abs h b) = a_position (abs h' b')) by (unfold a_position; rewrite H7; reflexivity).
    unfold view_eq_nr, view.
    cbn [v_position v_turn v_hash v_noprogress v_ply v_moves v_castled_w v_castled_b v_last v_last2
         v_has_moved v_reps v_chain v_nexts].
    rewrite !get_position, !get_hash, !get_noprogress, !get_last_move, !get_second_to_last_move by assumption.
    repeat split; auto.
    + unfold a_hash; rewrite H7; reflexivity.
    + unfold a_noprogress; rewrite H7; reflexivity.
    + unfold a_last; rewrite H8; reflexivity.
    + unfold a_last2; rewrite H8; reflexivity.
    + intro k. rewrite !get_has_moved by assumption. unfold a_has_moved. rewrite Hp, H8. reflexivity.
Qed.

Lemma view_eq_abs : forall h b h' b', wf h b -> wf h' b' ->
  (view_eq (view h b) (view h' b') <-> aeq (abs h b) (abs h' b')).
Proof.
  intros h b h' b' Hwf Hwf'. unfold view_eq, aeq. rewrite view_eq_nr_abs by assumption. reflexivity.
Qed.

(** the equivalence of the task statement: two (heap, board) states report the same *)
Definition beq (h : heap) (b : board) (h' : heap) (b' : board) : Prop := view_eq (view h b) (view h' b').
Definition beq_nr (h : heap) (b : board) (h' : heap) (b' : board) : Prop := view_eq_nr (view h b) (view h' b').

Lemma beq_beq_nr : forall h b h' b', beq h b h' b' -> beq_nr h b h' b'.
Proof. intros h b h' b' H. exact (proj1 H). Qed.

(** * 5. pop after push *)

Definition castle_ok (b : board) (m : move) : Prop := is_castle m = true -> has_castled b (b_turn b) = false.

Theorem pop_push_id_gen : forall z h b m h1 b1, wf h b -> castle_ok b m ->
  pushw z h b m = (h1, b1, true) ->
  exists h2 b2, pop_move h1 b1 = (h2, b2, m, true) /\ wf h2 b2 /\
    view_eq_nr (view h2 b2) (view h b) /\ b_result b2 = mkResult Undecided NoReason /\
    b_current b2 = b_current b /\ n_next (hnode h2 (b_current b2)) = no_move.
Proof.
  intros z h b m h1 b1 Hwf Hc Hpush.
  pose proof (wf_push _ _ _ _ _ _ _ _ _ _ _ Hwf Hpush) as Hwf1.
  pose proof (push_sim _ _ _ _ _ _ _ _ _ _ _ Hwf Hpush) as Hs.
  destruct (pop_move h1 b1) as [[[h2 b2] m'] ok'] eqn:Hpop.
  pose proof (wf_pop _ _ _ _ _ _ Hwf1 Hpop) as Hwf2.
  pose proof (pop_sim _ _ _ _ _ _ Hwf1 Hpop) as Hs2.
  destruct (apop_apush z (abs h b) m (abs h1 b1)) as (a2 & Ha2 & Hnr & Hres); auto.
  { destruct Hwf as (_ & _ & _ & Ht). exact Ht. }
  rewrite Hs2 in Ha2. inversion Ha2; subst m' ok'. exists h2, b2.
  split; [reflexivity|]. split; [exact Hwf2|]. split; [|split; [|split; [|apply Hwf2]]].
  - apply view_eq_nr_abs; auto. rewrite H0. exact Hnr.
  - change (a_result (abs h2 b2) = mkResult Undecided NoReason). rewrite H0. exact Hres.
  - apply push_heap in Hpush. destruct Hpush as [(E & _)|(_ & n & -> & Hnp & _ & Hcur & _)]; [discriminate|].
    apply pop_heap in Hpop. destruct Hpop as [(E & _)|(_ & pid & Hp & _ & Hcur2 & _)]; [discriminate|].
    rewrite Hcur in Hp. destruct Hwf as (_ & Hlt & _).
    rewrite hnode_write_append in Hp by auto. rewrite Nat.eqb_refl in Hp.
    destruct (Nat.eqb_spec (length h) (b_current b)); [lia|]. congruence.
Qed.

(** * 6. congruence for the concrete operations *)

Theorem push_congr : forall z h b h' b' m, wf h b -> wf h' b' -> beq h b h' b' ->
  forall h1 b1 ok h1' b1' ok', pushw z h b m = (h1, b1, ok) -> pushw z h' b' m = (h1', b1', ok') ->
  ok = ok' /\ beq h1 b1 h1' b1'.
Proof.
  intros z h b h' b' m Hwf Hwf' Heq h1 b1 ok h1' b1' ok' H H'.
  pose proof (push_sim _ _ _ _ _ _ _ _ _ _ _ Hwf H) as Hs.
  pose proof (push_sim _ _ _ _ _ _ _ _ _ _ _ Hwf' H') as Hs'.
  apply view_eq_abs in Heq; auto.
  destruct (apush_congr z _ _ m Heq) as (Hok & Ha). rewrite Hs, Hs' in Hok, Ha. cbn in Hok, Ha.
  split; auto. apply view_eq_abs; eauto using wf_push.
Qed.

(** modulo the result field: as long as both sides are (not) blocked by a checkmate/stalemate result *)
Theorem push_congr_nr : forall z h b h' b' m, wf h b -> wf h' b' -> beq_nr h b h' b' ->
  blocked (b_result b) = blocked (b_result b') ->
  forall h1 b1 ok h1' b1' ok', pushw z h b m = (h1, b1, ok) -> pushw z h' b' m = (h1', b1', ok') ->
  ok = ok' /\ beq_nr h1 b1 h1' b1'.
Proof.
  intros z h b h' b' m Hwf Hwf' Heq Hb h1 b1 ok h1' b1' ok' H H'.
  pose proof (push_sim _ _ _ _ _ _ _ _ _ _ _ Hwf H) as Hs.
  pose proof (push_sim _ _ _ _ _ _ _ _ _ _ _ Hwf' H') as Hs'.
  apply view_eq_nr_abs in Heq; auto.
  destruct (apush_congr_nr z _ _ m Heq Hb) as (Hok & Ha & _). rewrite Hs, Hs' in Hok, Ha. cbn in Hok, Ha.
  split; auto. apply view_eq_nr_abs; eauto using wf_push.
Qed.

(** pop only needs equality up to the result, and produces full equality when it succeeds *)
Theorem pop_congr : forall h b h' b', wf h b -> wf h' b' -> beq_nr h b h' b' ->
  forall h1 b1 m ok h1' b1' m' ok', pop_move h b = (h1, b1, m, ok) -> pop_move h' b' = (h1', b1', m', ok') ->
  ok = ok' /\ m = m' /\ beq_nr h1 b1 h1' b1' /\ (ok = true -> beq h1 b1 h1' b1') /\
  (b_result b = b_result b' -> beq h1 b1 h1' b1').
Proof.
  intros h b h' b' Hwf Hwf' Heq h1 b1 m ok h1' b1' m' ok' H H'.
  pose proof (pop_sim _ _ _ _ _ _ Hwf H) as Hs.
  pose proof (pop_sim _ _ _ _ _ _ Hwf' H') as Hs'.
  apply view_eq_nr_abs in Heq; auto.
  destruct (apop_congr_nr _ _ Heq) as (Hok & Hm & Ha & Ha2 & Ha3). rewrite Hs, Hs' in Hok, Hm, Ha, Ha2, Ha3.
  cbn in Hok, Hm, Ha, Ha2, Ha3.
  pose proof (wf_pop _ _ _ _ _ _ Hwf H). pose proof (wf_pop _ _ _ _ _ _ Hwf' H').
  split; [exact Hok|]. split; [exact Hm|]. split; [|split].
  - apply view_eq_nr_abs; auto.
  - intro Ht. apply view_eq_abs; auto; apply Ha2; congruence.
  - intro Hr. apply view_eq_abs; auto.
Qed.

Theorem adjudicate_congr : forall h b h' b' r, wf h b -> wf h' b' -> beq_nr h b h' b' ->
  beq h (adjudicate b r) h' (adjudicate b' r).
Proof.
  intros h b h' b' r Hwf Hwf' Heq. apply view_eq_abs; auto.
  rewrite !adj_sim. apply aset_result_congr. apply view_eq_nr_abs; auto.
Qed.

Theorem adjudicate_nlm_congr : forall h b h' b', wf h b -> wf h' b' -> beq_nr h b h' b' ->
  snd (adjudicate_no_legal_moves h b) = snd (adjudicate_no_legal_moves h' b') /\
  beq h (fst (adjudicate_no_legal_moves h b)) h' (fst (adjudicate_no_legal_moves h' b')).
Proof.
  intros h b h' b' Hwf Hwf' Heq.
  destruct (adjudicate_no_legal_moves h b) as [b1 r] eqn:E.
  destruct (adjudicate_no_legal_moves h' b') as [b1' r'] eqn:E'.
  pose proof (adj_nlm_sim _ _ _ _ Hwf E) as Hs. pose proof (adj_nlm_sim _ _ _ _ Hwf' E') as Hs'.
  apply view_eq_nr_abs in Heq; auto.
  destruct (aadj_nlm_congr _ _ Heq) as (Hr & Ha). rewrite Hs, Hs' in Hr, Ha. cbn in Hr, Ha. cbn [fst snd].
  split; auto. apply view_eq_abs; eauto using wf_adjudicate_nlm.
Qed.

Theorem fork_congr : forall h b h' b' h1 f h1' f', wf h b -> wf h' b' -> beq h b h' b' ->
  fork h b = (h1, f) -> fork h' b' = (h1', f') -> beq h1 f h1' f' /\ beq h1 b h1' b'.
Proof.
  intros h b h' b' h1 f h1' f' Hwf Hwf' Heq H H'.
  destruct (wf_fork _ _ _ _ Hwf H) as (Hf & Hb). destruct (wf_fork _ _ _ _ Hwf' H') as (Hf' & Hb').
  destruct (fork_sim _ _ _ _ Hwf H) as (E1 & E2). destruct (fork_sim _ _ _ _ Hwf' H') as (E1' & E2').
  apply view_eq_abs in Heq; auto.
  split; apply view_eq_abs; auto; congruence.
Qed.

(** all getters agree on equivalent states: this is the content of [view_eq] itself; spelled out: *)
Theorem getters_congr : forall h b h' b', beq_nr h b h' b' ->
  b_position h b = b_position h' b' /\ b_turn b = b_turn b' /\ b_hash h b = b_hash h' b' /\
  b_noprogress h b = b_noprogress h' b' /\ b_ply b = b_ply b' /\ b_moves b = b_moves b' /\
  (forall c, has_castled b c = has_castled b' c) /\
  last_move h b = last_move h' b' /\ second_to_last_move h b = second_to_last_move h' b' /\
  (forall k, has_moved h b k = has_moved h' b' k) /\
  (forall k, rep_get (b_reps b) k = rep_get (b_reps b') k).
Proof.
  intros h b h' b' (H1 & H2 & H3 & H4 & H5 & H6 & H7 & H8 & H9 & H10 & H11 & H12 & H13 & H14).
  cbn in *. repeat split; auto. intro c. unfold has_castled. rewrite H7, H8. reflexivity.
Qed.

(** * 7. operation sequences *)

Inductive bop := OPush (m : move) | OPop | OAdj.

Definition pop' (h : heap) (b : board) : heap * board := fst (fst (pop_move h b)).

Fixpoint run_ops (z : ztable) (ops : list bop) (h : heap) (b : board) : heap * board :=
  match ops with
  | [] => (h, b)
  | OPush m :: r => let '(h1, b1, _) := pushw z h b m in run_ops z r h1 b1
  | OPop :: r => let '(h1, b1) := pop' h b in run_ops z r h1 b1
  | OAdj :: r => run_ops z r h (fst (adjudicate_no_legal_moves h b))
  end.

Definition castle_okb (b : board) (m : move) : bool := negb (is_castle m) || negb (has_castled b (b_turn b)).
Lemma castle_okb_ok : forall b m, castle_okb b m = true -> castle_ok b m.
Proof.
  intros b m H Hc. unfold castle_okb in H. rewrite Hc in H. cbn in H.
  destruct (has_castled b (b_turn b)); [discriminate|reflexivity].
Qed.

(** [run_d g z ops h b d]: run [ops] from depth [d]; [None] if a pop would go below depth 0 (below the
    starting point / the fork point), or - when [g] is set - a successful push violates [castle_ok].
    A failed push is a no-op and does not change the depth. *)
Fixpoint run_d (g : bool) (z : ztable) (ops : list bop) (h : heap) (b : board) (d : nat)
  : option (heap * board * nat) :=
  match ops with
  | [] => Some (h, b, d)
  | OPush m :: r =>
    let '(h1, b1, ok) := pushw z h b m in
    if ok then (if g && negb (castle_okb b m) then None else run_d g z r h1 b1 (S d))
    else run_d g z r h1 b1 d
  | OPop :: r =>
    match d with
    | O => None
    | S d' => let '(h1, b1) := pop' h b in run_d g z r h1 b1 d'
    end
  | OAdj :: r => run_d g z r h (fst (adjudicate_no_legal_moves h b)) d
  end.

Lemma run_d_run_ops : forall g z ops h b d h2 b2 d2,
  run_d g z ops h b d = Some (h2, b2, d2) -> run_ops z ops h b = (h2, b2).
Proof.
  intros g z. induction ops as [|[m| |] r IH]; intros h b d h2 b2 d2 H; cbn [run_d run_ops] in *.
  - inversion H; reflexivity.
  - destruct (pushw z h b m) as [[h1 b1] ok]. destruct ok.
    + destruct (g && negb (castle_okb b m)); [discriminate|]. eapply IH; eauto.
    + eapply IH; eauto.
  - destruct d as [|d']; [discriminate|]. destruct (pop' h b) as [h1 b1]. eapply IH; eauto.
  - eapply IH; eauto.
Qed.

Lemma run_d_guard : forall z ops h b d x, run_d true z ops h b d = Some x -> run_d false z ops h b d = Some x.
Proof.
  intros z. induction ops as [|[m| |] r IH]; intros h b d x H; cbn [run_d] in *; auto.
  - destruct (pushw z h b m) as [[h1 b1] ok]. destruct ok; auto.
    cbn [andb] in *. destruct (negb (castle_okb b m)); [discriminate|]. auto.
  - destruct d as [|d']; [discriminate|]. destruct (pop' h b) as [h1 b1]. auto.
Qed.

(** take back [d] moves *)
Fixpoint unwind (d : nat) (h : heap) (b : board) : heap * board :=
  match d with
  | O => (h, b)
  | S d' => let '(h1, b1) := pop' h b in unwind d' h1 b1
  end.

Lemma wf_pop' : forall h b, wf h b -> wf (fst (pop' h b)) (snd (pop' h b)).
Proof.
  intros h b Hwf. unfold pop'. destruct (pop_move h b) as [[[h1 b1] m] ok] eqn:E. cbn.
  eapply wf_pop; eauto.
Qed.

Lemma pop'_congr : forall h b h' b', wf h b -> wf h' b' -> beq_nr h b h' b' ->
  beq_nr (fst (pop' h b)) (snd (pop' h b)) (fst (pop' h' b')) (snd (pop' h' b')).
Proof.
  intros h b h' b' Hwf Hwf' Heq. unfold pop'.
  destruct (pop_move h b) as [[[h1 b1] m] ok] eqn:E. destruct (pop_move h' b') as [[[h1' b1'] m'] ok'] eqn:E'.
  cbn. destruct (pop_congr _ _ _ _ Hwf Hwf' Heq _ _ _ _ _ _ _ _ E E') as (_ & _ & H & _). exact H.
Qed.

Lemma wf_unwind : forall d h b, wf h b -> wf (fst (unwind d h b)) (snd (unwind d h b)).
Proof.
  induction d as [|d IH]; intros h b Hwf; cbn [unwind]; auto.
  pose proof (wf_pop' _ _ Hwf) as H. destruct (pop' h b) as [h1 b1]. apply IH. exact H.
Qed.

Lemma unwind_congr : forall d h b h' b', wf h b -> wf h' b' -> beq_nr h b h' b' ->
  beq_nr (fst (unwind d h b)) (snd (unwind d h b)) (fst (unwind d h' b')) (snd (unwind d h' b')).
Proof.
  induction d as [|d IH]; intros h b h' b' Hwf Hwf' Heq; cbn [unwind]; auto.
  pose proof (wf_pop' _ _ Hwf) as H. pose proof (wf_pop' _ _ Hwf') as H'.
  pose proof (pop'_congr _ _ _ _ Hwf Hwf' Heq) as Hc.
  destruct (pop' h b) as [h1 b1]. destruct (pop' h' b') as [h1' b1']. apply IH; auto.
Qed.

Lemma beq_nr_refl : forall h b, beq_nr h b h b.
Proof. intros h b. repeat split; auto. Qed.
Lemma beq_nr_trans : forall h1 b1 h2 b2 h3 b3, beq_nr h1 b1 h2 b2 -> beq_nr h2 b2 h3 b3 -> beq_nr h1 b1 h3 b3.
Proof.
  intros h1 b1 h2 b2 h3 b3 (H1 & H2 & H3 & H4 & H5 & H6 & H7 & H8 & H9 & H10 & H11 & H12 & H13 & H14)
         (G1 & G2 & G3 & G4 & G5 & G6 & G7 & G8 & G9 & G10 & G11 & G12 & G13 & G14).
  repeat split; try congruence.
Qed.
Lemma beq_nr_sym : forall h b h' b', beq_nr h b h' b' -> beq_nr h' b' h b.
Proof.
  intros h b h' b' (H1 & H2 & H3 & H4 & H5 & H6 & H7 & H8 & H9 & H10 & H11 & H12 & H13 & H14).
  repeat split; auto.
Qed.

(** main invariant: taking back all the moves that are still on the board gives the start again *)
Lemma run_d_unwind : forall z ops h b d h2 b2 d2, wf h b ->
  run_d true z ops h b d = Some (h2, b2, d2) ->
  wf h2 b2 /\
  beq_nr (fst (unwind d2 h2 b2)) (snd (unwind d2 h2 b2)) (fst (unwind d h b)) (snd (unwind d h b)).
Proof.
  intros z. induction ops as [|[m| |] r IH]; intros h b d h2 b2 d2 Hwf H; cbn [run_d] in H.
  - inversion H; subst. split; auto. apply beq_nr_refl.
  - destruct (pushw z h b m) as [[h1 b1] ok] eqn:Hpush.
    pose proof (wf_push _ _ _ _ _ _ _ _ _ _ _ Hwf Hpush) as Hwf1.
    destruct ok.
    + cbn [andb] in H. destruct (castle_okb b m) eqn:Hg; [|discriminate]. cbn [negb] in H.
      destruct (IH _ _ _ _ _ _ Hwf1 H) as (Hwf2 & Heq). split; auto.
      eapply beq_nr_trans; [exact Heq|]. cbn [unwind].
      destruct (pop_push_id_gen z h b m h1 b1 Hwf (castle_okb_ok _ _ Hg) Hpush)
        as (hp & bp & Hpop & Hwfp & Hv & _).
      unfold pop'. rewrite Hpop. cbn [fst]. apply unwind_congr; auto.
    + apply push_heap in Hpush. destruct Hpush as [(_ & -> & ->)|(E & _)]; [|discriminate].
      eapply IH; eauto.
  - destruct d as [|d']; [discriminate|]. cbn [unwind].
    pose proof (wf_pop' _ _ Hwf) as Hwf1. destruct (pop' h b) as [h1 b1]. eapply IH; eauto.
  - assert (Hwf1 : wf h (fst (adjudicate_no_legal_moves h b))) by exact Hwf.
    destruct (IH _ _ _ _ _ _ Hwf1 H) as (Hwf2 & Heq). split; auto.
    eapply beq_nr_trans; [exact Heq|]. apply unwind_congr; auto. repeat split; auto.
Qed.

(** balanced sequences restore the view (result excepted) *)
Theorem balanced_id_gen : forall z ops h b h2 b2, wf h b ->
  run_d true z ops h b 0 = Some (h2, b2, 0) ->
  run_ops z ops h b = (h2, b2) /\ wf h2 b2 /\ beq_nr h2 b2 h b.
Proof.
  intros z ops h b h2 b2 Hwf H. split; [eapply run_d_run_ops; eauto|].
  destruct (run_d_unwind _ _ _ _ _ _ _ _ Hwf H) as (Hwf2 & Heq). split; auto.
Qed.

End AOps.
