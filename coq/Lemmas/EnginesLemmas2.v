(** EnginesLemmas2 — C20, parts 2 and 3: [Selection]/[truncate] and BERNSTEIN's FindPlausibleMoves. *)
From Coq Require Import NArith ZArith List Bool Lia Permutation.
From Morlock.Model Require Import Bits Attacks Move Position Abs Search Fen Engines.
From Morlock.Lemmas Require Import MoveRefines EnginesLemmas1.
Import ListNotations.

(* ------------------------------------------------------------------ *)
(** * move equality *)

Lemma move_eqb_refl m : move_eqb m m = true.
Proof. unfold move_eqb. now rewrite !N.eqb_refl. Qed.

Lemma move_eqb_iff a b : move_eqb a b = true <-> a = b.
Proof. split; [apply move_eqb_eq|]. intros ->. apply move_eqb_refl. Qed.

(* ------------------------------------------------------------------ *)
(** * Selection *)

Lemma sel_rank_in l m : (exists v, sel_rank l m = Some v) <-> In m l.
Proof.
  induction l as [|x r IH]; cbn [sel_rank In].
  - split; [intros [v H]; discriminate|intros []].
  - destruct (sel_rank r m) as [v|] eqn:E.
    + split; [intros _; right; apply IH; now exists v|intros _; now exists v].
    + destruct (move_eqb x m) eqn:Ex.
      * apply move_eqb_iff in Ex. split; [intros _; now left|intros _; eexists; reflexivity].
      * split; [intros [v H]; discriminate|].
        intros [->|H]; [rewrite move_eqb_refl in Ex; discriminate|].
        apply IH in H as [v H]. discriminate.
Qed.

(** [pick m := In m list] *)
Theorem sel_pick_in l m : sel_pick l m = true <-> In m l.
Proof.
  unfold sel_pick. rewrite <- sel_rank_in. destruct (sel_rank l m) as [v|].
  - split; [intros _; now exists v|reflexivity].
  - split; [discriminate|intros [v H]; discriminate].
Qed.

(** priorities: positive exactly on the list, earlier moves first when there are no duplicates *)
Lemma sel_rank_range l m v : sel_rank l m = Some v -> (1 <= v <= Z.of_nat (length l))%Z.
Proof.
  revert v. induction l as [|x r IH]; intros v; cbn [sel_rank]; [discriminate|].
  destruct (sel_rank r m) as [w|].
  - intros [= <-]. specialize (IH w eq_refl). cbn [length]. lia.
  - destruct (move_eqb x m); [|discriminate]. intros [= <-]. cbn [length]. lia.
Qed.

Theorem sel_priority_pos l m : (0 < sel_priority l m)%Z <-> In m l.
Proof.
  rewrite <- sel_rank_in. unfold sel_priority. destruct (sel_rank l m) as [v|] eqn:E.
  - apply sel_rank_range in E. split; [intros _; now exists v|lia].
  - split; [lia|intros [v H]; discriminate].
Qed.

Lemma sel_rank_head x r : ~ In x r -> sel_rank (x :: r) x = Some (Z.of_nat (S (length r))).
Proof.
  intros H. cbn [sel_rank]. destruct (sel_rank r x) as [v|] eqn:E.
  - exfalso. apply H. apply sel_rank_in. now exists v.
  - now rewrite move_eqb_refl.
Qed.

(** in a duplicate-free list the head has the strictly largest priority *)
Theorem sel_priority_head x r m : NoDup (x :: r) -> In m r -> (sel_priority (x :: r) m < sel_priority (x :: r) x)%Z.
Proof.
  intros Hnd Hm. inversion Hnd as [|? ? Hx Hr]; subst.
  unfold sel_priority. rewrite (sel_rank_head x r Hx).
  cbn [sel_rank]. destruct (sel_rank r m) as [v|] eqn:E.
  - apply sel_rank_range in E. lia.
  - exfalso. apply sel_rank_in in Hm as [v Hv]. congruence.
Qed.

(* ------------------------------------------------------------------ *)
(** * truncate *)

Lemma truncate_incl {A} (l : list A) k : incl (truncate l k) l.
Proof.
  unfold truncate. destruct ((0 <? k)%Z && (k <? Z.of_nat (length l))%Z); [|apply incl_refl].
  intros x Hx. rewrite <- (firstn_skipn (Z.to_nat k) l). apply in_or_app. now left.
Qed.

Lemma truncate_length {A} (l : list A) k : (0 < k)%Z -> (length (truncate l k) <= Z.to_nat k)%nat.
Proof.
  intros Hk. unfold truncate. destruct (Z.ltb_spec 0 k); [|lia]. cbn [andb].
  destruct (Z.ltb_spec k (Z.of_nat (length l))).
  - rewrite firstn_length. lia.
  - lia.
Qed.

Lemma truncate_length_le {A} (l : list A) k : (length (truncate l k) <= length l)%nat.
Proof.
  unfold truncate. destruct ((0 <? k)%Z && (k <? Z.of_nat (length l))%Z); [|lia].
  rewrite firstn_length. lia.
Qed.

Lemma truncate_nonempty {A} (l : list A) k : l <> [] -> truncate l k <> [].
Proof.
  intros Hl. unfold truncate. destruct (Z.ltb_spec 0 k); cbn [andb]; [|exact Hl].
  destruct (Z.ltb_spec k (Z.of_nat (length l))); [|exact Hl].
  destruct l as [|a l]; [congruence|]. destruct (Z.to_nat k) eqn:E; [lia|]. cbn. discriminate.
Qed.

Lemma NoDup_app_l {A} (a b : list A) : NoDup (a ++ b) -> NoDup a.
Proof.
  induction a as [|x a IH]; cbn; [constructor|]. intros H. inversion H as [|? ? Hx Hr]; subst.
  constructor; [|now apply IH]. intros Hin. apply Hx. apply in_or_app. now left.
Qed.

Lemma truncate_nodup {A} (l : list A) k : NoDup l -> NoDup (truncate l k).
Proof.
  intros H. unfold truncate. destruct ((0 <? k)%Z && (k <? Z.of_nat (length l))%Z); [|exact H].
  rewrite <- (firstn_skipn (Z.to_nat k) l) in H. now apply NoDup_app_l in H.
Qed.

Lemma truncate_prefix {A} (l : list A) k : exists r, l = truncate l k ++ r.
Proof.
  unfold truncate. destruct ((0 <? k)%Z && (k <? Z.of_nat (length l))%Z).
  - exists (skipn (Z.to_nat k) l). now rewrite firstn_skipn.
  - exists []. now rewrite app_nil_r.
Qed.

(** C20 (2) *)
Theorem selection_sound (l : list move) (k : Z) :
  (forall m, snd (selection (truncate l k)) m = true -> In m l) /\
  ((0 < k)%Z -> forall cands, NoDup cands ->
      (length (filter (snd (selection (truncate l k))) cands) <= Z.to_nat k)%nat) /\
  (l <> [] -> exists m, In m l /\ snd (selection (truncate l k)) m = true).
Proof.
  cbn [selection snd]. split; [|split].
  - intros m H. apply sel_pick_in in H. now apply truncate_incl in H.
  - intros Hk cands Hnd. transitivity (length (truncate l k)); [|now apply truncate_length].
    apply NoDup_incl_length; [now apply NoDup_filter|].
    intros m Hm. apply filter_In in Hm as [_ Hm]. now apply sel_pick_in.
  - intros Hl. pose proof (truncate_nonempty l k Hl) as Hn.
    destruct (truncate l k) as [|m r] eqn:E; [congruence|].
    exists m. split; [apply (truncate_incl l k); rewrite E; now left|].
    apply sel_pick_in. now left.
Qed.

(** what the main search explores under a selection of legal moves: exactly the truncated list *)
Theorem explored_selection p turn l k : incl l (legal_moves p turn) ->
  forall m, In m (explored (snd (selection (truncate l k))) p turn) <-> In m (truncate l k).
Proof.
  intros Hl m. unfold explored. cbn [selection snd]. rewrite filter_In, sel_pick_in. split; [tauto|].
  intros H. split; [|exact H]. apply Hl. now apply truncate_incl in H.
Qed.

(* ------------------------------------------------------------------ *)
(** * SortByPriority is a permutation *)

Lemma insert_by_perm pri m l : Permutation (insert_by pri m l) (m :: l).
Proof.
  induction l as [|x r IH]; cbn [insert_by]; [apply Permutation_refl|].
  destruct (pri m <? pri x)%Z; [|apply Permutation_refl].
  eapply perm_trans; [apply perm_skip, IH|apply perm_swap].
Qed.

Theorem sort_by_priority_perm pri l : Permutation (sort_by_priority pri l) l.
Proof.
  induction l as [|x r IH]; cbn [sort_by_priority fold_right]; [apply perm_nil|].
  eapply perm_trans; [apply insert_by_perm|]. now apply perm_skip.
Qed.

(** ... and really sorts (descending), stably *)
Inductive desc (pri : move -> Z) : list move -> Prop :=
| desc_nil : desc pri []
| desc_cons x l : (forall y, In y l -> (pri y <= pri x)%Z) -> desc pri l -> desc pri (x :: l).

Lemma insert_by_desc pri m l : desc pri l -> desc pri (insert_by pri m l).
Proof.
  induction 1 as [|x l Hx Hd IH]; cbn [insert_by].
  - constructor; [intros y []|constructor].
  - destruct (Z.ltb_spec (pri m) (pri x)).
    + constructor; [|exact IH]. intros y Hy.
      apply (Permutation_in _ (insert_by_perm pri m l)) in Hy as [<-|Hy]; [lia|now apply Hx].
    + constructor; [|now constructor]. intros y [<-|Hy]; [lia|]. specialize (Hx y Hy). lia.
Qed.

Theorem sort_by_priority_desc pri l : desc pri (sort_by_priority pri l).
Proof. induction l as [|x r IH]; cbn [sort_by_priority fold_right]; [constructor|now apply insert_by_desc]. Qed.

(* ------------------------------------------------------------------ *)
(** * FindPlausibleMoves *)

Section Plausible.
  Variables (is_move_safe is_safe_origin : move -> bool) (pos : position) (side : N).
  Local Notation base := (plausible_base pos side).
  Local Notation fpm := (find_plausible_moves is_move_safe is_safe_origin pos side).
  Local Notation nup := (filter is_not_underpromotion (legal_moves pos side)).

  Lemma base_perm : Permutation base nup.
  Proof.
    unfold plausible_base, find_moves.
    eapply perm_trans; [apply sort_by_priority_perm|apply sort_by_priority_perm].
  Qed.

  (** the three branches *)
  Definition in_check_branch : Prop := is_checked pos side = true.
  Definition castle_branch : Prop := is_checked pos side = false /\ pm_castle_flag is_move_safe is_safe_origin pos side base = true.
  Definition general_branch : Prop := is_checked pos side = false /\ pm_castle_flag is_move_safe is_safe_origin pos side base = false.

  (** check branch and general branch: all non-under-promotion legal moves, reordered *)
  Theorem plausible_check_perm : in_check_branch -> Permutation fpm nup.
  Proof.
    unfold in_check_branch, find_plausible_moves. intros ->.
    eapply perm_trans; [apply sort_by_priority_perm|apply base_perm].
  Qed.

  Theorem plausible_general_perm : general_branch -> Permutation fpm nup.
  Proof.
    unfold general_branch, find_plausible_moves. intros [-> ->].
    eapply perm_trans; [apply sort_by_priority_perm|apply base_perm].
  Qed.

  (** castle branch: the moves that got a rank from rules 2-3, reordered *)
  Theorem plausible_castle_perm : castle_branch ->
    Permutation fpm (filter (fun m => (0 <? pm_rank1 is_move_safe is_safe_origin pos side m)%Z) base).
  Proof.
    unfold castle_branch, find_plausible_moves, find_moves. intros [-> ->]. apply sort_by_priority_perm.
  Qed.

  Lemma fpm_sub : exists f, Permutation fpm (filter f base).
  Proof.
    destruct (is_checked pos side) eqn:Ec.
    - exists (fun _ => true). eapply perm_trans; [now apply plausible_check_perm|].
      apply Permutation_sym. eapply perm_trans; [|apply base_perm].
      clear. induction base as [|x r IH]; cbn; [constructor|now constructor].
    - destruct (pm_castle_flag is_move_safe is_safe_origin pos side base) eqn:Ef.
      + eexists. now apply plausible_castle_perm.
      + exists (fun _ => true). eapply perm_trans; [now apply plausible_general_perm|].
        apply Permutation_sym. eapply perm_trans; [|apply base_perm].
        clear. induction base as [|x r IH]; cbn; [constructor|now constructor].
  Qed.

  Lemma base_nodup : NoDup base.
  Proof.
    apply (Permutation_NoDup (Permutation_sym base_perm)). apply NoDup_filter, legal_moves_nodup.
  Qed.

  (** C20 (3) *)
  Theorem plausible_subset_legal :
    (forall m, In m fpm -> In m (legal_moves pos side) /\ is_underpromotion m = false) /\
    NoDup fpm /\
    ((exists m, In m (legal_moves pos side) /\ is_underpromotion m = false) -> fpm <> []).
  Proof.
    destruct fpm_sub as [f Hf]. split; [|split].
    - intros m Hm. apply (Permutation_in _ Hf) in Hm. apply filter_In in Hm as [Hm _].
      apply (Permutation_in _ base_perm) in Hm. now apply underpromo_filter_sound.
    - apply (Permutation_NoDup (Permutation_sym Hf)). apply NoDup_filter, base_nodup.
    - intros [m [Hm Hu]].
      assert (Hb : In m base).
      { apply (Permutation_in _ (Permutation_sym base_perm)). apply filter_In. split; [exact Hm|].
        unfold is_not_underpromotion. now rewrite Hu. }
      assert (G : exists x, In x fpm).
      { destruct (is_checked pos side) eqn:Ec.
        - exists m. apply (Permutation_in _ (Permutation_sym (plausible_check_perm Ec))).
          now apply (Permutation_in _ base_perm).
        - destruct (pm_castle_flag is_move_safe is_safe_origin pos side base) eqn:Ef.
          + (* the castling move itself carries rank 20 *)
            pose proof Ef as Ef'. unfold pm_castle_flag in Ef. apply existsb_exists in Ef as [x [Hx Hr]].
            exists x. apply (Permutation_in _ (Permutation_sym (plausible_castle_perm (conj Ec Ef')))) .
            apply filter_In. split; [exact Hx|]. apply Z.eqb_eq in Hr. rewrite Hr. reflexivity.
          + exists m. apply (Permutation_in _ (Permutation_sym (plausible_general_perm (conj Ec Ef)))).
            now apply (Permutation_in _ base_perm). }
      destruct G as [x Hx]. intros E. rewrite E in Hx. destruct Hx.
  Qed.
End Plausible.

(** PlausibleMoveTable.Explore: for ANY static-exchange predicates, what the main search explores is a
    duplicate-free set of legal non-under-promotion moves, within the branch limit, and it is not empty
    whenever the position has a legal move. *)
Theorem plausible_explore_ok is_move_safe is_safe_origin pos side limit :
  wf_b pos side = true -> (side = 0 \/ side = 1)%N ->
  let ex := explored (snd (plausible_explore is_move_safe is_safe_origin pos side limit)) pos side in
  (forall m, In m ex -> In m (legal_moves pos side) /\ is_underpromotion m = false) /\
  NoDup ex /\
  ((0 < limit)%Z -> (length ex <= Z.to_nat limit)%nat) /\
  (legal_moves pos side <> [] -> ex <> []).
Proof.
  intros Hwf Hc ex. subst ex. unfold plausible_explore.
  set (fpm := find_plausible_moves is_move_safe is_safe_origin pos side).
  destruct (plausible_subset_legal is_move_safe is_safe_origin pos side) as [Hsub [Hnd Hne]]. fold fpm in Hsub, Hnd, Hne.
  assert (Hincl : incl fpm (legal_moves pos side)) by (intros m Hm; now apply Hsub).
  pose proof (explored_selection pos side fpm limit Hincl) as Hex.
  split; [|split; [|split]].
  - intros m Hm. apply Hex in Hm. apply truncate_incl in Hm. now apply Hsub.
  - unfold explored. apply NoDup_filter, legal_moves_nodup.
  - intros Hk. unfold explored. apply (proj1 (proj2 (selection_sound fpm limit)) Hk). apply legal_moves_nodup.
  - intros Hl. pose proof (underpromo_filter_nonstarving pos side Hwf Hc Hl) as Hn.
    assert (Hf : fpm <> []).
    { apply Hne. destruct (filter is_not_underpromotion (legal_moves pos side)) as [|m r] eqn:E; [congruence|].
      exists m. apply underpromo_filter_sound. rewrite E. now left. }
    destruct (proj2 (proj2 (selection_sound fpm limit)) Hf) as [m [Hm Hp]].
    assert (Hin : In m (explored (snd (selection (truncate fpm limit))) pos side)).
    { unfold explored. apply filter_In. split; [now apply Hincl|exact Hp]. }
    intros E. rewrite E in Hin. destruct Hin.
Qed.

Print Assumptions selection_sound.
Print Assumptions sort_by_priority_perm.
Print Assumptions plausible_subset_legal.
Print Assumptions plausible_explore_ok.
