(** The window-agnostic alpha-beta contract on ideal scores: relation [iR], loop invariant [iLInv]
    and the one-child step lemmas (C13, C03).  Pure order theory on [iscore] (Lemmas/SearchScore.v);
    no reference to the search model. *)
From Coq Require Import ZArith Bool Lia List.
From Morlock.Model Require Import Score.
From Morlock.Lemmas Require Import ScoreLemmas SearchScore.
Open Scope Z_scope.

(** [r] is consistent with the true value [v] for the window [(a, b)]: exact, or a fail-low answer
    between [v] and [a], or a fail-high answer between [b] and [v].  No assumption [a < b]. *)
Definition iR (a b v r : iscore) : Prop :=
  r = v \/ (ile v r /\ ile r a) \/ (ile b r /\ ile r v).

(** loop invariant: [a0] the alpha the node was entered with, [acc] the true running maximum,
    [A] the running alpha *)
Definition iLInv (a0 acc A : iscore) : Prop :=
  (A = a0 /\ ile acc a0) \/ (ilt a0 A /\ A = acc).

Lemma ilt_le a b : ilt a b -> ile a b.
Proof. unfold ilt; intros H; destruct (ile_total a b); tauto. Qed.
Lemma ile_lt_trans a b c : ile a b -> ilt b c -> ilt a c.
Proof. unfold ilt; intros H1 H2 H3; apply H2; eapply ile_trans; eauto. Qed.
Lemma ilt_le_trans a b c : ilt a b -> ile b c -> ilt a c.
Proof. unfold ilt; intros H1 H2 H3; apply H1; eapply ile_trans; eauto. Qed.
Lemma ile_or_lt a b : ile a b \/ ilt b a.
Proof. unfold ilt. destruct (ileb a b) eqn:E. left; now apply ileb_spec.
  right; intro H; apply ileb_spec in H; congruence. Qed.
Lemma ilt_irrefl a : ~ ilt a a.
Proof. unfold ilt. intros H; apply H, ile_refl. Qed.
Lemma imax_cases a b : (ilt a b /\ imax a b = b) \/ (ile b a /\ imax a b = a).
Proof. unfold imax. destruct (iltb a b) eqn:E.
  - left; split; auto. now apply iltb_spec.
  - right; split; auto. destruct (ile_or_lt b a) as [|H]; auto. apply iltb_spec in H; congruence. Qed.
Lemma imax_ge_l a b : ile a (imax a b).
Proof. destruct (imax_cases a b) as [[H ->]|[H ->]]; [now apply ilt_le|apply ile_refl]. Qed.
Lemma imax_ge_r a b : ile b (imax a b).
Proof. destruct (imax_cases a b) as [[H ->]|[H ->]]; [apply ile_refl|assumption]. Qed.
Lemma imax_lub a b c : ile a c -> ile b c -> ile (imax a b) c.
Proof. intros; destruct (imax_cases a b) as [[_ ->]|[_ ->]]; auto. Qed.
Lemma imax_comm a b : imax a b = imax b a.
Proof.
  destruct (imax_cases a b) as [[H ->]|[H ->]]; destruct (imax_cases b a) as [[H' ->]|[H' ->]]; auto.
  - exfalso. apply H. now apply ilt_le.
  - apply ile_antisym; assumption.
Qed.
Lemma imax_assoc a b c : imax (imax a b) c = imax a (imax b c).
Proof.
  apply ile_antisym.
  - apply imax_lub; [apply imax_lub|].
    + apply imax_ge_l.
    + eapply ile_trans; [apply imax_ge_l|apply imax_ge_r].
    + eapply ile_trans; [apply imax_ge_r|apply imax_ge_r].
  - apply imax_lub; [|apply imax_lub].
    + eapply ile_trans; [apply imax_ge_l|apply imax_ge_l].
    + eapply ile_trans; [apply imax_ge_r|apply imax_ge_l].
    + apply imax_ge_r.
Qed.
Lemma imax_lt_top a b : ilt a itop -> ilt b itop -> ilt (imax a b) itop.
Proof. intros; destruct (imax_cases a b) as [[_ ->]|[_ ->]]; auto. Qed.

Lemma iA2 s v : ilt v itop -> (ile (iT v) s <-> ile (iU s) v).
Proof. intros Hv. pose proof (iA1 s v Hv) as H. unfold ilt in H.
  split; intro H1.
  - destruct (ile_or_lt (iU s) v) as [|H2]; auto. apply H in H2. tauto.
  - destruct (ile_or_lt (iT v) s) as [|H2]; auto. apply H in H2. tauto. Qed.

Lemma child_low vc b r : ile vc r -> ile r (iU b) -> ile b (iT r) \/ r = vc.
Proof. intros Hv Hr.
  destruct (ile_or_lt (iU b) r) as [Hge|Hlt].
  - destruct (iTU_ge b) as [H|H].
    + left. eapply ile_trans; [exact H|]. now apply iT_anti.
    + right. apply ile_antisym; auto. eapply ile_trans; [exact Hr|apply H].
  - left. apply ilt_le. apply iA1; auto. eapply ilt_le_trans; [exact Hlt|apply ile_top]. Qed.

(** * Step lemmas *)
Lemma step_end a0 b acc A : iLInv a0 acc A -> iR a0 b acc A.
Proof.
  intros [[H1 H2]|[H1 H2]].
  - right; left. subst A. split; [assumption|apply ile_refl].
  - left. assumption.
Qed.

(** a cut (or loop exit) at an alpha that the last child did not raise *)
Lemma step_cut_same a0 b acc A v : iLInv a0 acc A -> ile b A -> ile acc v -> iR a0 b v A.
Proof.
  intros HI Cut Hacc. destruct HI as [[H1 H2]|[H1 H2]].
  - subst A. destruct (ile_or_lt v a0) as [H|H].
    + right; left. split; [assumption|apply ile_refl].
    + right; right. split; auto. now apply ilt_le.
  - subst A. right; right. split; auto.
Qed.

(** one explored child: [vc] its true value, [r] the answer of its search on the window
    [(U b, U A)] *)
Lemma step_child a0 b acc A vc r :
  iLInv a0 acc A -> iR (iU b) (iU A) vc r -> ilt vc itop ->
  (ile b (imax A (iT r)) -> forall v, ile (imax acc (iT vc)) v -> iR a0 b v (imax A (iT r))) /\
  (ilt (imax A (iT r)) b ->
     iLInv a0 (imax acc (iT vc)) (imax A (iT r)) /\ (ilt A (iT r) -> r = vc)).
Proof.
  intros HI HR Hvtop.
  set (acc' := imax acc (iT vc)).
  assert (Htv : ile (iT vc) acc') by apply imax_ge_r.
  assert (Hacc0 : ile acc acc') by apply imax_ge_l.
  assert (Hchild : r = vc \/ (ile vc r /\ ile b (iT r)) \/ (ile (iT vc) (iT r) /\ ile (iT r) A)).
  { destruct HR as [He|[[H1 H2]|[H1 H2]]].
    - now left.
    - destruct (child_low vc b r H1 H2) as [H|H]; [right; left; auto|now left].
    - right; right. split. now apply iT_anti.
      apply iA2; auto. eapply ile_lt_trans; [exact H2|exact Hvtop]. }
  destruct (imax_cases A (iT r)) as [[Hup Heq]|[Hno Heq]]; rewrite Heq.
  - (* alpha raised to T r *)
    assert (HTr : ile (iT r) (iT vc)).
    { destruct Hchild as [H|[[H _]|[_ H]]].
      - subst r. apply ile_refl.
      - now apply iT_anti.
      - exfalso. apply Hup. exact H. }
    split.
    + intros Cut v Hv. right; right. split; auto.
      eapply ile_trans; [exact HTr|]. eapply ile_trans; [exact Htv|exact Hv].
    + intros NoCut.
      assert (Hex : r = vc).
      { destruct Hchild as [H|[[_ H]|[_ H]]]; auto.
        - exfalso. apply NoCut. exact H.
        - exfalso. apply Hup. exact H. }
      split; [|intros _; exact Hex]. subst r.
      right. split.
      * destruct HI as [[H1 H2]|[H1 H2]].
        -- subst A. exact Hup.
        -- eapply ilt_le_trans; [exact H1|]. now apply ilt_le.
      * unfold acc'. destruct (imax_cases acc (iT vc)) as [[_ ->]|[Hle ->]]; auto.
        exfalso. apply Hup. eapply ile_trans; [exact Hle|].
        destruct HI as [[H1 H2]|[H1 H2]]; subst A; [assumption|apply ile_refl].
  - (* alpha unchanged: T r <= A *)
    split.
    + intros Cut v Hv. apply (step_cut_same a0 b acc A v HI Cut).
      eapply ile_trans; [exact Hacc0|exact Hv].
    + intros NoCut. split.
      2:{ intros H. exfalso. apply H. exact Hno. }
      assert (Hv : ile (iT vc) A).
      { destruct Hchild as [H|[[H1 H2]|[H1 H2]]].
        - subst r. exact Hno.
        - exfalso. apply NoCut. eapply ile_trans; [exact H2|exact Hno].
        - eapply ile_trans; [exact H1|exact H2]. }
      destruct HI as [[H1 H2]|[H1 H2]].
      * left. split; auto. subst A. apply imax_lub; auto.
      * right. split; auto. subst A. apply ile_antisym.
        -- apply imax_ge_l.
        -- apply imax_lub; [apply ile_refl|exact Hv].
Qed.

(** * Reading the contract *)
Lemma iR_inside a b v r : iR a b v r -> ilt a r -> ilt r b -> r = v.
Proof.
  intros [H|[[H1 H2]|[H1 H2]]] Ha Hb; auto.
  - exfalso. apply Ha. exact H2.
  - exfalso. apply Hb. exact H1.
Qed.

Lemma iR_full v r : iR ibot itop v r -> ilt v itop -> r = v.
Proof.
  intros [H|[[H1 H2]|[H1 H2]]] Hv; auto.
  - apply ile_antisym; [|assumption]. eapply ile_trans; [exact H2|apply ile_bot].
  - exfalso. apply Hv. eapply ile_trans; [exact H1|exact H2].
Qed.

(** the three cases of the property statement, for a proper window *)
Lemma iR_window a b v r : ilt a b -> iR a b v r ->
  (ile v a -> ile v r /\ ile r a) /\ (ilt a v -> ilt v b -> r = v) /\ (ile b v -> ile b r /\ ile r v).
Proof.
  intros Hab H. split; [|split].
  - intros Hva. destruct H as [H|[[H1 H2]|[H1 H2]]].
    + subst r. split; [apply ile_refl|assumption].
    + split; auto.
    + exfalso. apply Hab. eapply ile_trans; [exact H1|]. eapply ile_trans; [exact H2|exact Hva].
  - intros Hav Hvb. destruct H as [H|[[H1 H2]|[H1 H2]]]; auto.
    + exfalso. apply Hav. eapply ile_trans; [exact H1|exact H2].
    + exfalso. apply Hvb. eapply ile_trans; [exact H1|exact H2].
  - intros Hbv. destruct H as [H|[[H1 H2]|[H1 H2]]].
    + subst r. split; [assumption|apply ile_refl].
    + exfalso. apply Hab. eapply ile_trans; [exact Hbv|]. eapply ile_trans; [exact H1|exact H2].
    + split; auto.
Qed.
