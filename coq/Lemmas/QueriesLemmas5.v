(** QueriesLemmas5 — FindPins (pkg/eval/pins.go) against its specification [spec_pins]. *)
From Coq Require Import NArith ZArith List Bool Lia ZifyBool ZifyNat ZifyN Permutation.
From Morlock.Model Require Import Bits Attacks Move Position Abs Queries.
From Morlock.Spec Require Import Chess.
From Morlock.Lemmas Require Import AttackGeometry AttackGeometry_Extra PositionLemmas MoveGen1 MoveGen2
  QueriesLemmas1 QueriesLemmas2 QueriesLemmas3 QueriesLemmas4.
Import ListNotations.
Open Scope N_scope.

Lemma kind_eqb_eq a b : kind_eqb a b = true <-> a = b.
Proof. destruct a, b; cbn; split; intros H; try reflexivity; discriminate. Qed.

(* ------------------------------------------------------------------ *)
(** * the specification, one direction at a time *)

Definition spec_pin_dir (b : mboard) (c : color) (t : nat) (slider : kind) (d : Z * Z) : list (nat * nat * nat) :=
  match first_occupied b (file_of t) (rank_of t) (fst d) (snd d) 7 with
  | Some p =>
      if is_color b c p then
        match first_occupied b (file_of p) (rank_of p) (fst d) (snd d) 7 with
        | Some a => match at_ b a with
                    | Some (c', k) => if color_eqb c' (other c) && (kind_eqb k Q || kind_eqb k slider) then [(a, p, t)] else []
                    | None => []
                    end
        | None => []
        end
      else []
  | None => []
  end.
Definition spec_go (b : mboard) (c : color) (t : nat) (dirs : list (Z * Z)) (slider : kind) :=
  flat_map (spec_pin_dir b c t slider) dirs.

Lemma spec_pins_on_go b c t : spec_pins_on b c t = spec_go b c t rook_dirs R ++ spec_go b c t bishop_dirs Bi.
Proof. reflexivity. Qed.

Definition pin_dir_ok (b : mboard) (c : color) (t : nat) (slider : kind) (d : Z * Z) (a p : nat) : Prop :=
  first_occupied b (file_of t) (rank_of t) (fst d) (snd d) 7 = Some p /\
  is_color b c p = true /\
  first_occupied b (file_of p) (rank_of p) (fst d) (snd d) 7 = Some a /\
  exists k', at_ b a = Some (other c, k') /\ (k' = Q \/ k' = slider).

Lemma in_spec_pin_dir b c t slider d a p t' :
  In (a, p, t') (spec_pin_dir b c t slider d) <-> t' = t /\ pin_dir_ok b c t slider d a p.
Proof.
  unfold spec_pin_dir, pin_dir_ok. split.
  - destruct (first_occupied b (file_of t) (rank_of t) (fst d) (snd d) 7) as [p0|]; [|intros []].
    destruct (is_color b c p0) eqn:Ec; [|intros []].
    destruct (first_occupied b (file_of p0) (rank_of p0) (fst d) (snd d) 7) as [a0|] eqn:Ea; [|intros []].
    destruct (at_ b a0) as [[c' k]|] eqn:Eat; [|intros []].
    destruct (color_eqb c' (other c)) eqn:E1; [|intros []]. cbn [andb].
    destruct (kind_eqb k Q || kind_eqb k slider) eqn:E2; [|intros []].
    intros [H|[]]. injection H as <- <- <-. apply color_eqb_eq in E1. subst c'.
    split; [reflexivity|]. split; [reflexivity|]. split; [exact Ec|]. split; [exact Ea|].
    exists k. split; [exact Eat|]. apply orb_true_iff in E2 as [E2|E2]; apply kind_eqb_eq in E2; auto.
  - intros [-> [H1 [H2 [H3 [k' [H4 H5]]]]]]. rewrite H1, H2, H3, H4.
    rewrite (proj2 (color_eqb_eq _ _) eq_refl). cbn [andb].
    assert (E : kind_eqb k' Q || kind_eqb k' slider = true).
    { apply orb_true_iff. destruct H5 as [->| ->]; [left|right]; now apply kind_eqb_eq. }
    rewrite E. now left.
Qed.

Lemma nodup_spec_pin_dir b c t slider d : NoDup (spec_pin_dir b c t slider d).
Proof.
  unfold spec_pin_dir.
  repeat match goal with
  | |- NoDup [] => constructor
  | |- NoDup [_] => constructor; [intros []|constructor]
  | |- NoDup (match ?x with _ => _ end) => destruct x
  | |- NoDup (if ?x then _ else _) => destruct x
  | |- NoDup (let (_, _) := ?x in _) => destruct x
  end.
Qed.

Lemma in_spec_go b c t dirs slider a p t' :
  In (a, p, t') (spec_go b c t dirs slider) <-> t' = t /\ exists d, In d dirs /\ pin_dir_ok b c t slider d a p.
Proof.
  unfold spec_go. rewrite in_flat_map. split.
  - intros [d [Hd H]]. apply in_spec_pin_dir in H as [-> H]. eauto.
  - intros [-> [d [Hd H]]]. exists d. split; [exact Hd|]. now apply in_spec_pin_dir.
Qed.

Lemma nodup_dirs8 : NoDup dirs8.
Proof.
  unfold dirs8, rook_dirs, bishop_dirs. cbn [app].
  repeat (constructor; [cbn [In]; intros H; repeat (destruct H as [H|H]; [discriminate|]); exact H|]).
  constructor.
Qed.
Lemma nodup_rook_dirs : NoDup rook_dirs.
Proof.
  unfold rook_dirs.
  repeat (constructor; [cbn [In]; intros H; repeat (destruct H as [H|H]; [discriminate|]); exact H|]).
  constructor.
Qed.
Lemma nodup_bishop_dirs : NoDup bishop_dirs.
Proof.
  unfold bishop_dirs.
  repeat (constructor; [cbn [In]; intros H; repeat (destruct H as [H|H]; [discriminate|]); exact H|]).
  constructor.
Qed.

Lemma first_occupied_on_line b t d p :
  first_occupied b (file_of t) (rank_of t) (fst d) (snd d) 7 = Some p -> In p (line t d).
Proof. rewrite first_occupied_line. intros H. apply find_some in H. tauto. Qed.

Lemma nodup_spec_go b c t dirs slider : (t < 64)%nat -> NoDup dirs -> (forall d, In d dirs -> In d dirs8) ->
  NoDup (spec_go b c t dirs slider).
Proof.
  intros Ht Hnd Hsub. unfold spec_go. apply nodup_flat_map; [exact Hnd| |].
  - intros d _. apply nodup_spec_pin_dir.
  - intros d d' [[a p] t'] Hd Hd' H1 H2.
    apply in_spec_pin_dir in H1 as [_ [H1 _]]. apply in_spec_pin_dir in H2 as [_ [H2 _]].
    apply (line_disj t d d' p Ht); [now apply Hsub|now apply Hsub| |];
      eapply first_occupied_on_line; eassumption.
Qed.

Lemma nodup_spec_pins_on b c t : (t < 64)%nat -> NoDup (spec_pins_on b c t).
Proof.
  intros Ht. rewrite spec_pins_on_go. apply nodup_app.
  - apply nodup_spec_go; auto using nodup_rook_dirs, in_dirs8_rook.
  - apply nodup_spec_go; auto using nodup_bishop_dirs, in_dirs8_bishop.
  - intros [[a p] t'] H1 H2.
    apply in_spec_go in H1 as [_ [d [Hd [H1 _]]]]. apply in_spec_go in H2 as [_ [d' [Hd' [H2 _]]]].
    assert (d = d').
    { apply (line_disj t d d' p Ht); [now apply in_dirs8_rook|now apply in_dirs8_bishop| |];
        eapply first_occupied_on_line; eassumption. }
    subst d'. exact (rook_bishop_dirs_disjoint d Hd Hd').
Qed.

Lemma spec_pins_on_third b c t a p t' : In (a, p, t') (spec_pins_on b c t) -> t' = t.
Proof.
  rewrite spec_pins_on_go, in_app_iff. intros [H|H]; apply in_spec_go in H; tauto.
Qed.

Lemma in_spec_pins b c k a p t :
  In (a, p, t) (spec_pins b c k) <->
  (t < 64)%nat /\ at_ b t = Some (c, k) /\ In (a, p, t) (spec_pins_on b c t).
Proof.
  unfold spec_pins. rewrite in_flat_map. split.
  - intros [t0 [Ht0 H]]. apply in_all_squares in Ht0.
    destruct (at_ b t0) as [[c' k']|] eqn:E; [|destruct H].
    destruct (color_eqb c c') eqn:E1; [|destruct H]. destruct (kind_eqb k k') eqn:E2; [|destruct H].
    cbn [andb] in H. apply color_eqb_eq in E1. apply kind_eqb_eq in E2. subst c' k'.
    pose proof (spec_pins_on_third _ _ _ _ _ _ H) as ->. auto.
  - intros [Ht [E H]]. exists t. split; [now apply in_all_squares|].
    rewrite E, (proj2 (color_eqb_eq _ _) eq_refl), (proj2 (kind_eqb_eq _ _) eq_refl). exact H.
Qed.

Lemma nodup_spec_pins b c k : NoDup (spec_pins b c k).
Proof.
  unfold spec_pins. apply nodup_flat_map; [apply seq_NoDup| |].
  - intros t Ht. apply in_all_squares in Ht. destruct (at_ b t) as [[c' k']|]; [|constructor].
    destruct (color_eqb c c' && kind_eqb k k'); [|constructor]. now apply nodup_spec_pins_on.
  - intros t t' [[a p] t0] _ _ H1 H2.
    assert (E : forall x, In (a, p, t0) (match at_ b x with
                 | Some (c', k') => if color_eqb c c' && kind_eqb k k' then spec_pins_on b c x else []
                 | None => [] end) -> t0 = x).
    { intros x H. destruct (at_ b x) as [[c' k']|]; [|destruct H].
      destruct (color_eqb c c' && kind_eqb k k'); [|destruct H]. eapply spec_pins_on_third; eassumption. }
    rewrite <- (E t H1). now apply E.
Qed.

(* ------------------------------------------------------------------ *)
(** * the model, one target at a time *)

Definition pins_on (pos : position) (side target : N) : list (N * N * N) :=
  pins_on_line pos side target rook_attackboard Rook ++ pins_on_line pos side target bishop_attackboard Bishop.

Lemma find_pins_unfold pos side piece :
  find_pins pos side piece = flat_map (pins_on pos side) (bits_asc (pget pos side piece)).
Proof. reflexivity. Qed.

Lemma vpc_Rook : vpc Rook. Proof. unfold vpc, Rook. lia. Qed.
Lemma vpc_Bishop : vpc Bishop. Proof. unfold vpc, Bishop. lia. Qed.

(** one sweep of the model = one [go] of the specification *)
Lemma sweep_spec pos side t ab dirs sk a p t' : Inv pos -> vcol side -> t < 64 ->
  line_ok ab dirs -> (forall d, In d dirs -> In d dirs8) ->
  (In (a, p, t') (pins_on_line pos side t ab (code_of_kind sk)) <->
   t' = t /\ a < 64 /\ p < 64 /\
   In (N.to_nat a, N.to_nat p, N.to_nat t) (spec_go (brd (abs_pos pos)) (color_of side) (N.to_nat t) dirs sk)).
Proof.
  intros HI Hc Ht Hab Hsub.
  rewrite (in_pins_on_line pos side t ab dirs (code_of_kind sk) HI Hc Ht Hab Hsub (vpc_code sk)).
  rewrite in_spec_go. unfold pin_geometry, pin_dir_ok. split.
  - intros [-> [Hown [Hatt [d [Hd [H1 H2]]]]]].
    destruct (own_occupied pos side HI Hc p Hown) as [Hp _].
    destruct (attacker_occupied pos side t (code_of_kind sk) HI Ht (vpc_code sk) a Hatt) as [Ha _].
    split; [reflexivity|]. split; [exact Ha|]. split; [exact Hp|]. split; [reflexivity|].
    exists d. split; [exact Hd|]. split; [exact H1|]. split; [now apply own_bit_is_color|].
    split; [exact H2|]. now apply attacker_bit_at.
  - intros [-> [Ha [Hp [_ [d [Hd [H1 [H2 [H3 H4]]]]]]]]].
    split; [reflexivity|]. split; [now apply own_bit_is_color|]. split; [now apply attacker_bit_at|].
    exists d. auto.
Qed.

Lemma in_pins_on pos side t a p t' : Inv pos -> vcol side -> t < 64 ->
  (In (a, p, t') (pins_on pos side t) <->
   t' = t /\ a < 64 /\ p < 64 /\
   In (N.to_nat a, N.to_nat p, N.to_nat t) (spec_pins_on (brd (abs_pos pos)) (color_of side) (N.to_nat t))).
Proof.
  intros HI Hc Ht. unfold pins_on. rewrite spec_pins_on_go, !in_app_iff.
  change Rook with (code_of_kind R). change Bishop with (code_of_kind Bi).
  rewrite (sweep_spec pos side t rook_attackboard rook_dirs R a p t' HI Hc Ht rook_line_ok in_dirs8_rook).
  rewrite (sweep_spec pos side t bishop_attackboard bishop_dirs Bi a p t' HI Hc Ht bishop_line_ok in_dirs8_bishop).
  tauto.
Qed.

Lemma nodup_pins_on pos side t : Inv pos -> vcol side -> t < 64 -> NoDup (pins_on pos side t).
Proof.
  intros HI Hc Ht. unfold pins_on. apply nodup_app; try apply nodup_pins_on_line.
  intros [[a p] t'] H1 H2.
  assert (H : In (a, p, t') (pins_on pos side t)) by (unfold pins_on; apply in_or_app; now left).
  apply in_pins_on in H as [_ [_ [_ H]]]; try assumption.
  change Rook with (code_of_kind R) in H1. change Bishop with (code_of_kind Bi) in H2.
  apply (sweep_spec pos side t rook_attackboard rook_dirs R a p t' HI Hc Ht rook_line_ok in_dirs8_rook) in H1
    as [_ [_ [_ H1]]].
  apply (sweep_spec pos side t bishop_attackboard bishop_dirs Bi a p t' HI Hc Ht bishop_line_ok in_dirs8_bishop) in H2
    as [_ [_ [_ H2]]].
  apply in_spec_go in H1 as [_ [d [Hd [H1 _]]]]. apply in_spec_go in H2 as [_ [d' [Hd' [H2 _]]]].
  assert (d = d').
  { apply (line_disj (N.to_nat t) d d' (N.to_nat p)); [lia|now apply in_dirs8_rook|now apply in_dirs8_bishop| |];
      eapply first_occupied_on_line; eassumption. }
  subst d'. exact (rook_bishop_dirs_disjoint d Hd Hd').
Qed.

Lemma pins_on_line_third pos side t ab slider a p t' :
  In (a, p, t') (pins_on_line pos side t ab slider) -> t' = t.
Proof.
  rewrite pins_on_line_unfold, in_flat_map. intros [p0 [_ H]].
  destruct (_ =? 0); [destruct H|]. destruct H as [H|[]]. now inversion H.
Qed.

Lemma pins_on_third pos side t a p t' : In (a, p, t') (pins_on pos side t) -> t' = t.
Proof.
  unfold pins_on. rewrite in_app_iff. intros [H|H]; eapply pins_on_line_third; eassumption.
Qed.

(* ------------------------------------------------------------------ *)
(** * the theorem *)

Definition pin_nat (x : N * N * N) : nat * nat * nat :=
  (N.to_nat (fst (fst x)), N.to_nat (snd (fst x)), N.to_nat (snd x)).

Lemma nodup_find_pins pos side piece : Inv pos -> vcol side -> NoDup (find_pins pos side piece).
Proof.
  intros HI Hc. rewrite find_pins_unfold. apply nodup_flat_map; [apply bits_asc_nodup| |].
  - intros t Ht. apply bits_asc_spec in Ht. apply nodup_pins_on; auto.
    eapply word_tb_lt; [apply pget_word; exact HI|exact Ht].
  - intros t t' [[a p] t0] _ _ H1 H2. apply pins_on_third in H1, H2. congruence.
Qed.

Theorem find_pins_perm pos side k : Inv pos -> vcol side ->
  Permutation (map pin_nat (find_pins pos side (code_of_kind k)))
              (spec_pins (brd (abs_pos pos)) (color_of side) k).
Proof.
  intros HI Hc. apply NoDup_Permutation.
  - apply nodup_map_inj; [|now apply nodup_find_pins].
    intros [[a p] t] [[a' p'] t'] _ _ E. unfold pin_nat in E. cbn [fst snd] in E.
    injection E as E1 E2 E3. apply N2Nat.inj in E1, E2, E3. congruence.
  - apply nodup_spec_pins.
  - intros [[an pn] tn]. rewrite in_map_iff, in_spec_pins. split.
    + intros [[[a p] t'] [E H]]. unfold pin_nat in E. cbn [fst snd] in E. injection E as <- <- <-.
      rewrite find_pins_unfold, in_flat_map in H. destruct H as [t [Ht H]].
      apply bits_asc_spec in Ht.
      assert (Ht64 : t < 64) by (eapply word_tb_lt; [apply pget_word; exact HI|exact Ht]).
      apply in_pins_on in H as [-> [_ [_ H]]]; try assumption.
      split; [lia|]. split; [now apply at_piece|exact H].
    + intros [Ht [Hat H]].
      assert (Ht64 : N.of_nat tn < 64) by lia.
      replace tn with (N.to_nat (N.of_nat tn)) in Hat, H by lia.
      apply at_piece in Hat; try assumption.
      rewrite spec_pins_on_go, in_app_iff in H.
      assert (Hlt : (an < 64)%nat /\ (pn < 64)%nat).
      { destruct H as [H|H]; apply in_spec_go in H as [_ [d [_ [H1 [_ [H2 _]]]]]];
          apply first_occupied_on_line, line_lt in H1, H2; auto. }
      exists (N.of_nat an, N.of_nat pn, N.of_nat tn). split.
      * unfold pin_nat. cbn [fst snd]. now rewrite !Nat2N.id.
      * rewrite find_pins_unfold, in_flat_map. exists (N.of_nat tn). split; [now apply bits_asc_spec|].
        apply in_pins_on; try assumption. split; [reflexivity|]. split; [lia|]. split; [lia|].
        rewrite (Nat2N.id an), (Nat2N.id pn). rewrite spec_pins_on_go, in_app_iff. exact H.
Qed.

(** (b) FindPins, with squares mapped to nat, is a permutation of the specification's list of pins *)
Theorem find_pins_spec : forall pos side piece k,
  inv_b pos = true -> (side = White \/ side = Black) -> kind_of piece = Some k ->
  Permutation (map pin_nat (find_pins pos side piece))
              (spec_pins (brd (abs_pos pos)) (color_of side) k).
Proof.
  intros pos side piece k HI Hc Hk. apply inv_b_iff in HI. apply kind_of_some in Hk. subst piece.
  now apply find_pins_perm.
Qed.

Print Assumptions find_pins_spec.
