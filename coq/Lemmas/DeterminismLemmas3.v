(** C18, part 3: heap boards.  [zrel z1 z2 g1 g2]: two heap boards carry the same game, one hashed with the
    key table [z1], the other with [z2]; they agree on everything but the hashes.  The operations the search
    performs keep the relation and answer alike; hence ([search_independent_of_zobrist]) a search without a
    table returns the same node count, score, principal variation, halted flag and poll count on both, and
    hands back related boards. *)
From Coq Require Import NArith ZArith List Bool Lia.
From Morlock.Model Require Import Bits Score Attacks Move Position Abs Zobrist Board Search TT SearchBoard.
From Morlock.Spec Require Import Chess Game.
From Morlock.Lemmas Require Import PositionLemmas BoardHeap1 BoardHeap2 BoardHeap3 GameLemmas3 GameLemmas4
  DeterminismLemmas1 DeterminismLemmas2.
Import ListNotations.
Open Scope N_scope.

(** * the relation *)
Definition gabs (g : gboard) : aboard := abs (fst g) (snd g).

(** one board, one key table: a well-formed heap board whose history is a legal game from a legal start, every
    history node carrying [zhash z (its position) (the side to move there)], and whose repetition map counts
    the history nodes per hash *)
Definition ZOK (z : ztable) (g : gboard) : Prop := wf (fst g) (snd g) /\ AInv z (gabs g).

(** two boards, two key tables: both are as above and they agree on everything except hashes (history of
    positions and clocks, recorded moves, side to move, castled flags, ply, move number, result) *)
Definition zrel (z1 z2 : ztable) (g1 g2 : gboard) : Prop :=
  ZOK z1 g1 /\ ZOK z2 g2 /\ nohash (gabs g1) = nohash (gabs g2).

(** the node of the game tree a board stands at: history of (position, clock), side to move *)
Definition gnode := (list (position * N) * N)%type.
Definition node_of (g : gboard) : gnode := (strip (a_data (gabs g)), a_turn (gabs g)).
Definition zrel_at (z1 z2 : ztable) (p : gnode) (g1 g2 : gboard) : Prop := zrel z1 z2 g1 g2 /\ node_of g1 = p.
Definition node_move (p : gnode) (m : move) : Prop := In m (pseudo_legal_moves (sd_pos (fst p)) (snd p)).

Lemma zrel_node z1 z2 g1 g2 : zrel z1 z2 g1 g2 -> node_of g1 = node_of g2.
Proof.
  intros (_ & _ & H). destruct (nohash_fields _ _ H) as (Hd & _ & Ht & _). unfold node_of. now rewrite Hd, Ht.
Qed.

Lemma zrel_sym z1 z2 g1 g2 : zrel z1 z2 g1 g2 -> zrel z2 z1 g2 g1.
Proof. intros (A & B & C). split; [exact B|]. split; [exact A|]. symmetry. exact C. Qed.

Lemma zrel_trans z1 z2 z3 g1 g2 g3 : zrel z1 z2 g1 g2 -> zrel z2 z3 g2 g3 -> zrel z1 z3 g1 g3.
Proof. intros (A & B & C) (_ & E & F). split; [exact A|]. split; [exact E|]. now rewrite C. Qed.

(** boards with the same list view are interchangeable *)
Lemma ZOK_abs z g g' : ZOK z g -> wf (fst g') (snd g') -> gabs g' = gabs g -> ZOK z g'.
Proof. intros [_ H] Hwf E. split; [exact Hwf|]. rewrite E. exact H. Qed.

Lemma zrel_abs_r z1 z2 g1 g2 g2' : zrel z1 z2 g1 g2 -> wf (fst g2') (snd g2') -> gabs g2' = gabs g2 -> zrel z1 z2 g1 g2'.
Proof.
  intros (A & B & C) Hwf E. split; [exact A|]. split; [exact (ZOK_abs _ _ _ B Hwf E)|]. rewrite E. exact C.
Qed.

Lemma shaped_abs h b : shaped (abs h b).
Proof.
  unfold shaped, abs. cbn [a_nexts a_data]. unfold nexts, data. rewrite !map_length.
  destruct (chain h (b_current b)); reflexivity.
Qed.

Lemma ZOK_facts z g : ZOK z g ->
  a_data (gabs g) <> [] /\ vcol (a_turn (gabs g)) /\
  b_position (fst g) (snd g) = sd_pos (strip (a_data (gabs g))).
Proof.
  intros [Hwf [Hh _]]. split; [exact (hist_nonempty z _ _ Hh)|]. split.
  - destruct Hwf as (_ & _ & _ & [Ht|Ht]); [left|right]; exact Ht.
  - rewrite (get_position _ _ Hwf). apply a_position_strip.
Qed.

Section Two.
Variables z1 z2 : ztable.
Hypothesis Hz1 : zt_ok z1.
Hypothesis Hz2 : zt_ok z2.
Notation R := (zrel_at z1 z2).

(** ** draw flag, generated moves *)
Lemma gb_draw_zrel g1 g2 : zrel z1 z2 g1 g2 -> gb_draw g1 = gb_draw g2.
Proof.
  intros (_ & _ & H). destruct (nohash_fields _ _ H) as (_ & _ & _ & _ & _ & _ & _ & Hr).
  unfold gb_draw. cbn [gabs abs a_result] in Hr. now rewrite Hr.
Qed.

Lemma gb_moves_node z g : ZOK z g -> gb_moves g = pseudo_legal_moves (sd_pos (fst (node_of g))) (snd (node_of g)).
Proof. intros H. destruct (ZOK_facts z g H) as (_ & _ & Hp). unfold gb_moves. rewrite Hp. reflexivity. Qed.

Lemma gb_moves_zrel g1 g2 : zrel z1 z2 g1 g2 -> gb_moves g1 = gb_moves g2.
Proof.
  intros H. pose proof H as (A & B & _).
  rewrite (gb_moves_node z1 g1 A), (gb_moves_node z2 g2 B), (zrel_node _ _ _ _ H). reflexivity.
Qed.

(** ** pop *)
Theorem pop_zrel g1 g2 : zrel z1 z2 g1 g2 -> zrel z1 z2 (gb_pop g1) (gb_pop g2).
Proof.
  intros ((W1 & I1) & (W2 & I2) & Hnh).
  unfold gb_pop.
  destruct (pop_move (fst g1) (snd g1)) as [[[h1 b1] m1] ok1] eqn:E1.
  destruct (pop_move (fst g2) (snd g2)) as [[[h2 b2] m2] ok2] eqn:E2.
  pose proof (wf_pop_move _ _ _ _ _ _ W1 E1) as W1'. pose proof (wf_pop_move _ _ _ _ _ _ W2 E2) as W2'.
  pose proof (pop_sim _ _ _ _ _ _ W1 E1) as S1. pose proof (pop_sim _ _ _ _ _ _ W2 E2) as S2.
  destruct (apop_zrel z1 z2 (gabs g1) (gabs g2) (shaped_abs _ _) (shaped_abs _ _) I1 I2 Hnh) as (_ & _ & K & K1 & K2 & _).
  unfold gabs in K, K1, K2. rewrite S1 in K, K1. rewrite S2 in K, K2. cbn [fst snd] in K, K1, K2.
  split; [split; assumption|]. split; [split; assumption|]. exact K.
Qed.

Lemma pop_zrel_at e d t g1 g2 : d <> [] -> R (e :: d, t) g1 g2 -> R (d, opponent t) (gb_pop g1) (gb_pop g2).
Proof.
  intros Hd [H Hn]. split; [apply pop_zrel; exact H|].
  destruct H as ((W1 & I1) & (W2 & I2) & Hnh).
  destruct (apop_zrel z1 z2 (gabs g1) (gabs g2) (shaped_abs _ _) (shaped_abs _ _) I1 I2 Hnh) as (_ & _ & _ & _ & _ & K).
  unfold node_of in Hn. pose proof (f_equal fst Hn) as Hs. pose proof (f_equal snd Hn) as Ht. cbn [fst snd] in Hs, Ht.
  destruct (K e d Hs Hd) as [Ks Kt].
  unfold gb_pop. destruct (pop_move (fst g1) (snd g1)) as [[[h1 b1] m1] ok1] eqn:E1.
  pose proof (pop_sim _ _ _ _ _ _ W1 E1) as S1. unfold gabs in Ks, Kt. rewrite S1 in Ks, Kt. cbn [fst snd] in Ks, Kt.
  unfold node_of, gabs. cbn [fst snd]. rewrite Ks, Kt. unfold gabs in Ht. rewrite Ht. reflexivity.
Qed.

(** ** push *)
Theorem push_zrel g1 g2 m : zrel z1 z2 g1 g2 -> In m (gb_moves g1) ->
  (gb_push z1 g1 m = None /\ gb_push z2 g2 m = None) \/
  exists a b, gb_push z1 g1 m = Some a /\ gb_push z2 g2 m = Some b /\ zrel z1 z2 a b /\
              b_result (snd a) = b_result (snd b) /\
              exists e, node_of a = (e :: fst (node_of g1), opponent (snd (node_of g1))).
Proof.
  intros H Hin. pose proof H as ((W1 & I1) & (W2 & I2) & Hnh).
  unfold gb_push, gb_moves in *.
  destruct (push_move z1 (fst g1) (snd g1) m) as [[h1 b1] ok1] eqn:E1.
  destruct (push_move z2 (fst g2) (snd g2) m) as [[h2 b2] ok2] eqn:E2.
  pose proof (wf_push_move _ _ _ _ _ _ _ W1 E1) as W1'. pose proof (wf_push_move _ _ _ _ _ _ _ W2 E2) as W2'.
  rewrite push_move_is_pushw in E1, E2.
  pose proof (push_sim _ _ _ _ _ _ _ _ _ _ _ W1 E1) as S1. pose proof (push_sim _ _ _ _ _ _ _ _ _ _ _ W2 E2) as S2.
  rewrite (get_position _ _ W1) in Hin.
  destruct (apush_zrel z1 z2 Hz1 Hz2 (gabs g1) (gabs g2) m _ _ _ _ I1 I2 Hnh Hin S1 S2)
    as (Eok & K & K1 & K2 & _ & Kt).
  subst ok2. destruct ok1; [right|left; auto].
  exists (h1, b1), (h2, b2). split; [reflexivity|]. split; [reflexivity|]. split.
  - split; [split; assumption|]. split; [split; assumption|]. exact K.
  - split.
    + destruct (nohash_fields _ _ K) as (_ & _ & _ & _ & _ & _ & _ & Hr). exact Hr.
    + destruct (Kt eq_refl) as [Ks Ktn]. eexists. unfold node_of, gabs. cbn [fst snd]. rewrite Ks, Ktn. reflexivity.
Qed.

(** ** AdjudicateNoLegalMoves, Adjudicate *)
Theorem mated_zrel g1 g2 : zrel z1 z2 g1 g2 ->
  snd (gb_mated g1) = snd (gb_mated g2) /\ zrel z1 z2 (fst (gb_mated g1)) (fst (gb_mated g2)) /\
  node_of (fst (gb_mated g1)) = node_of g1.
Proof.
  intros ((W1 & I1) & (W2 & I2) & Hnh). unfold gb_mated.
  destruct (adjudicate_no_legal_moves (fst g1) (snd g1)) as [b1 r1] eqn:E1.
  destruct (adjudicate_no_legal_moves (fst g2) (snd g2)) as [b2 r2] eqn:E2.
  pose proof (wf_adjudicate_nlm _ _ _ _ W1 E1) as W1'. pose proof (wf_adjudicate_nlm _ _ _ _ W2 E2) as W2'.
  pose proof (adj_nlm_sim _ _ _ _ W1 E1) as S1. pose proof (adj_nlm_sim _ _ _ _ W2 E2) as S2.
  destruct (aadj_zrel (gabs g1) (gabs g2) Hnh) as [Kr K]. unfold gabs in Kr, K. rewrite S1, S2 in Kr, K.
  cbn [fst snd] in *. subst r2. split; [reflexivity|].
  assert (A1 : abs (fst g1) b1 = aset_result (gabs g1) r1).
  { pose proof (f_equal fst S1) as Ha. pose proof (f_equal snd S1) as Hr. unfold aadj_nlm in Ha, Hr.
    cbn [fst snd] in Ha, Hr. rewrite <- Ha, Hr. reflexivity. }
  assert (A2 : abs (fst g2) b2 = aset_result (gabs g2) r1).
  { pose proof (f_equal fst S2) as Ha. pose proof (f_equal snd S2) as Hr. unfold aadj_nlm in Ha, Hr.
    cbn [fst snd] in Ha, Hr. rewrite <- Ha, Hr. reflexivity. }
  split.
  - split; [split; [exact W1'|]|split; [split; [exact W2'|]|exact K]]; unfold gabs; cbn [fst snd].
    + rewrite A1. exact I1.
    + rewrite A2. exact I2.
  - unfold node_of, gabs at 1 2. cbn [fst snd]. rewrite A1. reflexivity.
Qed.

Lemma adjudicate_zrel g1 g2 r : zrel z1 z2 g1 g2 ->
  zrel z1 z2 (fst g1, adjudicate (snd g1) r) (fst g2, adjudicate (snd g2) r) /\
  node_of (fst g1, adjudicate (snd g1) r) = node_of g1.
Proof.
  intros ((W1 & I1) & (W2 & I2) & Hnh). split; [|reflexivity].
  split; [split; [apply wf_adjudicate; exact W1|exact I1]|].
  split; [split; [apply wf_adjudicate; exact W2|exact I2]|].
  exact (aset_result_nohash _ _ r r Hnh eq_refl).
Qed.

(** * exploration policies and leaf evaluations that do not look at hashes *)
Definition explore_blind (ex : gboard -> (move -> Z) * (gboard -> move -> bool)) : Prop :=
  forall g1 g2, zrel z1 z2 g1 g2 ->
    (forall m, fst (ex g1) m = fst (ex g2) m) /\
    (forall a b m, zrel z1 z2 a b -> snd (ex g1) a m = snd (ex g2) b m).
Definition leaf_blind (leaf : gboard -> Z) : Prop := forall g1 g2, zrel z1 z2 g1 g2 -> leaf g1 = leaf g2.

Lemma full_exploration_blind : explore_blind full_exploration.
Proof. intros g1 g2 _. split; reflexivity. Qed.
Lemma captures_only_blind : explore_blind captures_only.
Proof. intros g1 g2 _. split; reflexivity. Qed.
Lemma material_blind : leaf_blind material.
Proof.
  intros g1 g2 H. pose proof H as (A & B & Hnh).
  destruct (ZOK_facts _ _ A) as (_ & _ & P1). destruct (ZOK_facts _ _ B) as (_ & _ & P2).
  destruct (nohash_fields _ _ Hnh) as (Hd & _ & Ht & _). cbn [gabs abs a_turn] in Ht.
  unfold material. rewrite P1, P2, Hd, Ht. reflexivity.
Qed.

(** * the search *)
Section Run.
Variables explore qexplore : gboard -> (move -> Z) * (gboard -> move -> bool).
Variable leaf : gboard -> Z.
Variable cancel : nat -> bool.
Variable use_q : bool.
Variable qfuel : nat.
Hypothesis Hex : explore_blind explore.
Hypothesis Hqex : explore_blind qexplore.
Hypothesis Hleaf : leaf_blind leaf.

Theorem search_independent_of_zobrist g1 g2 ponder depth low high : zrel z1 z2 g1 g2 ->
  exists st1 st2 nodes sc pv halted,
    search_board z1 explore qexplore leaf cancel use_q qfuel g1 NoTT ponder depth low high = (st1, nodes, sc, pv, halted) /\
    search_board z2 explore qexplore leaf cancel use_q qfuel g2 NoTT ponder depth low high = (st2, nodes, sc, pv, halted) /\
    zrel z1 z2 (s_g gboard ttv st1) (s_g gboard ttv st2) /\
    node_of (s_g gboard ttv st1) = node_of g1 /\
    s_polls gboard ttv st1 = s_polls gboard ttv st2 /\
    s_tt gboard ttv st1 = NoTT /\ s_tt gboard ttv st2 = NoTT.
Proof.
  intros H. unfold search_board.
  destruct (ab_search_sim gboard gboard gb_draw gb_draw gb_hash gb_hash gb_ply gb_ply gb_moves gb_moves
              (gb_push z1) (gb_push z2) gb_pop gb_pop gb_mated gb_mated gb_clear_draw gb_clear_draw gb_restore gb_restore
              ttv ttv ttv_read ttv_read ttv_write ttv_write explore qexplore explore qexplore leaf leaf cancel use_q qfuel
              gnode R node_move (fun t1 t2 => t1 = NoTT /\ t2 = NoTT))
    with (p := node_of g1) (g1 := g1) (g2 := g2) (t1 := NoTT) (t2 := NoTT) (ponder := ponder) (depth := depth)
         (low := low) (high := high)
    as (y1 & y2 & nodes & sc & pv & halted & F1 & F2 & (HR & Hn) & (T1 & T2) & _ & Epolls & _).
  - intros p a b [K _]. apply gb_draw_zrel. exact K.
  - intros p a b [K Kn]. split; [apply gb_moves_zrel; exact K|].
    intros m Hm. unfold node_move. rewrite <- Kn. rewrite (gb_moves_node z1 a (proj1 K)) in Hm. exact Hm.
  - intros p a b m [K Kn] Hm.
    assert (Hin : In m (gb_moves a)).
    { rewrite (gb_moves_node z1 a (proj1 K)), Kn. exact Hm. }
    destruct (push_zrel a b m K Hin) as [[E1 E2]|(a' & b' & E1 & E2 & K' & _ & e & Kn')]; [left; auto|right].
    exists a', b', (node_of a'). split; [exact E1|]. split; [exact E2|]. split; [split; [exact K'|reflexivity]|].
    intros a'' b'' HR''. rewrite Kn' in HR''.
    destruct (ZOK_facts z1 a (proj1 K)) as (Hne & Hv & _).
    assert (Hd : fst (node_of a) <> []).
    { unfold node_of. cbn [fst]. unfold strip. intros E. apply Hne. destruct (a_data (gabs a)); [reflexivity|discriminate]. }
    pose proof (pop_zrel_at _ _ _ _ _ Hd HR'') as Hp.
    unfold node_of at 2 in Hp. cbn [snd] in Hp. rewrite (opp_opp _ Hv) in Hp.
    rewrite <- Kn. destruct (node_of a) as [d t] eqn:En. cbn [fst] in Hp.
    unfold node_of in En. inversion En; subst. exact Hp.
  - intros p a b [K Kn]. destruct (mated_zrel a b K) as (E & K' & Kn'). split; [exact E|].
    split; [exact K'|]. rewrite Kn'. exact Kn.
  - intros p a b [K Kn]. unfold gb_clear_draw. destruct (adjudicate_zrel a b (mkResult Undecided NoReason) K) as [K' Kn'].
    split; [exact K'|]. rewrite Kn'. exact Kn.
  - intros p0 p a0 b0 a b [K0 _] [K Kn]. unfold gb_restore.
    assert (Er : b_result (snd a0) = b_result (snd b0)).
    { destruct K0 as (_ & _ & Hnh). destruct (nohash_fields _ _ Hnh) as (_ & _ & _ & _ & _ & _ & _ & Hr). exact Hr. }
    rewrite <- Er. destruct (adjudicate_zrel a b (b_result (snd a0)) K) as [K' Kn'].
    split; [exact K'|]. rewrite Kn'. exact Kn.
  - intros p a b [K _]. destruct (Hex a b K) as [A B]. split; [exact A|].
    intros p' x y m [K' _]. apply B. exact K'.
  - intros p a b [K _]. destruct (Hqex a b K) as [A B]. split; [exact A|].
    intros p' x y m [K' _]. apply B. exact K'.
  - intros p a b [K _]. apply Hleaf. exact K.
  - intros p a b t1 t2 _ [-> ->]. reflexivity.
  - intros p a b t1 t2 bd d sc m _ [-> ->]. split; reflexivity.
  - split; [exact H|reflexivity].
  - split; reflexivity.
  - exists y1, y2, nodes, sc, pv, halted. auto 10.
Qed.

End Run.
End Two.

Print Assumptions push_zrel.
Print Assumptions pop_zrel.
Print Assumptions mated_zrel.
Print Assumptions search_independent_of_zobrist.
