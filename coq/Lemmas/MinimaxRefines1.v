(** MinimaxRefines, part 1: folds of [smax] do not depend on the order (nor on the multiplicity) of the
    children.

    [sfold vs acc] is the accumulation loop shared by [mm]/[qv] (Lemmas/SearchContract.v, through [vfold]) and
    [spec_mm]/[spec_qv] (Spec/Minimax.v): [acc := smax acc (T v)] for every child value [v].
    On valid scores whose mate distance stays inside int8 ([okm]) the ideal value [iabs] of the result is the
    least upper bound of [iabs acc] and the [iT (iabs v)]; hence two lists of children values with the same
    SET of ideal values give [go_eq]-equal results ([sfold_same_set]); in particular permutations do
    ([sfold_perm]).

    Leibniz equality is NOT available: [go_eq] identifies +0.0 and -0.0 (both valid heuristic scores, and
    both arise: [T zero_score] is -0.0), and [smax] keeps the first of two equal scores
    ([sfold_perm_not_leibniz]).  Validity cannot be dropped either ([sfold_invalid_order]). *)
From Coq Require Import ZArith List Bool Lia Permutation.
From Morlock.Model Require Import Score.
From Morlock.Lemmas Require Import ScoreLemmas SearchScore SearchStep.
Import ListNotations.
Open Scope Z_scope.

(** * least upper bounds of ideal scores *)
Definition gifold {A} (f : A -> option iscore) (l : list A) (acc : iscore) : iscore :=
  fold_left (fun a x => match f x with Some v => imax a v | None => a end) l acc.

Lemma gifold_ge_acc {A} (f : A -> option iscore) l : forall acc, ile acc (gifold f l acc).
Proof.
  unfold gifold. induction l as [|x r IH]; intros acc; cbn [fold_left]; [apply ile_refl|].
  eapply ile_trans; [|apply IH]. destruct (f x); [apply imax_ge_l|apply ile_refl].
Qed.

Lemma gifold_ge_elem {A} (f : A -> option iscore) l : forall acc x v, In x l -> f x = Some v -> ile v (gifold f l acc).
Proof.
  unfold gifold. induction l as [|y r IH]; intros acc x v Hin Hf; [destruct Hin|]. cbn [fold_left].
  destruct Hin as [->|Hin].
  - rewrite Hf. eapply ile_trans; [apply imax_ge_r|apply (gifold_ge_acc f r)].
  - eapply IH; eassumption.
Qed.

Lemma gifold_lub {A} (f : A -> option iscore) l u : forall acc, ile acc u ->
  (forall x v, In x l -> f x = Some v -> ile v u) -> ile (gifold f l acc) u.
Proof.
  unfold gifold. induction l as [|y r IH]; intros acc Ha Hl; cbn [fold_left]; [exact Ha|].
  apply IH.
  - destruct (f y) as [v|] eqn:E; [|exact Ha]. apply imax_lub; [exact Ha|]. apply (Hl y v); [left; reflexivity|exact E].
  - intros x v Hin. apply Hl. right; exact Hin.
Qed.

(** the result only depends on the set of values folded in *)
Lemma gifold_incl {A B} (f : A -> option iscore) (f' : B -> option iscore) l l' acc :
  (forall x v, In x l -> f x = Some v -> exists y, In y l' /\ f' y = Some v) ->
  ile (gifold f l acc) (gifold f' l' acc).
Proof.
  intros H. apply gifold_lub; [apply gifold_ge_acc|].
  intros x v Hin Hf. destruct (H x v Hin Hf) as (y & Hy & Hfy). eapply gifold_ge_elem; eassumption.
Qed.

Theorem gifold_same_set {A B} (f : A -> option iscore) (f' : B -> option iscore) l l' acc :
  (forall x v, In x l -> f x = Some v -> exists y, In y l' /\ f' y = Some v) ->
  (forall y v, In y l' -> f' y = Some v -> exists x, In x l /\ f x = Some v) ->
  gifold f l acc = gifold f' l' acc.
Proof. intros H1 H2. apply ile_antisym; apply gifold_incl; assumption. Qed.

Lemma gifold_lt_top {A} (f : A -> option iscore) l : forall acc, ilt acc itop ->
  (forall x v, In x l -> f x = Some v -> ilt v itop) -> ilt (gifold f l acc) itop.
Proof.
  unfold gifold. induction l as [|y r IH]; intros acc Ha Hl; cbn [fold_left]; [exact Ha|].
  apply IH.
  - destruct (f y) as [v|] eqn:E; [|exact Ha]. apply imax_lt_top; [exact Ha|]. apply (Hl y v); [left; reflexivity|exact E].
  - intros x v Hin. apply Hl. right; exact Hin.
Qed.

Lemma gifold_none {A} (f : A -> option iscore) l acc : (forall x, In x l -> f x = None) -> gifold f l acc = acc.
Proof.
  unfold gifold. revert acc. induction l as [|y r IH]; intros acc H; cbn [fold_left]; [reflexivity|].
  rewrite (H y (or_introl eq_refl)). apply IH. intros x Hx. apply H. right; exact Hx.
Qed.

(** * the model-level loop *)
Definition gsfold {A} (f : A -> option score) (l : list A) (acc : score) : score :=
  fold_left (fun a x => match f x with Some v => smax a (T v) | None => a end) l acc.

Definition omap_iT (o : option score) : option iscore :=
  match o with Some v => Some (iT (iabs v)) | None => None end.

Theorem gsfold_iabs {A} (f : A -> option score) k K : k <= 126 -> k + 1 <= K ->
  forall l acc, (forall x v, In x l -> f x = Some v -> okm k v) -> okm K acc ->
  okm K (gsfold f l acc) /\ iabs (gsfold f l acc) = gifold (fun x => omap_iT (f x)) l (iabs acc).
Proof.
  intros Hk HK. unfold gsfold, gifold. induction l as [|x r IH]; intros acc Hl Hacc; cbn [fold_left].
  - split; [assumption|reflexivity].
  - assert (Hr : forall y v, In y r -> f y = Some v -> okm k v) by (intros y v Hy; apply Hl; right; exact Hy).
    destruct (f x) as [v|] eqn:E; cbn [omap_iT]; [|apply IH; assumption].
    pose proof (Hl x v (or_introl eq_refl) E) as Hv.
    pose proof (okm_T k v Hv Hk) as HT.
    assert (Hacc' : okm K (smax acc (T v))).
    { destruct Hacc as [Va Ma], HT as [Vt Mt]. split; [apply valid_smax; assumption|].
      pose proof (mabs_smax acc (T v)). lia. }
    destruct (IH (smax acc (T v)) Hr Hacc') as [H1 H2]. split; [exact H1|].
    rewrite H2. rewrite iabs_smax by (eauto using okm_valid).
    rewrite iabs_T by (eauto using okm_valid, okm_inc_ok). reflexivity.
Qed.

(** the plain loop over a list of children values *)
Definition sfold (vs : list score) (acc : score) : score := fold_left (fun a v => smax a (T v)) vs acc.

Lemma sfold_gsfold vs acc : sfold vs acc = gsfold (fun v => Some v) vs acc.
Proof. reflexivity. Qed.

(** ** order and multiplicity of the children do not matter (up to Go's [==]) *)
Theorem sfold_same_set k vs vs' acc : k <= 126 -> okm (k + 1) acc ->
  (forall v, In v vs -> okm k v) -> (forall v, In v vs' -> okm k v) ->
  (forall v, In v vs -> exists v', In v' vs' /\ iabs v' = iabs v) ->
  (forall v', In v' vs' -> exists v, In v vs /\ iabs v = iabs v') ->
  go_eq (sfold vs acc) (sfold vs' acc) = true /\ valid (sfold vs acc) = true /\ valid (sfold vs' acc) = true.
Proof.
  intros Hk Hacc H1 H2 S1 S2. rewrite (sfold_gsfold vs), (sfold_gsfold vs').
  destruct (gsfold_iabs (fun v : score => Some v) k (k + 1) Hk ltac:(lia) vs acc) as [[V1 _] E1];
    [intros x v Hin E; injection E as <-; apply H1; exact Hin|exact Hacc|].
  destruct (gsfold_iabs (fun v : score => Some v) k (k + 1) Hk ltac:(lia) vs' acc) as [[V2 _] E2];
    [intros x v Hin E; injection E as <-; apply H2; exact Hin|exact Hacc|].
  split; [|split; assumption]. apply go_eq_iabs; [assumption|assumption|]. rewrite E1, E2.
  apply gifold_same_set; cbn [omap_iT].
  - intros x v Hin E. injection E as <-. destruct (S1 x Hin) as (y & Hy & Ey). exists y. split; [exact Hy|]. rewrite Ey. reflexivity.
  - intros y v Hin E. injection E as <-. destruct (S2 y Hin) as (x & Hx & Ex). exists x. split; [exact Hx|]. rewrite Ex. reflexivity.
Qed.

Corollary sfold_perm k vs vs' acc : k <= 126 -> okm (k + 1) acc -> (forall v, In v vs -> okm k v) ->
  Permutation vs vs' -> go_eq (sfold vs acc) (sfold vs' acc) = true.
Proof.
  intros Hk Hacc H1 HP.
  apply (sfold_same_set k vs vs' acc Hk Hacc H1).
  - intros v Hv. apply H1. eapply Permutation_in; [apply Permutation_sym; exact HP|exact Hv].
  - intros v Hv. exists v. split; [eapply Permutation_in; eassumption|reflexivity].
  - intros v Hv. exists v. split; [eapply Permutation_in; [apply Permutation_sym; exact HP|exact Hv]|reflexivity].
Qed.

(** Leibniz equality fails: +0.0 and -0.0 are [go_eq]-equal valid scores of equal rank, and [smax] keeps
    the first one it meets.  Children values: a dead draw (0, i.e. +0.0) and [T] of a dead draw (-0.0). *)
Example sfold_perm_not_leibniz :
  let a := zero_score in let b := T zero_score in
  valid a = true /\ valid b = true /\ go_eq a b = true /\ rank a = rank b /\ a <> b /\
  sfold [a; b] neginf_score <> sfold [b; a] neginf_score /\
  go_eq (sfold [a; b] neginf_score) (sfold [b; a] neginf_score) = true.
Proof. vm_compute. repeat split; try discriminate; reflexivity. Qed.

(** validity is needed: with [invalid_score] among the children (exhausted quiescence fuel) the loop is order
    dependent even up to [go_eq] *)
Example sfold_invalid_order :
  let h := heuristic 0 in
  sfold [invalid_score; h] neginf_score = invalid_score /\
  sfold [h; invalid_score] neginf_score = T h /\
  go_eq (sfold [invalid_score; h] neginf_score) (sfold [h; invalid_score] neginf_score) = false.
Proof. vm_compute. repeat split; reflexivity. Qed.

Print Assumptions gifold_same_set.
Print Assumptions gsfold_iabs.
Print Assumptions sfold_same_set.
Print Assumptions sfold_perm.
