(** ZobristLemmas1 — the scratch hash as a xor-fold over squares; effect of [pos_xor] on it. *)
From Coq Require Import NArith List Bool Lia ZifyBool ZifyNat ZifyN Btauto.
From Morlock.Model Require Import Bits Attacks Move Position Abs Zobrist.
From Morlock.Lemmas Require Import PositionLemmas.
Import ListNotations.
Open Scope N_scope.

(** * xor normalisation *)

Ltac gen_atoms :=
  repeat (match goal with
  | |- context [N.lxor ?a ?b] =>
      first [ lazymatch a with
              | N.lxor _ _ => fail
              | 0 => fail
              | _ => tryif is_var a then fail else (let v := fresh "v" in generalize a; intros v)
              end
            | lazymatch b with
              | N.lxor _ _ => fail
              | 0 => fail
              | _ => tryif is_var b then fail else (let v := fresh "v" in generalize b; intros v)
              end ]
  end).

Ltac xor_norm :=
  gen_atoms; apply N.bits_inj; let i := fresh "i" in intros i; rewrite ?N.lxor_spec, ?N.bits_0; btauto.

Lemma lxor_cancel_r a b : N.lxor (N.lxor a b) b = a.
Proof. rewrite N.lxor_assoc, N.lxor_nilpotent. apply N.lxor_0_r. Qed.

(** * key of a square; the board part of the hash *)

Definition keyof (z : ztable) (o : option (N * N)) (s : N) : N :=
  match o with Some (c, p) => z_piece z c p s | None => 0 end.

Definition xfold (f : N -> N) (l : list N) (acc : N) : N := fold_left (fun h s => N.lxor h (f s)) l acc.

Definition bhash (z : ztable) (pos : position) : N :=
  xfold (fun s => keyof z (square pos s) s) (seqN 64) 0.

Definition epkey (z : ztable) (e : N) : N := if negb (e =? 0) then z_enpassant z e else 0.

Lemma zhash_step z pos l : forall acc,
  fold_left (fun h sq => match square pos sq with
                         | Some (c, p) => N.lxor h (z_piece z c p sq)
                         | None => h end) l acc
  = xfold (fun s => keyof z (square pos s) s) l acc.
Proof. induction l as [|s l IH]; intros acc; [reflexivity|]. unfold xfold in *. cbn [fold_left]. rewrite IH. f_equal.
  destruct (square pos s) as [[c p]|]; cbn [keyof]; [reflexivity | now rewrite N.lxor_0_r]. Qed.

Lemma zhash_eq z pos turn :
  zhash z pos turn =
  N.lxor (N.lxor (N.lxor (bhash z pos) (z_castling z (castling pos))) (epkey z (enpassant pos))) (z_turn z turn).
Proof. unfold zhash, bhash, epkey. rewrite zhash_step.
  destruct (negb (enpassant pos =? 0)); [reflexivity | now rewrite N.lxor_0_r]. Qed.

Lemma epkey_ok z e : zt_ok z -> epkey z e = z_enpassant z e.
Proof. intros Hz. unfold epkey. destruct (N.eqb_spec e 0) as [->|Hn]; cbn [negb]; [|reflexivity].
  symmetry. apply Hz; vm_compute; discriminate. Qed.


(** * folds *)

Lemma xfold_acc f l : forall acc, xfold f l acc = N.lxor acc (xfold f l 0).
Proof. unfold xfold. induction l as [|s l IH]; intros acc; cbn [fold_left].
  - now rewrite N.lxor_0_r.
  - rewrite IH. rewrite (IH (N.lxor 0 (f s))). rewrite N.lxor_0_l. now rewrite N.lxor_assoc. Qed.

Lemma xfold_cons f s l acc : xfold f (s :: l) acc = N.lxor (N.lxor acc (f s)) (xfold f l 0).
Proof. unfold xfold. cbn [fold_left]. apply (xfold_acc f l). Qed.

Lemma xfold_ext f g l acc : (forall s, In s l -> f s = g s) -> xfold f l acc = xfold g l acc.
Proof. unfold xfold. revert acc. induction l as [|s l IH]; intros acc H; [reflexivity|]. cbn [fold_left].
  rewrite (H s) by now left. apply IH. intros; apply H; now right. Qed.

Lemma xfold_xor f g l : xfold (fun s => N.lxor (f s) (g s)) l 0 = N.lxor (xfold f l 0) (xfold g l 0).
Proof. induction l as [|s l IH]; [reflexivity|]. rewrite !xfold_cons, IH. xor_norm. Qed.

Lemma xfold_zero f l : (forall s, In s l -> f s = 0) -> xfold f l 0 = 0.
Proof. induction l as [|s l IH]; intros H; [reflexivity|]. rewrite xfold_cons, (H s) by now left.
  rewrite IH by (intros; apply H; now right). reflexivity. Qed.

Lemma xfold_app f l1 l2 acc : xfold f (l1 ++ l2) acc = xfold f l2 (xfold f l1 acc).
Proof. unfold xfold. apply fold_left_app. Qed.

Lemma bhash_set_fields z r ca ep : bhash z (mkPos (pieces r) (rotated_bb r) ca ep) = bhash z r.
Proof. unfold bhash. apply xfold_ext. intros s _. now rewrite square_set_fields. Qed.

(** changing the summand at one square *)
Lemma xfold_update f g l sq : NoDup l -> (forall s, In s l -> s <> sq -> g s = f s) ->
  xfold g l 0 = if existsb (N.eqb sq) l then N.lxor (N.lxor (xfold f l 0) (f sq)) (g sq) else xfold f l 0.
Proof. induction l as [|s l IH]; intros ND H; [reflexivity|].
  inversion ND as [|x xs Hnot ND']; subst. rewrite !xfold_cons. cbn [existsb].
  rewrite IH by (auto; intros; apply H; auto; now right).
  destruct (N.eqb_spec sq s) as [->|Hne]; cbn [orb].
  - assert (Hf : existsb (N.eqb s) l = false).
    { destruct (existsb (N.eqb s) l) eqn:E; [|reflexivity]. apply existsb_exists in E as [y [Hy Hys]].
      apply N.eqb_eq in Hys. subst. contradiction. }
    rewrite Hf. xor_norm.
  - rewrite (H s) by (auto; now left). destruct (existsb (N.eqb sq) l); xor_norm. Qed.

Lemma bhash_update z pos pos' sq v : sq < 64 ->
  (forall s, s < 64 -> square pos' s = if s =? sq then v else square pos s) ->
  bhash z pos' = N.lxor (N.lxor (bhash z pos) (keyof z (square pos sq) sq)) (keyof z v sq).
Proof. intros Hsq H. unfold bhash.
  rewrite (xfold_update (fun s => keyof z (square pos s) s) (fun s => keyof z (square pos' s) s) (seqN 64) sq).
  - assert (E : existsb (N.eqb sq) (seqN 64) = true).
    { apply existsb_exists. exists sq. split. now apply in_seqN64. apply N.eqb_refl. }
    rewrite E, (H sq Hsq), N.eqb_refl. reflexivity.
  - apply NoDup_seqN.
  - intros s Hs Hne. apply in_seqN64 in Hs. rewrite (H s Hs). destruct (N.eqb_spec s sq); [contradiction | reflexivity]. Qed.

(** * emptiness through [square] *)

Lemma is_empty_square pos sq : Inv pos -> sq < 64 -> (is_empty pos sq = true <-> square pos sq = None).
Proof. intros HI Hsq. rewrite is_empty_tb by assumption. rewrite (square_none pos sq HI Hsq).
  destruct (N.testbit (all_bb pos) sq); cbn [negb]; split; congruence. Qed.

Lemma square_vcol pos sq c p : Inv pos -> sq < 64 -> square pos sq = Some (c, p) -> (c = 0 \/ c = 1) /\ 1 <= p <= 6.
Proof. intros HI Hsq E. apply square_some in E as [Hc [Hp _]]; auto. Qed.

(** * one step of [pos_xor] *)

Theorem step_remove z pos sq c p : Inv pos -> sq < 64 -> square pos sq = Some (c, p) ->
  Inv (pos_xor pos sq c p) /\
  bhash z (pos_xor pos sq c p) = N.lxor (bhash z pos) (z_piece z c p sq) /\
  (forall s, s < 64 -> square (pos_xor pos sq c p) s = if s =? sq then None else square pos s).
Proof. intros HI Hsq E. destruct (pos_xor_remove pos sq c p HI Hsq E) as [HI' Hs].
  split; [assumption|]. split; [|assumption].
  rewrite (bhash_update z pos _ sq None Hsq Hs), E. cbn [keyof]. now rewrite N.lxor_0_r. Qed.

Theorem step_add z pos sq c p : Inv pos -> sq < 64 -> square pos sq = None -> (c = 0 \/ c = 1) -> 1 <= p <= 6 ->
  Inv (pos_xor pos sq c p) /\
  bhash z (pos_xor pos sq c p) = N.lxor (bhash z pos) (z_piece z c p sq) /\
  (forall s, s < 64 -> square (pos_xor pos sq c p) s = if s =? sq then Some (c, p) else square pos s).
Proof. intros HI Hsq E Hc Hp. apply is_empty_square in E; try assumption.
  destruct (pos_xor_add pos sq c p HI Hsq E Hc Hp) as [HI' Hs].
  split; [assumption|]. split; [|assumption].
  apply is_empty_square in E; try assumption.
  rewrite (bhash_update z pos _ sq (Some (c, p)) Hsq Hs), E. cbn [keyof]. now rewrite N.lxor_0_r. Qed.
