(** EnginesLemmas6 — C20, part 6b: the mirrored position satisfies the representation invariant and abstracts
    to the mirrored mailbox board. *)
From Coq Require Import NArith ZArith List Bool Lia ZifyBool ZifyNat ZifyN.
From Morlock.Model Require Import Bits Attacks Move Position Abs Search Fen Engines.
From Morlock.Spec Require Import Chess.
From Morlock.Lemmas Require Import PositionLemmas AttackGeometry1 MoveGen2 EnginesLemmas3 EnginesLemmas5.
Import ListNotations.
Open Scope N_scope.

(* ------------------------------------------------------------------ *)
(** * the mirror on the specification side *)

Definition mirror_nat (s : nat) : nat := N.to_nat (mirror_sq (N.of_nat s)).
Definition mirror_cell (c : cell) : cell := match c with Some (col, k) => Some (other col, k) | None => None end.
Definition mirror_board (b : mboard) : mboard := map (fun s => mirror_cell (at_ b (mirror_nat s))) (seq 0 64).
Definition mirror_rights (r : rights) : rights := mkRights (bk r) (bq r) (wk r) (wq r).
Definition mirror_spos (sp : spos) : spos :=
  mkSpos (mirror_board (brd sp)) (mirror_rights (rts sp)) (option_map mirror_nat (eps sp)).

Lemma mirror_nat_invol s : mirror_nat (mirror_nat s) = s.
Proof. unfold mirror_nat. rewrite N2Nat.id, mirror_sq_invol. apply Nat2N.id. Qed.

Lemma mirror_nat_lt s : (s < 64)%nat -> (mirror_nat s < 64)%nat.
Proof. intros H. unfold mirror_nat. assert (N.of_nat s < 64) by lia. pose proof (mirror_sq_lt _ H0). lia. Qed.

Lemma mirror_nat_N s : mirror_nat (N.to_nat s) = N.to_nat (mirror_sq s).
Proof. unfold mirror_nat. now rewrite N2Nat.id. Qed.

(* ------------------------------------------------------------------ *)
(** * Inv is preserved *)

Lemma mirror_castling_b : forallb (fun c =>
    (mirror_castling c <? 16) &&
    Bool.eqb (is_allowed (mirror_castling c) WhiteKingSideCastle) (is_allowed c BlackKingSideCastle) &&
    Bool.eqb (is_allowed (mirror_castling c) WhiteQueenSideCastle) (is_allowed c BlackQueenSideCastle) &&
    Bool.eqb (is_allowed (mirror_castling c) BlackKingSideCastle) (is_allowed c WhiteKingSideCastle) &&
    Bool.eqb (is_allowed (mirror_castling c) BlackQueenSideCastle) (is_allowed c WhiteQueenSideCastle)) (seqN 16) = true.
Proof. vm_compute. reflexivity. Qed.

Lemma mirror_castling_spec c : c < 16 ->
  mirror_castling c < 16 /\
  is_allowed (mirror_castling c) WhiteKingSideCastle = is_allowed c BlackKingSideCastle /\
  is_allowed (mirror_castling c) WhiteQueenSideCastle = is_allowed c BlackQueenSideCastle /\
  is_allowed (mirror_castling c) BlackKingSideCastle = is_allowed c WhiteKingSideCastle /\
  is_allowed (mirror_castling c) BlackQueenSideCastle = is_allowed c WhiteQueenSideCastle.
Proof.
  intros Hc. pose proof mirror_castling_b as H. rewrite forallb_forall in H.
  assert (Hin : In c (seqN 16)) by (apply in_seqN; lia).
  specialize (H c Hin). rewrite !andb_true_iff in H. destruct H as [[[[H0 H1] H2] H3] H4].
  apply N.ltb_lt in H0. apply eqb_prop in H1, H2, H3, H4. auto.
Qed.

Lemma abs_rights_mirror c : c < 16 -> abs_rights (mirror_castling c) = mirror_rights (abs_rights c).
Proof.
  intros Hc. destruct (mirror_castling_spec c Hc) as [_ [H1 [H2 [H3 H4]]]].
  unfold abs_rights, mirror_rights. cbn [wk wq bk bq]. now rewrite H1, H2, H3, H4.
Qed.

Lemma all_bb_mirror p : Inv p -> all_bb (mirror_pos p) = flip_bb (all_bb p).
Proof. intros HI. unfold all_bb at 1, mirror_pos. cbn [rotated_bb]. apply r0_new_rotated, flip_bb_word. Qed.

Theorem mirror_inv p : Inv p -> Inv (mirror_pos p).
Proof.
  intros HI. pose proof (Inv_len _ HI) as Hl. pose proof HI as [_ [HF [Hdis [Hun [Hall [Hrot [Hca Hep]]]]]]].
  unfold Inv. split; [now apply length_mirror_pieces|]. split; [|split; [|split; [|split; [|split; [|split]]]]].
  - unfold mirror_pos. cbn [pieces]. apply Forall_app. split; apply Forall_forall; intros x Hx;
      apply in_map_iff in Hx as [y [<- _]]; apply flip_bb_word.
  - intros c k c' k' Hc Hk Hc' Hk' Hne. unfold vpc in Hk, Hk'.
    rewrite (pget_mirror p c k Hl Hc) by lia. rewrite (pget_mirror p c' k' Hl Hc') by lia.
    rewrite <- flip_bb_land. rewrite Hdis; try assumption; try apply vcol_opponent; [reflexivity|].
    intros E. injection E as E1 E2. apply Hne. f_equal; [|exact E2].
    destruct Hc as [-> | ->], Hc' as [-> | ->]; try reflexivity; discriminate.
  - intros c Hc. rewrite !(pget_mirror p c) by (try assumption; unfold NoPiece, Pawn, Bishop, Knight, Rook, Queen, King; lia).
    rewrite (Hun (opponent c) (vcol_opponent c)). now rewrite !flip_bb_lor.
  - rewrite (all_bb_mirror p HI), Hall, flip_bb_lor.
    rewrite (pget_mirror p White NoPiece Hl (or_introl eq_refl)) by (unfold NoPiece; lia).
    rewrite (pget_mirror p Black NoPiece Hl (or_intror eq_refl)) by (unfold NoPiece; lia).
    change (opponent White) with Black. change (opponent Black) with White. apply N.lor_comm.
  - rewrite (all_bb_mirror p HI). reflexivity.
  - cbn [mirror_pos castling]. now apply mirror_castling_spec.
  - cbn [mirror_pos enpassant]. destruct (enpassant p =? 0); [lia|]. now apply mirror_sq_lt.
Qed.

(* ------------------------------------------------------------------ *)
(** * the abstraction commutes with the mirror *)

Lemma color_of_opponent c : (c = 0 \/ c = 1) -> color_of (opponent c) = other (color_of c).
Proof. intros [-> | ->]; reflexivity. Qed.

Theorem square_mirror p sq : Inv p -> sq < 64 ->
  square (mirror_pos p) sq =
  match square p (mirror_sq sq) with Some (c, k) => Some (opponent c, k) | None => None end.
Proof.
  intros HI Hs. pose proof (mirror_inv p HI) as HI'. pose proof (Inv_len _ HI) as Hl.
  pose proof (mirror_sq_lt sq Hs) as Hs'.
  destruct (square p (mirror_sq sq)) as [[c k]|] eqn:E.
  - apply (square_some p _ c k HI Hs') in E as [Hc [Hk Hb]].
    apply (square_some _ sq (opponent c) k HI' Hs). split; [apply vcol_opponent|]. split; [exact Hk|].
    unfold vpc in Hk. rewrite (pget_mirror p (opponent c) k Hl (vcol_opponent c)) by lia.
    rewrite (opponent_invol c Hc). now rewrite tb_flip_bb64.
  - apply (square_none p _ HI Hs') in E. apply (square_none _ sq HI' Hs).
    rewrite (all_bb_mirror p HI). now rewrite tb_flip_bb64.
Qed.

Theorem abs_cell_mirror p sq : Inv p -> sq < 64 ->
  abs_cell (mirror_pos p) sq = mirror_cell (abs_cell p (mirror_sq sq)).
Proof.
  intros HI Hs. unfold abs_cell. rewrite (square_mirror p sq HI Hs).
  destruct (square p (mirror_sq sq)) as [[c k]|] eqn:E; [|reflexivity].
  apply (square_some p _ c k HI (mirror_sq_lt sq Hs)) in E as [Hc _].
  destruct (kind_of k); [|reflexivity]. cbn [mirror_cell]. now rewrite (color_of_opponent c Hc).
Qed.

Lemma seqN_seq n : seqN n = map N.of_nat (seq 0 n).
Proof. reflexivity. Qed.

Theorem brd_abs_mirror p : Inv p -> brd (abs_pos (mirror_pos p)) = mirror_board (brd (abs_pos p)).
Proof.
  intros HI. unfold abs_pos at 1. cbn [brd]. unfold mirror_board. rewrite seqN_seq, map_map.
  apply map_ext_in. intros s Hs. apply in_seq in Hs.
  assert (Hs' : N.of_nat s < 64) by lia.
  rewrite (abs_cell_mirror p _ HI Hs'). f_equal.
  unfold mirror_nat. rewrite (at_abs_pos p (mirror_sq (N.of_nat s)) (mirror_sq_lt _ Hs')). reflexivity.
Qed.

(** the whole abstract position, for an e.p. square that is not a8 (in a legal position it is on rank 3 or 6) *)
Theorem abs_pos_mirror p : Inv p -> enpassant p <> 56 -> abs_pos (mirror_pos p) = mirror_spos (abs_pos p).
Proof.
  intros HI Hep. pose proof HI as [_ [_ [_ [_ [_ [_ [Hca _]]]]]]].
  unfold mirror_spos. rewrite <- (brd_abs_mirror p HI). unfold abs_pos. cbn [brd rts eps mirror_pos castling enpassant].
  f_equal; [now apply abs_rights_mirror|].
  destruct (N.eqb_spec (enpassant p) 0) as [E|E]; [reflexivity|].
  destruct (N.eqb_spec (mirror_sq (enpassant p)) 0) as [E'|E'].
  - exfalso. apply Hep. rewrite <- (mirror_sq_invol (enpassant p)), E'. reflexivity.
  - cbn [option_map]. now rewrite mirror_nat_N.
Qed.

Lemma length_mirror_board b : length (mirror_board b) = 64%nat.
Proof. unfold mirror_board. now rewrite map_length, seq_length. Qed.

Lemma at_mirror_board b s : (s < 64)%nat -> at_ (mirror_board b) s = mirror_cell (at_ b (mirror_nat s)).
Proof.
  intros Hs. unfold at_, mirror_board.
  rewrite nth_indep with (d' := mirror_cell (nth (mirror_nat 0) b None)) by (now rewrite map_length, seq_length).
  rewrite (map_nth (fun s => mirror_cell (nth (mirror_nat s) b None))). now rewrite seq_nth.
Qed.

Print Assumptions mirror_inv.
Print Assumptions brd_abs_mirror.
Print Assumptions abs_pos_mirror.
