(** The search contract on the real board, part 4: the contract of Lemmas/SearchContract.v applied to
    [search_board]; the root of a search is the node of the board with its flag reset, [norm p]. *)
From Coq Require Import NArith ZArith List Bool Lia.
From Morlock.Model Require Import Bits Score Attacks Move Position Zobrist Board Search TT SearchBoard Abs.
From Morlock.Lemmas Require Import ScoreLemmas SearchScore SearchStep BoardHeap1 BoardHeap2 BoardHeap3
     SearchContract SearchBoardInst1 SearchBoardInst2 SearchBoardInst3.
Import ListNotations.
Open Scope Z_scope.

Section Final.
  Variable z : ztable.
  Variable cancel : nat -> bool.
  Variable use_q : bool.
  Variable qfuel : nat.
  Hypothesis cancel_mono : forall n, cancel n = true -> cancel (S n) = true.

  Notation mm1 := (mm use_q qfuel aboard bmoves (bchild z) bdrawn bmated bleaf bex bqex).
  Notation qv1 := (qv aboard bmoves (bchild z) bdrawn bmated bleaf bqex).
  Notation leaves1 := (leaves_ok use_q qfuel aboard bmoves (bchild z) bdrawn bex bqex).
  Notation PVok1 := (PVok aboard bmoves (bchild z)).
  Notation PVroot1 := (PVroot use_q qfuel aboard bmoves (bchild z) bdrawn bmated bleaf bex bqex).
  Notation HashValue1 := (HashValue use_q qfuel aboard bmoves (bchild z) bdrawn bmated bleaf bex bqex bhash).
  Notation TTInv1 rd := (TTInv ttv rd use_q qfuel aboard bmoves (bchild z) bdrawn bmated bleaf bex bqex bhash).
  Notation abM rd := (ab gboard gb_draw gb_hash gb_ply gb_moves (gb_push' z) gb_pop gb_mated ttv rd ttv_write
                         full_exploration captures_only material cancel use_q qfuel).
  Notation abR := (ab gboard gb_draw gb_hash gb_ply gb_moves (gb_push z) gb_pop gb_mated ttv ttv_read ttv_write
                      full_exploration captures_only material cancel use_q qfuel).
  Notation sst := (sst gboard ttv).
  Notation s_g := (s_g gboard ttv).
  Notation s_tt := (s_tt gboard ttv).
  Notation s_polls := (s_polls gboard ttv).

  (** the root board: a Checkmate/Stalemate adjudication that is not a draw must be truthful *)
  Definition RootFlag (p : aboard) (g : gboard) : Prop :=
    gb_draw g = false -> blocked (b_result (snd g)) = true -> no_legal p.

  Lemma BAt_norm p g : BAt p g -> BAt (norm p) g.
  Proof.
    intros (Hwf & Heq & HG). split; [exact Hwf|]. split; [apply aeq_nr_norm; exact Heq|].
    eapply GInv_congr; [apply aeq_nr_sym, norm_aeq_nr|exact HG].
  Qed.
  Lemma BAt_unnorm p g : GInv p -> BAt (norm p) g -> BAt p g.
  Proof.
    intros HG (Hwf & Heq & _). split; [exact Hwf|]. split; [|exact HG].
    eapply aeq_nr_trans; [exact Heq|apply norm_aeq_nr].
  Qed.

  Section Table.
    Variable rd : ttv -> N -> option (N * Z * score * move).
    Variable P : ttv -> Prop.
    Hypothesis Hread : forall t h, P t -> rd t h = ttv_read t h.
    Hypothesis Hwrite : forall t h b ply d sc m, P t -> P (ttv_write t h b ply d sc m).
    Hypothesis Htab : NoTable ttv rd \/ (TTLaw ttv rd ttv_write /\ HashValue1).

    Lemma specM d root : qh use_q qfuel + Z.of_nat d <= 127 ->
      ABSpec gboard gb_draw ttv rd cancel use_q qfuel aboard bmoves (bchild z) bdrawn bmated bleaf bex bqex bhash At
             d root (abM rd d root).
    Proof.
      exact (ab_spec gboard gb_draw gb_hash gb_ply gb_moves (gb_push' z) gb_pop gb_mated gb_clear_draw gb_restore
               ttv rd ttv_write full_exploration captures_only material cancel use_q qfuel
               aboard bmoves (bchild z) bdrawn bmated bleaf bex bqex bhash At
               H_moves H_leaf H_hash (H_push_none z) (H_push_some z) (H_pop z) (H_ex z) (H_qex z) (H_mated z)
               H_leaf_valid cancel_mono Htab d root).
    Qed.

    Lemma run_eq d root st a b : (root = true -> DF (s_g st) = false) -> P (s_tt st) ->
      abR d root st a b = abM rd d root st a b /\ P (s_tt (fst (fst (abR d root st a b)))).
    Proof.
      intros Hr HP.
      destruct (ab_eq gboard gb_draw gb_hash gb_ply gb_moves (gb_push z) (gb_push' z) gb_pop gb_mated
                      ttv ttv_read rd ttv_write full_exploration captures_only material cancel use_q qfuel
                      DF P DF_of_draw (push_of_DF z) (DF_pop_push z) DF_pop DF_mated Hread Hwrite d root st a b Hr HP) as [E1 [E2 _]].
      split; [symmetry; exact E1|exact E2].
    Qed.

    (** the root state of a search *)
    Definition root_board (g : gboard) : gboard := if gb_draw g then gb_clear_draw g else g.

    Lemma root_At p g : BAt p g -> RootFlag p g -> At (norm p) (root_board g) /\ gb_draw (root_board g) = false.
    Proof.
      intros HB HR. unfold root_board. destruct (gb_draw g) eqn:Ed.
      - split; [|reflexivity]. split.
        + destruct g as [h b]. apply BAt_adjudicate. apply BAt_norm. exact HB.
        + intros H. discriminate H.
      - split; [|exact Ed]. split; [apply BAt_norm; exact HB|]. intros Eb. exact (HR Ed Eb).
    Qed.

    (** [search_board] decomposed: the run of [ab] from the root state, on the instance of the laws *)
    Lemma search_run g t depth low high st nodes sc pv halted :
      P t ->
      search_board z full_exploration captures_only material cancel use_q qfuel g t [] depth low high
        = (st, nodes, sc, pv, halted) ->
      exists st1 sc1 pv1,
        abM rd depth true (mkSst gboard ttv (root_board g) t 0%N 0%nat []) low high = (st1, sc1, pv1) /\
        P (s_tt st1) /\
        s_tt st = s_tt st1 /\ s_polls st = S (s_polls st1) /\
        s_g st = (if gb_draw g then gb_restore g (s_g st1) else s_g st1) /\
        halted = cancel (s_polls st1) /\
        (halted = true -> sc = invalid_score /\ pv = [] /\ nodes = 0%N) /\
        (halted = false -> sc = sc1 /\ pv = pv1).
    Proof.
      intros HP Heq. unfold search_board, ab_search in Heq. fold (root_board g) in Heq.
      assert (Hdf : DF (root_board g) = false).
      { apply DF_of_draw. unfold root_board. destruct (gb_draw g) eqn:Ed; [reflexivity|exact Ed]. }
      destruct (run_eq depth true (mkSst gboard ttv (root_board g) t 0%N 0%nat []) low high (fun _ => Hdf) HP) as [E1 P1].
      rewrite E1 in Heq, P1.
      destruct (abM rd depth true (mkSst gboard ttv (root_board g) t 0%N 0%nat []) low high) as [[st1 sc1] pv1].
      cbn [fst] in P1. exists st1, sc1, pv1. split; [reflexivity|]. split; [exact P1|].
      unfold poll in Heq.
      destruct (gb_draw g); destruct (cancel (Search.s_polls gboard ttv st1)); injection Heq as <- <- <- <- <-;
        cbn [Search.s_tt Search.s_polls Search.s_g set_g];
        repeat (split; [reflexivity|]); (split; [intros H; try discriminate H; auto|intros H; try discriminate H; auto]).
    Qed.

    (** ** the conclusion of [ab_search_spec] for the real board *)
    Theorem board_search_gen g t depth low high st nodes sc pv halted p :
      qh use_q qfuel + Z.of_nat depth <= 127 -> P t -> TTInv1 rd t ->
      BAt p g -> RootFlag p g -> leaves1 depth true (norm p) -> valid low = true -> valid high = true ->
      search_board z full_exploration captures_only material cancel use_q qfuel g t [] depth low high
        = (st, nodes, sc, pv, halted) ->
      BAt p (s_g st) /\ (gb_draw g = true -> b_result (snd (s_g st)) = b_result (snd g)) /\
      P (s_tt st) /\ TTInv1 rd (s_tt st) /\
      halted = cancel (Nat.pred (s_polls st)) /\
      (halted = true -> sc = invalid_score /\ pv = [] /\ nodes = 0%N) /\
      (halted = false ->
         valid sc = true /\ Rm low high (mm1 depth true (norm p)) sc /\ PVok1 depth (norm p) pv /\
         PVroot1 depth true (norm p) low high sc pv).
    Proof.
      intros Hd HP HT HB HR HL Va Vb Heq.
      destruct (search_run g t depth low high st nodes sc pv halted HP Heq)
        as (st1 & sc1 & pv1 & Eab & P1 & Ett & Epo & Eg & Eh & Hh & Hnh).
      destruct (root_At p g HB HR) as [HAt0 Hdr0].
      assert (HI0 : SearchContract.Inv gboard ttv rd use_q qfuel aboard bmoves (bchild z) bdrawn bmated bleaf bex bqex bhash
                      (mkSst gboard ttv (root_board g) t 0%N 0%nat [])) by (split; [exact HT|reflexivity]).
      assert (HF : FlagOK gboard gb_draw use_q aboard bdrawn depth true (norm p) (root_board g)) by (right; exact Hdr0).
      destruct (specM depth true Hd _ low high st1 sc1 pv1 (norm p) HI0 HAt0 HF HL (fun _ => conj Va Vb) Eab)
        as [[K1 K1'] [K2 [K3 K4]]].
      destruct K2 as [KB _].
      assert (HG : GInv p) by apply HB.
      split.
      { rewrite Eg. destruct (gb_draw g).
        - destruct (s_g st1) as [h1 b1]. apply BAt_adjudicate. apply BAt_unnorm; assumption.
        - apply BAt_unnorm; assumption. }
      split.
      { intros Hdg. rewrite Eg, Hdg. reflexivity. }
      split; [rewrite Ett; exact P1|]. split; [rewrite Ett; exact K1|].
      split; [rewrite Epo; exact Eh|]. split; [exact Hh|].
      intros Hf. destruct (Hnh Hf) as [-> ->]. rewrite Hf in Eh.
      assert (Hl : live cancel (s_polls st1)).
      { eapply live_le; [|apply (live_S cancel cancel_mono _ (eq_sym Eh))]. lia. }
      destruct (K4 Hl) as [Q1 [Q2 [Q3 Q4]]].
      destruct (mm_okm cancel use_q qfuel aboard bmoves (bchild z) bdrawn bmated bleaf bex bqex H_leaf_valid depth true (norm p) HL Hd) as [[Vv _] _].
      pose proof (okm_valid _ _ Q1) as Vr. split; [exact Vr|].
      split; [apply (Rm_iR cancel qfuel); assumption|]. split; assumption.
    Qed.

    (** ** C03: the full window returns the minimax value *)
    Theorem board_full_window_gen g t depth st nodes sc pv p :
      qh use_q qfuel + Z.of_nat depth <= 127 -> P t -> TTInv1 rd t ->
      BAt p g -> RootFlag p g -> leaves1 depth true (norm p) ->
      search_board z full_exploration captures_only material cancel use_q qfuel g t [] depth neginf_score inf_score
        = (st, nodes, sc, pv, false) ->
      go_eq sc (mm1 depth true (norm p)) = true /\ valid sc = true.
    Proof.
      intros Hd HP HT HB HR HL Heq.
      destruct (search_run g t depth _ _ st nodes sc pv false HP Heq)
        as (st1 & sc1 & pv1 & Eab & P1 & Ett & Epo & Eg & Eh & Hh & Hnh).
      destruct (root_At p g HB HR) as [HAt0 Hdr0]. destruct (Hnh eq_refl) as [-> ->].
      assert (HI0 : SearchContract.Inv gboard ttv rd use_q qfuel aboard bmoves (bchild z) bdrawn bmated bleaf bex bqex bhash
                      (mkSst gboard ttv (root_board g) t 0%N 0%nat [])) by (split; [exact HT|reflexivity]).
      assert (HF : FlagOK gboard gb_draw use_q aboard bdrawn depth true (norm p) (root_board g)) by (right; exact Hdr0).
      assert (Hl : live cancel (s_polls st1)).
      { eapply live_le; [|apply (live_S cancel cancel_mono _ (eq_sym Eh))]. lia. }
      exact (ab_full_window gboard gb_draw gb_hash gb_ply gb_moves (gb_push' z) gb_pop gb_mated gb_clear_draw gb_restore
               ttv rd ttv_write full_exploration captures_only material cancel use_q qfuel
               aboard bmoves (bchild z) bdrawn bmated bleaf bex bqex bhash At
               H_moves H_leaf H_hash (H_push_none z) (H_push_some z) (H_pop z) (H_ex z) (H_qex z) (H_mated z)
               H_leaf_valid cancel_mono Htab depth true _ st1 sc1 pv1 (norm p) Hd HI0 HAt0 HF HL Eab Hl).
    Qed.

    (** ** C13: the three cases of a proper window *)
    Theorem board_window_gen g t depth low high st nodes sc pv p :
      qh use_q qfuel + Z.of_nat depth <= 127 -> P t -> TTInv1 rd t ->
      BAt p g -> RootFlag p g -> leaves1 depth true (norm p) ->
      valid low = true -> valid high = true -> less low high = true ->
      search_board z full_exploration captures_only material cancel use_q qfuel g t [] depth low high
        = (st, nodes, sc, pv, false) ->
      let v := mm1 depth true (norm p) in
      (le v low -> le v sc /\ le sc low) /\
      (less low v = true -> less v high = true -> go_eq sc v = true) /\
      (le high v -> le high sc /\ le sc v).
    Proof.
      intros Hd HP HT HB HR HL Va Vb Hab Heq.
      destruct (search_run g t depth _ _ st nodes sc pv false HP Heq)
        as (st1 & sc1 & pv1 & Eab & P1 & Ett & Epo & Eg & Eh & Hh & Hnh).
      destruct (root_At p g HB HR) as [HAt0 Hdr0]. destruct (Hnh eq_refl) as [-> ->].
      assert (HI0 : SearchContract.Inv gboard ttv rd use_q qfuel aboard bmoves (bchild z) bdrawn bmated bleaf bex bqex bhash
                      (mkSst gboard ttv (root_board g) t 0%N 0%nat [])) by (split; [exact HT|reflexivity]).
      assert (HF : FlagOK gboard gb_draw use_q aboard bdrawn depth true (norm p) (root_board g)) by (right; exact Hdr0).
      assert (Hl : live cancel (s_polls st1)).
      { eapply live_le; [|apply (live_S cancel cancel_mono _ (eq_sym Eh))]. lia. }
      exact (ab_window gboard gb_draw gb_hash gb_ply gb_moves (gb_push' z) gb_pop gb_mated gb_clear_draw gb_restore
               ttv rd ttv_write full_exploration captures_only material cancel use_q qfuel
               aboard bmoves (bchild z) bdrawn bmated bleaf bex bqex bhash At
               H_moves H_leaf H_hash (H_push_none z) (H_push_some z) (H_pop z) (H_ex z) (H_qex z) (H_mated z)
               H_leaf_valid cancel_mono Htab depth true _ low high st1 sc1 pv1 (norm p) Hd HI0 HAt0 HF HL Va Vb Hab Eab Hl).
    Qed.

    (** ** the principal variation of a full-window search *)
    Theorem board_pv_sound_gen g t d' st nodes sc pv p :
      qh use_q qfuel + Z.of_nat (S d') <= 127 -> P t -> TTInv1 rd t ->
      BAt p g -> RootFlag p g -> leaves1 (S d') true (norm p) ->
      search_board z full_exploration captures_only material cancel use_q qfuel g t [] (S d') neginf_score inf_score
        = (st, nodes, sc, pv, false) ->
      PVok1 (S d') (norm p) pv /\
      ((exists m c, In m (bmoves (norm p)) /\ bchild z (norm p) m = Some c /\ bex (norm p) c m = true) ->
       exists m rem c, pv = m :: rem /\ In m (bmoves (norm p)) /\ bchild z (norm p) m = Some c /\ bex (norm p) c m = true /\
                       go_eq (T (mm1 d' false c)) (mm1 (S d') true (norm p)) = true /\ go_eq (T (mm1 d' false c)) sc = true).
    Proof.
      intros Hd HP HT HB HR HL Heq.
      destruct (search_run g t (S d') _ _ st nodes sc pv false HP Heq)
        as (st1 & sc1 & pv1 & Eab & P1 & Ett & Epo & Eg & Eh & Hh & Hnh).
      destruct (root_At p g HB HR) as [HAt0 Hdr0]. destruct (Hnh eq_refl) as [-> ->].
      assert (HI0 : SearchContract.Inv gboard ttv rd use_q qfuel aboard bmoves (bchild z) bdrawn bmated bleaf bex bqex bhash
                      (mkSst gboard ttv (root_board g) t 0%N 0%nat [])) by (split; [exact HT|reflexivity]).
      assert (Hl : live cancel (s_polls st1)).
      { eapply live_le; [|apply (live_S cancel cancel_mono _ (eq_sym Eh))]. lia. }
      exact (pv_sound gboard gb_draw gb_hash gb_ply gb_moves (gb_push' z) gb_pop gb_mated gb_clear_draw gb_restore
               ttv rd ttv_write full_exploration captures_only material cancel use_q qfuel
               aboard bmoves (bchild z) bdrawn bmated bleaf bex bqex bhash At
               H_moves H_leaf H_hash (H_push_none z) (H_push_some z) (H_pop z) (H_ex z) (H_qex z) (H_mated z)
               H_leaf_valid cancel_mono Htab d' _ st1 sc1 pv1 (norm p) Hd HI0 HAt0 HL Eab Hl).
    Qed.
  End Table.

  (** ** quiescence on the real board (no table involved) *)
  Theorem board_qs_contract f st qn a b st' qn' r p :
    Z.of_nat f <= 127 -> At p (s_g st) -> gb_draw (s_g st) = bdrawn p ->
    qfin aboard bmoves (bchild z) bdrawn bqex f p -> valid a = true -> valid b = true ->
    qsearch gboard gb_draw gb_moves (gb_push z) gb_pop gb_mated ttv captures_only material cancel f st qn a b = (st', qn', r) ->
    At p (s_g st') /\ s_tt st' = s_tt st /\
    (live cancel (s_polls st') ->
       valid r = true /\ Rm a b (qv1 f p) r /\
       (bdrawn p = false -> has_legal aboard bmoves (bchild z) p = true -> less r (heuristic (bleaf p)) = false) /\
       (bdrawn p = false -> has_legal aboard bmoves (bchild z) p = false -> r = term_value aboard bmated p) /\
       (bdrawn p = true -> r = zero_score)).
  Proof.
    intros Hf HAt Hdr Hq Va Vb Heq.
    rewrite <- (proj1 (qsearch_eq gboard gb_draw gb_moves (gb_push z) (gb_push' z) gb_pop gb_mated ttv captures_only material cancel
                  DF DF_of_draw (push_of_DF z) (DF_pop_push z) DF_pop DF_mated f st qn a b)) in Heq.
    exact (qs_contract gboard gb_draw gb_ply gb_moves (gb_push' z) gb_pop gb_mated gb_clear_draw gb_restore
             ttv captures_only material cancel qfuel aboard bmoves (bchild z) bdrawn bmated bleaf bqex At
             H_moves H_leaf (H_push_none z) (H_push_some z) (H_pop z) (H_qex z) (H_mated z) H_leaf_valid
             f st qn a b st' qn' r p Hf (conj HAt Hdr) Hq Va Vb Heq).
  Qed.
End Final.
