(** Foundation lemmas for positions: representation invariant as a Prop, square lookup,
    rotated-bitboard lockstep, effect of [pos_xor], abstraction to the mailbox board. *)
From Coq Require Import NArith ZArith List Bool Lia ZifyBool ZifyNat ZifyN FinFun.
From Morlock.gen Require Import GenTables.
From Morlock.Model Require Import Bits Attacks Move Position Abs.
From Morlock.Spec Require Import Chess.
Import ListNotations.
Open Scope N_scope.

(* ------------------------------------------------------------------ *)
(** * 64-bit word facts *)

Lemma tb_mask64 x i : N.testbit (mask64 x) i = (i <? 64) && N.testbit x i.
Proof. unfold mask64. rewrite N.land_spec.
  destruct (N.ltb_spec i 64).
  - rewrite N.ones_spec_low by lia. now rewrite andb_true_r.
  - rewrite N.ones_spec_high by lia. now rewrite andb_false_r. Qed.

Lemma tb_shl64 x k i : N.testbit (shl64 x k) i = (i <? 64) && (k <=? i) && N.testbit x (i - k).
Proof. unfold shl64. rewrite tb_mask64.
  destruct (N.leb_spec k i).
  - rewrite N.shiftl_spec_high' by lia. now rewrite andb_true_r.
  - rewrite N.shiftl_spec_low by lia. now rewrite !andb_false_r. Qed.

Lemma tb_bitmask sq i : N.testbit (bitmask sq) i = (i <? 64) && (i =? sq).
Proof. unfold bitmask. rewrite tb_shl64.
  destruct (N.ltb_spec i 64); [rewrite !andb_true_l | reflexivity].
  destruct (N.leb_spec sq i).
  - rewrite andb_true_l. destruct (N.eqb_spec i sq).
    + subst. rewrite N.sub_diag. reflexivity.
    + replace 1 with (2 ^ 0) by reflexivity. rewrite N.pow2_bits_eqb. apply N.eqb_neq. lia.
  - rewrite andb_false_l. symmetry. apply N.eqb_neq. lia. Qed.

Lemma word_bits x : x < 2 ^ 64 <-> (forall i, 64 <= i -> N.testbit x i = false).
Proof. split.
  - intros Hx i Hi. destruct (N.eq_dec x 0) as [->|Hn]. apply N.bits_0.
    apply N.bits_above_log2. apply N.log2_lt_pow2; [lia|]. eapply N.lt_le_trans; [exact Hx|].
    apply N.pow_le_mono_r; lia.
  - intros H. assert (E : x = x mod 2 ^ 64).
    { rewrite <- N.land_ones. apply N.bits_inj. intros i. rewrite N.land_spec.
      destruct (N.ltb_spec i 64).
      - rewrite N.ones_spec_low by lia. now rewrite andb_true_r.
      - rewrite N.ones_spec_high by lia. rewrite andb_false_r. apply H. lia. }
    rewrite E. apply N.mod_lt. apply N.pow_nonzero. lia. Qed.

Lemma bitmask_word sq : bitmask sq < 2 ^ 64.
Proof. apply word_bits. intros i Hi. rewrite tb_bitmask.
  destruct (N.ltb_spec i 64); [lia | reflexivity]. Qed.

Lemma lxor_word x y : x < 2 ^ 64 -> y < 2 ^ 64 -> N.lxor x y < 2 ^ 64.
Proof. rewrite !word_bits. intros Hx Hy i Hi. rewrite N.lxor_spec, Hx, Hy by assumption. reflexivity. Qed.

Lemma lor_word x y : x < 2 ^ 64 -> y < 2 ^ 64 -> N.lor x y < 2 ^ 64.
Proof. rewrite !word_bits. intros Hx Hy i Hi. rewrite N.lor_spec, Hx, Hy by assumption. reflexivity. Qed.

Lemma word_tb_lt x i : x < 2 ^ 64 -> N.testbit x i = true -> i < 64.
Proof. intros Hx Hb. destruct (N.lt_ge_cases i 64) as [H|H]; [assumption|].
  rewrite (proj1 (word_bits x) Hx i H) in Hb. discriminate. Qed.

Lemma is_set_tb b sq : is_set b sq = (sq <? 64) && N.testbit b sq.
Proof. unfold is_set.
  assert (E : N.land b (bitmask sq) = if (sq <? 64) && N.testbit b sq then bitmask sq else 0).
  { apply N.bits_inj. intros i. rewrite N.land_spec, tb_bitmask.
    destruct (N.ltb_spec i 64); destruct (N.eqb_spec i sq); subst.
    - destruct (N.ltb_spec sq 64); [|lia]. destruct (N.testbit b sq); cbn [andb].
      + rewrite tb_bitmask. destruct (N.ltb_spec sq 64); [|lia]. now rewrite N.eqb_refl.
      + now rewrite N.bits_0.
    - rewrite andb_false_r. destruct ((sq <? 64) && N.testbit b sq); [|now rewrite N.bits_0].
      rewrite tb_bitmask. destruct (N.eqb_spec i sq); [lia|]. now rewrite andb_false_r.
    - rewrite andb_false_r. destruct (N.ltb_spec sq 64); [lia|]. cbn [andb]. now rewrite N.bits_0.
    - rewrite andb_false_r. destruct ((sq <? 64) && N.testbit b sq); [|now rewrite N.bits_0].
      rewrite tb_bitmask. destruct (N.eqb_spec i sq); [lia|]. now rewrite andb_false_r. }
  rewrite E. destruct ((sq <? 64) && N.testbit b sq) eqn:Hc; [|reflexivity].
  apply andb_true_iff in Hc as [Hlt _].
  destruct (N.eqb_spec (bitmask sq) 0) as [Hz|Hz]; [|reflexivity].
  exfalso. assert (Ht : N.testbit (bitmask sq) sq = true).
  { rewrite tb_bitmask, Hlt, N.eqb_refl. reflexivity. }
  rewrite Hz, N.bits_0 in Ht. discriminate. Qed.

Lemma is_set_tb64 b sq : sq < 64 -> is_set b sq = N.testbit b sq.
Proof. intros H. rewrite is_set_tb. destruct (N.ltb_spec sq 64); [reflexivity | lia]. Qed.

Lemma land_zero_bits x y : N.land x y = 0 <-> (forall i, N.testbit x i = true -> N.testbit y i = true -> False).
Proof. split.
  - intros H i Hx Hy. assert (E : N.testbit (N.land x y) i = true) by (rewrite N.land_spec, Hx, Hy; reflexivity).
    rewrite H, N.bits_0 in E. discriminate.
  - intros H. apply N.bits_inj. intros i. rewrite N.land_spec, N.bits_0.
    destruct (N.testbit x i) eqn:Hx; destruct (N.testbit y i) eqn:Hy; try reflexivity.
    exfalso. eapply H; eassumption. Qed.

(* ------------------------------------------------------------------ *)
(** * list helpers *)

Lemma length_upd {A} (l : list A) i v : length (upd l i v) = length l.
Proof. revert i. induction l as [|x r IH]; intros [|i]; cbn; auto. Qed.

Lemma nth_upd {A} (l : list A) i v j d : (i < length l)%nat ->
  nth j (upd l i v) d = if Nat.eqb j i then v else nth j l d.
Proof. revert i j. induction l as [|x r IH]; intros [|i] [|j] H; cbn in *; try lia; auto.
  apply IH. lia. Qed.

Lemma length_updN {A} (l : list A) i v : length (updN l i v) = length l.
Proof. apply length_upd. Qed.

Lemma nthN_updN {A} (l : list A) i v j d : (N.to_nat i < length l)%nat ->
  nthN (updN l i v) j d = if j =? i then v else nthN l j d.
Proof. intros H. unfold nthN, updN. rewrite nth_upd by assumption.
  destruct (N.eqb_spec j i); destruct (Nat.eqb_spec (N.to_nat j) (N.to_nat i)); try reflexivity; lia. Qed.

Lemma in_seqN n x : In x (seqN n) <-> (N.to_nat x < n)%nat.
Proof. unfold seqN. rewrite in_map_iff. split.
  - intros [k [<- Hk]]. apply in_seq in Hk. lia.
  - intros H. exists (N.to_nat x). split. apply N2Nat.id. apply in_seq. lia. Qed.

Lemma in_seqN64 x : In x (seqN 64) <-> x < 64.
Proof. rewrite in_seqN. lia. Qed.

Lemma length_seqN n : length (seqN n) = n.
Proof. unfold seqN. now rewrite map_length, seq_length. Qed.

Lemma nth_seqN n i d : (i < n)%nat -> nth i (seqN n) d = N.of_nat i.
Proof. intros H. unfold seqN. rewrite nth_indep with (d' := N.of_nat 0) by (now rewrite map_length, seq_length).
  rewrite map_nth, seq_nth by assumption. reflexivity. Qed.

Lemma NoDup_seqN n : NoDup (seqN n).
Proof. unfold seqN. apply Injective_map_NoDup. intros a b; lia. apply seq_NoDup. Qed.

(* ------------------------------------------------------------------ *)
(** * rotated bitboard: incremental update is in lockstep with recomputation *)

Definition rot_step (bb : N) (acc : rotated) (sq : N) : rotated := if is_set bb sq then rot_xor acc sq else acc.

Lemma lxor_swap a b c : N.lxor (N.lxor a b) c = N.lxor (N.lxor a c) b.
Proof. rewrite !N.lxor_assoc. f_equal. apply N.lxor_comm. Qed.

Lemma rot_xor_comm r a b : rot_xor (rot_xor r a) b = rot_xor (rot_xor r b) a.
Proof. unfold rot_xor. cbn [r0 r90 r45L r45R]. f_equal; apply lxor_swap. Qed.

Lemma rot_xor_invol r a : rot_xor (rot_xor r a) a = r.
Proof. unfold rot_xor. cbn [r0 r90 r45L r45R]. destruct r as [a0 a1 a2 a3]. cbn [r0 r90 r45L r45R].
  f_equal; rewrite N.lxor_assoc, N.lxor_nilpotent, N.lxor_0_r; reflexivity. Qed.

Lemma rot_step_comm bb r s sq : rot_step bb (rot_xor r sq) s = rot_xor (rot_step bb r s) sq.
Proof. unfold rot_step. destruct (is_set bb s); [apply rot_xor_comm | reflexivity]. Qed.

Lemma is_set_lxor occ sq s : sq < 64 -> s < 64 ->
  is_set (N.lxor occ (bitmask sq)) s = if s =? sq then negb (is_set occ s) else is_set occ s.
Proof. intros Hsq Hs. rewrite !is_set_tb64 by assumption. rewrite N.lxor_spec, tb_bitmask.
  destruct (N.ltb_spec s 64); [|lia]. cbn [andb]. destruct (N.eqb_spec s sq).
  - now rewrite xorb_true_r.
  - now rewrite xorb_false_r. Qed.

Lemma rot_fold_lockstep occ sq l : sq < 64 -> NoDup l -> (forall s, In s l -> s < 64) -> forall acc,
  fold_left (rot_step (N.lxor occ (bitmask sq))) l acc =
  fold_left (rot_step occ) l (if existsb (N.eqb sq) l then rot_xor acc sq else acc).
Proof. intros Hsq. induction l as [|s l IH]; intros ND Hl acc; [reflexivity|].
  inversion ND as [|x xs Hnot ND']; subst. cbn [fold_left existsb].
  assert (Hs : s < 64) by (apply Hl; now left).
  rewrite IH by (auto; intros; apply Hl; now right).
  destruct (N.eqb_spec sq s) as [->|Hne].
  - assert (Hf : existsb (N.eqb s) l = false).
    { destruct (existsb (N.eqb s) l) eqn:E; [|reflexivity]. apply existsb_exists in E as [y [Hy Hys]].
      apply N.eqb_eq in Hys. subst. contradiction. }
    rewrite Hf. cbn [orb]. f_equal. unfold rot_step. rewrite is_set_lxor by assumption. rewrite N.eqb_refl.
    destruct (is_set occ s); cbn [negb]; [now rewrite rot_xor_invol | reflexivity].
  - cbn [orb]. f_equal.
    assert (E : rot_step (N.lxor occ (bitmask sq)) acc s = rot_step occ acc s).
    { unfold rot_step. rewrite is_set_lxor by assumption. destruct (N.eqb_spec s sq); [congruence|reflexivity]. }
    rewrite E. destruct (existsb (N.eqb sq) l); [now rewrite rot_step_comm | reflexivity]. Qed.

Lemma new_rotated_fold bb : new_rotated bb = fold_left (rot_step bb) (seqN 64) rot_empty.
Proof. reflexivity. Qed.

Theorem rot_xor_lockstep occ sq : sq < 64 -> rot_xor (new_rotated occ) sq = new_rotated (N.lxor occ (bitmask sq)).
Proof. intros Hsq. rewrite !new_rotated_fold.
  rewrite rot_fold_lockstep; [| assumption | apply NoDup_seqN | intros s; apply in_seqN64].
  assert (E : existsb (N.eqb sq) (seqN 64) = true).
  { apply existsb_exists. exists sq. split. now apply in_seqN64. apply N.eqb_refl. }
  rewrite E. clear E. generalize (seqN 64) as l. generalize rot_empty as acc.
  intros acc l. revert acc. induction l as [|s l IH]; intros acc; [reflexivity|].
  cbn [fold_left]. rewrite rot_step_comm. apply IH. Qed.

Lemma r0_new_rotated occ : occ < 2 ^ 64 -> r0 (new_rotated occ) = occ.
Proof. intros Hocc. rewrite new_rotated_fold.
  assert (G : forall l acc, NoDup l -> (forall s, In s l -> s < 64) -> forall i,
     N.testbit (r0 (fold_left (rot_step occ) l acc)) i =
     xorb (N.testbit (r0 acc) i) (existsb (N.eqb i) l && N.testbit occ i)).
  { induction l as [|s l IH]; intros acc ND Hl i.
    - cbn. now rewrite xorb_false_r.
    - inversion ND as [|x xs Hnot ND']; subst. cbn [fold_left existsb]. rewrite IH by (auto; intros; apply Hl; now right).
      assert (Hs : s < 64) by (apply Hl; now left).
      unfold rot_step. rewrite is_set_tb64 by assumption.
      destruct (N.eqb_spec i s) as [->|Hne].
      + assert (Hf : existsb (N.eqb s) l = false).
        { destruct (existsb (N.eqb s) l) eqn:E; [|reflexivity]. apply existsb_exists in E as [y [Hy Hys]].
          apply N.eqb_eq in Hys. subst. contradiction. }
        rewrite Hf. cbn [orb andb]. rewrite xorb_false_r. destruct (N.testbit occ s) eqn:Eo; [|now rewrite xorb_false_r].
        unfold rot_xor. cbn [r0]. rewrite N.lxor_spec, tb_bitmask. destruct (N.ltb_spec s 64); [|lia].
        now rewrite N.eqb_refl.
      + cbn [orb]. f_equal. destruct (N.testbit occ s); [|reflexivity].
        unfold rot_xor. cbn [r0]. rewrite N.lxor_spec, tb_bitmask. destruct (N.eqb_spec i s); [congruence|].
        now rewrite andb_false_r, xorb_false_r. }
  apply N.bits_inj. intros i. rewrite G; [| apply NoDup_seqN | intros s; apply in_seqN64].
  cbn [rot_empty r0]. rewrite N.bits_0, xorb_false_l.
  destruct (N.lt_ge_cases i 64) as [Hi|Hi].
  - assert (E : existsb (N.eqb i) (seqN 64) = true).
    { apply existsb_exists. exists i. split. now apply in_seqN64. apply N.eqb_refl. }
    now rewrite E.
  - rewrite (proj1 (word_bits occ) Hocc i Hi). now rewrite andb_false_r. Qed.

(* ------------------------------------------------------------------ *)
(** * the representation invariant as a Prop *)

Definition vcol (c : N) : Prop := c = 0 \/ c = 1.
Definition vpc (p : N) : Prop := 1 <= p <= 6.

Definition Inv (pos : position) : Prop :=
  length (pieces pos) = 14%nat /\
  Forall (fun x => x < 2 ^ 64) (pieces pos) /\
  (forall c p c' p', vcol c -> vpc p -> vcol c' -> vpc p' -> (c, p) <> (c', p') ->
      N.land (pget pos c p) (pget pos c' p') = 0) /\
  (forall c, vcol c -> pget pos c NoPiece =
      N.lor (N.lor (N.lor (N.lor (N.lor (pget pos c Pawn) (pget pos c Bishop)) (pget pos c Knight))
                          (pget pos c Rook)) (pget pos c Queen)) (pget pos c King)) /\
  all_bb pos = N.lor (pget pos White NoPiece) (pget pos Black NoPiece) /\
  rotated_bb pos = new_rotated (all_bb pos) /\
  castling pos < 16 /\ enpassant pos < 64.

Definition pidxs : list N := [1;2;3;4;5;6;8;9;10;11;12;13].

Lemma pd_map (f : N -> N) l : NoDup l ->
  (pairwise_disjoint (map f l) = true <-> forall i j, In i l -> In j l -> i <> j -> N.land (f i) (f j) = 0).
Proof. induction l as [|x r IH]; intros ND.
  - cbn. split; [intros _ i j [] | reflexivity].
  - inversion ND as [|y ys Hnot ND']; subst. cbn [map pairwise_disjoint]. rewrite andb_true_iff, forallb_forall, (IH ND').
    split.
    + intros [H1 H2] i j [->|Hi] [->|Hj] Hne.
      * congruence.
      * apply N.eqb_eq. apply H1. now apply in_map.
      * rewrite N.land_comm. apply N.eqb_eq. apply H1. now apply in_map.
      * now apply H2.
    + intros H. split.
      * intros y Hy. apply in_map_iff in Hy as [j [<- Hj]]. apply N.eqb_eq. apply H; [now left | now right |].
        intros ->. contradiction.
      * intros i j Hi Hj. apply H; now right. Qed.

Lemma NoDup_pidxs : NoDup pidxs.
Proof. unfold pidxs. repeat (constructor; [cbn; intros H; repeat (destruct H as [H|H]; [discriminate|]); exact H|]). constructor. Qed.

Lemma forallb_word_ok l : forallb word_ok l = true <-> Forall (fun x => x < 2 ^ 64) l.
Proof. rewrite forallb_forall, Forall_forall. unfold word_ok. change (2 ^ 64) with 18446744073709551616.
  split; intros H x Hx; apply N.ltb_lt; now apply H. Qed.

Lemma rot_eqb_eq a b : rot_eqb a b = true <-> a = b.
Proof. unfold rot_eqb. destruct a as [a0 a1 a2 a3], b as [b0 b1 b2 b3]. cbn [r0 r90 r45L r45R]. rewrite !andb_true_iff, !N.eqb_eq.
  split. intros [[[-> ->] ->] ->]. reflexivity. intros E. inversion E. auto. Qed.

Lemma pidx_in c p : vcol c -> vpc p -> In (pidx c p) pidxs.
Proof. unfold vcol, vpc, pidx, pidxs. intros Hc Hp. cbn [In]. lia. Qed.

Lemma pidx_inj c p c' p' : vcol c -> p <= 6 -> vcol c' -> p' <= 6 -> pidx c p = pidx c' p' -> c = c' /\ p = p'.
Proof. unfold vcol, pidx. lia. Qed.

Lemma pidxs_decomp i : In i pidxs -> vcol (i / 7) /\ vpc (i mod 7) /\ pidx (i / 7) (i mod 7) = i.
Proof. unfold pidxs. cbn [In]. intros H.
  repeat (destruct H as [H|H]; [subst i; vm_compute; repeat split; (discriminate || auto)|]). destruct H. Qed.

Theorem inv_b_iff pos : inv_b pos = true <-> Inv pos.
Proof. unfold inv_b, Inv. rewrite !andb_true_iff.
  rewrite Nat.eqb_eq, forallb_word_ok, rot_eqb_eq, !N.eqb_eq, !N.ltb_lt.
  change (piece_boards pos White ++ piece_boards pos Black) with (map (fun k => nthN (pieces pos) k 0) pidxs).
  rewrite (pd_map _ _ NoDup_pidxs).
  split.
  - intros [[[[[[[[H1 H2] H3] H4] H5] H6] H7] H8] H9]. repeat split; try assumption.
    + intros c p c' p' Hc Hp Hc' Hp' Hne. unfold pget. apply H3; try now apply pidx_in.
      intros E. apply pidx_inj in E; try assumption; try (unfold vpc in *; lia). destruct E; congruence.
    + intros c [->| ->]; assumption.
  - intros [H1 [H2 [H3 [H4 [H5 [H6 [H7 H8]]]]]]]. repeat split; try assumption.
    + intros i j Hi Hj Hne. destruct (pidxs_decomp i Hi) as [Hc [Hp Ei]]. destruct (pidxs_decomp j Hj) as [Hc' [Hp' Ej]].
      rewrite <- Ei, <- Ej. apply (H3 _ _ _ _ Hc Hp Hc' Hp'). intros E. inversion E. congruence.
    + apply (H4 0). now left.
    + apply (H4 1). now right. Qed.

(* ------------------------------------------------------------------ *)
(** * bit-level consequences of the invariant *)

Lemma pget_word pos c p : Inv pos -> pget pos c p < 2 ^ 64.
Proof. intros [_ [HF _]]. unfold pget, nthN.
  destruct (Nat.lt_ge_cases (N.to_nat (pidx c p)) (length (pieces pos))) as [H|H].
  - rewrite Forall_forall in HF. apply HF. now apply nth_In.
  - rewrite nth_overflow by assumption. reflexivity. Qed.

Lemma Inv_disj pos c p c' p' s : Inv pos -> vcol c -> vpc p -> vcol c' -> vpc p' ->
  N.testbit (pget pos c p) s = true -> N.testbit (pget pos c' p') s = true -> c = c' /\ p = p'.
Proof. intros [_ [_ [HD _]]] Hc Hp Hc' Hp' B1 B2.
  destruct (N.eq_dec c c') as [->|Hn]; [destruct (N.eq_dec p p') as [->|Hn]|]; [now split | exfalso | exfalso].
  - assert (E : (c', p) <> (c', p')) by congruence.
    specialize (HD _ _ _ _ Hc Hp Hc' Hp' E). eapply (proj1 (land_zero_bits _ _) HD); eassumption.
  - assert (E : (c, p) <> (c', p')) by congruence.
    specialize (HD _ _ _ _ Hc Hp Hc' Hp' E). eapply (proj1 (land_zero_bits _ _) HD); eassumption. Qed.

Lemma Inv_union pos c s : Inv pos -> vcol c ->
  N.testbit (pget pos c NoPiece) s =
  N.testbit (pget pos c Pawn) s || N.testbit (pget pos c Bishop) s || N.testbit (pget pos c Knight) s ||
  N.testbit (pget pos c Rook) s || N.testbit (pget pos c Queen) s || N.testbit (pget pos c King) s.
Proof. intros [_ [_ [_ [HU _]]]] Hc. rewrite (HU c Hc), !N.lor_spec. reflexivity. Qed.

Lemma Inv_union_some pos c s : Inv pos -> vcol c ->
  N.testbit (pget pos c NoPiece) s = true <-> exists p, vpc p /\ N.testbit (pget pos c p) s = true.
Proof. intros HI Hc. rewrite (Inv_union _ _ _ HI Hc), !orb_true_iff. unfold vpc. split.
  - intros [[[[[H|H]|H]|H]|H]|H]; eexists; (split; [|exact H]); unfold Pawn, Bishop, Knight, Rook, Queen, King; lia.
  - intros [p [Hp H]].
    assert (E : p = Pawn \/ p = Bishop \/ p = Knight \/ p = Rook \/ p = Queen \/ p = King)
      by (unfold Pawn, Bishop, Knight, Rook, Queen, King; lia).
    destruct E as [->|[->|[->|[->|[->| ->]]]]]; tauto. Qed.

Lemma Inv_all pos s : Inv pos ->
  N.testbit (all_bb pos) s = N.testbit (pget pos White NoPiece) s || N.testbit (pget pos Black NoPiece) s.
Proof. intros [_ [_ [_ [_ [HA _]]]]]. rewrite HA, N.lor_spec. reflexivity. Qed.

Lemma all_bb_word pos : Inv pos -> all_bb pos < 2 ^ 64.
Proof. intros HI. pose proof HI as [_ [_ [_ [_ [HA _]]]]]. rewrite HA. apply lor_word; now apply pget_word. Qed.

Lemma Inv_piece_all pos c p s : Inv pos -> vcol c -> vpc p ->
  N.testbit (pget pos c p) s = true -> N.testbit (all_bb pos) s = true.
Proof. intros HI Hc Hp Hb. rewrite (Inv_all _ _ HI).
  assert (N.testbit (pget pos c NoPiece) s = true) by (apply Inv_union_some; eauto).
  destruct Hc as [->| ->]; unfold White, Black; rewrite H; auto using orb_true_r. Qed.

Lemma is_empty_tb pos sq : sq < 64 -> is_empty pos sq = negb (N.testbit (all_bb pos) sq).
Proof. intros H. unfold is_empty. now rewrite is_set_tb64. Qed.

(* ------------------------------------------------------------------ *)
(** * Position.Square *)

Lemma first_piece_some pos c sq p : sq < 64 -> first_piece pos c sq = Some p ->
  vpc p /\ N.testbit (pget pos c p) sq = true.
Proof. intros Hsq H. unfold first_piece in H. apply find_some in H as [Hin Hb].
  rewrite is_set_tb64 in Hb by assumption. split; [|assumption].
  unfold vpc. cbn [In] in Hin. unfold Pawn, Bishop, Knight, Rook, Queen, King in Hin. lia. Qed.

Lemma first_piece_of_bit pos c sq p : Inv pos -> sq < 64 -> vcol c -> vpc p ->
  N.testbit (pget pos c p) sq = true -> first_piece pos c sq = Some p.
Proof. intros HI Hsq Hc Hp Hb. destruct (first_piece pos c sq) as [q|] eqn:E.
  - apply first_piece_some in E as [Hq Hbq]; [|assumption].
    destruct (Inv_disj _ _ _ _ _ _ HI Hc Hq Hc Hp Hbq Hb) as [_ ->]. reflexivity.
  - exfalso. unfold first_piece in E. eapply find_none with (x := p) in E.
    + rewrite is_set_tb64 in E by assumption. congruence.
    + unfold vpc in Hp. cbn [In]. unfold Pawn, Bishop, Knight, Rook, Queen, King. lia. Qed.

Theorem square_some pos sq c p : Inv pos -> sq < 64 ->
  (square pos sq = Some (c, p) <-> vcol c /\ vpc p /\ N.testbit (pget pos c p) sq = true).
Proof. intros HI Hsq. split.
  - unfold square. destruct (is_empty pos sq); [discriminate|].
    destruct (is_set (pget pos White NoPiece) sq).
    + destruct (first_piece pos White sq) as [q|] eqn:E.
      * intros H. inversion H; subst. apply first_piece_some in E as [? ?]; [|assumption]. split; [now left | split; assumption].
      * destruct (is_set (pget pos Black NoPiece) sq); [|discriminate].
        destruct (first_piece pos Black sq) as [q|] eqn:E2; [|discriminate].
        intros H. inversion H; subst. apply first_piece_some in E2 as [? ?]; [|assumption]. split; [now right | split; assumption].
    + destruct (is_set (pget pos Black NoPiece) sq); [|discriminate].
      destruct (first_piece pos Black sq) as [q|] eqn:E2; [|discriminate].
      intros H. inversion H; subst. apply first_piece_some in E2 as [? ?]; [|assumption]. split; [now right | split; assumption].
  - intros [Hc [Hp Hb]]. unfold square.
    rewrite is_empty_tb by assumption. rewrite (Inv_piece_all _ _ _ _ HI Hc Hp Hb). cbn [negb].
    assert (HU : N.testbit (pget pos c NoPiece) sq = true) by (apply Inv_union_some; eauto).
    destruct Hc as [->| ->].
    + change 0 with White in *. rewrite is_set_tb64, HU by assumption.
      rewrite (first_piece_of_bit pos White sq p HI Hsq (or_introl eq_refl) Hp Hb). reflexivity.
    + change 1 with Black in *.
      assert (EW : (if is_set (pget pos White NoPiece) sq then first_piece pos White sq else None) = None).
      { destruct (is_set (pget pos White NoPiece) sq); [|reflexivity].
        destruct (first_piece pos White sq) as [q|] eqn:E; [|reflexivity].
        apply first_piece_some in E as [Hq Hbq]; [|assumption].
        destruct (Inv_disj pos White q Black p sq HI (or_introl eq_refl) Hq (or_intror eq_refl) Hp Hbq Hb) as [? _]. discriminate. }
      rewrite EW. rewrite is_set_tb64, HU by assumption.
      rewrite (first_piece_of_bit pos Black sq p HI Hsq (or_intror eq_refl) Hp Hb). reflexivity. Qed.

Theorem square_none pos sq : Inv pos -> sq < 64 ->
  (square pos sq = None <-> N.testbit (all_bb pos) sq = false).
Proof. intros HI Hsq. split.
  - intros H. destruct (N.testbit (all_bb pos) sq) eqn:E; [|reflexivity]. exfalso.
    rewrite (Inv_all _ _ HI) in E. apply orb_true_iff in E.
    assert (exists c p, vcol c /\ vpc p /\ N.testbit (pget pos c p) sq = true) as [c [p Hcp]].
    { destruct E as [E|E]; apply Inv_union_some in E; try assumption; try (now left); try (now right).
      - destruct E as [p [? ?]]. exists White, p. split; [now left | split; assumption].
      - destruct E as [p [? ?]]. exists Black, p. split; [now right | split; assumption]. }
    apply square_some in Hcp; try assumption. congruence.
  - intros H. unfold square. rewrite is_empty_tb, H by assumption. reflexivity. Qed.

Theorem square_spec pos sq : Inv pos -> sq < 64 ->
  (forall c p, square pos sq = Some (c, p) <-> (c = 0 \/ c = 1) /\ 1 <= p <= 6 /\ N.testbit (pget pos c p) sq = true) /\
  (square pos sq = None <-> N.testbit (all_bb pos) sq = false).
Proof. intros HI Hsq. split. intros c p. now apply square_some. now apply square_none. Qed.

(* ------------------------------------------------------------------ *)
(** * Position.xor *)

Lemma pget_pos_xor pos sq c p c' p' : length (pieces pos) = 14%nat -> vcol c -> vpc p -> vcol c' -> p' <= 6 ->
  pget (pos_xor pos sq c p) c' p' =
  if (c' =? c) && ((p' =? p) || (p' =? 0)) then N.lxor (pget pos c' p') (bitmask sq) else pget pos c' p'.
Proof. intros HL Hc Hp Hc' Hp'. unfold pget, pos_xor. cbn [pieces]. unfold vcol, vpc, NoPiece in *.
  rewrite !nthN_updN; try (rewrite ?length_updN, HL; unfold pidx; lia).
  unfold pidx.
  destruct (N.eqb_spec (c' * 7 + p') (c * 7 + p)); destruct (N.eqb_spec (c * 7 + p) (c * 7 + 0));
  destruct (N.eqb_spec (c' * 7 + p') (c * 7 + 0)); destruct (N.eqb_spec c' c); destruct (N.eqb_spec p' p);
  destruct (N.eqb_spec p' 0); cbn [andb orb]; try lia; try reflexivity; subst; try rewrite N.add_0_r; try reflexivity;
  try (replace p' with p by lia; reflexivity). Qed.

Lemma all_bb_pos_xor pos sq c p : all_bb (pos_xor pos sq c p) = N.lxor (all_bb pos) (bitmask sq).
Proof. reflexivity. Qed.

Lemma tb_pget_pos_xor pos sq c p c' p' s : length (pieces pos) = 14%nat -> vcol c -> vpc p -> vcol c' -> p' <= 6 -> s < 64 ->
  N.testbit (pget (pos_xor pos sq c p) c' p') s =
  xorb (N.testbit (pget pos c' p') s) ((c' =? c) && ((p' =? p) || (p' =? 0)) && (s =? sq)).
Proof. intros HL Hc Hp Hc' Hp' Hs. rewrite pget_pos_xor by assumption.
  destruct ((c' =? c) && ((p' =? p) || (p' =? 0))); cbn [andb].
  - rewrite N.lxor_spec, tb_bitmask. destruct (N.ltb_spec s 64); [reflexivity | lia].
  - now rewrite xorb_false_r. Qed.

Lemma Forall_upd {A} (P : A -> Prop) l i v : Forall P l -> P v -> Forall P (upd l i v).
Proof. intros H Hv. revert i. induction H as [|x r Hx Hr IH]; intros [|i]; cbn; constructor; auto. Qed.

Lemma Inv_len pos : Inv pos -> length (pieces pos) = 14%nat.
Proof. now intros [H _]. Qed.

Lemma pos_xor_inv_gen pos sq c p : Inv pos -> sq < 64 -> vcol c -> vpc p ->
  (forall c' p', vcol c' -> vpc p' -> (c', p') <> (c, p) -> N.testbit (pget pos c' p') sq = false) ->
  Inv (pos_xor pos sq c p).
Proof. intros HI Hsq Hc Hp Hoth. pose proof (Inv_len _ HI) as HL.
  pose proof HI as [_ [HF [HD [HU [HA [HR [HC HE]]]]]]].
  assert (Hbm := bitmask_word sq).
  unfold Inv. split; [|split; [|split; [|split; [|split; [|split; [|split]]]]]].
  - unfold pos_xor. cbn [pieces]. now rewrite !length_updN.
  - unfold pos_xor. cbn [pieces]. unfold updN. apply Forall_upd; [apply Forall_upd; [assumption|]|].
    + apply lxor_word; [|assumption]. apply (pget_word pos c NoPiece HI).
    + apply lxor_word; [|assumption].
      change (nthN (upd (pieces pos) (N.to_nat (pidx c NoPiece)) (N.lxor (nthN (pieces pos) (pidx c NoPiece) 0) (bitmask sq))) (pidx c p) 0 < 2 ^ 64).
      fold (updN (pieces pos) (pidx c NoPiece) (N.lxor (nthN (pieces pos) (pidx c NoPiece) 0) (bitmask sq))).
      rewrite nthN_updN by (rewrite HL; unfold vcol, pidx, NoPiece in *; lia).
      destruct (pidx c p =? pidx c NoPiece).
      * apply lxor_word; [|assumption]. apply (pget_word pos c NoPiece HI).
      * apply (pget_word pos c p HI).
  - intros c1 p1 c2 p2 Hc1 Hp1 Hc2 Hp2 Hne. apply land_zero_bits. intros i B1 B2.
    assert (Hi : i < 64).
    { eapply word_tb_lt; [|exact B1]. rewrite pget_pos_xor by (auto; unfold vpc in *; lia).
      destruct ((c1 =? c) && ((p1 =? p) || (p1 =? 0))); [apply lxor_word; auto|]; now apply pget_word. }
    rewrite tb_pget_pos_xor in B1, B2 by (auto; unfold vpc in *; lia).
    destruct (N.eqb_spec i sq) as [Eisq|Hisq]; [subst i|].
    + rewrite !andb_true_r in B1, B2.
      assert (Hz1 : (p1 =? 0) = false) by (apply N.eqb_neq; unfold vpc in *; lia).
      assert (Hz2 : (p2 =? 0) = false) by (apply N.eqb_neq; unfold vpc in *; lia).
      rewrite Hz1, Hz2, !orb_false_r in *.
      destruct ((c1 =? c) && (p1 =? p)) eqn:E1; destruct ((c2 =? c) && (p2 =? p)) eqn:E2.
      * apply andb_true_iff in E1 as [E1a E1b]. apply andb_true_iff in E2 as [E2a E2b].
        apply N.eqb_eq in E1a, E1b, E2a, E2b. subst. congruence.
      * rewrite xorb_false_r in B2. rewrite Hoth in B2; [discriminate|assumption|assumption|].
        intros E. inversion E; subst. rewrite !N.eqb_refl in E2. discriminate.
      * rewrite xorb_false_r in B1. rewrite Hoth in B1; [discriminate|assumption|assumption|].
        intros E. inversion E; subst. rewrite !N.eqb_refl in E1. discriminate.
      * rewrite xorb_false_r in B1. rewrite Hoth in B1; [discriminate|assumption|assumption|].
        intros E. inversion E; subst. rewrite !N.eqb_refl in E1. discriminate.
    + rewrite !andb_false_r, !xorb_false_r in B1, B2.
      specialize (HD _ _ _ _ Hc1 Hp1 Hc2 Hp2 Hne). eapply (proj1 (land_zero_bits _ _) HD); eassumption.
  - intros c1 Hc1. apply N.bits_inj. intros i.
    destruct (N.lt_ge_cases i 64) as [Hi|Hi].
    + rewrite !N.lor_spec. rewrite !tb_pget_pos_xor by (auto; unfold vpc, NoPiece, Pawn, Bishop, Knight, Rook, Queen, King in *; lia).
      rewrite (Inv_union _ _ _ HI Hc1).
      destruct (N.eqb_spec i sq) as [Eisq|Hisq]; [subst i|]; [|now rewrite !andb_false_r, !xorb_false_r].
      rewrite !andb_true_r.
      destruct (N.eqb_spec c1 c) as [->|Hcc]; cbn [andb]; [|now rewrite !xorb_false_r].
      assert (E : p = Pawn \/ p = Bishop \/ p = Knight \/ p = Rook \/ p = Queen \/ p = King)
        by (unfold vpc, Pawn, Bishop, Knight, Rook, Queen, King in *; lia).
      assert (HO : forall q, vpc q -> q <> p -> N.testbit (pget pos c q) sq = false).
      { intros q Hq Hqp. apply Hoth; auto. congruence. }
      unfold vpc in HO.
      destruct E as [->|[->|[->|[->|[->| ->]]]]]; unfold NoPiece, Pawn, Bishop, Knight, Rook, Queen, King in *;
      cbn [N.eqb Pos.eqb orb];
      try rewrite (HO 1) by lia; try rewrite (HO 2) by lia; try rewrite (HO 3) by lia;
      try rewrite (HO 4) by lia; try rewrite (HO 5) by lia; try rewrite (HO 6) by lia;
      cbn [orb xorb]; rewrite ?orb_false_r, ?xorb_false_r; reflexivity.
    + transitivity false.
      * apply word_bits; [|assumption]. rewrite pget_pos_xor by (auto; unfold NoPiece; lia).
        destruct ((c1 =? c) && ((NoPiece =? p) || (NoPiece =? 0))); [apply lxor_word; auto|]; now apply pget_word.
      * symmetry. apply word_bits; [|assumption].
        repeat apply lor_word; (rewrite pget_pos_xor by (auto; unfold Pawn, Bishop, Knight, Rook, Queen, King; lia);
        match goal with |- (if ?b then _ else _) < _ => destruct b end; [apply lxor_word; auto|]; now apply pget_word).
  - rewrite all_bb_pos_xor. apply N.bits_inj. intros i.
    destruct (N.lt_ge_cases i 64) as [Hi|Hi].
    + rewrite N.lor_spec, N.lxor_spec, tb_bitmask. rewrite !tb_pget_pos_xor by (auto; unfold White, Black, vcol, NoPiece; lia).
      rewrite (Inv_all _ _ HI). destruct (N.ltb_spec i 64); [|lia]. cbn [andb].
      destruct (N.eqb_spec i sq) as [Eisq|Hisq]; [subst i|]; [|now rewrite !andb_false_r, !xorb_false_r].
      rewrite !andb_true_r. rewrite N.eqb_refl, orb_true_r, !andb_true_r.
      assert (HO : forall c', vcol c' -> c' <> c -> N.testbit (pget pos c' NoPiece) sq = false).
      { intros c' Hc' Hne. destruct (N.testbit (pget pos c' NoPiece) sq) eqn:E; [|reflexivity].
        apply Inv_union_some in E as [q [Hq Hbq]]; auto. rewrite Hoth in Hbq; auto. congruence. }
      destruct Hc as [->| ->]; cbn [N.eqb xorb].
      * rewrite (HO Black) by (unfold vcol, Black; auto; lia). change (White =? 0) with true. change (Black =? 0) with false.
        destruct (N.testbit (pget pos White NoPiece) sq); reflexivity.
      * rewrite (HO White) by (unfold vcol, White; auto; lia). change (White =? 1) with false. change (Black =? 1) with true.
        destruct (N.testbit (pget pos Black NoPiece) sq); reflexivity.
    + transitivity false.
      * apply word_bits; [|assumption]. apply lxor_word; auto. now apply all_bb_word.
      * symmetry. apply word_bits; [|assumption].
        apply lor_word; (rewrite pget_pos_xor by (auto; unfold White, Black, vcol, NoPiece; lia);
        match goal with |- (if ?b then _ else _) < _ => destruct b end; [apply lxor_word; auto|]; now apply pget_word).
  - rewrite all_bb_pos_xor. unfold pos_xor. cbn [rotated_bb]. rewrite HR. now apply rot_xor_lockstep.
  - assumption.
  - assumption. Qed.

Lemma pos_xor_square_other pos sq c p s : Inv pos -> Inv (pos_xor pos sq c p) -> vcol c -> vpc p ->
  s < 64 -> s <> sq -> square (pos_xor pos sq c p) s = square pos s.
Proof. intros HI HI' Hc Hp Hs Hne. pose proof (Inv_len _ HI) as HL.
  destruct (square pos s) as [[c' p']|] eqn:E.
  - apply square_some in E as [Hc' [Hp' Hb]]; try assumption.
    apply square_some; try assumption. repeat split; try assumption; try apply Hp'.
    rewrite tb_pget_pos_xor by (auto; unfold vpc in *; lia).
    destruct (N.eqb_spec s sq); [contradiction|]. now rewrite andb_false_r, xorb_false_r.
  - apply square_none in E; try assumption. apply square_none; try assumption.
    rewrite all_bb_pos_xor, N.lxor_spec, tb_bitmask, E.
    destruct (N.eqb_spec s sq); [contradiction|]. now rewrite andb_false_r. Qed.

Theorem pos_xor_add pos sq c p : Inv pos -> sq < 64 -> is_empty pos sq = true -> (c = 0 \/ c = 1) -> 1 <= p <= 6 ->
  Inv (pos_xor pos sq c p) /\
  forall s, s < 64 -> square (pos_xor pos sq c p) s = if s =? sq then Some (c, p) else square pos s.
Proof. intros HI Hsq He Hc Hp. pose proof (Inv_len _ HI) as HL.
  rewrite is_empty_tb in He by assumption. apply negb_true_iff in He.
  assert (Hall : forall c' p', vcol c' -> vpc p' -> N.testbit (pget pos c' p') sq = false).
  { intros c' p' Hc' Hp'. destruct (N.testbit (pget pos c' p') sq) eqn:E; [|reflexivity].
    rewrite (Inv_piece_all _ _ _ _ HI Hc' Hp' E) in He. discriminate. }
  assert (HI' : Inv (pos_xor pos sq c p)) by (apply pos_xor_inv_gen; auto).
  split; [assumption|]. intros s Hs. destruct (N.eqb_spec s sq) as [->|Hne].
  - apply square_some; try assumption. repeat split; try assumption; try apply Hp.
    rewrite tb_pget_pos_xor by (auto; unfold vpc in *; lia).
    rewrite (Hall c p Hc Hp), !N.eqb_refl. reflexivity.
  - now apply pos_xor_square_other. Qed.

Theorem pos_xor_remove pos sq c p : Inv pos -> sq < 64 -> square pos sq = Some (c, p) ->
  Inv (pos_xor pos sq c p) /\
  forall s, s < 64 -> square (pos_xor pos sq c p) s = if s =? sq then None else square pos s.
Proof. intros HI Hsq E. pose proof (Inv_len _ HI) as HL.
  apply square_some in E as [Hc [Hp Hb]]; try assumption.
  assert (HI' : Inv (pos_xor pos sq c p)).
  { apply pos_xor_inv_gen; auto. intros c' p' Hc' Hp' Hne.
    destruct (N.testbit (pget pos c' p') sq) eqn:E; [|reflexivity].
    destruct (Inv_disj _ _ _ _ _ _ HI Hc' Hp' Hc Hp E Hb). congruence. }
  split; [assumption|]. intros s Hs. destruct (N.eqb_spec s sq) as [->|Hne].
  - apply square_none; try assumption.
    rewrite all_bb_pos_xor, N.lxor_spec, tb_bitmask, (Inv_piece_all _ _ _ _ HI Hc Hp Hb), N.eqb_refl.
    destruct (N.ltb_spec sq 64); [reflexivity | lia].
  - now apply pos_xor_square_other. Qed.

(** the fields not touched by xor *)
Lemma castling_pos_xor pos sq c p : castling (pos_xor pos sq c p) = castling pos.
Proof. reflexivity. Qed.
Lemma enpassant_pos_xor pos sq c p : enpassant (pos_xor pos sq c p) = enpassant pos.
Proof. reflexivity. Qed.

(** changing castling rights / en passant keeps the invariant and the squares *)
Lemma Inv_set_fields pos ca ep : Inv pos -> ca < 16 -> ep < 64 ->
  Inv (mkPos (pieces pos) (rotated_bb pos) ca ep).
Proof. intros [H1 [H2 [H3 [H4 [H5 [H6 [H7 H8]]]]]]] Hca Hep. unfold Inv. cbn [pieces rotated_bb castling enpassant].
  repeat split; assumption. Qed.
Lemma square_set_fields pos ca ep s : square (mkPos (pieces pos) (rotated_bb pos) ca ep) s = square pos s.
Proof. reflexivity. Qed.
Lemma pget_set_fields pos ca ep c p : pget (mkPos (pieces pos) (rotated_bb pos) ca ep) c p = pget pos c p.
Proof. reflexivity. Qed.

(** piece sets in terms of square lookup *)
Lemma pbit_square pos c p s : Inv pos -> s < 64 -> vcol c -> vpc p ->
  N.testbit (pget pos c p) s = true <-> square pos s = Some (c, p).
Proof. intros HI Hs Hc Hp. rewrite square_some by assumption. tauto. Qed.

(* ------------------------------------------------------------------ *)
(** * abstraction to the mailbox board *)

Lemma length_abs_brd pos : length (brd (abs_pos pos)) = 64%nat.
Proof. unfold abs_pos. cbn [brd]. now rewrite map_length, length_seqN. Qed.

Lemma at_map_seqN (f : N -> cell) s : s < 64 -> at_ (map f (seqN 64)) (N.to_nat s) = f s.
Proof. intros Hs. unfold at_. rewrite nth_indep with (d' := f 0) by (rewrite map_length, length_seqN; lia).
  rewrite map_nth, nth_seqN by lia. now rewrite N2Nat.id. Qed.

Lemma at_map_seqN_out (f : N -> cell) n : (64 <= n)%nat -> at_ (map f (seqN 64)) n = None.
Proof. intros H. unfold at_. apply nth_overflow. now rewrite map_length, length_seqN. Qed.

Theorem at_abs_pos pos s : s < 64 ->
  at_ (brd (abs_pos pos)) (N.to_nat s) =
  match square pos s with
  | Some (c, p) => match kind_of p with Some k => Some (color_of c, k) | None => None end
  | None => None
  end.
Proof. intros Hs. unfold abs_pos. cbn [brd]. now rewrite at_map_seqN. Qed.

Lemma set_cell_nth b s v n : (s < length b)%nat -> nth n (set_cell b s v) None = if Nat.eqb n s then v else nth n b None.
Proof. revert s n. induction b as [|x r IH]; intros [|s] [|n] H; cbn in *; try lia; auto. apply IH. lia. Qed.

Lemma length_set_cell b s v : length (set_cell b s v) = length b.
Proof. revert s. induction b as [|x r IH]; intros [|s]; cbn; auto. Qed.

Lemma map_seqN_ext (f g : N -> cell) : (forall s, s < 64 -> f s = g s) -> map f (seqN 64) = map g (seqN 64).
Proof. intros H. apply map_ext_in. intros s Hs. apply H. now apply in_seqN64. Qed.

Theorem set_cell_map (f : N -> cell) sq v : sq < 64 ->
  set_cell (map f (seqN 64)) (N.to_nat sq) v = map (fun s => if s =? sq then v else f s) (seqN 64).
Proof. intros Hsq. apply nth_ext with (d := None) (d' := None).
  - now rewrite length_set_cell, !map_length.
  - intros n Hn. rewrite length_set_cell, map_length, length_seqN in Hn.
    rewrite set_cell_nth by (rewrite map_length, length_seqN; lia).
    replace n with (N.to_nat (N.of_nat n)) by lia. change (nth (N.to_nat (N.of_nat n)) ?l None) with (at_ l (N.to_nat (N.of_nat n))).
    rewrite !at_map_seqN by lia.
    destruct (N.eqb_spec (N.of_nat n) sq); destruct (Nat.eqb_spec (N.to_nat (N.of_nat n)) (N.to_nat sq)); try reflexivity; lia. Qed.

(** the abstract board after an xor: adding or removing one piece is [set_cell] *)
Definition cell_of (c p : N) : cell := match kind_of p with Some k => Some (color_of c, k) | None => None end.

Corollary abs_brd_xor_add pos sq c p : Inv pos -> sq < 64 -> is_empty pos sq = true -> (c = 0 \/ c = 1) -> 1 <= p <= 6 ->
  brd (abs_pos (pos_xor pos sq c p)) = set_cell (brd (abs_pos pos)) (N.to_nat sq) (cell_of c p).
Proof. intros HI Hsq He Hc Hp. destruct (pos_xor_add _ _ _ _ HI Hsq He Hc Hp) as [_ Hs].
  unfold abs_pos. cbn [brd]. rewrite set_cell_map by assumption. apply map_seqN_ext. intros s Hlt.
  unfold abs_cell. rewrite Hs by assumption. destruct (s =? sq); reflexivity. Qed.

Corollary abs_brd_xor_remove pos sq c p : Inv pos -> sq < 64 -> square pos sq = Some (c, p) ->
  brd (abs_pos (pos_xor pos sq c p)) = set_cell (brd (abs_pos pos)) (N.to_nat sq) None.
Proof. intros HI Hsq E. destruct (pos_xor_remove _ _ _ _ HI Hsq E) as [_ Hs].
  unfold abs_pos. cbn [brd]. rewrite set_cell_map by assumption. apply map_seqN_ext. intros s Hlt.
  unfold abs_cell. rewrite Hs by assumption. destruct (s =? sq); reflexivity. Qed.

(* ------------------------------------------------------------------ *)
(** * NewPosition *)

Lemma empty_position_inv ca ep : ca < 16 -> ep < 64 -> Inv (empty_position ca ep).
Proof. intros Hca Hep. apply inv_b_iff. unfold inv_b, empty_position.
  cbn [castling enpassant]. apply N.ltb_lt in Hca, Hep. rewrite Hca, Hep, !andb_true_r. vm_compute. reflexivity. Qed.

Definition placement_ok (pl : placement) : Prop :=
  pl_square pl < 64 /\ (pl_color pl = 0 \/ pl_color pl = 1) /\ 1 <= pl_piece pl <= 6.

Theorem new_position_inv pls ca ep pos : Forall placement_ok pls -> ca < 16 -> ep < 64 ->
  new_position pls ca ep = Some pos -> Inv pos.
Proof. intros HF Hca Hep. unfold new_position.
  assert (G : forall acc, (forall q, acc = Some q -> Inv q) ->
     forall pos, fold_left (fun acc pl => match acc with
       | None => None
       | Some pos => if is_empty pos (pl_square pl) then Some (pos_xor pos (pl_square pl) (pl_color pl) (pl_piece pl)) else None
       end) pls acc = Some pos -> Inv pos).
  { induction HF as [|pl r Hpl Hr IH]; intros acc Hacc pos0 H; cbn [fold_left] in H.
    - now apply Hacc.
    - eapply IH; [|exact H]. intros q Hq. destruct acc as [p0|]; [|discriminate].
      destruct (is_empty p0 (pl_square pl)) eqn:E; [|discriminate]. inversion Hq; subst.
      destruct Hpl as [H1 [H2 H3]]. apply pos_xor_add; auto. }
  apply G. intros q Hq. inversion Hq; subst. now apply empty_position_inv. Qed.

Print Assumptions inv_b_iff.
Print Assumptions square_spec.
Print Assumptions rot_xor_lockstep.
Print Assumptions pos_xor_add.
Print Assumptions pos_xor_remove.
Print Assumptions new_position_inv.
