(** C10 / C14 / C19, engine part 1: the refinement relation between an [engine] (heap board) and a
    specification game; pushing a pseudo-legal move refines [g_play]; Engine.Move accepts a string exactly
    when it denotes a legal move of the current position, and rejected input leaves the engine unchanged. *)
From Coq Require Import NArith ZArith List Bool Lia ZifyBool ZifyNat ZifyN.
From Morlock.Model Require Import Bits Attacks Move Position Zobrist Board Fen Abs Engine EngineSpec.
From Morlock.Spec Require Import Chess Game.
From Morlock.Lemmas Require Import AttackGeometry3 PositionLemmas MoveRefines1 MoveRefines2 MoveRefines MoveGen2 MoveGen3
  MoveGen7 MoveGen8 MoveGen10 MoveGen11 BoardHeap1 BoardHeap3 GameLemmas1 GameLemmas2 FenLemmas1.
Import ListNotations.
Open Scope N_scope.

(* ------------------------------------------------------------------ *)
(** * 1. the refinement relation *)

(** the (position, side to move) states of a history list [a_data] (head first), the head having [t] to move
    (the same function as [GameLemmas3.states]; the link is in EngineLemmas5) *)
Fixpoint estates (d : list (position * N * N)) (t : N) : list (spos * color) :=
  match d with [] => [] | e :: r => (abs_pos (fst (fst e)), color_of t) :: estates r (opponent t) end.

(** a heap board refines a specification game: the chain of history nodes, read as (position, turn) states, is the
    current state followed by [g_past]; clock (the board carries the specification's clock capped at [max_int]:
    [clk_rel], GameLemmas2 - the Go counter saturates at math.MaxInt); full-move number.
    (Literally [GameLemmas4.ARel (abs h b) g], see EngineLemmas5.) *)
Definition GRel (hb : heap * board) (g : gstate) : Prop :=
  let a := abs (fst hb) (snd hb) in
  estates (a_data a) (a_turn a) = (g_pos g, g_turn g) :: g_past g /\
  clk_rel (a_noprogress a) (g_clock g) /\
  a_moves a = g_fullmove g.

Definition ERel (e : engine) (g : gstate) : Prop :=
  wf (e_heap e) (e_board e) /\ GRel (e_heap e, e_board e) g.

(** legal-state invariants: the current position is a legal position for the side to move; the game has not been
    adjudicated checkmate / stalemate (PushMove refuses to move then; nothing in the engine's game sets these). *)
Definition EInv (e : engine) : Prop :=
  wf_b (b_position (e_heap e) (e_board e)) (b_turn (e_board e)) = true /\
  BoardHeap1.blocked (b_result (e_board e)) = false.

Lemma grel_now h b g : wf h b -> GRel (h, b) g ->
  abs_pos (b_position h b) = g_pos g /\ color_of (b_turn b) = g_turn g /\
  clk_rel (b_noprogress h b) (g_clock g) /\ b_moves b = g_fullmove g /\
  estates (tl (data h b)) (opponent (b_turn b)) = g_past g.
Proof.
  intros Hwf [Hst [Hc Hm]]. cbn [fst snd] in *.
  rewrite <- (get_noprogress h b Hwf) in Hc.
  unfold abs in Hst, Hm. cbn [a_data a_turn a_moves] in Hst, Hm.
  rewrite (data_unfold h b (proj1 Hwf)) in Hst |- *. cbn [estates ndata fst tl] in Hst |- *.
  inversion Hst as [[E1 E2 E3]]. unfold b_position. repeat split; auto.
Qed.

(* ------------------------------------------------------------------ *)
(** * 2. pushing a pseudo-legal move refines [g_play] *)

Lemma blocked_draw r x : BoardHeap1.blocked r = false ->
  x = Repetition5 \/ x = Repetition3 \/ x = NoProgress \/ x = InsufficientMaterial ->
  BoardHeap1.blocked (mkResult Draw x) = false.
Proof. intros _ [->|[->|[->| ->]]]; reflexivity. Qed.

Theorem push_refines z h b g m h1 b1 :
  wf h b -> wf_b (b_position h b) (b_turn b) = true -> GRel (h, b) g ->
  In m (pseudo_legal_moves (b_position h b) (b_turn b)) ->
  push_move z h b m = (h1, b1, true) ->
  wf h1 b1 /\ GRel (h1, b1) (g_play g (abs_move m)) /\
  wf_b (b_position h1 b1) (b_turn b1) = true /\
  pos_move (b_position h b) m = Some (b_position h1 b1) /\
  (BoardHeap1.blocked (b_result b) = false -> BoardHeap1.blocked (b_result b1) = false).
Proof.
  intros Hwf Hleg Hrel Hin Hp.
  pose proof (wf_push_move _ _ _ _ _ _ _ Hwf Hp) as Hwf1.
  destruct (grel_now h b g Hwf Hrel) as [Epos [Eturn [Eclk [Emv Epast]]]].
  destruct Hrel as [Hst _]. cbn [fst snd] in Hst. unfold abs in Hst. cbn [a_data a_turn] in Hst.
  pose proof Hwf as [_ [_ [_ Hturn]]]. unfold turn_ok in Hturn.
  assert (Ht : vcol (b_turn b)) by exact Hturn.
  pose proof (wf_inv _ _ (wf_b_WF _ _ Hleg)) as HI.
  rewrite push_move_is_pushw in Hp. pose proof (push_sim _ _ _ _ z h b m h1 b1 true Hwf Hp) as Hs.
  unfold apush_with in Hs.
  destruct (BoardHeap1.blocked (a_result (abs h b))) eqn:Hbl; [inversion Hs|].
  rewrite <- (get_position h b Hwf), <- (get_hash h b Hwf), <- (get_noprogress h b Hwf) in Hs.
  destruct (pos_move (b_position h b) m) as [next|] eqn:Hmv; [|inversion Hs].
  apply (f_equal fst) in Hs. cbn [fst] in Hs. rename Hs into Habs.
  assert (Enext : b_position h1 b1 = next).
  { rewrite (get_position h1 b1 Hwf1), <- Habs. reflexivity. }
  assert (Et1 : b_turn b1 = opponent (b_turn b)).
  { change (b_turn b1) with (a_turn (abs h1 b1)). rewrite <- Habs. reflexivity. }
  split; [exact Hwf1|]. split; [|split; [|split]].
  - unfold GRel. cbn [fst snd]. rewrite <- Habs. unfold a_noprogress. cbn [a_data a_turn a_moves hd snd abs].
    unfold g_play. cbn [g_pos g_turn g_past g_clock g_fullmove].
    rewrite <- Epos, <- Eturn, <- Emv.
    split; [|split].
    + cbn [estates fst]. rewrite (opponent_invol _ Ht), Hst.
      rewrite (move_refines _ _ _ _ HI Hleg Hin Hmv), (color_of_vcol _ Ht), <- Epos, <- Eturn. reflexivity.
    + apply (clock_spec_Z _ (b_turn b)); assumption.
    + unfold color_of, opponent, White, Black. destruct Ht as [->| ->]; reflexivity.
  - rewrite Enext, Et1. exact (move_wf _ _ _ _ HI Hleg Hin Hmv).
  - now rewrite Enext.
  - intros Hnb. change (b_result b1) with (a_result (abs h1 b1)). rewrite <- Habs. cbn [a_result abs].
    repeat match goal with |- context [if ?c then _ else _] => destruct c end;
      try exact Hnb; reflexivity.
Qed.

(** PushMove succeeds exactly when the position accepts the move (on a game that is not blocked) *)
Lemma push_ok_iff z h b m h1 b1 ok : wf h b -> BoardHeap1.blocked (b_result b) = false ->
  push_move z h b m = (h1, b1, ok) ->
  (ok = true <-> pos_move (b_position h b) m <> None) /\ (ok = false -> h1 = h /\ b1 = b).
Proof.
  intros Hwf Hnb Hp. rewrite push_move_is_pushw in Hp.
  pose proof (push_heap _ _ _ _ _ _ _ _ _ _ _ Hp) as Hheap.
  pose proof (push_sim _ _ _ _ z h b m h1 b1 ok Hwf Hp) as Hs.
  unfold apush_with in Hs. change (a_result (abs h b)) with (b_result b) in Hs. rewrite Hnb in Hs.
  rewrite <- (get_position h b Hwf) in Hs.
  split.
  - destruct (pos_move (b_position h b) m); inversion Hs; split; congruence.
  - intros ->. destruct Hheap as [[_ [-> ->]]|[H _]]; [auto|discriminate].
Qed.

(* ------------------------------------------------------------------ *)
(** * 3. candidates: (from, to, promotion) identifies a pseudo-legal move *)

Lemma okind_eqb_eq a b : okind_eqb a b = true <-> a = b.
Proof.
  destruct a as [x|], b as [y|]; cbn; try (split; [discriminate|discriminate]); try tauto.
  rewrite kind_eqb_eq. split; [intros ->; reflexivity|intros H; inversion H; auto].
Qed.

Definition cand_pred (cand : move) (sm : smove) : bool :=
  Nat.eqb (sfrom sm) (N.to_nat (mfrom cand)) && Nat.eqb (sto sm) (N.to_nat (mto cand)) &&
  okind_eqb (spromo sm) (kind_of (mpromo cand)).

Definition cand_smove (cand : move) : smove :=
  mkSmove (N.to_nat (mfrom cand)) (N.to_nat (mto cand)) (kind_of (mpromo cand)).

Lemma cand_pred_eq cand sm : cand_pred cand sm = true <-> sm = cand_smove cand.
Proof.
  unfold cand_pred, cand_smove. rewrite !andb_true_iff, !Nat.eqb_eq, okind_eqb_eq.
  destruct sm as [f t p]. cbn [sfrom sto spromo].
  split; [intros [[-> ->] ->]; reflexivity|intros H; inversion H; auto].
Qed.

Lemma smove_of_str_find g s cand : parse_move s = Some cand ->
  smove_of_str g s = find (cand_pred cand) (spec_legal (g_pos g) (g_turn g)).
Proof. intros H. unfold smove_of_str. rewrite H. reflexivity. Qed.

(** the promotion field of an emitted move is the code of the promotion kind (0 for a non-promotion) *)
Lemma pseudo_promo p turn m : wf_b p turn = true -> vcol turn -> In m (pseudo_legal_moves p turn) ->
  spromo (abs_move m) = kind_of (mpromo m) /\ mpromo m = okind_code (kind_of (mpromo m)).
Proof.
  intros Hwf Hc Hin.
  destruct (pseudo_legal_sound p turn m (wf_b_WF _ _ Hwf) Hc Hin) as [_ Hmeta].
  pose proof (f_equal mpromo Hmeta) as E. cbn [concretize mpromo] in E.
  assert (E1 : spromo (abs_move m) = kind_of (mpromo m)).
  { unfold abs_move in *. cbn [spromo] in *. destruct (is_promotion m); [reflexivity|].
    rewrite E. reflexivity. }
  split; [exact E1|]. rewrite <- E1. exact E.
Qed.

Lemma okind_code_kind_of x : x = 0 \/ 2 <= x <= 5 -> okind_code (kind_of x) = x.
Proof.
  intros [->|H]; [reflexivity|].
  assert (x = 2 \/ x = 3 \/ x = 4 \/ x = 5) as [->|[->|[->| ->]]] by lia; reflexivity.
Qed.

(** [Move.Equals] on (candidate, emitted move) is the comparison of (from, to, promotion kind) *)
Lemma move_equals_abs p turn m s cand : wf_b p turn = true -> vcol turn -> In m (pseudo_legal_moves p turn) ->
  parse_move s = Some cand -> move_equals cand m = cand_pred cand (abs_move m).
Proof.
  intros Hwf Hc Hin Hpm.
  destruct (pseudo_promo p turn m Hwf Hc Hin) as [E1 E2].
  destruct (parse_move_wf s cand Hpm) as [_ [_ [_ Hpr]]].
  apply bool_eq_iff. unfold move_equals, cand_pred. rewrite !andb_true_iff, !N.eqb_eq, !Nat.eqb_eq, okind_eqb_eq.
  unfold abs_move at 1 2. cbn [sfrom sto]. rewrite E1.
  split.
  - intros [[-> ->] ->]. auto.
  - intros [[A B] C]. repeat split; try lia.
    rewrite E2, C. symmetry. now apply okind_code_kind_of.
Qed.

Lemma NoDup_map_in_inj {A B} (f : A -> B) l x y : NoDup (map f l) -> In x l -> In y l -> f x = f y -> x = y.
Proof.
  induction l as [|a l IH]; intros Hnd Hx Hy E; [destruct Hx|].
  cbn [map] in Hnd. inversion Hnd as [|? ? Hn Hnd']; subst.
  destruct Hx as [->|Hx], Hy as [->|Hy]; auto.
  - exfalso. apply Hn. rewrite E. now apply in_map.
  - exfalso. apply Hn. rewrite <- E. now apply in_map.
Qed.

Lemma find_some_iff {A} (f : A -> bool) l : find f l <> None <-> exists x, In x l /\ f x = true.
Proof.
  split.
  - destruct (find f l) as [x|] eqn:E; [|congruence]. intros _. exists x. now apply find_some in E.
  - intros [x [Hx Hf]] E. now rewrite (find_none _ _ E x Hx) in Hf.
Qed.

(* ------------------------------------------------------------------ *)
(** * 4. Engine.Move (C19, engine part) *)

Theorem engine_move_iff_legal z e g s : ERel e g -> EInv e ->
  (snd (eng_move z e s) = true <-> smove_of_str g s <> None) /\
  (forall sm, smove_of_str g s = Some sm ->
     ERel (fst (eng_move z e s)) (g_play g sm) /\ EInv (fst (eng_move z e s))) /\
  (snd (eng_move z e s) = false -> fst (eng_move z e s) = e).
Proof.
  intros [Hwf Hrel] [Hleg Hnb]. destruct e as [h b]. cbn [e_heap e_board] in *.
  destruct (grel_now h b g Hwf Hrel) as [Epos [Eturn _]].
  pose proof Hwf as [_ [_ [_ Ht]]]. unfold turn_ok in Ht. assert (Hc : vcol (b_turn b)) by exact Ht.
  set (p := b_position h b) in *. set (t := b_turn b) in *.
  destruct (legal_moves_fide p t Hleg Hc) as [Hfide _].
  pose proof (pseudo_legal_abs_nodup p t (wf_b_WF _ _ Hleg) Hc) as Hnd.
  unfold eng_move. cbn [e_heap e_board]. fold p t.
  destruct (parse_move s) as [cand|] eqn:Hpm.
  2:{ unfold smove_of_str. rewrite Hpm. cbn [fst snd]. repeat split; try congruence; try discriminate. }
  rewrite (smove_of_str_find g s cand Hpm), <- Epos, <- Eturn.
  (* a legal spec move matching the candidate comes from a unique emitted move *)
  assert (Hback : forall sm, In sm (spec_legal (abs_pos p) (color_of t)) -> cand_pred cand sm = true ->
            exists m, In m (pseudo_legal_moves p t) /\ pos_move p m <> None /\ abs_move m = sm /\ move_equals cand m = true).
  { intros sm Hin Hpr. apply Hfide in Hin. apply in_map_iff in Hin as [m [Em Hm]].
    unfold legal_moves in Hm. apply filter_In in Hm as [Hm Hacc]. cbv beta in Hacc.
    exists m. split; [exact Hm|]. split; [destruct (pos_move p m); [discriminate|discriminate Hacc]|].
    split; [exact Em|]. rewrite (move_equals_abs p t m s cand Hleg Hc Hm Hpm), Em. exact Hpr. }
  destruct (find (fun m => move_equals cand m) (pseudo_legal_moves p t)) as [m|] eqn:Ef.
  - apply find_some in Ef as [Hin Heq].
    pose proof Heq as Hpr. rewrite (move_equals_abs p t m s cand Hleg Hc Hin Hpm) in Hpr.
    destruct (push_move z h b m) as [[h1 b1] ok] eqn:Hp.
    destruct (push_ok_iff z h b m h1 b1 ok Hwf Hnb Hp) as [Hok Hfail]. fold p in Hok.
    destruct ok.
    + (* accepted *)
      assert (Hmv : pos_move p m <> None) by now apply Hok.
      assert (Hlm : In (abs_move m) (spec_legal (abs_pos p) (color_of t))).
      { apply Hfide. apply in_map. unfold legal_moves. apply filter_In. split; [exact Hin|].
        destruct (pos_move p m); [reflexivity|congruence]. }
      assert (Hfind : find (cand_pred cand) (spec_legal (abs_pos p) (color_of t)) = Some (abs_move m)).
      { destruct (find (cand_pred cand) (spec_legal (abs_pos p) (color_of t))) as [sm|] eqn:E.
        - apply find_some in E as [_ E]. apply cand_pred_eq in E, Hpr. congruence.
        - now rewrite (find_none _ _ E _ Hlm) in Hpr. }
      rewrite Hfind. cbn [fst snd]. split; [split; [discriminate|reflexivity]|]. split; [|discriminate].
      intros sm Esm. inversion Esm; subst sm.
      destruct (push_refines z h b g m h1 b1 Hwf Hleg Hrel Hin Hp) as [W1 [R1 [L1 [_ B1]]]].
      split; [split; assumption|]. split; [exact L1|exact (B1 Hnb)].
    + (* the unique emitted move with these coordinates is illegal *)
      assert (Hmv : pos_move p m = None).
      { destruct (pos_move p m) eqn:E; [|reflexivity]. assert (false = true) by (apply Hok; discriminate). discriminate. }
      assert (Hfind : find (cand_pred cand) (spec_legal (abs_pos p) (color_of t)) = None).
      { destruct (find (cand_pred cand) (spec_legal (abs_pos p) (color_of t))) as [sm|] eqn:E; [|reflexivity].
        exfalso. apply find_some in E as [Hsm Hpsm].
        destruct (Hback sm Hsm Hpsm) as [m' [Hin' [Hmv' [Em' _]]]].
        apply cand_pred_eq in Hpsm, Hpr.
        assert (m' = m) by (apply (NoDup_map_in_inj abs_move _ _ _ Hnd Hin' Hin); congruence).
        subst m'. contradiction. }
      rewrite Hfind. cbn [fst snd]. split; [split; [discriminate|congruence]|]. split; [discriminate|reflexivity].
  - (* no emitted move has these coordinates *)
    assert (Hfind : find (cand_pred cand) (spec_legal (abs_pos p) (color_of t)) = None).
    { destruct (find (cand_pred cand) (spec_legal (abs_pos p) (color_of t))) as [sm|] eqn:E; [|reflexivity].
      exfalso. apply find_some in E as [Hsm Hpsm].
      destruct (Hback sm Hsm Hpsm) as [m' [Hin' [_ [_ Heq']]]].
      pose proof (find_none _ _ Ef m' Hin') as Hn. cbv beta in Hn. congruence. }
    rewrite Hfind. cbn [fst snd]. split; [split; [discriminate|congruence]|]. split; [discriminate|reflexivity].
Qed.
Print Assumptions engine_move_iff_legal.

(** the same, as the three readings of C19 *)
Corollary engine_move_accepts z e g s : ERel e g -> EInv e ->
  (snd (eng_move z e s) = true <-> exists sm, smove_of_str g s = Some sm).
Proof.
  intros H1 H2. destruct (engine_move_iff_legal z e g s H1 H2) as [H _]. rewrite H.
  destruct (smove_of_str g s) as [sm|]; split; intros H'; try congruence; eauto.
  destruct H' as [sm Hsm]. discriminate.
Qed.

Corollary engine_move_rejected_unchanged z e g s : ERel e g -> EInv e ->
  snd (eng_move z e s) = false -> fst (eng_move z e s) = e.
Proof. intros H1 H2. now destruct (engine_move_iff_legal z e g s H1 H2) as [_ [_ H]]. Qed.

(** rejected input never changes the engine, whatever its state (no invariant needed) *)
Theorem engine_move_rejected_unchanged_any z e s : snd (eng_move z e s) = false -> fst (eng_move z e s) = e.
Proof.
  unfold eng_move. destruct (parse_move s) as [cand|]; [|reflexivity].
  destruct (find _ _) as [fm|]; [|reflexivity].
  destruct (push_move z (e_heap e) (e_board e) fm) as [[h1 b1] ok]. destruct ok; cbv beta iota; cbn [fst snd]; intros H; [discriminate H|reflexivity].
Qed.
Print Assumptions engine_move_rejected_unchanged_any.
