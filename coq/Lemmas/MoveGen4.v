(** MoveGen4 — helper lemmas for move generation, and the stepping / sliding pieces
    (queen, rook, knight, bishop, king steps): the emitted moves are exactly the specification's
    [piece_moves], and each emitted record is the one the rules prescribe ([metadata_ok]). *)
From Coq Require Import NArith ZArith List Bool Lia ZifyBool ZifyNat ZifyN.
From Morlock.Model Require Import Bits Attacks Move Position Abs.
From Morlock.Spec Require Import Chess.
From Morlock.Lemmas Require Import AttackGeometry AttackGeometry_Extra PositionLemmas MoveGen1 MoveGen2 MoveGen3.
Import ListNotations.
Open Scope N_scope.

(** * bits *)

Lemma tb_not64 x i : N.testbit (not64 x) i = (i <? 64) && negb (N.testbit x i).
Proof.
  unfold not64. rewrite N.lxor_spec, tb_mask64.
  destruct (N.ltb_spec i 64) as [L|L].
  - rewrite N.ones_spec_low by lia. cbn [andb]. now destruct (N.testbit x i).
  - rewrite N.ones_spec_high by lia. reflexivity.
Qed.

Lemma tb_andnot x y i : N.testbit (andnot x y) i = N.testbit x i && negb (N.testbit y i).
Proof. unfold andnot. apply N.ldiff_spec. Qed.

(** * emission *)

Lemma emit_move_in p turn t piece from bb m :
  In m (emit_move p turn t piece from bb) <->
  exists to, N.testbit bb to = true /\
    m = mkMove t from to piece NoPiece (if t =? Capture then capture_at p to turn else NoPiece).
Proof.
  unfold emit_move. rewrite in_map_iff. split.
  - intros [to [E H]]. exists to. split; [now apply bits_asc_spec|now symmetry].
  - intros [to [H E]]. exists to. split; [now symmetry|now apply bits_asc_spec].
Qed.

Lemma emit_promo_in p turn t piece from bb m :
  In m (emit_promo p turn t piece from bb) <->
  exists to pc, N.testbit bb to = true /\ In pc QueenRookKnightBishop /\
    m = mkMove t from to piece pc (if t =? CapturePromotion then capture_at p to turn else NoPiece).
Proof.
  unfold emit_promo. rewrite in_flat_map. split.
  - intros [to [Hto H]]. cbv zeta in H. apply in_map_iff in H as [pc [E Hpc]].
    exists to, pc. split; [now apply bits_asc_spec|]. split; [exact Hpc|now symmetry].
  - intros [to [pc [Hto [Hpc E]]]]. exists to. split; [now apply bits_asc_spec|].
    cbv zeta. apply in_map_iff. exists pc. split; [now symmetry|exact Hpc].
Qed.

(** * the abstract board in terms of the colour boards *)

Lemma color_eqb_refl c : color_eqb c c = true. Proof. now destruct c. Qed.

Lemma is_color_abs p c s : Inv p -> vcol c -> s < 64 ->
  is_color (brd (abs_pos p)) (color_of c) (N.to_nat s) = N.testbit (pget p c NoPiece) s.
Proof.
  intros HI Hc Hs. apply bool_eq_iff. unfold is_color. split.
  - destruct (at_ (brd (abs_pos p)) (N.to_nat s)) as [[c' k]|] eqn:E; [|discriminate].
    intros H. apply color_eqb_eq in H. subst c'. apply at_piece in E; try assumption.
    apply Inv_union_some; try assumption. exists (code_of_kind k). split; [apply vpc_code|exact E].
  - intros H. apply Inv_union_some in H as [q [Hq Hb]]; try assumption.
    destruct (vpc_kind q Hq) as [k ->].
    rewrite (proj2 (at_piece p s c k HI Hs Hc) Hb). apply color_eqb_refl.
Qed.

Lemma occupied_tb p s : Inv p -> occupied (brd (abs_pos p)) (N.to_nat s) = N.testbit (all_bb p) s.
Proof. intros HI. rewrite occupied_abs by exact HI. unfold occ_of. now rewrite N2Nat.id. Qed.

Lemma all_own_opp p turn s : Inv p -> vcol turn ->
  N.testbit (all_bb p) s = N.testbit (pget p turn NoPiece) s || N.testbit (pget p (opponent turn) NoPiece) s.
Proof.
  intros HI [->| ->]; rewrite (Inv_all _ _ HI); cbn [opponent N.eqb White Black]; [reflexivity|apply orb_comm].
Qed.

Lemma own_opp_disj p turn s : Inv p -> vcol turn ->
  N.testbit (pget p turn NoPiece) s = true -> N.testbit (pget p (opponent turn) NoPiece) s = true -> False.
Proof.
  intros HI Hc H1 H2. pose proof (vcol_opponent turn) as Ho.
  apply Inv_union_some in H1 as [q1 [Hq1 B1]]; try assumption.
  apply Inv_union_some in H2 as [q2 [Hq2 B2]]; try assumption.
  destruct (Inv_disj _ _ _ _ _ _ HI Hc Hq1 Ho Hq2 B1 B2) as [E _].
  destruct Hc as [->| ->]; discriminate.
Qed.

Lemma opp_cell p turn s : Inv p -> vcol turn -> s < 64 ->
  N.testbit (pget p (opponent turn) NoPiece) s = true ->
  exists k, at_ (brd (abs_pos p)) (N.to_nat s) = Some (color_of (opponent turn), k) /\
            capture_at p s turn = code_of_kind k.
Proof.
  intros HI Hc Hs H. pose proof (vcol_opponent turn) as Ho.
  apply Inv_union_some in H as [q [Hq Hb]]; try assumption.
  destruct (vpc_kind q Hq) as [k ->]. exists k. split; [now apply at_piece|].
  unfold capture_at. now rewrite (first_piece_of_bit p (opponent turn) s _ HI Hs Ho Hq Hb).
Qed.

Lemma N_of_to n : N.of_nat (N.to_nat n) = n. Proof. apply N2Nat.id. Qed.

(** * membership in the candidate list *)

Lemma piece_candidates_in sp c s k sm : (s < 64)%nat -> at_ (brd sp) s = Some (c, k) ->
  In sm (piece_moves sp c k s) -> In sm (piece_candidates sp c).
Proof.
  intros Hs E H. unfold piece_candidates. apply in_flat_map. exists s.
  split; [now apply in_all_squares|]. now rewrite E, color_eqb_refl.
Qed.

Lemma piece_candidates_inv sp c sm : In sm (piece_candidates sp c) ->
  exists s k, (s < 64)%nat /\ at_ (brd sp) s = Some (c, k) /\ In sm (piece_moves sp c k s).
Proof.
  unfold piece_candidates. rewrite in_flat_map. intros [s [Hs H]]. apply in_all_squares in Hs.
  destruct (at_ (brd sp) s) as [[c' k]|] eqn:E; [|destruct H].
  destruct (color_eqb c c') eqn:Ec; [|destruct H]. apply color_eqb_eq in Ec. subst c'.
  exists s, k. auto.
Qed.

Lemma piece_moves_officer sp c k s : k <> P ->
  piece_moves sp c k s =
  map (fun t => mkSmove s t None)
      (filter (fun t => negb (is_color (brd sp) c t)) (attacks_from (occupied (brd sp)) c k s)).
Proof. intros Hk. destruct k; try reflexivity. congruence. Qed.

(** * the expected record of a step move *)

Lemma concretize_step sp c s t k c' : at_ (brd sp) s = Some (c', k) -> k <> P ->
  (k = K -> (Z.abs (file_of s - file_of t) =? 2)%Z = false) ->
  concretize sp c (mkSmove s t None) =
  mkMove (if occupied (brd sp) t then Capture else Normal) (N.of_nat s) (N.of_nat t) (code_of_kind k) NoPiece
         (okind_code (captured sp (mkSmove s t None))).
Proof.
  intros E Hk HK. unfold concretize, expected_type, is_ep_move, is_castling_move, is_double_step, moving.
  cbn [sfrom sto spromo okind_code]. rewrite E.
  destruct k; try congruence; try reflexivity.
  rewrite (HK eq_refl). reflexivity.
Qed.

Definition king_file_ok : bool :=
  forallb (fun s => forallb (fun t => negb (Z.abs (file_of s - file_of t) =? 2)%Z) (attacks_from free Wh K s)) all_squares.
Lemma king_file_ok_true : king_file_ok = true. Proof. vm_compute. reflexivity. Qed.

Lemma king_step_file occ c s t : (s < 64)%nat -> mem_nat t (attacks_from occ c K s) = true ->
  (Z.abs (file_of s - file_of t) =? 2)%Z = false.
Proof.
  intros Hs H. apply mem_nat_In in H. pose proof king_file_ok_true as G. unfold king_file_ok in G.
  rewrite forallb_forall in G. specialize (G s (proj2 (in_all_squares s) Hs)). rewrite forallb_forall in G.
  specialize (G t H). now apply negb_true_iff in G.
Qed.

(** * target squares of a stepping / sliding piece *)

Section Step.
  Variables (p : position) (turn : N).
  Hypothesis HI : Inv p.
  Hypothesis Hc : vcol turn.
  Let sp := abs_pos p.
  Let b := brd sp.
  Let c := color_of turn.

  Lemma step_bits k from to : from < 64 -> k <> P ->
    let ab := N.land (attackboard (rotated_bb p) from (code_of_kind k)) (own_mask p turn) in
    (N.testbit (N.land ab (not64 (opp_all p turn))) to = true <->
       to < 64 /\ mem_nat (N.to_nat to) (attacks_from (occupied b) c k (N.to_nat from)) = true /\
       N.testbit (all_bb p) to = false) /\
    (N.testbit (N.land ab (opp_all p turn)) to = true <->
       to < 64 /\ mem_nat (N.to_nat to) (attacks_from (occupied b) c k (N.to_nat from)) = true /\
       N.testbit (opp_all p turn) to = true).
  Proof.
    intros Hf Hk. cbv zeta. unfold own_mask, opp_all.
    rewrite !N.land_spec, !tb_not64, attackboard_mem by assumption.
    rewrite (attacks_from_color _ c k) by exact Hk. fold sp. fold b.
    rewrite (all_own_opp p turn to HI Hc).
    destruct (N.ltb_spec to 64) as [L|L];
    destruct (mem_nat (N.to_nat to) (attacks_from (occupied b) c k (N.to_nat from)));
    destruct (N.testbit (pget p turn NoPiece) to) eqn:Own;
    destruct (N.testbit (pget p (opponent turn) NoPiece) to) eqn:Opp; cbn [negb andb orb];
    try (exfalso; eapply own_opp_disj; eauto; fail);
    intuition (try discriminate; try lia).
  Qed.

  (** soundness and metadata of the moves emitted for a piece of kind [k] on [from] *)
  Lemma step_moves_sound k from m : from < 64 -> k <> P ->
    N.testbit (pget p turn (code_of_kind k)) from = true ->
    In m (step_moves p turn (code_of_kind k) from (attackboard (rotated_bb p) from (code_of_kind k))) ->
    In (abs_move m) (piece_moves sp c k (N.to_nat from)) /\ metadata_ok p turn m.
  Proof.
    intros Hf Hk Hb Hm.
    assert (Eat : at_ b (N.to_nat from) = Some (c, k)) by (apply at_piece; assumption).
    unfold step_moves in Hm. apply in_app_or in Hm as [Hm|Hm]; apply emit_move_in in Hm as [to [Hbit ->]].
    - (* quiet move *)
      apply (proj1 (step_bits k from to Hf Hk)) in Hbit as [Hto [Hmem Hemp]].
      assert (Hocc : occupied b (N.to_nat to) = false) by (unfold b, sp; rewrite occupied_tb; assumption).
      assert (Eab : abs_move (mkMove Normal from to (code_of_kind k) NoPiece NoPiece) = mkSmove (N.to_nat from) (N.to_nat to) None) by reflexivity.
      change (if Normal =? Capture then capture_at p to turn else NoPiece) with NoPiece.
      split.
      + rewrite Eab, piece_moves_officer by exact Hk. apply in_map_iff. exists (N.to_nat to). split; [reflexivity|].
        apply filter_In. split; [now apply mem_nat_In|].
        unfold is_color. fold b. unfold occupied in Hocc. destruct (at_ b (N.to_nat to)); [discriminate|reflexivity].
      + unfold metadata_ok. rewrite Eab. fold sp. fold c.
        rewrite (concretize_step sp c _ _ k c Eat Hk).
        * fold b. rewrite Hocc, !N_of_to. unfold captured. cbn [sto]. fold b.
          unfold occupied in Hocc. destruct (at_ b (N.to_nat to)); [discriminate|reflexivity].
        * intros ->. eapply king_step_file; [lia|exact Hmem].
    - (* capture *)
      apply (proj1 (proj2 (step_bits k from to Hf Hk))) in Hbit as [Hto [Hmem Hopp]].
      destruct (opp_cell p turn to HI Hc Hto Hopp) as [k' [Ek' Ecap]].
      assert (Hocc : occupied b (N.to_nat to) = true) by (unfold occupied, b, sp; now rewrite Ek').
      change (if Capture =? Capture then capture_at p to turn else NoPiece) with (capture_at p to turn).
      assert (Eab : abs_move (mkMove Capture from to (code_of_kind k) NoPiece (capture_at p to turn)) = mkSmove (N.to_nat from) (N.to_nat to) None) by reflexivity.
      split.
      + rewrite Eab, piece_moves_officer by exact Hk. apply in_map_iff. exists (N.to_nat to). split; [reflexivity|].
        apply filter_In. split; [now apply mem_nat_In|].
        unfold is_color. fold sp in Ek'. rewrite Ek'. unfold c.
        destruct Hc as [->| ->]; reflexivity.
      + unfold metadata_ok. rewrite Eab. fold sp. fold c.
        rewrite (concretize_step sp c _ _ k c Eat Hk).
        * fold b. rewrite Hocc, !N_of_to. unfold captured. cbn [sto]. fold sp in Ek'. rewrite Ek'.
          cbn [okind_code]. now rewrite Ecap.
        * intros ->. eapply king_step_file; [lia|exact Hmem].
  Qed.

  (** completeness *)
  Lemma step_moves_complete k from sm : from < 64 -> k <> P ->
    In sm (piece_moves sp c k (N.to_nat from)) ->
    exists m, In m (step_moves p turn (code_of_kind k) from (attackboard (rotated_bb p) from (code_of_kind k))) /\
              abs_move m = sm.
  Proof.
    intros Hf Hk H. rewrite piece_moves_officer in H by exact Hk.
    apply in_map_iff in H as [t [<- H]]. apply filter_In in H as [Hin Hcol].
    assert (Ht : (t < 64)%nat).
    { destruct k; try congruence; cbn [attacks_from] in Hin;
      first [eapply slide_lt; exact Hin | eapply step_lt; exact Hin]. }
    set (to := N.of_nat t). assert (Hto : to < 64) by (unfold to; lia).
    assert (Et : t = N.to_nat to) by (unfold to; lia).
    rewrite Et in Hin, Hcol |- *. apply mem_nat_In in Hin.
    apply negb_true_iff in Hcol. unfold c, sp in Hcol. rewrite is_color_abs in Hcol by assumption.
    destruct (N.testbit (opp_all p turn) to) eqn:Opp.
    - exists (mkMove Capture from to (code_of_kind k) NoPiece (capture_at p to turn)). split; [|reflexivity].
      unfold step_moves. apply in_or_app. right. apply emit_move_in. exists to. split; [|reflexivity].
      apply (proj2 (step_bits k from to Hf Hk)). auto.
    - exists (mkMove Normal from to (code_of_kind k) NoPiece NoPiece). split; [|reflexivity].
      unfold step_moves. apply in_or_app. left. apply emit_move_in. exists to. split; [|reflexivity].
      apply (proj1 (step_bits k from to Hf Hk)). split; [exact Hto|]. split; [exact Hin|].
      rewrite (all_own_opp p turn to HI Hc), Hcol. exact Opp.
  Qed.
End Step.

(** * queen, rook, knight, bishop *)

Lemma in_QRNB piece : In piece QueenRookKnightBishop <-> exists k, piece = code_of_kind k /\ k <> P /\ k <> K.
Proof.
  unfold QueenRookKnightBishop. cbn [In]. split.
  - intros [H|[H|[H|[H|[]]]]]; subst; [exists Q|exists R|exists Kn|exists Bi]; repeat split; discriminate.
  - intros [k [-> [H1 H2]]]. destruct k; cbn; try congruence; tauto.
Qed.

Lemma officer_moves_in p turn m : In m (officer_moves p turn) <->
  exists k from, k <> P /\ k <> K /\ N.testbit (pget p turn (code_of_kind k)) from = true /\
    In m (step_moves p turn (code_of_kind k) from (attackboard (rotated_bb p) from (code_of_kind k))).
Proof.
  unfold officer_moves. rewrite in_flat_map. split.
  - intros [piece [Hp H]]. apply in_QRNB in Hp as [k [-> [H1 H2]]].
    apply in_flat_map in H as [from [Hf H]]. apply bits_asc_spec in Hf. exists k, from. auto.
  - intros [k [from [H1 [H2 [Hb H]]]]]. exists (code_of_kind k). split; [apply in_QRNB; eauto|].
    apply in_flat_map. exists from. split; [now apply bits_asc_spec|exact H].
Qed.

Theorem officer_moves_sound p turn m : Inv p -> vcol turn -> In m (officer_moves p turn) ->
  In (abs_move m) (piece_candidates (abs_pos p) (color_of turn)) /\ metadata_ok p turn m.
Proof.
  intros HI Hc H. apply officer_moves_in in H as [k [from [Hk [_ [Hb H]]]]].
  assert (Hf : from < 64) by (eapply word_tb_lt; [apply pget_word; exact HI|exact Hb]).
  destruct (step_moves_sound p turn HI Hc k from m Hf Hk Hb H) as [H1 H2]. split; [|exact H2].
  eapply piece_candidates_in; [| |exact H1]; [lia|]. now apply at_piece.
Qed.

Theorem officer_moves_complete p turn k s sm : Inv p -> vcol turn -> (s < 64)%nat -> k <> P -> k <> K ->
  at_ (brd (abs_pos p)) s = Some (color_of turn, k) -> In sm (piece_moves (abs_pos p) (color_of turn) k s) ->
  exists m, In m (officer_moves p turn) /\ abs_move m = sm.
Proof.
  intros HI Hc Hs Hk HK E H. set (from := N.of_nat s). assert (Hf : from < 64) by (unfold from; lia).
  assert (Es : s = N.to_nat from) by (unfold from; lia). rewrite Es in E, H.
  apply at_piece in E; try assumption.
  destruct (step_moves_complete p turn HI Hc k from sm Hf Hk H) as [m [Hm Em]].
  exists m. split; [|exact Em]. apply officer_moves_in. exists k, from. auto.
Qed.
