(** C17 -- transposition table under concurrent use, part 1:
    step inversion, the invariant [CInv], immutability of nodes, [read_is_one_write],
    [replace_monotone].  Model: Model/TT.v (mirrors pkg/search/transposition.go). *)
From Coq Require Import NArith ZArith List Bool Lia Arith.
From Morlock.Model Require Import Bits Score Move TT.
Import ListNotations.
Open Scope N_scope.

(** * List helpers *)
Lemma tt_upd_length {A} (l : list A) i v : length (upd l i v) = length l.
Proof. revert i; induction l as [|x l IH]; intros [|i]; simpl; auto. Qed.

Lemma tt_nth_error_upd_eq {A} (l : list A) i v : (i < length l)%nat -> nth_error (upd l i v) i = Some v.
Proof. revert i; induction l as [|x l IH]; intros [|i] H; simpl in *; try lia; auto. apply IH; lia. Qed.

Lemma tt_nth_error_upd_neq {A} (l : list A) i j v : i <> j -> nth_error (upd l i v) j = nth_error l j.
Proof.
  revert i j; induction l as [|x l IH]; intros [|i] [|j] H; simpl in *; auto; try congruence.
Qed.

Lemma tt_nth_error_upd_inv {A} (l : list A) i j v x :
  nth_error (upd l i v) j = Some x -> (j = i /\ x = v) \/ (j <> i /\ nth_error l j = Some x).
Proof.
  intros H. destruct (Nat.eq_dec i j) as [->|Hn].
  - left. split; auto.
    assert (Hl : (j < length l)%nat).
    { rewrite <- (tt_upd_length l j v). apply nth_error_Some. congruence. }
    rewrite tt_nth_error_upd_eq in H by exact Hl. congruence.
  - right. rewrite tt_nth_error_upd_neq in H by exact Hn. auto.
Qed.

Lemma tt_nth_nth_error {A} (l : list A) k d x : nth_error l k = Some x -> nth k l d = x.
Proof. revert k; induction l as [|y l IH]; intros [|k] H; simpl in *; try congruence. auto. Qed.

Lemma tt_nth_error_nth {A} (l : list A) k d : (k < length l)%nat -> nth_error l k = Some (nth k l d).
Proof. revert k; induction l as [|y l IH]; intros [|k] H; simpl in *; try lia; auto. apply IH; lia. Qed.

Lemma tt_land_le a b : N.land a b <= b.
Proof.
  apply N.ldiff_le. apply N.bits_inj; intro k.
  rewrite N.ldiff_spec, N.land_spec, N.bits_0. destruct (N.testbit a k), (N.testbit b k); reflexivity.
Qed.

(** * Observations and step inversion *)
Definition tuple_of (e : entry) : N * Z * score * move :=
  (e_bound e, Z.of_N (e_depth e), e_score e, mkMove 0 (e_from e) (e_to e) 0 (e_promo e) 0).

Definition read_out (s : cstate) (hash : N) : option (N * Z * score * move) :=
  match node_of s (nthN (c_slots s) (c_key s hash) None) with
  | Some e => if e_hash e =? hash then Some (tuple_of e) else None
  | None => None
  end.

Definition with_nodes (s : cstate) (nd : list entry) := mkC nd (c_slots s) (c_used s) (c_threads s).
Definition with_slots (s : cstate) (sl : list (option nat)) := mkC (c_nodes s) sl (c_used s) (c_threads s).
Definition with_used (s : cstate) (u : N) := mkC (c_nodes s) (c_slots s) u (c_threads s).

Inductive cstep_spec (a : bool) (s : cstate) (i : nat) : cstate -> Prop :=
| St_read t hash rest :
    nth_error (c_threads s) i = Some t -> t_pc t = PIdle -> t_ops t = TRead hash :: rest ->
    cstep_spec a s i (set_thread s i (mkThread rest PIdle (t_out t ++ [read_out s hash])))
| St_alloc t hash bound ply depth sc m rest :
    nth_error (c_threads s) i = Some t -> t_pc t = PIdle -> t_ops t = TWrite hash bound ply depth sc m :: rest ->
    cstep_spec a s i
      (set_thread (with_nodes s (c_nodes s ++ [fresh_entry hash bound ply depth sc m])) i
         (mkThread (t_ops t) (PLoaded (length (c_nodes s)) (nthN (c_slots s) (c_key s hash) None)) (t_out t)))
| St_skip t fresh ptr hash bound ply depth sc m rest :
    nth_error (c_threads s) i = Some t -> t_pc t = PLoaded fresh ptr ->
    t_ops t = TWrite hash bound ply depth sc m :: rest ->
    val (node_of s (Some fresh)) <? val (node_of s ptr) = true ->
    cstep_spec a s i (set_thread s i (mkThread rest PIdle (t_out t)))
| St_cas_nil t fresh hash bound ply depth sc m rest :
    nth_error (c_threads s) i = Some t -> t_pc t = PLoaded fresh None ->
    t_ops t = TWrite hash bound ply depth sc m :: rest ->
    val (node_of s (Some fresh)) <? val (node_of s None) = false ->
    nthN (c_slots s) (c_key s hash) None = None ->
    cstep_spec a s i
      (set_thread (with_slots s (updN (c_slots s) (c_key s hash) (Some fresh))) i
         (mkThread (t_ops t) PBump (t_out t)))
| St_cas_some t fresh p hash bound ply depth sc m rest :
    nth_error (c_threads s) i = Some t -> t_pc t = PLoaded fresh (Some p) ->
    t_ops t = TWrite hash bound ply depth sc m :: rest ->
    val (node_of s (Some fresh)) <? val (node_of s (Some p)) = false ->
    nthN (c_slots s) (c_key s hash) None = Some p ->
    cstep_spec a s i
      (set_thread (with_slots s (updN (c_slots s) (c_key s hash) (Some fresh))) i
         (mkThread rest PIdle (t_out t)))
| St_reload t fresh ptr hash bound ply depth sc m rest :
    nth_error (c_threads s) i = Some t -> t_pc t = PLoaded fresh ptr ->
    t_ops t = TWrite hash bound ply depth sc m :: rest ->
    val (node_of s (Some fresh)) <? val (node_of s ptr) = false ->
    nthN (c_slots s) (c_key s hash) None <> ptr ->
    cstep_spec a s i
      (set_thread s i (mkThread (t_ops t) (PLoaded fresh (nthN (c_slots s) (c_key s hash) None)) (t_out t)))
| St_bump_atomic t op rest :
    a = true ->
    nth_error (c_threads s) i = Some t -> t_pc t = PBump -> t_ops t = op :: rest ->
    cstep_spec a s i (set_thread (with_used s (c_used s + 1)) i (mkThread rest PIdle (t_out t)))
| St_bump_load t op rest :
    a = false ->
    nth_error (c_threads s) i = Some t -> t_pc t = PBump -> t_ops t = op :: rest ->
    cstep_spec a s i (set_thread s i (mkThread (t_ops t) (PBumpLoaded (c_used s)) (t_out t)))
| St_bump_store t u op rest :
    nth_error (c_threads s) i = Some t -> t_pc t = PBumpLoaded u -> t_ops t = op :: rest ->
    cstep_spec a s i (set_thread (with_used s (u + 1)) i (mkThread rest PIdle (t_out t))).

Lemma onat_eqb_eq a b : onat_eqb a b = true <-> a = b.
Proof.
  destruct a as [x|], b as [y|]; simpl; split; intro H; try congruence; auto.
  - apply Nat.eqb_eq in H. congruence.
  - inversion H. apply Nat.eqb_refl.
Qed.

Lemma cstep_inv a s i s' : cstep a s i = Some s' -> cstep_spec a s i s'.
Proof.
  unfold cstep. destruct (nth_error (c_threads s) i) as [t|] eqn:Ht; [|discriminate].
  destruct (t_pc t) as [|fresh ptr| |u] eqn:Hpc.
  - destruct (t_ops t) as [|[hash|hash bound ply depth sc m] rest] eqn:Hops; [discriminate| |];
      intro H; inversion H; subst s'; clear H.
    + eapply St_read; eauto.
    + rewrite <- Hops. eapply St_alloc; eauto.
  - destruct (t_ops t) as [|[hash|hash bound ply depth sc m] rest] eqn:Hops; try discriminate.
    destruct (val (node_of s (Some fresh)) <? val (node_of s ptr)) eqn:Hv.
    + intro H; inversion H; subst s'; clear H. eapply St_skip; eauto.
    + destruct (onat_eqb (nthN (c_slots s) (c_key s hash) None) ptr) eqn:Hcas.
      * apply onat_eqb_eq in Hcas. destruct ptr as [p|]; intro H; inversion H; subst s'; clear H.
        -- eapply St_cas_some; eauto.
        -- rewrite <- Hops. eapply St_cas_nil; eauto.
      * intro H; inversion H; subst s'; clear H. rewrite <- Hops. eapply St_reload; eauto.
        intro E. apply onat_eqb_eq in E. congruence.
  - destruct (t_ops t) as [|op rest] eqn:Hops; [discriminate|].
    destruct a; intro H; inversion H; subst s'; clear H.
    + eapply St_bump_atomic; eauto.
    + rewrite <- Hops. eapply St_bump_load; eauto.
  - destruct (t_ops t) as [|op rest] eqn:Hops; [discriminate|].
    intro H; inversion H; subst s'; clear H. eapply St_bump_store; eauto.
Qed.

(** generic induction over schedules *)
Lemma crun_invariant (a : bool) (P : cstate -> Prop) :
  (forall s i s', P s -> cstep a s i = Some s' -> P s') ->
  forall sched s, P s -> P (crun a s sched).
Proof.
  intros Hstep sched. unfold crun. induction sched as [|i sched IH]; intros s Hs; simpl; auto.
  apply IH. destruct (cstep a s i) as [s'|] eqn:E; eauto.
Qed.

Lemma crun_app a s l1 l2 : crun a s (l1 ++ l2) = crun a (crun a s l1) l2.
Proof. unfold crun. apply fold_left_app. Qed.

Lemma crun_cons a s i l : crun a s (i :: l) = crun a (match cstep a s i with Some s' => s' | None => s end) l.
Proof. reflexivity. Qed.

(** * The invariant *)
Fixpoint reads_of (ops : list top) : list N :=
  match ops with
  | [] => []
  | TRead h :: r => h :: reads_of r
  | TWrite _ _ _ _ _ _ :: r => reads_of r
  end.

Lemma reads_of_app a b : reads_of (a ++ b) = reads_of a ++ reads_of b.
Proof. induction a as [|[h|h bd p d sc m] a IH]; simpl; auto. f_equal; auto. Qed.

(** ghost: the node is the one allocated by a [TWrite] occurring in the original programs *)
Definition is_write_of (progs : list (list top)) (e : entry) : Prop :=
  exists hash bound ply depth sc m,
    In (TWrite hash bound ply depth sc m) (concat progs) /\ e = fresh_entry hash bound ply depth sc m.

(** a lookup result for [hash]: nothing, or the tuple of ONE node written for that very hash *)
Definition good_out (progs : list (list top)) (hash : N) (o : option (N * Z * score * move)) : Prop :=
  match o with
  | None => True
  | Some x => exists e, is_write_of progs e /\ e_hash e = hash /\ x = tuple_of e
  end.

Definition pending_write (nodes : list entry) (t : thread) (f : option nat) : Prop :=
  exists hash bound ply depth sc m rest,
    t_ops t = TWrite hash bound ply depth sc m :: rest /\
    match f with
    | Some f => nth_error nodes f = Some (fresh_entry hash bound ply depth sc m)
    | None => True
    end.

Record TInv (progs : list (list top)) (nodes : list entry) (i : nat) (t : thread) : Prop := mkTInv {
  ti_prog : exists done, nth_error progs i = Some (done ++ t_ops t) /\
                         Forall2 (good_out progs) (reads_of done) (t_out t);
  ti_pc : match t_pc t with
          | PIdle => True
          | PLoaded f p => pending_write nodes t (Some f) /\ (forall q, p = Some q -> (q < length nodes)%nat)
          | PBump => pending_write nodes t None
          | PBumpLoaded _ => pending_write nodes t None
          end }.

Record CInv (n : nat) (progs : list (list top)) (s : cstate) : Prop := mkCInv {
  ci_len : length (c_slots s) = n /\ (0 < n)%nat;
  ci_nodes : Forall (is_write_of progs) (c_nodes s);
  ci_slots : forall k id, nth_error (c_slots s) k = Some (Some id) ->
             exists e, nth_error (c_nodes s) id = Some e /\ c_key s (e_hash e) = N.of_nat k;
  ci_threads : forall i t, nth_error (c_threads s) i = Some t -> TInv progs (c_nodes s) i t }.

Lemma c_key_lt s h : (0 < length (c_slots s))%nat -> (N.to_nat (c_key s h) < length (c_slots s))%nat.
Proof.
  intro H. unfold c_key. pose proof (tt_land_le h (N.of_nat (length (c_slots s)) - 1)). lia.
Qed.

Lemma nth_None_Some {A} (l : list (option A)) k q : nth k l None = Some q -> nth_error l k = Some (Some q).
Proof.
  intro H. destruct (Nat.lt_ge_cases k (length l)) as [Hk|Hk].
  - rewrite (tt_nth_error_nth l k None Hk). congruence.
  - rewrite nth_overflow in H by exact Hk. discriminate.
Qed.

Lemma TInv_mono progs nodes ext i t : TInv progs nodes i t -> TInv progs (nodes ++ ext) i t.
Proof.
  intros [Hp Hpc]. split; auto.
  assert (Hpw : forall f, pending_write nodes t f -> pending_write (nodes ++ ext) t f).
  { intros f (h & b & p & d & sc & m & rest & Ho & Hf). exists h, b, p, d, sc, m, rest. split; auto.
    destruct f as [f|]; auto. rewrite nth_error_app1; auto. apply nth_error_Some. congruence. }
  destruct (t_pc t) as [|f p| |u]; auto.
  destruct Hpc as [Hf Hq]. split; auto.
  intros q E. rewrite app_length. specialize (Hq q E). lia.
Qed.

Lemma CInv_set_thread n progs s i t' :
  CInv n progs s -> TInv progs (c_nodes s) i t' -> CInv n progs (set_thread s i t').
Proof.
  intros [Hl Hn Hs Ht] Hi. split; simpl; auto.
  intros j tj Hj. apply tt_nth_error_upd_inv in Hj. destruct Hj as [[-> ->]|[_ Hj]]; auto.
Qed.

Lemma CInv_with_nodes n progs s e :
  CInv n progs s -> is_write_of progs e -> CInv n progs (with_nodes s (c_nodes s ++ [e])).
Proof.
  intros [Hl Hn Hs Ht] He. split; simpl; auto.
  - apply Forall_app. split; auto.
  - intros k id Hk. destruct (Hs k id Hk) as (e0 & H0 & H1). exists e0. split; auto.
    rewrite nth_error_app1; auto. apply nth_error_Some. congruence.
  - intros j tj Hj. apply TInv_mono. auto.
Qed.

Lemma CInv_with_used n progs s u : CInv n progs s -> CInv n progs (with_used s u).
Proof. intros [Hl Hn Hs Ht]. split; simpl; auto. Qed.

Lemma CInv_with_slots n progs s hash fresh e :
  CInv n progs s -> nth_error (c_nodes s) fresh = Some e -> e_hash e = hash ->
  CInv n progs (with_slots s (updN (c_slots s) (c_key s hash) (Some fresh))).
Proof.
  intros [Hl Hn Hs Ht] He Hh. split; simpl; auto.
  - unfold updN. rewrite tt_upd_length. auto.
  - intros k id Hk. unfold c_key; simpl. unfold updN in *. rewrite tt_upd_length.
    apply tt_nth_error_upd_inv in Hk. destruct Hk as [[-> Hk]|[_ Hk]].
    + inversion Hk; subst id. exists e. split; auto. rewrite Hh. fold (c_key s hash). lia.
    + apply Hs. exact Hk.
Qed.

Lemma node_is_write n progs s id e : CInv n progs s -> nth_error (c_nodes s) id = Some e -> is_write_of progs e.
Proof.
  intros H Hid. apply nth_error_In in Hid. pose proof (ci_nodes _ _ _ H) as Hf.
  rewrite Forall_forall in Hf. auto.
Qed.

Lemma read_out_good n progs s hash : CInv n progs s -> good_out progs hash (read_out s hash).
Proof.
  intro H. unfold read_out.
  destruct (nthN (c_slots s) (c_key s hash) None) as [id|]; simpl; auto.
  destruct (nth_error (c_nodes s) id) as [e|] eqn:He; simpl; auto.
  destruct (e_hash e =? hash) eqn:Hh; simpl; auto.
  apply N.eqb_eq in Hh. exists e. split; [|split]; auto. eapply node_is_write; eauto.
Qed.

Lemma slot_loaded_in_range n progs s k q :
  CInv n progs s -> nthN (c_slots s) k None = Some q -> (q < length (c_nodes s))%nat.
Proof.
  intros H E. unfold nthN in E. apply nth_None_Some in E.
  destruct (ci_slots _ _ _ H _ _ E) as (e & He & _). apply nth_error_Some. congruence.
Qed.

Theorem CInv_step a n progs s i s' : CInv n progs s -> cstep a s i = Some s' -> CInv n progs s'.
Proof.
  intros H Hst. apply cstep_inv in Hst.
  destruct Hst as [t hash rest Ht Hpc Hops
                  |t hash bound ply depth sc m rest Ht Hpc Hops
                  |t fresh ptr hash bound ply depth sc m rest Ht Hpc Hops Hv
                  |t fresh hash bound ply depth sc m rest Ht Hpc Hops Hv Hcur
                  |t fresh p hash bound ply depth sc m rest Ht Hpc Hops Hv Hcur
                  |t fresh ptr hash bound ply depth sc m rest Ht Hpc Hops Hv Hcur
                  |t op rest Ha Ht Hpc Hops
                  |t op rest Ha Ht Hpc Hops
                  |t u op rest Ht Hpc Hops];
    pose proof (ci_threads _ _ _ H _ _ Ht) as [(done & Hpr & Hout) Hti]; rewrite Hpc in Hti.
  - (* read *)
    apply CInv_set_thread; auto. split; simpl; auto.
    exists (done ++ [TRead hash]). rewrite <- app_assoc. simpl. rewrite <- Hops. split; auto.
    rewrite reads_of_app. simpl. apply Forall2_app; auto. constructor; [|constructor].
    eapply read_out_good; eauto.
  - (* alloc *)
    assert (Hw : is_write_of progs (fresh_entry hash bound ply depth sc m)).
    { exists hash, bound, ply, depth, sc, m. split; auto. apply in_concat.
      exists (done ++ t_ops t). split; [eapply nth_error_In; eauto|]. rewrite Hops. apply in_or_app. right. left. auto. }
    apply CInv_set_thread; [apply CInv_with_nodes; auto|]. simpl. split; simpl.
    + exists done. auto.
    + split.
      * exists hash, bound, ply, depth, sc, m, rest. split; auto.
        rewrite nth_error_app2 by lia. rewrite Nat.sub_diag. reflexivity.
      * intros q E. rewrite app_length. apply (slot_loaded_in_range _ _ _ _ _ H) in E. lia.
  - (* skip *)
    apply CInv_set_thread; auto. split; simpl; auto.
    exists (done ++ [TWrite hash bound ply depth sc m]). rewrite <- app_assoc. simpl. rewrite <- Hops. split; auto.
    rewrite reads_of_app. simpl. rewrite app_nil_r. auto.
  - (* CAS from nil *)
    destruct Hti as [(h & b & p & d & sc' & m' & rest' & Ho & Hf) Hq].
    apply CInv_set_thread; [eapply CInv_with_slots; eauto; rewrite Ho in Hops; inversion Hops; reflexivity|].
    simpl. split; simpl; [exists done; auto|]. exists h, b, p, d, sc', m', rest'. auto.
  - (* CAS from a node *)
    destruct Hti as [(h & b & p' & d & sc' & m' & rest' & Ho & Hf) Hq].
    apply CInv_set_thread; [eapply CInv_with_slots; eauto; rewrite Ho in Hops; inversion Hops; reflexivity|].
    simpl. split; simpl; auto.
    exists (done ++ [TWrite hash bound ply depth sc m]). rewrite <- app_assoc. simpl. rewrite <- Hops. split; auto.
    rewrite reads_of_app. simpl. rewrite app_nil_r. auto.
  - (* reload *)
    destruct Hti as [Hpw Hq].
    apply CInv_set_thread; auto. split; simpl; [exists done; auto|]. split; auto.
    intros q E. eapply slot_loaded_in_range; eauto.
  - (* atomic bump *)
    destruct Hti as (h & b & p & d & sc' & m' & rest' & Ho & _).
    apply CInv_set_thread; [apply CInv_with_used; auto|]. simpl. split; simpl; auto.
    exists (done ++ [op]). rewrite <- app_assoc. simpl. rewrite <- Hops. split; auto.
    rewrite reads_of_app. rewrite Ho in Hops. inversion Hops; subst op rest'. simpl. rewrite app_nil_r. auto.
  - (* plain bump: load *)
    apply CInv_set_thread; auto. split; simpl; [exists done; auto|]. auto.
  - (* plain bump: store *)
    destruct Hti as (h & b & p & d & sc' & m' & rest' & Ho & _).
    apply CInv_set_thread; [apply CInv_with_used; auto|]. simpl. split; simpl; auto.
    exists (done ++ [op]). rewrite <- app_assoc. simpl. rewrite <- Hops. split; auto.
    rewrite reads_of_app. rewrite Ho in Hops. inversion Hops; subst op rest'. simpl. rewrite app_nil_r. auto.
Qed.

Lemma CInv_init n progs : (0 < n)%nat -> CInv n progs (c_init n progs).
Proof.
  intro Hn. split; simpl.
  - rewrite repeat_length. auto.
  - constructor.
  - intros k id Hk. apply nth_error_In in Hk. apply repeat_spec in Hk. discriminate.
  - intros i t Ht. rewrite nth_error_map in Ht. destruct (nth_error progs i) as [ops|] eqn:Ho; [|discriminate].
    simpl in Ht. inversion Ht; subst t. split; simpl; auto.
    exists []. split; auto. constructor.
Qed.

Theorem CInv_run a n progs sched : (0 < n)%nat -> CInv n progs (crun a (c_init n progs) sched).
Proof.
  intro Hn. apply crun_invariant with (P := CInv n progs).
  - intros s i s' Hs Hst. eapply CInv_step; eauto.
  - apply CInv_init; auto.
Qed.

(** * Nodes are immutable: the heap only grows by appending *)
Definition nodes_prefix (s s' : cstate) : Prop := exists ext, c_nodes s' = c_nodes s ++ ext.

Lemma nodes_prefix_refl s : nodes_prefix s s.
Proof. exists []. rewrite app_nil_r. reflexivity. Qed.

Lemma nodes_prefix_trans s1 s2 s3 : nodes_prefix s1 s2 -> nodes_prefix s2 s3 -> nodes_prefix s1 s3.
Proof. intros [e1 H1] [e2 H2]. exists (e1 ++ e2). rewrite H2, H1, app_assoc. reflexivity. Qed.

Lemma nodes_prefix_step a s i s' : cstep a s i = Some s' -> nodes_prefix s s'.
Proof.
  intro H. apply cstep_inv in H. unfold nodes_prefix.
  destruct H; simpl; try (exists []; rewrite app_nil_r; reflexivity).
  eexists. reflexivity.
Qed.

Theorem nodes_prefix_run a sched : forall s, nodes_prefix s (crun a s sched).
Proof.
  induction sched as [|i sched IH]; intro s.
  - apply nodes_prefix_refl.
  - rewrite crun_cons. destruct (cstep a s i) as [s'|] eqn:E; auto.
    eapply nodes_prefix_trans; [eapply nodes_prefix_step; eauto|apply IH].
Qed.

(** a node, once allocated, keeps its contents for ever *)
Theorem node_immutable a s sched id e :
  nth_error (c_nodes s) id = Some e -> nth_error (c_nodes (crun a s sched)) id = Some e.
Proof.
  intro H. destruct (nodes_prefix_run a sched s) as [ext E]. rewrite E.
  rewrite nth_error_app1; auto. apply nth_error_Some. congruence.
Qed.

(** * read_is_one_write *)
Lemma Forall2_nth_error_r {A B} (R : A -> B -> Prop) l l' j y :
  Forall2 R l l' -> nth_error l' j = Some y -> exists x, nth_error l j = Some x /\ R x y.
Proof.
  intro H. revert j. induction H as [|x0 y0 l l' H0 H IH]; intros [|j] Hj; simpl in *; try discriminate.
  - inversion Hj; subst. eauto.
  - auto.
Qed.

Lemma tt_Forall2_length {A B} (R : A -> B -> Prop) l l' : Forall2 R l l' -> length l = length l'.
Proof. induction 1; simpl; auto. Qed.

(** the explicit form: the tuple is exactly (bound, uint16 depth, score, move squares) of ONE store for [hash] *)
Definition one_write (progs : list (list top)) (hash : N) (x : N * Z * score * move) : Prop :=
  exists w prog bound ply depth sc m,
    nth_error progs w = Some prog /\ In (TWrite hash bound ply depth sc m) prog /\
    x = (bound, (depth mod 65536)%Z, sc, mkMove 0 (mfrom m) (mto m) 0 (mpromo m) 0).

Lemma good_out_one_write progs hash x : good_out progs hash (Some x) -> one_write progs hash x.
Proof.
  intros (e & (h & b & p & d & sc & m & Hin & ->) & Hh & ->). simpl in Hh. subst h.
  apply in_concat in Hin. destruct Hin as (prog & Hp & Hin). apply In_nth_error in Hp. destruct Hp as [w Hw].
  exists w, prog, b, p, d, sc, m. split; [|split]; auto.
  unfold tuple_of, fresh_entry; simpl. unfold wrap16z. rewrite Z2N.id; auto.
  apply Z.mod_pos_bound. lia.
Qed.

(** step form: what a [TRead hash] step appends *)
Theorem read_step_is_one_write a n progs s i s' t hash rest :
  CInv n progs s -> cstep a s i = Some s' ->
  nth_error (c_threads s) i = Some t -> t_pc t = PIdle -> t_ops t = TRead hash :: rest ->
  exists o, nth_error (c_threads s') i = Some (mkThread rest PIdle (t_out t ++ [o])) /\
            match o with None => True | Some x => one_write progs hash x end.
Proof.
  intros H Hst Ht Hpc Hops. unfold cstep in Hst. rewrite Ht, Hpc, Hops in Hst. inversion Hst; subst s'; clear Hst.
  eexists. split.
  - simpl. apply tt_nth_error_upd_eq. apply nth_error_Some. congruence.
  - pose proof (read_out_good _ _ _ hash H) as G. unfold read_out, tuple_of in G.
    match goal with |- match ?o with _ => _ end => destruct o as [x|] eqn:E end; auto.
    apply good_out_one_write. exact G.
Qed.

(** whole-run form: the j-th output of thread i answers the j-th [TRead] of its program, and if it is a hit
    it is the tuple of one single [TWrite] for the same hash occurring in some thread's program *)
Theorem read_is_one_write a n progs sched i t j x :
  (0 < n)%nat ->
  nth_error (c_threads (crun a (c_init n progs) sched)) i = Some t ->
  nth_error (t_out t) j = Some (Some x) ->
  exists prog hash, nth_error progs i = Some prog /\ nth_error (reads_of prog) j = Some hash /\
                    one_write progs hash x.
Proof.
  intros Hn Ht Hj. pose proof (CInv_run a n progs sched Hn) as H.
  destruct (ci_threads _ _ _ H _ _ Ht) as [(done & Hpr & Hout) _].
  destruct (Forall2_nth_error_r _ _ _ _ _ Hout Hj) as (hash & Hh & G).
  exists (done ++ t_ops t), hash. split; [|split]; auto.
  - rewrite reads_of_app. rewrite nth_error_app1; auto. apply nth_error_Some. congruence.
  - apply good_out_one_write; auto.
Qed.

(** outputs never outnumber the reads issued *)
Theorem outputs_match_reads a n progs sched i t :
  (0 < n)%nat ->
  nth_error (c_threads (crun a (c_init n progs) sched)) i = Some t ->
  exists done, nth_error progs i = Some (done ++ t_ops t) /\ length (t_out t) = length (reads_of done).
Proof.
  intros Hn Ht. pose proof (CInv_run a n progs sched Hn) as H.
  destruct (ci_threads _ _ _ H _ _ Ht) as [(done & Hpr & Hout) _].
  exists done. split; auto. symmetry. eapply tt_Forall2_length; eauto.
Qed.

(** * replace_monotone *)
Theorem replace_monotone a s i s' :
  cstep a s i = Some s' -> c_slots s' <> c_slots s ->
  exists k fresh, c_slots s' = updN (c_slots s) k (Some fresh) /\ c_nodes s' = c_nodes s /\
                  val (node_of s (nthN (c_slots s) k None)) <= val (node_of s (Some fresh)).
Proof.
  intros H Hne. apply cstep_inv in H.
  destruct H as [ | | | t fresh hash bound ply depth sc m rest Ht Hpc Hops Hv Hcur
                      | t fresh p hash bound ply depth sc m rest Ht Hpc Hops Hv Hcur | | | | ];
    simpl in *; try congruence.
  - exists (c_key s hash), fresh. rewrite Hcur. apply N.ltb_ge in Hv. auto.
  - exists (c_key s hash), fresh. rewrite Hcur. apply N.ltb_ge in Hv. auto.
Qed.

Lemma nthN_updN_neq {A} (l : list A) i j v d : i <> j -> nthN (updN l i v) j d = nthN l j d.
Proof.
  intro H. unfold nthN, updN.
  assert (Hn : N.to_nat i <> N.to_nat j) by lia.
  revert Hn. generalize (N.to_nat i) (N.to_nat j). clear. intros a b. revert a b.
  induction l as [|x l IH]; intros [|a] [|b] Hn; simpl; auto; try congruence.
Qed.

(** slot-wise: whenever the content of a slot changes, the replacement value does not go down *)
Theorem replace_monotone_slot a s i s' k :
  cstep a s i = Some s' ->
  nthN (c_slots s') k None <> nthN (c_slots s) k None ->
  val (node_of s (nthN (c_slots s) k None)) <= val (node_of s' (nthN (c_slots s') k None)).
Proof.
  intros H Hne.
  assert (Hs : c_slots s' <> c_slots s) by congruence.
  destruct (replace_monotone _ _ _ _ H Hs) as (k0 & fresh & E & En & Hv).
  destruct (N.eq_dec k0 k) as [->|Hk].
  - assert (E' : nthN (c_slots s') k None = Some fresh).
    { rewrite E in *. unfold nthN, updN in *.
      destruct (Nat.lt_ge_cases (N.to_nat k) (length (c_slots s))) as [Hl|Hl].
      - apply tt_nth_nth_error. apply tt_nth_error_upd_eq. exact Hl.
      - exfalso. apply Hne. rewrite !nth_overflow; auto. rewrite tt_upd_length. exact Hl. }
    rewrite E'. unfold node_of in *. rewrite En. exact Hv.
  - exfalso. apply Hne. rewrite E. apply nthN_updN_neq. exact Hk.
Qed.

(** with the invariant: the node installed is the one the thread allocated for its pending [TWrite] *)
Theorem replace_installs_own_write a n progs s i s' :
  CInv n progs s -> cstep a s i = Some s' -> c_slots s' <> c_slots s ->
  exists t fresh hash bound ply depth sc m rest,
    nth_error (c_threads s) i = Some t /\ t_ops t = TWrite hash bound ply depth sc m :: rest /\
    nth_error (c_nodes s) fresh = Some (fresh_entry hash bound ply depth sc m) /\
    c_slots s' = updN (c_slots s) (c_key s hash) (Some fresh) /\
    val (node_of s (nthN (c_slots s) (c_key s hash) None)) <= val (Some (fresh_entry hash bound ply depth sc m)).
Proof.
  intros Hinv H Hne. apply cstep_inv in H.
  destruct H as [ | | | t fresh hash bound ply depth sc m rest Ht Hpc Hops Hv Hcur
                      | t fresh p hash bound ply depth sc m rest Ht Hpc Hops Hv Hcur | | | | ];
    simpl in *; try congruence.
  - destruct (ci_threads _ _ _ Hinv _ _ Ht) as [_ Hti]. rewrite Hpc in Hti.
    destruct Hti as [(h & b & p' & d & sc' & m' & rest' & Ho & Hf) _].
    rewrite Hops in Ho. inversion Ho; subst h b p' d sc' m' rest'.
    exists t, fresh, hash, bound, ply, depth, sc, m, rest. repeat split; auto.
    rewrite Hcur. apply N.ltb_ge in Hv. simpl node_of in Hv. rewrite Hf in Hv. exact Hv.
  - destruct (ci_threads _ _ _ Hinv _ _ Ht) as [_ Hti]. rewrite Hpc in Hti.
    destruct Hti as [(h & b & p' & d & sc' & m' & rest' & Ho & Hf) _].
    rewrite Hops in Ho. inversion Ho; subst h b p' d sc' m' rest'.
    exists t, fresh, hash, bound, ply, depth, sc, m, rest. repeat split; auto.
    rewrite Hcur. apply N.ltb_ge in Hv. simpl node_of in Hv. rewrite Hf in Hv. exact Hv.
Qed.

(** * Non-vacuity: two threads contend for slot 1 of a two-slot table.
    Thread 0 stores hash 5; thread 1 stores hash 7 (same slot), then looks up 7 and 5.
    Schedule: both allocate and load the empty slot; thread 0 wins the CAS; thread 1's CAS fails, it reloads,
    and its second CAS replaces thread 0's node (value 5 <= 8). *)
Definition ex_mvA := Move.mkMove 1 12 28 1 0 0.
Definition ex_mvB := Move.mkMove 0 6 21 2 0 0.
Definition ex_progs : list (list top) :=
  [ [TWrite 5 0 1%Z 2%Z (Score.mate_in 3) ex_mvA];
    [TWrite 7 1 2%Z 3%Z (Score.heuristic 0) ex_mvB; TRead 7; TRead 5] ].
Definition ex_sched : list nat := [0;1;0;1;1;0;1;1]%nat.

Example ex_run_final :
  let s := crun true (c_init 2 ex_progs) ex_sched in
  c_slots s = [None; Some 1%nat] /\ c_used s = 1 /\ c_quiescent s = true /\
  map t_out (c_threads s) =
    [ []; [Some (1, 3%Z, Score.heuristic 0, Move.mkMove 0 6 21 0 0 0); None] ].
Proof. vm_compute. repeat split; reflexivity. Qed.

(** the CAS of thread 1 fails once (reload) ... *)
Example ex_cas_fails_then_reloads :
  let s := crun true (c_init 2 ex_progs) [0;1;0]%nat in
  option_map (fun t => t_pc t) (nth_error (c_threads s) 1) = Some (PLoaded 1 None) /\
  option_map (fun s' => option_map (fun t => t_pc t) (nth_error (c_threads s') 1)) (cstep true s 1)
    = Some (Some (PLoaded 1 (Some 0%nat))).
Proof. vm_compute. split; reflexivity. Qed.

(** ... and then really replaces a resident node: hypothesis of [replace_monotone] is satisfiable *)
Example ex_replace_happens :
  let s := crun true (c_init 2 ex_progs) [0;1;0;1]%nat in
  exists s', cstep true s 1 = Some s' /\ c_slots s = [None; Some 0%nat] /\ c_slots s' = [None; Some 1%nat] /\
             val (node_of s (Some 0%nat)) = 5 /\ val (node_of s' (Some 1%nat)) = 8.
Proof. eexists. vm_compute. repeat split; reflexivity. Qed.

(** the read that hits: instance of [read_is_one_write] *)
Example ex_read_hits :
  exists t x, nth_error (c_threads (crun true (c_init 2 ex_progs) ex_sched)) 1 = Some t /\
              nth_error (t_out t) 0 = Some (Some x) /\ one_write ex_progs 7 x.
Proof.
  destruct (nth_error (c_threads (crun true (c_init 2 ex_progs) ex_sched)) 1) as [t|] eqn:Ht;
    [|vm_compute in Ht; discriminate].
  destruct (nth_error (t_out t) 0) as [[x|]|] eqn:Hx.
  - exists t, x. split; [reflexivity|split; [exact Hx|]].
    destruct (read_is_one_write true 2 ex_progs ex_sched 1 t 0 x) as (prog & hash & Hp & Hr & Hw); auto.
    vm_compute in Hp. inversion Hp; subst prog. vm_compute in Hr. inversion Hr; subst hash. exact Hw.
  - vm_compute in Ht. inversion Ht; subst t. vm_compute in Hx. discriminate.
  - vm_compute in Ht. inversion Ht; subst t. vm_compute in Hx. discriminate.
Qed.

(** a store of smaller value is refused: thread 1 holds value 8, a later store of value 5 gives up *)
Example ex_skip_happens :
  let s := crun true (c_init 2 [[TWrite 7 1 2%Z 3%Z (Score.heuristic 0) ex_mvB]; [TWrite 5 0 1%Z 2%Z (Score.mate_in 3) ex_mvA; TRead 5; TRead 7]])
                [0;0;0;1;1;1;1]%nat in
  c_slots s = [None; Some 0%nat] /\
  map t_out (c_threads s) = [ []; [None; Some (1, 3%Z, Score.heuristic 0, Move.mkMove 0 6 21 0 0 0)] ].
Proof. vm_compute. split; reflexivity. Qed.

Print Assumptions CInv_step.
Print Assumptions CInv_run.
Print Assumptions node_immutable.
Print Assumptions read_is_one_write.
Print Assumptions read_step_is_one_write.
Print Assumptions replace_monotone.
Print Assumptions replace_monotone_slot.
Print Assumptions replace_installs_own_write.
