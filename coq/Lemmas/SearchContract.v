(** C13 / C03: the contract of the model searches [qsearch], [quiet_search], [ab], [ab_search] of
    Model/Search.v against reference values on an abstract game tree, with the transposition table
    and the cancellation oracle.

    Setting (Section Contract): the parameters of Model/Search.v, plus
      - a game tree [pos] with [moves], [child] (None = illegal), [drawn], [mated], [leafv], the
        exploration predicates [ex]/[qex] and [node_hash];
      - [At p g] "board g stands at node p, whatever its result flag"; [Rep p g := At p g /\ g_draw g =
        drawn p]; laws H_moves, H_leaf, H_hash, H_push_none, H_push_some, H_pop, H_ex, H_qex, H_mated
        and H_leaf_valid (leaf evaluations are non-NaN float32 patterns).
    Reference values: [qv] (quiescence, by fuel), [quiet], [mm d root p] (minimax over explored legal
    moves; a claimable draw is 0 except at the root); [qfin]/[leaves_ok] say that the fuel suffices;
    [qh] bounds the mate distance of leaf values; all theorems assume [qh + depth <= 127] (int8).

    Main results
      - [gloop_spec]      the loop shared by [qsearch] and [ab] (frame + contract)
      - [qs_spec], [ab_spec]  frame (always) and contract (while no poll was answered "cancelled")
      - [ab_contract], [ab_window], [ab_full_window], [pv_sound], [qs_contract], [ab_search_spec],
        [ab_frame], [halt_reports], [halt_restores_board], [halt_writes_nothing_false]
      - [*_pure]          the same without table and without cancellation (B.1 - B.5)
    Table: [TTInv] (every exact entry is valid, has the mate bound of its depth and equals the
    draw-ignoring value [mm d true] of a node with that hash) under [H_table : NoTable \/ (TTLaw /\
    HashValue)].  Cancellation: [cancel] monotone. *)
From Coq Require Import NArith ZArith List Bool Lia Permutation.
From Morlock.Model Require Import Bits Score Attacks Move Search.
From Morlock.Lemmas Require Import ScoreLemmas SearchScore SearchStep MoveListPerm.
Import ListNotations.
Open Scope Z_scope.

Section Contract.
  (** * The parameters of Model/Search.v *)
  Variable G : Type.
  Variable g_draw : G -> bool.
  Variable g_hash : G -> N.
  Variable g_ply : G -> Z.
  Variable g_moves : G -> list move.
  Variable g_push : G -> move -> option G.
  Variable g_pop : G -> G.
  Variable g_mated : G -> G * bool.
  Variable g_clear_draw : G -> G.
  Variable g_restore : G -> G -> G.
  Variable TT : Type.
  Variable tt_read : TT -> N -> option (N * Z * score * move).
  Variable tt_write : TT -> N -> N -> Z -> Z -> score -> move -> TT.
  Variable explore : G -> (move -> Z) * (G -> move -> bool).
  Variable qexplore : G -> (move -> Z) * (G -> move -> bool).
  Variable leaf_eval : G -> Z.
  Variable cancel : nat -> bool.
  Variable use_quiescence : bool.
  Variable qfuel : nat.

  Notation sst := (sst G TT).
  Notation qsearch := (qsearch G g_draw g_moves g_push g_pop g_mated TT qexplore leaf_eval cancel).
  Notation quiet_search := (quiet_search G g_draw g_moves g_push g_pop g_mated TT qexplore leaf_eval cancel use_quiescence qfuel).
  Notation ab := (ab G g_draw g_hash g_ply g_moves g_push g_pop g_mated TT tt_read tt_write explore qexplore
                     leaf_eval cancel use_quiescence qfuel).
  Notation ab_search := (ab_search G g_draw g_hash g_ply g_moves g_push g_pop g_mated g_clear_draw g_restore TT tt_read tt_write
                     explore qexplore leaf_eval cancel use_quiescence qfuel).
  Notation s_g := (s_g G TT).
  Notation s_tt := (s_tt G TT).
  Notation s_polls := (s_polls G TT).
  Notation s_ponder := (s_ponder G TT).
  Notation s_nodes := (s_nodes G TT).
  Notation set_g := (set_g G TT).
  Notation set_tt := (set_tt G TT).
  Notation add_nodes := (add_nodes G TT).
  Notation poll := (poll G TT cancel).

  (** * The abstract game tree *)
  Variable pos : Type.
  Variable moves : pos -> list move.               (* pseudo-legal moves, generation order *)
  Variable child : pos -> move -> option pos.      (* None: the move is not legal *)
  Variable drawn : pos -> bool.                    (* a draw can be claimed at this node *)
  Variable mated : pos -> bool.                    (* the side to move is in check *)
  Variable leafv : pos -> Z.                       (* static evaluation (float32 bits) *)
  Variable ex qex : pos -> pos -> move -> bool.    (* exploration predicates: parent, child, move *)
  Variable node_hash : pos -> N.

  (** [At p g]: the board [g] stands at tree node [p], whatever its result flag says.
      [Rep p g]: moreover the result flag is the one set by the push that reached [p]. *)
  Variable At : pos -> G -> Prop.
  Definition Rep (p : pos) (g : G) : Prop := At p g /\ g_draw g = drawn p.

  Hypothesis H_moves : forall p g, At p g -> g_moves g = moves p.
  Hypothesis H_leaf : forall p g, At p g -> leaf_eval g = leafv p.
  Hypothesis H_hash : forall p g, At p g -> g_hash g = node_hash p.
  Hypothesis H_push_none : forall p g m, At p g -> In m (moves p) -> g_push g m = None -> child p m = None.
  Hypothesis H_push_some : forall p g m g1, At p g -> In m (moves p) -> g_push g m = Some g1 ->
    exists c, child p m = Some c /\ At c g1 /\ g_draw g1 = drawn c.
  Hypothesis H_pop : forall p g m g1 c g2, At p g -> g_push g m = Some g1 -> child p m = Some c ->
    At c g2 -> At p (g_pop g2).
  Hypothesis H_ex : forall p g g' m g1 c, At p g -> At p g' -> g_push g' m = Some g1 -> child p m = Some c ->
    snd (explore g) g1 m = ex p c m.
  Hypothesis H_qex : forall p g g' m g1 c, At p g -> At p g' -> g_push g' m = Some g1 -> child p m = Some c ->
    snd (qexplore g) g1 m = qex p c m.
  Hypothesis H_mated : forall p g, At p g -> (forall m, In m (moves p) -> child p m = None) ->
    At p (fst (g_mated g)) /\ snd (g_mated g) = mated p.
  Hypothesis H_leaf_valid : forall p, valid (heuristic (leafv p)) = true.

  (** * Reference values *)
  Definition legalb (p : pos) (m : move) : bool := match child p m with Some _ => true | None => false end.
  Definition has_legal (p : pos) : bool := existsb (legalb p) (moves p).
  Definition term_value (p : pos) : score := if mated p then neginf_score else zero_score.
  Definition vfold (exf : pos -> pos -> move -> bool) (recv : pos -> score) (p : pos) (ms : list move) (acc : score) : score :=
    fold_left (fun acc m => match child p m with
                            | Some c => if exf p c m then smax acc (T (recv c)) else acc
                            | None => acc
                            end) ms acc.

  (** quiescence value *)
  Fixpoint qv (f : nat) (p : pos) : score :=
    match f with
    | O => invalid_score
    | S f' =>
      if drawn p then zero_score else
      if has_legal p then vfold qex (qv f') p (moves p) (heuristic (leafv p)) else term_value p
    end.
  Definition quiet (p : pos) : score := if use_quiescence then qv qfuel p else heuristic (leafv p).

  (** minimax value over the explored legal moves; a claimable draw is 0 except at the root *)
  Fixpoint mm (d : nat) (root : bool) (p : pos) : score :=
    if negb root && drawn p then zero_score else
    match d with
    | O => quiet p
    | S d' => if has_legal p then vfold ex (mm d' false) p (moves p) neginf_score else term_value p
    end.

  (** fuel suffices: the explored quiescence tree below [p] is lower than [f] *)
  Fixpoint qfin (f : nat) (p : pos) : Prop :=
    match f with
    | O => False
    | S f' => drawn p = true \/
              forall m c, In m (moves p) -> child p m = Some c -> qex p c m = true -> qfin f' c
    end.
  Definition quiet_ok (p : pos) : Prop := use_quiescence = true -> qfin qfuel p.
  Fixpoint leaves_ok (d : nat) (root : bool) (p : pos) : Prop :=
    negb root && drawn p = true \/
    match d with
    | O => quiet_ok p
    | S d' => forall m c, In m (moves p) -> child p m = Some c -> ex p c m = true -> leaves_ok d' false c
    end.
  (** bound on the mate distances that leaf values can carry *)
  Definition qh : Z := if use_quiescence then Z.of_nat qfuel else 0.

  (** * The loops of [qsearch] and [ab] as one generic loop *)
  Section GLoopDef.
    Variable X : Type.
    Variable getg : X -> G.
    Variable setg : X -> G -> X.
    Variable rec : X -> score -> score -> X * score * list move.
    Variable pred : G -> move -> bool.
    Variable beta : score.
    Fixpoint gloop (ms : list move) (x : X) (alpha : score) (pv : list move) (has : bool) {struct ms}
      : X * score * list move * bool * bool :=
      match ms with
      | [] => (x, alpha, pv, has, false)
      | mv :: rest =>
        match g_push (getg x) mv with
        | None => gloop rest x alpha pv has
        | Some g1 =>
          let x1 := setg x g1 in
          let '(x2, alpha', pv') :=
            if pred g1 mv then
              let '(x2, s, rem) := rec x1 (dec (negate beta)) (dec (negate alpha)) in
              let s := negate (inc s) in
              if less alpha s then (x2, s, mv :: rem) else (x2, alpha, pv)
            else (x1, alpha, pv) in
          let x3 := setg x2 (g_pop (getg x2)) in
          if go_eq alpha' beta || less beta alpha' then (x3, alpha', pv', true, true)
          else gloop rest x3 alpha' pv' true
        end
      end.
  End GLoopDef.

  (** [ab] one level unfolded, its loop being [gloop] *)
  Definition ab_leaf (st : sst) (alpha beta : score) : sst * score * list move :=
    let '(st, nodes, sc) := quiet_search st alpha beta in
    let st := add_nodes st nodes in
    if less alpha sc && less sc beta then
      let (c, st) := poll st in
      if c then (st, sc, [])
      else (set_tt st (tt_write (s_tt st) (g_hash (s_g st)) ExactBound (g_ply (s_g st)) 0 sc no_move), sc, [])
    else (st, sc, []).

  Definition ab_tail (depth : nat) (low : score) (res : sst * score * list move * bool * bool) : sst * score * list move :=
    let '(st, alpha', pv, has, cut) := res in
    if negb has then
      let (g', mated) := g_mated (s_g st) in
      (set_g st g', if mated then neginf_score else zero_score, [])
    else if negb cut && less low alpha' then
      let (c, st) := poll st in
      if c then (st, alpha', pv)
      else (set_tt st (tt_write (s_tt st) (g_hash (s_g st)) ExactBound (g_ply (s_g st)) (Z.of_nat depth) alpha'
                                (match pv with m :: _ => m | [] => no_move end)), alpha', pv)
    else (st, alpha', pv).

  Definition ab_node (depth : nat) (recab : sst -> score -> score -> sst * score * list move)
             (best : move) (st : sst) (alpha beta : score) : sst * score * list move :=
    let st := add_nodes st 1%N in
    let (prio, pred0) := explore (s_g st) in
    let '(pred, st) :=
      match s_ponder st with
      | p :: rest => ((fun (_ : G) (m : move) => move_equals p m), set_ponder G TT st rest)
      | [] => (pred0, st)
      end in
    let order := movelist (g_moves (s_g st)) (first_prio best prio) in
    ab_tail depth alpha (gloop sst s_g set_g recab pred beta order st alpha [] false).

  Definition ab_body (depth : nat) (recab : sst -> score -> score -> sst * score * list move)
             (root : bool) (st : sst) (alpha beta : score) : sst * score * list move :=
    let (c, st) := poll st in
    if c then (st, invalid_score, []) else
    if negb root && g_draw (s_g st) then (st, zero_score, []) else
    let rd := tt_read (s_tt st) (g_hash (s_g st)) in
    let best := match rd with Some (_, _, _, m) => m | None => no_move end in
    let hit := match rd with
               | Some (bound, d, sc, _) =>
                   if negb root && (Z.of_nat depth =? d) && (bound =? ExactBound)%N then Some sc else None
               | None => None
               end in
    match hit with
    | Some sc => (st, sc, [])
    | None =>
      match depth with
      | O => ab_leaf st alpha beta
      | S d => ab_node depth recab best st alpha beta
      end
    end.

  Lemma ab_unfold depth root st alpha beta :
    ab depth root st alpha beta =
    ab_body depth (match depth with O => fun st _ _ => (st, invalid_score, []) | S d => ab d false end) root st alpha beta.
  Proof. destruct depth; reflexivity. Qed.

  (** [qsearch] one level unfolded *)
  Definition qrec (f : nat) (x : sst * N) (a b : score) : (sst * N) * score * list move :=
    let '(st2, qn2, s) := qsearch f (fst x) (snd x) a b in ((st2, qn2), s, []).
  Definition qgetg (x : sst * N) : G := s_g (fst x).
  Definition qsetg (x : sst * N) (g : G) : sst * N := (set_g (fst x) g, snd x).

  Definition q_loop (f : nat) (pred : G -> move -> bool) (beta : score) :=
    fix loop (ms : list move) (st : sst) (qn : N) (alpha : score) (has : bool) {struct ms} : sst * N * score * bool :=
        match ms with
        | [] => (st, qn, alpha, has)
        | mv :: rest =>
          match g_push (s_g st) mv with
          | None => loop rest st qn alpha has
          | Some g1 =>
            let st1 := set_g st g1 in
            let '(st2, qn2, alpha') :=
              if pred g1 mv then
                let '(st2, qn2, s) := qsearch f st1 qn (dec (negate beta)) (dec (negate alpha)) in
                (st2, qn2, smax alpha (negate (inc s)))
              else (st1, qn, alpha) in
            let st3 := set_g st2 (g_pop (s_g st2)) in
            if go_eq alpha' beta || less beta alpha' then (st3, qn2, alpha', true)
            else loop rest st3 qn2 alpha' true
          end
        end.

  Lemma q_loop_gloop f pred beta : forall ms st qn alpha pv has,
    q_loop f pred beta ms st qn alpha has =
    let '(x, a, _, h, _) := gloop (sst * N) qgetg qsetg (qrec f) pred beta ms (st, qn) alpha pv has in
    (fst x, snd x, a, h).
  Proof.
    induction ms as [|mv rest IH]; intros st qn alpha pv has; [reflexivity|].
    cbn [q_loop gloop]. fold (q_loop f pred beta). unfold qgetg at 1. cbn [fst snd].
    destruct (g_push (s_g st) mv) as [g1|] eqn:Ep; [|apply IH].
    change (qsetg (st, qn) g1) with (set_g st g1, qn).
    destruct (pred g1 mv).
    - unfold qrec at 1. cbn [fst snd].
      destruct (qsearch f (set_g st g1) qn (dec (negate beta)) (dec (negate alpha))) as [[st2 qn2] s].
      change (qsetg (st2, qn2) (g_pop (qgetg (st2, qn2)))) with (set_g st2 (g_pop (s_g st2)), qn2).
      unfold smax. destruct (less alpha (negate (inc s))).
      + destruct (go_eq (negate (inc s)) beta || less beta (negate (inc s))); [reflexivity|apply IH].
      + destruct (go_eq alpha beta || less beta alpha); [reflexivity|apply IH].
    - change (qsetg (set_g st g1, qn) (g_pop (qgetg (set_g st g1, qn)))) with (set_g (set_g st g1) (g_pop (s_g (set_g st g1))), qn).
      destruct (go_eq alpha beta || less beta alpha); [reflexivity|apply IH].
  Qed.

  Lemma qsearch_unfold f st qn alpha beta :
    qsearch (S f) st qn alpha beta =
      let (c, st) := poll st in
      if c then (st, qn, zero_score) else
      if g_draw (s_g st) then (st, qn, zero_score) else
      let qn := (qn + 1)%N in
      let sc := heuristic (leaf_eval (s_g st)) in
      let alpha := smax alpha sc in
      let (prio, pred) := qexplore (s_g st) in
      let order := movelist (g_moves (s_g st)) prio in
      let '(st, qn, alpha', has) := q_loop f pred beta order st qn alpha false in
      if negb has then
        let (g', mated) := g_mated (s_g st) in
        (set_g st g', qn, if mated then neginf_score else zero_score)
      else (st, qn, alpha').
  Proof. reflexivity. Qed.


  (** * Folds on ideal scores; values are valid and below +inf *)
  Definition ifold (exf : pos -> pos -> move -> bool) (recv : pos -> iscore) (p : pos) (ms : list move) (acc : iscore) : iscore :=
    fold_left (fun a m => match child p m with
                          | Some c => if exf p c m then imax a (iT (recv c)) else a
                          | None => a
                          end) ms acc.

  Lemma ifold_perm exf recv p ms ms' : Permutation ms ms' ->
    forall acc, ifold exf recv p ms acc = ifold exf recv p ms' acc.
  Proof.
    unfold ifold. induction 1 as [|x l l' HP IH|x y l|l l' l'' HP1 IH1 HP2 IH2]; intros acc; cbn [fold_left].
    - reflexivity.
    - apply IH.
    - f_equal. destruct (child p y) as [cy|], (child p x) as [cx|]; try reflexivity.
      destruct (exf p cy y), (exf p cx x); try reflexivity.
      rewrite !imax_assoc. f_equal. apply imax_comm.
    - rewrite IH1. apply IH2.
  Qed.

  Lemma ifold_ge exf recv p ms : forall acc, ile acc (ifold exf recv p ms acc).
  Proof.
    unfold ifold. induction ms as [|m rest IH]; intros acc; cbn [fold_left]; [apply ile_refl|].
    eapply ile_trans; [|apply IH]. destruct (child p m) as [c|]; [|apply ile_refl].
    destruct (exf p c m); [apply imax_ge_l|apply ile_refl].
  Qed.

  Lemma ifold_lt_top exf recv p ms : forall acc, ilt acc itop -> ilt (ifold exf recv p ms acc) itop.
  Proof.
    unfold ifold. induction ms as [|m rest IH]; intros acc Hacc; cbn [fold_left]; [assumption|].
    apply IH. destruct (child p m) as [c|]; [|assumption].
    destruct (exf p c m); [|assumption]. apply imax_lt_top; [assumption|apply iT_lt_top].
  Qed.

  Lemma ifold_nolegal exf recv p ms acc : existsb (legalb p) ms = false -> ifold exf recv p ms acc = acc.
  Proof.
    unfold ifold. revert acc. induction ms as [|m rest IH]; intros acc H; cbn [fold_left existsb] in *; [reflexivity|].
    apply orb_false_iff in H. destruct H as [H1 H2]. unfold legalb in H1.
    destruct (child p m); [discriminate|]. apply IH; assumption.
  Qed.

  Lemma vfold_iabs exf recv p k K : k <= 126 -> k + 1 <= K ->
    forall ms acc,
      (forall m c, In m ms -> child p m = Some c -> exf p c m = true -> okm k (recv c)) -> okm K acc ->
      okm K (vfold exf recv p ms acc) /\
      iabs (vfold exf recv p ms acc) = ifold exf (fun c => iabs (recv c)) p ms (iabs acc).
  Proof.
    intros Hk HK. unfold vfold, ifold. induction ms as [|m rest IH]; intros acc Hrec Hacc; cbn [fold_left].
    - split; [assumption|reflexivity].
    - assert (Hrest : forall m0 c, In m0 rest -> child p m0 = Some c -> exf p c m0 = true -> okm k (recv c)).
      { intros m0 c Hi. apply Hrec. right; assumption. }
      destruct (child p m) as [c|] eqn:Ec; [|apply IH; assumption].
      destruct (exf p c m) eqn:Ee; [|apply IH; assumption].
      pose proof (Hrec m c (or_introl eq_refl) Ec Ee) as Hc.
      pose proof (okm_T k (recv c) Hc Hk) as HT.
      assert (Hacc' : okm K (smax acc (T (recv c)))).
      { destruct Hacc as [Va Ma], HT as [Vt Mt]. split; [apply valid_smax; assumption|].
        pose proof (mabs_smax acc (T (recv c))). lia. }
      destruct (IH (smax acc (T (recv c))) Hrest Hacc') as [H1 H2]. split; [exact H1|].
      rewrite H2. rewrite iabs_smax by (eauto using okm_valid).
      rewrite iabs_T by (eauto using okm_valid, okm_inc_ok). reflexivity.
  Qed.

  Lemma okm_zero k : 0 <= k -> okm k zero_score.
  Proof. intros. split; [reflexivity|]. unfold mabs; cbn. lia. Qed.
  Lemma okm_neginf k : 0 <= k -> okm k neginf_score.
  Proof. intros. split; [reflexivity|]. unfold mabs; cbn. lia. Qed.
  Lemma okm_leaf k p : 0 <= k -> okm k (heuristic (leafv p)).
  Proof. intros. split; [apply H_leaf_valid|]. rewrite mabs_heuristic. lia. Qed.
  Lemma okm_term k p : 0 <= k -> okm k (term_value p).
  Proof. intros. unfold term_value. destruct (mated p); [apply okm_neginf|apply okm_zero]; assumption. Qed.
  Lemma term_lt_top p : ilt (iabs (term_value p)) itop.
  Proof. unfold term_value. destruct (mated p); [apply ibot_lt_top|apply izero_lt_top]. Qed.
  Lemma leaf_lt_top p : ilt (iabs (heuristic (leafv p))) itop.
  Proof. unfold ilt, iabs; cbn. tauto. Qed.

  Lemma qv_okm : forall f p, qfin f p -> Z.of_nat f <= 127 ->
    okm (Z.of_nat f) (qv f p) /\ ilt (iabs (qv f p)) itop.
  Proof.
    induction f as [|f IH]; intros p Hq Hf; [destruct Hq|].
    cbn [qv]. destruct (drawn p) eqn:Ed; [split; [apply okm_zero; lia|apply izero_lt_top]|].
    destruct Hq as [Hq|Hq]; [congruence|].
    destruct (has_legal p); [|split; [apply okm_term; lia|apply term_lt_top]].
    destruct (vfold_iabs qex (qv f) p (Z.of_nat f) (Z.of_nat (S f)) ltac:(lia) ltac:(lia) (moves p) (heuristic (leafv p))) as [H1 H2].
    - intros m c Hi Hc He. apply IH; [eapply Hq; eassumption|lia].
    - apply okm_leaf. lia.
    - split; [exact H1|]. rewrite H2. apply ifold_lt_top, leaf_lt_top.
  Qed.

  Lemma qh_nonneg : 0 <= qh.
  Proof. unfold qh. destruct use_quiescence; lia. Qed.

  Lemma quiet_okm p : quiet_ok p -> qh <= 127 -> okm qh (quiet p) /\ ilt (iabs (quiet p)) itop.
  Proof.
    unfold quiet_ok, quiet, qh. intros Hq Hh. destruct use_quiescence.
    - apply qv_okm; auto.
    - split; [apply okm_leaf; lia|apply leaf_lt_top].
  Qed.

  Lemma mm_okm : forall d root p, leaves_ok d root p -> qh + Z.of_nat d <= 127 ->
    okm (qh + Z.of_nat d) (mm d root p) /\ ilt (iabs (mm d root p)) itop.
  Proof.
    pose proof qh_nonneg as Hq0.
    induction d as [|d IH]; intros root p Hl Hd; cbn [mm]; cbn [leaves_ok] in Hl.
    - destruct (negb root && drawn p) eqn:E; [split; [apply okm_zero; lia|apply izero_lt_top]|].
      destruct Hl as [Hl|Hl]; [discriminate|].
      destruct (quiet_okm p Hl) as [H1 H2]; [lia|]. split; [|exact H2]. eapply okm_weaken; [exact H1|lia].
    - destruct (negb root && drawn p) eqn:E; [split; [apply okm_zero; lia|apply izero_lt_top]|].
      destruct Hl as [Hl|Hl]; [discriminate|].
      destruct (has_legal p); [|split; [apply okm_term; lia|apply term_lt_top]].
      destruct (vfold_iabs ex (mm d false) p (qh + Z.of_nat d) (qh + Z.of_nat (S d)) ltac:(lia) ltac:(lia) (moves p) neginf_score) as [H1 H2].
      + intros m c Hi Hc He. apply IH; [eapply Hl; eassumption|lia].
      + apply okm_neginf. lia.
      + split; [exact H1|]. rewrite H2. apply ifold_lt_top, ibot_lt_top.
  Qed.

  Lemma mm_S_iabs d root p : leaves_ok (S d) root p -> qh + Z.of_nat (S d) <= 127 ->
    negb root && drawn p = false -> has_legal p = true ->
    iabs (mm (S d) root p) = ifold ex (fun c => iabs (mm d false c)) p (moves p) ibot.
  Proof.
    pose proof qh_nonneg as Hq0.
    intros Hl Hd E Hh. cbn [mm]. rewrite E, Hh. cbn [leaves_ok] in Hl. destruct Hl as [Hl|Hl]; [congruence|].
    destruct (vfold_iabs ex (mm d false) p (qh + Z.of_nat d) (qh + Z.of_nat (S d)) ltac:(lia) ltac:(lia) (moves p) neginf_score) as [H1 H2].
    - intros m c Hi Hc He. apply mm_okm; [eapply Hl; eassumption|lia].
    - apply okm_neginf. lia.
    - exact H2.
  Qed.

  Lemma qv_S_iabs f p : qfin (S f) p -> Z.of_nat (S f) <= 127 -> drawn p = false -> has_legal p = true ->
    iabs (qv (S f) p) = ifold qex (fun c => iabs (qv f c)) p (moves p) (iabs (heuristic (leafv p))).
  Proof.
    intros Hq Hf Ed Hh. cbn [qv]. rewrite Ed, Hh. destruct Hq as [Hq|Hq]; [congruence|].
    destruct (vfold_iabs qex (qv f) p (Z.of_nat f) (Z.of_nat (S f)) ltac:(lia) ltac:(lia) (moves p) (heuristic (leafv p))) as [H1 H2].
    - intros m c Hi Hc He. apply qv_okm; [eapply Hq; eassumption|lia].
    - apply okm_leaf. lia.
    - exact H2.
  Qed.


  (** * The generic loop: frame and contract *)
  Definition W (a b : score) (k : Z) : Z := Z.max (Z.max (mabs a) (mabs b)) k.

  Fixpoint path (p : pos) (pv : list move) : Prop :=
    match pv with
    | [] => True
    | m :: rest => In m (moves p) /\ exists c, child p m = Some c /\ path c rest
    end.
  Definition PVok (n : nat) (p : pos) (pv : list move) : Prop := (length pv <= n)%nat /\ path p pv.

  Lemma cut_iff a b : valid a = true -> valid b = true ->
    (go_eq a b || less b a = true <-> ile (iabs b) (iabs a)).
  Proof.
    intros Ha Hb. rewrite orb_true_iff, go_eq_iabs, lt_iabs by assumption. split.
    - intros [H|H]; [rewrite H; apply ile_refl|apply ilt_le; assumption].
    - intros H. destruct (ile_or_lt (iabs a) (iabs b)) as [H'|H']; [left; apply ile_antisym; assumption|right; assumption].
  Qed.
  Lemma cut_iff_false a b : valid a = true -> valid b = true ->
    (go_eq a b || less b a = false <-> ilt (iabs a) (iabs b)).
  Proof.
    intros Ha Hb. rewrite <- not_true_iff_false, cut_iff by assumption. unfold ilt. tauto.
  Qed.

  Section GLoopSpec.
    Variable X : Type.
    Variable getg : X -> G.
    Variable setg : X -> G -> X.
    Variable rec : X -> score -> score -> X * score * list move.
    Variable pred : G -> move -> bool.
    Variable beta : score.
    Variable Inv : X -> Prop.        (* frame invariant *)
    Variable lv : X -> Prop.         (* no poll so far was answered "cancelled" *)
    Hypothesis getg_setg : forall x g, getg (setg x g) = g.
    Hypothesis Inv_setg : forall x g, Inv x -> Inv (setg x g).
    Hypothesis lv_setg : forall x g, lv (setg x g) <-> lv x.
    Variable p : pos.
    Variable exf : pos -> pos -> move -> bool.
    Variable vf : pos -> score.      (* reference value of a child *)
    Variable k : Z.
    Variable dn : nat.
    Variable CondC : pos -> Prop.
    Hypothesis k_ge : 0 <= k.
    Hypothesis k_le : k <= 126.
    Hypothesis vf_ok : forall c, CondC c -> okm k (vf c) /\ ilt (iabs (vf c)) itop.
    Hypothesis Hpred : forall g' m g1 c, At p g' -> g_push g' m = Some g1 -> child p m = Some c ->
      pred g1 m = exf p c m.
    Hypothesis Hrec : forall x c a' b' x' r rem,
      Inv x -> At c (getg x) -> g_draw (getg x) = drawn c -> CondC c ->
      (lv x -> okm 126 a' /\ okm 126 b') ->
      rec x a' b' = (x', r, rem) ->
      Inv x' /\ At c (getg x') /\ (lv x' -> lv x) /\
      (lv x' -> okm (W a' b' k) r /\ iR (iabs a') (iabs b') (iabs (vf c)) (iabs r) /\ PVok dn c rem).
    Variable WW : Z.
    Hypothesis WW_k : k + 1 <= WW.

    Definition PVatt (a0 A : score) (pv : list move) : Prop :=
      ilt (iabs a0) (iabs A) ->
      exists m rem c, pv = m :: rem /\ child p m = Some c /\ exf p c m = true /\ iabs A = iT (iabs (vf c)).

    (** what one legal move does to (state, alpha, pv) *)
    Definition gmid (mv : move) (g1 : G) (x : X) (alpha : score) (pv : list move) : X * score * list move :=
      if pred g1 mv then
        let '(x2, s, rem) := rec (setg x g1) (dec (negate beta)) (dec (negate alpha)) in
        let s := negate (inc s) in
        if less alpha s then (x2, s, mv :: rem) else (x2, alpha, pv)
      else (setg x g1, alpha, pv).

    Lemma gmid_spec mv g1 x alpha pv c x2 alpha1 pv1 :
      Inv x -> At p (getg x) -> In mv (moves p) -> g_push (getg x) mv = Some g1 -> child p mv = Some c ->
      At c g1 -> g_draw g1 = drawn c -> (exf p c mv = true -> CondC c) ->
      (lv x -> okm WW beta /\ okm WW alpha) ->
      gmid mv g1 x alpha pv = (x2, alpha1, pv1) ->
      Inv x2 /\ At c (getg x2) /\ (lv x2 -> lv x) /\
      (lv x2 -> okm WW alpha1 /\ ile (iabs alpha) (iabs alpha1) /\ forall a0 iacc,
         iLInv (iabs a0) iacc (iabs alpha) ->
         let iacc1 := if exf p c mv then imax iacc (iT (iabs (vf c))) else iacc in
         (ile (iabs beta) (iabs alpha1) -> forall v, ile iacc1 v -> iR (iabs a0) (iabs beta) v (iabs alpha1)) /\
         (ilt (iabs alpha1) (iabs beta) -> iLInv (iabs a0) iacc1 (iabs alpha1)) /\
         (PVok (S dn) p pv -> PVatt a0 alpha pv ->
            PVok (S dn) p pv1 /\ (ilt (iabs alpha1) (iabs beta) -> PVatt a0 alpha1 pv1))).
    Proof.
      intros HInv HAt Hin Ep Hc Hatc Hdc Hcond Hok Heq. unfold gmid in Heq.
      rewrite (Hpred _ _ _ _ HAt Ep Hc) in Heq.
      destruct (exf p c mv) eqn:Eex.
      2:{ (* not explored *)
        injection Heq as <- <- <-. rewrite getg_setg.
        split; [apply Inv_setg; assumption|]. split; [assumption|]. split; [apply lv_setg|].
        intros Hlv. apply lv_setg in Hlv. destruct (Hok Hlv) as [Hb Ha].
        split; [assumption|]. split; [apply ile_refl|]. intros a0 iacc HL iacc1.
        split; [intros Cut v Hv; eapply step_cut_same; eassumption|].
        split; [intros _; exact HL|].
        intros Hpv Hatt. split; [assumption|intros _; assumption]. }
      change (dec (negate beta)) with (U beta) in Heq. change (dec (negate alpha)) with (U alpha) in Heq.
      destruct (rec (setg x g1) (U beta) (U alpha)) as [[x2' s] rem] eqn:Er.
      change (negate (inc s)) with (T s) in Heq.
      destruct (Hrec (setg x g1) c (U beta) (U alpha) x2' s rem) as [HInv2 [Hat2 [Hlv2 Hc2]]].
      { apply Inv_setg; assumption. }
      { rewrite getg_setg; assumption. }
      { rewrite getg_setg; assumption. }
      { apply Hcond; reflexivity. }
      { intros Hl. apply lv_setg in Hl. destruct (Hok Hl) as [Hb Ha]. split; apply okm_U; eapply okm_valid; eassumption. }
      { exact Er. }
      assert (Hx2 : x2 = x2' /\ alpha1 = smax alpha (T s) /\ pv1 = if less alpha (T s) then mv :: rem else pv).
      { unfold smax. destruct (less alpha (T s)); injection Heq as <- <- <-; auto. }
      clear Heq. destruct Hx2 as [-> [-> ->]].
      split; [assumption|]. split; [assumption|].
      split; [intros Hl; apply lv_setg with (g := g1); auto|].
      intros Hlv.
      assert (Hlvx : lv x) by (apply lv_setg with (g := g1); auto).
      destruct (Hok Hlvx) as [Hb Ha]. destruct (Hc2 Hlv) as [Hs [HRs Hrem]].
      destruct (vf_ok c (Hcond eq_refl)) as [Hvc Hvtop].
      pose proof (okm_valid _ _ Hb) as Vb. pose proof (okm_valid _ _ Ha) as Va.
      pose proof (okm_U beta Vb) as HUb. pose proof (okm_U alpha Va) as HUa.
      assert (HW : W (U beta) (U alpha) k <= 126).
      { unfold W. destruct HUb as [_ H1], HUa as [_ H2]. lia. }
      assert (Vs : valid s = true) by (eapply okm_valid; eassumption).
      assert (Is : inc_ok s = true) by (eapply okm_inc_ok; eassumption).
      assert (VT : valid (T s) = true) by (apply valid_T; assumption).
      assert (MT : mabs (T s) <= WW).
      { pose proof (mabs_T s Vs Is) as H1. destruct Hs as [_ H2]. unfold W in H2.
        pose proof (mabs_U beta Vb) as H3. pose proof (mabs_U alpha Va) as H4.
        destruct Hb as [_ H5], Ha as [_ H6]. lia. }
      assert (Ea1 : iabs (smax alpha (T s)) = imax (iabs alpha) (iT (iabs s))).
      { rewrite iabs_smax by assumption. rewrite iabs_T by assumption. reflexivity. }
      rewrite Ea1.
      split.
      { split; [apply valid_smax; assumption|]. pose proof (mabs_smax alpha (T s)). destruct Ha as [_ H6]. lia. }
      split; [apply imax_ge_l|].
      intros a0 iacc HL iacc1.
      rewrite iabs_U in HRs by assumption. rewrite iabs_U in HRs by assumption.
      destruct (step_child (iabs a0) (iabs beta) iacc (iabs alpha) (iabs (vf c)) (iabs s) HL HRs Hvtop) as [Scut Snocut].
      split; [exact Scut|].
      split; [intros NoCut; apply Snocut; assumption|].
      intros Hpv Hatt. split.
      - destruct (less alpha (T s)); [|assumption].
        destruct Hrem as [Hlen Hpath]. split; [cbn [length]; lia|].
        cbn [path]. split; [assumption|]. exists c. split; assumption.
      - intros NoCut. destruct (Snocut NoCut) as [_ Hexact].
        intros Hlt. rewrite Ea1 in Hlt.
        destruct (less alpha (T s)) eqn:El.
        + apply lt_iabs in El; try assumption. rewrite iabs_T in El by assumption.
          pose proof (Hexact El) as Es.
          exists mv, rem, c. split; [reflexivity|]. split; [assumption|]. split; [assumption|].
          rewrite Ea1.
          destruct (imax_cases (iabs alpha) (iT (iabs s))) as [[_ ->]|[Hle _]].
          * rewrite Es. reflexivity.
          * exfalso. apply El. exact Hle.
        + assert (Hno : ile (iT (iabs s)) (iabs alpha)).
          { destruct (ile_or_lt (iT (iabs s)) (iabs alpha)) as [H|H]; [assumption|].
            rewrite <- iabs_T in H by assumption. apply lt_iabs in H; try assumption. congruence. }
          destruct (imax_cases (iabs alpha) (iT (iabs s))) as [[H _]|[_ Em]]; [exfalso; apply H; exact Hno|].
          rewrite Em in Hlt.
          destruct (Hatt Hlt) as [m [rem' [c' [Q1 [Q2 [Q3 Q4]]]]]].
          exists m, rem', c'. split; [assumption|]. split; [assumption|]. split; [assumption|].
          rewrite Ea1, Em. exact Q4.
    Qed.

    Lemma gloop_step mv rest x alpha pv has g1 :
      g_push (getg x) mv = Some g1 ->
      gloop X getg setg rec pred beta (mv :: rest) x alpha pv has =
      let '(x2, alpha1, pv1) := gmid mv g1 x alpha pv in
      let x3 := setg x2 (g_pop (getg x2)) in
      if go_eq alpha1 beta || less beta alpha1 then (x3, alpha1, pv1, true, true)
      else gloop X getg setg rec pred beta rest x3 alpha1 pv1 true.
    Proof. intros Ep. cbn [gloop]. rewrite Ep. unfold gmid. reflexivity. Qed.

    Lemma gloop_spec : forall ms x alpha pv has x' r pv' has' cut,
      (forall m, In m ms -> In m (moves p)) ->
      (forall m c, In m ms -> child p m = Some c -> exf p c m = true -> CondC c) ->
      Inv x -> At p (getg x) ->
      (lv x -> okm WW beta /\ okm WW alpha) ->
      gloop X getg setg rec pred beta ms x alpha pv has = (x', r, pv', has', cut) ->
      Inv x' /\ At p (getg x') /\ (lv x' -> lv x) /\ has' = (has || existsb (legalb p) ms) /\
      (lv x' -> forall a0 iacc,
         iLInv (iabs a0) iacc (iabs alpha) ->
         okm WW r /\ ile (iabs alpha) (iabs r) /\
         iR (iabs a0) (iabs beta) (ifold exf (fun c => iabs (vf c)) p ms iacc) (iabs r) /\
         (cut = true -> ile (iabs beta) (iabs r)) /\
         (cut = false -> ilt (iabs alpha) (iabs beta) \/ existsb (legalb p) ms = true -> ilt (iabs r) (iabs beta)) /\
         (PVok (S dn) p pv -> PVatt a0 alpha pv -> PVok (S dn) p pv' /\ (cut = false -> PVatt a0 r pv'))).
    Proof.
      induction ms as [|mv rest IH]; intros x alpha pv has x' r pv' has' cut Hin Hcond HInv HAt Hok Heq.
      - cbn [gloop] in Heq. injection Heq as <- <- <- <- <-.
        split; [assumption|]. split; [assumption|]. split; [auto|]. split; [cbn; rewrite orb_false_r; reflexivity|].
        intros Hlv a0 iacc HL. destruct (Hok Hlv) as [Hb Ha].
        split; [assumption|]. split; [apply ile_refl|]. split; [apply step_end; assumption|].
        split; [intros H; discriminate H|].
        split; [intros _ [H|H]; [assumption|discriminate H]|].
        intros Hpv Hatt. split; [assumption|intros _; assumption].
      - assert (Hin' : forall m, In m rest -> In m (moves p)) by (intros m Hm; apply Hin; right; assumption).
        assert (Hcond' : forall m c, In m rest -> child p m = Some c -> exf p c m = true -> CondC c)
          by (intros m c Hm; apply Hcond; right; assumption).
        destruct (g_push (getg x) mv) as [g1|] eqn:Ep.
        2:{ (* not legal *)
          cbn [gloop] in Heq. rewrite Ep in Heq.
          pose proof (H_push_none p (getg x) mv HAt (Hin mv (or_introl eq_refl)) Ep) as Hc.
          assert (Hl : legalb p mv = false) by (unfold legalb; rewrite Hc; reflexivity).
          cbn [existsb]. rewrite Hl. cbn [orb].
          destruct (IH x alpha pv has x' r pv' has' cut Hin' Hcond' HInv HAt Hok Heq) as [H1 [H2 [H3 [H4 H5]]]].
          split; [assumption|]. split; [assumption|]. split; [assumption|]. split; [assumption|].
          intros Hlv a0 iacc HL. unfold ifold; cbn [fold_left]. rewrite Hc. apply H5; assumption. }
        rewrite (gloop_step mv rest x alpha pv has g1 Ep) in Heq.
        destruct (H_push_some p (getg x) mv g1 HAt (Hin mv (or_introl eq_refl)) Ep) as [c [Hc [Hatc Hdc]]].
        assert (Hl : legalb p mv = true) by (unfold legalb; rewrite Hc; reflexivity).
        cbn [existsb]. rewrite Hl. cbn [orb]. rewrite orb_true_r.
        destruct (gmid mv g1 x alpha pv) as [[x2 alpha1] pv1] eqn:Em.
        destruct (gmid_spec mv g1 x alpha pv c x2 alpha1 pv1 HInv HAt (Hin mv (or_introl eq_refl)) Ep Hc Hatc Hdc
                    (Hcond mv c (or_introl eq_refl) Hc) Hok Em) as [HInv2 [Hat2 [Hlv2 Hmid]]].
        cbv zeta in Heq.
        set (x3 := setg x2 (g_pop (getg x2))) in *.
        assert (HInv3 : Inv x3) by (apply Inv_setg; assumption).
        assert (Hat3 : At p (getg x3)).
        { unfold x3. rewrite getg_setg. eapply H_pop; eassumption. }
        assert (Hlv3 : lv x3 -> lv x) by (intros H; apply Hlv2; apply lv_setg in H; exact H).
        destruct (go_eq alpha1 beta || less beta alpha1) eqn:Ecut.
        + (* cut *)
          injection Heq as <- <- <- <- <-.
          split; [assumption|]. split; [assumption|]. split; [assumption|]. split; [reflexivity|].
          intros Hlv a0 iacc HL. apply lv_setg in Hlv.
          destruct (Hok (Hlv2 Hlv)) as [Hb Ha].
          destruct (Hmid Hlv) as [Hok1 [Hge Hmid']]. destruct (Hmid' a0 iacc HL) as [Hcut [_ Hpv]].
          split; [assumption|]. split; [assumption|].
          split.
          { unfold ifold; cbn [fold_left]. rewrite Hc.
            apply Hcut; [|apply ifold_ge]. apply cut_iff; [eapply okm_valid; eassumption|eapply okm_valid; eassumption|exact Ecut]. }
          split; [intros _; apply cut_iff; [eapply okm_valid; eassumption|eapply okm_valid; eassumption|exact Ecut]|].
          split; [intros H; discriminate H|].
          intros Hpv0 Hatt. destruct (Hpv Hpv0 Hatt) as [H1 _]. split; [assumption|intros H; discriminate H].
        + (* no cut: continue *)
          assert (Hok3 : lv x3 -> okm WW beta /\ okm WW alpha1).
          { intros H. pose proof H as H'. apply lv_setg in H'. destruct (Hok (Hlv2 H')) as [Hb Ha].
            split; [assumption|]. apply (Hmid H'). }
          destruct (IH x3 alpha1 pv1 true x' r pv' has' cut Hin' Hcond' HInv3 Hat3 Hok3 Heq) as [H1 [H2 [H3 [H4 H5]]]].
          split; [assumption|]. split; [assumption|]. split; [auto|]. split; [rewrite H4; reflexivity|].
          intros Hlv a0 iacc HL.
          pose proof (H3 Hlv) as Hl3. apply lv_setg in Hl3.
          destruct (Hok (Hlv2 Hl3)) as [Hb Ha].
          destruct (Hmid Hl3) as [Hok1 [Hge Hmid']]. destruct (Hmid' a0 iacc HL) as [_ [Hnocut Hpv]].
          assert (NoCut : ilt (iabs alpha1) (iabs beta)).
          { apply cut_iff_false; [eapply okm_valid; eassumption|eapply okm_valid; eassumption|exact Ecut]. }
          destruct (H5 Hlv a0 _ (Hnocut NoCut)) as [K1 [K2 [K3 [K3' [K4 K5]]]]].
          split; [assumption|]. split; [eapply ile_trans; eassumption|].
          split; [unfold ifold; cbn [fold_left]; rewrite Hc; exact K3|].
          split; [exact K3'|].
          split; [intros Hcf _; apply K4; [assumption|left; exact NoCut]|].
          intros Hpv0 Hatt. destruct (Hpv Hpv0 Hatt) as [P1 P2]. apply K5; [exact P1|apply P2; exact NoCut].
    Qed.
  End GLoopSpec.


  (** * The contract in terms of the model's own order *)
  (** [r] is consistent with the true value [v] for the window [(a, b)] - for ANY window *)
  Definition Rm (a b v r : score) : Prop :=
    go_eq r v = true \/ (le v r /\ le r a) \/ (le b r /\ le r v).

  Lemma Rm_iR a b v r : valid a = true -> valid b = true -> valid v = true -> valid r = true ->
    (Rm a b v r <-> iR (iabs a) (iabs b) (iabs v) (iabs r)).
  Proof.
    intros Va Vb Vv Vr. unfold Rm, iR. rewrite go_eq_iabs, !le_iabs by assumption. tauto.
  Qed.

  Lemma ifold_ge_elem exf recv p ms : forall acc m c, In m ms -> child p m = Some c -> exf p c m = true ->
    ile (iT (recv c)) (ifold exf recv p ms acc).
  Proof.
    unfold ifold. induction ms as [|m0 rest IH]; intros acc m c Hin Hc He; [destruct Hin|].
    cbn [fold_left]. destruct Hin as [->|Hin]; [|eapply IH; eassumption].
    rewrite Hc, He. eapply ile_trans; [apply imax_ge_r|apply (ifold_ge exf recv p rest)].
  Qed.
  Lemma iT_gt_bot x : ilt x itop -> ilt ibot (iT x).
  Proof. unfold ilt. destruct x as [n|k|n]; cbn; try tauto. destruct n; cbn; lia. Qed.

  Section Run.
  (** * Cancellation *)
  Definition live (n : nat) : Prop := forall i, (i < n)%nat -> cancel i = false.
  Hypothesis cancel_mono : forall n, cancel n = true -> cancel (S n) = true.

  Lemma cancel_before : forall n i, (i <= n)%nat -> cancel n = false -> cancel i = false.
  Proof.
    induction n as [|n IH]; intros i Hi Hn.
    - assert (i = 0)%nat by lia. subst i. assumption.
    - destruct (Nat.eq_dec i (S n)) as [->|Hne]; [assumption|].
      apply IH; [lia|]. destruct (cancel n) eqn:E; [|reflexivity].
      apply cancel_mono in E. congruence.
  Qed.
  Lemma live_S n : cancel n = false -> live (S n).
  Proof. intros H i Hi. apply (cancel_before n i); [lia|assumption]. Qed.
  Lemma live_le n m : (n <= m)%nat -> live m -> live n.
  Proof. intros H Hm i Hi. apply Hm. lia. Qed.
  Lemma live_last n : live (S n) -> cancel n = false.
  Proof. intros H. apply H. lia. Qed.

  Lemma existsb_perm {A} (f : A -> bool) l l' : Permutation l l' -> existsb f l = existsb f l'.
  Proof.
    induction 1; cbn [existsb]; try congruence.
    - rewrite !orb_assoc, (orb_comm (f y)). reflexivity.
  Qed.
  Lemma has_legal_false p : has_legal p = false -> forall m, In m (moves p) -> child p m = None.
  Proof.
    unfold has_legal. intros H m Hm. destruct (child p m) as [c|] eqn:Ec; [|reflexivity].
    exfalso. rewrite <- not_true_iff_false in H. apply H. apply existsb_exists. exists m. split; [assumption|].
    unfold legalb. rewrite Ec. reflexivity.
  Qed.
  Lemma iLInv_init a sc : iLInv a sc (imax a sc).
  Proof.
    destruct (imax_cases a sc) as [[H ->]|[H ->]]; [right; auto|left; auto].
  Qed.
  Lemma W_ge_a a b k : mabs a <= W a b k. Proof. unfold W; lia. Qed.
  Lemma W_ge_b a b k : mabs b <= W a b k. Proof. unfold W; lia. Qed.
  Lemma W_ge_k a b k : k <= W a b k. Proof. unfold W; lia. Qed.

  (** * Quiescence *)
  Lemma qs_spec : forall f st qn a b st' qn' r p,
    Z.of_nat f <= 127 -> At p (s_g st) -> g_draw (s_g st) = drawn p -> qfin f p ->
    (live (s_polls st) -> valid a = true /\ valid b = true) ->
    qsearch f st qn a b = (st', qn', r) ->
    s_tt st' = s_tt st /\ s_ponder st' = s_ponder st /\ At p (s_g st') /\
    (live (s_polls st') -> live (s_polls st)) /\
    (live (s_polls st') ->
       okm (W a b (Z.of_nat f)) r /\ iR (iabs a) (iabs b) (iabs (qv f p)) (iabs r) /\
       (drawn p = false -> has_legal p = true -> ile (iabs (heuristic (leafv p))) (iabs r)) /\
       (drawn p = false -> has_legal p = false -> r = term_value p) /\
       (drawn p = true -> r = zero_score)).
  Proof.
    induction f as [|f IH]; intros st qn a b st' qn' r p Hf HAt Hdraw Hq Hwin Heq; [destruct Hq|].
    rewrite qsearch_unfold in Heq. unfold Search.poll in Heq.
    destruct (cancel (s_polls st)) eqn:Ec.
    { injection Heq as <- <- <-. cbn [Search.s_tt Search.s_ponder Search.s_g Search.s_polls].
      split; [reflexivity|]. split; [reflexivity|]. split; [assumption|].
      split; [apply live_le; lia|]. intros Hl. apply live_last in Hl. congruence. }
    set (st1 := mkSst G TT (s_g st) (s_tt st) (s_nodes st) (S (s_polls st)) (s_ponder st)) in *.
    change (s_g st1) with (s_g st) in Heq.
    assert (Hl1 : live (s_polls st1) -> live (s_polls st)) by (apply live_le; cbn; lia).
    rewrite Hdraw in Heq. destruct (drawn p) eqn:Ed.
    { injection Heq as <- <- <-.
      split; [reflexivity|]. split; [reflexivity|]. split; [assumption|]. split; [assumption|].
      intros Hl. split; [apply okm_zero; pose proof (W_ge_k a b (Z.of_nat (S f))); lia|].
      split; [left; cbn [qv]; rewrite Ed; reflexivity|].
      split; [intros H; discriminate H|]. split; [intros H; discriminate H|reflexivity]. }
    destruct Hq as [Hq|Hq]; [congruence|].
    rewrite (H_leaf p (s_g st) HAt) in Heq. rewrite (H_moves p (s_g st) HAt) in Heq.
    destruct (qexplore (s_g st)) as [prio pred] eqn:Eq.
    set (sc := heuristic (leafv p)) in *.
    set (order := movelist (moves p) prio) in *.
    rewrite (q_loop_gloop f pred b order st1 (qn + 1)%N (smax a sc) [] false) in Heq.
    destruct (gloop (sst * N) qgetg qsetg (qrec f) pred b order (st1, (qn + 1)%N) (smax a sc) [] false)
      as [[[[x alpha'] pvx] has] cut] eqn:El.
    pose proof (movelist_perm (moves p) prio) as Hperm. fold order in Hperm.
    destruct (gloop_spec (sst * N) qgetg qsetg (qrec f) pred b
                (fun x => s_tt (fst x) = s_tt st /\ s_ponder (fst x) = s_ponder st)
                (fun x => live (s_polls (fst x)))
                ltac:(reflexivity) ltac:(intros ? ? H; exact H) ltac:(intros; cbn; tauto)
                p qex (qv f) (Z.of_nat f) 0%nat (qfin f) ltac:(lia) ltac:(lia)
                ltac:(intros c Hc; apply qv_okm; [assumption|lia])) with (WW := W a b (Z.of_nat (S f)))
                (ms := order) (x := (st1, (qn + 1)%N)) (alpha := smax a sc) (pv := @nil move) (has := false)
                (x' := x) (r := alpha') (pv' := pvx) (has' := has) (cut := cut)
      as [HI [HAt' [Hlv [Hhas Hcon]]]].
    - (* Hpred *)
      intros g' m g1 c Hg' Hp Hc. replace pred with (snd (qexplore (s_g st))) by (rewrite Eq; reflexivity).
      eapply H_qex; eassumption.
    - (* Hrec *)
      intros x0 c a' b' x0' r0 rem [HI1 HI2] Hat0 Hd0 Hc0 Hw0 Er. unfold qrec in Er.
      destruct (qsearch f (fst x0) (snd x0) a' b') as [[st2 qn2] s] eqn:Es. injection Er as <- <- <-.
      destruct (IH (fst x0) (snd x0) a' b' st2 qn2 s c ltac:(lia) Hat0 Hd0 Hc0) as [K1 [K2 [K3 [K4 K5]]]]; [|exact Es|].
      { intros Hl. destruct (Hw0 Hl) as [[Q1 _] [Q2 _]]. split; assumption. }
      cbn [fst snd]. split; [split; congruence|]. split; [exact K3|]. split; [exact K4|].
      intros Hl. destruct (K5 Hl) as [Q1 [Q2 _]]. split; [exact Q1|]. split; [exact Q2|].
      split; [cbn; lia|exact I].
    - pose proof (W_ge_k a b (Z.of_nat (S f))). lia.
    - intros m Hm. eapply Permutation_in; [exact Hperm|exact Hm].
    - intros m c Hm Hc He. eapply Hq; [|exact Hc|exact He]. eapply Permutation_in; [exact Hperm|exact Hm].
    - split; reflexivity.
    - exact HAt.
    - cbn [fst]. intros Hl. destruct (Hwin (Hl1 Hl)) as [Va Vb].
      split; [split; [assumption|apply W_ge_b]|].
      split; [apply valid_smax; [assumption|apply H_leaf_valid]|].
      pose proof (mabs_smax a sc). pose proof (W_ge_a a b (Z.of_nat (S f))).
      pose proof (W_ge_k a b (Z.of_nat (S f))). unfold sc in *. rewrite mabs_heuristic in *. lia.
    - exact El.
    - cbn [fst] in Hlv. cbn [orb] in Hhas.
      assert (Hhl : has = has_legal p).
      { rewrite Hhas. unfold has_legal. apply existsb_perm. exact Hperm. }
      destruct x as [stx qnx]. cbn [fst snd] in *. unfold qgetg in HAt'. cbn [fst] in HAt'.
      destruct HI as [HI1 HI2].
      destruct has; cbn [negb] in Heq.
      + (* some legal move *)
        injection Heq as <- <- <-.
        split; [assumption|]. split; [assumption|]. split; [assumption|]. split; [auto|].
        intros Hl. destruct (Hwin (Hl1 (Hlv Hl))) as [Va Vb].
        assert (Vsc : valid sc = true) by apply H_leaf_valid.
        destruct (Hcon Hl a (iabs sc)) as [C1 [C2 [C3 _]]].
        { rewrite iabs_smax by assumption. apply iLInv_init. }
        split; [exact C1|]. split.
        { rewrite qv_S_iabs; [|right; exact Hq|lia|exact Ed|symmetry; exact Hhl]. rewrite <- (ifold_perm qex _ p order (moves p) Hperm). exact C3. }
        split.
        { intros _ _. eapply ile_trans; [|exact C2]. rewrite iabs_smax by assumption. apply imax_ge_r. }
        split; [intros _ H; congruence|intros H; discriminate H].
      + (* no legal move *)
        pose proof (has_legal_false p (eq_sym Hhl)) as Hnone.
        destruct (H_mated p (s_g stx) HAt' Hnone) as [M1 M2].
        destruct (g_mated (s_g stx)) as [g' mt]. cbn [fst snd] in M1, M2. injection Heq as <- <- <-.
        cbn [Search.s_tt Search.s_ponder Search.s_g Search.s_polls Search.set_g].
        split; [assumption|]. split; [assumption|]. split; [assumption|]. split; [auto|].
        intros Hl. subst mt. fold (term_value p).
        split; [apply okm_term; pose proof (W_ge_k a b (Z.of_nat (S f))); lia|].
        split; [left; cbn [qv]; rewrite Ed, <- Hhl; reflexivity|].
        split; [intros _ H; congruence|]. split; [reflexivity|intros H; discriminate H].
  Qed.


  Lemma quiet_spec st a b st' nodes r p :
    qh <= 127 -> At p (s_g st) -> (use_quiescence = true -> g_draw (s_g st) = drawn p) -> quiet_ok p ->
    (live (s_polls st) -> valid a = true /\ valid b = true) ->
    quiet_search st a b = (st', nodes, r) ->
    s_tt st' = s_tt st /\ s_ponder st' = s_ponder st /\ At p (s_g st') /\
    (live (s_polls st') -> live (s_polls st)) /\
    (live (s_polls st') -> okm (W a b qh) r /\ iR (iabs a) (iabs b) (iabs (quiet p)) (iabs r)).
  Proof.
    unfold Search.quiet_search, quiet, qh, quiet_ok. intros Hh HAt Hd Hq Hw Heq. destruct use_quiescence.
    - destruct (qs_spec qfuel st 0%N a b st' nodes r p Hh HAt (Hd eq_refl) (Hq eq_refl) Hw Heq) as [K1 [K2 [K3 [K4 K5]]]].
      split; [assumption|]. split; [assumption|]. split; [assumption|]. split; [assumption|].
      intros Hl. destruct (K5 Hl) as [Q1 [Q2 _]]. split; assumption.
    - injection Heq as <- <- <-. split; [reflexivity|]. split; [reflexivity|]. split; [assumption|]. split; [auto|].
      intros _. rewrite (H_leaf p (s_g st) HAt). split; [apply okm_leaf; pose proof (W_ge_k a b 0); lia|left; reflexivity].
  Qed.

  (** * Transposition table *)
  (** every entry readable after a write is the written one or was readable before (depth is a uint16) *)
  Definition TTLaw : Prop := forall t h b ply d sc m h' b' d' sc' m',
    0 <= d < 65536 ->
    tt_read (tt_write t h b ply d sc m) h' = Some (b', d', sc', m') ->
    (h' = h /\ b' = b /\ d' = d /\ sc' = sc) \/ tt_read t h' = Some (b', d', sc', m').
  (** hashes identify tree nodes up to the value of the node (the claimable draw at the node itself
      apart: it is checked before the table is consulted) *)
  Definition HashValue : Prop := forall p p' d, node_hash p = node_hash p' -> iabs (mm d true p) = iabs (mm d true p').
  Definition NoTable : Prop := forall t h, tt_read t h = None.
  Hypothesis H_table : NoTable \/ (TTLaw /\ HashValue).

  Definition TVal (d : Z) (h : N) (sc : score) : Prop :=
    0 <= d /\ okm (qh + d) sc /\ exists p, node_hash p = h /\ iabs sc = iabs (mm (Z.to_nat d) true p).
  Definition TTInv (t : TT) : Prop :=
    forall h bound d sc m, tt_read t h = Some (bound, d, sc, m) -> bound = ExactBound -> TVal d h sc.

  Lemma TTInv_write t h b ply d sc m : TTInv t -> 0 <= d < 65536 -> TVal d h sc -> TTInv (tt_write t h b ply d sc m).
  Proof.
    intros Ht Hd Hv h' b' d' sc' m' Hr Hb.
    destruct H_table as [Hn|[tt_law _]]; [rewrite Hn in Hr; discriminate Hr|].
    destruct (tt_law t h b ply d sc m h' b' d' sc' m' Hd Hr) as [[-> [-> [-> ->]]]|Hold]; [assumption|].
    eapply Ht; eassumption.
  Qed.

  Lemma mm_root_irrel d root p : negb root && drawn p = false -> mm d root p = mm d true p.
  Proof. intros H. destruct d; cbn [mm]; rewrite H; reflexivity. Qed.
  Lemma mm_drawn d p : drawn p = true -> mm d false p = zero_score.
  Proof. intros H. destruct d; cbn [mm]; rewrite H; reflexivity. Qed.
  Lemma mabs_of_iabs a b : valid a = true -> valid b = true -> iabs a = iabs b -> mabs a = mabs b.
  Proof.
    intros Ha Hb H. apply go_eq_iabs in H; try assumption. unfold go_eq in H.
    apply andb_true_iff in H. destruct H as [H _]. apply andb_true_iff in H. destruct H as [_ H].
    apply Z.eqb_eq in H. unfold mabs. rewrite H. reflexivity.
  Qed.

  Definition FlagOK (d : nat) (root : bool) (p : pos) (g : G) : Prop :=
    (root = true /\ (d <> O \/ use_quiescence = false)) \/ g_draw g = drawn p.
  Definition Inv (st : sst) : Prop := TTInv (s_tt st) /\ s_ponder st = [].

  Definition PVroot (d : nat) (root : bool) (p : pos) (a b r : score) (pv : list move) : Prop :=
    root = true -> has_legal p = true -> ilt (iabs a) (iabs r) -> ilt (iabs r) (iabs b) ->
    match d with
    | O => True
    | S d' => exists m rem c, pv = m :: rem /\ child p m = Some c /\ ex p c m = true /\ iabs r = iT (iabs (mm d' false c))
    end.

  Definition ABSpec (d : nat) (root : bool) (f : sst -> score -> score -> sst * score * list move) : Prop :=
    forall st a b st' r pv p,
    Inv st -> At p (s_g st) -> FlagOK d root p (s_g st) -> leaves_ok d root p ->
    (live (s_polls st) -> valid a = true /\ valid b = true) ->
    f st a b = (st', r, pv) ->
    Inv st' /\ At p (s_g st') /\ (live (s_polls st') -> live (s_polls st)) /\
    (live (s_polls st') ->
       okm (W a b (qh + Z.of_nat d)) r /\ iR (iabs a) (iabs b) (iabs (mm d root p)) (iabs r) /\
       PVok d p pv /\ PVroot d root p a b r pv).


  Lemma ab_leaf_spec root st a b st' r pv p :
    qh <= 127 -> Inv st -> At p (s_g st) -> (use_quiescence = true -> g_draw (s_g st) = drawn p) ->
    quiet_ok p -> negb root && drawn p = false ->
    (live (s_polls st) -> valid a = true /\ valid b = true) ->
    ab_leaf st a b = (st', r, pv) ->
    Inv st' /\ At p (s_g st') /\ (live (s_polls st') -> live (s_polls st)) /\
    (live (s_polls st') -> okm (W a b qh) r /\ iR (iabs a) (iabs b) (iabs (quiet p)) (iabs r) /\ pv = []).
  Proof.
    pose proof qh_nonneg as Hq0.
    intros Hh [HT HP] HAt Hd Hq Hnd Hw Heq. unfold ab_leaf in Heq.
    destruct (quiet_search st a b) as [[st2 nodes] sc] eqn:Eqs.
    destruct (quiet_spec st a b st2 nodes sc p Hh HAt Hd Hq Hw Eqs) as [K1 [K2 [K3 [K4 K5]]]].
    set (st3 := add_nodes st2 nodes) in *.
    assert (HI3 : Inv st3) by (split; cbn; [rewrite K1; assumption|congruence]).
    assert (Hcon : live (s_polls st2) -> okm (W a b qh) sc /\ iR (iabs a) (iabs b) (iabs (quiet p)) (iabs sc) /\ @nil move = [])
      by (intros Hl; destruct (K5 Hl); auto).
    destruct (less a sc && less sc b) eqn:Ein.
    2:{ injection Heq as <- <- <-. split; [assumption|]. split; [assumption|]. split; [assumption|]. exact Hcon. }
    unfold Search.poll in Heq. change (s_polls st3) with (s_polls st2) in Heq.
    destruct (cancel (s_polls st2)) eqn:Ec2.
    { injection Heq as <- <- <-. split; [assumption|]. split; [assumption|].
      split; [intros Hl; apply K4; eapply live_le; [|exact Hl]; cbn; lia|].
      intros Hl. apply live_last in Hl. cbn in Hl. congruence. }
    injection Heq as <- <- <-.
    cbn [Search.s_tt Search.s_ponder Search.s_g Search.s_polls Search.set_tt Search.add_nodes] in *.
    pose proof (live_S _ Ec2) as Hl2.
    assert (Hl2' : live (s_polls st2)) by (eapply live_le; [|exact Hl2]; lia).
    destruct (Hcon Hl2') as [Q1 [Q2 _]]. destruct (Hw (K4 Hl2')) as [Va Vb].
    apply andb_true_iff in Ein. destruct Ein as [E1 E2].
    pose proof (okm_valid _ _ Q1) as Vsc.
    apply lt_iabs in E1; try assumption. apply lt_iabs in E2; try assumption.
    pose proof (iR_inside _ _ _ _ Q2 E1 E2) as Eex.
    destruct (quiet_okm p Hq Hh) as [Qv _].
    split.
    { unfold Inv. cbn [Search.s_tt Search.s_ponder Search.set_tt]. split; [|congruence]. apply TTInv_write; [rewrite K1; assumption|lia|].
      split; [lia|]. split.
      - split; [assumption|]. rewrite (mabs_of_iabs sc (quiet p) Vsc (okm_valid _ _ Qv) Eex). destruct Qv as [_ Qv]. lia.
      - exists p. split; [symmetry; apply H_hash; assumption|]. cbn [Z.to_nat mm negb andb]. exact Eex. }
    split; [assumption|]. split; [intros _; apply K4; assumption|]. intros _. apply Hcon. assumption.
  Qed.

  Lemma ab_tail_spec d root low b p stx alpha' pvx has cut st' r pv :
    qh + Z.of_nat (S d) <= 127 -> negb root && drawn p = false -> leaves_ok (S d) root p ->
    Inv stx -> At p (s_g stx) -> has = has_legal p ->
    (live (s_polls stx) ->
       okm (W low b (qh + Z.of_nat (S d))) alpha' /\ valid low = true /\ valid b = true /\
       iR (iabs low) (iabs b) (ifold ex (fun c => iabs (mm d false c)) p (moves p) ibot) (iabs alpha') /\
       (cut = true -> ile (iabs b) (iabs alpha')) /\
       (cut = false -> has = true -> ilt (iabs alpha') (iabs b)) /\
       PVok (S d) p pvx /\ (cut = false -> PVatt p ex (mm d false) low alpha' pvx)) ->
    ab_tail (S d) low (stx, alpha', pvx, has, cut) = (st', r, pv) ->
    Inv st' /\ At p (s_g st') /\ (live (s_polls st') -> live (s_polls stx)) /\
    (live (s_polls st') ->
       okm (W low b (qh + Z.of_nat (S d))) r /\ iR (iabs low) (iabs b) (iabs (mm (S d) root p)) (iabs r) /\
       PVok (S d) p pv /\ PVroot (S d) root p low b r pv).
  Proof.
    pose proof qh_nonneg as Hq0.
    intros Hd Hnd HL [HT HP] HAt Hhas Hfacts Heq. unfold ab_tail in Heq.
    destruct has; cbn [negb] in Heq.
    2:{ (* terminal node *)
      pose proof (has_legal_false p (eq_sym Hhas)) as Hnone.
      destruct (H_mated p (s_g stx) HAt Hnone) as [M1 M2].
      destruct (g_mated (s_g stx)) as [g' mt]. cbn [fst snd] in M1, M2. injection Heq as <- <- <-.
      cbn [Search.s_tt Search.s_ponder Search.s_g Search.s_polls Search.set_g].
      split; [split; assumption|]. split; [assumption|]. split; [auto|].
      intros Hl. subst mt. fold (term_value p).
      split; [apply okm_term; pose proof (W_ge_k low b (qh + Z.of_nat (S d))); lia|].
      split; [left; cbn [mm]; rewrite Hnd, <- Hhas; reflexivity|].
      split; [split; [cbn; lia|exact I]|]. intros _ H. congruence. }
    assert (Hcon : live (s_polls stx) ->
       okm (W low b (qh + Z.of_nat (S d))) alpha' /\ iR (iabs low) (iabs b) (iabs (mm (S d) root p)) (iabs alpha') /\
       PVok (S d) p pvx /\ PVroot (S d) root p low b alpha' pvx).
    { intros Hl. destruct (Hfacts Hl) as [F1 [F2 [F3 [F4 [F5 [F6 [F7 F8]]]]]]].
      split; [assumption|]. split; [rewrite mm_S_iabs; auto|]. split; [assumption|].
      intros _ _ Hlo Hhi. destruct cut.
      - exfalso. apply Hhi. apply F5. reflexivity.
      - apply (F8 eq_refl). exact Hlo. }
    destruct (negb cut && less low alpha') eqn:Ew.
    2:{ injection Heq as <- <- <-. split; [split; assumption|]. split; [assumption|]. split; [auto|]. exact Hcon. }
    unfold Search.poll in Heq.
    destruct (cancel (s_polls stx)) eqn:Ec2.
    { injection Heq as <- <- <-. cbn [Search.s_tt Search.s_ponder Search.s_g Search.s_polls].
      split; [split; assumption|]. split; [assumption|].
      split; [apply live_le; lia|].
      intros Hl. apply live_last in Hl. congruence. }
    injection Heq as <- <- <-.
    cbn [Search.s_tt Search.s_ponder Search.s_g Search.s_polls Search.set_tt].
    pose proof (live_S _ Ec2) as Hl2.
    assert (Hl2' : live (s_polls stx)) by (eapply live_le; [|exact Hl2]; lia).
    destruct (Hfacts Hl2') as [F1 [F2 [F3 [F4 [F5 [F6 [F7 F8]]]]]]].
    apply andb_true_iff in Ew. destruct Ew as [E1 E2]. apply negb_true_iff in E1. subst cut.
    pose proof (okm_valid _ _ F1) as Va'.
    apply lt_iabs in E2; try assumption.
    pose proof (iR_inside _ _ _ _ F4 E2 (F6 eq_refl eq_refl)) as Eex.
    rewrite <- (mm_S_iabs d root p HL Hd Hnd (eq_sym Hhas)) in Eex.
    destruct (mm_okm (S d) root p HL Hd) as [Mv _].
    split.
    { unfold Inv. cbn [Search.s_tt Search.s_ponder Search.set_tt]. split; [|assumption]. apply TTInv_write; [assumption|lia|].
      split; [lia|]. split.
      - split; [assumption|]. rewrite (mabs_of_iabs alpha' _ Va' (okm_valid _ _ Mv) Eex). destruct Mv as [_ Mv]. lia.
      - exists p. split; [symmetry; apply H_hash; assumption|]. replace (Z.to_nat (Z.pos (Pos.of_succ_nat d))) with (S d) by lia.
        rewrite <- (mm_root_irrel (S d) root p Hnd). exact Eex. }
    split; [assumption|]. split; [apply live_le; lia|]. intros _. apply Hcon. assumption.
  Qed.


  Lemma leaves_ok_children d root p : negb root && drawn p = false -> leaves_ok (S d) root p ->
    forall m c, In m (moves p) -> child p m = Some c -> ex p c m = true -> leaves_ok d false c.
  Proof. intros Hnd HL. cbn [leaves_ok] in HL. destruct HL as [HL|HL]; [congruence|exact HL]. Qed.

  Lemma ab_node_spec d recab best root st a b st' r pv p :
    qh + Z.of_nat (S d) <= 127 -> ABSpec d false recab -> negb root && drawn p = false -> leaves_ok (S d) root p ->
    Inv st -> At p (s_g st) -> (live (s_polls st) -> valid a = true /\ valid b = true) ->
    ab_node (S d) recab best st a b = (st', r, pv) ->
    Inv st' /\ At p (s_g st') /\ (live (s_polls st') -> live (s_polls st)) /\
    (live (s_polls st') ->
       okm (W a b (qh + Z.of_nat (S d))) r /\ iR (iabs a) (iabs b) (iabs (mm (S d) root p)) (iabs r) /\
       PVok (S d) p pv /\ PVroot (S d) root p a b r pv).
  Proof.
    pose proof qh_nonneg as Hq0.
    intros Hd Hrec Hnd HL [HT HP] HAt Hw Heq. unfold ab_node in Heq.
    set (st1 := add_nodes st 1%N) in *.
    change (s_g st1) with (s_g st) in Heq. change (s_ponder st1) with (s_ponder st) in Heq.
    destruct (explore (s_g st)) as [prio pred] eqn:Eex. rewrite HP in Heq.
    cbv beta iota zeta in Heq. change (s_g st1) with (s_g st) in Heq.
    rewrite (H_moves p (s_g st) HAt) in Heq.
    set (order := movelist (moves p) (first_prio best prio)) in *.
    pose proof (movelist_perm (moves p) (first_prio best prio)) as Hperm. fold order in Hperm.
    destruct (gloop sst s_g set_g recab pred b order st1 a [] false) as [[[[stx alpha'] pvx] has] cut] eqn:El.
    pose proof (leaves_ok_children d root p Hnd HL) as HLc.
    destruct (gloop_spec sst s_g set_g recab pred b Inv (fun st => live (s_polls st))
                ltac:(reflexivity) ltac:(intros ? ? H; exact H) ltac:(intros; cbn; tauto)
                p ex (mm d false) (qh + Z.of_nat d) d (leaves_ok d false) ltac:(lia) ltac:(lia)
                ltac:(intros c Hc; apply mm_okm; [assumption|lia])) with (WW := W a b (qh + Z.of_nat (S d)))
                (ms := order) (x := st1) (alpha := a) (pv := @nil move) (has := false)
                (x' := stx) (r := alpha') (pv' := pvx) (has' := has) (cut := cut)
      as [HI [HAt' [Hlv [Hhas Hcon]]]].
    - intros g' m g1 c Hg' Hp Hc. replace pred with (snd (explore (s_g st))) by (rewrite Eex; reflexivity).
      eapply H_ex; eassumption.
    - intros x0 c a' b' x0' r0 rem HI0 Hat0 Hd0 Hc0 Hw0 Er.
      destruct (Hrec x0 a' b' x0' r0 rem c HI0 Hat0 (or_intror Hd0) Hc0) as [K1 [K2 [K3 K4]]]; [|exact Er|].
      { intros Hl. destruct (Hw0 Hl) as [[Q1 _] [Q2 _]]. split; assumption. }
      split; [assumption|]. split; [assumption|]. split; [assumption|].
      intros Hl. destruct (K4 Hl) as [Q1 [Q2 [Q3 _]]]. split; [exact Q1|]. split; [exact Q2|exact Q3].
    - pose proof (W_ge_k a b (qh + Z.of_nat (S d))). lia.
    - intros m Hm. eapply Permutation_in; [exact Hperm|exact Hm].
    - intros m c Hm Hc He. eapply HLc; [|exact Hc|exact He]. eapply Permutation_in; [exact Hperm|exact Hm].
    - split; assumption.
    - exact HAt.
    - intros Hl. destruct (Hw Hl) as [Va Vb].
      split; [split; [assumption|apply W_ge_b]|split; [assumption|apply W_ge_a]].
    - exact El.
    - cbn [orb] in Hhas.
      assert (Hhl : has = has_legal p).
      { rewrite Hhas. unfold has_legal. apply existsb_perm. exact Hperm. }
      destruct (ab_tail_spec d root a b p stx alpha' pvx has cut st' r pv Hd Hnd HL HI HAt' Hhl) as [T1 [T2 [T3 T4]]]; [|exact Heq|].
      + intros Hl. destruct (Hw (Hlv Hl)) as [Va Vb].
        destruct (Hcon Hl a ibot) as [C1 [C2 [C3 [C4 [C5 C6]]]]].
        { left. split; [reflexivity|apply ile_bot]. }
        split; [assumption|]. split; [assumption|]. split; [assumption|].
        split; [rewrite <- (ifold_perm ex _ p order (moves p) Hperm); exact C3|].
        split; [assumption|].
        split; [intros Hc Hh; apply C5; [assumption|right; rewrite <- Hhas; assumption]|].
        apply C6; [split; [cbn; lia|exact I]|intros H; exfalso; exact (ilt_irrefl _ H)].
      + split; [assumption|]. split; [assumption|]. split; [intros Hl; apply Hlv, T3, Hl|exact T4].
  Qed.

  Lemma ab_body_spec depth recab root :
    qh + Z.of_nat depth <= 127 ->
    (forall d, depth = S d -> ABSpec d false recab) ->
    ABSpec depth root (ab_body depth recab root).
  Proof.
    pose proof qh_nonneg as Hq0.
    intros Hd Hrecab st a b st' r pv p [HT HP] HAt HF HL Hw Heq.
    unfold ab_body, Search.poll in Heq.
    destruct (cancel (s_polls st)) eqn:Ec.
    { injection Heq as <- <- <-. cbn [Search.s_tt Search.s_ponder Search.s_g Search.s_polls].
      split; [split; assumption|]. split; [assumption|].
      split; [apply live_le; lia|]. intros Hl. apply live_last in Hl. congruence. }
    set (st1 := mkSst G TT (s_g st) (s_tt st) (s_nodes st) (S (s_polls st)) (s_ponder st)) in *.
    change (s_g st1) with (s_g st) in Heq. change (s_tt st1) with (s_tt st) in Heq.
    assert (Hl1 : live (s_polls st1) -> live (s_polls st)) by (apply live_le; cbn; lia).
    assert (HI1 : Inv st1) by (split; assumption).
    destruct (negb root && g_draw (s_g st)) eqn:Edr.
    { apply andb_true_iff in Edr. destruct Edr as [Er Eg]. apply negb_true_iff in Er. subst root.
      destruct HF as [[HF _]|HF]; [discriminate HF|]. rewrite Eg in HF.
      injection Heq as <- <- <-.
      split; [split; assumption|]. split; [assumption|]. split; [assumption|].
      intros Hl. rewrite mm_drawn by auto.
      split; [apply okm_zero; pose proof (W_ge_k a b (qh + Z.of_nat depth)); lia|].
      split; [left; reflexivity|]. split; [split; [cbn; lia|exact I]|]. intros H; discriminate H. }
    assert (Hnd : negb root && drawn p = false).
    { destruct root; [reflexivity|]. cbn [negb andb] in *. destruct HF as [[HF _]|HF]; [discriminate HF|]. congruence. }
    cbv zeta in Heq.
    match type of Heq with (match ?h with Some _ => _ | None => _ end) = _ => destruct h as [sc|] eqn:Ehit end.
    { (* exact table hit *)
      destruct (tt_read (s_tt st) (g_hash (s_g st))) as [[[[bound dd] sc0] bm]|] eqn:Erd; [|discriminate Ehit].
      destruct H_table as [Hn|[_ hash_value]]; [rewrite Hn in Erd; discriminate Erd|].
      destruct (negb root && (Z.of_nat depth =? dd) && (bound =? ExactBound)%N) eqn:Eh; [|discriminate Ehit].
      injection Ehit as ->. apply andb_true_iff in Eh. destruct Eh as [Eh E3]. apply andb_true_iff in Eh. destruct Eh as [E1 E2].
      apply negb_true_iff in E1. apply Z.eqb_eq in E2. apply N.eqb_eq in E3. subst root dd bound.
      destruct (HT _ _ _ _ _ Erd eq_refl) as [V1 [V2 [p' [V3 V4]]]].
      injection Heq as <- <- <-.
      split; [assumption|]. split; [assumption|]. split; [assumption|].
      intros Hl. split; [eapply okm_weaken; [exact V2|apply W_ge_k]|].
      split.
      { left. rewrite V4, Nat2Z.id. rewrite (mm_root_irrel depth false p Hnd). apply hash_value.
        rewrite V3. apply H_hash. assumption. }
      split; [split; [cbn; lia|exact I]|]. intros H; discriminate H. }
    destruct depth as [|d].
    - (* horizon *)
      assert (Hq : quiet_ok p).
      { cbn [leaves_ok] in HL. destruct HL as [HL|HL]; [congruence|exact HL]. }
      assert (Hfl : use_quiescence = true -> g_draw (s_g st1) = drawn p).
      { intros Hu. destruct HF as [[_ [HF|HF]]|HF]; [congruence|congruence|exact HF]. }
      destruct (ab_leaf_spec root st1 a b st' r pv p ltac:(lia) HI1 HAt Hfl Hq Hnd (fun Hl => Hw (Hl1 Hl)) Heq) as [K1 [K2 [K3 K4]]].
      split; [assumption|]. split; [assumption|]. split; [auto|].
      intros Hl. destruct (K4 Hl) as [Q1 [Q2 Q3]]. replace (qh + Z.of_nat 0) with qh by lia.
      split; [assumption|]. split; [cbn [mm]; rewrite Hnd; assumption|]. subst pv.
      split; [split; [cbn; lia|exact I]|]. intros _ _ _ _. exact I.
    - destruct (ab_node_spec d recab _ root st1 a b st' r pv p Hd (Hrecab d eq_refl) Hnd HL HI1 HAt (fun Hl => Hw (Hl1 Hl)) Heq)
        as [K1 [K2 [K3 K4]]].
      split; [assumption|]. split; [assumption|]. split; [auto|exact K4].
  Qed.

  (** * The main lemma: frame (always) and contract (as long as no poll was answered "cancelled") *)
  Theorem ab_spec : forall d root, qh + Z.of_nat d <= 127 -> ABSpec d root (ab d root).
  Proof.
    induction d as [|d IH]; intros root Hd st a b st' r pv p HI HAt HF HL Hw Heq; rewrite ab_unfold in Heq.
    - eapply (ab_body_spec 0 _ root Hd); try eassumption. intros d0 H; discriminate H.
    - eapply (ab_body_spec (S d) _ root Hd); try eassumption. intros d0 H. injection H as <-. apply IH. lia.
  Qed.


  (** the window-agnostic contract of [ab]; the frame part holds for every cancellation point *)
  Theorem ab_contract d root st a b st' r pv p :
    qh + Z.of_nat d <= 127 -> Inv st -> At p (s_g st) -> FlagOK d root p (s_g st) -> leaves_ok d root p ->
    valid a = true -> valid b = true ->
    ab d root st a b = (st', r, pv) ->
    Inv st' /\ At p (s_g st') /\
    (live (s_polls st') -> valid r = true /\ Rm a b (mm d root p) r /\ PVok d p pv).
  Proof.
    intros Hd HI HAt HF HL Va Vb Heq.
    destruct (ab_spec d root Hd st a b st' r pv p HI HAt HF HL (fun _ => conj Va Vb) Heq) as [K1 [K2 [K3 K4]]].
    split; [assumption|]. split; [assumption|]. intros Hl. destruct (K4 Hl) as [Q1 [Q2 [Q3 _]]].
    destruct (mm_okm d root p HL Hd) as [[Vv _] _].
    pose proof (okm_valid _ _ Q1) as Vr. split; [assumption|]. split; [apply Rm_iR; assumption|assumption].
  Qed.

  (** C13, three cases, for a proper window *)
  Corollary ab_window d root st a b st' r pv p :
    qh + Z.of_nat d <= 127 -> Inv st -> At p (s_g st) -> FlagOK d root p (s_g st) -> leaves_ok d root p ->
    valid a = true -> valid b = true -> less a b = true ->
    ab d root st a b = (st', r, pv) -> live (s_polls st') ->
    let v := mm d root p in
    (le v a -> le v r /\ le r a) /\
    (less a v = true -> less v b = true -> go_eq r v = true) /\
    (le b v -> le b r /\ le r v).
  Proof.
    intros Hd HI HAt HF HL Va Vb Hab Heq Hl v.
    destruct (ab_spec d root Hd st a b st' r pv p HI HAt HF HL (fun _ => conj Va Vb) Heq) as [_ [_ [_ K4]]].
    destruct (K4 Hl) as [Q1 [Q2 _]]. destruct (mm_okm d root p HL Hd) as [[Vv _] _]. fold v in Q2, Vv.
    pose proof (okm_valid _ _ Q1) as Vr. apply lt_iabs in Hab; try assumption.
    destruct (iR_window _ _ _ _ Hab Q2) as [W1 [W2 W3]].
    rewrite !le_iabs, !lt_iabs, go_eq_iabs by assumption. auto.
  Qed.

  (** C03: the full-window search returns the minimax value (up to Go's [==], i.e. +0 = -0) *)
  Theorem ab_full_window d root st st' r pv p :
    qh + Z.of_nat d <= 127 -> Inv st -> At p (s_g st) -> FlagOK d root p (s_g st) -> leaves_ok d root p ->
    ab d root st neginf_score inf_score = (st', r, pv) -> live (s_polls st') ->
    go_eq r (mm d root p) = true /\ valid r = true.
  Proof.
    intros Hd HI HAt HF HL Heq Hl.
    destruct (ab_spec d root Hd st neginf_score inf_score st' r pv p HI HAt HF HL (fun _ => conj (eq_refl : valid neginf_score = true) (eq_refl : valid inf_score = true)) Heq) as [_ [_ [_ K4]]].
    destruct (K4 Hl) as [Q1 [Q2 _]]. destruct (mm_okm d root p HL Hd) as [[Vv _] Vt].
    pose proof (okm_valid _ _ Q1) as Vr. split; [|assumption].
    apply go_eq_iabs; try assumption. apply iR_full; assumption.
  Qed.

  (** the principal variation: a legal line of at most [d] moves; at the root of a full-window
      search it is non-empty as soon as some explored legal move exists, and its first move attains
      the value *)
  Theorem pv_sound d' st st' r pv p :
    qh + Z.of_nat (S d') <= 127 -> Inv st -> At p (s_g st) -> leaves_ok (S d') true p ->
    ab (S d') true st neginf_score inf_score = (st', r, pv) -> live (s_polls st') ->
    PVok (S d') p pv /\
    ((exists m c, In m (moves p) /\ child p m = Some c /\ ex p c m = true) ->
     exists m rem c, pv = m :: rem /\ In m (moves p) /\ child p m = Some c /\ ex p c m = true /\
                     go_eq (T (mm d' false c)) (mm (S d') true p) = true /\ go_eq (T (mm d' false c)) r = true).
  Proof.
    pose proof qh_nonneg as Hq0.
    intros Hd HI HAt HL Heq Hl.
    assert (HF : FlagOK (S d') true p (s_g st)) by (left; split; [reflexivity|left; discriminate]).
    destruct (ab_spec (S d') true Hd st neginf_score inf_score st' r pv p HI HAt HF HL (fun _ => conj (eq_refl : valid neginf_score = true) (eq_refl : valid inf_score = true)) Heq) as [_ [_ [_ K4]]].
    destruct (K4 Hl) as [Q1 [Q2 [Q3 Q4]]]. split; [assumption|].
    intros [m [c [Hm [Hc He]]]].
    destruct (mm_okm (S d') true p HL Hd) as [[Vv _] Vt].
    pose proof (okm_valid _ _ Q1) as Vr.
    pose proof (iR_full _ _ Q2 Vt) as Er.
    assert (Hh : has_legal p = true).
    { unfold has_legal. apply existsb_exists. exists m. split; [assumption|]. unfold legalb. rewrite Hc. reflexivity. }
    pose proof (leaves_ok_children d' true p eq_refl HL) as HLc.
    assert (Hgt : ilt ibot (iabs r)).
    { rewrite Er, mm_S_iabs by auto.
      eapply ilt_le_trans; [|eapply ifold_ge_elem; eassumption]. apply iT_gt_bot.
      apply mm_okm; [eapply HLc; eassumption|lia]. }
    assert (Hlt : ilt (iabs r) itop) by (rewrite Er; assumption).
    destruct (Q4 eq_refl Hh Hgt Hlt) as [m1 [rem [c1 [P1 [P2 [P3 P4]]]]]].
    exists m1, rem, c1. split; [assumption|]. destruct Q3 as [_ Hpath]. rewrite P1 in Hpath. destruct Hpath as [Hin1 _].
    split; [assumption|]. split; [assumption|]. split; [assumption|].
    destruct (mm_okm d' false c1 (HLc m1 c1 Hin1 P2 P3) ltac:(lia)) as [Hc1 _].
    assert (VT : valid (T (mm d' false c1)) = true) by (apply valid_T; [eapply okm_valid; eassumption|eapply okm_inc_ok; [eassumption|lia]]).
    assert (ET : iabs (T (mm d' false c1)) = iabs r).
    { rewrite iabs_T; [symmetry; assumption|eapply okm_valid; eassumption|eapply okm_inc_ok; [eassumption|lia]]. }
    split; apply go_eq_iabs; try assumption. rewrite ET. assumption.
  Qed.

  (** quiescence: contract for every window, stand-pat lower bound, exact terminal values *)
  Theorem qs_contract f st qn a b st' qn' r p :
    Z.of_nat f <= 127 -> Rep p (s_g st) -> qfin f p -> valid a = true -> valid b = true ->
    qsearch f st qn a b = (st', qn', r) ->
    At p (s_g st') /\ s_tt st' = s_tt st /\
    (live (s_polls st') ->
       valid r = true /\ Rm a b (qv f p) r /\
       (drawn p = false -> has_legal p = true -> less r (heuristic (leafv p)) = false) /\
       (drawn p = false -> has_legal p = false -> r = term_value p) /\
       (drawn p = true -> r = zero_score)).
  Proof.
    intros Hf [HAt Hdr] Hq Va Vb Heq.
    destruct (qs_spec f st qn a b st' qn' r p Hf HAt Hdr Hq (fun _ => conj Va Vb) Heq) as [K1 [K2 [K3 [K4 K5]]]].
    split; [assumption|]. split; [assumption|]. intros Hl. destruct (K5 Hl) as [Q1 [Q2 [Q3 [Q4 Q5]]]].
    destruct (qv_okm f p Hq Hf) as [[Vv _] _]. pose proof (okm_valid _ _ Q1) as Vr.
    split; [assumption|]. split; [apply Rm_iR; assumption|].
    split; [|split; assumption].
    intros H1 H2. apply (le_iabs (heuristic (leafv p)) r (H_leaf_valid p) Vr). auto.
  Qed.

  (** * [AlphaBeta.Search] *)
  Hypothesis H_clear : forall p g, At p g -> At p (g_clear_draw g).
  Hypothesis H_restore : forall p g0 g, At p g -> At p (g_restore g0 g) /\ g_draw (g_restore g0 g) = g_draw g0.

  Theorem ab_search_spec g t ponder depth low high st nodes sc pv halted p :
    qh + Z.of_nat depth <= 127 -> TTInv t -> ponder = [] -> Rep p g ->
    (depth <> O \/ use_quiescence = false \/ drawn p = false) ->
    leaves_ok depth true p -> valid low = true -> valid high = true ->
    ab_search g t ponder depth low high = (st, nodes, sc, pv, halted) ->
    (* board handed back at the same node; a draw that could be claimed on entry still can *)
    At p (s_g st) /\ (drawn p = true -> g_draw (s_g st) = true) /\
    (* the table holds only true exact values, whenever the search was stopped *)
    TTInv (s_tt st) /\
    (* halted exactly when the final poll was answered "cancelled" *)
    halted = cancel (Nat.pred (s_polls st)) /\
    (halted = true -> sc = invalid_score /\ pv = [] /\ nodes = 0%N) /\
    (halted = false ->
       valid sc = true /\ Rm low high (mm depth true p) sc /\ PVok depth p pv /\ PVroot depth true p low high sc pv).
  Proof.
    intros Hd HT -> [HAt Hdr] Hcase HL Va Vb Heq. unfold Search.ab_search in Heq.
    set (g0 := if g_draw g then g_clear_draw g else g) in *.
    assert (HAt0 : At p g0) by (unfold g0; destruct (g_draw g); [apply H_clear|]; assumption).
    assert (HF : FlagOK depth true p g0).
    { unfold g0. rewrite Hdr. destruct (drawn p) eqn:Ed; [|right; congruence].
      left. split; [reflexivity|]. destruct Hcase as [H|[H|H]]; [left; assumption|right; assumption|discriminate H]. }
    destruct (ab depth true (mkSst G TT g0 t 0%N 0%nat []) low high) as [[st1 sc1] pv1] eqn:Eab.
    assert (HI0 : Inv (mkSst G TT g0 t 0%N 0%nat [])) by (split; [exact HT|reflexivity]).
    destruct (ab_spec depth true Hd _ low high st1 sc1 pv1 p HI0 HAt0 HF HL (fun _ => conj Va Vb) Eab)
      as [[K1 K1'] [K2 [K3 K4]]].
    unfold Search.poll in Heq.
    set (st2 := mkSst G TT (s_g st1) (s_tt st1) (s_nodes st1) (S (s_polls st1)) (s_ponder st1)) in *.
    set (st3 := if g_draw g then set_g st2 (g_restore g (s_g st2)) else st2) in *.
    assert (HAt3 : At p (s_g st3) /\ (drawn p = true -> g_draw (s_g st3) = true) /\ s_tt st3 = s_tt st1 /\ s_polls st3 = S (s_polls st1)).
    { unfold st3. rewrite Hdr. destruct (drawn p) eqn:Ed.
      - cbn [Search.s_g Search.set_g Search.s_tt Search.s_polls]. change (s_g st2) with (s_g st1). destruct (H_restore p g (s_g st1) K2) as [R1 R2].
        split; [assumption|]. split; [intros _; rewrite R2; assumption|split; reflexivity].
      - split; [assumption|]. split; [intros H; discriminate H|split; reflexivity]. }
    destruct HAt3 as [A1 [A2 [A3 A4]]].
    destruct (cancel (s_polls st1)) eqn:Ec; injection Heq as <- <- <- <- <-.
    - split; [assumption|]. split; [assumption|]. split; [rewrite A3; assumption|].
      split; [rewrite A4; cbn; auto|]. split; [auto|intros H; discriminate H].
    - split; [assumption|]. split; [assumption|]. split; [rewrite A3; assumption|].
      split; [rewrite A4; cbn; auto|]. split; [intros H; discriminate H|]. intros _.
      assert (Hl : live (s_polls st1)) by (eapply live_le; [|apply (live_S _ Ec)]; lia).
      destruct (K4 Hl) as [Q1 [Q2 [Q3 Q4]]]. destruct (mm_okm depth true p HL Hd) as [[Vv _] _].
      pose proof (okm_valid _ _ Q1) as Vr. split; [assumption|]. split; [apply Rm_iR; assumption|]. split; assumption.
  Qed.

  End Run.


  (** * Without table and without cancellation (B.1 - B.5) *)
  Section Pure.
    Hypothesis no_cancel : forall n, cancel n = false.
    Hypothesis no_table : forall t h, tt_read t h = None.

    Lemma pure_mono : forall n, cancel n = true -> cancel (S n) = true.
    Proof. intros n H. rewrite no_cancel in H. discriminate H. Qed.
    Lemma pure_table : NoTable \/ (TTLaw /\ HashValue).
    Proof. left. exact no_table. Qed.
    Lemma pure_live n : live n.
    Proof. intros i _. apply no_cancel. Qed.
    Lemma pure_Inv st : s_ponder st = [] -> Inv st.
    Proof. intros H. split; [|exact H]. intros h bound d sc m Hr. rewrite no_table in Hr. discriminate Hr. Qed.

    (** B.1 *)
    Theorem qs_contract_pure f st qn a b st' qn' r p :
      Z.of_nat f <= 127 -> Rep p (s_g st) -> qfin f p -> valid a = true -> valid b = true ->
      qsearch f st qn a b = (st', qn', r) ->
      At p (s_g st') /\ valid r = true /\ Rm a b (qv f p) r /\
      (drawn p = false -> has_legal p = true -> less r (heuristic (leafv p)) = false) /\
      (drawn p = false -> has_legal p = false -> r = term_value p) /\
      (drawn p = true -> r = zero_score).
    Proof.
      intros Hf HR Hq Va Vb Heq. destruct (qs_contract f st qn a b st' qn' r p Hf HR Hq Va Vb Heq) as [K1 [_ K3]].
      split; [assumption|]. apply K3, pure_live.
    Qed.

    (** B.2 and B.5: contract for all windows; the board is handed back at the same node (its
        result flag possibly reset or adjudicated) *)
    Theorem ab_contract_pure d root st a b st' r pv p :
      qh + Z.of_nat d <= 127 -> s_ponder st = [] -> Rep p (s_g st) -> leaves_ok d root p ->
      valid a = true -> valid b = true ->
      ab d root st a b = (st', r, pv) ->
      valid r = true /\ Rm a b (mm d root p) r /\ At p (s_g st') /\ PVok d p pv.
    Proof.
      intros Hd Hp [HAt Hdr] HL Va Vb Heq.
      destruct (ab_contract pure_mono pure_table d root st a b st' r pv p Hd (pure_Inv st Hp) HAt (or_intror Hdr) HL Va Vb Heq)
        as [_ [K2 K3]].
      destruct (K3 (pure_live _)) as [Q1 [Q2 Q3]]. auto.
    Qed.

    Corollary ab_window_pure d root st a b st' r pv p :
      qh + Z.of_nat d <= 127 -> s_ponder st = [] -> Rep p (s_g st) -> leaves_ok d root p ->
      valid a = true -> valid b = true -> less a b = true ->
      ab d root st a b = (st', r, pv) ->
      let v := mm d root p in
      (le v a -> le v r /\ le r a) /\
      (less a v = true -> less v b = true -> go_eq r v = true) /\
      (le b v -> le b r /\ le r v).
    Proof.
      intros Hd Hp [HAt Hdr] HL Va Vb Hab Heq.
      exact (ab_window pure_mono pure_table d root st a b st' r pv p Hd (pure_Inv st Hp) HAt (or_intror Hdr) HL Va Vb Hab Heq (pure_live _)).
    Qed.

    (** B.3 *)
    Theorem ab_full_window_pure d root st st' r pv p :
      qh + Z.of_nat d <= 127 -> s_ponder st = [] -> Rep p (s_g st) -> leaves_ok d root p ->
      ab d root st neginf_score inf_score = (st', r, pv) ->
      go_eq r (mm d root p) = true /\ valid r = true.
    Proof.
      intros Hd Hp [HAt Hdr] HL Heq.
      exact (ab_full_window pure_mono pure_table d root st st' r pv p Hd (pure_Inv st Hp) HAt (or_intror Hdr) HL Heq (pure_live _)).
    Qed.

    (** B.4 *)
    Theorem pv_sound_pure d' st st' r pv p :
      qh + Z.of_nat (S d') <= 127 -> s_ponder st = [] -> At p (s_g st) -> leaves_ok (S d') true p ->
      ab (S d') true st neginf_score inf_score = (st', r, pv) ->
      PVok (S d') p pv /\
      ((exists m c, In m (moves p) /\ child p m = Some c /\ ex p c m = true) ->
       exists m rem c, pv = m :: rem /\ In m (moves p) /\ child p m = Some c /\ ex p c m = true /\
                       go_eq (T (mm d' false c)) (mm (S d') true p) = true /\ go_eq (T (mm d' false c)) r = true).
    Proof.
      intros Hd Hp HAt HL Heq.
      exact (pv_sound pure_mono pure_table d' st st' r pv p Hd (pure_Inv st Hp) HAt HL Heq (pure_live _)).
    Qed.
  End Pure.

  (** * With the table and with cancellation *)
  (** [ab] keeps the table invariant and the board position for EVERY cancellation behaviour
      (monotone oracle): exact entries are true values, a halted run writes nothing false *)
  Theorem ab_frame :
    (forall n, cancel n = true -> cancel (S n) = true) -> NoTable \/ (TTLaw /\ HashValue) ->
    forall d root st a b st' r pv p,
      qh + Z.of_nat d <= 127 -> Inv st -> At p (s_g st) -> FlagOK d root p (s_g st) -> leaves_ok d root p ->
      valid a = true -> valid b = true ->
      ab d root st a b = (st', r, pv) ->
      TTInv (s_tt st') /\ s_ponder st' = [] /\ At p (s_g st').
  Proof.
    intros Hm Ht d root st a b st' r pv p Hd HI HAt HF HL Va Vb Heq.
    destruct (ab_contract Hm Ht d root st a b st' r pv p Hd HI HAt HF HL Va Vb Heq) as [[K1 K1'] [K2 _]]. auto.
  Qed.

  (** the properties of a halted run, by name *)
  Section Halt.
    Hypothesis cancel_mono' : forall n, cancel n = true -> cancel (S n) = true.
    Hypothesis H_table' : NoTable \/ (TTLaw /\ HashValue).
    Hypothesis H_clear' : forall p g, At p g -> At p (g_clear_draw g).
    Hypothesis H_restore' : forall p g0 g, At p g -> At p (g_restore g0 g) /\ g_draw (g_restore g0 g) = g_draw g0.
    Variables (g : G) (t : TT) (depth : nat) (low high : score) (p : pos).
    Hypothesis Hd : qh + Z.of_nat depth <= 127.
    Hypothesis Ht : TTInv t.
    Hypothesis Hrep : Rep p g.
    Hypothesis Hcase : depth <> O \/ use_quiescence = false \/ drawn p = false.
    Hypothesis Hleaves : leaves_ok depth true p.
    Hypothesis Hlow : valid low = true.
    Hypothesis Hhigh : valid high = true.
    Variables (st : sst) (nodes : N) (sc : score) (pv : list move) (halted : bool).
    Hypothesis Hrun : ab_search g t [] depth low high = (st, nodes, sc, pv, halted).

    Let spec := ab_search_spec cancel_mono' H_table' H_clear' H_restore' g t [] depth low high st nodes sc pv halted p
                  Hd Ht eq_refl Hrep Hcase Hleaves Hlow Hhigh Hrun.

    (** the search reports [halted] exactly when its final poll was answered "cancelled" *)
    Corollary halt_reports : cancel (Nat.pred (s_polls st)) = true -> halted = true.
    Proof. destruct spec as [_ [_ [_ [H _]]]]. congruence. Qed.
    (** whatever the cancellation point, the board is handed back at the node it was received at *)
    Corollary halt_restores_board : At p (s_g st) /\ (drawn p = true -> g_draw (s_g st) = true).
    Proof. destruct spec as [H1 [H2 _]]. split; assumption. Qed.
    (** whatever the cancellation point, every exact entry of the table is a true value *)
    Corollary halt_writes_nothing_false : TTInv (s_tt st).
    Proof. destruct spec as [_ [_ [H _]]]. exact H. Qed.
    (** a search that was not halted returns a result consistent with the minimax value *)
    Corollary completed_search_contract : halted = false ->
      valid sc = true /\ Rm low high (mm depth true p) sc /\ PVok depth p pv.
    Proof. intros H. destruct spec as [_ [_ [_ [_ [_ K]]]]]. destruct (K H) as [Q1 [Q2 [Q3 _]]]. auto. Qed.
  End Halt.

  (** a search entered after a cancelled poll returns at once and writes nothing (with a monotone
      oracle: nothing is written after the first cancelled poll, since every write is immediately
      preceded by a poll at the same level) *)
  Lemma ab_cancelled_entry d root st a b :
    cancel (s_polls st) = true ->
    ab d root st a b = (mkSst G TT (s_g st) (s_tt st) (s_nodes st) (S (s_polls st)) (s_ponder st), invalid_score, []).
  Proof. intros H. rewrite ab_unfold. unfold ab_body, Search.poll. rewrite H. reflexivity. Qed.

End Contract.

Print Assumptions ab_spec.
Print Assumptions ab_contract.
Print Assumptions ab_window.
Print Assumptions ab_full_window.
Print Assumptions pv_sound.
Print Assumptions qs_contract.
Print Assumptions ab_search_spec.
Print Assumptions ab_frame.
Print Assumptions halt_reports.
Print Assumptions halt_restores_board.
Print Assumptions halt_writes_nothing_false.
Print Assumptions completed_search_contract.
Print Assumptions ab_contract_pure.
Print Assumptions ab_full_window_pure.
Print Assumptions pv_sound_pure.
Print Assumptions qs_contract_pure.
