(** MoveGen5 — pawn geometry (finite checks), the pawn bit boards of the move generator, and the
    specification's pawn moves in introduction / elimination form. *)
From Coq Require Import NArith ZArith List Bool Lia ZifyBool ZifyNat ZifyN.
From Morlock.Model Require Import Bits Attacks Move Position Abs.
From Morlock.Spec Require Import Chess.
From Morlock.Lemmas Require Import AttackGeometry AttackGeometry_Extra PositionLemmas MoveGen1 MoveGen2 MoveGen3 MoveGen4.
Import ListNotations.
Open Scope N_scope.

(** one step forward for a pawn of colour [turn] *)
Definition fwd (turn from : N) : N := if turn =? White then from + 8 else from - 8.

(** * finite geometry *)

Definition pawn_geo_at (turn from : N) : bool :=
  let s := N.to_nat from in let c := color_of turn in let d := pawn_dir c in
  let t1 := N.to_nat (fwd turn from) in let t2 := N.to_nat (fwd turn (fwd turn from)) in
  on_board (file_of s) (rank_of s + d) && Nat.eqb (sq_of (file_of s) (rank_of s + d)) t1 &&
  (file_of s =? file_of t1)%Z && (Z.abs (rank_of s - rank_of t1) =? 1)%Z &&
  (fwd turn from <? 64) &&
  Bool.eqb (rank_of s =? start_rank c)%Z (N.testbit (pawn_jump_rank turn) (fwd turn (fwd turn from))) &&
  implb (rank_of s =? start_rank c)%Z
        (Nat.eqb (sq_of (file_of s) (rank_of s + 2 * d)) t2 && (file_of s =? file_of t2)%Z &&
         (Z.abs (rank_of s - rank_of t2) =? 2)%Z && (fwd turn (fwd turn from) <? 64)) &&
  forallb (fun t => (t <? 64)%nat && negb (file_of s =? file_of t)%Z && (Z.abs (rank_of s - rank_of t) =? 1)%Z)
          (attacks_from free c P s).

Definition pawn_geo_ok (turn : N) : bool :=
  forallb (fun from => implb ((8 <=? from) && (from <? 56)) (pawn_geo_at turn from)) (seqN 64).
Lemma pawn_geo_ok_w : pawn_geo_ok 0 = true. Proof. vm_compute. reflexivity. Qed.
Lemma pawn_geo_ok_b : pawn_geo_ok 1 = true. Proof. vm_compute. reflexivity. Qed.

Lemma pawn_geo turn from : vcol turn -> 8 <= from < 56 -> pawn_geo_at turn from = true.
Proof.
  intros Hc Hf.
  assert (H : pawn_geo_ok turn = true) by (destruct Hc as [->| ->]; [apply pawn_geo_ok_w|apply pawn_geo_ok_b]).
  unfold pawn_geo_ok in H. rewrite forallb_forall in H.
  specialize (H from (proj2 (in_seqN64 from) ltac:(lia))).
  destruct (N.leb_spec 8 from); [|lia]. destruct (N.ltb_spec from 56); [|lia]. exact H.
Qed.

Definition promo_rank_ok (turn : N) : bool :=
  forallb (fun to => Bool.eqb (N.testbit (pawn_promotion_rank turn) to)
                              (rank_of (N.to_nat to) =? last_rank (color_of turn))%Z) (seqN 64).
Lemma promo_rank_ok_w : promo_rank_ok 0 = true. Proof. vm_compute. reflexivity. Qed.
Lemma promo_rank_ok_b : promo_rank_ok 1 = true. Proof. vm_compute. reflexivity. Qed.

Lemma tb_promos turn to : vcol turn -> to < 64 ->
  N.testbit (pawn_promotion_rank turn) to = (rank_of (N.to_nat to) =? last_rank (color_of turn))%Z.
Proof.
  intros Hc Ht.
  assert (H : promo_rank_ok turn = true) by (destruct Hc as [->| ->]; [apply promo_rank_ok_w|apply promo_rank_ok_b]).
  unfold promo_rank_ok in H. rewrite forallb_forall in H.
  specialize (H to (proj2 (in_seqN64 to) Ht)). now apply eqb_prop in H.
Qed.

Definition edge_ranks_ok : bool :=
  forallb (fun s => Bool.eqb (N.testbit (N.lor (bitrank 0) (bitrank 7)) s) ((s <? 8) || (56 <=? s))) (seqN 64).
Lemma edge_ranks_ok_true : edge_ranks_ok = true. Proof. vm_compute. reflexivity. Qed.

Lemma pawn_range p turn from : Inv p -> vcol turn ->
  N.land (N.lor (pget p White Pawn) (pget p Black Pawn)) (N.lor (bitrank 0) (bitrank 7)) = 0 ->
  N.testbit (pget p turn Pawn) from = true -> 8 <= from < 56.
Proof.
  intros HI Hc Hz Hb.
  assert (Hf : from < 64) by (eapply word_tb_lt; [apply pget_word; exact HI|exact Hb]).
  pose proof edge_ranks_ok_true as G. unfold edge_ranks_ok in G. rewrite forallb_forall in G.
  specialize (G from (proj2 (in_seqN64 from) Hf)). apply eqb_prop in G.
  destruct (N.testbit (N.lor (bitrank 0) (bitrank 7)) from) eqn:E.
  - exfalso. apply (proj1 (land_zero_bits _ _) Hz from); [|exact E].
    rewrite N.lor_spec. destruct Hc as [->| ->]; change (pget p 0 Pawn) with (pget p White Pawn) in Hb;
    change (pget p 1 Pawn) with (pget p Black Pawn) in Hb; rewrite Hb; auto using orb_true_r.
  - symmetry in G. apply orb_false_iff in G as [G1 G2]. lia.
Qed.

(** * the pawn boards *)

Lemma push_bit all turn from to : vcol turn -> 8 <= from < 56 ->
  (N.testbit (pawn_moveboard all turn (bitmask from)) to = true <->
   to = fwd turn from /\ N.testbit all to = false).
Proof.
  intros [->| ->] Hf; unfold pawn_moveboard, fwd; cbn [N.eqb White];
  rewrite N.land_spec, tb_not64.
  - rewrite tb_shl64, tb_bitmask. destruct (N.testbit all to); split; intros H; try lia; try (destruct H; discriminate).
  - rewrite AttackGeometry1.tb_shr64, tb_bitmask. destruct (N.testbit all to); split; intros H; try lia; try (destruct H; discriminate).
Qed.

Lemma jump_bit all turn from to : vcol turn -> 8 <= from < 56 ->
  (N.testbit (N.land (pawn_moveboard all turn (pawn_moveboard all turn (bitmask from))) (pawn_jump_rank turn)) to = true <->
   to = fwd turn (fwd turn from) /\ N.testbit all (fwd turn from) = false /\ N.testbit all to = false /\
   N.testbit (pawn_jump_rank turn) to = true).
Proof.
  intros Hc Hf. rewrite N.land_spec, andb_true_iff.
  set (pb := pawn_moveboard all turn (bitmask from)).
  assert (Hpb : forall x, N.testbit pb x = true <-> x = fwd turn from /\ N.testbit all x = false)
    by (intros x; apply push_bit; assumption).
  clearbody pb. unfold pawn_moveboard at 1. destruct Hc as [->| ->]; unfold fwd in *; cbn [N.eqb White] in *;
  rewrite N.land_spec, tb_not64.
  - rewrite tb_shl64. split.
    + intros [H HJ]. apply andb_true_iff in H as [H1 H2]. apply andb_true_iff in H1 as [H1 H3].
      apply Hpb in H3 as [E1 E2]. apply andb_true_iff in H1 as [H1 H4]. apply andb_true_iff in H2 as [_ H2].
      assert (E : to = from + 8 + 8) by lia. subst to. replace (from + 8 + 8 - 8) with (from + 8) in E2 by lia.
      apply negb_true_iff in H2. auto.
    + intros [-> [H1 [H2 H3]]]. split; [|exact H3].
      assert (Hlt : from + 8 + 8 < 64).
      { destruct (N.lt_ge_cases (from + 8 + 8) 64) as [L|L]; [exact L|].
        unfold pawn_jump_rank in H3. cbn [N.eqb] in H3.
        rewrite (high_bits_zero (bitrank 3)) in H3; [discriminate|vm_compute; reflexivity|exact L]. }
      rewrite H2. replace (from + 8 + 8 - 8) with (from + 8) by lia.
      rewrite (proj2 (Hpb (from + 8)) (conj eq_refl H1)).
      destruct (N.ltb_spec (from + 8 + 8) 64); [|lia]. destruct (N.leb_spec 8 (from + 8 + 8)); [|lia]. reflexivity.
  - rewrite AttackGeometry1.tb_shr64. split.
    + intros [H HJ]. apply andb_true_iff in H as [H1 H2]. apply Hpb in H1 as [E1 E2].
      apply andb_true_iff in H2 as [_ H2]. apply negb_true_iff in H2.
      assert (E : to = from - 8 - 8) by lia. subst to. replace (from - 8 - 8 + 8) with (from - 8) in E2 by lia. auto.
    + intros [-> [H1 [H2 H3]]]. split; [|exact H3].
      assert (16 <= from).
      { destruct (N.le_gt_cases 16 from) as [L|L]; [exact L|]. exfalso.
        assert (Hs : from - 8 - 8 = 0) by lia. rewrite Hs in H3. vm_compute in H3. discriminate. }
      rewrite H2. replace (from - 8 - 8 + 8) with (from - 8) by lia.
      rewrite (proj2 (Hpb (from - 8)) (conj eq_refl H1)).
      destruct (N.ltb_spec (from - 8 - 8) 64); [|lia]. reflexivity.
Qed.

Lemma capture_bit turn from to : vcol turn -> from < 64 ->
  N.testbit (pawn_captureboard turn (bitmask from)) to =
  (to <? 64) && mem_nat (N.to_nat to) (attacks_from free (color_of turn) P (N.to_nat from)).
Proof.
  intros Hc Hf. rewrite Statements.pawn_capture_geometric; [|exact Hc|apply bitmask_word].
  f_equal. change (if turn =? 0 then Wh else Bl) with (color_of turn). change (fun _ : nat => false) with free. apply bool_eq_iff.
  rewrite existsb_exists. split.
  - intros [s [_ H]]. apply andb_true_iff in H as [H1 H2]. rewrite tb_bitmask in H1.
    assert (E : s = N.to_nat from) by lia. now subst s.
  - intros H. exists (N.to_nat from). split; [apply in_all_squares; lia|].
    rewrite N_of_to, tb_bitmask, H. destruct (N.ltb_spec from 64); [|lia]. now rewrite N.eqb_refl.
Qed.

(** * the specification's pawn moves *)

Lemma pawn_moves_to_in c s t sm :
  In sm (pawn_moves_to c s t) <->
  (if (rank_of t =? last_rank c)%Z then exists k, In k promo_kinds /\ sm = mkSmove s t (Some k)
   else sm = mkSmove s t None).
Proof.
  unfold pawn_moves_to. destruct (rank_of t =? last_rank c)%Z.
  - rewrite in_map_iff. split; intros [k [H1 H2]]; exists k; auto.
  - cbn [In]. split; [intros [H|[]]; auto|auto].
Qed.

Section PawnSpec.
  Variables (sp : spos) (c : color) (s : nat).
  Let b := brd sp.
  Let f := file_of s.
  Let r := rank_of s.
  Let d := pawn_dir c.

  Lemma spec_push_in sm : on_board f (r + d) = true -> occupied b (sq_of f (r + d)) = false ->
    In sm (pawn_moves_to c s (sq_of f (r + d))) -> In sm (piece_moves sp c P s).
  Proof.
    intros H1 H2 H. cbn [piece_moves]. fold b f r d. cbv zeta. rewrite H1, H2. cbn [negb andb].
    apply in_or_app. now left.
  Qed.

  Lemma spec_jump_in : (r =? start_rank c)%Z = true -> occupied b (sq_of f (r + d)) = false ->
    occupied b (sq_of f (r + 2 * d)) = false -> In (mkSmove s (sq_of f (r + 2 * d)) None) (piece_moves sp c P s).
  Proof.
    intros H1 H2 H3. cbn [piece_moves]. fold b f r d. cbv zeta. rewrite H1, H2, H3. cbn [negb andb].
    apply in_or_app. right. apply in_or_app. left. now left.
  Qed.

  Lemma spec_cap_in t sm : In t (attacks_from (occupied b) c P s) -> is_color b (other c) t = true ->
    In sm (pawn_moves_to c s t) -> In sm (piece_moves sp c P s).
  Proof.
    intros H1 H2 H. cbn [piece_moves]. fold b f r d. cbv zeta.
    apply in_or_app. right. apply in_or_app. right. apply in_flat_map. exists t. split; [exact H1|].
    now rewrite H2.
  Qed.

  Lemma spec_ep_in t : In t (attacks_from (occupied b) c P s) -> is_color b (other c) t = false ->
    eps sp = Some t -> In (mkSmove s t None) (piece_moves sp c P s).
  Proof.
    intros H1 H2 H3. cbn [piece_moves]. fold b f r d. cbv zeta.
    apply in_or_app. right. apply in_or_app. right. apply in_flat_map. exists t. split; [exact H1|].
    rewrite H2, H3, Nat.eqb_refl. now left.
  Qed.

  Lemma spec_pawn_elim sm : In sm (piece_moves sp c P s) ->
    (on_board f (r + d) = true /\ occupied b (sq_of f (r + d)) = false /\ In sm (pawn_moves_to c s (sq_of f (r + d)))) \/
    ((r =? start_rank c)%Z = true /\ occupied b (sq_of f (r + d)) = false /\ occupied b (sq_of f (r + 2 * d)) = false /\
       sm = mkSmove s (sq_of f (r + 2 * d)) None) \/
    (exists t, In t (attacks_from (occupied b) c P s) /\ is_color b (other c) t = true /\ In sm (pawn_moves_to c s t)) \/
    (exists t, In t (attacks_from (occupied b) c P s) /\ is_color b (other c) t = false /\ eps sp = Some t /\
       sm = mkSmove s t None).
  Proof.
    cbn [piece_moves]. fold b f r d. cbv zeta. intros H.
    apply in_app_or in H as [H|H]; [|apply in_app_or in H as [H|H]].
    - left. destruct (on_board f (r + d)); [|destruct H].
      destruct (occupied b (sq_of f (r + d))); [destruct H|]. auto.
    - right. left. destruct (r =? start_rank c)%Z; [|destruct H].
      destruct (occupied b (sq_of f (r + d))); [destruct H|].
      destruct (occupied b (sq_of f (r + 2 * d))); [destruct H|].
      destruct H as [<-|[]]. auto.
    - right. right. apply in_flat_map in H as [t [Ht H]].
      destruct (is_color b (other c) t) eqn:E.
      + left. exists t. auto.
      + right. destruct (eps sp) as [e|] eqn:Ee; [|destruct H].
        destruct (Nat.eqb_spec e t) as [->|Hne]; [|destruct H].
        destruct H as [<-|[]]. exists t. auto.
  Qed.
End PawnSpec.

(** * the expected record of a pawn move *)

Lemma concretize_pawn sp c s t pr c' : at_ (brd sp) s = Some (c', P) ->
  concretize sp c (mkSmove s t pr) =
  mkMove (if match eps sp with
             | Some e => Nat.eqb e t && negb (file_of s =? file_of t)%Z && negb (occupied (brd sp) t)
             | None => false
             end then EnPassant
          else if (Z.abs (rank_of s - rank_of t) =? 2)%Z then Jump
          else if (rank_of t =? last_rank c)%Z
               then (if occupied (brd sp) t then CapturePromotion else Promotion)
               else (if occupied (brd sp) t then Capture else Push))
         (N.of_nat s) (N.of_nat t) Pawn (okind_code pr) (okind_code (captured sp (mkSmove s t pr))).
Proof.
  intros E. unfold concretize, expected_type, is_ep_move, is_castling_move, is_double_step, moving.
  cbn [sfrom sto spromo]. rewrite E. reflexivity.
Qed.
