(** FEN codec, part 3: the main theorems for C14 (round trip) and C19 (totality, well-formed results,
    re-encoding), the refutation of the decoder as found (uint8 cursor), non-vacuity. *)
From Coq Require Import NArith ZArith List Bool Lia ZifyBool ZifyNat ZifyN.
From Morlock.Model Require Import Bits Attacks Move Position Fen Abs EngineSpec.
From Morlock.Lemmas Require Import PositionLemmas FenLemmas1 FenLemmas2.
Import ListNotations.
Open Scope N_scope.

Definition max_int64 : Z := 9223372036854775807%Z.

(* ------------------------------------------------------------------ *)
(** * 1. totality and well-formed results *)

(** fen.Decode never panics (the repaired decoder; for the decoder as found see section 6) *)
Theorem decode_total s : decode s <> Crash.
Proof. unfold decode.
  destruct (split_space (trim_space s)) as [|brd [|col [|cas [|ep [|np [|fm [|x t]]]]]]]; try discriminate.
  destruct (parse_board brd 63%Z []) as [[pls sq]|]; [|discriminate].
  destruct (negb (sq =? -1)%Z); [discriminate|].
  destruct (parse_color col); [|discriminate]. destruct (parse_castling cas); [|discriminate].
  destruct (if str_eqb ep [45] then Some 0 else parse_square_str ep); [|discriminate].
  destruct (atoi np); [|discriminate]. destruct (atoi fm); [|discriminate].
  destruct ((z <? 0) || (z0 <? 0))%Z; [discriminate|].
  destruct (new_position pls n0 n1); discriminate. Qed.

(** ParseMove and ParseSquareStr are option-valued Gallina functions: there is no crash outcome *)
Remark parse_move_total s : parse_move s = None \/ exists m, parse_move s = Some m.
Proof. destruct (parse_move s) as [m|]; [right; now exists m | now left]. Qed.
Remark parse_square_str_total s : parse_square_str s = None \/ exists q, parse_square_str s = Some q /\ q < 64.
Proof. destruct (parse_square_str s) as [q|] eqn:E; [right; exists q; split; [reflexivity|now apply parse_square_str_lt in E] | now left]. Qed.

Lemma decode_ok_inv s pos c n f : decode s = Ok (pos, c, n, f) ->
  exists brd col cas ep np fm pls ca e,
    split_space (trim_space s) = [brd; col; cas; ep; np; fm] /\
    parse_board brd 63%Z [] = Some (pls, (-1)%Z) /\ parse_color col = Some c /\ parse_castling cas = Some ca /\
    (if str_eqb ep [45] then Some 0 else parse_square_str ep) = Some e /\
    atoi np = Some n /\ atoi fm = Some f /\ (0 <= n)%Z /\ (0 <= f)%Z /\ new_position pls ca e = Some pos.
Proof. unfold decode.
  destruct (split_space (trim_space s)) as [|brd [|col [|cas [|ep [|np [|fm [|x t]]]]]]]; try discriminate.
  destruct (parse_board brd 63%Z []) as [[pls sq]|] eqn:Eb; [|discriminate].
  destruct (Z.eqb_spec sq (-1)) as [->|Hne]; cbn [negb]; [|discriminate].
  destruct (parse_color col) as [c'|] eqn:Ec; [|discriminate]. destruct (parse_castling cas) as [ca|] eqn:Eca; [|discriminate].
  destruct (if str_eqb ep [45] then Some 0 else parse_square_str ep) as [e|] eqn:Ee; [|discriminate].
  destruct (atoi np) as [n'|] eqn:En; [|discriminate]. destruct (atoi fm) as [f'|] eqn:Ef; [|discriminate].
  destruct ((n' <? 0) || (f' <? 0))%Z eqn:Eneg; [discriminate|].
  destruct (new_position pls ca e) as [pos'|] eqn:Enp; [|discriminate].
  intros H. inversion H; subst. exists brd, col, cas, ep, np, fm, pls, ca, e.
  repeat split; auto; lia. Qed.

(** every accepted FEN yields a well-formed value: representation invariant, colour w/b, clocks >= 0 *)
Theorem decode_wf s d : decode s = Ok d -> wf_value d = true.
Proof. destruct d as [[[pos c] n] f]. intros H.
  destruct (decode_ok_inv _ _ _ _ _ H) as [brd [col [cas [ep [np [fm [pls [ca [e [_ [Hb [Hc [Hca [He [_ [_ [Hn [Hf Hnp]]]]]]]]]]]]]]]]]].
  unfold wf_value.
  assert (HI : Inv pos).
  { eapply new_position_inv; [| | |exact Hnp].
    - eapply parse_board_ok; [|exact Hb]. constructor.
    - eapply parse_castling_lt; exact Hca.
    - destruct (str_eqb ep [45]); [inversion He; reflexivity | eapply parse_square_str_lt; exact He]. }
  apply inv_b_iff in HI. rewrite HI. apply parse_color_cases in Hc.
  destruct Hc as [->| ->]; cbn [White Black N.eqb orb andb]; lia. Qed.

(** C19, first half: an error or a well-formed value, never a crash *)
Corollary decode_err_or_wf s : decode s = Err \/ exists d, decode s = Ok d /\ wf_value d = true.
Proof. destruct (decode s) as [d| |] eqn:E.
  - right. exists d. split; [reflexivity | now apply decode_wf in E].
  - now left.
  - exfalso. now apply (decode_total s). Qed.

Lemma decode_clocks s pos c n f : decode s = Ok (pos, c, n, f) -> (0 <= n <= max_int64)%Z /\ (0 <= f <= max_int64)%Z.
Proof. intros H.
  destruct (decode_ok_inv _ _ _ _ _ H) as [brd [col [cas [ep [np [fm [pls [ca [e [_ [_ [_ [_ [_ [Hn [Hf [Hn0 [Hf0 _]]]]]]]]]]]]]]]]]].
  apply atoi_range in Hn, Hf. unfold max_int64. lia. Qed.

(* ------------------------------------------------------------------ *)
(** * 3. decode (encode ...) *)

Definition ep_str (e : N) : str := if e =? 0 then [45] else square_str e.

Lemma ep_roundtrip_all :
  forallb (fun e => match (if str_eqb (ep_str e) [45] then Some 0 else parse_square_str (ep_str e)) with
                    | Some e' => e' =? e | None => false end
                    && forallb (fun r => negb (is_space r)) (ep_str e)) (seqN 64) = true.
Proof. vm_compute. reflexivity. Qed.

Lemma ep_roundtrip e : e < 64 ->
  (if str_eqb (ep_str e) [45] then Some 0 else parse_square_str (ep_str e)) = Some e /\ nospace (ep_str e).
Proof. intros He. pose proof ep_roundtrip_all as H. rewrite forallb_forall in H.
  specialize (H e (lt64_in e He)). apply andb_true_iff in H as [H1 H2]. split.
  - destruct (if str_eqb (ep_str e) [45] then Some 0 else parse_square_str (ep_str e)) as [e'|]; [|discriminate].
    apply N.eqb_eq in H1. now subst.
  - rewrite forallb_forall in H2. apply Forall_forall. intros r Hr. specialize (H2 r Hr). now apply negb_true_iff in H2. Qed.

Lemma encode_fields pos c np fm :
  encode pos c np fm =
  join_space [board_str pos; (if c =? White then [119] else [98]); print_castling (castling pos);
              ep_str (enpassant pos); itoa np; itoa fm].
Proof. reflexivity. Qed.

(** C14: Encode then Decode gives back the identical position (Leibniz equality: all 14 piece words,
    the 4 rotated occupancy words, castling rights, e.p. square), side to move and clocks. *)
Theorem decode_encode pos c np fm :
  Inv pos -> (c = 0 \/ c = 1) -> (0 <= np <= max_int64)%Z -> (0 <= fm <= max_int64)%Z ->
  decode (encode pos c np fm) = Ok (pos, c, np, fm).
Proof. intros HI Hc Hnp Hfm. unfold max_int64 in *.
  pose proof HI as [_ [_ [_ [_ [_ [_ [Hca Hep]]]]]]].
  destruct (board_str_nospace pos HI) as [Hb1 Hb2].
  destruct (castling_roundtrip _ Hca) as [Hc1 [Hc2 _]].
  destruct (ep_roundtrip _ Hep) as [He1 He2].
  destruct (itoa_nospace np Hnp) as [Hn1 _]. destruct (itoa_nospace fm Hfm) as [Hf1 Hf2].
  assert (Hcol : nospace (if c =? White then [119] else [98])).
  { destruct (c =? White); repeat constructor. }
  rewrite encode_fields. unfold decode.
  rewrite trim_join_six by assumption. rewrite split_six by assumption.
  rewrite (parse_board_encode pos HI). rewrite Z.eqb_refl. cbn [negb].
  match goal with |- context[parse_color ?x] =>
    assert (Ecol : parse_color x = Some c) by (destruct Hc as [->| ->]; reflexivity); rewrite Ecol end.
  rewrite Hc1, He1. rewrite !atoi_itoa by lia.
  assert (Eneg : ((np <? 0) || (fm <? 0))%Z = false) by lia. rewrite Eneg.
  rewrite (new_position_board pos HI). reflexivity. Qed.

Lemma listN_eqb_refl l : listN_eqb l l = true.
Proof. induction l as [|x l IH]; [reflexivity|]. cbn. now rewrite N.eqb_refl, IH. Qed.
Lemma pos_eqb_refl p : pos_eqb p p = true.
Proof. unfold pos_eqb, rot_eqb. now rewrite listN_eqb_refl, !N.eqb_refl. Qed.

(** the same in the weaker form of the task statement: equality of all 18 words *)
Corollary decode_encode_eqb pos c np fm :
  Inv pos -> (c = 0 \/ c = 1) -> (0 <= np <= max_int64)%Z -> (0 <= fm <= max_int64)%Z ->
  exists pos', decode (encode pos c np fm) = Ok (pos', c, np, fm) /\ pos_eqb pos' pos = true.
Proof. intros. exists pos. split; [now apply decode_encode | apply pos_eqb_refl]. Qed.

(* ------------------------------------------------------------------ *)
(** * 4. canonical FENs: decode then encode reproduces the string *)

Definition encode_d (d : decoded) : str := let '(pos, c, np, fm) := d in encode pos c np fm.

Theorem encode_decode_canonical s pos c np fm :
  Inv pos -> (c = 0 \/ c = 1) -> (0 <= np <= max_int64)%Z -> (0 <= fm <= max_int64)%Z ->
  s = encode pos c np fm ->
  exists d, decode s = Ok d /\ encode_d d = s.
Proof. intros HI Hc Hnp Hfm ->. exists (pos, c, np, fm). split; [now apply decode_encode | reflexivity]. Qed.

(** [encode] depends on the position only through its squares, castling rights and e.p. square *)
Lemma rank_str_ext a b : (forall s, square a s = square b s) -> forall sqs k, rank_str a sqs k = rank_str b sqs k.
Proof. intros H. induction sqs as [|s r IH]; intros k; [reflexivity|].
  cbn [rank_str]. rewrite H. destruct (square b s) as [[c p]|]; now rewrite IH. Qed.

Lemma encode_rank_ext a b r : (forall s, square a s = square b s) -> encode_rank a r = encode_rank b r.
Proof. intros H.
  transitivity ([] ++ rank_str a (map (fun f => new_square (8 - f - 1) (8 - r - 1)) (seqN 8)) 0).
  - exact (encode_rank_gen a r (seqN 8) [] 0).
  - rewrite (rank_str_ext a b H). symmetry. exact (encode_rank_gen b r (seqN 8) [] 0). Qed.

Theorem encode_ext a b c np fm : (forall s, square a s = square b s) -> castling a = castling b ->
  enpassant a = enpassant b -> encode a c np fm = encode b c np fm.
Proof. intros H Hc He. rewrite !encode_fields, Hc, He. do 2 f_equal.
  rewrite !board_str_concat. f_equal. apply map_ext. intros r. now rewrite (encode_rank_ext a b r H). Qed.

(** hence: a string is canonical iff it is the encoding of what it decodes to; and then any value with
    the same squares, rights, e.p. square, side and clocks re-encodes to it *)
Corollary canonical_reencode s pos c np fm pos' :
  Inv pos -> (c = 0 \/ c = 1) -> (0 <= np <= max_int64)%Z -> (0 <= fm <= max_int64)%Z ->
  s = encode pos c np fm ->
  (forall q, square pos' q = square pos q) -> castling pos' = castling pos -> enpassant pos' = enpassant pos ->
  decode s = Ok (pos, c, np, fm) /\ encode pos' c np fm = s.
Proof. intros HI Hc Hnp Hfm -> Hs Hca Hep. split; [now apply decode_encode | now apply encode_ext]. Qed.

(** the hypothesis "canonical" is needed: the decoder is lenient.  This accepted string ("44" for "8",
    'W', castling letters in another order, e.p. "h1" (silently no e.p.), "+0", "01") decodes to the initial
    position and therefore re-encodes to [fen_initial], not to itself. *)
Definition fen_lenient : str :=
  [32;114;110;98;113;107;98;110;114;112;112;112;112;112;112;112;112;47;52;52;47;56;47;56;47;56;47;
   80;80;80;80;80;80;80;80;47;82;78;66;81;75;66;78;82;32;87;32;113;107;81;75;32;104;49;32;43;48;32;48;49;10].
Example lenient_not_canonical :
  match decode fen_lenient with
  | Ok d => str_eqb (encode_d d) fen_initial && negb (str_eqb (encode_d d) fen_lenient)
  | _ => false
  end = true.
Proof. vm_compute. reflexivity. Qed.

(** the clock hypotheses are needed: a negative clock is printed with a sign and then rejected *)
Example negative_clock_rejected : decode (encode (empty_position 0 0) 0 (-1) 1) = Err.
Proof. vm_compute. reflexivity. Qed.

(* ------------------------------------------------------------------ *)
(** * 5. C19, second half: any accepted FEN re-encodes to a FEN that decodes to the same value *)

Theorem decode_reencode s pos c np fm :
  decode s = Ok (pos, c, np, fm) -> decode (encode pos c np fm) = Ok (pos, c, np, fm).
Proof. intros H. pose proof (decode_wf _ _ H) as Hwf. destruct (decode_clocks _ _ _ _ _ H) as [Hn Hf].
  unfold wf_value in Hwf. apply andb_true_iff in Hwf as [Hwf _]. apply andb_true_iff in Hwf as [Hwf _].
  apply andb_true_iff in Hwf as [HI Hc]. apply inv_b_iff in HI.
  apply decode_encode; try assumption. lia. Qed.

Corollary decode_reencode_eqb s pos c np fm :
  decode s = Ok (pos, c, np, fm) ->
  exists pos', decode (encode pos c np fm) = Ok (pos', c, np, fm) /\ pos_eqb pos' pos = true.
Proof. intros H. exists pos. split; [now apply (decode_reencode s) | apply pos_eqb_refl]. Qed.

(** the encoding of an accepted FEN is a fixed point of decode-then-encode (it is canonical) *)
Corollary reencode_canonical s d : decode s = Ok d -> exists d', decode (encode_d d) = Ok d' /\ encode_d d' = encode_d d.
Proof. destruct d as [[[pos c] np] fm]. intros H. exists (pos, c, np, fm). split; [|reflexivity].
  cbn [encode_d]. now apply (decode_reencode s). Qed.

(* ------------------------------------------------------------------ *)
(** * 6. the decoder as found: uint8 cursor, NewPosition's error dropped *)

Definition is_ascii_letter (r : N) : bool := ((65 <=? r) && (r <=? 90)) || ((97 <=? r) && (r <=? 122)).
Definition eights (n : nat) : str := repeat 56 n.
Definition empty_ranks : str := [56;47;56;47;56;47;56;47;56;47;56;47;56;47;56].   (* "8/8/8/8/8/8/8/8" *)

(** "8/8/8/8/8/8/8/8K" ++ 31 x "8" ++ "7": the cursor wraps to 255, a king is placed on square 255 -> panic *)
Example decode_legacy_crash :
  decode_board_legacy is_ascii_digit is_ascii_letter (empty_ranks ++ [75] ++ eights 31 ++ [55]) = Crash.
Proof. vm_compute. reflexivity. Qed.

(** "k7/8/8/8/8/8/8/8/" ++ 24 x "8" ++ "K7/8/8/8/8/8/8/8": a8 is filled twice; nil position, nil error *)
Example decode_legacy_nil :
  decode_board_legacy is_ascii_digit is_ascii_letter
    ([107;55;47] ++ [56;47;56;47;56;47;56;47;56;47;56;47;56;47] ++ eights 24 ++
     [75;55;47] ++ [56;47;56;47;56;47;56;47;56;47;56;47;56]) = Ok None.
Proof. vm_compute. reflexivity. Qed.

(** the repaired decoder rejects both *)
Example decode_repaired_rejects :
  parse_board (empty_ranks ++ [75] ++ eights 31 ++ [55]) 63%Z [] = None /\
  parse_board ([107;55;47] ++ [56;47;56;47;56;47;56;47;56;47;56;47;56;47] ++ eights 24 ++
     [75;55;47] ++ [56;47;56;47;56;47;56;47;56;47;56;47;56]) 63%Z [] = None.
Proof. split; vm_compute; reflexivity. Qed.

(* ------------------------------------------------------------------ *)
(** * non-vacuity: the initial position *)

Example initial_roundtrip :
  match decode fen_initial with
  | Ok (pos, c, np, fm) =>
      inv_b pos && (c =? 0) && (np =? 0)%Z && (fm =? 1)%Z && str_eqb (encode pos c np fm) fen_initial
  | _ => false
  end = true.
Proof. vm_compute. reflexivity. Qed.

Print Assumptions decode_total.
Print Assumptions decode_wf.
Print Assumptions decode_encode.
Print Assumptions encode_decode_canonical.
Print Assumptions decode_reencode.
Print Assumptions encode_ext.
Print Assumptions decode_legacy_crash.
Print Assumptions decode_legacy_nil.
Print Assumptions initial_roundtrip.
